import json,sys
rows=[json.loads(l) for l in open('/verif/.work/seed_all.jsonl') if l.strip()]
print('rows',len(rows))
for r in rows:
    p=r['property']; c=r['checks'].get(p,{})
    ok = c.get('rc')==1 and c.get('violations',0)>0
    flags=[]
    if not ok: flags.append('MISSED rc=%s v=%s'%(c.get('rc'),c.get('violations')))
    if c.get('no_failing_input'): flags.append('nfi')
    if c.get('internal'): flags.append('internal=%s'%str(c.get('internal'))[:200])
    if not r.get('demo_passes_without_patch'): flags.append('demo-fails-unpatched')
    if not r.get('demo_fails_with_patch'): flags.append('demo-passes-patched')
    if not r.get('suite_passes_with_patch'): flags.append('suite-fails')
    if flags: print(r['seed'],flags)
