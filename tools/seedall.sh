#!/bin/bash
# all seeds against their own property's quick check; C06 seeds one at a time (they regenerate Lean sources)
cd /verif
ls seeded | grep -v C06 | grep -v '\.txt$' | sed 's|^|seeded/|' | SEEDTEST_SNAPSHOT=1 xargs ./seedtest.py --jobs 8 > .work/seed_all.jsonl 2> .work/seed_all.err
SEEDTEST_SNAPSHOT=1 ./seedtest.py --jobs 1 seeded/C06-* >> .work/seed_all.jsonl 2>> .work/seed_all.err
echo done > .work/seed_all.DONE
