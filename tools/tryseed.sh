#!/bin/sh
# .work/tryseed.sh <seed-name> [<check-id>]  — apply a seeded change to /repo, run one quick check, undo. Developer tool.
export GOFLAGS=-mod=mod GOPROXY=off GOSUMDB=off GOTOOLCHAIN=local
s=$1; p=${2:-$(echo $s | cut -d- -f1)}
rm -f /verif/replays/$p-quick-*.json
git -C /repo apply /verif/seeded/$s/patch.diff || exit 2
(cd /verif && ./check $p --tier quick 2>&1 | grep -v conda | grep "VIOLATION\|INTERNAL\|KNOWN" | head -3)
for f in $(ls -t /verif/replays/$p-quick-* 2>/dev/null | head -1); do python3 -c "
import json,sys;e=json.load(open('$f'));print('  what:',e.get('what','')[:300]);print('  sig:',e.get('signature','')[:300])"; done
git -C /repo checkout -- .
git -C /repo status --short | head -3
