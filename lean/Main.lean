import DyntplV.Driver
def main : IO Unit := DyntplV.Driver.main
