import DyntplV.DriverC20
/-! Stand-alone line driver for the C20 requests (`lake env lean --run TestC20.lean`, or compiled by
    /verif/.work/build_drv_c20.sh). Same protocol as `DyntplV.Driver`: one request per line. -/
open DyntplV

partial def loopC20 (hin hout : IO.FS.Stream) : IO Unit := do
  let line ← hin.getLine
  if line.isEmpty then return ()
  let l := String.ofList (line.toList.filter (fun c => c != '\n' && c != '\r'))
  let toks := (l.splitOn " ").filter (· ≠ "")
  hout.putStrLn ((DriverC20.answer toks).getD "bad-op")
  loopC20 hin hout

def main : IO Unit := do
  let hin ← IO.getStdin
  let hout ← IO.getStdout
  loopC20 hin hout
  hout.flush
