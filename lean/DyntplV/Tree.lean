import DyntplV.Basic
/-!
  Node tree as produced by the real parser (mirror of `tree_node.go` / `tree_types.go`).

  `RawNode` carries every field the dump hook prints; `Node` is the same tree with, per node type,
  only the fields that `writeNode` reads for that type (fields a node type does not read are
  dropped by `Node.ofRaw`, so a harmless change of an unread field does not disturb the tie).
-/
namespace DyntplV

/-- `op` of tree_types.go. -/
inductive Op | unk | eq | nq | gt | gtq | lt | ltq | inc | dec
  deriving DecidableEq, Repr, Inhabited

def Op.ofCode : Nat → Op
  | 1 => .eq | 2 => .nq | 3 => .gt | 4 => .gtq | 5 => .lt | 6 => .ltq | 7 => .inc | 8 => .dec | _ => .unk

/-- `op.Swap()`. -/
def Op.swap : Op → Op
  | .gt => .lt | .gtq => .ltq | .lt => .gt | .ltq => .gtq | o => o

structure Arg where
  name : Bytes
  val : Bytes
  static : Bool
  global : Bool
  deriving DecidableEq, Repr, Inhabited

structure Mod where
  id : Bytes
  args : List Arg
  deriving DecidableEq, Repr, Inhabited

/-- Everything a condition needs (`typeCond`, and the `xif` forms). -/
structure CondSpec where
  l : Bytes
  r : Bytes
  staticL : Bool
  staticR : Bool
  op : Op
  hlp : Bytes
  hlpArg : List Arg
  lc : Nat            -- 0 none, 1 len, 2 cap
  deriving DecidableEq, Repr, Inhabited

structure CaseSpec where
  l : Bytes
  r : Bytes
  staticL : Bool
  staticR : Bool
  op : Op
  hlp : Bytes
  hlpArg : List Arg
  deriving DecidableEq, Repr, Inhabited

structure CLoopSpec where
  cnt : Bytes
  cntInit : Bytes
  cntStatic : Bool
  cntOp : Op
  condOp : Op
  lim : Bytes
  limStatic : Bool
  sep : Bytes
  deriving DecidableEq, Repr, Inhabited

structure RLoopSpec where
  key : Bytes
  val : Bytes
  src : Bytes
  sep : Bytes
  deriving DecidableEq, Repr, Inhabited

structure CtxSpec where
  var : Bytes
  src : Bytes
  ok : Bytes
  srcStatic : Bool
  ins : Bytes
  mods : List Mod
  deriving DecidableEq, Repr, Inhabited

structure CntrSpec where
  var : Bytes
  init : Int
  initF : Bool
  op : Op
  opArg : Int
  deriving DecidableEq, Repr, Inhabited

/-- `{% if v, ok := helper(args).(ins); ok %}`: the two variables, the inspector name, and the condition
    fields (`hlp`, `hlpArg` = the helper call; `l`, `r`, `op` = the trailing `ok` / `!ok` test). -/
structure CondOKSpec where
  varV : Bytes
  varOK : Bytes
  ins : Bytes
  cd : CondSpec
  deriving DecidableEq, Repr, Inhabited

/-- Node tree, one constructor per `rtype`. -/
inductive Node
  | raw (b : Bytes)
  | tpl (path : Bytes) (mods : List Mod) (noesc : Bool) (pre suf : Bytes)
  | cond (c : CondSpec) (child : List Node)
  | condOK (k : CondOKSpec) (child : List Node)
  | condTrue (child : List Node)
  | condFalse (child : List Node)
  | rloop (s : RLoopSpec) (child : List Node)
  | cloop (s : CLoopSpec) (child : List Node)
  | brk (d : Nat)
  | lbrk (d : Nat)
  | cont
  | ctx (s : CtxSpec)
  | counter (s : CntrSpec)
  | switch (arg : Bytes) (child : List Node)
  | case_ (c : CaseSpec) (child : List Node)
  | default_ (child : List Node)
  | div
  | jsonQ | endJsonQ | htmlE | endHtmlE | urlEnc | endUrlEnc
  | incl (names : List Bytes)
  | exit
  | unknown
  deriving Repr, Inhabited

/-- A registered template: its key and its parsed nodes. -/
abbrev Registry := List (Bytes × List Node)

def Registry.getBKeys (reg : Registry) : List Bytes → Option (List Node)
  | [] => none
  | k :: ks => match reg.lookup k with
    | some t => some t
    | none => Registry.getBKeys reg ks

end DyntplV
