import DyntplV.Conc.Model
import DyntplV.DriverC04
/-!
# Driver request `conc` (property C06): replay one schedule on the interleaving model

Request (one line, space separated tokens):

    conc [U:<method>,<method>,..] <thread>,<thread>,.. <tid> <tid> ...

* `U:<method>,..` (optional) — registry methods to treat as UNPROTECTED (`set`, `getKey`, `getID`, `getKey1`,
  `getBKeys`); default: all protected (the discipline `Props/C06.lean` proves sufficient and `generated_locks_ok`
  finds in /repo).
* threads, comma separated, numbered from 0 in the order given — except `I:` entries, which are not threads:
  * `I:<keyhex>:<ver>`       initial registration (applied in order before the start; `RegisterTplKey`)
  * `W:<keyhex>:<ver>`       writer thread: `RegisterTplKey(key, version ver)`
  * `R:<keyhex>+<keyhex>..`  reader thread: `Write(key)`, then one include lookup per further key, then render
* the schedule: thread ids; each occurrence executes the next atomic instruction of that thread
  (reader: `rlock, rdIdx, rdSlot, runlock` per lookup, then `render`; writer: `lock, find, dropHash, slot, idxID,
  idxKey, hash, unlock`).

Answer: `<status> <r>..` — status `ok`, or `blocked:<pos>` / `bad:<pos>` if the instruction at schedule position
`pos` (0-based) cannot execute (`blocked`: `rlock`/`lock` has to wait; `bad`: no such thread, thread finished, mutex
error); the replay stops there.  Then one token per reader thread, in thread order: `<tid>=<v>/<v>/..` with the
versions its finished lookups returned so far (`nf` = not found, `-` = none finished), suffixed by `!` once the
thread has rendered.  A malformed request answers `bad-op`.
-/
namespace DyntplV.DriverC06
open DyntplV DyntplV.Reg DyntplV.Conc

def verTree (v : Nat) : Tree := ⟨1000 + v, v⟩

structure Setup where
  init : List Op
  specs : List ThreadSpec
  readers : List Nat

def parseThreads : List String → Setup → Option Setup
  | [], acc => some acc
  | tok :: rest, acc =>
    match tok.splitOn ":" with
    | ["I", key, v] =>
      match DriverC04.unhexStr key, v.toNat? with
      | some key, some v => parseThreads rest { acc with init := acc.init ++ [⟨-1, key, verTree v⟩] }
      | _, _ => none
    | ["W", key, v] =>
      match DriverC04.unhexStr key, v.toNat? with
      | some key, some v => parseThreads rest { acc with specs := acc.specs ++ [.writer (-1) key (verTree v)] }
      | _, _ => none
    | ["R", keys] =>
      match (keys.splitOn "+").mapM DriverC04.unhexStr with
      | some (k :: incs) =>
        parseThreads rest { acc with
          specs := acc.specs ++ [.reader (.key k :: incs.map (fun i => Query.bkeys [i])) acc.specs.length],
          readers := acc.readers ++ [acc.specs.length] }
      | _ => none
    | _ => none

def render0 : RenderFn := fun _ _ => []

/-- Why thread `i` cannot step. -/
def stuck (s : Sys) (i : Nat) : String :=
  match s.threads[i]? with
  | some t =>
    match t.prog with
    | .rlock :: _ => if s.rw.writer.isSome then "blocked" else "bad"
    | .lock :: _ => if s.rw.writer.isSome ∨ s.rw.readers ≠ 0 then "blocked" else "bad"
    | _ => "bad"
  | none => "bad"

def replay (s : Sys) : List String → Nat → Option (String × Sys)
  | [], _ => some ("ok", s)
  | tok :: rest, pos =>
    match tok.toNat? with
    | none => none
    | some i =>
      match step render0 s i with
      | some s' => replay s' rest (pos + 1)
      | none => some (s!"{stuck s i}:{pos}", s)

def readerTok (s : Sys) (i : Nat) : String :=
  match s.threads[i]? with
  | some t =>
    let vs := t.found.map (fun f => match f.res with | some sl => toString sl.tree.src | none => "nf")
    s!"{i}=" ++ (if vs.isEmpty then "-" else "/".intercalate vs) ++ (if t.out.isSome then "!" else "")
  | none => s!"{i}=?"

def run (unprot : List String) (threads : String) (sched : List String) : String :=
  match parseThreads (threads.splitOn ",") ⟨[], [], []⟩ with
  | none => "bad-op"
  | some st =>
    let g : Guards := fun m => !unprot.contains m
    match replay (Sys.init g (Reg.run st.init) st.specs) sched 0 with
    | none => "bad-op"
    | some (status, s) => " ".intercalate (status :: st.readers.map (readerTok s))

/-- Answer a `conc …` request given as its list of tokens; `none` if the request is of another kind. -/
def answer (toks : List String) : Option String :=
  match toks with
  | "conc" :: first :: rest =>
    match first.splitOn ":" with
    | ["U", ms] =>
      match rest with
      | threads :: sched => some (run (ms.splitOn ",") threads sched)
      | [] => some "bad-op"
    | _ => some (run [] first rest)
  | ["conc"] => some "bad-op"
  | _ => none

end DyntplV.DriverC06
