import DyntplV.Impl
import DyntplV.QB
/-!
# C14 — break, continue and lazybreak end exactly the loops they name

The mechanism of the (repaired) code: `break N` / `lazybreak N` register the number of loops to end in
`ctx.brkD` (at least 1); `break` and `continue` additionally abort the current body; every loop that finds a
pending depth after its body consumes one level and stops; a loop node preserves the depth pending
for its parents.  The laws below are about the loop functions with ANY body (`run`), so they hold for
every nest, every placement and every depth.
-/
namespace DyntplV.C14
open DyntplV

/-! ### The instructions -/

theorem break_node (reg : Registry) (f : Nat) (d : Nat) (s : St) :
    writeNode reg (f+1) (.brk d) s = fail { s with c := { s.c with brkD := max s.c.brkD (max d 1) } } .breakLoop := by
  rw [writeNode]

/-- `lazybreak` registers the depth and returns NO error: the rest of the iteration (also the rest of an
    enclosing if-block) still runs. -/
theorem lazybreak_node (reg : Registry) (f : Nat) (d : Nat) (s : St) :
    writeNode reg (f+1) (.lbrk d) s = ok { s with c := { s.c with brkD := max s.c.brkD (max d 1) } } := by
  rw [writeNode]

theorem continue_node (reg : Registry) (f : Nat) (s : St) :
    writeNode reg (f+1) .cont s = fail s .contLoop := by
  rw [writeNode]

/-- A break aborts the rest of the body at once; a lazybreak does not. -/
theorem break_skips_rest (reg : Registry) (f : Nat) (d : Nat) (rest : List Node) (s : St) :
    (writeSeq reg (f+2) (.brk d :: rest) s).err = some .breakLoop ∧
    (writeSeq reg (f+2) (.brk d :: rest) s).st.w = s.w := by
  rw [writeSeq, break_node]
  simp [Res.andThen, fail]

theorem lazybreak_runs_rest (reg : Registry) (f : Nat) (d : Nat) (rest : List Node) (s : St) :
    writeSeq reg (f+2) (.lbrk d :: rest) s =
      writeSeq reg (f+1) rest { s with c := { s.c with brkD := max s.c.brkD (max d 1) } } := by
  rw [writeSeq, lazybreak_node]
  simp [Res.andThen, ok]

/-! ### After the body of an iteration (both loop kinds share `iterAfterBody`) -/

/-- **A pending depth ends the loop and is consumed**: if the body (run to its end, or aborted by
    break / continue) leaves `brkD = d+1`, the loop stops and leaves `d` levels for its parents. -/
theorem pending_stops (rb : Res) (d : Nat)
    (hbody : rb.err = none ∨ ∃ e, rb.err = some e ∧ isSentinel e = true) (hd : rb.st.c.brkD = d + 1) :
    iterAfterBody rb = .stop { rb.st with c := { rb.st.c with brkD := d } } := by
  unfold iterAfterBody
  rcases hbody with h | ⟨e, h, hs⟩
  · simp [h, hd]
  · simp [h, hs, hd]

/-- **No pending depth: the loop goes on** (body ran to its end, or `continue`). -/
theorem no_pending_continues (rb : Res)
    (hbody : rb.err = none ∨ rb.err = some .contLoop) (hd : rb.st.c.brkD = 0) :
    iterAfterBody rb = .next rb.st := by
  unfold iterAfterBody
  rcases hbody with h | h
  · simp [h, hd]
  · simp [h, hd, isSentinel]

/-- Any other error (also `exit`'s interrupt) aborts the loop with that error in `ctx.Err`. -/
theorem error_aborts (rb : Res) (e : Err) (h : rb.err = some e) (hs : isSentinel e = false) :
    iterAfterBody rb = .abort { rb.st with c := { rb.st.c with err := some e, brkD := rb.st.c.brkD - 1 } } := by
  unfold iterAfterBody
  simp [h, hs]

/-- A `break` always leaves a depth of at least one, so the loop it stands in always stops. -/
theorem break_stops_own_loop (reg : Registry) (f : Nat) (d : Nat) (s : St) :
    ∃ k, iterAfterBody (writeNode reg (f+1) (.brk d) s) =
      .stop { (writeNode reg (f+1) (.brk d) s).st with c := { (writeNode reg (f+1) (.brk d) s).st.c with brkD := k } } ∧
      k + 1 = max s.c.brkD (max d 1) := by
  rw [break_node]
  have : ∃ k, max s.c.brkD (max d 1) = k + 1 := ⟨max s.c.brkD (max d 1) - 1, by omega⟩
  obtain ⟨k, hk⟩ := this
  refine ⟨k, ?_, hk.symm⟩
  exact pending_stops _ k (Or.inr ⟨.breakLoop, rfl, rfl⟩) hk

/-! ### Range loop: what the two outcomes mean for the remaining elements -/

theorem rloop_stop_ignores_rest (run : St → Res) (ls : RLoopSpec) (k : Bytes) (v : Val) (ik : InsKind)
    (rest : List (Bytes × Val × InsKind)) (n : Nat) (s st : St)
    (hsep : (sepWrite n ls.sep (rIterStart ls k v ik s)).err = none)
    (h : iterAfterBody (run (sepWrite n ls.sep (rIterStart ls k v ik s)).st) = .stop st) :
    rloopLoop run ls ((k, v, ik) :: rest) n s = ⟨n + 1, st, false⟩ := by
  rw [rloopLoop]; simp [hsep, h]

theorem rloop_next_runs_rest (run : St → Res) (ls : RLoopSpec) (k : Bytes) (v : Val) (ik : InsKind)
    (rest : List (Bytes × Val × InsKind)) (n : Nat) (s st : St)
    (hsep : (sepWrite n ls.sep (rIterStart ls k v ik s)).err = none)
    (h : iterAfterBody (run (sepWrite n ls.sep (rIterStart ls k v ik s)).st) = .next st) :
    rloopLoop run ls ((k, v, ik) :: rest) n s = rloopLoop run ls rest (n + 1) st := by
  rw [rloopLoop]; simp [hsep, h]

/-! ### The loop node keeps what is pending for the parents -/

/-- A loop node runs its loop with depth 0 and afterwards restores the larger of: the depth that was
    pending before it (a sibling's `break N` in the same body), and what its own loop left over. -/
theorem loopNode_depth (loop : St → Res) (s : St) :
    (loopNode loop s).st.c.brkD = max s.c.brkD (loop { s with c := { s.c with brkD := 0 } }).st.c.brkD := by
  unfold loopNode
  simp only
  split
  · rfl
  · split
    · unfold loopErrRes; split <;> rfl
    · rfl

/-- In particular a pending depth survives a sibling loop that itself breaks nothing. -/
theorem pending_survives_sibling (loop : St → Res) (s : St)
    (h : (loop { s with c := { s.c with brkD := 0 } }).st.c.brkD = 0) :
    (loopNode loop s).st.c.brkD = s.c.brkD := by
  rw [loopNode_depth, h]; simp

/-- The loop inside a loop node always starts with nothing pending: it cannot be ended by a depth
    that was meant for the enclosing loops. -/
theorem loopNode_starts_clean (loop : St → Res) (s : St) :
    ∃ r, r = loop { s with c := { s.c with brkD := 0 } } ∧ (loopNode loop s).st.w = r.st.w := by
  refine ⟨_, rfl, ?_⟩
  unfold loopNode
  simp only
  split
  · rfl
  · split
    · rw [loopErrRes_w]
    · rfl

/-- A `break` / `continue` in the for-else branch of an inner loop reaches the parent loop as the returned
    signal and is NOT left in `ctx.Err` (the repaired defect: the render used to end with the error
    "break loop"). -/
theorem else_signal_not_kept (loop : St → Res) (s : St) (e : Err) (hs : isSentinel e = true)
    (h1 : (loop { s with c := { s.c with brkD := 0 } }).err = none)
    (h2 : (loop { s with c := { s.c with brkD := 0 } }).st.c.err = some e) :
    (loopNode loop s).err = some e ∧ (loopNode loop s).st.c.err = none := by
  unfold loopNode
  simp only [h1, h2]
  unfold loopErrRes
  simp [hs, fail]

/-! ### The conditional forms are the instruction wrapped in an `if`

  The parser turns `{% break N if c %}` into a condition node whose only child is the instruction; a
  condition node whose first child is a true-wrapper around the instruction is the `if` block. Both
  evaluate the same condition and then the same instruction. -/
theorem xif_true (reg : Registry) (f : Nat) (cd : CondSpec) (instr : Node) (s : St) (c1 : Ctx) (pend : Option Err)
    (h : evalCond s.c cd = (c1, .branch true pend)) :
    writeNode reg (f+1) (.cond cd [instr]) s = writeNode reg f instr { s with c := c1 } := by
  rw [writeNode]; simp [h]

theorem xif_false (reg : Registry) (f : Nat) (cd : CondSpec) (instr : Node) (s : St) (c1 : Ctx) (pend : Option Err)
    (h : evalCond s.c cd = (c1, .branch false pend)) :
    writeNode reg (f+1) (.cond cd [instr]) s = ⟨{ s with c := c1 }, pend⟩ := by
  rw [writeNode]; simp [h]

/-- For the three instructions the wrapped form gives the same result (state and signal). -/
theorem xif_eq_wrapped (reg : Registry) (f : Nat) (cd : CondSpec) (instr : Node) (s : St)
    (hi : (∃ d, instr = .brk d) ∨ (∃ d, instr = .lbrk d) ∨ instr = .cont) :
    writeNode reg (f+4) (.cond cd [instr]) s = writeNode reg (f+4) (.cond cd [.condTrue [instr]]) s := by
  rw [writeNode, writeNode]
  generalize evalCond s.c cd = ec
  obtain ⟨c1, o⟩ := ec
  cases o with
  | stop e => rfl
  | branch r pend =>
    cases r with
    | false => simp
    | true =>
      simp only [List.getElem?_cons_zero, if_true]
      rcases hi with ⟨d, rfl⟩ | ⟨d, rfl⟩ | rfl
      · rw [break_node, writeNode, writeSeq, break_node]; simp [Res.andThen, fail]
      · rw [lazybreak_node, writeNode, writeSeq, lazybreak_node]; simp [Res.andThen, ok, writeSeq]
      · rw [continue_node, writeNode, writeSeq, continue_node]; simp [Res.andThen, fail]

/-! Non-vacuity: `break 2` in a three-level nest ends exactly two loops (the model run). -/
def nest3 : List Node :=
  let inner : Node := .rloop ⟨[], lit "c", lit "l", []⟩ [.raw (lit "x"), .brk 2]
  let mid : Node := .rloop ⟨[], lit "b", lit "l", []⟩ [inner, .raw (lit "m")]
  [.rloop ⟨[], lit "a", lit "l", []⟩ [.raw (lit "["), mid, .raw (lit "]")]]

example :
    (write [] 60 nest3 { c := ({} : Ctx).set (lit "l") (.strs [lit "1", lit "2"]) .strings, w := {} }).st.w.out
      = lit "[xm][xm]" := by decide

/-- A range-loop source without a square bracket is taken as it is, inside counter loops too (the substitution of
    `m[i]` — repair of `Ctx.rloop` — touches bracketed sources only); the loop starts with `ctx.Err` cleared (repair:
    an error an earlier tag had left there used to be handed to the caller by a loop over an unset variable). -/
theorem rloopQB_plain (run : St → Res) (re : Option (St → Res)) (ls : RLoopSpec) (s : St)
    (hb : indexOf 91 ls.src = none) :
    rloopQB run re ls s = rloopWith run re ls { s with c := { s.c with err := none } } := by
  unfold rloopQB cmpPath
  cases s.c.chQB <;> simp [replaceQB_plain _ _ hb]

/-- … and from a state without a pending error that is the loop at that very state. -/
theorem rloopQB_plain_clean (run : St → Res) (re : Option (St → Res)) (ls : RLoopSpec) (s : St)
    (hb : indexOf 91 ls.src = none) (he : s.c.err = none) : rloopQB run re ls s = rloopWith run re ls s := by
  rw [rloopQB_plain run re ls s hb]
  have : ({ s with c := { s.c with err := none } } : St) = s := by
    cases s with | mk c w => cases c; simp at he; subst he; rfl
  rw [this]

end DyntplV.C14
