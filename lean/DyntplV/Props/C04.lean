import DyntplV.Db
import DyntplV.DbLemmas
/-!
# C04 — lookups always see the latest registration; `Parse` returns its own source's tree

Property theorems only (model: `DyntplV/Db.lean`, lemmas: `DyntplV/DbLemmas.lean`).

Histories are lists of registrations `Op` (oldest first), of unbounded length; `run hist` is the registry
after the history.  All lookup theorems assume only that the key↔ID pairing of the history is
`Consistent` (a key is always registered with the same ID or with none, an ID with the same key or with
none) — a decidable condition on the history.

*What "the latest registration under a name" means.*  `lastKey k hist` / `lastID i hist` (Db.lean) is
the tree of the latest registration that gives the name, **or** that gives the other name of a pair
`RegisterTpl(id, key, _)` registered earlier: once an ID and a key have been registered together they
are two names of one template, so `RegisterTplKey(key, B)` also changes what `RenderByID(id)` shows.
Without that clause the statement is false for the registry (history `R(0,k0,A); K(k0,B)`, lookup by
ID 0 gives `B`); for histories that never register a paired name alone (`PairedOnly`) the clause is
void and the plain two-map reference `Spec` applies literally (`set_refines`).
-/
namespace DyntplV.C04
open DyntplV DyntplV.Reg

/-! ## (a) lookups see the latest registration -/

/-- **By key** (`Render` / `Write`): the tree found is the tree of the latest registration concerning the
    key; nothing is found iff there was none. -/
theorem lookup_latest_key (hist : List Op) (hc : Consistent hist) (k : Bytes) :
    ((run hist).getKey k).map (·.tree) = lastKey k hist :=
  getKey_tree (inv_run hc) k

/-- **By ID** (`RenderByID` / `WriteByID`). -/
theorem lookup_latest_id (hist : List Op) (hc : Consistent hist) (i : Int) :
    ((run hist).getID i).map (·.tree) = lastID i hist :=
  getID_tree (inv_run hc) i

/-- **By key with fallback** (`RenderFallback` / `WriteFallback`): the key's latest registration if it
    has one, else the fallback key's. -/
theorem lookup_fallback (hist : List Op) (hc : Consistent hist) (k fb : Bytes) :
    ((run hist).getKey1 k fb).map (·.tree) = (lastKey k hist).or (lastKey fb hist) := by
  have hinv := inv_run hc
  rw [getKey1_eq hinv, ← lookup_latest_key hist hc k, ← lookup_latest_key hist hc fb]
  cases (run hist).getKey k <;> simp

/-- **Through an include** (`{% include k1 k2 … %}`): the first name of the list that has a registration,
    with its latest registration. -/
theorem lookup_bkeys (hist : List Op) (hc : Consistent hist) (ks : List Bytes) :
    ((run hist).getBKeys ks).map (·.tree) = ks.findSome? (fun k => lastKey k hist) :=
  getBKeys_tree (inv_run hc) ks

/-- **Refinement of the two-map reference.**  For every history with a consistent pairing in which no
    name is registered alone after it was registered as part of a pair, the two-map view `abs` of the
    registry answers every lookup exactly like the reference that simply stores the tree under every
    name a registration gives. -/
theorem set_refines (hist : List Op) (hc : Consistent hist) (hp : PairedOnly hist) :
    (∀ k, (abs (run hist)).getKey k = (Spec.run hist).getKey k) ∧
    (∀ i, (abs (run hist)).getID i = (Spec.run hist).getID i) := by
  have hinv := inv_run hc
  have hc' := consistent_reverse hc
  constructor
  · intro k
    rw [abs_getKey hinv, getKey_tree hinv, Spec.run_eq, spec_key _ hc' hp]
  · intro i
    rw [abs_getID hinv, getID_tree hinv, Spec.run_eq, spec_id _ hc' hp]

/-- The same, said about the registry's own lookups. -/
theorem set_refines_lookup (hist : List Op) (hc : Consistent hist) (hp : PairedOnly hist) :
    (∀ k, ((run hist).getKey k).map (·.tree) = (Spec.run hist).getKey k) ∧
    (∀ i, ((run hist).getID i).map (·.tree) = (Spec.run hist).getID i) := by
  have hinv := inv_run hc
  have h := set_refines hist hc hp
  exact ⟨fun k => by rw [← abs_getKey hinv]; exact h.1 k, fun i => by rw [← abs_getID hinv]; exact h.2 i⟩

/-! ## (b) unknown names -/

/-- A key no registration ever gave is not found. -/
theorem notfound_none (hist : List Op) (hc : Consistent hist) (k : Bytes)
    (hk : ∀ o ∈ hist, o.key ≠ k) : (run hist).getKey k = none := by
  have := lookup_latest_key hist hc k
  rw [lastKey, lastKeyR_none (fun o ho => hk o (List.mem_reverse.1 ho))] at this
  exact Option.map_eq_none_iff.1 this

/-- An ID no registration ever gave is not found. -/
theorem notfound_none_id (hist : List Op) (hc : Consistent hist) (i : Int)
    (hi : ∀ o ∈ hist, o.id ≠ i) : (run hist).getID i = none := by
  have := lookup_latest_id hist hc i
  rw [lastID, lastIDR_none (fun o ho => hi o (List.mem_reverse.1 ho))] at this
  exact Option.map_eq_none_iff.1 this

/-- Key and fallback key both unknown: not found. -/
theorem notfound_none_fallback (hist : List Op) (hc : Consistent hist) (k fb : Bytes)
    (hk : ∀ o ∈ hist, o.key ≠ k) (hfb : ∀ o ∈ hist, o.key ≠ fb) : (run hist).getKey1 k fb = none := by
  rw [getKey1_eq (inv_run hc), notfound_none hist hc k hk, notfound_none hist hc fb hfb]

/-- Every name of the include list unknown: not found. -/
theorem notfound_none_bkeys (hist : List Op) (hc : Consistent hist) (ks : List Bytes)
    (hk : ∀ k ∈ ks, ∀ o ∈ hist, o.key ≠ k) : (run hist).getBKeys ks = none := by
  have := lookup_bkeys hist hc ks
  rw [List.findSome?_eq_none_iff.2 (fun k hkm => by
    rw [lastKey]; exact lastKeyR_none (fun o ho => hk k hkm o (List.mem_reverse.1 ho)))] at this
  exact Option.map_eq_none_iff.1 this

/-- A failed lookup yields the not-found error and leaves the writer exactly as it was. -/
theorem notfound_writes_nothing (hist : List Op) (hc : Consistent hist) (k : Bytes)
    (hk : ∀ o ∈ hist, o.key ≠ k) (render : Tree → Bytes) (w : Bytes) :
    writeWith ((run hist).getKey k) render w = (w, true) := by
  rw [notfound_none hist hc k hk]; rfl

/-! ## (c) `Parse` returns its own source's tree -/

/-- After any history of registrations of trees that were produced by `Parse` (their checksum is the
    checksum of their source), and for a checksum function that is injective on the sources in play,
    `Parse s` returns a tree built from `s` — whatever was registered, replaced or restored before.
    No assumption on the names. -/
theorem parse_own_source (h : Nat → Nat) (hist : List Op) (s : Nat)
    (htrees : ∀ o ∈ hist, o.tree.hsum = h o.tree.src)
    (hinj : ∀ a ∈ s :: hist.map (·.tree.src), ∀ b ∈ s :: hist.map (·.tree.src), h a = h b → a = b) :
    (parse h (run hist) s).src = s := by
  have hinv : HInv h (s :: hist.map (·.tree.src)) (run hist) := by
    rw [run_eq]
    apply hinv_runR
    intro o ho
    have ho' := List.mem_reverse.1 ho
    exact ⟨htrees o ho', List.mem_cons_of_mem _ (List.mem_map.2 ⟨o, ho', rfl⟩)⟩
  exact (parse_spec hinv hinj s (by simp)).1

/-- Interleaved `Parse` / register sessions (`SOp`: a registration registers the tree returned by an
    earlier `Parse`, so every registered tree was produced by `Parse` by construction): if the checksum
    function is injective on the parsed sources, the `n`-th `Parse` returns a tree of the `n`-th parsed
    source, for every session of any length. -/
theorem parse_own_source_session (h : Nat → Nat) (ops : List SOp)
    (hinj : ∀ a ∈ parsedSrcs ops, ∀ b ∈ parsedSrcs ops, h a = h b → a = b) :
    (Sess.exec h ops).trees.map (·.src) = parsedSrcs ops := by
  have := sinv_exec hinj ops Sess.empty
    ⟨hinv_empty h _, by intro t ht; simp [Sess.empty] at ht⟩ (fun a ha => ha)
  simpa [Sess.exec, Sess.empty] using this

/-- **The verdict goes with the tree** (repair ab3ba44: `Tree.err`). `Parse` returns, next to the tree, the verdict
    the parser gave on the source THAT TREE was built from (`rej t.src`; for a tree built now, on this source). After
    any history of registrations — of trees of accepted and of rejected sources alike — the verdict `Parse s` returns
    is the verdict on `s`: a rejected source is rejected every time, an accepted one accepted. (Before the repair
    the short-cut returned `nil` with a registered tree, i.e. `false` here, whatever `rej s`.) -/
theorem parse_verdict_own_source (h : Nat → Nat) (rej : Nat → Bool) (hist : List Op) (s : Nat)
    (htrees : ∀ o ∈ hist, o.tree.hsum = h o.tree.src)
    (hinj : ∀ a ∈ s :: hist.map (·.tree.src), ∀ b ∈ s :: hist.map (·.tree.src), h a = h b → a = b) :
    rej (parse h (run hist) s).src = rej s := by
  rw [parse_own_source h hist s htrees hinj]

/-! ## Non-vacuity: concrete histories -/

section examples
def kA : Bytes := lit "a"
def kB : Bytes := lit "b"
def tA : Tree := ⟨100, 0⟩
def tB : Tree := ⟨101, 1⟩
def tC : Tree := ⟨102, 2⟩
/-- checksum: source n ↦ 100 + n -/
def hx (n : Nat) : Nat := 100 + n

/-- A → B → A on one key, then `RegisterTplID(7)` followed by `RegisterTpl(7, b)`, then the key `b` alone. -/
def histABA : List Op :=
  [⟨-1, kA, tA⟩, ⟨-1, kA, tB⟩, ⟨-1, kA, tA⟩, ⟨7, noKey, tB⟩, ⟨7, kB, tC⟩, ⟨-1, kB, tA⟩]

example : Consistent histABA := by decide
example : lastKey kA histABA = some tA := by decide
example : ((run histABA).getKey kA).map (·.tree) = some tA := by decide
-- the overwritten slot really went through B
example : ((run (histABA.take 2)).getKey kA).map (·.tree) = some tB := by decide
-- ID 7 and key b were paired by the fifth registration: the sixth (key b alone) is seen through ID 7
example : ((run histABA).getID 7).map (·.tree) = some tA := by decide
example : lastID 7 histABA = some tA := by decide
example : ¬ PairedOnly histABA := by decide
-- RegisterTplID then RegisterTpl: the key is found (repair 2)
example : ((run (histABA.take 5)).getKey kB).map (·.tree) = some tC := by decide
example : Consistent (histABA.take 5) ∧ PairedOnly (histABA.take 5) := by decide
example : (Spec.run (histABA.take 5)).getKey kB = some tC ∧ (Spec.run (histABA.take 5)).getID 7 = some tC := by
  decide
-- fallback and include list with missing names
example : ((run histABA).getKey1 (lit "zz") kA).map (·.tree) = some tA := by decide
example : ((run histABA).getBKeys [lit "zz", kB, kA]).map (·.tree) = some tA := by decide
example : (run histABA).getBKeys [lit "zz", lit "yy"] = none := by decide
example : (run histABA).getKey (lit "zz") = none := by decide
example : (run histABA).getID 8 = none := by decide
example : writeWith ((run histABA).getKey (lit "zz")) (fun _ => lit "X") (lit "w") = (lit "w", true) := by decide
-- an inconsistent history is rejected by the hypothesis: ID 7 with two different keys
example : ¬ Consistent [⟨7, kA, tA⟩, ⟨7, kB, tB⟩] := by decide

-- Parse after A → B on one key returns A's own tree (repair 1), and a new tree for an unseen source
example : parse hx (run (histABA.take 2)) 0 = ⟨100, 0⟩ := by decide
example : (parse hx (run histABA) 1).src = 1 ∧ (parse hx (run histABA) 5).src = 5 := by decide
example : ∀ o ∈ histABA, o.tree.hsum = hx o.tree.src := by decide

/-- Session: parse A, register under a; parse B, overwrite; parse A again (own tree), register (restore A);
    parse B again. -/
def sessABA : List SOp :=
  [.parse 0, .reg (-1) kA 0, .parse 1, .reg (-1) kA 1, .parse 0, .reg (-1) kA 2, .parse 1]

example : parsedSrcs sessABA = [0, 1, 0, 1] := by decide
example : ((Sess.exec hx sessABA).trees.map (·.src)) = [0, 1, 0, 1] := by decide
example : ∀ a ∈ parsedSrcs sessABA, ∀ b ∈ parsedSrcs sessABA, hx a = hx b → a = b := by decide
-- the injectivity hypothesis is necessary: with a colliding checksum the second source gets the first one's tree
example : ((Sess.exec (fun _ => 7) [.parse 0, .reg (-1) kA 0, .parse 1]).trees.map (·.src)) = [0, 0] := by
  decide
end examples

end DyntplV.C04
