import DyntplV.Props.C16
import DyntplV.Props.C01

/-!
# C16, composed: a chain of includes of any depth renders like the inlined text

    T 0     = c
    T (i+1) = a · {% include T i %} · b

`Props/C16.lean` proves include ≙ inlining for one tag. This file composes it **for every depth `i`** (up to the
engine's include limit): rendering `T i` writes exactly `a^i · c · b^i` — what the fully inlined source writes —,
returns no error and leaves the context as it found it (the include depth is back where it was).
-/

namespace DyntplV.C16N
open DyntplV DyntplV.C01

def T (a b c : Bytes) (nm : Nat → Bytes) : Nat → List Node
  | 0 => [.raw c]
  | i+1 => [.raw a, .incl [nm i], .raw b]

/-- The text of `T i` with every include tag replaced by the included template's text. -/
def inlined (a b c : Bytes) : Nat → Bytes
  | 0 => c
  | i+1 => a ++ inlined a b c i ++ b

theorem seq_raw (reg : Registry) (f : Nat) (b : Bytes) (st : St) (hb : st.c.bnd = []) (hw : st.w.failAt = none) :
    writeSeq reg (f + 2) [.raw b] st = ok { st with w := { st.w with out := st.w.out ++ b, writes := st.w.writes + 1 } } := by
  rw [writeSeq.eq_3, raw_emits reg f b st hb hw, ok_andThen, writeSeq.eq_2]

theorem ctx_incD_roundtrip (c : Ctx) : ({ ({ c with incD := c.incD + 1 } : Ctx) with incD := c.incD + 1 - 1 } : Ctx) = c := by
  cases c; simp

/-- **Chains of includes.** For every depth `i` within the include limit, on a healthy writer outside regions:
    one render of `T i` appends exactly the inlined text, without error, and the context is unchanged. -/
theorem chain_renders (reg : Registry) (a b c : Bytes) (nm : Nat → Bytes) (g : Nat) :
    ∀ (i : Nat), (∀ j, j < i → reg.getBKeys [nm j] = some (T a b c nm j)) →
      ∀ (s : St), s.c.bnd = [] → s.w.failAt = none → s.c.incD + i ≤ maxIncDepth →
        (writeTree reg (4 * i + 3 + g) (T a b c nm i) s).err = none ∧
        (writeTree reg (4 * i + 3 + g) (T a b c nm i) s).st.c = s.c ∧
        (writeTree reg (4 * i + 3 + g) (T a b c nm i) s).st.w.out = s.w.out ++ inlined a b c i ∧
        (writeTree reg (4 * i + 3 + g) (T a b c nm i) s).st.w.failAt = none := by
  intro i
  induction i with
  | zero =>
    intro _ s hb hw _
    have hf : 4 * 0 + 3 + g = (g + 2) + 1 := by omega
    rw [hf]
    simp only [T]
    rw [writeTree]
    simp only []
    rw [writeSeq.eq_3, raw_emits reg g c s hb hw, ok_andThen, writeSeq.eq_2]
    simp [ok, inlined, hw]
  | succ i ih =>
    intro hreg s hb hw hd
    have hlook : reg.getBKeys [nm i] = some (T a b c nm i) := hreg i (by omega)
    have hf : 4 * (i + 1) + 3 + g = (4 * i + 3 + g + 3) + 1 := by omega
    rw [hf]
    simp only [T]
    rw [writeTree]
    simp only []
    rw [writeSeq.eq_3, raw_emits reg (4 * i + 3 + g + 1) a s hb hw, ok_andThen, writeSeq.eq_3, writeNode]
    have hnd : ¬ (s.c.incD ≥ maxIncDepth) := by omega
    simp only [hlook, hnd, if_false]
    -- the nested render into the scratch writer
    have ihs := ih (fun j hj => hreg j (by omega))
      { c := { s.c with incD := s.c.incD + 1 }, w := {} } hb rfl (by show s.c.incD + 1 + i ≤ maxIncDepth; omega)
    obtain ⟨he, hc, ho, hfa⟩ := ihs
    generalize writeTree reg (4 * i + 3 + g) (T a b c nm i) { c := { s.c with incD := s.c.incD + 1 }, w := {} } = r at he hc ho hfa
    have hout : r.st.w.out = inlined a b c i := by simpa using ho
    have hctx : ({ r.st.c with incD := r.st.c.incD - 1 } : Ctx) = s.c := by
      rw [hc]; exact ctx_incD_roundtrip s.c
    unfold inclFinish
    simp only [he, hctx, hout]
    rw [write_appends _ _ (by exact hw), ok_andThen]
    have hf2 : 4 * i + 3 + g + 1 = (4 * i + 2 + g) + 2 := by omega
    rw [hf2, seq_raw reg (4 * i + 2 + g) b]
    · simp [ok, inlined, hw, List.append_assoc]
    · exact hb
    · exact hw

/-! Non-vacuity: a concrete registry of depth 3 meets the lookup hypothesis, and the model run agrees. -/
def nm3 (i : Nat) : Bytes := [116, (48 + i).toUInt8]   -- "t0", "t1", …
def reg3 : Registry := [(nm3 0, T (lit "<") (lit ">") (lit "x") nm3 0), (nm3 1, T (lit "<") (lit ">") (lit "x") nm3 1),
  (nm3 2, T (lit "<") (lit ">") (lit "x") nm3 2)]

example : ∀ j, j < 3 → reg3.getBKeys [nm3 j] = some (T (lit "<") (lit ">") (lit "x") nm3 j) := by
  intro j hj
  have : j = 0 ∨ j = 1 ∨ j = 2 := by omega
  rcases this with rfl | rfl | rfl <;> rfl
example : (writeTree reg3 40 (T (lit "<") (lit ">") (lit "x") nm3 3) { c := {}, w := {} }).st.w.out = lit "<<<x>>>" := by decide
example : inlined (lit "<") (lit ">") (lit "x") 3 = lit "<<<x>>>" := by decide

end DyntplV.C16N
