import DyntplV.Impl
import DyntplV.Props.C07
import DyntplV.Props.C08
import DyntplV.Props.C09
/-!
# Bound tags (regions): everything rendered inside is escaped (C07 / C08 / C09, region clauses)

The interpreter keeps the open `jsonquote` / `htmlescape` / `urlencode` tags on a stack (`Ctx.bnd`, the
innermost first); every byte string that reaches the writer from a raw node, a print node (prefix, value
unless marked raw, suffix) or a loop separator goes through `regionEscape`.
-/
namespace DyntplV.Regions
open DyntplV

/-- **Once more than outside.** With a tag `b` opened innermost, what is written for `p` is what would be
    written without that tag for `b`'s escaping of `p`. -/
theorem inner_once_more (c : Ctx) (b : Bound) (p : Bytes) :
    regionEscape { c with bnd := b :: c.bnd } p = regionEscape c (b.esc p) := by
  simp [regionEscape]

/-- Outside every region nothing is changed. -/
theorem outside_unchanged (c : Ctx) (p : Bytes) (h : c.bnd = []) : regionEscape c p = p := by
  simp [regionEscape, h]

/-- The escaping of the outermost open tag is applied last: the bytes written are in its image. -/
theorem outermost_last (c : Ctx) (outer : Bound) (inner : List Bound) (p : Bytes) (h : c.bnd = inner ++ [outer]) :
    regionEscape c p = outer.esc (regionEscape { c with bnd := inner } p) := by
  simp [regionEscape, h, List.foldl_append]

/-- Opening a tag pushes it, the matching end tag pops it again: the stack after `{% b %}…{% endb %}`
    (with balanced content) is the stack before. -/
theorem open_close (bnd : List Bound) (b : Bound) : (b :: bnd).erase b = bnd := by
  simp

/-- An end tag closes the INNERMOST open tag of its kind and leaves the others (a different tag opened
    later stays open). -/
theorem close_skips_other (bnd : List Bound) (b o : Bound) (h : o ≠ b) : (o :: bnd).erase b = o :: bnd.erase b := by
  simp [List.erase_cons, h]

theorem jsonQ_node (reg : Registry) (f : Nat) (s : St) :
    writeNode reg (f+1) .jsonQ s = ok { s with c := { s.c with bnd := .json :: s.c.bnd } } := by rw [writeNode]
theorem htmlE_node (reg : Registry) (f : Nat) (s : St) :
    writeNode reg (f+1) .htmlE s = ok { s with c := { s.c with bnd := .html :: s.c.bnd } } := by rw [writeNode]
theorem urlEnc_node (reg : Registry) (f : Nat) (s : St) :
    writeNode reg (f+1) .urlEnc s = ok { s with c := { s.c with bnd := .url :: s.c.bnd } } := by rw [writeNode]
theorem endJsonQ_node (reg : Registry) (f : Nat) (s : St) :
    writeNode reg (f+1) .endJsonQ s = ok { s with c := { s.c with bnd := s.c.bnd.erase .json } } := by rw [writeNode]
theorem endHtmlE_node (reg : Registry) (f : Nat) (s : St) :
    writeNode reg (f+1) .endHtmlE s = ok { s with c := { s.c with bnd := s.c.bnd.erase .html } } := by rw [writeNode]
theorem endUrlEnc_node (reg : Registry) (f : Nat) (s : St) :
    writeNode reg (f+1) .endUrlEnc s = ok { s with c := { s.c with bnd := s.c.bnd.erase .url } } := by rw [writeNode]

/-- Static text is written through `regionEscape`. -/
theorem raw_in_region (reg : Registry) (f : Nat) (b : Bytes) (s : St) :
    writeNode reg (f+1) (.raw b) s = s.write (regionEscape s.c b) := by rw [writeNode]

/-- The three parts of a print node are written through `regionEscape` (the value unless marked raw). -/
theorem print_in_region (s : St) (pre t suf : Bytes) :
    tplWrites s pre t suf false =
      ((if pre.isEmpty then ok s else s.write (regionEscape s.c pre)).andThen fun s1 =>
       (s1.write (regionEscape s.c t)).andThen fun s2 =>
       if suf.isEmpty then ok s2 else s2.write (regionEscape s.c suf)) := by
  simp [tplWrites]

/-- Loop separators too. -/
theorem sep_in_region (n : Nat) (sep : Bytes) (s : St) (hn : 0 < n) (hs : sep ≠ []) :
    sepWrite n sep s = s.write (regionEscape s.c sep) := by
  unfold sepWrite
  have : sep.isEmpty = false := by cases sep <;> simp_all
  simp [hn, this]

/-! ### What the reader of the output gets (composition with the escaper theorems) -/

/-- Inside an (outermost) `jsonquote` region every chunk written is a JSON string body that decodes to what
    would have been written without the region. -/
theorem json_region_decodes (c : Ctx) (inner : List Bound) (p : Bytes) (h : c.bnd = inner ++ [.json]) :
    Json.unescape (regionEscape c p) = some (regionEscape { c with bnd := inner } p) ∧
    Json.alphabetOK (regionEscape c p) = true := by
  rw [outermost_last c .json inner p h]
  exact ⟨C07.json_roundtrip _, C07.json_alphabet _⟩

/-- … inside an `htmlescape` region: HTML-safe text that decodes to what would have been written. -/
theorem html_region_decodes (c : Ctx) (inner : List Bound) (p : Bytes) (h : c.bnd = inner ++ [.html]) :
    Html.unescape (regionEscape c p) = some (regionEscape { c with bnd := inner } p) ∧
    Html.alphabetOK (regionEscape c p) = true := by
  rw [outermost_last c .html inner p h]
  exact ⟨C08.html_roundtrip _, C08.html_alphabet _⟩

/-- … inside a `urlencode` region: URL-safe text that decodes to what would have been written. -/
theorem url_region_decodes (c : Ctx) (inner : List Bound) (p : Bytes) (h : c.bnd = inner ++ [.url]) :
    Url.queryUnescape (regionEscape c p) = some (regionEscape { c with bnd := inner } p) ∧
    Url.wellFormed (regionEscape c p) = true := by
  rw [outermost_last c .url inner p h]
  exact ⟨C09.url_roundtrip _, C09.url_alphabet _⟩

/-- **Regions are lexical.** An outermost rendering starts outside every region, whatever an earlier rendering
    on the same context left open (exit, error, missing end tag): nothing of this rendering is escaped because
    of a tag of another one. -/
theorem render_starts_outside_regions (reg : Registry) (fuel : Nat) (nodes : List Node) (s : St) :
    write reg fuel nodes s = writeBody reg fuel nodes s.topStart ∧ s.topStart.c.bnd = [] ∧
    s.topStart.c.vars = s.c.vars ∧ s.topStart.w = s.w := ⟨rfl, rfl, rfl, rfl⟩

/-- … in particular what an open tag of the previous rendering would have done to the first chunk does not happen. -/
theorem leftover_region_ignored (c : Ctx) (p : Bytes) : regionEscape ({ c := c, w := {} } : St).topStart.c p = p := by
  simp [St.topStart, regionEscape]

/-! Non-vacuity: nested and mixed regions. -/
example : regionEscape { bnd := [.json, .html] } (lit "<\"") = Html.escape (Json.escape (lit "<\"")) := by decide
example : ([Bound.json, .html, .json] : List Bound).erase .json = [.html, .json] := by decide
example : ([Bound.html, .json] : List Bound).erase .json = [.html] := by decide

end DyntplV.Regions
