import DyntplV.Basic
/-!
# C19 — steady-state rendering performs no heap allocation (partial)

What can be modelled: every per-render store of `Ctx` (`vars`, `w`, `kv`, the `rl` chain, `bufLC`, `bufS`,
`bufA`, `dfr`, `ipv`, and the byte buffers `BufAcc`, `bufMO`, `bufCB`, `buf`) is grow-only: `Reset` truncates
the length and keeps the capacity.  A render is characterised by the peak length it needs of each store;
an append beyond the capacity is a *growth event* (an allocation).  The theorem: once a render has run,
rendering again with the same demands (same template, same data: the interpreter is a function) causes no
growth event, with or without a `Reset` in between, and capacities never shrink.

What cannot be modelled: Go's allocator and escape analysis (boxing a non-pointer value into an
interface, closures).  The model PREDICTS zero; the check MEASURES `testing.AllocsPerRun`.
-/
namespace DyntplV.C19

/-- Capacities of the stores, and the demands of one render (same length lists, by position). -/
abbrev Caps := List Nat
abbrev Demand := List Nat

/-- A render grows every store to at least its demand. -/
def render (caps : Caps) (need : Demand) : Caps := List.zipWith max caps need

/-- Number of growth events (stores whose demand exceeds the capacity). -/
def growths (caps : Caps) (need : Demand) : Nat := ((List.zip caps need).filter (fun p => p.1 < p.2)).length

/-- `Reset` keeps capacities. -/
def reset (caps : Caps) : Caps := caps

theorem render_ge (caps : Caps) (need : Demand) (h : caps.length = need.length) :
    ∀ p ∈ List.zip (render caps need) need, p.2 ≤ p.1 := by
  induction caps generalizing need with
  | nil => intro p hp; simp [render] at hp
  | cons c cs ih =>
    cases need with
    | nil => simp at h
    | cons n ns =>
      intro p hp
      simp only [render, List.zipWith_cons_cons, List.zip_cons_cons, List.mem_cons] at hp
      rcases hp with rfl | hp
      · exact Nat.le_max_right _ _
      · exact ih ns (by simpa using h) p hp

/-- **Fixpoint**: after one render, the same render causes no growth event (also across `Reset`). -/
theorem store_fixpoint (caps : Caps) (need : Demand) (h : caps.length = need.length) :
    growths (reset (render caps need)) need = 0 := by
  unfold growths reset
  have := render_ge caps need h
  rw [List.length_eq_zero_iff, List.filter_eq_nil_iff]
  intro p hp
  have := this p hp
  simp; omega

/-- Capacities never shrink. -/
theorem caps_monotone (caps : Caps) (need : Demand) (h : caps.length = need.length) :
    ∀ p ∈ List.zip caps (render caps need), p.1 ≤ p.2 := by
  induction caps generalizing need with
  | nil => intro p hp; simp at hp
  | cons c cs ih =>
    cases need with
    | nil => simp at h
    | cons n ns =>
      intro p hp
      simp only [render, List.zipWith_cons_cons, List.zip_cons_cons, List.mem_cons] at hp
      rcases hp with rfl | hp
      · exact Nat.le_max_left _ _
      · exact ih ns (by simpa using h) p hp

example : growths [0, 0, 4] [3, 1, 2] = 2 := by decide
example : growths (render [0, 0, 4] [3, 1, 2]) [3, 1, 2] = 0 := by decide

end DyntplV.C19
