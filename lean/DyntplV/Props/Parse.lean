import DyntplV.Parser.Pre
import DyntplV.Parser.Compile
import DyntplV.Impl
/-!
# Parser oracle: theorems about `pre` and `compile`

`Parser/Pre.lean` models the pre-processing of `Parse` (`cutComments`, `cutFmt`), `Parser/Compile.lean`
says which tree a generated template MEANS.  The tie to the real parser is the differential check of
harness/asttie.go (`ast` / `pre` requests of `DriverAst.lean`); the theorems below are properties of the
expectation itself: what pre-processing can and cannot do, that text compiles to `pre`, that compiling
is compositional, how escape letters become modifiers, and that a literal on the left of a condition
is evaluated with the mirrored operator.
-/
namespace DyntplV.Parse
open DyntplV DyntplV.Pre DyntplV.Compile

/-! ### pre-processing -/


theorem commentAt_none_of_noOpen {c : UInt8} {rest : Bytes} (h : hasOpen (c :: rest) = false) :
    commentAt c rest = none := by
  simp only [hasOpen, Bool.or_eq_false_iff, Bool.and_eq_false_iff] at h
  unfold commentAt
  split
  · rename_i hc
    cases rest with
    | nil => rfl
    | cons d r =>
      unfold afterBrace
      split
      · rename_i heq
        cases heq
        rcases h.1 with h1 | h1
        · simp_all
        · simp at h1
      · rfl
  · rfl

theorem cutCommentsAux_id : ∀ (fuel : Nat) (b : Bytes), hasOpen b = false → cutCommentsAux fuel b = b := by
  intro fuel
  induction fuel with
  | zero => intro b _; rfl
  | succ f ih =>
    intro b h
    cases b with
    | nil => rfl
    | cons c rest =>
      have hr : hasOpen rest = false := by
        simp only [hasOpen, Bool.or_eq_false_iff] at h; exact h.2
      simp only [cutCommentsAux, commentAt_none_of_noOpen h, ih rest hr]

/-- keepFmt and no comment opener: the source is parsed as it is. -/
theorem pre_keep_id (src : Bytes) (h : hasOpen src = false) : pre true src = src := by
  simp [pre, cutComments, cutCommentsAux_id _ _ h]

example : pre true (lit "a{b #}{ #c") = lit "a{b #}{ #c" := by decide
example : pre true (lit "a{# c #}b") = lit "ab" := by decide



theorem commentEnd_suffix : ∀ (b r : Bytes), commentEnd b = some r → r <:+ b := by
  intro b
  induction b with
  | nil => intro r h; simp [commentEnd] at h
  | cons c rest ih =>
    intro r h
    unfold commentEnd at h
    split at h
    · simp at h
    · rename_i rest' heq
      cases heq
      cases h
      exact List.suffix_cons_iff.mpr (Or.inr (List.suffix_cons _ _))
    · simp at h
    · rename_i c' rest' _ _ heq
      cases heq
      exact List.suffix_cons_iff.mpr (Or.inr (ih r h))

theorem commentAt_suffix {c : UInt8} {rest r : Bytes} (h : commentAt c rest = some r) : r <:+ rest := by
  unfold commentAt at h
  split at h
  · unfold afterBrace at h
    split at h
    · rename_i r' 
      exact List.suffix_cons_iff.mpr (Or.inr (commentEnd_suffix _ _ h))
    · simp at h
  · simp at h

/-- `cutComments` only deletes: its output is a subsequence of its input. -/
theorem cutCommentsAux_sublist : ∀ (fuel : Nat) (b : Bytes), (cutCommentsAux fuel b).Sublist b := by
  intro fuel
  induction fuel with
  | zero => intro b; exact List.Sublist.refl _
  | succ f ih =>
    intro b
    cases b with
    | nil => exact List.Sublist.refl _
    | cons c rest =>
      simp only [cutCommentsAux]
      split
      · rename_i r hr
        exact ((ih r).trans (commentAt_suffix hr).sublist).trans (List.sublist_cons_self _ _)
      · exact (ih rest).cons_cons c

theorem cutComments_sublist (b : Bytes) : (cutComments b).Sublist b := cutCommentsAux_sublist _ _

/-- The fuel `cutComments` uses is enough: more fuel does not change the result. -/
theorem cutCommentsAux_fuel : ∀ (f g : Nat) (b : Bytes), b.length ≤ f → b.length ≤ g →
    cutCommentsAux f b = cutCommentsAux g b := by
  intro f
  induction f with
  | zero =>
    intro g b hf _
    have : b = [] := List.length_eq_zero_iff.mp (Nat.le_zero.mp hf)
    subst this
    cases g <;> rfl
  | succ f ih =>
    intro g b hf hg
    cases b with
    | nil => cases g <;> rfl
    | cons c rest =>
      cases g with
      | zero => simp at hg
      | succ g =>
        simp only [List.length_cons, Nat.add_le_add_iff_right] at hf hg
        simp only [cutCommentsAux]
        split
        · rename_i r hr
          have hl := (commentAt_suffix hr).length_le
          exact ih g r (by omega) (by omega)
        · rw [ih g rest hf hg]

/-- No comment opener is left where a comment was cut … in particular: cutting twice changes nothing more
    when the first pass left no opener. -/
theorem cutComments_idem_of_clean (b : Bytes) (h : hasOpen (cutComments b) = false) :
    cutComments (cutComments b) = cutComments b := by
  unfold cutComments at h ⊢
  exact cutCommentsAux_id _ _ h

theorem cutNlAux_no_newline : ∀ (b : Bytes) (skip : Bool), (10 : UInt8) ∉ cutNlAux skip b := by
  intro b
  induction b with
  | nil => intro skip; simp [cutNlAux]
  | cons c rest ih =>
    intro skip
    unfold cutNlAux
    split
    · exact ih true
    · split
      · exact ih true
      · rename_i hc _
        simp only [List.mem_cons, not_or]
        refine ⟨?_, ih false⟩
        intro h
        apply hc
        simp [← h]

theorem trimL_sublist (b : Bytes) : (trimL b).Sublist b := (List.dropWhile_suffix _).sublist
theorem trimR_sublist (b : Bytes) : (trimR b).Sublist b := by
  unfold trimR
  have := (List.dropWhile_suffix (l := b.reverse) isFmt).sublist
  simpa using this.reverse
theorem trim_sublist (b : Bytes) : (trim b).Sublist b := (trimR_sublist _).trans (trimL_sublist _)

/-- The output of `cutFmt` holds no line feed. -/
theorem cutFmt_no_newline (b : Bytes) : (10 : UInt8) ∉ cutFmt b := by
  intro h
  exact cutNlAux_no_newline b false ((trim_sublist _).subset h)

theorem pre_false_no_newline (b : Bytes) : (10 : UInt8) ∉ pre false b := by
  simp only [pre, Bool.false_eq_true, if_false]
  exact cutFmt_no_newline _

/-- `pre` only deletes. -/
theorem pre_sublist (k : Bool) (b : Bytes) : (pre k b).Sublist b := by
  unfold pre
  split
  · exact cutComments_sublist b
  · unfold cutFmt
    refine ((trim_sublist _).trans ?_).trans (cutComments_sublist b)
    -- cutNl only deletes
    have : ∀ (x : Bytes) (s : Bool), (cutNlAux s x).Sublist x := by
      intro x
      induction x with
      | nil => intro s; simp [cutNlAux]
      | cons c r ih =>
        intro s
        unfold cutNlAux
        split
        · exact (ih true).cons c
        · split
          · exact (ih true).cons c
          · exact (ih false).cons_cons c
    exact this _ false

example : cutFmt (lit "  a\n\t b\n\n  c \n") = lit "abc" := by decide
example : cutComments (lit "x{# a #}y{#b#}{# # #}z") = lit "xy{# # #}z" := by decide
example : (10 : UInt8) ∈ pre true (lit "a\nb") := by decide



/-! ### compile -/

theorem clean_nil (k : Bool) : clean k [] = [] := by cases k <;> rfl
theorem flush_nil (k : Bool) : flush k [] = [] := by simp [flush, clean_nil, rawOpt]

theorem itemsL_append (k : Bool) : ∀ (a b : List Ast), itemsL k (a ++ b) = itemsL k a ++ itemsL k b := by
  intro a
  induction a with
  | nil => intro b; simp [itemsL]
  | cons x a ih => intro b; simp [itemsL, ih, List.append_assoc]

theorem assembleAux_node (k : Bool) (n : Node) (ys : List Item) :
    ∀ (xs : List Item) (acc : Bytes),
      assembleAux k acc (xs ++ .node n :: ys) = assembleAux k acc xs ++ n :: assembleAux k [] ys := by
  intro xs
  induction xs with
  | nil => intro acc; simp [assembleAux]
  | cons x xs ih =>
    intro acc
    cases x with
    | txt b => simp [assembleAux, ih]
    | node m => simp [assembleAux, ih, List.append_assoc]

/-- text-like AST nodes: the ones that do not produce a tree node of their own -/
def isTextAst : Ast → Bool
  | .text _ => true
  | .comment _ => true
  | _ => false

theorem items_head_node (k : Bool) (x : Ast) (h : isTextAst x = false) :
    ∃ n t, items k x = .node n :: t := by
  cases x <;> simp [isTextAst] at h <;> (try (unfold items; exact ⟨_, _, rfl⟩))
  case ctl kind n c => cases c <;> (unfold items; exact ⟨_, _, rfl⟩)

theorem items_last_node (k : Bool) (x : Ast) (h : isTextAst x = false) :
    ∃ t n, items k x = t ++ [.node n] := by
  cases x <;> simp [isTextAst] at h <;> (try (unfold items; exact ⟨[], _, rfl⟩))
  case ctl kind n c => cases c <;> (unfold items; exact ⟨[], _, rfl⟩)
  case region kind body =>
    unfold items
    exact ⟨.node (regionOpen kind) :: itemsL k body, regionClose kind, by simp⟩

/-- the seam between two AST lists is not text‖text -/
def seamOK (a b : List Ast) : Prop :=
  (∀ x, a.getLast? = some x → isTextAst x = false) ∨ (∀ y, b.head? = some y → isTextAst y = false)

/-- `compileSeq` distributes over `++` when the seam is not text next to text. -/
theorem compileSeq_append (k : Bool) (a b : List Ast) (h : seamOK a b) :
    compileSeq k (a ++ b) = compileSeq k a ++ compileSeq k b := by
  unfold compileSeq assemble
  rw [itemsL_append]
  cases b with
  | nil => simp [itemsL, assembleAux, flush_nil]
  | cons y b' =>
    rcases List.eq_nil_or_concat a with ha | ⟨a', x, ha⟩
    · subst ha; simp [itemsL, assembleAux, flush_nil]
    · rw [List.concat_eq_append] at ha
      subst ha
      rcases h with h | h
      · -- a ends with a node
        have hx := h x (by simp)
        obtain ⟨t, n, ht⟩ := items_last_node k x hx
        have e1 : itemsL k (a' ++ [x]) = (itemsL k a' ++ t) ++ [.node n] := by
          rw [itemsL_append]; simp [itemsL, ht, List.append_assoc]
        rw [e1, List.append_assoc]
        simp only [List.singleton_append]
        rw [assembleAux_node, show (itemsL k a' ++ t) ++ [Item.node n] = (itemsL k a' ++ t) ++ Item.node n :: [] from rfl,
          assembleAux_node]
        simp [assembleAux, flush_nil, List.append_assoc]
      · have hy := h y (by simp)
        obtain ⟨n, t, ht⟩ := items_head_node k y hy
        have e2 : itemsL k (y :: b') = .node n :: (t ++ itemsL k b') := by
          simp [itemsL, ht]
        rw [e2, assembleAux_node]
        simp [assembleAux, flush_nil]

/-- With keepFmt the whole template is compiled like a body. -/
theorem compile_append_keep (a b : List Ast) (h : seamOK a b) :
    compile true (a ++ b) = compile true a ++ compile true b := by
  simp only [compile, if_true]; exact compileSeq_append true a b h

theorem trimTop_single_raw (t : Bytes) : trimTop [.raw t] = rawOpt (trim t) := by
  unfold trimTop trimFirst rawOpt
  by_cases h : (trimL t).isEmpty
  · have : trimL t = [] := List.isEmpty_iff.mp h
    simp [trimLast, trim, this, trimR]
  · simp [h, trimLast, trim, rawOpt]

/-- A text-only template compiles to one raw node holding `pre` of the text, or to nothing. -/
theorem compile_text (k : Bool) (s : Bytes) : compile k [.text s] = rawOpt (pre k s) := by
  cases k
  · simp only [compile, Bool.false_eq_true, if_false, compileSeq, assemble, itemsL, items, List.append_nil,
      assembleAux, List.nil_append, flush, clean, pre, cutFmt]
    unfold rawOpt
    by_cases h : (cutNl (cutComments s)).isEmpty
    · have h0 : cutNl (cutComments s) = [] := List.isEmpty_iff.mp h
      simp [h0, trimTop, trimFirst, trimLast, trim, trimL, trimR]
    · simp only [h, Bool.false_eq_true, if_false]
      exact trimTop_single_raw _
  · simp [compile, compileSeq, assemble, itemsL, items, assembleAux, flush, clean, pre]

theorem commentEnd_close : ∀ (s rest : Bytes), (35 : UInt8) ∉ s → commentEnd (s ++ 35 :: 125 :: rest) = some rest := by
  intro s
  induction s with
  | nil => intro rest _; rfl
  | cons c s ih =>
    intro rest h
    simp only [List.mem_cons, not_or] at h
    simp only [List.cons_append]
    unfold commentEnd
    split
    · rename_i heq; simp at heq
    · rename_i heq
      have hc := (List.cons.inj heq).1
      first | exact absurd hc h.1 | exact absurd hc.symm h.1
    · rename_i heq
      have hc := (List.cons.inj heq).1
      first | exact absurd hc h.1 | exact absurd hc.symm h.1
    · rename_i heq
      have hc := (List.cons.inj heq).2
      subst hc
      exact ih rest h.2

/-- A comment (without `#` inside) is text that vanishes. -/
theorem compile_comment_keep (s : Bytes) (h : (35 : UInt8) ∉ s) : compile true [.comment s] = [] := by
  simp only [compile, if_true, compileSeq, assemble, itemsL, items, List.append_nil, assembleAux,
    List.nil_append, flush, clean]
  have : cutComments (123 :: 35 :: (s ++ [35, 125])) = [] := by
    unfold cutComments
    simp only [List.length_cons, cutCommentsAux, commentAt, afterBrace, beq_self_eq_true, if_true,
      commentEnd_close s [] h]
  simp [this, rawOpt]

/-- The modifier list of a print: explicit chain first, then the escape letters. -/
theorem letters_mods (k : Bool) (L p : Bytes) (M : List ModCall) (raw : Bool) (pre suf kp ks : Bytes) :
    compile k [.print L p M raw pre suf kp ks] =
      [.tpl p (modsOf M ++ lettersToMods L) (raw || chainRaw M) pre suf] := by
  cases k <;> simp [compile, compileSeq, assemble, itemsL, items, assembleAux, flush_nil, tplOf,
    trimTop, trimFirst, trimLast]



/-! ### escape letters -/

theorem lettersToModsAux_fuel : ∀ (f g : Nat) (l : Bytes), l.length ≤ f → l.length ≤ g →
    lettersToModsAux f l = lettersToModsAux g l := by
  intro f
  induction f with
  | zero =>
    intro g l hf _
    have : l = [] := List.length_eq_zero_iff.mp (Nat.le_zero.mp hf)
    subst this
    cases g <;> rfl
  | succ f ih =>
    intro g l hf hg
    cases l with
    | nil => cases g <;> rfl
    | cons c rest =>
      cases g with
      | zero => simp at hg
      | succ g =>
        simp only [List.length_cons, Nat.add_le_add_iff_right] at hf hg
        simp only [lettersToModsAux]
        split
        · have hl := (List.dropWhile_suffix (l := rest) (fun x => x == c)).length_le
          rw [ih g _ (by omega) (by omega)]
        · split
          · split
            · rename_i r
              have hl := (List.dropWhile_suffix (l := r) isDigit).length_le
              simp only [List.length_cons] at hf hg
              rw [ih g _ (by omega) (by omega)]
            · rfl
          · rfl

theorem takeWhile_replicate_append (c : UInt8) (n : Nat) (rest : Bytes) (h : rest.head? ≠ some c) :
    (List.replicate n c ++ rest).takeWhile (· == c) = List.replicate n c := by
  induction n with
  | zero =>
    cases rest with
    | nil => rfl
    | cons d r =>
      have : d ≠ c := by intro e; apply h; simp [e]
      simp [this]
  | succ n ih => simp [List.replicate_succ, ih]

theorem dropWhile_replicate_append (c : UInt8) (n : Nat) (rest : Bytes) (h : rest.head? ≠ some c) :
    (List.replicate n c ++ rest).dropWhile (· == c) = rest := by
  induction n with
  | zero =>
    cases rest with
    | nil => rfl
    | cons d r =>
      have : d ≠ c := by intro e; apply h; simp [e]
      simp [this]
  | succ n ih => simp [List.replicate_succ, ih]

/-- A maximal run of `n+1` equal escape letters becomes ONE modifier with the static argument `n+1`;
    the rest of the letters follows. -/
theorem lettersToMods_run (c : UInt8) (id : Bytes) (n : Nat) (rest : Bytes)
    (hid : letterId c = some id) (h : rest.head? ≠ some c) :
    lettersToMods (List.replicate (n + 1) c ++ rest) = runMod id (n + 1) :: lettersToMods rest := by
  unfold lettersToMods
  simp only [List.replicate_succ, List.cons_append, List.length_cons, lettersToModsAux, hid,
    takeWhile_replicate_append c n rest h, dropWhile_replicate_append c n rest h, List.length_replicate]
  congr 1
  exact lettersToModsAux_fuel _ _ _ (by simp) (Nat.le_refl _)

/-- Two different adjacent runs: the modifier lists concatenate. -/
theorem lettersToMods_two_runs (c d : UInt8) (idc idd : Bytes) (n m : Nat)
    (hc : letterId c = some idc) (hd : letterId d = some idd) (hne : c ≠ d) :
    lettersToMods (List.replicate (n + 1) c ++ List.replicate (m + 1) d) =
      [runMod idc (n + 1), runMod idd (m + 1)] := by
  rw [lettersToMods_run c idc n _ hc (by simp [List.replicate_succ]; exact fun e => hne e.symm)]
  have := lettersToMods_run d idd m [] hd (by simp)
  simp only [List.append_nil] at this
  rw [this]
  rfl

example : lettersToMods (lit "hhuh") =
    [runMod (lit "htmlEscape") 2, runMod (lit "urlEncode") 1, runMod (lit "htmlEscape") 1] := by decide
example : lettersToMods (lit "f.12j") =
    [{ id := lit "floorPrec", args := [staticArg (lit "12")] }, runMod (lit "jsonEscape") 1] := by decide

/-! ### mirrored operators -/

theorem swap_involutive (o : Op) : o.swap.swap = o := by cases o <;> rfl

/-- Mirroring the operator = mirroring the ordering. -/
theorem cmpOrd_swap (o : Op) (ord : Ordering) : cmpOrd o.swap ord = cmpOrd o ord.swap := by
  cases o <;> cases ord <;> rfl

theorem int_compare_swap (a b : Int) : compare a b = (compare b a).swap := by
  simp only [compare, compareOfLessAndEq]
  split <;> split <;> (try split) <;> (try split) <;> first | rfl | omega

/-- integers: `a (swap op) b ↔ b op a` -/
theorem swap_sound_int (o : Op) (a b : Int) : cmpOrd o.swap (compare a b) = cmpOrd o (compare b a) := by
  rw [cmpOrd_swap, int_compare_swap a b, Ordering.swap_swap]

/-- exact decimals -/
theorem swap_sound_dec (o : Op) (a b : Dec) : cmpOrd o.swap (a.cmp b) = cmpOrd o (b.cmp a) := by
  unfold Dec.cmp
  exact swap_sound_int o _ _

theorem bytesCmp_swap : ∀ (a b : Bytes), bytesCmp a b = (bytesCmp b a).swap := by
  intro a
  induction a with
  | nil => intro b; cases b <;> rfl
  | cons x xs ih =>
    intro b
    cases b with
    | nil => rfl
    | cons y ys =>
      simp only [bytesCmp]
      by_cases h1 : x < y
      · have h2 : ¬ y < x := by
          intro h; exact absurd (UInt8.lt_trans h1 h) (UInt8.lt_irrefl _)
        simp [h1, h2]
      · by_cases h2 : y < x
        · simp [h1, h2]
        · simp [h1, h2, ih ys]

/-- byte strings (Go string order) -/
theorem swap_sound_bytes (o : Op) (a b : Bytes) : cmpOrd o.swap (bytesCmp a b) = cmpOrd o (bytesCmp b a) := by
  rw [cmpOrd_swap, bytesCmp_swap a b, Ordering.swap_swap]

example : cmpOrd Op.gt.swap (compare (3 : Int) 5) = true := by decide
example : cmpOrd Op.gtq.swap (bytesCmp (lit "abc") (lit "abd")) = cmpOrd Op.gtq (bytesCmp (lit "abd") (lit "abc")) := by decide

/-! ### literal on the left -/

/-- the mirrored operator, as source text -/
def swapText (op : Bytes) : Bytes :=
  if op == lit ">" then lit "<" else if op == lit ">=" then lit "<="
  else if op == lit "<" then lit ">" else if op == lit "<=" then lit ">=" else op

theorem opOf_swapText (op : Bytes) (h : isCmpOp op = true) : opOf (swapText op) = (opOf op).swap := by
  simp only [isCmpOp, Bool.or_eq_true, beq_iff_eq] at h
  rcases h with ((((h | h) | h) | h) | h) | h <;> subst h <;> decide

/-- `lit op var` is evaluated like `var (swap op) lit`: the parser keeps the literal on the left
    (`condStaticL`), `nodeCmp` mirrors the operator. -/
theorem cond_literal_left (c : Ctx) (l op v : Bytes) (hop : isCmpOp op = true)
    (hl : isStatic l = true) (hv : isStatic v = false) :
    let a := condSpec { l := l, op := op, r := v, hlp := [], hlpArgs := [], not := false }
    let b := condSpec { l := v, op := swapText op, r := l, hlp := [], hlpArgs := [], not := false }
    nodeCmp c a.l a.r a.staticL a.staticR a.op = nodeCmp c b.l b.r b.staticL b.staticR b.op := by
  simp only [condSpec, List.isEmpty_nil, Bool.not_true, Bool.false_eq_true, if_false, hl, hv,
    opOf_swapText op hop, nodeCmp, Bool.and_false, Bool.and_true, if_true]

example : (condSpec { l := lit "5", op := lit "<", r := lit "si", hlp := [], hlpArgs := [], not := false }).staticL = true := by decide


/-! ### non-vacuity of the compile theorems -/

def exCond : Cond := { l := lit "si", op := lit "==", r := lit "1", hlp := [], hlpArgs := [], not := false }

example : compile false [.text (lit " a\n b "), .comment (lit " c "), .text (lit "\n  d\n")] = [.raw (lit "ab d")] := by rfl
example : compile true [.if_ exCond [] true [.text (lit "F")]] =
    [.cond (condSpec exCond) [.condTrue [], .condFalse [.raw (lit "F")]]] := by rfl
example : seamOK [.text (lit "a"), .exit] [.text (lit "b")] := by
  left; intro x hx; simp at hx; subst hx; rfl
/-- the side condition of `compileSeq_append` is needed: text next to text merges into one node -/
example : compileSeq true ([.text (lit "a")] ++ [.text (lit "b")]) ≠
    compileSeq true [.text (lit "a")] ++ compileSeq true [.text (lit "b")] := by
  intro h
  have : (compileSeq true ([.text (lit "a")] ++ [.text (lit "b")])).length = 1 := by rfl
  rw [h] at this
  exact absurd this (by decide)

end DyntplV.Parse
