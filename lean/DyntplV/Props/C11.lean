import DyntplV.Impl
import DyntplV.Props.Parse
/-!
# C11 — escape letters and chained modifiers compose left to right

Render side (this file): the modifier loop is a left fold — a chain `a ++ b` is `a`, then `b` applied to
what `a` produced, stopping at the first failing modifier; an escape modifier with iteration count `n` is the
`n`-fold application of its escaper. Parser side (`DyntplV.Parse`): a print's modifier list is the explicit
chain followed by one modifier per maximal run of equal letters with the run length as iteration count
(`letters_mods`, `lettersToMods_run`, `lettersToMods_two_runs`).
-/
namespace DyntplV.C11
open DyntplV

/-- **Left fold.** With no error pending, running the chain `a ++ b` is running `a` and — unless one of its
    modifiers failed — running `b` on the value and context `a` left. -/
theorem chain_fold : ∀ (a b : List Mod) (c : Ctx) (raw : Val), c.err = none →
    runMods c raw (a ++ b) =
      (if (runMods c raw a).2.err = none then runMods (runMods c raw a).2 (runMods c raw a).1 b
       else runMods c raw a) := by
  intro a
  induction a with
  | nil => intro b c raw h; simp [runMods, h]
  | cons m rest ih =>
    intro b c raw h
    rw [List.cons_append, runMods, runMods]
    generalize collectArgs c m.args = ca
    obtain ⟨args, c1⟩ := ca
    simp only
    cases hm : applyMod c1 m.id raw args with
    | none => simp
    | some r =>
      obtain ⟨res, c2⟩ := r
      cases res with
      | error e => simp
      | ok v => simp only; exact ih b { c2 with err := none } v rfl

/-- A failing modifier ends the chain: nothing after it runs, the value is the one it received. -/
theorem chain_stops_at_error (m : Mod) (rest : List Mod) (c : Ctx) (raw : Val) (args : List ArgVal) (c1 c2 : Ctx) (e : Err)
    (ha : collectArgs c m.args = (args, c1)) (hm : applyMod c1 m.id raw args = some (.error e, c2)) :
    runMods c raw (m :: rest) = (raw, { c2 with err := some e }) := by
  rw [runMods]; simp [ha, hm]

/-- One successful modifier, then the rest on its result. -/
theorem chain_step (m : Mod) (rest : List Mod) (c : Ctx) (raw v : Val) (args : List ArgVal) (c1 c2 : Ctx)
    (ha : collectArgs c m.args = (args, c1)) (hm : applyMod c1 m.id raw args = some (.ok v, c2)) :
    runMods c raw (m :: rest) = runMods { c2 with err := none } v rest := by
  rw [runMods]; simp [ha, hm]

theorem iterate_succ (f : Bytes → Bytes) (n : Nat) (b : Bytes) : iterate f (n+1) b = iterate f n (f b) := rfl

theorem iterate_add (f : Bytes → Bytes) : ∀ (m n : Nat) (b : Bytes), iterate f (m + n) b = iterate f n (iterate f m b)
  | 0, n, b => by simp [iterate]
  | m+1, n, b => by
    rw [show m + 1 + n = (m + n) + 1 by omega, iterate_succ, iterate_succ, iterate_add f m n]

/-- **Repeated letters.** An escape modifier with iteration count `m + n` is the count-`m` one followed by the
    count-`n` one: `{%hh= x %}` = h applied to the result of h. -/
theorem escape_iterations_compose (f : Bytes → Bytes) (m n : Nat) (b : Bytes) :
    iterate f (m + n) b = iterate f n (iterate f m b) := iterate_add f m n b

/-- The value an escape modifier computes for a non-empty text: its escaper applied `printIterations` times. -/
theorem escMod_value (f : Bytes → Bytes) (val : Val) (args : List ArgVal) (b : Bytes) (skip : Bool)
    (ht : val.text = some b) (hne : b ≠ []) :
    escMod f val args skip = .ok (.bytes (iterate f (printIterations args) b)) := by
  unfold escMod
  have : b.isEmpty = false := by cases b <;> simp_all
  simp [ht, this]

/-- The iteration count is the modifier's first (literal) argument; no argument means one pass. -/
theorem iterations_default : printIterations [] = 1 := rfl
theorem iterations_arg (b : Bytes) :
    printIterations [.pos (.bytes b)] = (match parseIntLit b with | some n => max 1 n.toNat | none => 1) := rfl

/-- **An escape modifier that is asked for escapes at least once**, whatever its count argument is — a literal, or
    text that comes from the data (repair: `htmlEscape(n)` with `n = "0"` or `"-1"` returned its input untouched). -/
theorem iterations_positive (args : List ArgVal) : 1 ≤ printIterations args := by
  unfold printIterations
  split
  · split <;> omega
  · omega

/-! Non-vacuity: a two-modifier chain on a concrete context. -/
example :
    (runMods {} (.bytes (lit "<a>")) [⟨lit "htmlEscape", []⟩, ⟨lit "jsonQuote", []⟩]).1 =
      .bytes (Json.quote (Html.escape (lit "<a>"))) := by rfl

end DyntplV.C11
