import DyntplV.Props.C14
import DyntplV.Props.C15
/-!
# C03 — loops run once per element, with separators between and else iff empty

Theorems about the loop functions with an arbitrary body `run`.  A body is *plain* when it neither fails nor
leaves a break depth pending (no break / continue / lazybreak / exit reaching this loop, no error):
then every element gets exactly one iteration, in order.  What happens otherwise is the subject of C14
(break / continue) and C16 / C17 (exit, errors).
-/
namespace DyntplV.C03
open DyntplV

/-- A body that never fails and never leaves a pending break depth. -/
def Plain (run : St → Res) : Prop := ∀ st, (run st).err = none ∧ (run st).st.c.brkD = 0

theorem plain_next (run : St → Res) (h : Plain run) (st : St) : iterAfterBody (run st) = .next (run st).st :=
  C14.no_pending_continues _ (Or.inl (h st).1) (h st).2

/-! ### Separator: exactly between consecutive iterations -/

theorem sep_not_before_first (sep : Bytes) (s : St) : sepWrite 0 sep s = ok s := by
  unfold sepWrite; simp

theorem sep_before_every_later (n : Nat) (sep : Bytes) (s : St) (hn : 0 < n) (hs : sep ≠ []) :
    sepWrite n sep s = s.write (regionEscape s.c sep) := by
  unfold sepWrite
  have : sep.isEmpty = false := by cases sep <;> simp_all
  simp [hn, this]

theorem no_sep_no_write (n : Nat) (s : St) : sepWrite n [] s = ok s := by
  unfold sepWrite; simp

/-! ### Range loop: once per element, in collection order, key and value bound -/

/-- What a range loop with a plain body computes: a left fold over the elements, each step binding key and
    value (`rIterStart`), writing the separator (not before the first), running the body. -/
def rloopFold (run : St → Res) (ls : RLoopSpec) : List (Bytes × Val × InsKind) → Nat → St → St
  | [], _, s => s
  | (k, v, ik) :: rest, n, s => rloopFold run ls rest (n+1) (run (sepWrite n ls.sep (rIterStart ls k v ik s)).st).st

/-- **Once per element, in order.** With a plain body and separator writes that succeed, the range loop
    runs exactly `items.length` iterations — one per element, in the order of the collection — and its final
    state is the fold. -/
theorem rloop_once_per_element (run : St → Res) (hp : Plain run) (ls : RLoopSpec)
    (hsep : ∀ n st, (sepWrite n ls.sep st).err = none) :
    ∀ (items : List (Bytes × Val × InsKind)) (n : Nat) (s : St),
      rloopLoop run ls items n s = ⟨n + items.length, rloopFold run ls items n s, false⟩ := by
  intro items
  induction items with
  | nil => intro n s; simp [rloopLoop, rloopFold]
  | cons it rest ih =>
    intro n s
    obtain ⟨k, v, ik⟩ := it
    rw [rloopLoop]
    simp only [hsep, plain_next run hp, rloopFold]
    rw [ih]
    simp only [List.length_cons]
    congr 1; omega

/-- The key and the value seen by the body of an iteration are the element's. -/
theorem rloop_binds (ls : RLoopSpec) (k : Bytes) (v : Val) (ik : InsKind) (s : St) (hk : ls.key ≠ [])
    (hne : (ls.val == ls.key) = false) :
    getVar (rIterStart ls k v ik s).c.vars ls.val = some (.ins v ik) ∧
    getVar (rIterStart ls k v ik s).c.vars ls.key = some (.ins (.bytes k) .static) := by
  unfold rIterStart
  have : ls.key.isEmpty = false := by cases h : ls.key <;> simp_all
  simp only [this, Bool.false_eq_true, if_false, Ctx.set]
  constructor
  · exact C15.get_set _ _ _
  · rw [C15.get_set_other _ _ _ _ hne]; exact C15.get_set _ _ _

/-! ### else iff there were no iterations -/

/-- After a loop that was not aborted by an error, the else branch runs iff the loop had no iteration. -/
theorem else_iff_no_iteration (re : St → Res) (r : LoopRes) (sElse : St) (hab : r.abort = false) :
    afterLoop (some re) r sElse = (if r.n == 0 then re sElse else ok sElse) := by
  unfold afterLoop; simp [hab]

theorem no_else_branch (r : LoopRes) (sElse : St) (hab : r.abort = false) : afterLoop none r sElse = ok sElse := by
  unfold afterLoop; simp [hab]

/-- A range loop over an empty (or missing, or non-iterable) collection has no iteration. -/
theorem rloop_empty (run : St → Res) (ls : RLoopSpec) (s : St) : (rloopLoop run ls [] 0 s).n = 0 := rfl

/-- A range loop over a non-empty collection has at least one iteration (so its else never runs). -/
theorem rloop_nonempty_n (run : St → Res) (ls : RLoopSpec) (it : Bytes × Val × InsKind) (rest : List (Bytes × Val × InsKind)) (n : Nat) (s : St) :
    n + 1 ≤ (rloopLoop run ls (it :: rest) n s).n := by
  induction rest generalizing it n s with
  | nil =>
    obtain ⟨k, v, ik⟩ := it
    rw [rloopLoop]
    cases (sepWrite n ls.sep (rIterStart ls k v ik s)).err with
    | some e => simp
    | none =>
      simp only
      cases iterAfterBody (run (sepWrite n ls.sep (rIterStart ls k v ik s)).st) <;> simp [rloopLoop]
  | cons it2 rest ih =>
    obtain ⟨k, v, ik⟩ := it
    rw [rloopLoop]
    cases (sepWrite n ls.sep (rIterStart ls k v ik s)).err with
    | some e => simp
    | none =>
      simp only
      cases iterAfterBody (run (sepWrite n ls.sep (rIterStart ls k v ik s)).st) with
      | abort st => simp
      | stop st => simp
      | next st => have := ih it2 (n+1) st; show n + 1 ≤ (rloopLoop run ls (it2 :: rest) (n + 1) st).n; omega

/-! ### Counter loop: once for each counter value while the bound comparison holds -/

/-- The counter values for which the body runs: from `v`, stepping by one up or down, while the
    bound comparison holds (fuel-indexed like the loop itself). -/
def counterVals (cond step : Op) : Nat → Int → Int → List Int
  | 0, _, _ => []
  | f+1, v, lim => match loopAllows cond v lim with
    | some true => v :: counterVals cond step f (stepVal step v) lim
    | _ => []

/-- The fold a counter loop with a plain body computes over those values. -/
def cloopFold (run : St → Res) (ls : CLoopSpec) : List Int → Nat → St → St
  | [], _, s => s
  | v :: rest, n, s =>
    let s1 : St := { s with c := s.c.setStatic ls.cnt (.int v) }
    let rs := clrErrIf (n > 0 && !ls.sep.isEmpty) (sepWrite n ls.sep s1).st
    let rb0 := run { rs with c := { rs.c with chQB := true } }
    let sb : St := { rb0.st with c := { rb0.st.c with chQB := rs.c.chQB } }
    cloopFold run ls rest (n+1) { sb with c := sb.c.setStatic ls.cnt (.int (stepVal ls.cntOp v)) }

/-- **Once per counter value.** With a plain body, a `++` / `--` step and succeeding separator writes, the
    loop that ends by its bound (not by the fuel) runs exactly once for each value of `counterVals`, in
    order; the loop variable is bound to the value during its iteration. -/
theorem cloop_once_per_value (run : St → Res) (hp : Plain run) (ls : CLoopSpec)
    (hstep : (ls.cntOp == .inc || ls.cntOp == .dec) = true)
    (hsep : ∀ n st, (sepWrite n ls.sep st).err = none) :
    ∀ (f : Nat) (v lim : Int) (n : Nat) (s : St),
      (∀ vend, loopAllows ls.condOp vend lim ≠ none) →
      (counterVals ls.condOp ls.cntOp f v lim).length < f →
      (cloopLoop run ls f v lim n s).n = n + (counterVals ls.condOp ls.cntOp f v lim).length ∧
      (cloopLoop run ls f v lim n s).abort = false := by
  intro f
  induction f with
  | zero => intro v lim n s _ h; simp [counterVals] at h
  | succ f ih =>
    intro v lim n s hall hlen
    rw [cloopLoop]
    cases hla : loopAllows ls.condOp v lim with
    | none => exact absurd hla (hall v)
    | some b =>
      cases b with
      | false => simp [counterVals, hla]
      | true =>
        simp only [hsep, hstep, if_true]
        have hio : ∀ (rs1 : St) (rb0 : Res), rb0 = run { rs1 with c := { rs1.c with chQB := true } } →
            iterAfterBody { rb0 with st := { rb0.st with c := { rb0.st.c with chQB := rs1.c.chQB } } } =
              .next { rb0.st with c := { rb0.st.c with chQB := rs1.c.chQB } } := by
          intro rs1 rb0 h0
          apply C14.no_pending_continues
          · left; rw [h0]; exact (hp _).1
          · show rb0.st.c.brkD = 0; rw [h0]; exact (hp _).2
        rw [hio _ _ rfl]
        simp only [counterVals, hla] at hlen ⊢
        simp only [List.length_cons] at hlen ⊢
        have ih' := fun s' => ih (stepVal ls.cntOp v) lim (n+1) s' hall (by omega)
        refine ⟨?_, (ih' _).2⟩
        rw [(ih' _).1]; omega

/-- Closed form of the values for `i := a; i < b; i++`. -/
theorem counterVals_lt_inc : ∀ (f : Nat) (a b : Int), (b - a).toNat < f →
    counterVals .lt .inc f a b = (List.range (b - a).toNat).map (fun (i : Nat) => a + (i : Int))
  | 0, a, b, h => by omega
  | f+1, a, b, h => by
    unfold counterVals
    by_cases hab : a < b
    · have hla : loopAllows .lt a b = some true := by simp [loopAllows, hab]
      simp only [hla, stepVal]
      have hrec := counterVals_lt_inc f (a + 1) b (by omega)
      simp only [show (Op.inc == Op.inc) = true from rfl, if_true]
      rw [hrec]
      have hn : (b - a).toNat = (b - (a + 1)).toNat + 1 := by omega
      rw [hn, List.range_succ_eq_map]
      simp only [List.map_cons, List.map_map]
      congr 1
      · simp
      · apply List.map_congr_left
        intro i _
        simp only [Function.comp, Nat.succ_eq_add_one, Int.natCast_add, Int.natCast_one]
        omega
    · have hla : loopAllows .lt a b = some false := by simp [loopAllows, hab]
      have h0 : (b - a).toNat = 0 := by omega
      simp [hla, h0]

/-- … and their number: `max 0 (b − a)`. -/
theorem trips_lt_inc (f : Nat) (a b : Int) (h : (b - a).toNat < f) :
    (counterVals .lt .inc f a b).length = (b - a).toNat := by
  rw [counterVals_lt_inc f a b h]; simp

/-- **The whole range loop.** For a source variable that resolves to `items`, a plain body and succeeding
    separator writes: no element ⇒ only the else branch runs (or nothing); otherwise the body runs once per
    element in order and the else branch does not run. -/
theorem rloopWith_plain (run : St → Res) (hp : Plain run) (re : Option (St → Res)) (ls : RLoopSpec) (s : St)
    (hsep : ∀ n st, (sepWrite n ls.sep st).err = none)
    (name : Bytes) (sub : List Bytes) (vv : VarVal)
    (hsrc : splitDots ls.src = name :: sub) (hvar : getVar s.c.vars name = some vv) :
    rloopWith run re ls s =
      (if (loopItems vv sub).isEmpty
       then (match re with
             | some r => r { s with c := { s.c with err := none } }
             | none => ok { s with c := { s.c with err := none } })
       else ok { (rloopFold run ls (loopItems vv sub) 0 s) with
                 c := { (rloopFold run ls (loopItems vv sub) 0 s).c with err := none } }) := by
  unfold rloopWith
  simp only [hsrc, hvar]
  rw [rloop_once_per_element run hp ls hsep]
  unfold afterLoop
  cases hi : loopItems vv sub with
  | nil => simp [rloopFold]; cases re <;> rfl
  | cons it rest => simp

/-- A range loop over a variable that is not set has no iteration either: exactly the else branch runs
    (the repaired defect: it used to render nothing). -/
theorem rloop_unset_var_else (run : St → Res) (re : St → Res) (ls : RLoopSpec) (s : St)
    (name : Bytes) (sub : List Bytes) (hsrc : splitDots ls.src = name :: sub) (hvar : getVar s.c.vars name = none) :
    rloopWith run (some re) ls s = re s := by
  unfold rloopWith
  simp only [hsrc, hvar]

/-! Non-vacuity. -/
example : counterVals .lt .inc 10 2 5 = [2, 3, 4] := by decide
example : counterVals .gtq .dec 10 3 1 = [3, 2, 1] := by decide
example : counterVals .nq .inc 10 0 3 = [0, 1, 2] := by decide
example : counterVals .ltq .inc 10 5 4 = [] := by decide

end DyntplV.C03
