import DyntplV.Props.C14
import DyntplV.Refine.FrameInterp
/-!
# C16 — include behaves like inlining; exit stops its template immediately
-/
namespace DyntplV.C16
open DyntplV

/-! ### exit -/

theorem exit_node (reg : Registry) (f : Nat) (s : St) : writeNode reg (f+1) .exit s = fail s .interrupt := by
  rw [writeNode]

/-- Nothing after an `exit` in the same list runs: the state (output included) is exactly what had been
    produced up to that point. -/
theorem exit_stops_list (reg : Registry) (f : Nat) (rest : List Node) (s : St) :
    writeSeq reg (f+2) (.exit :: rest) s = fail s .interrupt := by
  rw [writeSeq, exit_node]; rfl

/-- The interrupt passes through every enclosing list: once a node of a list returns it, the list does. -/
theorem interrupt_passes_list (reg : Registry) (f : Nat) (n : Node) (rest : List Node) (s : St)
    (h : (writeNode reg f n s).err = some .interrupt) :
    writeSeq reg (f+1) (n :: rest) s = writeNode reg f n s := by
  rw [writeSeq]; simp [Res.andThen, h]

/-- … through a condition: the branch's result is the node's result. -/
theorem interrupt_passes_cond (reg : Registry) (f : Nat) (cd : CondSpec) (t e : Node) (s : St) (c1 : Ctx) (r : Bool) (pend : Option Err)
    (h : evalCond s.c cd = (c1, .branch r pend)) :
    writeNode reg (f+1) (.cond cd [t, e]) s = writeNode reg f (if r then t else e) { s with c := c1 } := by
  rw [writeNode]; simp only [h]; cases r <;> simp

/-- … through a loop: the interrupt is not one of the break/continue signals, so the iteration aborts
    (no further iteration, no else branch) … -/
theorem interrupt_aborts_iteration (rb : Res) (h : rb.err = some .interrupt) :
    iterAfterBody rb = .abort { rb.st with c := { rb.st.c with err := some .interrupt, brkD := rb.st.c.brkD - 1 } } :=
  C14.error_aborts rb .interrupt h rfl

/-- … and the loop node turns the `ctx.Err` of an aborted loop back into the returned error. -/
theorem loopNode_returns_ctxErr (loop : St → Res) (s : St) (e : Err)
    (h1 : (loop { s with c := { s.c with brkD := 0 } }).err = none)
    (h2 : (loop { s with c := { s.c with brkD := 0 } }).st.c.err = some e) :
    (loopNode loop s).err = some e := by
  unfold loopNode
  simp only [h1, h2]
  exact loopErrRes_err _ _

/-- A range loop whose first iteration's body is interrupted: the loop node returns the interrupt, having
    written exactly what that body wrote. -/
theorem exit_in_range_loop (run : St → Res) (ls : RLoopSpec) (s : St) (name : Bytes) (sub : List Bytes) (vv : VarVal)
    (k : Bytes) (v : Val) (ik : InsKind) (rest : List (Bytes × Val × InsKind))
    (hsrc : splitDots ls.src = name :: sub) (hvar : getVar s.c.vars name = some vv)
    (hitems : loopItems vv sub = (k, v, ik) :: rest)
    (hrun : (run (rIterStart ls k v ik { s with c := { s.c with brkD := 0 } })).err = some .interrupt) :
    (loopNode (rloopWith run none ls) s).err = some .interrupt ∧
    (loopNode (rloopWith run none ls) s).st.w = (run (rIterStart ls k v ik { s with c := { s.c with brkD := 0 } })).st.w := by
  have hloop : rloopWith run none ls { s with c := { s.c with brkD := 0 } } =
      ok { (run (rIterStart ls k v ik { s with c := { s.c with brkD := 0 } })).st with
           c := { (run (rIterStart ls k v ik { s with c := { s.c with brkD := 0 } })).st.c with
                  err := some .interrupt,
                  brkD := (run (rIterStart ls k v ik { s with c := { s.c with brkD := 0 } })).st.c.brkD - 1 } } := by
    unfold rloopWith
    simp only [hsrc]
    have : getVar ({ s with c := { s.c with brkD := 0 } } : St).c.vars name = some vv := hvar
    simp only [this, hitems]
    rw [rloopLoop]
    simp only [sepWrite, Nat.lt_irrefl, gt_iff_lt, decide_false, Bool.false_and, Bool.false_eq_true, if_false, ok]
    rw [interrupt_aborts_iteration _ hrun]
    rfl
  constructor
  · exact loopNode_returns_ctxErr _ _ _ (by rw [hloop]; rfl) (by rw [hloop]; rfl)
  · unfold loopNode
    simp only [hloop, ok]
    rfl

/-- At the top of a template the interrupt becomes success: `exit` ends the template, the render
    reports no error, and the output is what the interrupted list had produced. -/
theorem exit_ends_template_ok (reg : Registry) (f : Nat) (nodes : List Node) (s : St)
    (h : (writeSeq reg f nodes s).err = some .interrupt) :
    (writeTree reg (f+1) nodes s).err = none ∧
    (writeTree reg (f+1) nodes s).st.w = (writeSeq reg f nodes s).st.w ∧
    (writeTree reg (f+1) nodes s).st.c.err = none := by
  rw [writeTree]; simp [h]

/-- Any other outcome of the list is the outcome of the template. -/
theorem template_passes_other (reg : Registry) (f : Nat) (nodes : List Node) (s : St)
    (h : (writeSeq reg f nodes s).err ≠ some .interrupt) :
    writeTree reg (f+1) nodes s = writeSeq reg f nodes s := by
  rw [writeTree]; simp [h]

/-! ### include -/

/-- None of the listed names is registered: template-not-found, nothing written. -/
theorem include_notfound (reg : Registry) (f : Nat) (names : List Bytes) (s : St) (h : reg.getBKeys names = none) :
    writeNode reg (f+1) (.incl names) s = fail s .tplNotFound := by
  rw [writeNode]; simp [h]

/-- The first registered name of the list is the one rendered. -/
theorem getBKeys_first (reg : Registry) (k : Bytes) (ks : List Bytes) (t : List Node) (h : reg.lookup k = some t) :
    reg.getBKeys (k :: ks) = some t := by
  simp [Registry.getBKeys, h]

theorem getBKeys_skip (reg : Registry) (k : Bytes) (ks : List Bytes) (h : reg.lookup k = none) :
    reg.getBKeys (k :: ks) = reg.getBKeys ks := by
  simp [Registry.getBKeys, h]

/-- An include renders the included tree with the includer's context (variables, escape region, break
    depth …) into a scratch buffer and copies it out; afterwards the includer goes on with the context the
    included template left. An `exit` inside the included template ends only that template
    (`writeTree` turns it into success). -/
theorem include_renders (reg : Registry) (f : Nat) (names : List Bytes) (nodes : List Node) (s : St)
    (h : reg.getBKeys names = some nodes) (hd : s.c.incD < maxIncDepth) :
    writeNode reg (f+1) (.incl names) s =
      inclFinish s (let r := writeTree reg f nodes { c := { s.c with incD := s.c.incD + 1 }, w := {} }
                    { r with st := { r.st with c := { r.st.c with incD := r.st.c.incD - 1 } } }) := by
  rw [writeNode]
  have : ¬ (s.c.incD ≥ maxIncDepth) := by omega
  simp [h, this]

/-- On success exactly the bytes the included template produced are written, with one write. -/
theorem inclFinish_ok (s : St) (r : Res) (h : r.err = none) :
    inclFinish s r = ({ s with c := r.st.c } : St).write r.st.w.out := by
  unfold inclFinish; simp [h]

/-- An included template that ended with an error (or with a break / continue signal meant for a loop of the
    including template) without having written anything: the error is passed on. -/
theorem inclFinish_err (s : St) (r : Res) (e : Err) (h : r.err = some e) (ho : r.st.w.out = []) :
    inclFinish s r = ⟨{ s with c := r.st.c }, some e⟩ := by
  unfold inclFinish; simp [h, ho]

/-- … and when it HAD written something, that is copied out first (repair: it used to be dropped), then the error
    is passed on — unless the copy itself fails, which is then the error. -/
theorem inclFinish_err_copies (s : St) (r : Res) (e : Err) (h : r.err = some e) (ho : r.st.w.out ≠ [])
    (he : e ≠ .outOfFuel) (hw : s.w.failAt = none) :
    (inclFinish s r).err = some e ∧ (inclFinish s r).st.w.out = s.w.out ++ r.st.w.out := by
  unfold inclFinish
  have h1 : r.st.w.out.isEmpty = false := by cases hh : r.st.w.out <;> simp_all
  have h2 : (e == Err.outOfFuel) = false := by cases e <;> simp_all
  simp only [h, h1, h2, Bool.or_false, Bool.false_eq_true, if_false, Res.orErr, St.write, Writer.write, hw, ok]
  simp

/-- **include ≙ inlining.** Rendering the included tree directly into the includer's (fault-free) writer
    at the place of the tag — i.e. what textual inlining of the registered template does — and the
    include tag give the same error, the same context afterwards and the same output — also when the included
    template ends with an error or with a break / continue signal (repair: what it had written used to be dropped);
    only the model's own `outOfFuel` copies nothing. Holds for every tree, context and
    nesting depth of further includes inside. -/
theorem include_inline (reg : Registry) (f : Nat) (names : List Bytes) (nodes : List Node) (s : St)
    (h : reg.getBKeys names = some nodes) (hd : s.c.incD < maxIncDepth)
    (hw : s.w.failAt = none) (hf : s.w.failed = false) :
    let inl := writeTree reg f nodes { c := { s.c with incD := s.c.incD + 1 }, w := s.w }
    let inc := writeNode reg (f+1) (.incl names) s
    inc.err = inl.err ∧
    inc.st.c = { inl.st.c with incD := inl.st.c.incD - 1 } ∧
    (inl.err ≠ some .outOfFuel → inc.st.w.out = inl.st.w.out) ∧
    (inl.err = some .outOfFuel → inc.st.w.out = s.w.out) := by
  intro inl inc
  have hsw : s.w = ({} : Writer).pre s.w.out s.w.writes := by
    cases hsw : s.w with
    | mk o wr fa fl =>
      rw [hsw] at hw hf
      simp only at hw hf
      subst hw; subst hf
      simp [Writer.pre]
  have hin : ({ c := { s.c with incD := s.c.incD + 1 }, w := {} } : St).w.failAt = none := rfl
  have fr := ((interp_frame reg f).1 nodes { c := { s.c with incD := s.c.incD + 1 }, w := {} } hin).2 [] s.w.out s.w.writes
  have hst : ({ c := { s.c with incD := s.c.incD + 1 }, w := {} } : St).pre [] s.w.out s.w.writes =
      { c := { s.c with incD := s.c.incD + 1 }, w := s.w } := by
    simp only [St.pre, Ctx.pre, List.nil_append]
    rw [← hsw]
  rw [hst] at fr
  have hinl : inl = (writeTree reg f nodes { c := { s.c with incD := s.c.incD + 1 }, w := {} }).pre [] s.w.out s.w.writes := fr
  have hinc : inc = inclFinish s (let r := writeTree reg f nodes { c := { s.c with incD := s.c.incD + 1 }, w := {} }
                    { r with st := { r.st with c := { r.st.c with incD := r.st.c.incD - 1 } } }) :=
    include_renders reg f names nodes s h hd
  generalize writeTree reg f nodes { c := { s.c with incD := s.c.incD + 1 }, w := {} } = r at hinl hinc
  rw [hinl, hinc]
  simp only [Res.pre, St.pre, Ctx.pre, Writer.pre, List.nil_append]
  unfold inclFinish
  cases hre : r.err with
  | some e =>
    by_cases hc : (r.st.w.out.isEmpty || e == Err.outOfFuel) = true
    · simp only [hc, if_true]
      refine ⟨by simp, by simp, ?_, ?_⟩
      · intro hne
        have : r.st.w.out.isEmpty = true := by
          cases ho : r.st.w.out.isEmpty
          · simp only [ho, Bool.false_or] at hc
            have : e = Err.outOfFuel := by simpa using hc
            exact absurd (by rw [this]) hne
          · rfl
        have : r.st.w.out = [] := by simpa using this
        simp [this]
      · intro _; simp
    · simp only [hc, Bool.false_eq_true, if_false, Res.orErr, St.write, Writer.write, hw, ok]
      have hne : e ≠ Err.outOfFuel := by
        intro he; subst he; simp at hc
      refine ⟨by simp, by simp, ?_, ?_⟩
      · intro _; simp
      · intro he; exact absurd (by simpa using he) hne
  | none =>
    simp only [St.write, Writer.write, hw, ok]
    simp

/-- **A loop that is abandoned takes its share of a pending depth with it** (repair): `lazybreak` followed by `exit`
    in a loop of an included template leaves nothing pending for the loops of the including template. -/
theorem exit_consumes_level (rb : Res) (h : rb.err = some .interrupt) (hd : rb.st.c.brkD = 1) :
    ∃ st, iterAfterBody rb = .abort st ∧ st.c.brkD = 0 ∧ st.c.err = some .interrupt := by
  refine ⟨_, interrupt_aborts_iteration rb h, ?_, rfl⟩
  simp [hd]

/-! Non-vacuity: exit under a loop inside an included template ends the included template only. -/
def regX : Registry := [(lit "inc", [.raw (lit "a"), .rloop ⟨[], lit "v", lit "l", []⟩ [.raw (lit "b"), .exit, .raw (lit "c")], .raw (lit "d")])]

example :
    (write regX 60 [.raw (lit "<"), .incl [lit "nope", lit "inc"], .raw (lit ">")]
      { c := ({} : Ctx).set (lit "l") (.strs [lit "1", lit "2"]) .strings, w := {} }).st.w.out = lit "<ab>" := by decide

end DyntplV.C16
