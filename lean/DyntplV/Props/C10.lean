import DyntplV.Esc.Js
import DyntplV.HexLemmas
/-!
# C10 — JS and CSS escaping leave no active character and decode to the input
-/
namespace DyntplV.C10
open DyntplV DyntplV.Js

/-! ### Facts about ASCII runes (all 128 values, kernel-decided) -/

theorem safe_facts : ∀ n : Fin 128, isJsSafe n.val = true →
    (UInt8.ofNat n.val == 92) = false ∧
    ((UInt8.ofNat n.val == 34 || UInt8.ofNat n.val == 39 || UInt8.ofNat n.val == 10 || UInt8.ofNat n.val == 13) = false) ∧
    (UInt8.ofNat n.val < 0x80) = true ∧ (UInt8.ofNat n.val).toNat = n.val := by
  decide +kernel

theorem safe_lt (r : Nat) (h : isJsSafe r = true) : r < 128 := by
  simp [isJsSafe] at h; omega

theorem hex4_hd (r : Nat) (h : r < 0x10000) : hex4 (hd r 4096) (hd r 256) (hd r 16) (hd r 1) = some r := by
  simp only [hex4, unhex_hd, toNat_nib]
  congr 1; omega

/-- Step lemma (UTF-16 code-unit granularity): the decoder undoes one escaped unit, whatever follows. -/
theorem decUnit_jsRune (u : Nat) (hu : u < 0x10000) (rest : Bytes) :
    decUnit (jsRune u ++ rest) = some ([u], rest) := by
  unfold jsRune
  split
  · next h => have : u = 92 := by simpa using h
              subst this; rfl
  split
  · next h => have : u = 47 := by simpa using h
              subst this; rfl
  split
  · next h => have : u = 8 := by simpa using h
              subst this; rfl
  split
  · next h => have : u = 12 := by simpa using h
              subst this; rfl
  split
  · next h => have : u = 10 := by simpa using h
              subst this; rfl
  split
  · next h => have : u = 13 := by simpa using h
              subst this; rfl
  split
  · next h => have : u = 9 := by simpa using h
              subst this; rfl
  split
  · next h =>
    have hl := safe_lt u h
    obtain ⟨f1, f2, f3, f4⟩ := safe_facts ⟨u, hl⟩ h
    simp only at f1 f2 f3 f4
    simp only [List.cons_append, List.nil_append, decUnit, f1, f2]
    simp only [utf8DecUnit, f3, f4]
    have hne : ¬ (u = 0x2028 ∨ u = 0x2029) := by omega
    simp [utf16Enc, show u < 65536 by omega]
    omega
  · simp only [uEsc, pad4_eq u hu, List.cons_append, List.nil_append]
    simp only [decUnit]
    simp [hex4_hd u hu]

theorem uEsc_pos (u : Nat) : 0 < (uEsc u).length := by
  simp only [uEsc, List.length_append, List.length_cons]; omega

theorem jsRune_pos (u : Nat) : 0 < (jsRune u).length := by
  unfold jsRune
  split; · simp
  split; · simp
  split; · simp
  split; · simp
  split; · simp
  split; · simp
  split; · simp
  split; · simp
  split
  · exact uEsc_pos u
  · simp only [List.length_append]; have := uEsc_pos (0xD800 + (u - 0x10000) / 1024); omega

theorem jsRune_big (u : Nat) (h : 128 ≤ u) :
    jsRune u = if u < 0x10000 then uEsc u
               else uEsc (0xD800 + (u - 0x10000) / 1024) ++ uEsc (0xDC00 + (u - 0x10000) % 1024) := by
  have hs : isJsSafe u = false := by simp [isJsSafe]; omega
  unfold jsRune
  rw [if_neg (by simp; omega), if_neg (by simp; omega), if_neg (by simp; omega), if_neg (by simp; omega),
    if_neg (by simp; omega), if_neg (by simp; omega), if_neg (by simp; omega), if_neg (by simp [hs])]

/-- The escaper works unit-wise: an astral rune is escaped as its two surrogate units. -/
theorem jsRune_units (r : Nat) (h : r < 0x110000) : jsRune r = (utf16Enc r).flatMap jsRune := by
  unfold utf16Enc
  split
  · simp
  · next hge =>
    have e0 := jsRune_big r (by omega)
    have e1 := jsRune_big (0xD800 + (r - 0x10000) / 1024) (by omega)
    have e2 := jsRune_big (0xDC00 + (r - 0x10000) % 1024) (by omega)
    rw [if_pos (by omega)] at e1 e2
    rw [if_neg (by omega)] at e0
    simp only [List.flatMap_cons, List.flatMap_nil, List.append_nil, e0, e1, e2]

theorem units_lt (r : Nat) (h : r < 0x110000) : ∀ u ∈ utf16Enc r, u < 0x10000 := by
  unfold utf16Enc
  split <;> simp <;> omega

/-- **JS round trip**: read as the body of a JavaScript string literal, the escaped text evaluates to the
    original text (as UTF-16 code units, which is what a JS string is) — for every list of code points
    below 0x110000, BMP and astral. -/
theorem js_roundtrip (cs : List Nat) (hcs : ∀ r ∈ cs, r < 0x110000) :
    jsDecode (jsEscapeRunes cs) = some (cs.flatMap utf16Enc) := by
  -- rewrite the escaper unit-wise
  have hflat : jsEscapeRunes cs = (cs.flatMap utf16Enc).flatMap jsRune := by
    unfold jsEscapeRunes
    induction cs with
    | nil => rfl
    | cons r cs ih =>
      have := jsRune_units r (hcs r (by simp))
      simp only [List.flatMap_cons, List.flatMap_append]
      rw [← this, ih (fun x hx => hcs x (by simp [hx]))]
  have hus : ∀ u ∈ cs.flatMap utf16Enc, u < 0x10000 := by
    intro u hu
    simp only [List.mem_flatMap] at hu
    obtain ⟨r, hr, hur⟩ := hu
    exact units_lt r (hcs r hr) u hur
  have key := decLoop_roundtrip_on (fun u : Nat => u < 0x10000) decUnit jsRune (fun u => [u])
    (fun u hu rest => decUnit_jsRune u hu rest) jsRune_pos (cs.flatMap utf16Enc) hus _ (Nat.le_refl _)
  unfold jsDecode
  rw [hflat, key]
  simp

/-- **JS alphabet**: only letters, digits, `, . _` and backslash escapes. -/
theorem al_jsRune (u : Nat) (hu : u < 0x10000) : (jsRune u).foldl alStep (some 0) = some 0 := by
  unfold jsRune
  split
  · rfl
  split
  · rfl
  split
  · rfl
  split
  · rfl
  split
  · rfl
  split
  · rfl
  split
  · rfl
  split
  · next h =>
    have hl := safe_lt u h
    obtain ⟨f1, _, _, f4⟩ := safe_facts ⟨u, hl⟩ h
    simp only at f1 f4
    simp [alStep, f1, f4, h]
  · simp only [uEsc, pad4_eq u hu, List.cons_append, List.nil_append]
    simp [alStep, isHex_hd]

theorem js_alphabet (cs : List Nat) (hcs : ∀ r ∈ cs, r < 0x110000) : alphabetOK (jsEscapeRunes cs) = true := by
  have hflat : jsEscapeRunes cs = (cs.flatMap utf16Enc).flatMap jsRune := by
    unfold jsEscapeRunes
    induction cs with
    | nil => rfl
    | cons r cs ih =>
      have := jsRune_units r (hcs r (by simp))
      simp only [List.flatMap_cons, List.flatMap_append]
      rw [← this, ih (fun x hx => hcs x (by simp [hx]))]
  have hus : ∀ u ∈ cs.flatMap utf16Enc, u < 0x10000 := by
    intro u hu
    simp only [List.mem_flatMap] at hu
    obtain ⟨r, hr, hur⟩ := hu
    exact units_lt r (hcs r hr) u hur
  have : ∀ (us : List Nat), (∀ u ∈ us, u < 0x10000) → (us.flatMap jsRune).foldl alStep (some 0) = some 0 := by
    intro us
    induction us with
    | nil => intro _; rfl
    | cons u us ih =>
      intro h
      simp only [List.flatMap_cons, List.foldl_append, al_jsRune u (h u (by simp))]
      exact ih (fun x hx => h x (by simp [hx]))
  simp [alphabetOK, hflat, this _ hus]

/-! ### CSS -/

theorem css_safe_facts : ∀ n : Fin 128, isCssSafe n.val = true →
    (UInt8.ofNat n.val == 92) = false ∧ (UInt8.ofNat n.val < 0x80) = true ∧ (UInt8.ofNat n.val).toNat = n.val := by
  decide +kernel

theorem css_safe_lt (r : Nat) (h : isCssSafe r = true) : r < 128 := by
  simp [isCssSafe] at h; omega

theorem spanHex_true (n : Nat) (c : UInt8) (rest : Bytes) (h : isHex c = true) :
    spanHex (n+1) (c :: rest) = (c :: (spanHex n rest).1, (spanHex n rest).2) := by
  simp [spanHex, h]

theorem spanHex_sp (n : Nat) (rest : Bytes) : spanHex n (32 :: rest) = ([], 32 :: rest) := by
  cases n <;> rfl

theorem cssCp_id (r : Nat) (h0 : r ≠ 0) (hs : isScalar r = true) : cssCp r = r := by
  simp [isScalar] at hs
  simp [cssCp, h0]
  omega

/-- Step lemma for CSS: the escape decoder undoes one escaped rune, whatever follows
    (`\HEX␠` never swallows the next character because of its terminating space). -/
theorem cssDecUnit_cssRune (r : Nat) (h0 : r ≠ 0) (hs : isScalar r = true) (rest : Bytes) :
    cssDecUnit (cssRune r ++ rest) = some ([r], rest) := by
  have hlt : r < 0x110000 := by simp [isScalar] at hs; omega
  unfold cssRune
  split
  · next h => have : r = 13 := by simpa using h
              subst this; rfl
  split
  · next h => have : r = 10 := by simpa using h
              subst this; rfl
  split
  · next h => have : r = 9 := by simpa using h
              subst this; rfl
  split
  · next h => have : r = 0 := by simpa using h
              exact absurd this h0
  split
  · next h => have : r = 32 := by simpa using h
              subst this; rfl
  split
  · next h =>
    have hl := css_safe_lt r h
    obtain ⟨f1, f3, f4⟩ := css_safe_facts ⟨r, hl⟩ h
    simp only at f1 f3 f4
    simp only [List.cons_append, List.nil_append, cssDecUnit, f1]
    simp [utf8DecUnit, f3, f4]
  · have hcp := cssCp_id r h0 hs
    have hx : ∀ x, x = r → cssCp x = r := fun x e => e ▸ hcp
    unfold hexLoRune
    split
    · simp only [List.cons_append, List.nil_append, cssDecUnit]
      simp [isHex_hd, spanHex_true, spanHex_sp, hexVal, unhex_hd, toNat_nib]
      exact hx _ (by omega)
    split
    · simp only [List.cons_append, List.nil_append, cssDecUnit]
      simp [isHex_hd, spanHex_true, spanHex_sp, hexVal, unhex_hd, toNat_nib]
      exact hx _ (by omega)
    split
    · simp only [List.cons_append, List.nil_append, cssDecUnit]
      simp [isHex_hd, spanHex_true, spanHex_sp, hexVal, unhex_hd, toNat_nib]
      exact hx _ (by omega)
    split
    · simp only [List.cons_append, List.nil_append, cssDecUnit]
      simp [isHex_hd, spanHex_true, spanHex_sp, hexVal, unhex_hd, toNat_nib]
      exact hx _ (by omega)
    split
    · simp only [List.cons_append, List.nil_append, cssDecUnit]
      simp [isHex_hd, spanHex_true, spanHex_sp, hexVal, unhex_hd, toNat_nib]
      exact hx _ (by omega)
    · simp only [List.cons_append, List.nil_append, cssDecUnit]
      simp [isHex_hd, spanHex_true, spanHex_sp, hexVal, unhex_hd, toNat_nib]
      exact hx _ (by omega)

theorem cssRune_pos (r : Nat) : 0 < (cssRune r).length := by
  unfold cssRune
  split; · simp
  split; · simp
  split; · simp
  split; · simp
  split; · simp
  split; · simp
  simp

/-- **CSS round trip**: for every list of non-NUL scalar values, decoding the escaped text under the CSS
    escape rules returns the original code points. -/
theorem css_roundtrip (cs : List Nat) (hcs : ∀ r ∈ cs, r ≠ 0 ∧ isScalar r = true) :
    cssDecode (cssEscapeRunes cs) = some cs := by
  have key := decLoop_roundtrip_on (fun r : Nat => r ≠ 0 ∧ isScalar r = true) cssDecUnit cssRune (fun r => [r])
    (fun r hr rest => cssDecUnit_cssRune r hr.1 hr.2 rest) cssRune_pos cs hcs _ (Nat.le_refl _)
  unfold cssDecode cssEscapeRunes
  rw [key]; simp

theorem al_cssRune (r : Nat) (hlt : r < 0x110000) : (cssRune r).foldl cssAlStep (some 0) = some 0 := by
  unfold cssRune
  split; · rfl
  split; · rfl
  split; · rfl
  split; · rfl
  split; · rfl
  split
  · next h =>
    have hl := css_safe_lt r h
    obtain ⟨f1, _, f4⟩ := css_safe_facts ⟨r, hl⟩ h
    simp only at f1 f4
    simp [cssAlStep, f1, f4, h]
  · unfold hexLoRune
    split; · simp [cssAlStep, isHex_hd, hd_ne_sp]
    split; · simp [cssAlStep, isHex_hd, hd_ne_sp]
    split; · simp [cssAlStep, isHex_hd, hd_ne_sp]
    split; · simp [cssAlStep, isHex_hd, hd_ne_sp]
    split; · simp [cssAlStep, isHex_hd, hd_ne_sp]
    simp [cssAlStep, isHex_hd, hd_ne_sp]

/-- **CSS alphabet**: only letters, digits and backslash-hex escapes each terminated by a space. -/
theorem css_alphabet (cs : List Nat) (hcs : ∀ r ∈ cs, r < 0x110000) : cssAlphabetOK (cssEscapeRunes cs) = true := by
  have : (cssEscapeRunes cs).foldl cssAlStep (some 0) = some 0 := by
    unfold cssEscapeRunes
    induction cs with
    | nil => rfl
    | cons r cs ih =>
      simp only [List.flatMap_cons, List.foldl_append, al_cssRune r (hcs r (by simp))]
      exact ih (fun x hx => hcs x (by simp [hx]))
  simp [cssAlphabetOK, this]

example : cssEscapeRunes [0x41, 0x20, 0xe9, 0x10ffff] = lit "A\\20 \\e9 \\10ffff " := by decide
example : cssDecode (lit "\\41 b\\e9z") = some [0x41, 0x62, 0xe9, 0x7a] := by decide

example : jsEscapeRunes [10, 0x3c, 0x1f600] = lit "\\n\\u003c\\ud83d\\ude00" := by decide
example : jsDecode (lit "a\nb") = none := by decide
example : jsDecode (lit "\\x41\\u0042\\/") = some [65, 66, 47] := by decide

end DyntplV.C10
