import DyntplV.Refine.Fuel
import DyntplV.Props.C14

/-!
# Fuel is only a termination device

Property-level statements of `Refine/Fuel.lean` (kept apart from the helper lemmas): the result of a rendering in
the model does not depend on the fuel constant, as long as the fuel suffices. All theorems of the interpreter
properties (C01–C03, C14–C18) that are stated for a given fuel therefore speak about every sufficient fuel, and the
differential runs (fuel 1200) compare against the same result any larger constant would give.
-/

namespace DyntplV.FuelProps

open DyntplV.Fuel

/-- More fuel never changes the result of a rendering that did not run out. -/
theorem render_more_fuel (reg : Registry) (key : Bytes) (s : St) (f g : Nat) (hfg : f ≤ g)
    (h : (writeKey reg f key s).err ≠ some .outOfFuel) : writeKey reg g key s = writeKey reg f key s :=
  writeKey_fuel_le reg key s f g hfg h

/-- Two sufficient fuels give the same output, error and context. -/
theorem render_fuel_independent (reg : Registry) (key : Bytes) (s : St) (f g : Nat)
    (hf : (writeKey reg f key s).err ≠ some .outOfFuel) (hg : (writeKey reg g key s).err ≠ some .outOfFuel) :
    writeKey reg f key s = writeKey reg g key s :=
  writeKey_fuel_indep reg key s f g hf hg

/-- Running out is monotone too: if a fuel is insufficient, so is every smaller one. -/
theorem out_of_fuel_downward (reg : Registry) (key : Bytes) (s : St) (f g : Nat) (hfg : f ≤ g)
    (h : (writeKey reg g key s).err = some .outOfFuel) : (writeKey reg f key s).err = some .outOfFuel := by
  by_cases hf : (writeKey reg f key s).err = some .outOfFuel
  · exact hf
  · rw [← writeKey_fuel_le reg key s f g hfg hf]; exact h

/-- The same for a single node (used to lift node-level theorems stated with `f+1`, `f+4`, … to any larger fuel). -/
theorem node_more_fuel (reg : Registry) (n : Node) (s : St) (f g : Nat) (hfg : f ≤ g)
    (h : (writeNode reg f n s).err ≠ some .outOfFuel) : writeNode reg g n s = writeNode reg f n s :=
  writeNode_fuel_le reg n s f h g hfg

/-! Non-vacuity: the three-level nest of C14 has enough fuel at 60 — and so the theorem gives the same output at
    1200 without running the model again; at fuel 3 it runs out. -/
def reg1 : Registry := [(lit "t", C14.nest3)]
def st1 : St := { c := ({} : Ctx).set (lit "l") (.strs [lit "1", lit "2"]) .strings, w := {} }

example : (writeKey reg1 60 (lit "t") st1).err ≠ some .outOfFuel := by decide
example : (writeKey reg1 3 (lit "t") st1).err = some .outOfFuel := by decide
example : (writeKey reg1 1200 (lit "t") st1).st.w.out = lit "[xm][xm]" := by
  rw [render_more_fuel reg1 (lit "t") st1 60 1200 (by omega) (by decide)]
  decide

end DyntplV.FuelProps
