import DyntplV.Impl
import DyntplV.QB
/-!
# C15 — a variable always reads back its most recent assignment

The variable store of the model is `Ctx.vars` with `setVar` / `getVar` (one slot per name, exactly one
live representation per slot — the repaired `Set*`).  Theorems are about every store, every name, every
value; the tie (assignment/read histories) holds the model to `ctx.go`.
-/
namespace DyntplV.C15
open DyntplV

/-- **Read-your-write**: whatever the slot held before (any representation), a lookup after `setVar`
    yields the new value. -/
theorem get_set (vars : List (Bytes × VarVal)) (k : Bytes) (v : VarVal) :
    getVar (setVar vars k v) k = some v := by
  induction vars with
  | nil => simp [setVar, getVar]
  | cons hd tl ih =>
    obtain ⟨k', v'⟩ := hd
    unfold setVar
    by_cases h : (k' == k) = true
    · simp [h, getVar]
    · have h' : (k' == k) = false := by simpa using h
      simp only [h', Bool.false_eq_true, if_false]
      unfold getVar
      simp only [h', Bool.false_eq_true, if_false]
      exact ih

/-- **Frame**: assigning one name does not change what any other name reads (no aliasing between
    different variables). -/
theorem get_set_other (vars : List (Bytes × VarVal)) (k k' : Bytes) (v : VarVal) (hne : (k == k') = false) :
    getVar (setVar vars k v) k' = getVar vars k' := by
  induction vars with
  | nil =>
    simp [setVar, getVar, hne]
  | cons hd tl ih =>
    obtain ⟨k0, v0⟩ := hd
    unfold setVar
    by_cases h : (k0 == k) = true
    · have hk : k0 = k := by simpa using h
      subst hk
      simp only [h, if_true]
      unfold getVar
      simp [hne]
    · have h' : (k0 == k) = false := by simpa using h
      simp only [h', Bool.false_eq_true, if_false]
      unfold getVar
      by_cases h2 : (k0 == k') = true
      · simp [h2]
      · have h2' : (k0 == k') = false := by simpa using h2
        simp only [h2', Bool.false_eq_true, if_false]
        exact ih

/-- The five context setters all go through `setVar`, each with the representation it owns. -/
theorem set_reads (c : Ctx) (k : Bytes) (v : Val) (ins : InsKind) :
    getVar (c.set k v ins).vars k = some (.ins v ins) := get_set _ _ _
theorem setStatic_reads (c : Ctx) (k : Bytes) (v : Val) :
    getVar (c.setStatic k v).vars k = some (.ins v .static) := get_set _ _ _
theorem setBytes_reads (c : Ctx) (k : Bytes) (b : Bytes) :
    getVar (c.setBytes k b).vars k = some (.bytes b) := get_set _ _ _
theorem setCounter_reads (c : Ctx) (k : Bytes) (n : Int) :
    getVar (c.setCounter k n).vars k = some (.cntr n) := get_set _ _ _

/-- What `get` returns for a plain name after each kind of assignment. -/
theorem read_static (c : Ctx) (k : Bytes) (v : Val) (hk : splitDots k = [k]) :
    (getChunks (c.setStatic k v).vars (splitDots k)) = v := by
  rw [hk]; simp [getChunks, setStatic_reads, insGet]

/-- (also for EMPTY bytes: since the repair an empty bytes variable is a value, not "unset") -/
theorem read_bytes (c : Ctx) (k : Bytes) (b : Bytes) (hk : splitDots k = [k]) :
    (getChunks (c.setBytes k b).vars (splitDots k)) = .bytes b := by
  rw [hk]; simp [getChunks, setBytes_reads]

theorem read_counter (c : Ctx) (k : Bytes) (n : Int) (hk : splitDots k = [k]) :
    (getChunks (c.setCounter k n).vars (splitDots k)) = .int n := by
  rw [hk]; simp [getChunks, setCounter_reads]

/-- **Counter arithmetic**: a `{% counter k++ / -- / +n / -n %}` tag on a counter holding `cur` stores
    `cur ± n` (two's-complement wrap-around of Go's `int`, the identity inside the int64 range). -/
theorem counter_step (c : Ctx) (cs : CntrSpec) (cur : Int) (hinit : cs.initF = false)
    (hget : (c.get cs.var).1 = .int cur) (herr : (c.get cs.var).2.err = none) :
    getVar (counterNode c cs).1.vars cs.var =
      some (.cntr (wrap64 (if cs.op == .inc then cur + cs.opArg else cur - cs.opArg))) := by
  unfold counterNode
  simp only [hinit, Bool.false_eq_true, if_false]
  generalize hg : c.get cs.var = g at hget herr
  obtain ⟨raw, c1⟩ := g
  simp only at hget herr
  simp only [herr, hget, convInt]
  exact get_set _ _ _

theorem counter_init (c : Ctx) (cs : CntrSpec) (hinit : cs.initF = true) :
    getVar (counterNode c cs).1.vars cs.var = some (.cntr cs.init) := by
  unfold counterNode
  simp only [hinit, if_true]
  exact get_set _ _ _

theorem wrap64_id (x : Int) (h1 : -9223372036854775808 ≤ x) (h2 : x ≤ 9223372036854775807) : wrap64 x = x := by
  unfold wrap64; omega

theorem ctxAssign_other (c : Ctx) (var k' : Bytes) (raw : Val) (kind : InsKind) (hne : (var == k') = false) :
    getVar (ctxAssign c var raw kind).vars k' = getVar c.vars k' := by
  unfold ctxAssign
  split
  · split
    · exact get_set_other _ _ _ _ hne
    · exact get_set_other _ _ _ _ hne
  · exact get_set_other _ _ _ _ hne

/-- **ok-flag** of a ctx assignment: true exactly when the source value is non-empty
    (not nil, not an empty string or byte string — also behind a pointer). -/
theorem ok_iff_nonempty (c : Ctx) (cs : CtxSpec) (raw : Val) (c1 : Ctx)
    (hs : cs.srcStatic = false) (hins : cs.ins = lit "static") (hok : cs.ok ≠ []) (hmods : cs.mods = [])
    (hget : c.get cs.src = (raw, c1)) (herr : c1.err = none) (hne : (cs.var == cs.ok) = false) :
    getVar (ctxNode c cs).1.vars cs.ok = some (.ins (.bool (!srcEmpty raw)) .static) := by
  unfold ctxNode
  have hi : (cs.ins == lit "static") = true := by rw [hins]; simp
  simp only [hs, Bool.false_eq_true, if_false, hi, Bool.true_or, Bool.not_true, hget, herr, hmods, runMods]
  have hokE : cs.ok.isEmpty = false := by
    cases h : cs.ok with
    | nil => exact absurd h hok
    | cons x xs => simp
  simp only [hokE, Bool.false_eq_true, if_false]
  have key : getVar (c1.setStatic cs.ok (Val.bool !srcEmpty raw)).vars cs.ok = some (.ins (.bool (!srcEmpty raw)) .static) :=
    setStatic_reads _ _ _
  split
  · exact key
  · simp only
    rw [ctxAssign_other _ _ _ _ _ hne]; exact key

/-- **The assigned value** of a ctx tag with a non-empty source: bytes are copied, other values stored. -/
theorem ctx_assigns (c : Ctx) (cs : CtxSpec) (raw : Val) (c1 : Ctx)
    (hs : cs.srcStatic = false) (hins : cs.ins = lit "static") (hmods : cs.mods = [])
    (hget : c.get cs.src = (raw, c1)) (herr : c1.err = none) (hne : srcEmpty raw = false) :
    getVar (ctxNode c cs).1.vars cs.var =
      some (match raw with | .bytes b => .bytes b | v => .ins v .static) := by
  unfold ctxNode
  have hi : (cs.ins == lit "static") = true := by rw [hins]; simp
  simp only [hs, Bool.false_eq_true, if_false, hi, Bool.true_or, Bool.not_true, hget, herr, hmods, runMods, hne]
  unfold ctxAssign
  cases raw with
  | bytes b =>
    have : b.isEmpty = false := by
      cases b with
      | nil => simp [srcEmpty, Val.isNilOrEmptyStr] at hne
      | cons x xs => rfl
    simp only [this, Bool.false_eq_true, if_false]
    exact get_set _ _ _
  | _ => simp only [if_true]; exact get_set _ _ _

/-- A literal source (`{% ctx x = "lit" %}` / `= 10`) stores the literal bytes. -/
theorem ctx_static_assigns (c : Ctx) (cs : CtxSpec) (hs : cs.srcStatic = true) (hne : (cs.ok == cs.var) = false) :
    getVar (ctxNode c cs).1.vars cs.var = some (.bytes cs.src) := by
  unfold ctxNode
  simp only [hs, if_true]
  split
  · exact get_set _ _ _
  · show getVar (setVar _ cs.ok _) cs.var = _
    rw [get_set_other _ _ _ _ hne]
    exact get_set _ _ _

/-- … and its ok-flag is true exactly when the literal is not empty (repair: the fast path for literal sources used
    to skip the flag). -/
theorem ok_static (c : Ctx) (cs : CtxSpec) (hs : cs.srcStatic = true) (hok : cs.ok ≠ []) :
    getVar (ctxNode c cs).1.vars cs.ok = some (.ins (.bool (!cs.src.isEmpty)) .static) := by
  unfold ctxNode
  have hokE : cs.ok.isEmpty = false := by
    cases h : cs.ok with
    | nil => exact absurd h hok
    | cons x xs => simp
  simp only [hs, if_true, hokE, Bool.false_eq_true, if_false]
  exact setStatic_reads _ _ _

/-! ### The latest assignment also decides COMPARISONS (not only prints) -/

/-- A path without a square bracket is compared as it stands, inside counter loops too. -/
theorem cmpPath_plain (vars : Vars) (qb : Bool) (k : Bytes) (hb : indexOf 91 k = none) : cmpPath vars qb k = some k := by
  unfold cmpPath
  cases qb <;> simp [replaceQB_plain _ _ hb]

/-- A name that has just become a counter compares as that integer — whatever it held before (a struct with an
    inspector of its own, a list, bytes: the sixth round's seeded change C02-r6m1 kept the old inspector). -/
theorem cmp_after_setCounter (c : Ctx) (k : Bytes) (n : Int) (o : Op) (right : Bytes) (hk : splitDots k = [k])
    (hb : indexOf 91 k = none) :
    ((c.setCounter k n).cmp k o right).1 = ((Val.int n).cmpLit o right).getD false ∧
    ((c.setCounter k n).cmp k o right).2.err = none := by
  unfold Ctx.cmp
  simp only [cmpPath_plain _ _ k hb, Option.map_some, Option.getD_some]
  unfold cmpCore cmpErrCore
  simp only [hk, setCounter_reads]
  exact ⟨trivial, trivial⟩

/-- A name that has just been given a static value compares through the static inspector on that value. -/
theorem cmp_after_setStatic (c : Ctx) (k : Bytes) (v : Val) (o : Op) (right : Bytes) (hk : splitDots k = [k])
    (hb : indexOf 91 k = none) :
    ((c.setStatic k v).cmp k o right).1 = (insCompare .static v [] o right).getD false := by
  unfold Ctx.cmp
  simp only [cmpPath_plain _ _ k hb, Option.map_some, Option.getD_some]
  unfold cmpCore
  simp only [hk, setStatic_reads]

/-- A name that has just been given bytes — EMPTY ones included — compares byte-wise with them. -/
theorem cmp_after_setBytes (c : Ctx) (k : Bytes) (b : Bytes) (o : Op) (right : Bytes) (hk : splitDots k = [k])
    (hb0 : indexOf 91 k = none) :
    ((c.setBytes k b).cmp k o right).1 = ((Val.bytes b).cmpLit o right).getD false := by
  unfold Ctx.cmp
  simp only [cmpPath_plain _ _ k hb0, Option.map_some, Option.getD_some]
  unfold cmpCore
  simp only [hk, setBytes_reads]

/-- **C02, the empty string**: a variable set to the empty string equals the literal `""` and differs from `"x"`. -/
theorem empty_bytes_compares (c : Ctx) (k : Bytes) (hk : splitDots k = [k]) (hb0 : indexOf 91 k = none) :
    ((c.setBytes k []).cmp k .eq []).1 = true ∧ ((c.setBytes k []).cmp k .nq (lit "x")).1 = true ∧
    ((c.setBytes k []).cmp k .eq (lit "x")).1 = false := by
  refine ⟨?_, ?_, ?_⟩ <;> rw [cmp_after_setBytes c k [] _ _ hk hb0] <;> decide

/-- **Inside a counter loop the LEFT operand's square-bracket index is substituted before the comparison** (repair:
    `{% if a[i].f > 0 %}` used to compare the literal path `a[i]`, which names nothing, and was always false): the
    comparison of `a[i].f` is the comparison of `a.<value of i>.f`. -/
theorem cmp_indexed_left (c : Ctx) (path p : Bytes) (o : Op) (right : Bytes) (hq : c.chQB = true)
    (hp : replaceQB c.vars path = some p) :
    (c.cmp path o right).1 = cmpCore c.vars p o right := by
  unfold Ctx.cmp cmpPath
  simp [hq, hp]

/-! ### Loop bindings: the counter loop assigns its variable also when it makes no iteration -/

/-- A counter loop whose condition fails at once makes no iteration, does not abort, and has assigned its start value
    to its variable (the sixth round's seeded change C15-r6m1 dropped this assignment). -/
theorem cloop_no_iteration (run : St → Res) (ls : CLoopSpec) (f : Nat) (v lim : Int) (n : Nat) (s : St)
    (h : loopAllows ls.condOp v lim = some false) :
    cloopLoop run ls (f+1) v lim n s = ⟨n, { s with c := s.c.setStatic ls.cnt (.int v) }, false⟩ := by
  simp only [cloopLoop, h]

/-- … so after the loop the variable reads the start value, whatever the name held before. -/
theorem cloop_no_iteration_binds (run : St → Res) (ls : CLoopSpec) (f : Nat) (v lim : Int) (n : Nat) (s : St)
    (h : loopAllows ls.condOp v lim = some false) :
    getVar (cloopLoop run ls (f+1) v lim n s).st.c.vars ls.cnt = some (.ins (.int v) .static) := by
  rw [cloop_no_iteration run ls f v lim n s h]
  exact setStatic_reads _ _ _

/-- … and its for-else branch starts in that state: it reads the start value too. -/
theorem cloop_else_sees_binding (run re : St → Res) (ls : CLoopSpec) (f : Nat) (v lim : Int) (s : St)
    (h : loopAllows ls.condOp v lim = some false) :
    cloopAfter run (some re) (f+1) ls (some (v, lim)) s = re { s with c := s.c.setStatic ls.cnt (.int v) } := by
  simp only [cloopAfter, cloop_no_iteration run ls f v lim 0 s h, afterLoop]
  simp

/-- When the loop ends because its condition has become false after an iteration, the variable holds the first
    value that fails the condition (one step: the last iteration's successor). -/
theorem cloop_last_step_binds (run : St → Res) (ls : CLoopSpec) (f : Nat) (v lim : Int) (n : Nat) (s : St)
    (hinc : ls.cntOp = .inc ∨ ls.cntOp = .dec)
    (hgo : loopAllows ls.condOp v lim = some true) (hstop : loopAllows ls.condOp (stepVal ls.cntOp v) lim = some false)
    (hsep : (sepWrite n ls.sep { s with c := s.c.setStatic ls.cnt (.int v) }).err = none)
    (st : St)
    (hbody : iterAfterBody (let rs1 := clrErrIf (decide (n > 0) && !ls.sep.isEmpty) (sepWrite n ls.sep { s with c := s.c.setStatic ls.cnt (.int v) }).st
      let rb0 := run { rs1 with c := { rs1.c with chQB := true } }
      ({ rb0 with st := { rb0.st with c := { rb0.st.c with chQB := rs1.c.chQB } } } : Res)) = .next st) :
    getVar (cloopLoop run ls (f+2) v lim n s).st.c.vars ls.cnt = some (.ins (.int (stepVal ls.cntOp v)) .static) := by
  have hop : (ls.cntOp == .inc || ls.cntOp == .dec) = true := by
    rcases hinc with h | h <;> simp [h]
  rw [cloopLoop]
  simp only [hgo, hsep, hop, if_true]
  simp only [] at hbody
  rw [hbody]
  simp only []
  rw [cloop_no_iteration_binds run ls f _ lim (n+1) _ hstop]

/-! Non-vacuity. -/
example : loopAllows .lt 5 3 = some false := by decide
example : getVar (setVar (setVar [] (lit "a") (.bytes (lit "x"))) (lit "a") (.cntr 5)) (lit "a") = some (.cntr 5) := by rfl
example : getVar (setVar (setVar [] (lit "a") (.bytes (lit "x"))) (lit "b") (.cntr 5)) (lit "a") = some (.bytes (lit "x")) := by rfl
example : wrap64 (9223372036854775807 + 2) = -9223372036854775807 := by decide

end DyntplV.C15
