import DyntplV.Refine.FrameInterp
import DyntplV.Props.C15
/-!
# C01 — static text and printed values reach the output unchanged, in order

Statements about the interpreter model (which the differential run ties to dyntpl on the real parsed tree):
a raw node writes exactly its bytes, a node list writes the concatenation of what its nodes write,
a print node writes prefix · value · suffix where the value is the text form of the variable, the output
only ever grows at its end, and what a render adds does not depend on what was written before.
-/
namespace DyntplV.C01
open DyntplV

/-- Outside every escape region. -/
def NoRegion (c : Ctx) : Prop := c.bnd = []

theorem regionEscape_none (c : Ctx) (p : Bytes) (h : NoRegion c) : regionEscape c p = p := by
  unfold NoRegion at h
  simp [regionEscape, h]

/-- A successful write appends exactly the bytes given, as one write. -/
theorem write_appends (s : St) (p : Bytes) (h : s.w.failAt = none) :
    s.write p = ok { s with w := { s.w with out := s.w.out ++ p, writes := s.w.writes + 1 } } := by
  simp [St.write, Writer.write, h]

/-- **Static text.** A raw node outside any region writes exactly its bytes — no byte added, dropped or
    changed — and touches nothing else. -/
theorem raw_emits (reg : Registry) (f : Nat) (b : Bytes) (s : St) (hr : NoRegion s.c) (hw : s.w.failAt = none) :
    writeNode reg (f+1) (.raw b) s = ok { s with w := { s.w with out := s.w.out ++ b, writes := s.w.writes + 1 } } := by
  rw [writeNode]
  simp only [regionEscape_none _ _ hr]
  exact write_appends s b hw

theorem andThen_assoc (r : Res) (k1 k2 : St → Res) :
    (r.andThen k1).andThen k2 = r.andThen (fun s => (k1 s).andThen k2) := by
  unfold Res.andThen
  cases h : r.err <;> simp [h]

theorem ok_andThen (s : St) (k : St → Res) : (ok s).andThen k = k s := rfl

/-- Render the nodes of `a` in order (each with the fuel the node loop gives it), stop at the first error,
    then continue with `k`. -/
def seqThen (reg : Registry) : Nat → List Node → (Nat → St → Res) → St → Res
  | f, [], k, s => k f s
  | 0, _ :: _, _, s => fail s .outOfFuel
  | f+1, n :: rest, k, s => (writeNode reg f n s).andThen (seqThen reg f rest k)

/-- **In order.** Rendering a node list `a ++ b` is rendering the nodes of `a` one after the other, then —
    unless one of them ended with an error — rendering `b` from the state they left: the output is written in
    source order, nothing is interleaved or reordered. -/
theorem seq_concat (reg : Registry) : ∀ (a b : List Node) (f : Nat) (s : St),
    writeSeq reg f (a ++ b) s = seqThen reg f a (fun f' s' => writeSeq reg f' b s') s := by
  intro a
  induction a with
  | nil => intro b f s; rw [List.nil_append, seqThen]
  | cons n rest ih =>
    intro b f s
    cases f with
    | zero => rw [List.cons_append, writeSeq]; rfl
    | succ f =>
      rw [List.cons_append, writeSeq, seqThen]
      congr 1
      funext s1
      exact ih b f s1

/-- Two pieces of static text in a row: both, in order, nothing in between. -/
theorem raw_raw (reg : Registry) (f : Nat) (a b : Bytes) (s : St) (hr : NoRegion s.c) (hw : s.w.failAt = none) :
    (writeSeq reg (f+3) [.raw a, .raw b] s).st.w.out = s.w.out ++ a ++ b := by
  rw [writeSeq, raw_emits reg (f+1) a s hr hw, ok_andThen, writeSeq]
  rw [raw_emits reg f b { s with w := { s.w with out := s.w.out ++ a, writes := s.w.writes + 1 } } hr hw, ok_andThen, writeSeq]
  rfl

/-- **Printed value.** A print node whose value evaluates to the text `t` writes prefix, `t`, suffix
    (each as its own write, empty prefix / suffix skipped), unchanged outside a region. -/
theorem print_emits (reg : Registry) (f : Nat) (path : Bytes) (mods : List Mod) (noesc : Bool) (pre suf t : Bytes)
    (s : St) (c2 : Ctx) (hev : evalPrint s.c path mods = (c2, .text t)) (hr : NoRegion c2) (hw : s.w.failAt = none) :
    (writeNode reg (f+1) (.tpl path mods noesc pre suf) s).st.w.out = s.w.out ++ pre ++ t ++ suf ∧
    (writeNode reg (f+1) (.tpl path mods noesc pre suf) s).err = none := by
  rw [writeNode]
  simp only [hev, tplWrites, regionEscape_none _ _ hr, Bool.if_true_right, ite_self]
  have hw2 : ({ s with c := c2 } : St).w.failAt = none := hw
  cases hp : pre.isEmpty <;> cases hs : suf.isEmpty
  all_goals simp only [Bool.false_eq_true, if_false, if_true, ok_andThen]
  all_goals (repeat (first | rw [write_appends _ _ (by first | exact hw2 | exact hw | rfl)] | rw [ok_andThen]))
  all_goals simp_all [ok, List.isEmpty_iff]

/-- A non-empty byte-string variable (`SetBytes` / `SetString`) printed without modifiers, outside a counter
    loop, evaluates to exactly its bytes; the error slot ends up clear. -/
theorem print_value_bytes (c : Ctx) (name b : Bytes) (hb : b ≠ []) (hn : splitDots name = [name])
    (hg : getVar c.vars name = some (.bytes b)) (hq : c.chQB = false) :
    evalPrint c name [] = ({ c with err := none }, .text b) := by
  have hbe : b.isEmpty = false := by cases b <;> simp_all
  simp [evalPrint, Ctx.get, getCore, hq, getChunks, getChunksErr, hn, hg, hbe, runMods, Val.isNilOrEmptyStr, Val.text]

/-- … and `SetBytes` then print gives back the bytes set. -/
theorem setBytes_then_print (c : Ctx) (name b : Bytes) (hb : b ≠ []) (hn : splitDots name = [name]) (hq : c.chQB = false) :
    (evalPrint (c.setBytes name b) name []).2 = .text b := by
  have hg : getVar (c.setBytes name b).vars name = some (.bytes b) := C15.get_set _ _ _
  rw [print_value_bytes (c.setBytes name b) name b hb hn hg hq]

/-- **The output only grows, and what a render adds does not depend on what was there.** For a fault-free
    writer, rendering from a writer that already holds `po` gives `po ++` what the same render writes into an
    empty writer. -/
theorem output_extends (reg : Registry) (fuel : Nat) (nodes : List Node) (s : St) (hw : s.w.failAt = none) :
    (write reg fuel nodes s).st.w.out =
      s.w.out ++ (write reg fuel nodes { s with w := { s.w with out := [], writes := 0 } }).st.w.out ∧
    (write reg fuel nodes s).err = (write reg fuel nodes { s with w := { s.w with out := [], writes := 0 } }).err := by
  have h := (write_frame_top reg fuel nodes { s with w := { s.w with out := [], writes := 0 } } hw).2 [] s.w.out s.w.writes
  have hs : ({ s with w := { s.w with out := [], writes := 0 } } : St).pre [] s.w.out s.w.writes = s := by
    obtain ⟨c, w⟩ := s
    simp [St.pre, Ctx.pre, Writer.pre]
  rw [hs] at h
  rw [h]
  exact ⟨rfl, rfl⟩

end DyntplV.C01
