import DyntplV.Props.C03

/-!
# C03, all bound operators: closed forms of the counter values

`Props/C03.lean` proves that a counter loop runs once for each value of `counterVals` and gives the closed form for
`i := a; i < b; i++`. This file gives the closed forms for the other operators and directions the property
quantifies over (`<=`, `>`, `>=` with `--`, `!=` in both directions), by reducing each to one of two base cases.
-/

namespace DyntplV.C03N
open DyntplV DyntplV.C03

/-- Two bound conditions that agree on every counter value give the same values. -/
theorem counterVals_congr (c1 c2 step : Op) (l1 l2 : Int) (h : ∀ v, loopAllows c1 v l1 = loopAllows c2 v l2) :
    ∀ (f : Nat) (a : Int), counterVals c1 step f a l1 = counterVals c2 step f a l2
  | 0, _ => rfl
  | f+1, a => by
    unfold counterVals
    rw [h a]
    cases loopAllows c2 a l2 with
    | none => rfl
    | some b => cases b with
      | false => rfl
      | true => simp only; rw [counterVals_congr c1 c2 step l1 l2 h f]

/-- `i <= b` is `i < b+1`. -/
theorem counterVals_ltq_inc (f : Nat) (a b : Int) (h : (b + 1 - a).toNat < f) :
    counterVals .ltq .inc f a b = (List.range (b + 1 - a).toNat).map (fun (i : Nat) => a + (i : Int)) := by
  rw [counterVals_congr .ltq .lt .inc b (b+1) (by intro v; simp [loopAllows]; omega) f a]
  exact counterVals_lt_inc f a (b+1) h

/-- Closed form of the values for `i := a; i > b; i--`: `a, a−1, …, b+1`. -/
theorem counterVals_gt_dec : ∀ (f : Nat) (a b : Int), (a - b).toNat < f →
    counterVals .gt .dec f a b = (List.range (a - b).toNat).map (fun (i : Nat) => a - (i : Int))
  | 0, a, b, h => by omega
  | f+1, a, b, h => by
    unfold counterVals
    by_cases hab : a > b
    · have hla : loopAllows .gt a b = some true := by simp [loopAllows, hab]
      simp only [hla, stepVal]
      have hrec := counterVals_gt_dec f (a - 1) b (by omega)
      simp only [show (Op.dec == Op.inc) = false from rfl, Bool.false_eq_true, if_false]
      rw [hrec]
      have hn : (a - b).toNat = (a - 1 - b).toNat + 1 := by omega
      rw [hn, List.range_succ_eq_map]
      simp only [List.map_cons, List.map_map]
      congr 1
      · simp
      · apply List.map_congr_left
        intro i _
        simp only [Function.comp, Nat.succ_eq_add_one, Int.natCast_add, Int.natCast_one]
        omega
    · have hla : loopAllows .gt a b = some false := by simp [loopAllows, hab]
      have h0 : (a - b).toNat = 0 := by omega
      simp [hla, h0]

/-- `i >= b` is `i > b−1`. -/
theorem counterVals_gtq_dec (f : Nat) (a b : Int) (h : (a - (b - 1)).toNat < f) :
    counterVals .gtq .dec f a b = (List.range (a - (b - 1)).toNat).map (fun (i : Nat) => a - (i : Int)) := by
  rw [counterVals_congr .gtq .gt .dec b (b-1) (by intro v; simp [loopAllows]; omega) f a]
  exact counterVals_gt_dec f a (b-1) h

/-- `i != b` counting up from `a ≤ b` is `i < b`. -/
theorem counterVals_nq_inc : ∀ (f : Nat) (a b : Int), a ≤ b →
    counterVals .nq .inc f a b = counterVals .lt .inc f a b
  | 0, _, _, _ => rfl
  | f+1, a, b, hab => by
    unfold counterVals
    by_cases he : a = b
    · subst he; simp [loopAllows]
    · have h1 : loopAllows .nq a b = some true := by simp [loopAllows, he]
      have h2 : loopAllows .lt a b = some true := by simp [loopAllows]; omega
      simp only [h1, h2, stepVal, show (Op.inc == Op.inc) = true from rfl, if_true]
      rw [counterVals_nq_inc f (a + 1) b (by omega)]

/-- `i != b` counting down from `a ≥ b` is `i > b`. -/
theorem counterVals_nq_dec : ∀ (f : Nat) (a b : Int), b ≤ a →
    counterVals .nq .dec f a b = counterVals .gt .dec f a b
  | 0, _, _, _ => rfl
  | f+1, a, b, hab => by
    unfold counterVals
    by_cases he : a = b
    · subst he; simp [loopAllows]
    · have h1 : loopAllows .nq a b = some true := by simp [loopAllows, he]
      have h2 : loopAllows .gt a b = some true := by simp [loopAllows]; omega
      simp only [h1, h2, stepVal, show (Op.dec == Op.inc) = false from rfl, Bool.false_eq_true, if_false]
      rw [counterVals_nq_dec f (a - 1) b (by omega)]

/-- Number of iterations for every supported operator (the bound reached by stepping towards it). -/
theorem trips (f : Nat) (a b : Int) :
    ((b - a).toNat < f → (counterVals .lt .inc f a b).length = (b - a).toNat) ∧
    ((b + 1 - a).toNat < f → (counterVals .ltq .inc f a b).length = (b + 1 - a).toNat) ∧
    ((a - b).toNat < f → (counterVals .gt .dec f a b).length = (a - b).toNat) ∧
    ((a - (b - 1)).toNat < f → (counterVals .gtq .dec f a b).length = (a - (b - 1)).toNat) ∧
    (a ≤ b → (b - a).toNat < f → (counterVals .nq .inc f a b).length = (b - a).toNat) ∧
    (b ≤ a → (a - b).toNat < f → (counterVals .nq .dec f a b).length = (a - b).toNat) := by
  refine ⟨?_, ?_, ?_, ?_, ?_, ?_⟩
  · intro h; exact trips_lt_inc f a b h
  · intro h; rw [counterVals_ltq_inc f a b h]; simp
  · intro h; rw [counterVals_gt_dec f a b h]; simp
  · intro h; rw [counterVals_gtq_dec f a b h]; simp
  · intro hab h; rw [counterVals_nq_inc f a b hab]; exact trips_lt_inc f a b h
  · intro hab h; rw [counterVals_nq_dec f a b hab, counterVals_gt_dec f a b h]; simp

/-! Non-vacuity (the closed forms agree with runs of the definition). -/
example : counterVals .ltq .inc 10 2 5 = [2, 3, 4, 5] := by decide
example : counterVals .gt .dec 10 5 2 = [5, 4, 3] := by decide
example : counterVals .gtq .dec 10 5 2 = [5, 4, 3, 2] := by decide
example : counterVals .nq .dec 10 3 0 = [3, 2, 1] := by decide
example : (List.range (5 + 1 - 2 : Int).toNat).map (fun (i : Nat) => (2 : Int) + (i : Int)) = [2, 3, 4, 5] := by decide

/-! ### Bounds given as text (repair: `text2int`) -/

/-- A bound variable holding text that is a decimal integer within `int64` is that integer. -/
theorem textBound_good (s : Bytes) (c1 : Ctx) (n : Int) (hne : s.isEmpty = false) (hp : parseInt64Lit s = some n) :
    textBound s c1 = (.ok n, c1) := by
  unfold textBound; simp [hne, hp]

/-- **A bad loop bound is an error, never a number.** Text that is not an integer — or is an integer beyond
    `int64`, for which `ParseInt` returns the nearest limit next to its error — makes `cloopRange` fail with the
    wrong-bound error; with `loopBounds_none_no_iteration` below the loop then renders nothing. (Before the
    repair `"99999999999999999999"` became the bound 9223372036854775807 and the loop ran "forever".) -/
theorem textBound_bad (s : Bytes) (c1 : Ctx) (hne : s.isEmpty = false) (hp : parseInt64Lit s = none) :
    textBound s c1 = (.error .wrongLoopLim, { c1 with err := some .wrongLoopLim }) := by
  unfold textBound; simp [hne, hp]

/-- When a bound cannot be determined the loop body never runs (nor does the else branch): the state is the one
    `loopBounds` left, with `ctx.Err` set by `cloopRange`. -/
theorem loopBounds_none_no_iteration (run : St → Res) (runElse : Option (St → Res)) (fuel : Nat) (ls : CLoopSpec) (s : St)
    (h : (loopBounds s.c ls).2 = none) :
    cloopWith run runElse fuel ls s = ok { s with c := (loopBounds s.c ls).1 } := by
  unfold cloopWith cloopAfter
  rw [h]

/-- Out of range is not a number: twenty nines. -/
example : parseInt64Lit (lit "99999999999999999999") = none := by decide
example : parseInt64Lit (lit "3.0") = none := by decide
example : parseInt64Lit (lit "-9223372036854775808") = some (-9223372036854775808) := by decide

/-- When `cloopRange` fails it has put an error into `ctx.Err`. -/
theorem cloopRange_error_sets_err (c : Ctx) (st : Bool) (b : Bytes) (e : Err) (h : (cloopRange c st b).1 = .error e) :
    ∃ e', (cloopRange c st b).2.err = some e' := by
  unfold cloopRange at h ⊢
  by_cases hs : st = true
  · simp only [hs, if_true] at h ⊢
    cases hp : parseIntLit b with
    | some n => simp [hp] at h
    | none => exact ⟨_, rfl⟩
  · simp only [hs, Bool.false_eq_true, if_false] at h ⊢
    cases he : (c.get b).2.err with
    | some e' => simp only [he]; exact ⟨e', rfl⟩
    | none =>
      simp only [he] at h ⊢
      cases hv : (c.get b).1 with
      | int n => simp [hv] at h
      | uint n => simp [hv] at h
      | bytes t =>
        simp only [hv] at h ⊢
        unfold textBound at h ⊢
        split at h
        · simp at h
        · split
          · rename_i hh; simp [hh] at *
          · cases hp : parseInt64Lit t with
            | some n => simp [hp] at h
            | none => exact ⟨_, rfl⟩
      | str t =>
        simp only [hv] at h ⊢
        unfold textBound at h ⊢
        split at h
        · simp at h
        · split
          · rename_i hh; simp [hh] at *
          · cases hp : parseInt64Lit t with
            | some n => simp [hp] at h
            | none => exact ⟨_, rfl⟩
      | _ => exact ⟨_, rfl⟩

/-- **A bad loop bound surfaces as a returned error** (C13, C03): whenever one of the two bounds of a counter loop
    cannot be determined — a literal that is not an integer, an unset or unreadable variable, text that is not an
    `int64` — the loop node writes nothing, runs neither body nor else branch, and returns with `ctx.Err` set. -/
theorem bad_bound_sets_err (c : Ctx) (ls : CLoopSpec) (h : (loopBounds c ls).2 = none) :
    ∃ e, (loopBounds c ls).1.err = some e := by
  unfold loopBounds at h ⊢
  cases h1 : (cloopRange c ls.cntStatic ls.cntInit).1 with
  | error e =>
    simp only [h1]
    exact cloopRange_error_sets_err c _ _ e h1
  | ok cnt =>
    simp only [h1] at h ⊢
    cases h2 : (cloopRange (cloopRange c ls.cntStatic ls.cntInit).2 ls.limStatic ls.lim).1 with
    | error e =>
      simp only [h2]
      exact cloopRange_error_sets_err _ _ _ e h2
    | ok lim => simp [h2] at h

/-- … and the loop node hands that error to the caller (the render returns it), having written nothing. -/
theorem bad_bound_is_returned_error (run : St → Res) (runElse : Option (St → Res)) (fuel : Nat) (ls : CLoopSpec) (s : St)
    (e : Err) (hb : (loopBounds { s.c with brkD := 0 } ls).2 = none)
    (he : (loopBounds { s.c with brkD := 0 } ls).1.err = some e) (hs : isSentinel e = false) :
    (loopNode (cloopWith run runElse fuel ls) s).err = some e ∧
    (loopNode (cloopWith run runElse fuel ls) s).st.w = s.w := by
  unfold loopNode cloopWith cloopAfter
  simp only [hb, ok]
  simp only [he, loopErrRes, hs, fail]
  exact ⟨rfl, rfl⟩

/-! Non-vacuity: `{% for i := 0; i < n; i++ %}` with `n` = the text `99999999999999999999` (bytes variable). -/
def cBad : Ctx := ({} : Ctx).setBytes (lit "n") (lit "99999999999999999999")
def lsN : CLoopSpec := ⟨lit "i", lit "0", true, .inc, .lt, lit "n", false, []⟩
example : (loopBounds cBad lsN).2 = none := by decide
example : (loopBounds cBad lsN).1.err = some .wrongLoopLim := by decide
example : (loopBounds (({} : Ctx).setBytes (lit "n") (lit "3")) lsN).2 = some (0, 3) := by decide

/-! ### What a body tag merely LEFT in `ctx.Err` is not the loop's error (repair) -/

/-- **A counter loop that ends normally leaves no error behind** — whatever its body did to `ctx.Err` on the way (a
    modifier that fails in a print tag leaves its error there and is not fatal). Before the repair the loop node
    returned such a leftover after the last iteration, and a loop AROUND this one ended after one iteration:
    "nested or successive loops do not disturb one another". Any body `run`, any bounds, any fuel. -/
theorem cloop_normal_end_clean (run : St → Res) (ls : CLoopSpec) (hop : ∀ v lim, loopAllows ls.condOp v lim ≠ none) :
    ∀ (f : Nat) (v lim : Int) (n : Nat) (s : St), s.c.err = none →
      (cloopLoop run ls f v lim n s).abort = false → (cloopLoop run ls f v lim n s).st.c.err = none := by
  intro f
  induction f with
  | zero => intro v lim n s _ h; simp [cloopLoop] at h
  | succ f ih =>
    intro v lim n s he h
    rw [cloopLoop] at h ⊢
    cases hla : loopAllows ls.condOp v lim with
    | none => exact absurd hla (hop v lim)
    | some b =>
      cases b with
      | false => simp only [hla]; simpa [Ctx.setStatic, Ctx.set] using he
      | true =>
        simp only [hla] at h ⊢
        generalize sepWrite n ls.sep { s with c := s.c.setStatic ls.cnt (Val.int v) } = rs at h ⊢
        cases hre : rs.err with
        | some e => simp [hre] at h
        | none =>
          simp only [hre] at h ⊢
          generalize clrErrIf (decide (n > 0) && !ls.sep.isEmpty) rs.st = rs1 at h ⊢
          generalize run { rs1 with c := { rs1.c with chQB := true } } = rb0 at h ⊢
          by_cases hc : (ls.cntOp == Op.inc || ls.cntOp == Op.dec) = true
          · simp only [hc, if_true] at h ⊢
            cases hio : iterAfterBody { rb0 with st := { rb0.st with c := { rb0.st.c with chQB := rs1.c.chQB } } } with
            | abort st => simp [hio] at h
            | stop st => simp only [hio]
            | next st =>
              simp only [hio] at h ⊢
              exact ih _ _ _ _ rfl h
          · simp only [hc, Bool.false_eq_true, if_false] at h ⊢
            cases hio : iterAfterBody { rb0 with st := { rb0.st with c := { rb0.st.c with chQB := rs1.c.chQB } } } with
            | abort st => simp [hio] at h
            | stop st => simp [hio] at h
            | next st => simp [hio] at h

/-- **A range loop over a variable that is not set, without an else branch, renders nothing and leaves no error**:
    what an earlier tag — or an earlier render on the same context — had left in `ctx.Err` is not this loop's. -/
theorem rloop_unset_no_else_clean (run : St → Res) (ls : RLoopSpec) (s : St) (name : Bytes) (sub : List Bytes)
    (hb : indexOf 91 ls.src = none) (hsp : splitDots ls.src = name :: sub) (hv : getVar s.c.vars name = none) :
    rloopQB run none ls s = ok { s with c := { s.c with err := none } } := by
  rw [C14.rloopQB_plain run none ls s hb]
  unfold rloopWith
  simp only [hsp]
  have : getVar ({ s with c := { s.c with err := none } } : St).c.vars name = none := hv
  simp only [this]

end DyntplV.C03N
