import DyntplV.Refine.Term
import DyntplV.Refine.TermIncl
import DyntplV.Refine.Fuel
import DyntplV.Props.C14

/-!
# C13 (never hangs): renderings that cannot run long, however much data there is

Property-level statements of `Refine/Term.lean`. The interpreter model takes a fuel argument only to be a total
function; for the fragment without counter loops and includes **the fuel that suffices is a function of the tree
alone** (`treeNeed`, the nesting measure): any two fuels of at least that much give the same result — whatever the
data (lists of any length), the writer (any fault position) and the context. A rendering in that fragment therefore
has a value that no fuel constant can change: it terminates.

Includes are put back by `Refine/TermIncl.lean`: whatever the include graph — a template may include itself — the include
limit cuts every chain, and a fuel computed from the tree, the registry and the limit suffices
(`render_with_includes_never_out_of_fuel`).

Counter loops are inside as far as their running time is in the TEMPLATE: a loop with literal bounds that steps towards
its limit (`cloopLit`: `<` / `<=` / `!=` from below with `++`, `>` / `>=` / `!=` from above with `--`, `==`) needs its trip
count plus one (`cloopNeed`, from `dist`), nested to any depth, with any body. Outside, on purpose: a counter loop whose
bounds are variables runs as long as the DATA says (`C03N.trips`), and `i != n` stepping away from `n` runs 2⁶⁴ times
before the counter wraps — which the property does not forbid and the watchdog sees.
-/

namespace DyntplV.C13

open DyntplV.Term

/-- One node: any two sufficient fuels agree. -/
theorem node_terminates (reg : Registry) (n : Node) (s : St) (f g : Nat) (hp : plainNode n = true)
    (hf : needNode n ≤ f) (hg : needNode n ≤ g) : writeNode reg f n s = writeNode reg g n s :=
  (interp_stable reg f).2.1 g n s hp hf hg

/-- A node list. -/
theorem seq_terminates (reg : Registry) (nodes : List Node) (s : St) (f g : Nat) (hp : plainSeq nodes = true)
    (hf : needSeq nodes ≤ f) (hg : needSeq nodes ≤ g) : writeSeq reg f nodes s = writeSeq reg g nodes s :=
  (interp_stable reg f).1 g nodes s hp hf hg

/-- A template body. -/
theorem tree_terminates (reg : Registry) (nodes : List Node) (s : St) (f g : Nat) (hp : plainSeq nodes = true)
    (hf : treeNeed nodes ≤ f) (hg : treeNeed nodes ≤ g) : writeTree reg f nodes s = writeTree reg g nodes s := by
  unfold treeNeed at hf hg
  cases f with
  | zero => omega
  | succ f =>
    cases g with
    | zero => omega
    | succ g =>
      rw [writeTree, writeTree]
      rw [seq_terminates reg nodes s f g hp (by omega) (by omega)]

/-- **The rendering `Write(w, key, ctx)` of a registered template without counter loops and includes terminates:**
    for every context, every data, every writer, all fuels from `treeNeed` on return one and the same result. -/
theorem render_terminates (reg : Registry) (key : Bytes) (nodes : List Node) (s : St) (f g : Nat)
    (hl : reg.lookup key = some nodes) (hp : plainSeq nodes = true)
    (hf : treeNeed nodes ≤ f) (hg : treeNeed nodes ≤ g) : writeKey reg f key s = writeKey reg g key s := by
  unfold writeKey
  simp only [hl]
  unfold write writeBody
  rw [tree_terminates reg nodes s.topStart f g hp hf hg]

/-- A template body of the fragment never ends with `outOfFuel` once the fuel reaches `treeNeed`, and it does not leave
    that error in `ctx.Err` either — so the next rendering on the same context starts from a good state again. -/
theorem tree_never_out_of_fuel (reg : Registry) (nodes : List Node) (s : St) (f : Nat) (hp : plainSeq nodes = true)
    (hf : treeNeed nodes ≤ f) (hs : s.c.err ≠ some .outOfFuel) :
    (writeTree reg f nodes s).err ≠ some .outOfFuel ∧ (writeTree reg f nodes s).st.c.err ≠ some .outOfFuel := by
  unfold treeNeed at hf
  cases f with
  | zero => omega
  | succ f =>
    rw [writeTree]
    have h := (interp_clean reg f).1 nodes s hp (by omega) hs
    simp only
    split
    · exact ⟨by simp, by simp⟩
    · exact h

/-- **`Write(w, key, ctx)` of a registered template without counter loops and includes never runs out of fuel:** for
    every data, every writer (any fault position), every context that does not already hold the model's own error,
    every fuel from `treeNeed` on. Nothing in that fragment can keep the interpreter running. -/
theorem render_never_out_of_fuel (reg : Registry) (key : Bytes) (nodes : List Node) (s : St) (f : Nat)
    (hl : reg.lookup key = some nodes) (hp : plainSeq nodes = true) (hf : treeNeed nodes ≤ f)
    (hs : s.c.err ≠ some .outOfFuel) :
    (writeKey reg f key s).err ≠ some .outOfFuel ∧ (writeKey reg f key s).st.c.err ≠ some .outOfFuel := by
  unfold writeKey
  simp only [hl]
  unfold write writeBody
  have h := tree_never_out_of_fuel reg nodes s.topStart f hp hf hs
  unfold Res.andThen
  split
  · exact h
  · exact ⟨by simp [ok], by simpa [ok, Ctx.runDeferred] using h.2⟩

/-- An unknown key is an error of its own, not a question of fuel. -/
theorem render_unknown_key (reg : Registry) (key : Bytes) (s : St) (f : Nat) (hl : reg.lookup key = none) :
    (writeKey reg f key s).err = some .tplNotFound := by
  unfold writeKey; simp [hl, fail]

/-- What the driver of the differential run does with this: a rendering in the fragment is run with `fuelFor` = the
    bound of its tree, and that is the result every larger fuel — the session constant included — would give. -/
theorem driver_fuel_sound (reg : Registry) (key : Bytes) (nodes : List Node) (s : St) (dflt : Nat)
    (hl : reg.lookup key = some nodes) (hp : plainSeq nodes = true) (hd : treeNeed nodes ≤ dflt) :
    writeKey reg (TermIncl.fuelFor reg key dflt) key s = writeKey reg dflt key s := by
  have hff : TermIncl.fuelFor reg key dflt = treeNeed nodes := by unfold TermIncl.fuelFor; simp only [hl, hp, if_true]
  rw [hff]
  exact render_terminates reg key nodes s _ _ hl hp (Nat.le_refl _) hd

/-- The measure is linear in the size of the tree: it never exceeds twice the number of nodes plus list ends of the
    tree, doubled once per switch — here the simple fact used by the harness: a list needs more than each member. -/
theorem need_member (l : List Node) (n : Node) (h : n ∈ l) : needNode n < needSeq l := need_mem l n h

/-! ### With includes -/

open DyntplV.TermIncl

/-- **`Write(w, key, ctx)` never runs out of fuel when every counter loop of the registry's templates has literal bounds
    and steps towards its limit (`regLF`; templates without counter loops are the special case)** — whatever
    the include graph (self-includes and cycles are cut by the include limit), the data, the writer and the depth the
    context starts at. -/
theorem render_with_includes_never_out_of_fuel (reg : Registry) (key : Bytes) (nodes : List Node) (s : St) (f : Nat)
    (hreg : regLF reg = true) (hl : reg.lookup key = some nodes) (hf : treeNeedIncl (regNeed reg) nodes ≤ f)
    (hs : s.c.err ≠ some .outOfFuel) :
    (writeKey reg f key s).err ≠ some .outOfFuel ∧ (writeKey reg f key s).st.c.err ≠ some .outOfFuel ∧
      (writeKey reg f key s).st.c.incD = s.c.incD := by
  unfold writeKey
  simp only [hl]
  unfold write writeBody
  have hp := (lookup_bound reg key nodes hl hreg).1
  have h := (interp_incl reg (regNeed reg) (regOK_of_lf reg hreg) f).1 maxIncDepth s.c.incD nodes s.topStart hp
    (by omega) (by unfold treeNeedIncl at hf; omega) ⟨hs, rfl⟩
  unfold Res.andThen
  split
  · exact h
  · exact ⟨by simp [ok], by simpa [ok, Ctx.runDeferred, Clean.OK] using h.2.1, by simpa [ok, Ctx.runDeferred] using h.2.2⟩

/-- The include depth is restored by the rendering (here for the fragment; it is what bounds the chains). -/
theorem render_restores_include_depth (reg : Registry) (key : Bytes) (nodes : List Node) (s : St) (f : Nat)
    (hreg : regLF reg = true) (hl : reg.lookup key = some nodes) (hf : treeNeedIncl (regNeed reg) nodes ≤ f)
    (hs : s.c.err ≠ some .outOfFuel) : (writeKey reg f key s).st.c.incD = s.c.incD :=
  (render_with_includes_never_out_of_fuel reg key nodes s f hreg hl hf hs).2.2

/-- The driver with includes: for a registry without counter loops the rendering is run with the bound of
    `render_with_includes_never_out_of_fuel`; it does not run out, so (`Fuel.interp_fuel`) every larger fuel returns
    the same result — and so does the session constant whenever the run with it does not run out either. -/
theorem driver_fuel_sound_incl (reg : Registry) (key : Bytes) (nodes : List Node) (s : St) (dflt g : Nat)
    (hreg : regLF reg = true) (hl : reg.lookup key = some nodes) (hs : s.c.err ≠ some .outOfFuel)
    (hg : TermIncl.fuelFor reg key dflt ≤ g) :
    writeKey reg g key s = writeKey reg (TermIncl.fuelFor reg key dflt) key s := by
  apply Fuel.writeKey_fuel_le reg key s _ g hg
  unfold TermIncl.fuelFor
  simp only [hl, hreg, if_true]
  split
  · rename_i hp
    exact (render_never_out_of_fuel reg key nodes s _ hl hp (Nat.le_refl _) hs).1
  · exact (render_with_includes_never_out_of_fuel reg key nodes s _ hreg hl (Nat.le_refl _) hs).1

/-! Non-vacuity: a template that includes ITSELF (after a text) and one that includes it. The bound of that registry is
    computed; the self-include ends with the include-depth error, not with `outOfFuel`. -/
def regSelf : Registry := [(lit "self", [.raw (lit "x"), .incl [lit "self"]]), (lit "host", [.raw (lit "["), .incl [lit "self"], .raw (lit "]")])]

example : regLF regSelf = true := by decide
example : regNeed regSelf = 5 := by decide
example : treeNeedIncl (regNeed regSelf) [.raw (lit "["), .incl [lit "self"], .raw (lit "]")] = 645 := by decide
example : (writeKey regSelf 645 (lit "host") { c := {}, w := {} }).err ≠ some .outOfFuel :=
  (render_with_includes_never_out_of_fuel regSelf (lit "host") _ { c := {}, w := {} } 645 (by decide) rfl (by decide) (by decide)).1

/-- A counter loop, for ANY body and else-branch that do not run out themselves: literal bounds that let it step towards
    its limit and a budget above its trip count — the loop node returns without `outOfFuel`. -/
theorem counter_loop_terminates {k : Nat} (run : St → Res) (re : Option (St → Res)) (f : Nat) (ls : CLoopSpec) (s : St)
    (hrun : ∀ s, SK k s → RK k (run s)) (hre : ElseK k re) (hs : SK k s) (hl : cloopLit ls = true) (hf : cloopNeed ls ≤ f) :
    RK k (loopNode (cloopWith run re f ls) s) :=
  cloopNode_RK run re f ls s hrun hre hs (cloopLit_bound ls hl f hf)

/-- The same when the bounds come from the DATA: whatever the context holds, if the bounds it yields let the loop step
    towards its limit and the budget exceeds that distance, `Ctx.cloop` returns without `outOfFuel` (a bound that is no
    integer is an error of its own — `C03N.bad_bound_is_returned_error` — and no iteration). The budget is then a number in
    the data, which is why such loops are not part of `regLF`. -/
theorem counter_loop_budget {k : Nat} (run : St → Res) (re : Option (St → Res)) (f : Nat) (ls : CLoopSpec) (s : St)
    (hrun : ∀ s, SK k s → RK k (run s)) (hre : ElseK k re) (hs : SK k s)
    (hb : ∀ cnt lim, (loopBounds s.c ls).2 = some (cnt, lim) → ∃ m, dist ls.condOp ls.cntOp cnt lim = some m ∧ m < f) :
    RK k (cloopWith run re f ls s) :=
  cloopWith_RK run re f ls s hrun hre hs hb

/-- The distance of the commonest loop, `for i := a; i < b; i++`: `b − a` iterations (none when `a ≥ b`). -/
theorem dist_lt_inc (a b : Int) : dist .lt .inc a b = some (b - a).toNat := rfl

/-! Non-vacuity: nested counter loops with literal bounds, one counting up, one counting down, and an include of them. -/
def regLoops : Registry :=
  [(lit "rows", [.cloop ⟨lit "i", lit "0", true, .inc, .lt, lit "3", true, []⟩
      [.raw (lit "r"), .cloop ⟨lit "j", lit "5", true, .dec, .gt, lit "2", true, []⟩ [.raw (lit "c")]]]),
   (lit "page", [.raw (lit "<"), .incl [lit "rows"], .raw (lit ">")])]

example : regLF regLoops = true := by decide
example : regNeed regLoops = 16 := by decide
example : (writeKey regLoops 40 (lit "page") { c := {}, w := {} }).st.w.out = lit "<rcccrcccrccc>" := by decide
example : (writeKey regLoops 5000 (lit "page") { c := {}, w := {} }).err ≠ some .outOfFuel :=
  (render_with_includes_never_out_of_fuel regLoops (lit "page") _ { c := {}, w := {} } 5000 (by decide) rfl (by decide) (by decide)).1
/-- A loop that steps away from its limit is outside. -/
example : cloopLit ⟨lit "i", lit "0", true, .dec, .lt, lit "3", true, []⟩ = false := by decide
/-- … and so is one whose bound is a variable. -/
example : cloopLit ⟨lit "i", lit "0", true, .inc, .lt, lit "n", false, []⟩ = false := by decide

/-! Non-vacuity: the three-level nest of C14 (range loops, `break 2`) is in the fragment, its bound is 11, and the
    run with the differential harness's fuel (1200) is, by the theorem, the run with fuel 11. -/
example : plainSeq C14.nest3 = true := by decide
example : treeNeed C14.nest3 = 11 := by decide

def reg1 : Registry := [(lit "t", C14.nest3)]
def st1 : St := { c := ({} : Ctx).set (lit "l") (.strs [lit "1", lit "2"]) .strings, w := {} }

example : (writeKey reg1 1200 (lit "t") st1).st.w.out = lit "[xm][xm]" := by
  rw [render_terminates reg1 (lit "t") C14.nest3 st1 1200 11 rfl (by decide) (by decide) (by decide)]
  decide

/-- The bound is exact here: with one unit less the same rendering runs out. -/
example : (writeKey reg1 10 (lit "t") st1).err = some .outOfFuel := by decide
example : (writeKey reg1 11 (lit "t") st1).err = none := by decide
/-- … and the theorem gives the same for the fuel of the differential runs without running the model. -/
example : (writeKey reg1 1200 (lit "t") st1).err ≠ some .outOfFuel :=
  (render_never_out_of_fuel reg1 (lit "t") C14.nest3 st1 1200 rfl (by decide) (by decide) (by decide)).1

/-- A counter loop is outside the fragment (its running time is in the data). -/
example : plainNode (.cloop ⟨lit "i", lit "0", true, .inc, .lt, lit "n", false, []⟩ []) = false := by decide

end DyntplV.C13
