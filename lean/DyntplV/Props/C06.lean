import DyntplV.Conc.Model
import DyntplV.DbLemmas
import DyntplV.Props.C04
import DyntplV.Generated.DbLocks
import DyntplV.Generated.TreeWrites
/-!
# C06 — concurrent renders and re-registrations are safe and atomic (lock-level model)

Model: `DyntplV/Conc/Model.lean` (small-step interleaving of reader and writer threads over the registry
`Reg.Db` and its RW mutex).  Everything below holds for EVERY schedule (induction over `Reachable`), any number
of threads, any initial registry.

What is proved, for programs whose lock instructions come from lock facts accepted by `locksOk`:

* `quiescent_only`  — while some reader is between `RLock` and `RUnlock`, no writer is between `Lock` and `Unlock`,
  the mutex is not write-locked and the registry IS the committed one (`applyOps db0 commits`: the initial registry
  after the registrations whose `Unlock` has happened, in that order).  `writer_exclusive`: at most one writer.
* `observed_is_committed` — at every index read / slot read of a lookup the registry equals `applyOps db0 commits`.
* `atomic_get` — the slot-read step of a lookup appends exactly `q.seq (applyOps db0 commits)`: what the SEQUENTIAL
  getter of `DyntplV/Db.lean` (`getKey` / `getID` / `getKey1` / `getBKeys`) answers on the committed registry of
  that moment; the step is one of the thread's own steps, i.e. lies between call and return (linearization point).
  `found_sequential`: the same for every finished lookup of every thread in every reachable state.
* `read_your_registration` — a by-key lookup whose slot read (a fortiori whose `RLock`) happens after the `Unlock`
  of a registration `w` of that key returns the tree of `w` or of a registration committed after `w`
  (via `C04.lookup_latest_key`).
* `render_snapshot` — the output written by the render step is `render (trees found) ctx`: a function of the trees
  the thread's own lookups returned and of its own context — not of the registry, the mutex or any other thread.
  (Trees are values in the model; for the Go code that is the generated fact `treeWrites = []`.)
* `render_linearizable` (capstone) — a finished render thread's output is `render` of, per lookup of its spec in
  order, the sequential answer on the registry after SOME prefix of the commit order — prefixes that were the
  complete commit list at the moment of the respective lookup.
* `commits_sub_specs` — every committed registration is the registration of a writer thread of the system
  (`read_your_registration_keyOnly`: the consistency hypothesis discharged for key-only systems).
* `generated_locks_ok`, `generated_no_tree_writes`, `generated_reach`, `atomic_generated`, `linearizable_generated`
  — the hypotheses instantiated by `decide` with the facts regenerated from /repo by /verif/extract.

Full vs partial.  All statements above are proved in full FOR THE MODEL, for every schedule and any number of threads.
Relative to the property text the result is partial in exactly these respects: (1) the tie between the model and
the Go code is the generated lock facts + `treeWrites = []` + the stress / race harness, not a proof; (2) an include
is a separate, individually atomic lookup (so a render may combine a template version with a NEWER include version —
`render_linearizable` says which combinations are possible: commit prefixes that only grow); (3) `Parse`
(`getTreeByHash`) and the `verif` hooks are covered by `locksOk` but have no threads in the model; (4) the Go memory
model, `sync.Pool` and the contents of a render are not modelled here (the latter is the interpreter model of C01-C05).

Not modelled (see DESIGN.md §C06): the Go memory model, `sync.Pool`, real data races — exercised by the harness
(`/verif/harness/c06.go`, incl. a `-race` run), which supports the tie and proves nothing.
-/
namespace DyntplV.C06
open DyntplV DyntplV.Reg DyntplV.Conc

/-! ## Invariant machinery -/

/-- The registry after the rest of a writer's program has run ALONE from (local `idx`, registry), up to its `unlock`. -/
def runW (id : Int) (key : Bytes) (tree : Tree) : List Instr → Option Nat × Db → Db
  | [], st => st.2
  | .unlock :: _, st => st.2
  | .wr o :: rest, st => runW id key tree rest (o.exec id key tree st)
  | _ :: rest, st => runW id key tree rest st

/-- The six updates of the model's writer, run without interference, are exactly the sequential `Db.set`. -/
theorem set_micro (id : Int) (key : Bytes) (tree : Tree) (idx : Option Nat) (db : Db) :
    runW id key tree (writerBody ++ [.unlock]) (idx, db) = db.set id key tree := rfl

/-- Lock bracketing of a program, from the flags (holds read lock, holds write lock, between index and slot read):
    registry reads only under the read lock, updates only under the write lock, the slot read directly after the
    index read, render and program end with no lock held. -/
def safe : Bool → Bool → Bool → List Instr → Bool
  | r, w, mid, [] => !r && !w && !mid
  | r, w, mid, .rlock :: rest => !r && !w && !mid && safe true false false rest
  | r, w, mid, .runlock :: rest => r && !w && !mid && safe false false false rest
  | r, w, mid, .lock :: rest => !r && !w && !mid && safe false true false rest
  | r, w, mid, .unlock :: rest => !r && w && !mid && safe false false false rest
  | r, w, mid, .rdIdx _ :: rest => r && !w && !mid && safe true false true rest
  | r, w, mid, .rdSlot :: rest => r && !w && mid && safe true false false rest
  | r, w, mid, .wr _ :: rest => !r && w && !mid && safe false true false rest
  | r, w, mid, .render :: rest => !r && !w && !mid && safe false false false rest

/-- Whatever follows a `lock` in the program amounts, run alone, to one `Db.set`. -/
def lockToSet (id : Int) (key : Bytes) (tree : Tree) : List Instr → Prop
  | [] => True
  | .lock :: rest => (∀ idx db, runW id key tree rest (idx, db) = db.set id key tree) ∧ lockToSet id key tree rest
  | _ :: rest => lockToSet id key tree rest

theorem lockToSet_tail {id key tree} {ins : Instr} {rest : List Instr} (h : lockToSet id key tree (ins :: rest)) :
    lockToSet id key tree rest := by
  cases ins <;> first | exact h | exact h.2

theorem safe_mid {r w : Bool} {p : List Instr} (h : safe r w true p = true) : r = true := by
  cases p with
  | nil => simp [safe] at h
  | cons i rest => cases i <;> simp [safe] at h <;> simp [h]

theorem index_slot (db : Db) (q : Query) : readSlot db (q.index db) = q.seq db := by
  cases q with
  | key k => simp only [Query.index, Query.seq, Db.getKey, Db.get]; cases db.getIdxLF (-1) k <;> rfl
  | id i => simp only [Query.index, Query.seq, Db.getID, Db.get]; cases db.getIdxLF i noKey <;> rfl
  | key1 k k1 =>
    simp only [Query.index, Query.seq, Db.getKey1]
    cases alookup k db.idxKey <;> simp only [] <;> cases alookup k1 db.idxKey <;> rfl
  | bkeys ks =>
    simp only [Query.index, Query.seq]
    induction ks with
    | nil => rfl
    | cons k rest ih =>
      simp only [List.findSome?_cons, Db.getBKeys]
      cases hk : alookup k db.idxKey with
      | none => simpa using ih
      | some i =>
        simp only [Option.bind_some]
        by_cases hi : i < db.tpl.length
        · simp [hi, readSlot]
        · have : db.tpl[i]? = none := by simp; omega
          simp [hi]; exact ih

/-- Per-thread part of the invariant (shared components passed explicitly). -/
structure ThreadOK (writer : Option Nat) (db committed base : Db) (commits : List Op) (i : Nat) (t : Thread) : Prop where
  safe : safe t.holdsR t.holdsW t.mid t.prog = true
  l2s : lockToSet t.id t.key t.tree t.prog
  own : t.holdsW = true ↔ writer = some i
  wr : t.holdsW = true → runW t.id t.key t.tree t.prog (t.idx, db) = committed.set t.id t.key t.tree
  mid : t.mid = true → t.idx = t.cur.index db
  found : ∀ f ∈ t.found, f.seen ≤ commits.length ∧ f.res = f.q.seq (applyOps base (commits.take f.seen))

/-- The invariant of the interleaving model: reader count = number of threads holding the read lock; the write lock
    excludes readers and has exactly its owner; with the write lock free the registry is the committed one; the
    committed registry is the initial one after the commits; a writer's remaining updates complete one `set` on the
    committed registry; a lookup in progress holds the index it read from the current registry; finished lookups
    answered sequentially on commit prefixes. -/
structure Inv (s : Sys) : Prop where
  thr : ∀ i t, s.threads[i]? = some t → ThreadOK s.rw.writer s.db s.committed s.base s.commits i t
  cnt : s.rw.readers = s.threads.countP (·.holdsR)
  excl : s.rw.writer ≠ none → s.rw.readers = 0
  quiet : s.rw.writer = none → s.db = s.committed
  comm : s.committed = applyOps s.base s.commits

theorem countP_set_get {α : Type} {p : α → Bool} : ∀ {l : List α} {i : Nat} {a b : α}, l[i]? = some b →
    List.countP p (l.set i a) + (if p b then 1 else 0) = List.countP p l + (if p a then 1 else 0)
  | [], i, a, b, h => by simp at h
  | x :: xs, 0, a, b, h => by
    simp at h; subst h
    simp only [List.set_cons_zero, List.countP_cons]; omega
  | x :: xs, i+1, a, b, h => by
    simp at h
    have := countP_set_get (p := p) (a := a) h
    simp only [List.set_cons_succ, List.countP_cons]; omega

theorem cnt_same {l : List Thread} {i : Nat} {t t' : Thread} (ht : l[i]? = some t) (h : t'.holdsR = t.holdsR) :
    List.countP (fun t : Thread => t.holdsR) (l.set i t') = List.countP (fun t : Thread => t.holdsR) l := by
  have := countP_set_get (p := fun t : Thread => t.holdsR) (a := t') ht
  simp only [h] at this
  omega

theorem get_set_cases {α : Type} {l : List α} {i j : Nat} {a b : α} (h : (l.set i a)[j]? = some b) :
    (j = i ∧ b = a) ∨ (j ≠ i ∧ l[j]? = some b) := by
  rw [List.getElem?_set] at h
  by_cases hij : i = j
  · subst hij
    simp at h
    exact Or.inl ⟨rfl, h.2.symm⟩
  · simp [hij] at h
    exact Or.inr ⟨fun e => hij e.symm, h⟩

theorem holdsR_pos {s : Sys} (hinv : Inv s) {j : Nat} {tj : Thread} (hj : s.threads[j]? = some tj)
    (hr : tj.holdsR = true) : 0 < s.rw.readers := by
  rw [hinv.cnt, List.countP_pos_iff]
  exact ⟨tj, List.mem_of_getElem? hj, hr⟩

theorem step_cases {render : RenderFn} {s s' : Sys} {i : Nat} (h : step render s i = some s') :
    ∃ t ins rest t1 s1, s.threads[i]? = some t ∧ t.prog = ins :: rest ∧ exec render i t s ins = some (t1, s1) ∧
      s' = { s1 with threads := s1.threads.set i { t1 with prog := rest } } := by
  unfold step at h
  split at h
  · cases h
  · rename_i t ht
    split at h
    · cases h
    · rename_i ins rest hp
      split at h
      · cases h
      · rename_i t1 s1 he
        exact ⟨t, ins, rest, t1, s1, ht, hp, he, by cases h; rfl⟩


/-- One step of any thread preserves the invariant. -/
theorem inv_step {render : RenderFn} {s s' : Sys} {i : Nat} (hinv : Inv s) (h : step render s i = some s') :
    Inv s' := by
  obtain ⟨t, ins, rest, t1, s1, ht, hp, he, rfl⟩ := step_cases h
  have hti := hinv.thr i t ht
  have hsafe := hti.safe
  rw [hp] at hsafe
  have hl2s := hti.l2s
  rw [hp] at hl2s
  cases ins with
  | rlock =>
    simp only [exec] at he
    split at he
    · cases he
    · rename_i hw
      simp only [Option.some.injEq, Prod.mk.injEq] at he
      obtain ⟨rfl, rfl⟩ := he
      simp [safe] at hsafe
      obtain ⟨⟨⟨hr, hw'⟩, hm⟩, hs⟩ := hsafe
      have hwn : s.rw.writer = none := by simpa using hw
      refine ⟨?_, ?_, ?_, ?_, hinv.comm⟩
      · intro j tj hj
        rcases get_set_cases hj with ⟨rfl, rfl⟩ | ⟨hne, hj'⟩
        · exact ⟨by simpa [hw', hm] using hs, lockToSet_tail hl2s, hti.own, by simp [hw'], by simp [hm], hti.found⟩
        · exact hinv.thr j tj hj'
      · have := countP_set_get (p := fun t : Thread => t.holdsR) (a := { t with holdsR := true, prog := rest }) ht
        simp only [hr] at this
        simp at this
        simp only [hinv.cnt]
        omega
      · intro hc; exact absurd hwn hc
      · intro _; exact hinv.quiet hwn
  | runlock =>
    simp only [exec] at he
    split at he
    · cases he
    · rename_i hrd
      simp only [Option.some.injEq, Prod.mk.injEq] at he
      obtain ⟨rfl, rfl⟩ := he
      simp [safe] at hsafe
      obtain ⟨⟨⟨hr, hw'⟩, hm⟩, hs⟩ := hsafe
      refine ⟨?_, ?_, ?_, hinv.quiet, hinv.comm⟩
      · intro j tj hj
        rcases get_set_cases hj with ⟨rfl, rfl⟩ | ⟨hne, hj'⟩
        · exact ⟨by simpa [hw', hm] using hs, lockToSet_tail hl2s, hti.own, by simp [hw'], by simp [hm], hti.found⟩
        · exact hinv.thr j tj hj'
      · have := countP_set_get (p := fun t : Thread => t.holdsR) (a := { t with holdsR := false, prog := rest }) ht
        simp only [hr] at this
        simp at this
        have hc := hinv.cnt
        simp only [] at hc ⊢
        omega
      · intro hc
        have := hinv.excl hc
        simp only []
        omega
  | lock =>
    simp only [exec] at he
    split at he
    · cases he
    · rename_i hg
      simp only [Option.some.injEq, Prod.mk.injEq] at he
      obtain ⟨rfl, rfl⟩ := he
      simp [safe] at hsafe
      obtain ⟨⟨⟨hr, hw'⟩, hm⟩, hs⟩ := hsafe
      have hwn : s.rw.writer = none := by
        cases hh : s.rw.writer with
        | none => rfl
        | some x => exact absurd (Or.inl (by simp [hh])) hg
      have hr0 : s.rw.readers = 0 := by
        by_cases h0 : s.rw.readers = 0
        · exact h0
        · exact absurd (Or.inr h0) hg
      refine ⟨?_, ?_, ?_, ?_, hinv.comm⟩
      · intro j tj hj
        rcases get_set_cases hj with ⟨rfl, rfl⟩ | ⟨hne, hj'⟩
        · refine ⟨by simpa [hr, hm] using hs, lockToSet_tail hl2s, by simp, ?_, by simp [hm], hti.found⟩
          intro _
          have := hl2s.1 t.idx s.db
          simp only []
          rw [this, hinv.quiet hwn]
        · have ok := hinv.thr j tj hj'
          have hjw : tj.holdsW = false := by
            cases hh : tj.holdsW with
            | false => rfl
            | true => have := ok.own.1 hh; rw [hwn] at this; cases this
          refine ⟨ok.safe, ok.l2s, ?_, by simp [hjw], ok.mid, ok.found⟩
          simp only [hjw, Option.some.injEq]
          constructor
          · intro hc; cases hc
          · intro hc; exact absurd hc.symm hne
      · simp only []
        exact hinv.cnt.trans (cnt_same ht (by rfl)).symm
      · intro _; exact hr0
      · intro hc; cases hc
  | unlock =>
    simp only [exec] at he
    split at he
    · cases he
    · rename_i hg
      simp only [Option.some.injEq, Prod.mk.injEq] at he
      obtain ⟨rfl, rfl⟩ := he
      simp [safe] at hsafe
      obtain ⟨⟨⟨hr, hw'⟩, hm⟩, hs⟩ := hsafe
      have hown : s.rw.writer = some i := hti.own.1 hw'
      have hfound : ∀ (tj : Thread), (∀ f ∈ tj.found, f.seen ≤ s.commits.length ∧
            f.res = f.q.seq (applyOps s.base (s.commits.take f.seen))) →
          ∀ f ∈ tj.found, f.seen ≤ (s.commits ++ [t.op]).length ∧
            f.res = f.q.seq (applyOps s.base ((s.commits ++ [t.op]).take f.seen)) := by
        intro tj hf f hfm
        obtain ⟨h1, h2⟩ := hf f hfm
        refine ⟨by simp; omega, ?_⟩
        rw [List.take_append_of_le_length h1]; exact h2
      refine ⟨?_, ?_, ?_, ?_, ?_⟩
      · intro j tj hj
        rcases get_set_cases hj with ⟨rfl, rfl⟩ | ⟨hne, hj'⟩
        · exact ⟨by simpa [hr, hm] using hs, lockToSet_tail hl2s, by simp, by simp, by simp [hm], hfound t hti.found⟩
        · have ok := hinv.thr j tj hj'
          have hjw : tj.holdsW = false := by
            cases hh : tj.holdsW with
            | false => rfl
            | true =>
              have := ok.own.1 hh; rw [hown] at this
              simp only [Option.some.injEq] at this
              exact absurd this.symm hne
          exact ⟨ok.safe, ok.l2s, by simp [hjw], by simp [hjw], ok.mid, hfound tj ok.found⟩
      · simp only []
        exact hinv.cnt.trans (cnt_same ht (by rfl)).symm
      · intro hc; exact absurd rfl hc
      · intro _; rfl
      · have h1 := hti.wr hw'
        rw [hp] at h1
        simp only [runW] at h1
        simp only [applyOps, List.foldl_append, List.foldl_cons, List.foldl_nil]
        have h2 := hinv.comm
        simp only [applyOps] at h2
        rw [← h2]
        exact h1
  | rdIdx q =>
    simp only [exec, Option.some.injEq, Prod.mk.injEq] at he
    obtain ⟨rfl, rfl⟩ := he
    simp [safe] at hsafe
    obtain ⟨⟨⟨hr, hw'⟩, hm⟩, hs⟩ := hsafe
    refine ⟨?_, ?_, hinv.excl, hinv.quiet, hinv.comm⟩
    · intro j tj hj
      rcases get_set_cases hj with ⟨rfl, rfl⟩ | ⟨hne, hj'⟩
      · exact ⟨by simpa [hr, hw'] using hs, lockToSet_tail hl2s, hti.own, by simp [hw'], by simp, hti.found⟩
      · exact hinv.thr j tj hj'
    · simp only []
      exact hinv.cnt.trans (cnt_same ht (by rfl)).symm
  | rdSlot =>
    simp only [exec, Option.some.injEq, Prod.mk.injEq] at he
    obtain ⟨rfl, rfl⟩ := he
    simp [safe] at hsafe
    obtain ⟨⟨⟨hr, hw'⟩, hm⟩, hs⟩ := hsafe
    have hwn : s.rw.writer = none := by
      cases hh : s.rw.writer with
      | none => rfl
      | some x =>
        have h0 := hinv.excl (by simp [hh])
        have := holdsR_pos hinv ht hr
        omega
    refine ⟨?_, ?_, hinv.excl, hinv.quiet, hinv.comm⟩
    · intro j tj hj
      rcases get_set_cases hj with ⟨rfl, rfl⟩ | ⟨hne, hj'⟩
      · refine ⟨by simpa [hr, hw'] using hs, lockToSet_tail hl2s, hti.own, by simp [hw'], by simp, ?_⟩
        intro f hf
        simp only [List.mem_append, List.mem_singleton] at hf
        rcases hf with hf | rfl
        · exact hti.found f hf
        · refine ⟨Nat.le_refl _, ?_⟩
          simp only [List.take_length]
          rw [hti.mid hm, index_slot, ← hinv.comm, hinv.quiet hwn]
      · exact hinv.thr j tj hj'
    · simp only []
      exact hinv.cnt.trans (cnt_same ht (by rfl)).symm
  | wr o =>
    simp only [exec, Option.some.injEq, Prod.mk.injEq] at he
    obtain ⟨rfl, rfl⟩ := he
    simp [safe] at hsafe
    obtain ⟨⟨⟨hr, hw'⟩, hm⟩, hs⟩ := hsafe
    have hown : s.rw.writer = some i := hti.own.1 hw'
    have hr0 : s.rw.readers = 0 := hinv.excl (by simp [hown])
    refine ⟨?_, ?_, hinv.excl, ?_, hinv.comm⟩
    · intro j tj hj
      rcases get_set_cases hj with ⟨rfl, rfl⟩ | ⟨hne, hj'⟩
      · refine ⟨by simpa [hr, hw', hm] using hs, lockToSet_tail hl2s, hti.own, ?_, by simp [hm], hti.found⟩
        intro _
        have h1 := hti.wr hw'
        rw [hp] at h1
        simpa only [runW] using h1
      · have ok := hinv.thr j tj hj'
        have hjw : tj.holdsW = false := by
          cases hh : tj.holdsW with
          | false => rfl
          | true =>
            have := ok.own.1 hh; rw [hown] at this
            simp only [Option.some.injEq] at this
            exact absurd this.symm hne
        refine ⟨ok.safe, ok.l2s, ok.own, by simp [hjw], ?_, ok.found⟩
        intro hmid
        have hs' := ok.safe
        rw [hmid] at hs'
        have := holdsR_pos hinv hj' (safe_mid hs')
        omega
    · simp only []
      exact hinv.cnt.trans (cnt_same ht (by rfl)).symm
    · intro hc; rw [hown] at hc; cases hc
  | render =>
    simp only [exec, Option.some.injEq, Prod.mk.injEq] at he
    obtain ⟨rfl, rfl⟩ := he
    simp [safe] at hsafe
    obtain ⟨⟨⟨hr, hw'⟩, hm⟩, hs⟩ := hsafe
    refine ⟨?_, ?_, hinv.excl, hinv.quiet, hinv.comm⟩
    · intro j tj hj
      rcases get_set_cases hj with ⟨rfl, rfl⟩ | ⟨hne, hj'⟩
      · exact ⟨by simpa [hr, hw', hm] using hs, lockToSet_tail hl2s, hti.own, by simp [hw'], by simp [hm], hti.found⟩
      · exact hinv.thr j tj hj'
    · simp only []
      exact hinv.cnt.trans (cnt_same ht (by rfl)).symm


/-! ### Initial states -/

/-- Every registry method the model's programs use is protected by the mutex. -/
def GuardsOk (g : Guards) : Prop :=
  g "set" = true ∧ g "getKey" = true ∧ g "getID" = true ∧ g "getKey1" = true ∧ g "getBKeys" = true

instance (g : Guards) : Decidable (GuardsOk g) := by unfold GuardsOk; infer_instance

theorem guards_method {g : Guards} (hg : GuardsOk g) (q : Query) : g q.method = true := by
  obtain ⟨_, h1, h2, h3, h4⟩ := hg
  cases q <;> assumption

theorem safe_lookups {g : Guards} (hg : GuardsOk g) : ∀ qs : List Query,
    safe false false false (qs.flatMap (lookupProg g) ++ [.render]) = true
  | [] => by simp [safe]
  | q :: qs => by
    simp only [List.flatMap_cons, lookupProg, guards_method hg q, if_true, List.cons_append, List.nil_append, safe]
    simpa using safe_lookups hg qs

theorem l2s_lookups {g : Guards} (hg : GuardsOk g) (id : Int) (key : Bytes) (tree : Tree) : ∀ qs : List Query,
    lockToSet id key tree (qs.flatMap (lookupProg g) ++ [.render])
  | [] => trivial
  | q :: qs => by
    simp only [List.flatMap_cons, lookupProg, guards_method hg q, if_true, List.cons_append, List.nil_append, lockToSet]
    exact l2s_lookups hg id key tree qs

theorem threadOK_init {g : Guards} (hg : GuardsOk g) (db0 : Db) (sp : ThreadSpec) (i : Nat) :
    ThreadOK none db0 db0 db0 [] i (sp.thread g) := by
  cases sp with
  | reader qs ctx =>
    exact ⟨safe_lookups hg qs, l2s_lookups hg _ _ _ qs, by simp [ThreadSpec.thread], by simp [ThreadSpec.thread],
      by simp [ThreadSpec.thread], by simp [ThreadSpec.thread]⟩
  | writer id key tree =>
    refine ⟨?_, ?_, by simp [ThreadSpec.thread], by simp [ThreadSpec.thread],
      by simp [ThreadSpec.thread], by simp [ThreadSpec.thread]⟩
    · simp only [ThreadSpec.thread, ThreadSpec.prog, setProg, hg.1, if_true]; decide
    · simp only [ThreadSpec.thread, ThreadSpec.prog, setProg, hg.1, if_true]
      exact ⟨fun idx db => set_micro id key tree idx db, trivial⟩

theorem inv_init {g : Guards} (hg : GuardsOk g) (db0 : Db) (specs : List ThreadSpec) :
    Inv (Sys.init g db0 specs) := by
  refine ⟨?_, ?_, ?_, fun _ => rfl, rfl⟩
  · intro i t ht
    simp only [Sys.init, List.getElem?_map, Option.map_eq_some_iff] at ht
    obtain ⟨sp, _, rfl⟩ := ht
    exact threadOK_init hg db0 sp i
  · simp only [Sys.init]
    symm
    rw [List.countP_eq_zero]
    intro t ht
    simp only [List.mem_map] at ht
    obtain ⟨sp, _, rfl⟩ := ht
    cases sp <;> simp [ThreadSpec.thread]
  · intro h; exact absurd rfl h

theorem inv_reachable {render : RenderFn} {s0 s : Sys} (h0 : Inv s0) (hr : Reachable render s0 s) : Inv s := by
  induction hr with
  | refl => exact h0
  | step _ hs ih => exact inv_step ih hs


/-! ### Frame facts of one step -/

theorem exec_frame {render : RenderFn} {i : Nat} {t t1 : Thread} {s s1 : Sys} {ins : Instr}
    (he : exec render i t s ins = some (t1, s1)) :
    s1.base = s.base ∧ s1.threads = s.threads ∧ (∃ ext, s1.commits = s.commits ++ ext) ∧
      t1.id = t.id ∧ t1.key = t.key ∧ t1.tree = t.tree ∧ t1.ctx = t.ctx := by
  cases ins <;> simp only [exec] at he
  case rlock | runlock | lock =>
    split at he
    · cases he
    · simp only [Option.some.injEq, Prod.mk.injEq] at he
      obtain ⟨rfl, rfl⟩ := he
      exact ⟨rfl, rfl, ⟨[], by simp⟩, rfl, rfl, rfl, rfl⟩
  case unlock =>
    split at he
    · cases he
    · simp only [Option.some.injEq, Prod.mk.injEq] at he
      obtain ⟨rfl, rfl⟩ := he
      exact ⟨rfl, rfl, ⟨[t.op], rfl⟩, rfl, rfl, rfl, rfl⟩
  all_goals
    simp only [Option.some.injEq, Prod.mk.injEq] at he
    obtain ⟨rfl, rfl⟩ := he
    exact ⟨rfl, rfl, ⟨[], by simp⟩, rfl, rfl, rfl, rfl⟩

theorem step_base {render : RenderFn} {s s' : Sys} {i : Nat} (h : step render s i = some s') : s'.base = s.base := by
  obtain ⟨t, ins, rest, t1, s1, _, _, he, rfl⟩ := step_cases h
  exact (exec_frame he).1

theorem step_commits {render : RenderFn} {s s' : Sys} {i : Nat} (h : step render s i = some s') :
    ∃ ext, s'.commits = s.commits ++ ext := by
  obtain ⟨t, ins, rest, t1, s1, _, _, he, rfl⟩ := step_cases h
  exact (exec_frame he).2.2.1

theorem reachable_base {render : RenderFn} {s0 s : Sys} (hr : Reachable render s0 s) : s.base = s0.base := by
  induction hr with
  | refl => rfl
  | step _ hs ih => rw [step_base hs, ih]

/-- The commit order only grows: what was committed stays committed, in the same order. -/
theorem commits_mono {render : RenderFn} {s1 s2 : Sys} (hr : Reachable render s1 s2) :
    ∃ ext, s2.commits = s1.commits ++ ext := by
  induction hr with
  | refl => exact ⟨[], by simp⟩
  | step _ hs ih =>
    obtain ⟨e1, h1⟩ := ih
    obtain ⟨e2, h2⟩ := step_commits hs
    exact ⟨e1 ++ e2, by rw [h2, h1, List.append_assoc]⟩

/-! ## The theorems -/

section theorems
variable {render : RenderFn} {g : Guards} {db0 : Db} {specs : List ThreadSpec} {s : Sys}

/-- The invariant holds in every state reachable from an initial state whose programs are protected. -/
theorem reach_inv (hg : GuardsOk g) (hr : Reachable render (Sys.init g db0 specs) s) : Inv s :=
  inv_reachable (inv_init hg db0 specs) hr

theorem reach_committed (hg : GuardsOk g) (hr : Reachable render (Sys.init g db0 specs) s) :
    s.committed = applyOps db0 s.commits := by
  have := (reach_inv hg hr).comm
  rwa [reachable_base hr] at this

/-- **Mutual exclusion.** In every reachable state: if some reader is between its `RLock` and `RUnlock`, then no
    thread is between `Lock` and `Unlock`, the mutex is not write-locked, and the registry is exactly the initial
    registry after the completed registrations in commit order — no half-done `set` is visible. -/
theorem quiescent_only (hg : GuardsOk g) (hr : Reachable render (Sys.init g db0 specs) s)
    (hrd : ∃ t ∈ s.threads, t.holdsR = true) :
    (∀ t ∈ s.threads, t.holdsW = false) ∧ s.rw.writer = none ∧ s.db = applyOps db0 s.commits := by
  have hinv := reach_inv hg hr
  obtain ⟨t, htm, htr⟩ := hrd
  obtain ⟨i, hi⟩ := List.mem_iff_getElem?.1 htm
  have hpos := holdsR_pos hinv hi htr
  have hwn : s.rw.writer = none := by
    cases hh : s.rw.writer with
    | none => rfl
    | some x => have := hinv.excl (by simp [hh]); omega
  refine ⟨?_, hwn, ?_⟩
  · intro tj hjm
    obtain ⟨j, hj⟩ := List.mem_iff_getElem?.1 hjm
    cases hh : tj.holdsW with
    | false => rfl
    | true => have := (hinv.thr j tj hj).own.1 hh; rw [hwn] at this; cases this
  · rw [hinv.quiet hwn]; exact reach_committed hg hr

/-- At most one thread is between `Lock` and `Unlock`. -/
theorem writer_exclusive (hg : GuardsOk g) (hr : Reachable render (Sys.init g db0 specs) s)
    {i j : Nat} {ti tj : Thread} (hi : s.threads[i]? = some ti) (hj : s.threads[j]? = some tj)
    (hwi : ti.holdsW = true) (hwj : tj.holdsW = true) : i = j := by
  have hinv := reach_inv hg hr
  have h1 := (hinv.thr i ti hi).own.1 hwi
  have h2 := (hinv.thr j tj hj).own.1 hwj
  rw [h1] at h2
  exact Option.some.inj h2

/-- The same without ghost flags: if the next instruction of some thread reads the registry (or releases the read
    lock), then no thread's next instruction is an update of `db.set` or its `Unlock` — nobody is mid-`set`. -/
theorem no_read_during_write (hg : GuardsOk g) (hr : Reachable render (Sys.init g db0 specs) s)
    {i j : Nat} {ti tj : Thread} (hi : s.threads[i]? = some ti) (hj : s.threads[j]? = some tj)
    {a b : Instr} {ra rb : List Instr} (hpi : ti.prog = a :: ra) (hpj : tj.prog = b :: rb)
    (ha : (∃ q, a = .rdIdx q) ∨ a = .rdSlot ∨ a = .runlock) : (∀ o, b ≠ .wr o) ∧ b ≠ .unlock := by
  have hinv := reach_inv hg hr
  have hsi := (hinv.thr i ti hi).safe
  rw [hpi] at hsi
  have hr' : ti.holdsR = true := by
    rcases ha with ⟨q, rfl⟩ | rfl | rfl <;> simp [safe] at hsi <;> exact hsi.1.1.1
  have hq := (quiescent_only hg hr ⟨ti, List.mem_of_getElem? hi, hr'⟩).1 tj (List.mem_of_getElem? hj)
  have hsj := (hinv.thr j tj hj).safe
  rw [hpj, hq] at hsj
  constructor
  · intro o hb; subst hb; simp [safe] at hsj
  · intro hb; subst hb; simp [safe] at hsj

/-- **What a lookup observes.** Whenever a thread is about to read the index or the slot array, the registry equals
    the initial registry after the completed registrations (`commits`, in the order of their `Unlock`s): the state a
    reader observes is the state after a COMPLETED prefix of `set` operations, never a half-done one. -/
theorem observed_is_committed (hg : GuardsOk g) (hr : Reachable render (Sys.init g db0 specs) s)
    {i : Nat} {t : Thread} (ht : s.threads[i]? = some t) {rest : List Instr}
    (hp : (∃ q, t.prog = .rdIdx q :: rest) ∨ t.prog = .rdSlot :: rest) :
    s.db = applyOps db0 s.commits ∧ s.rw.writer = none := by
  have hinv := reach_inv hg hr
  have hs := (hinv.thr i t ht).safe
  have hr' : t.holdsR = true := by
    rcases hp with ⟨q, hp⟩ | hp <;> rw [hp] at hs <;> simp [safe] at hs <;> exact hs.1.1.1
  have := quiescent_only hg hr ⟨t, List.mem_of_getElem? ht, hr'⟩
  exact ⟨this.2.2, this.2.1⟩

/-- **Atomic lookup.** The slot-read step that completes a lookup `q` records exactly what the sequential getter
    (`Db.getKey` / `getID` / `getKey1` / `getBKeys` of the registry model) returns on the committed registry of that
    moment.  The step is one of the looking-up thread's own steps, so the linearization point lies between the
    call and the return of the lookup. -/
theorem atomic_get (hg : GuardsOk g) (hr : Reachable render (Sys.init g db0 specs) s)
    {i : Nat} {t : Thread} (ht : s.threads[i]? = some t) {rest : List Instr} (hp : t.prog = .rdSlot :: rest)
    {s' : Sys} (hs : step render s i = some s') :
    ∃ t', s'.threads[i]? = some t' ∧
      t'.found = t.found ++ [⟨t.cur, t.cur.seq (applyOps db0 s.commits), s.commits.length⟩] := by
  have hinv := reach_inv hg hr
  have hti := hinv.thr i t ht
  have hsafe := hti.safe
  rw [hp] at hsafe
  simp [safe] at hsafe
  have hmid := hti.mid hsafe.1.2
  have hobs := (observed_is_committed hg hr ht (Or.inr hp)).1
  have hlen : i < s.threads.length := by
    have := List.getElem?_eq_some_iff.1 ht; exact this.1
  simp only [step, ht, hp, exec, Option.some.injEq] at hs
  subst hs
  refine ⟨_, List.getElem?_set_self hlen, ?_⟩
  simp only []
  rw [hmid, index_slot, hobs]

/-- Every finished lookup of every thread, in every reachable state: its result is the sequential getter's answer on
    the registry after the first `seen` committed registrations, where `seen` was the full commit count at the
    moment of the lookup. -/
theorem found_sequential (hg : GuardsOk g) (hr : Reachable render (Sys.init g db0 specs) s)
    {i : Nat} {t : Thread} (ht : s.threads[i]? = some t) :
    ∀ f ∈ t.found, f.seen ≤ s.commits.length ∧ f.res = f.q.seq (applyOps db0 (s.commits.take f.seen)) := by
  have hinv := reach_inv hg hr
  have := (hinv.thr i t ht).found
  rwa [reachable_base hr] at this

/-- The thread after its render step. -/
def rendered (render : RenderFn) (t : Thread) (rest : List Instr) : Thread :=
  { t with out := some (render (t.found.map (fun f => f.res.map (·.tree))) t.ctx), prog := rest }

/-- **Render from a snapshot.** The render step writes `render (trees found) ctx` — a function of the trees the
    thread's own lookups returned and of its own context — and changes nothing else: not the registry, not the
    mutex, no other thread. -/
theorem render_snapshot {i : Nat} {t : Thread} (ht : s.threads[i]? = some t) {rest : List Instr}
    (hp : t.prog = .render :: rest) :
    step render s i = some { s with threads := s.threads.set i (rendered render t rest) } := by
  simp only [step, ht, hp, exec, rendered]

/-- … hence two render steps anywhere (different systems, schedules, registries) that found the same trees and
    have the same context write the same output. -/
theorem render_snapshot_fun {s₁ s₂ s₁' s₂' : Sys} {i j : Nat} {t₁ t₂ t₁' t₂' : Thread} {r₁ r₂ : List Instr}
    (h₁ : s₁.threads[i]? = some t₁) (h₂ : s₂.threads[j]? = some t₂)
    (p₁ : t₁.prog = .render :: r₁) (p₂ : t₂.prog = .render :: r₂)
    (e₁ : step render s₁ i = some s₁') (e₂ : step render s₂ j = some s₂')
    (g₁ : s₁'.threads[i]? = some t₁') (g₂ : s₂'.threads[j]? = some t₂')
    (hf : t₁.found.map (fun f => f.res.map (·.tree)) = t₂.found.map (fun f => f.res.map (·.tree)))
    (hc : t₁.ctx = t₂.ctx) : t₁'.out = t₂'.out := by
  rw [render_snapshot h₁ p₁] at e₁
  rw [render_snapshot h₂ p₂] at e₂
  cases e₁; cases e₂
  have l₁ : i < s₁.threads.length := (List.getElem?_eq_some_iff.1 h₁).1
  have l₂ : j < s₂.threads.length := (List.getElem?_eq_some_iff.1 h₂).1
  rw [List.getElem?_set_self l₁] at g₁
  rw [List.getElem?_set_self l₂] at g₂
  cases g₁; cases g₂
  simp only [rendered, hf, hc]

end theorems

/-! ## Read your registration -/

theorem applyOps_run (hist0 cs : List Op) : applyOps (run hist0) cs = run (hist0 ++ cs) := by
  simp only [applyOps, run, List.foldl_append]

/-- Newest-first: if `w` (a registration of key `k`) is in the history, the latest registration concerning `k` is
    `w` itself or something newer. -/
theorem lastKeyR_from {k : Bytes} {w : Op} (hk : w.key = k) (hn : k ≠ noKey) (older : List Op) :
    ∀ newer : List Op, ∃ t, lastKeyR k (newer ++ w :: older) = some t ∧ (t = w.tree ∨ ∃ x ∈ newer, x.tree = t)
  | [] => ⟨w.tree, by simp [lastKeyR, hk, hn], Or.inl rfl⟩
  | x :: newer => by
    obtain ⟨t, ht, hor⟩ := lastKeyR_from hk hn older newer
    simp only [List.cons_append, lastKeyR]
    split
    · exact ⟨x.tree, rfl, Or.inr ⟨x, by simp, rfl⟩⟩
    · refine ⟨t, ht, ?_⟩
      rcases hor with h | ⟨y, hy, hyt⟩
      · exact Or.inl h
      · exact Or.inr ⟨y, by simp [hy], hyt⟩

/-- Oldest-first form. -/
theorem lastKey_from {k : Bytes} {w : Op} (hk : w.key = k) (hn : k ≠ noKey) (pre post : List Op) :
    ∃ t, lastKey k (pre ++ w :: post) = some t ∧ (t = w.tree ∨ ∃ x ∈ post, x.tree = t) := by
  obtain ⟨t, ht, hor⟩ := lastKeyR_from hk hn pre.reverse post.reverse
  refine ⟨t, ?_, ?_⟩
  · simpa [lastKey] using ht
  · rcases hor with h | ⟨x, hx, hxt⟩
    · exact Or.inl h
    · exact Or.inr ⟨x, by simpa using hx, hxt⟩

/-- **Read your registration.**  Start from the registry after a history `hist0`.  Let `s₁` be a reachable state in
    which the registration `w` of key `k` is committed (its `Unlock` has happened: `s₁.commits = pre ++ w :: mid`), and
    `s₂` any later state in which some thread completes a by-key lookup of `k` (slot-read step; its `RLock` may lie
    anywhere after or before `s₁` — a lookup whose `RLock` comes after `w`'s `Unlock` is a special case).  Then the
    lookup finds a template, and its tree is `w`'s or that of a registration committed AFTER `w` — never an older one.
    `Consistent`: the key↔ID pairing hypothesis of C04 (void for key-only registrations, see `consistent_keyOnly`). -/
theorem read_your_registration {render : RenderFn} {g : Guards} {hist0 : List Op} {specs : List ThreadSpec}
    {s₁ s₂ s₂' : Sys} (hg : GuardsOk g)
    (hr₁ : Reachable render (Sys.init g (run hist0) specs) s₁) (hr₂ : Reachable render s₁ s₂)
    {k : Bytes} {w : Op} {pre mid : List Op} (hw : s₁.commits = pre ++ w :: mid) (hk : w.key = k) (hn : k ≠ noKey)
    {i : Nat} {t : Thread} (ht : s₂.threads[i]? = some t) {rest : List Instr} (hp : t.prog = .rdSlot :: rest)
    (hcur : t.cur = .key k) (hs : step render s₂ i = some s₂')
    (hc : Consistent (hist0 ++ s₂.commits)) :
    ∃ t' r tr post, s₂'.threads[i]? = some t' ∧ t'.found = t.found ++ [⟨.key k, r, s₂.commits.length⟩] ∧
      s₂.commits = pre ++ w :: post ∧ r.map (·.tree) = some tr ∧ (tr = w.tree ∨ ∃ x ∈ post, x.tree = tr) := by
  obtain ⟨ext, hext⟩ := commits_mono hr₂
  have hcm : s₂.commits = pre ++ w :: (mid ++ ext) := by rw [hext, hw]; simp
  obtain ⟨t', ht', hf⟩ := atomic_get hg (hr₁.trans hr₂) ht hp hs
  rw [hcur] at hf
  have hlk := C04.lookup_latest_key (hist0 ++ s₂.commits) hc k
  obtain ⟨tr, htr, hor⟩ := lastKey_from hk hn (hist0 ++ pre) (mid ++ ext)
  refine ⟨t', _, tr, mid ++ ext, ht', hf, hcm, ?_, hor⟩
  simp only [Query.seq, applyOps_run]
  rw [hlk, hcm, ← List.append_assoc]
  exact htr

/-- Histories of key-only registrations (`RegisterTplKey`) are consistent. -/
theorem consistent_keyOnly {hist : List Op} (h : ∀ o ∈ hist, o.id < 0) : Consistent hist := by
  intro a ha b _ h0 _ _ _
  have := h a ha
  omega

/-! ## Capstone: a finished render is the sequential render of committed versions -/

/-- The queries of the index reads still to come. -/
def rdQs : List Instr → List Query
  | [] => []
  | .rdIdx q :: r => q :: rdQs r
  | _ :: r => rdQs r

/-- Lookups not finished yet: the one in progress, then the ones still in the program. -/
def pendingQs (mid : Bool) (cur : Query) (prog : List Instr) : List Query :=
  (if mid then [cur] else []) ++ rdQs prog

/-- What a reader thread looks like relative to its spec, at any time. -/
structure ReaderRel (render : RenderFn) (qs : List Query) (ctx : Nat) (t : Thread) : Prop where
  ctx : t.ctx = ctx
  /-- finished lookups, then the pending ones = the lookups of the spec, in order -/
  qs : t.found.map (·.q) ++ pendingQs t.mid t.cur t.prog = qs
  /-- the commit counts seen by successive lookups never decrease -/
  mono : List.Pairwise (· ≤ ·) (t.found.map (·.seen))
  /-- either the (single, final) render is still to come and nothing is written, or the thread is finished and has
      written the render of what it found -/
  out : (∃ pre, t.prog = pre ++ [.render] ∧ Instr.render ∉ pre ∧ t.out = none) ∨
        (t.prog = [] ∧ t.out = some (render (t.found.map (fun f => f.res.map (·.tree))) t.ctx))

def RelAll (render : RenderFn) (specs : List ThreadSpec) (s : Sys) : Prop :=
  ∀ (i : Nat) (qs : List Query) (ctx : Nat) (t : Thread),
    specs[i]? = some (ThreadSpec.reader qs ctx) → s.threads[i]? = some t → ReaderRel render qs ctx t

theorem rdQs_lookups {g : Guards} (hg : GuardsOk g) : ∀ qs : List Query,
    rdQs (qs.flatMap (lookupProg g) ++ [.render]) = qs
  | [] => rfl
  | q :: qs => by
    simp only [List.flatMap_cons, lookupProg, guards_method hg q, if_true, List.cons_append, List.nil_append, rdQs]
    rw [rdQs_lookups hg qs]

theorem noRender_lookups {g : Guards} : ∀ qs : List Query, Instr.render ∉ qs.flatMap (lookupProg g)
  | [] => by simp
  | q :: qs => by
    have ih := noRender_lookups (g := g) qs
    simp only [List.flatMap_cons, List.mem_append, not_or]
    refine ⟨?_, ih⟩
    unfold lookupProg
    split <;> simp

theorem relAll_init {render : RenderFn} {g : Guards} (hg : GuardsOk g) (db0 : Db) (specs : List ThreadSpec) :
    RelAll render specs (Sys.init g db0 specs) := by
  intro i qs ctx t hsp ht
  simp only [Sys.init, List.getElem?_map, hsp, Option.map_some, Option.some.injEq] at ht
  subst ht
  refine ⟨rfl, ?_, by simp [ThreadSpec.thread], Or.inl ⟨qs.flatMap (lookupProg g), rfl, noRender_lookups qs, rfl⟩⟩
  simp [ThreadSpec.thread, ThreadSpec.prog, pendingQs, rdQs_lookups hg qs]

theorem relAll_step {render : RenderFn} {specs : List ThreadSpec} {s s' : Sys} {i : Nat} (hinv : Inv s)
    (hrel : RelAll render specs s) (h : step render s i = some s') : RelAll render specs s' := by
  obtain ⟨t, ins, rest, t1, s1, ht, hp, he, rfl⟩ := step_cases h
  intro j qs ctx tj hsp hj
  have hthreads : s1.threads = s.threads := (exec_frame he).2.1
  simp only [hthreads] at hj
  rcases get_set_cases hj with ⟨rfl, rfl⟩ | ⟨_, hj'⟩
  case inr => exact hrel j qs ctx tj hsp hj'
  have old := hrel j qs ctx t hsp ht
  have hsafe := (hinv.thr j t ht).safe
  rw [hp] at hsafe
  have hq := old.qs
  rw [hp] at hq
  -- the output clause for every instruction but `render`
  have outKeep : ins ≠ .render → t1.out = t.out →
      ((∃ pre, rest = pre ++ [.render] ∧ Instr.render ∉ pre ∧ t1.out = none) ∨
        (rest = [] ∧ t1.out = some (render (t1.found.map (fun f => f.res.map (·.tree))) t1.ctx))) := by
    intro hne hout
    rcases old.out with ⟨pre, hpre, hnr, hnone⟩ | ⟨hnil, _⟩
    · rw [hp] at hpre
      cases pre with
      | nil => simp at hpre; exact absurd hpre.1 hne
      | cons a pre' =>
        simp only [List.cons_append, List.cons.injEq] at hpre
        exact Or.inl ⟨pre', hpre.2, fun hm => hnr (List.mem_cons_of_mem _ hm), by rw [hout, hnone]⟩
    · rw [hp] at hnil; cases hnil
  cases ins with
  | rdIdx q =>
    simp only [exec, Option.some.injEq, Prod.mk.injEq] at he
    obtain ⟨rfl, rfl⟩ := he
    simp [safe] at hsafe
    refine ⟨old.ctx, ?_, old.mono, outKeep (by simp) rfl⟩
    simpa [pendingQs, rdQs, hsafe.1.2] using hq
  | rdSlot =>
    simp only [exec, Option.some.injEq, Prod.mk.injEq] at he
    obtain ⟨rfl, rfl⟩ := he
    simp [safe] at hsafe
    refine ⟨old.ctx, ?_, ?_, outKeep (by simp) rfl⟩
    · simpa [pendingQs, rdQs, hsafe.1.2] using hq
    · simp only [List.map_append, List.map_cons, List.map_nil, List.pairwise_append, List.pairwise_cons,
        List.mem_map, List.mem_singleton]
      refine ⟨old.mono, ⟨by simp, List.Pairwise.nil⟩, ?_⟩
      rintro a ⟨f, hf, rfl⟩ b rfl
      exact ((hinv.thr j t ht).found f hf).1
  | render =>
    simp only [exec, Option.some.injEq, Prod.mk.injEq] at he
    obtain ⟨rfl, rfl⟩ := he
    refine ⟨old.ctx, ?_, old.mono, ?_⟩
    · simpa [pendingQs, rdQs] using hq
    · rcases old.out with ⟨pre, hpre, hnr, _⟩ | ⟨hnil, _⟩
      · rw [hp] at hpre
        cases pre with
        | nil => simp at hpre; exact Or.inr ⟨hpre, rfl⟩
        | cons a pre' =>
          simp only [List.cons_append, List.cons.injEq] at hpre
          exact absurd (hpre.1 ▸ List.mem_cons_self) hnr
      · rw [hp] at hnil; cases hnil
  | rlock | runlock | lock | unlock =>
    simp only [exec] at he
    split at he
    · cases he
    · simp only [Option.some.injEq, Prod.mk.injEq] at he
      obtain ⟨rfl, rfl⟩ := he
      exact ⟨old.ctx, by simpa [pendingQs, rdQs] using hq, old.mono, outKeep (by simp) rfl⟩
  | wr o =>
    simp only [exec, Option.some.injEq, Prod.mk.injEq] at he
    obtain ⟨rfl, rfl⟩ := he
    exact ⟨old.ctx, by simpa [pendingQs, rdQs] using hq, old.mono, outKeep (by simp) rfl⟩

theorem relAll_reachable {render : RenderFn} {g : Guards} {db0 : Db} {specs : List ThreadSpec} {s : Sys}
    (hg : GuardsOk g) (hr : Reachable render (Sys.init g db0 specs) s) : Inv s ∧ RelAll render specs s := by
  induction hr with
  | refl => exact ⟨inv_init hg db0 specs, relAll_init hg db0 specs⟩
  | step _ hs ih => exact ⟨inv_step ih.1 hs, relAll_step ih.1 ih.2 hs⟩

/-- **A finished render is linearizable.**  Take any schedule and any thread `i` that was started as a render with
    lookups `qs` (the template's own lookup, then one per include met) and context `ctx`, and that has finished.
    Then it performed exactly the lookups `qs`, in order; the `n`-th one answered like the SEQUENTIAL getter on the
    initial registry after the first `seenₙ` committed registrations — a prefix of the commit order that was the
    complete commit list at the moment of that lookup, `seen₁ ≤ seen₂ ≤ … ≤` the final commit count — and the output
    is `render` of exactly those trees and `ctx`: what the render would return running alone against those versions;
    never a mixture within one lookup, never a half-registered template. -/
theorem render_linearizable {render : RenderFn} {g : Guards} {db0 : Db} {specs : List ThreadSpec} {s : Sys}
    (hg : GuardsOk g) (hr : Reachable render (Sys.init g db0 specs) s)
    {i : Nat} {qs : List Query} {ctx : Nat} {t : Thread}
    (hsp : specs[i]? = some (.reader qs ctx)) (ht : s.threads[i]? = some t) (hdone : t.prog = []) :
    t.found.map (·.q) = qs ∧
    List.Pairwise (· ≤ ·) (t.found.map (·.seen)) ∧ (∀ f ∈ t.found, f.seen ≤ s.commits.length) ∧
    t.out = some (render
      (t.found.map (fun f => (f.q.seq (applyOps db0 (s.commits.take f.seen))).map (·.tree))) ctx) := by
  obtain ⟨hinv, hrel⟩ := relAll_reachable hg hr
  have rel := hrel i qs ctx t hsp ht
  have hfs := found_sequential hg hr ht
  have hsafe := (hinv.thr i t ht).safe
  rw [hdone] at hsafe
  simp [safe] at hsafe
  refine ⟨?_, rel.mono, fun f hf => (hfs f hf).1, ?_⟩
  · have := rel.qs
    rw [hdone] at this
    simpa [pendingQs, rdQs, hsafe.2] using this
  · rcases rel.out with ⟨pre, hpre, _, _⟩ | ⟨_, hout⟩
    · rw [hdone] at hpre
      cases pre <;> simp at hpre
    · rw [hout, rel.ctx]
      congr 2
      apply List.map_congr_left
      intro f hf
      rw [(hfs f hf).2]

/-! ## Every committed registration is the registration of a writer thread -/

structure SpecRel (g : Guards) (sp : ThreadSpec) (t : Thread) : Prop where
  op : t.op = (sp.thread g).op
  noUnlock : ∀ qs ctx, sp = .reader qs ctx → Instr.unlock ∉ t.prog

structure CommitsRel (g : Guards) (specs : List ThreadSpec) (s : Sys) : Prop where
  len : s.threads.length = specs.length
  thr : ∀ (i : Nat) (sp : ThreadSpec) (t : Thread), specs[i]? = some sp → s.threads[i]? = some t → SpecRel g sp t
  commits : ∀ o ∈ s.commits, ∃ (i : Nat) (id : Int) (key : Bytes) (tree : Tree),
    specs[i]? = some (.writer id key tree) ∧ o = ⟨id, key, tree⟩

theorem noUnlock_lookups {g : Guards} : ∀ qs : List Query, Instr.unlock ∉ qs.flatMap (lookupProg g) ++ [.render]
  | [] => by simp
  | q :: qs => by
    have ih := noUnlock_lookups (g := g) qs
    simp only [List.flatMap_cons, List.append_assoc, List.mem_append, not_or] at ih ⊢
    refine ⟨?_, ih⟩
    unfold lookupProg
    split <;> simp

theorem commitsRel_init (g : Guards) (db0 : Db) (specs : List ThreadSpec) :
    CommitsRel g specs (Sys.init g db0 specs) := by
  refine ⟨by simp [Sys.init], ?_, by simp [Sys.init]⟩
  intro i sp t hsp ht
  simp only [Sys.init, List.getElem?_map, hsp, Option.map_some, Option.some.injEq] at ht
  subst ht
  refine ⟨rfl, ?_⟩
  intro qs ctx h
  subst h
  exact noUnlock_lookups qs

theorem commitsRel_step {render : RenderFn} {g : Guards} {specs : List ThreadSpec} {s s' : Sys} {i : Nat}
    (hrel : CommitsRel g specs s) (h : step render s i = some s') : CommitsRel g specs s' := by
  obtain ⟨t, ins, rest, t1, s1, ht, hp, he, rfl⟩ := step_cases h
  obtain ⟨_, hthreads, _, hid, hkey, htree, _⟩ := exec_frame he
  have hlen : i < specs.length := by rw [← hrel.len]; exact (List.getElem?_eq_some_iff.1 ht).1
  obtain ⟨sp, hsp⟩ : ∃ sp, specs[i]? = some sp := ⟨specs[i], List.getElem?_eq_getElem hlen⟩
  have old := hrel.thr i sp t hsp ht
  refine ⟨by simp [hthreads, hrel.len], ?_, ?_⟩
  · intro j spj tj hspj hj
    simp only [hthreads] at hj
    rcases get_set_cases hj with ⟨rfl, rfl⟩ | ⟨_, hj'⟩
    · have oldj := hrel.thr j spj t hspj ht
      refine ⟨?_, ?_⟩
      · rw [← oldj.op]; simp only [Thread.op, hid, hkey, htree]
      · intro qs ctx hh hm
        exact oldj.noUnlock qs ctx hh (by rw [hp]; exact List.mem_cons_of_mem _ hm)
    · exact hrel.thr j spj tj hspj hj'
  · cases ins
    case unlock =>
      simp only [exec] at he
      split at he
      · cases he
      · simp only [Option.some.injEq, Prod.mk.injEq] at he
        obtain ⟨rfl, rfl⟩ := he
        intro o ho
        simp only [List.mem_append, List.mem_singleton] at ho
        rcases ho with ho | rfl
        · exact hrel.commits o ho
        · cases sp with
          | reader qs ctx => exact absurd (by rw [hp]; exact List.mem_cons_self) (old.noUnlock qs ctx rfl)
          | writer id key tree => exact ⟨i, id, key, tree, hsp, by rw [old.op]; rfl⟩
    all_goals
      simp only [exec] at he
      first
        | (split at he
           · cases he
           · simp only [Option.some.injEq, Prod.mk.injEq] at he
             obtain ⟨rfl, rfl⟩ := he
             exact hrel.commits)
        | (simp only [Option.some.injEq, Prod.mk.injEq] at he
           obtain ⟨rfl, rfl⟩ := he
           exact hrel.commits)

/-- Every committed registration is the registration of one of the writer threads of the system. -/
theorem commits_sub_specs {render : RenderFn} {g : Guards} {db0 : Db} {specs : List ThreadSpec} {s : Sys}
    (hr : Reachable render (Sys.init g db0 specs) s) :
    ∀ o ∈ s.commits, ThreadSpec.writer o.id o.key o.tree ∈ specs := by
  have : CommitsRel g specs s := by
    induction hr with
    | refl => exact commitsRel_init g db0 specs
    | step _ hs ih => exact commitsRel_step ih hs
  intro o ho
  obtain ⟨i, id, key, tree, hsp, rfl⟩ := this.commits o ho
  exact List.mem_of_getElem? hsp

/-- `read_your_registration` with its consistency hypothesis discharged for systems that only use `RegisterTplKey`
    (all IDs negative), as the stress harness' include templates do. -/
theorem read_your_registration_keyOnly {render : RenderFn} {g : Guards} {hist0 : List Op} {specs : List ThreadSpec}
    {s₁ s₂ s₂' : Sys} (hg : GuardsOk g)
    (hr₁ : Reachable render (Sys.init g (run hist0) specs) s₁) (hr₂ : Reachable render s₁ s₂)
    (h0 : ∀ o ∈ hist0, o.id < 0) (hw0 : ∀ id key tree, ThreadSpec.writer id key tree ∈ specs → id < 0)
    {k : Bytes} {w : Op} {pre mid : List Op} (hw : s₁.commits = pre ++ w :: mid) (hk : w.key = k) (hn : k ≠ noKey)
    {i : Nat} {t : Thread} (ht : s₂.threads[i]? = some t) {rest : List Instr} (hp : t.prog = .rdSlot :: rest)
    (hcur : t.cur = .key k) (hs : step render s₂ i = some s₂') :
    ∃ t' r tr post, s₂'.threads[i]? = some t' ∧ t'.found = t.found ++ [⟨.key k, r, s₂.commits.length⟩] ∧
      s₂.commits = pre ++ w :: post ∧ r.map (·.tree) = some tr ∧ (tr = w.tree ∨ ∃ x ∈ post, x.tree = tr) := by
  refine read_your_registration hg hr₁ hr₂ hw hk hn ht hp hcur hs (consistent_keyOnly ?_)
  intro o ho
  rcases List.mem_append.1 ho with h | h
  · exact h0 o h
  · exact hw0 _ _ _ (commits_sub_specs (hr₁.trans hr₂) o h)

/-! ## The lock discipline the theorems assume, as a decidable predicate on the generated facts

`locksOk` is SUFFICIENT for the theorems, not necessary (e.g. a getter taking the full `Lock` would be safe too but is
rejected).  Compared with the informal reading "getters: RLock first, `defer RUnlock`; set: Lock first, explicit
Unlock last" it additionally ACCEPTS what the real code does and what is harmless:

* `getKey` / `getID` touch nothing themselves and delegate to one protected method (`get`) — accepted (`delegate`);
* an explicit unlock that is not the last statement is accepted if no `return` lies inside the span and nothing is
  accessed after it (`released`);

and additionally REQUIRES: no getter writes an index; helpers called inside a locked span are lock-free (no nested
locking of the non-reentrant mutex) and do not write unless the span is a write span; the lock-free accessor
(`getIdxLF`) is called only from inside locked spans of registry methods; every other function of the package that
touches the registry's fields directly (the `verif` hooks) brackets its accesses itself; nothing is `unknown`. -/

section locks
open DyntplV.Conc

def factOf (facts : List (String × LockFact)) (m : String) : Option LockFact := facts.lookup m

/-- Properly released: by `defer`, or explicitly with no `return` inside the span. -/
def released (f : LockFact) (d l m : Release) : Bool :=
  f.release == d || ((f.release == l || f.release == m) && !f.retInside)

/-- Brackets all its accesses by `RLock … RUnlock` and writes nothing. -/
def selfR (f : LockFact) : Bool :=
  f.first == .rlock && released f .deferRUnlock .lastRUnlock .midRUnlock && !f.outside && !f.writes &&
    f.callsUnlocked.isEmpty

/-- Brackets all its accesses by `Lock … Unlock`. -/
def selfW (f : LockFact) : Bool :=
  f.first == .lock && released f .deferUnlock .lastUnlock .midUnlock && !f.outside && f.callsUnlocked.isEmpty

/-- Touches nothing itself and hands over to exactly one registry method. -/
def delegate (f : LockFact) : Option String :=
  if f.first == .none && f.release == .none && !f.outside && !f.writes && f.callsLocked.isEmpty then
    match f.callsUnlocked with
    | [m] => some m
    | _ => none
  else none

/-- No mutex call, calls no registry method: may only run inside somebody else's locked span. -/
def lockFree (f : LockFact) : Bool :=
  f.first == .none && f.release == .none && f.callsLocked.isEmpty && f.callsUnlocked.isEmpty

def guardWith (self : LockFact → Bool) (facts : List (String × LockFact)) (m : String) : Bool :=
  match factOf facts m with
  | some f =>
    self f ||
      (match delegate f with
       | some m' => (match factOf facts m' with | some f' => self f' | none => false)
       | none => false)
  | none => false

/-- The `Guards` of the model, computed from the facts: `set` must be write-protected, every getter read-protected. -/
def guardsOf (facts : List (String × LockFact)) : Guards :=
  fun m => if m == "set" then guardWith selfW facts m else guardWith selfR facts m

def locksOk (facts : List (String × LockFact)) (callers : List (String × List String))
    (funcs : List (String × LockFact)) : Bool :=
  -- (1) the methods the model's programs stand for are protected (also `get` and `getTreeByHash`, used by `Parse`)
  decide (GuardsOk (guardsOf facts)) && guardWith selfR facts "get" && guardWith selfR facts "getTreeByHash" &&
  -- (2) every registry method is of a known, accepted kind
  facts.all (fun p => selfR p.2 || selfW p.2 || guardWith selfR facts p.1 || guardWith selfW facts p.1 ||
    (lockFree p.2 && p.2.first == .none)) &&
  -- (3) what is called inside a locked span is lock-free, and read-only unless the span is a write span
  facts.all (fun p => p.2.callsLocked.all (fun c =>
    match factOf facts c with
    | some fc => lockFree fc && (p.2.first == .lock || !fc.writes)
    | none => false)) &&
  -- (4) a lock-free method that touches the registry is called only from inside locked spans of registry methods
  facts.all (fun p => !(lockFree p.2 && p.2.outside) ||
    ((callers.lookup p.1).getD []).all (fun c =>
      match factOf facts c with
      | some fc => fc.callsLocked.contains p.1 && !fc.callsUnlocked.contains p.1
      | none => false)) &&
  -- (5) other functions that reach into the registry directly bracket their accesses themselves
  funcs.all (fun p => (selfR p.2 || selfW p.2) && p.2.callsLocked.isEmpty)

theorem locksOk_guards {facts : List (String × LockFact)} {callers : List (String × List String)}
    {funcs : List (String × LockFact)} (h : locksOk facts callers funcs = true) : GuardsOk (guardsOf facts) := by
  simp only [locksOk, Bool.and_eq_true, decide_eq_true_eq] at h
  exact h.1.1.1.1.1.1

end locks

/-! ## Instantiation with the facts regenerated from /repo -/

section generated
open DyntplV.Generated

/-- The lock discipline found in /repo's current `db.go` (and in every function touching the registry) is one the
    theorems accept. -/
theorem generated_locks_ok : locksOk dbLocks dbCallers dbFuncLocks = true := by decide

/-- No function on the render path assigns through `*Tpl`, `*Tree`, `node`, `mod`, `arg`: trees are immutable
    during renders, which is what the model assumes by making trees values. -/
theorem generated_no_tree_writes : treeWrites = [] := by decide

/-- The analysis behind `treeWrites` really covered the render path (guards against a rename making it vacuous). -/
theorem generated_reach :
    ["write", "writeTree", "Tpl.writeNode", "Tpl.nodeCmp", "Ctx.cloop", "Ctx.rloop", "RangeLoop.Iterate",
     "Ctx.get", "Ctx.writeBound", "db.getBKeys"].all treeReach.contains = true := by decide

/-- The model's lock instructions as generated from /repo. -/
def gen : Guards := guardsOf dbLocks

theorem gen_ok : GuardsOk gen := locksOk_guards generated_locks_ok

/-- **C06 for the code as it is**: every theorem above, for the programs whose lock instructions are generated from
    /repo's current source, for every initial registry, every set of threads, every render function, every
    schedule. -/
theorem atomic_generated {render : RenderFn} {db0 : Db} {specs : List ThreadSpec} {s : Sys}
    (hr : Reachable render (Sys.init gen db0 specs) s) :
    -- mutual exclusion / only committed states are observed
    ((∃ t ∈ s.threads, t.holdsR = true) →
      (∀ t ∈ s.threads, t.holdsW = false) ∧ s.rw.writer = none ∧ s.db = applyOps db0 s.commits) ∧
    -- every finished lookup answered like the sequential getter on a committed registry
    (∀ (i : Nat) (t : Thread), s.threads[i]? = some t → ∀ f ∈ t.found,
      f.seen ≤ s.commits.length ∧ f.res = f.q.seq (applyOps db0 (s.commits.take f.seen))) ∧
    -- a lookup completing now answers on the currently committed registry
    (∀ (i : Nat) (t : Thread) (rest : List Instr) (s' : Sys), s.threads[i]? = some t → t.prog = .rdSlot :: rest → step render s i = some s' →
      ∃ t', s'.threads[i]? = some t' ∧
        t'.found = t.found ++ [⟨t.cur, t.cur.seq (applyOps db0 s.commits), s.commits.length⟩]) ∧
    -- a render writes a function of the trees found and its own context
    (∀ (i : Nat) (t : Thread) (rest : List Instr), s.threads[i]? = some t → t.prog = .render :: rest →
      step render s i = some { s with threads := s.threads.set i (rendered render t rest) }) :=
  ⟨quiescent_only gen_ok hr, fun _ _ ht => found_sequential gen_ok hr ht,
   fun _ _ _ _ ht hp hs => atomic_get gen_ok hr ht hp hs, fun _ _ _ ht hp => render_snapshot ht hp⟩

/-- The capstone for the code as it is. -/
theorem linearizable_generated {render : RenderFn} {db0 : Db} {specs : List ThreadSpec} {s : Sys}
    (hr : Reachable render (Sys.init gen db0 specs) s)
    {i : Nat} {qs : List Query} {ctx : Nat} {t : Thread}
    (hsp : specs[i]? = some (.reader qs ctx)) (ht : s.threads[i]? = some t) (hdone : t.prog = []) :
    t.found.map (·.q) = qs ∧
    List.Pairwise (· ≤ ·) (t.found.map (·.seen)) ∧ (∀ f ∈ t.found, f.seen ≤ s.commits.length) ∧
    t.out = some (render
      (t.found.map (fun f => (f.q.seq (applyOps db0 (s.commits.take f.seen))).map (·.tree))) ctx) :=
  render_linearizable gen_ok hr hsp ht hdone

end generated

/-! ## Non-vacuity: a concrete system — two readers and one writer on key `k0`, registered with version A

Thread 0 and thread 2 render `k0` (contexts 7 and 8), thread 1 re-registers `k0` with version B.  Programs are
generated from /repo's facts (`gen`): reader = `rlock, rdIdx, rdSlot, runlock, render`,
writer = `lock, find, dropHash, slot, idxID, idxKey, hash, unlock`.  Each theorem is applied to a concrete
reachable, interleaved state, so its hypotheses are jointly satisfiable. -/
section examples
def k0 : Bytes := lit "k0"
def vA : Tree := ⟨100, 0⟩
def vB : Tree := ⟨101, 1⟩
/-- a render that shows which versions it saw (`A`, `B`, `?` = not found), and its own context -/
def rnd : RenderFn := fun ts ctx =>
  ts.map (fun o => match o with | some t => UInt8.ofNat (65 + t.src) | none => 63) ++ [UInt8.ofNat (48 + ctx)]
def hist0 : List Op := [⟨-1, k0, vA⟩]
def specs0 : List ThreadSpec := [.reader [.key k0] 7, .writer (-1) k0 vB, .reader [.key k0] 8]
def sys0 : Sys := Sys.init gen (run hist0) specs0
def after (sched : List Nat) : Sys := (runSched rnd sys0 sched).getD sys0

/-- what each thread found (source ids), and what it wrote -/
def view (s : Sys) : List (List (Option Nat)) × List (Option Bytes) :=
  (s.threads.map (fun t => t.found.map (fun f => f.res.map (·.tree.src))), s.threads.map (·.out))

-- the generated programs are the protected ones
example : sys0.threads.map (·.prog) =
    [[.rlock, .rdIdx (.key k0), .rdSlot, .runlock, .render],
     [.lock, .wr .find, .wr .dropHash, .wr .slot, .wr .idxID, .wr .idxKey, .wr .hash, .unlock],
     [.rlock, .rdIdx (.key k0), .rdSlot, .runlock, .render]] := by decide

/-- (a) both readers inside their read-locked spans at once; reader 0 is about to read the slot -/
def schedRR : List Nat := [0, 2, 0]
theorem hRR : runSched rnd sys0 schedRR = some (after schedRR) := by decide
example : ((after schedRR).rw, (after schedRR).threads.map (·.holdsR)) = (⟨2, none⟩, [true, false, true]) := by decide
-- the writer's `Lock` is blocked there
example : step rnd (after schedRR) 1 = none := by decide
-- quiescent_only applies (its hypothesis holds in this reachable state)
example : (after schedRR).db = applyOps (run hist0) (after schedRR).commits :=
  (quiescent_only gen_ok (runSched_reachable _ hRR) (by decide)).2.2
-- observed_is_committed / atomic_get apply: thread 0 is at its slot read
example : ((after schedRR).threads[0]?.map (·.prog)) = some [.rdSlot, .runlock, .render] := by decide

/-- (b) the writer is in the middle of `db.set` (slot replaced, indexes not yet updated): the registry is NOT the
    committed one, and both readers' `RLock` block — the torn state exists in the model but nobody can look at it -/
def schedMid : List Nat := [1, 1, 1, 1]
theorem hMid : runSched rnd sys0 schedMid = some (after schedMid) := by decide
example : (after schedMid).db ≠ (after schedMid).committed := by decide
example : step rnd (after schedMid) 0 = none ∧ step rnd (after schedMid) 2 = none := by decide
example : (after schedMid).threads.map (·.holdsW) = [false, true, false] := by decide

/-- (c) a full interleaving: reader 0 looks up before the registration and renders while the writer is in the middle
    of `db.set`; reader 2 looks up after the registration -/
def schedFull : List Nat := [0, 0, 0, 0, 1, 1, 1, 1, 0, 1, 1, 1, 1, 2, 2, 2, 2, 2]
theorem hFull : runSched rnd sys0 schedFull = some (after schedFull) := by decide
-- reader 0 saw version A (source 0), reader 2 saw version B (source 1); outputs "A7" and "B8"
example : view (after schedFull) = ([[some 0], [], [some 1]], [some (lit "A7"), none, some (lit "B8")]) := by decide
example : (after schedFull).commits = [⟨-1, k0, vB⟩] := by decide
-- found_sequential on that state: reader 2's lookup answered on the registry after the first (only) commit
example : ∀ f ∈ ((after schedFull).threads[2]?.map (·.found)).getD [],
    f.seen = 1 ∧ f.res = f.q.seq (applyOps (run hist0) ((after schedFull).commits.take f.seen)) := by decide

-- render_linearizable on the finished reader 2: one lookup, answered on the registry after the first commit, "B8"
def tF2 : Thread := ((after schedFull).threads[2]?).getD (ThreadSpec.thread gen (.reader [] 0))
example : tF2.found.map (·.q) = [.key k0] ∧ tF2.out = some (rnd (tF2.found.map (fun f =>
    (f.q.seq (applyOps (run hist0) ((after schedFull).commits.take f.seen))).map (·.tree))) 8) :=
  have h := render_linearizable (render := rnd) (g := gen) (db0 := run hist0) (specs := specs0) gen_ok
    (runSched_reachable _ hFull) (i := 2) (qs := [.key k0]) (ctx := 8) (t := tF2) (by decide) (by decide) (by decide)
  ⟨h.1, h.2.2.2⟩
example : tF2.out = some (lit "B8") ∧ tF2.found.map (·.seen) = [1] := by decide

/-- (d) read_your_registration: after the writer's `Unlock` (state `s₁`), reader 2 locks, reads the index (`s₂`) and
    then reads the slot: it finds version B -/
def schedW : List Nat := [1, 1, 1, 1, 1, 1, 1, 1]
def schedW2 : List Nat := schedW ++ [2, 2]
theorem hW : runSched rnd sys0 schedW = some (after schedW) := by decide
theorem hW2 : runSched rnd (after schedW) [2, 2] = some (after schedW2) := by decide
def tW2 : Thread := ((after schedW2).threads[2]?).getD (ThreadSpec.thread gen (.reader [] 0))
example : ∃ t' r tr post, (after (schedW2 ++ [2])).threads[2]? = some t' ∧
    t'.found = tW2.found ++ [⟨.key k0, r, (after schedW2).commits.length⟩] ∧
    (after schedW2).commits = [] ++ (⟨-1, k0, vB⟩ : Op) :: post ∧ r.map (·.tree) = some tr ∧
    (tr = (⟨-1, k0, vB⟩ : Op).tree ∨ ∃ x ∈ post, x.tree = tr) :=
  read_your_registration (render := rnd) (g := gen) (hist0 := hist0) (specs := specs0)
    (s₁ := after schedW) (s₂ := after schedW2) (s₂' := after (schedW2 ++ [2])) gen_ok
    (runSched_reachable _ hW) (runSched_reachable _ hW2) (k := k0) (w := ⟨-1, k0, vB⟩) (pre := []) (mid := [])
    (by decide) rfl (by decide) (i := 2) (t := tW2)
    (by decide) (rest := [.runlock, .render]) (by decide) (by decide) (by decide) (by decide)
-- the key-only corollary applies to this system too (no ID is used anywhere), and commits come from the specs
example : ∀ o ∈ (after schedW2).commits, ThreadSpec.writer o.id o.key o.tree ∈ specs0 :=
  commits_sub_specs ((runSched_reachable _ hW).trans (runSched_reachable _ hW2))
theorem specs0_keyOnly : ∀ id key tree, ThreadSpec.writer id key tree ∈ specs0 → id < 0 := by
  intro id key tree h
  simp only [specs0, List.mem_cons, List.not_mem_nil, or_false, reduceCtorEq, false_or] at h
  cases h; decide
example : ∃ t' r tr post, (after (schedW2 ++ [2])).threads[2]? = some t' ∧
    t'.found = tW2.found ++ [⟨.key k0, r, (after schedW2).commits.length⟩] ∧
    (after schedW2).commits = [] ++ (⟨-1, k0, vB⟩ : Op) :: post ∧ r.map (·.tree) = some tr ∧
    (tr = (⟨-1, k0, vB⟩ : Op).tree ∨ ∃ x ∈ post, x.tree = tr) :=
  read_your_registration_keyOnly (render := rnd) (g := gen) (hist0 := hist0) (specs := specs0)
    (s₁ := after schedW) (s₂ := after schedW2) (s₂' := after (schedW2 ++ [2])) gen_ok
    (runSched_reachable _ hW) (runSched_reachable _ hW2) (by decide) specs0_keyOnly
    (k := k0) (w := ⟨-1, k0, vB⟩) (pre := []) (mid := [])
    (by decide) rfl (by decide) (i := 2) (t := tW2)
    (by decide) (rest := [.runlock, .render]) (by decide) (by decide) (by decide)
-- … and what it found is version B
example : view (after (schedW2 ++ [2])) = ([[], [], [some 1]], [none, none, none]) := by decide

/-- (e) render_snapshot: reader 0 at its render step -/
def schedR0 : List Nat := [0, 0, 0, 0]
example : ((after schedR0).threads[0]?.map (·.prog)) = some [.render] := by decide
example : ((after (schedR0 ++ [0])).threads[0]?.bind (·.out)) = some (rnd [some vA] 7) := by decide

/-! ### Sensitivity: the same system with UNPROTECTED getters

`bad` is what `guardsOf` yields if `db.get` loses its `RLock` (see `bad_is_generated`).  Reader 0 then reads the
registry in the middle of `db.set` and returns version B although no registration has been committed: the
conclusion of `found_sequential` fails, so the lock hypothesis is necessary. -/
def bad : Guards := fun m => m == "set"
def sysBad : Sys := Sys.init bad (run hist0) specs0
example : ¬ GuardsOk bad := by decide
example : ((runSched rnd sysBad [1, 1, 1, 1, 0, 0]).map (fun s =>
    (s.commits.length, s.threads.map (fun t => t.found.map (fun f => (f.res.map (·.tree.src), f.seen)))))) =
    some (0, [[(some 1, 0)], [], []]) := by decide
example : ((runSched rnd sysBad [1, 1, 1, 1, 0, 0]).map (fun s =>
    (s.threads[0]?.map (fun t => t.found.all (fun f =>
      decide (f.res = f.q.seq (applyOps (run hist0) (s.commits.take f.seen))))))) ) = some (some false) := by decide

/-- `db.get` without its lock, everything else as generated -/
def factsNoLock : List (String × LockFact) :=
  Generated.dbLocks.map (fun p => if p.1 == "get" then
    (p.1, { p.2 with first := .none, release := .none, outside := true, callsLocked := [], callsUnlocked := ["getIdxLF"] })
  else p)
theorem bad_is_generated : ∀ m ∈ ["set", "getKey", "getID", "getKey1", "getBKeys"],
    guardsOf factsNoLock m = (m == "set" || m == "getKey1" || m == "getBKeys") := by decide
example : locksOk factsNoLock Generated.dbCallers Generated.dbFuncLocks = false := by decide
end examples

end DyntplV.C06
