import DyntplV.Refine.HistInterp
/-!
# C18 — deferred functions and pooled objects are settled exactly once

Events of the model: `deferReg t` (a function was deferred through the context), `deferRan t`, `acquire t`
(an object was taken from a registered pool), `release t`.  `interp_mono` shows that below the top level —
whatever the tree: includes to any depth, loops, exit, errors — only registrations and acquisitions happen.
-/
namespace DyntplV.C18
open DyntplV

/-- While a tree is rendered (includes, loops, exit included) no deferred function runs and no pooled
    object is released; the pending lists grow by exactly what was registered / acquired, in order. -/
theorem tree_only_registers (reg : Registry) (f : Nat) (nodes : List Node) (s : St) :
    ∃ evs, (writeTree reg f nodes s).st.c.log = s.c.log ++ evs ∧
           (writeTree reg f nodes s).st.c.dfr = s.c.dfr ++ regTags evs ∧
           (writeTree reg f nodes s).st.c.ipv = s.c.ipv ++ acqTags evs ∧
           evs.all isRegOrAcq = true :=
  (interp_mono reg f).1 nodes s

/-- **Deferred functions run exactly once, in registration order, after the outermost template has finished
    producing output** — for a successful render (also one ended by `exit`) starting with an empty
    deferred list: the log is `before ++ (events of the render) ++ (ran t₁ … ran tₙ)` where `t₁ … tₙ` are
    exactly the tags registered during the render, in order; the events of the render contain no `ran`;
    the writer is the one the tree left (nothing is written afterwards); and the list is empty again. -/
theorem deferred_once_in_order_after_output (reg : Registry) (fuel : Nat) (nodes : List Node) (s : St)
    (h0 : s.c.dfr = []) (hok : (write reg fuel nodes s).err = none) :
    ∃ evs, (write reg fuel nodes s).st.c.log = s.c.log ++ evs ++ (regTags evs).map Event.deferRan ∧
           evs.all isRegOrAcq = true ∧
           (write reg fuel nodes s).st.c.dfr = [] ∧
           (write reg fuel nodes s).st.w = (writeTree reg fuel nodes s.topStart).st.w := by
  obtain ⟨evs, hl, hd, _, ha⟩ := tree_only_registers reg fuel nodes s.topStart
  unfold write writeBody Res.andThen at hok ⊢
  cases he : (writeTree reg fuel nodes s.topStart).err with
  | some e => rw [he] at hok; simp at hok; rw [he] at hok; cases hok
  | none =>
    simp only [he]
    refine ⟨evs, ?_, ha, rfl, rfl⟩
    have h0' : s.topStart.c.dfr = [] := h0
    have hl' : (writeTree reg fuel nodes s.topStart).st.c.log = s.c.log ++ evs := hl
    simp [ok, Ctx.runDeferred, hl', hd, h0']

/-- A failed render runs none of them (documented behaviour) and keeps them pending. -/
theorem failed_render_runs_none (reg : Registry) (fuel : Nat) (nodes : List Node) (s : St) (e : Err)
    (herr : (writeTree reg fuel nodes s.topStart).err = some e) :
    write reg fuel nodes s = writeTree reg fuel nodes s.topStart := by
  unfold write writeBody Res.andThen; simp [herr]

/-- **Pooled objects**: none is released during a render; `Reset` releases every object acquired since the
    last reset exactly once, in acquisition order, and forgets them. -/
theorem pool_release_once (reg : Registry) (fuel : Nat) (nodes : List Node) (s : St) (h0 : s.c.ipv = []) :
    ∃ evs, (writeTree reg fuel nodes s).st.c.log = s.c.log ++ evs ∧ evs.all isRegOrAcq = true ∧
      (writeTree reg fuel nodes s).st.c.reset.log = s.c.log ++ evs ++ (acqTags evs).map Event.release ∧
      (writeTree reg fuel nodes s).st.c.reset.ipv = [] := by
  obtain ⟨evs, hl, _, hi, ha⟩ := tree_only_registers reg fuel nodes s
  refine ⟨evs, hl, ha, ?_, rfl⟩
  simp [Ctx.reset, hl, hi, h0]

/-- A second render on the same context starts with an empty deferred list again, so nothing runs twice. -/
theorem second_render_starts_empty (reg : Registry) (fuel : Nat) (nodes : List Node) (s : St)
    (hok : (write reg fuel nodes s).err = none) : (write reg fuel nodes s).st.c.dfr = [] := by
  unfold write writeBody Res.andThen at hok ⊢
  cases he : (writeTree reg fuel nodes s.topStart).err with
  | some e => rw [he] at hok; simp at hok; rw [he] at hok; cases hok
  | none => simp [he, ok, Ctx.runDeferred]

/-! Non-vacuity: one include, a loop and an exit. -/
def regD : Registry := [(lit "inc", [.tpl (lit "v") [⟨lit "vdefer", [⟨[], lit "2", true, false⟩]⟩] false [] []])]
def mainD : List Node :=
  [.tpl (lit "v") [⟨lit "vdefer", [⟨[], lit "1", true, false⟩]⟩] false [] [], .incl [lit "inc"],
   .tpl (lit "v") [⟨lit "vacquire", [⟨[], lit "9", true, false⟩]⟩] false [] [], .exit, .raw (lit "never")]

example :
    (write regD 40 mainD { c := ({} : Ctx).setStatic (lit "v") (.str (lit "x")), w := {} }).st.c.log
      = [.deferReg 1, .deferReg 2, .acquire 9, .deferRan 1, .deferRan 2] := by decide

end DyntplV.C18
