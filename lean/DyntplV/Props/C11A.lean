import DyntplV.Parser.Args
/-!
# Property C11, the parser's side of "each modifier receives … its own arguments"

`extractArgs` (model `Args.extractArgsM`, tied to the real parser by the C12 argument stream) splits the text between
the parentheses of a modifier call.  Round trip: positional arguments written the usual way — separated by a comma
and a blank, each a non-empty run of bytes without blanks, commas, quotes, braces — come back one by one, in order,
each with its own text (`extract_join`).  No bound on the number of arguments or on their length.
-/
namespace DyntplV.C11A
open DyntplV DyntplV.Args

/-- Bytes with a meaning for `extractArgs`: blank, comma, the three quotes, braces. -/
def special (c : UInt8) : Bool := c == 32 || c == 44 || c == 34 || c == 39 || c == 96 || c == 123 || c == 125

/-- A plain argument: non-empty, no special byte. -/
def PlainArg (a : Bytes) : Prop := a ≠ [] ∧ ∀ c ∈ a, special c = false

/-- The arguments as written: `a, b, c`. -/
def joinArgs : List Bytes → Bytes
  | [] => []
  | [a] => a
  | a :: b :: rest => a ++ [44, 32] ++ joinArgs (b :: rest)

/-- What `extractArgs` must return for a positional argument. -/
def mk (a : Bytes) : Arg := { name := [], val := a, static := isStatic a }

/-! ### Library functions on plain arguments -/

theorem indexByte_none (x : Bytes) (c : UInt8) (h : ∀ d ∈ x, (d == c) = false) : indexByte x c = none := by
  induction x with
  | nil => rfl
  | cons d r ih =>
    have hd := h d (by simp)
    simp only [indexByte, hd, Bool.false_eq_true, if_false]
    rw [ih (fun e he => h e (by simp [he]))]; rfl

theorem indexByte_append (x y : Bytes) (c : UInt8) (h : ∀ d ∈ x, (d == c) = false) :
    indexByte (x ++ c :: y) c = some x.length := by
  induction x with
  | nil => simp [indexByte]
  | cons d r ih =>
    have hd := h d (by simp)
    simp only [List.cons_append, indexByte, hd, Bool.false_eq_true, if_false, List.length_cons]
    rw [ih (fun e he => h e (by simp [he]))]; rfl

theorem dropWhile_none {p : UInt8 → Bool} (x : Bytes) (h : ∀ d ∈ x, p d = false) : x.dropWhile p = x := by
  cases x with
  | nil => rfl
  | cons d r => simp [List.dropWhile, h d (by simp)]

theorem dropWhile_all_append {p : UInt8 → Bool} (l x : Bytes) (hl : ∀ d ∈ l, p d = true) :
    (l ++ x).dropWhile p = x.dropWhile p := by
  induction l with
  | nil => rfl
  | cons d r ih =>
    simp only [List.cons_append, List.dropWhile, hl d (by simp)]
    exact ih (fun e he => hl e (by simp [he]))

/-- `Trim` of blanks followed by a text that neither starts nor ends with a byte of the cut set. -/
theorem trim_lead (l x cut : Bytes) (hl : ∀ d ∈ l, cut.contains d = true)
    (hx : ∀ d ∈ x, cut.contains d = false) : trim (l ++ x) cut = x := by
  unfold trim
  rw [dropWhile_all_append l x hl, dropWhile_none x hx,
    dropWhile_none x.reverse (fun d hd => hx d (by simpa using hd)), List.reverse_reverse]

theorem trim_id (x cut : Bytes) (hx : ∀ d ∈ x, cut.contains d = false) : trim x cut = x := by
  simpa using trim_lead [] x cut (by simp) hx

theorem special_parts {c : UInt8} (h : special c = false) :
    c ≠ 32 ∧ c ≠ 44 ∧ c ≠ 34 ∧ c ≠ 39 ∧ c ≠ 96 ∧ c ≠ 123 ∧ c ≠ 125 := by
  simp only [special, Bool.or_eq_false_iff, beq_eq_false_iff_ne] at h
  exact ⟨h.1.1.1.1.1.1, h.1.1.1.1.1.2, h.1.1.1.1.2, h.1.1.1.2, h.1.1.2, h.1.2, h.2⟩

theorem special_space {c : UInt8} (h : special c = false) : space.contains c = false := by
  have := special_parts h
  simp [space, this.1]

theorem special_quotes {c : UInt8} (h : special c = false) : quotes.contains c = false := by
  have := special_parts h
  simp [quotes, this.2.2.1, this.2.2.2.1, this.2.2.2.2.1]

theorem special_comma {c : UInt8} (h : special c = false) : (c == 44) = false := by
  have := special_parts h
  simp [this.2.1]

theorem collect_plain (a : Bytes) (r : List Arg) (h : PlainArg a) : collect a false r = (a, r ++ [mk a]) := by
  obtain ⟨hne, hsp⟩ := h
  have htS : trim a space = a := trim_id _ _ (fun d hd => special_space (hsp d hd))
  have htQ : trim a quotes = a := trim_id _ _ (fun d hd => special_quotes (hsp d hd))
  have hdd : (a == ddquote) = false := by
    cases a with
    | nil => exact absurd rfl hne
    | cons c0 rest =>
      have hp0 := special_parts (hsp c0 (by simp))
      cases rest with
      | nil => simp [ddquote]
      | cons c1 r1 => simp [ddquote, hp0.2.2.1]
  simp only [collect, Bool.false_eq_true, if_false, htS, htQ, hdd, mk]

theorem closeCheck_plain (a : Bytes) (h : PlainArg a) : closeCheck true a false = some false := by
  obtain ⟨hne, hsp⟩ := h
  have hlen : 0 < a.length := List.length_pos_iff.mpr hne
  have hl0 : (a.length == 0) = false := by simp; omega
  have hnn : ¬ (((a.length : Int) - 1) < 0) := by omega
  have hidx : (((a.length : Int) - 1)).toNat = a.length - 1 := by omega
  simp only [closeCheck, Bool.true_and, hl0, Bool.false_eq_true, if_false, index, hnn, hidx]
  have hlt : a.length - 1 < a.length := by omega
  rw [List.getElem?_eq_getElem hlt]
  have hm : a[a.length - 1] ∈ a := List.getElem_mem hlt
  have := (special_parts (hsp _ hm)).2.2.2.2.2.2
  simp [this]

/-- The body of one loop iteration on a plain argument: it is appended, nothing else changes. -/
theorem argBody_plain (a : Bytes) (r : List Arg) (h : PlainArg a) :
    argBody true a false r = some (false, r ++ [mk a]) := by
  have hne := h.1
  cases ha : a with
  | nil => exact absurd ha hne
  | cons c0 rest =>
    have h' : PlainArg (c0 :: rest) := ha ▸ h
    have h0 := special_parts (h'.2 c0 (by simp))
    have hi : index (c0 :: rest) 0 = some c0 := by simp [index]
    have hs : stripBrace (c0 :: rest) false c0 = some (c0 :: rest, false) := by simp [stripBrace, h0.2.2.2.2.2.1]
    simp only [argBody, hi, hs, collect_plain _ r h', closeCheck_plain _ h']

theorem indexByte_lt (x : Bytes) (c : UInt8) (i : Nat) (h : indexByte x c = some i) : i < x.length := by
  induction x generalizing i with
  | nil => simp [indexByte] at h
  | cons d r ih =>
    simp only [indexByte] at h
    split at h
    · injection h with h; subst h; simp
    · cases hr : indexByte r c with
      | none => simp [hr] at h
      | some j => simp [hr] at h; subst h; have := ih j hr; simp; omega

/-- One iteration of the loop, told in terms of the text that is still unread. -/
theorem loop_step (g : Bool) (pre tail : Bytes) (f : Nat) (nested : Bool) (r : List Arg) :
    loop g (pre ++ tail) (f+1) pre.length nested r =
      match (if (trim (tail.take ((indexByte tail 44).getD tail.length)) space).length > 0
             then argBody g (trim (tail.take ((indexByte tail 44).getD tail.length)) space) nested r
             else some (nested, r)) with
      | none => .panic
      | some (nested, r) =>
        if (indexByte tail 44).getD tail.length ≥ tail.length then .ok r
        else loop g (pre ++ tail) f (pre.length + (indexByte tail 44).getD tail.length + 1) nested r := by
  have hpos : (indexByte tail 44).getD tail.length ≤ tail.length := by
    cases hi : indexByte tail 44 with
    | none => simp
    | some i => have := indexByte_lt _ _ _ hi; simp; omega
  generalize hp : (indexByte tail 44).getD tail.length = pos at hpos
  have h1 : sliceFrom (pre ++ tail) pre.length = some tail := by simp [sliceFrom]
  have h2 : (pre ++ tail).length - pre.length = tail.length := by simp
  have h3 : slice (pre ++ tail) pre.length (pre.length + pos) = some (tail.take pos) := by
    simp [slice, List.take_append, hpos]
  have h4 : (pre.length + pos ≥ (pre ++ tail).length) = (pos ≥ tail.length) := by simp
  rw [loop]
  simp only [h1, h2, hp, h3, h4]
  rfl

theorem space_mem {d : UInt8} (h : space.contains d = true) : d = 32 := by
  simpa [space] using h

/-- From any separator on: a blank (or nothing, at the very beginning), then the remaining arguments. -/
theorem extract_tail : ∀ (args : List Bytes) (a pre lead : Bytes) (f : Nat) (r : List Arg),
      (∀ d ∈ lead, space.contains d = true) → (∀ x ∈ a :: args, PlainArg x) → args.length < f →
      loop true (pre ++ (lead ++ joinArgs (a :: args))) f pre.length false r = .ok (r ++ (a :: args).map mk) := by
  intro args
  induction args with
  | nil =>
    intro a pre lead f r hl hp hf
    have ha : PlainArg a := hp a (by simp)
    obtain ⟨f', rfl⟩ : ∃ f', f = f' + 1 := ⟨f - 1, by simp at hf; omega⟩
    have hno : indexByte (lead ++ a) 44 = none := by
      apply indexByte_none
      intro d hd
      rcases List.mem_append.mp hd with h | h
      · rw [space_mem (hl d h)]; decide
      · exact special_comma (ha.2 d h)
    have htrim : trim (lead ++ a) space = a := trim_lead lead a space hl (fun d hd => special_space (ha.2 d hd))
    have hlen : a.length > 0 := List.length_pos_iff.mpr ha.1
    rw [show joinArgs [a] = a from rfl, loop_step]
    simp only [hno, Option.getD_none, List.take_length, htrim, hlen, if_true, argBody_plain a r ha,
      ge_iff_le, Nat.le_refl, List.map_cons, List.map_nil]
  | cons b rest ih =>
    intro a pre lead f r hl hp hf
    have ha : PlainArg a := hp a (by simp)
    obtain ⟨f', rfl⟩ : ∃ f', f = f' + 1 := ⟨f - 1, by simp at hf; omega⟩
    have hjoin : lead ++ joinArgs (a :: b :: rest) = (lead ++ a) ++ 44 :: ([32] ++ joinArgs (b :: rest)) := by
      simp [joinArgs]
    have hidx : indexByte ((lead ++ a) ++ 44 :: ([32] ++ joinArgs (b :: rest))) 44 = some (lead ++ a).length := by
      apply indexByte_append
      intro d hd
      rcases List.mem_append.mp hd with h | h
      · rw [space_mem (hl d h)]; decide
      · exact special_comma (ha.2 d h)
    have htrim : trim (lead ++ a) space = a := trim_lead lead a space hl (fun d hd => special_space (ha.2 d hd))
    have hlen : a.length > 0 := List.length_pos_iff.mpr ha.1
    have htake : ((lead ++ a) ++ 44 :: ([32] ++ joinArgs (b :: rest))).take (lead ++ a).length = lead ++ a :=
      List.take_left
    have hnot : ¬ ((lead ++ a).length ≥ ((lead ++ a) ++ 44 :: ([32] ++ joinArgs (b :: rest))).length) := by
      simp
    rw [hjoin, loop_step]
    simp only [hidx, Option.getD_some, htake, htrim, hlen, if_true, argBody_plain a r ha, hnot, if_false]
    -- the next iteration starts behind the comma
    have hraw : pre ++ ((lead ++ a) ++ 44 :: ([32] ++ joinArgs (b :: rest))) =
        (pre ++ (lead ++ a) ++ [44]) ++ ([32] ++ joinArgs (b :: rest)) := by simp
    have hoff : pre.length + (lead ++ a).length + 1 = (pre ++ (lead ++ a) ++ [44]).length := by simp; omega
    rw [hraw, hoff, ih b (pre ++ (lead ++ a) ++ [44]) [32] f' (r ++ [mk a]) (by simp [space])
      (fun x hx => hp x (by simp at hx ⊢; rcases hx with h | h; exact Or.inr (Or.inl h); exact Or.inr (Or.inr h)))
      (by simp at hf ⊢; omega)]
    simp

/-- **C11, arguments.** Any number of plain positional arguments, written `a, b, c`, are extracted one by one, in
    order, each with its own text. -/
theorem extract_join (args : List Bytes) (h : ∀ x ∈ args, PlainArg x) :
    extractArgsM (joinArgs args) = .ok (args.map mk) := by
  cases args with
  | nil => rfl
  | cons a rest =>
    have hne : (joinArgs (a :: rest)).length ≠ 0 := by
      have ha := (h a (by simp)).1
      cases rest with
      | nil => simpa [joinArgs] using ha
      | cons b r => simp [joinArgs]
    have hlen : rest.length < (joinArgs (a :: rest)).length + 1 := by
      clear hne h
      induction rest generalizing a with
      | nil => simp
      | cons b r ih => have := ih b; simp [joinArgs] at this ⊢; omega
    unfold extractArgsM extractArgsWith
    simp only [beq_iff_eq, hne, if_false]
    have := extract_tail rest a [] [] ((joinArgs (a :: rest)).length + 1) [] (by simp) h hlen
    simpa using this

/-! Non-vacuity: three arguments, the second a number (static), the others variable names. -/
example : extractArgsM (lit "w, 7, user.Name") =
    .ok [⟨[], lit "w", false⟩, ⟨[], lit "7", true⟩, ⟨[], lit "user.Name", false⟩] := by decide

end DyntplV.C11A
