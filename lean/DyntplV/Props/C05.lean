import DyntplV.Refine.FrameInterp
/-!
# C05 — a reset or pooled context behaves exactly like a new one

In the model `Ctx.reset` rebuilds every piece of per-render state (variables, escape-region flags, break
depth, include depth, pending error, deferred list, acquired objects) and keeps only the ghost event log
(to which it appends the release of every pooled object).  The interpreter never reads the log
(`interp_frame`), so rendering with a reset context is rendering with a new one — for EVERY context, i.e.
whatever history of assignments, failed, interrupted or half-finished renders produced it.
-/
namespace DyntplV.C05
open DyntplV

/-- `Reset` yields a new context apart from the ghost log. -/
theorem reset_is_new (c : Ctx) : c.reset = ({} : Ctx).pre (c.log ++ c.ipv.map Event.release) := by
  simp [Ctx.reset, Ctx.pre]

/-- Every observable component of a reset context is that of `NewCtx()`. -/
theorem reset_components (c : Ctx) :
    c.reset.vars = [] ∧ c.reset.chQB = false ∧ c.reset.bnd = [] ∧
    c.reset.brkD = 0 ∧ c.reset.incD = 0 ∧ c.reset.err = none ∧ c.reset.dfr = [] ∧ c.reset.ipv = [] := by
  simp [Ctx.reset]

/-- **Main theorem**: for every registry, template key, fuel, fault-free writer and EVERY context `c`,
    rendering with `c.Reset()` gives the same error and the same output as rendering with a new context;
    the resulting contexts agree up to the ghost log prefix. -/
theorem render_reset_eq_new (reg : Registry) (fuel : Nat) (key : Bytes) (c : Ctx) (w : Writer) (hw : w.failAt = none) :
    writeKey reg fuel key { c := c.reset, w := w } =
      (writeKey reg fuel key { c := {}, w := w }).pre (c.log ++ c.ipv.map Event.release) [] 0 := by
  have h := (writeKey_frame reg fuel key { c := {}, w := w } hw).2 (c.log ++ c.ipv.map Event.release) [] 0
  rw [← h, reset_is_new]
  congr 1
  simp [St.pre, Writer.pre]

theorem render_reset_same_output (reg : Registry) (fuel : Nat) (key : Bytes) (c : Ctx) (w : Writer) (hw : w.failAt = none) :
    (writeKey reg fuel key { c := c.reset, w := w }).err = (writeKey reg fuel key { c := {}, w := w }).err ∧
    (writeKey reg fuel key { c := c.reset, w := w }).st.w.out = (writeKey reg fuel key { c := {}, w := w }).st.w.out ∧
    (writeKey reg fuel key { c := c.reset, w := w }).st.c.vars = (writeKey reg fuel key { c := {}, w := w }).st.c.vars := by
  rw [render_reset_eq_new reg fuel key c w hw]
  simp [Res.pre, St.pre, Writer.pre, Ctx.pre]

/-- Pool round trip: `ReleaseCtx` resets, `AcquireCtx` hands out some previously released or new context:
    either way a context of the form `c.reset` or `{}`. -/
theorem pooled_is_reset_or_new (c : Ctx) : ∃ pl, c.reset = ({} : Ctx).pre pl := ⟨_, reset_is_new c⟩

/-- Every object taken from a pool is released exactly once by `Reset`, and none stays registered. -/
theorem reset_releases_once (c : Ctx) :
    c.reset.log = c.log ++ c.ipv.map Event.release ∧ c.reset.ipv = [] := by
  simp [Ctx.reset]

/-! Non-vacuity: a context left dirty by a render that stopped inside a region, in a loop, with a pending
    break depth and a pending error. -/
example :
    let dirty : Ctx := { vars := [(lit "x", .cntr 3)], bnd := [.json, .html], chQB := true, brkD := 2, incD := 1,
                         err := some .userFail, dfr := [7], ipv := [8], log := [.acquire 8] }
    (writeKey [(lit "t", [.raw (lit "a\"b"), .tpl (lit "x") [] false [] []])] 20 (lit "t") { c := dirty.reset, w := {} }).st.w.out
      = lit "a\"b" := by decide

end DyntplV.C05
