import DyntplV.Impl
import DyntplV.Props.C15
/-!
# C02 — conditions render exactly the branch their operands select

Statements about every tree / every context of the model.  `evalCond` is the whole decision of an
`if` (and of a ternary print, which the parser turns into the same node); `evalCase` one `case` of a switch.
-/
namespace DyntplV.C02
open DyntplV

/-! ### The branch taken is the one the condition selects, and only that one -/

/-- An `if` with both branches renders exactly the branch selected by its condition, from the context
    the evaluation left; the other branch is not touched. -/
theorem cond_selects (reg : Registry) (f : Nat) (cd : CondSpec) (t e : Node) (rest : List Node) (s : St)
    (c1 : Ctx) (r : Bool) (pend : Option Err) (h : evalCond s.c cd = (c1, .branch r pend)) :
    writeNode reg (f+1) (.cond cd (t :: e :: rest)) s = writeNode reg f (if r then t else e) { s with c := c1 } := by
  rw [writeNode]
  simp only [h]
  cases r <;> simp

/-- Without an else branch a false condition renders nothing (and passes on the pending error of the
    comparison, if any). -/
theorem cond_false_no_else (reg : Registry) (f : Nat) (cd : CondSpec) (t : Node) (s : St)
    (c1 : Ctx) (pend : Option Err) (h : evalCond s.c cd = (c1, .branch false pend)) :
    writeNode reg (f+1) (.cond cd [t]) s = ⟨{ s with c := c1 }, pend⟩ := by
  rw [writeNode]
  simp [h]

/-- The if-ok node (`{% if v, ok := helper(..); ok %}`) renders exactly the branch selected — and RETURNS
    ITS RESULT: the error of the branch (a failed write, exit, break, …) is the error of the node. (The
    repaired defect 89215a5: the node used to return nil whatever its branch returned.) -/
theorem condOK_selects (reg : Registry) (f : Nat) (k : CondOKSpec) (t e : Node) (rest : List Node) (s : St)
    (c1 : Ctx) (r : Bool) (pend : Option Err) (hh : k.cd.hlp ≠ [])
    (h : evalCondOK s.c k = (c1, .branch r pend)) :
    writeNode reg (f+1) (.condOK k (t :: e :: rest)) s = writeNode reg f (if r then t else e) { s with c := c1 } := by
  rw [writeNode]
  have : k.cd.hlp.isEmpty = false := by cases hk : k.cd.hlp <;> simp_all
  simp only [this, Bool.false_eq_true, if_false, h]
  cases r <;> simp

/-- What the helper yields is assigned before the branch is chosen: inside either branch (and after the
    block) the value variable reads what the helper returned and the flag variable reads the ok flag. -/
theorem condOK_assigns (c : Ctx) (k : CondOKSpec) (v : Val) (okv : Bool) (hne : (k.varOK == k.varV) = false) :
    getVar (condOKAssign c k v okv).vars k.varOK = some (.ins (.bool okv) .static) ∧
    (∃ kind, getVar (condOKAssign c k v okv).vars k.varV = some (.ins v kind)) := by
  unfold condOKAssign
  constructor
  · exact C15.get_set _ _ _
  · refine ⟨(if k.ins == lit "static" then InsKind.static else if k.ins == lit "strings" then InsKind.strings else InsKind.obj), ?_⟩
    simp only [Ctx.setStatic, Ctx.set]
    rw [C15.get_set_other _ _ _ _ hne]
    exact C15.get_set _ _ _

/-- An evaluation error that stops the node (unknown helper, …) renders nothing. -/
theorem cond_stop (reg : Registry) (f : Nat) (cd : CondSpec) (child : List Node) (s : St)
    (c1 : Ctx) (e : Err) (h : evalCond s.c cd = (c1, .stop e)) :
    writeNode reg (f+1) (.cond cd child) s = fail { s with c := c1 } e := by
  rw [writeNode]
  simp [h]

/-! ### The decision depends on the operands' current values only -/

/-- Two contexts carry the same data when they agree on the variables and on the square-bracket mode
    (everything `get` and `cmp` read). They may differ in `err`, flags of escape regions, break depth,
    deferred list, log — whatever earlier nodes and earlier conditions left. -/
def SameData (c c' : Ctx) : Prop := c.vars = c'.vars ∧ c.chQB = c'.chQB

theorem get_same {c c' : Ctx} (h : SameData c c') (p : Bytes) :
    (c.get p).1 = (c'.get p).1 ∧ SameData (c.get p).2 (c'.get p).2 ∧ (c.get p).2.err = (c'.get p).2.err := by
  obtain ⟨hv, hq⟩ := h
  unfold Ctx.get
  rw [hv, hq]
  exact ⟨rfl, ⟨rfl, rfl⟩, rfl⟩

theorem cmp_same {c c' : Ctx} (h : SameData c c') (p : Bytes) (o : Op) (r : Bytes) :
    (c.cmp p o r).1 = (c'.cmp p o r).1 ∧ SameData (c.cmp p o r).2 (c'.cmp p o r).2 ∧ (c.cmp p o r).2.err = (c'.cmp p o r).2.err := by
  obtain ⟨hv, hq⟩ := h
  unfold Ctx.cmp
  rw [hv, hq]
  exact ⟨rfl, ⟨rfl, rfl⟩, rfl⟩

theorem cmpLC_same {c c' : Ctx} (h : SameData c c') (p : Bytes) (o : Op) (r : Bytes) :
    (c.cmpLC p o r).1 = (c'.cmpLC p o r).1 := by
  obtain ⟨hv, hq⟩ := h
  unfold Ctx.cmpLC
  rw [hv, hq]

/-- **History independence of a comparison**: the result of `nodeCmp` (literal right, literal left,
    or two variables) is the same in any two contexts that carry the same data. -/
theorem nodeCmp_same {c c' : Ctx} (h : SameData c c') (l r : Bytes) (sl sr : Bool) (o : Op) :
    (nodeCmp c l r sl sr o).1 = (nodeCmp c' l r sl sr o).1 ∧
    (nodeCmp c l r sl sr o).2.1 = (nodeCmp c' l r sl sr o).2.1 := by
  unfold nodeCmp
  by_cases h1 : (sl && sr) = true
  · simp [h1]
  · simp only [h1, Bool.false_eq_true, if_false]
    by_cases h2 : sr = true
    · simp only [h2, if_true]
      exact ⟨(cmp_same h l o r).1, trivial⟩
    · simp only [h2, Bool.false_eq_true, if_false]
      by_cases h3 : sl = true
      · simp only [h3, if_true]
        exact ⟨(cmp_same h r o.swap l).1, trivial⟩
      · simp only [h3, Bool.false_eq_true, if_false]
        obtain ⟨g1, g2, g3⟩ := get_same h r
        generalize hg : c.get r = gr at g1 g2 g3
        generalize hg' : c'.get r = gr' at g1 g2 g3
        obtain ⟨rv, c1⟩ := gr
        obtain ⟨rv', c1'⟩ := gr'
        simp only at g1 g2 g3
        subst g1
        simp only
        rw [g3]
        cases c1'.err with
        | some e => exact ⟨rfl, rfl⟩
        | none =>
          simp only
          cases rv.text with
          | none => exact ⟨rfl, rfl⟩
          | some t => exact ⟨(cmp_same g2 l o t).1, rfl⟩

/-! ### Literal on the left: the operator is mirrored correctly -/

theorem swap_int (o : Op) (a b : Int) : cmpOrd o (compare a b) = cmpOrd o.swap (compare b a) := by
  have hab : compare a b = (compare b a).swap := by rw [Int.compare_swap]
  rw [hab]
  cases compare b a <;> cases o <;> rfl

theorem swap_involutive (o : Op) : o.swap.swap = o := by cases o <;> rfl

/-- `lit op var` is evaluated as `var (swap op) lit`: for integers this is the same truth value as
    comparing the literal with the variable's value under the original operator. -/
theorem literal_left_int (a : Int) (o : Op) (litText : Bytes) (r : Int) (hr : parseInt64Lit litText = some r) :
    (Val.int a).cmpLit o.swap litText = some (cmpOrd o (compare r a)) := by
  simp [Val.cmpLit, hr, swap_int o r a]

/-! ### Switch: first matching case wins, otherwise the default, otherwise nothing -/

theorem switch_first_match (reg : Registry) (f : Nat) (arg : Bytes) (all rest : List Node) (k : CaseSpec) (body : List Node)
    (s : St) (c1 : Ctx) (pend : Option Err) (h : evalCase s.c arg k = (c1, .branch true pend)) :
    switchNode reg (f+1) arg all (.case_ k body :: rest) s = writeNode reg f (.case_ k body) { s with c := c1 } := by
  rw [switchNode]
  simp [Node.asCase, h]

theorem switch_skip_nonmatching (reg : Registry) (f : Nat) (arg : Bytes) (all rest : List Node) (k : CaseSpec) (body : List Node)
    (s : St) (c1 : Ctx) (pend : Option Err) (h : evalCase s.c arg k = (c1, .branch false pend)) :
    switchNode reg (f+1) arg all (.case_ k body :: rest) s = switchNode reg f arg all rest { s with c := c1 } := by
  rw [switchNode]
  simp [Node.asCase, h]

theorem switch_default (reg : Registry) (f : Nat) (arg : Bytes) (all : List Node) (s : St) (d : Node)
    (h : all.find? Node.isDefault = some d) :
    switchNode reg (f+1) arg all [] s = writeNode reg f d s := by
  rw [switchNode]; simp [h]

theorem switch_nothing (reg : Registry) (f : Nat) (arg : Bytes) (all : List Node) (s : St)
    (h : all.find? Node.isDefault = none) :
    switchNode reg (f+1) arg all [] s = ok s := by
  rw [switchNode]; simp [h]

/-! Non-vacuity: a sticky earlier result cannot change the outcome. -/
example :
    let c : Ctx := ({} : Ctx).setStatic (lit "x") (.int 5)
    (nodeCmp c (lit "x") (lit "5") false true .eq).1 = true ∧
    (nodeCmp { c with err := some .userFail, brkD := 3, bnd := [.json] } (lit "x") (lit "5") false true .eq).1 = true ∧
    (nodeCmp c (lit "nope.f") (lit "5") false true .eq).1 = false := by decide


/-- **A helper condition does not depend on an error left by an earlier node** (repair: with literal arguments only —
    or none — `ctx.Err` was never reset and the render failed with the stale error). -/
theorem helper_cond_ignores_stale_error (c : Ctx) (cd : CondSpec) (e : Option Err)
    (hh : (!cd.hlp.isEmpty && cd.lc == 0) = true) :
    evalCond { c with err := e } cd = evalCond { c with err := none } cd := by
  unfold evalCond
  simp only [hh, if_true, Ctx.clrErr]

theorem helper_case_ignores_stale_error (c : Ctx) (k : CaseSpec) (e : Option Err) (hh : k.hlp.isEmpty = false) :
    evalCase { c with err := e } [] k = evalCase { c with err := none } [] k := by
  unfold evalCase
  simp [hh, Ctx.clrErr]

end DyntplV.C02
