import DyntplV.Esc.Url
/-!
# C09 — URL encoding emits only safe characters and decodes to the original bytes

Property theorems only.  `encode` is one pass of `modURLEncode`; the iteration loop is `encodeN`.
-/
namespace DyntplV.C09
open DyntplV DyntplV.Url

/-! Byte facts (all 256 values, kernel-decided). -/
theorem unres_not_special : ∀ c : UInt8, isUnres c = true → (c == 37) = false ∧ (c == 43) = false := by
  apply u8_forall; decide +kernel

theorem hex_roundtrip : ∀ c : UInt8,
    unhex (hexUp (c >>> 4)) = some (c >>> 4) ∧ unhex (hexUp (c &&& 15)) = some (c &&& 15) ∧
    (c >>> 4) * 16 + (c &&& 15) = c := by
  apply u8_forall; decide +kernel

theorem hexUp_isUpHex : ∀ c : UInt8, isUpHex (hexUp (c >>> 4)) = true ∧ isUpHex (hexUp (c &&& 15)) = true := by
  apply u8_forall; decide +kernel

/-- Step lemma: the decoder undoes one encoded byte, whatever follows. -/
theorem decUnit_encByte (c : UInt8) (rest : Bytes) : decUnit (encByte c ++ rest) = some ([c], rest) := by
  unfold encByte
  split
  · next h =>
    have := unres_not_special c h
    simp [decUnit, this.1, this.2]
  · split
    · next _ h2 =>
      have : c = 32 := by simpa using h2
      subst this; rfl
    · have := hex_roundtrip c
      simp [decUnit, this.1, this.2.1, this.2.2]

theorem encByte_pos (c : UInt8) : 0 < (encByte c).length := by
  unfold encByte; split
  · simp
  · split <;> simp

/-- **Round trip**: query-string decoding of the encoding returns exactly the original bytes,
    for every byte string (including invalid UTF-8). -/
theorem url_roundtrip (bs : Bytes) : queryUnescape (encode bs) = some bs := by
  have := decLoop_roundtrip decUnit encByte (fun c => [c]) decUnit_encByte encByte_pos bs
    (encode bs).length (Nat.le_refl _)
  simpa [queryUnescape, encode] using this

/-- **Alphabet**: the output is a sequence of unreserved bytes, `+`, and `%XX` with upper-case hex. -/
theorem wf_encByte : ∀ c : UInt8, (encByte c).foldl wfStep (some 0) = some 0 := by
  apply u8_forall; decide +kernel

theorem url_alphabet (bs : Bytes) : wellFormed (encode bs) = true := by
  have : (encode bs).foldl wfStep (some 0) = some 0 := by
    induction bs with
    | nil => rfl
    | cons c bs ih =>
      simp only [encode, List.flatMap_cons, List.foldl_append, wf_encByte] at ih ⊢
      exact ih
  simp [wellFormed, this]

/-- Repeated letters: `n` passes are the `n`-fold composition, hence `n` decodings invert them. -/
def unescapeN : Nat → Bytes → Option Bytes
  | 0, b => some b
  | n+1, b => (unescapeN n b).bind queryUnescape

theorem url_iter_roundtrip (n : Nat) (bs : Bytes) : unescapeN n (encodeN n bs) = some bs := by
  induction n generalizing bs with
  | zero => rfl
  | succ n ih =>
    show (unescapeN n (encodeN n (encode bs))).bind queryUnescape = some bs
    rw [ih (encode bs)]
    exact url_roundtrip bs

theorem url_iter_alphabet (n : Nat) (bs : Bytes) (h : 0 < n) : wellFormed (encodeN n bs) = true := by
  have hs : ∀ (m : Nat) (b : Bytes), encodeN (m+1) b = encode (encodeN m b) := by
    intro m; induction m with
    | zero => intro b; rfl
    | succ m ihm => intro b; show encodeN (m+1) (encode b) = _; rw [ihm]; rfl
  cases n with
  | zero => omega
  | succ n => rw [hs]; exact url_alphabet _

/-- **Link escape**: no space; no double quote that is not preceded by a backslash. -/
theorem link_byte_ok : ∀ c : UInt8, ∀ p : Bool, ((linkByte c).foldl linkStep (some p)).isSome = true := by
  apply u8_forall; decide +kernel

theorem link_safe_aux (bs : Bytes) : ∀ p : Bool, ((linkEscape bs).foldl linkStep (some p)).isSome = true := by
  induction bs with
  | nil => intro _; rfl
  | cons c bs ih =>
    intro p
    simp only [linkEscape, List.flatMap_cons, List.foldl_append]
    have h := link_byte_ok c p
    cases hq : (linkByte c).foldl linkStep (some p) with
    | none => simp [hq] at h
    | some q => exact ih q

theorem link_safe (bs : Bytes) : linkSafe (linkEscape bs) = true := link_safe_aux bs false

/-! Non-vacuity / sanity: concrete instances. -/
example : encode [0x20, 0x41, 0xFF, 0x25] = lit "+A%FF%25" := by decide
example : queryUnescape (lit "%zz") = none := by decide
example : queryUnescape (lit "a%2fb+c") = some (lit "a/b c") := by decide
example : linkEscape (lit "a \"b") = lit "a+\\\"b" := by decide

end DyntplV.C09
