import DyntplV.DbLemmas
/-!
# Property C04 with FREE pairing of IDs and keys

`Props/C04.lean` characterises every lookup after a history whose key↔ID pairing is consistent.  The theorems here
need NO hypothesis on the pairing: the same ID may be registered together with different keys and the other way
round, names may be registered alone after having been registered together, one tree may be registered under
several names.

* `latest_by_key` / `latest_by_id`: right after a registration, a lookup by either name it gave finds the tree it
  registered — whatever the history before (C04 "uses the template most recently registered under that name"
  for the registration that has just returned; C06 "after a re-registration has returned, the new version").
* `new_names_keep_others`: a registration whose names are all new takes a slot of its own: every other name keeps
  the template it had (also when the SAME tree is already registered under another name).
* `other_slot_keeps`: in general, a name whose slot is not the one that is written keeps its template.

Invariant `WF` (indexes in range, the "no key" / "no id" names are never indexed) holds for every history.
-/
namespace DyntplV.C04F
open DyntplV DyntplV.Reg DyntplV.Reg.Db

structure WF (db : Db) : Prop where
  keyRange : ∀ k s, alookup k db.idxKey = some s → s < db.tpl.length
  idRange : ∀ i s, alookup i db.idxID = some s → s < db.tpl.length
  noKeyAbsent : alookup noKey db.idxKey = none
  negAbsent : ∀ i : Int, i < 0 → alookup i db.idxID = none

theorem wf_empty : WF Db.empty :=
  ⟨fun _ _ h => by simp [Db.empty, alookup] at h, fun _ _ h => by simp [Db.empty, alookup] at h, rfl, fun _ _ => rfl⟩

theorem set_length_gt (db : Db) (id : Int) (key : Bytes) (t : Tree) :
    db.setIdx id key < (db.set id key t).tpl.length ∧ db.tpl.length ≤ (db.set id key t).tpl.length := by
  rw [set_tpl_length]
  have := setIdx_le db id key
  split <;> omega

theorem wf_set {db : Db} (h : WF db) (id : Int) (key : Bytes) (t : Tree) : WF (db.set id key t) := by
  have hl := set_length_gt db id key t
  refine ⟨?_, ?_, ?_, ?_⟩
  · intro k s hs
    rw [set_idxKey] at hs
    split at hs
    · injection hs with hs; omega
    · have := h.keyRange k s hs; omega
  · intro i s hs
    rw [set_idxID] at hs
    split at hs
    · injection hs with hs; omega
    · have := h.idRange i s hs; omega
  · rw [set_idxKey]
    split
    · next hc => exact absurd hc.2.symm hc.1
    · exact h.noKeyAbsent
  · intro i hi
    rw [set_idxID]
    split
    · next hc => omega
    · exact h.negAbsent i hi

theorem wf_foldl (l : List Op) : ∀ db, WF db → WF (l.foldl (fun db o => db.set o.id o.key o.tree) db) := by
  induction l with
  | nil => intro db h; exact h
  | cons o r ih => intro db h; exact ih _ (wf_set h o.id o.key o.tree)

/-- Every registry that a history of registrations can produce is well formed — no hypothesis on the history. -/
theorem wf_run (hist : List Op) : WF (run hist) := wf_foldl hist _ wf_empty

/-- Right after `set id key t`, a lookup by that key finds the new slot. -/
theorem set_getKey (db : Db) (id : Int) (key : Bytes) (t : Tree) (hk : key ≠ noKey) :
    (db.set id key t).getKey key = some ⟨id, key, t⟩ := by
  unfold getKey Db.get getIdxLF
  rw [set_idxKey]
  simp only [hk, ne_eq, not_false_eq_true, and_self, if_true]
  rw [set_tpl_get]; simp

/-- Right after `set id key t`, a lookup by that ID finds the new slot. -/
theorem set_getID {db : Db} (h : WF db) (id : Int) (key : Bytes) (t : Tree) (hi : 0 ≤ id) :
    (db.set id key t).getID id = some ⟨id, key, t⟩ := by
  unfold getID Db.get getIdxLF
  rw [(wf_set h id key t).noKeyAbsent, set_idxID]
  simp only [hi, and_self, if_true]
  rw [set_tpl_get]; simp

theorem run_snoc (hist : List Op) (o : Op) : run (hist ++ [o]) = (run hist).set o.id o.key o.tree := by
  unfold run; rw [List.foldl_append]; rfl

/-- **C04 / C06, free pairing.** After ANY history, the registration that has just returned is what a lookup by its
    key finds. -/
theorem latest_by_key (hist : List Op) (o : Op) (hk : o.key ≠ noKey) :
    ((run (hist ++ [o])).getKey o.key).map (·.tree) = some o.tree := by
  rw [run_snoc, set_getKey _ _ _ _ hk]; rfl

/-- … and what a lookup by its ID finds. -/
theorem latest_by_id (hist : List Op) (o : Op) (hi : 0 ≤ o.id) :
    ((run (hist ++ [o])).getID o.id).map (·.tree) = some o.tree := by
  rw [run_snoc, set_getID (wf_run hist) _ _ _ hi]; rfl

/-- A key whose slot is not the written one keeps its slot's contents. -/
theorem other_slot_keeps_key {db : Db} (h : WF db) (id : Int) (key : Bytes) (t : Tree) (k : Bytes)
    (hk : k ≠ key) (hs : ∀ s, alookup k db.idxKey = some s → s ≠ db.setIdx id key) :
    (db.set id key t).getKey k = db.getKey k := by
  unfold getKey Db.get getIdxLF
  have hkk : ¬ (key ≠ noKey ∧ k = key) := fun c => hk c.2
  rw [set_idxKey]
  simp only [hkk, if_false]
  cases hl : alookup k db.idxKey with
  | some s =>
    simp only []
    rw [set_tpl_get]
    simp [hs s hl]
  | none =>
    simp only []
    rw [(wf_set h id key t).negAbsent (-1) (by omega), h.negAbsent (-1) (by omega)]

/-- An ID whose slot is not the written one keeps its slot's contents. -/
theorem other_slot_keeps_id {db : Db} (h : WF db) (id : Int) (key : Bytes) (t : Tree) (i : Int)
    (hi : i ≠ id) (hs : ∀ s, alookup i db.idxID = some s → s ≠ db.setIdx id key) :
    (db.set id key t).getID i = db.getID i := by
  unfold getID Db.get getIdxLF
  rw [(wf_set h id key t).noKeyAbsent, h.noKeyAbsent]
  have hii : ¬ (0 ≤ id ∧ i = id) := fun c => hi c.2
  simp only []
  rw [set_idxID]
  simp only [hii, if_false]
  cases hl : alookup i db.idxID with
  | some s =>
    simp only []
    rw [set_tpl_get]
    simp [hs s hl]
  | none => rfl

/-- A registration whose names are all NEW appends a slot. -/
theorem new_names_setIdx {db : Db} (id : Int) (key : Bytes)
    (hk : alookup key db.idxKey = none) (hi : alookup id db.idxID = none) :
    db.setIdx id key = db.tpl.length := by
  unfold setIdx slotIdx getIdxLF
  simp [hk, hi]

/-- **C04, free pairing; trees under several names.** A registration under names that were not registered before
    changes no other name's template — also when the tree it registers is already registered elsewhere. -/
theorem new_names_keep_others {db : Db} (h : WF db) (id : Int) (key : Bytes) (t : Tree)
    (hk : alookup key db.idxKey = none) (hi : alookup id db.idxID = none) :
    (∀ k, k ≠ key → (db.set id key t).getKey k = db.getKey k) ∧
    (∀ i, i ≠ id → (db.set id key t).getID i = db.getID i) := by
  have hidx := new_names_setIdx id key hk hi
  refine ⟨fun k hkk => other_slot_keeps_key h id key t k hkk ?_, fun i hii => other_slot_keeps_id h id key t i hii ?_⟩
  · intro s hs; have := h.keyRange k s hs; omega
  · intro s hs; have := h.idRange i s hs; omega

/-! ### The hypotheses are met: the history of the sixth round's seeded change C06-r6m2 -/

def kA : Bytes := lit "a"
def kC : Bytes := lit "c"
def hist4 : List Op := [⟨7, kA, ⟨1, 1⟩⟩, ⟨-1, kC, ⟨2, 2⟩⟩, ⟨7, kC, ⟨3, 3⟩⟩]

/-- `RegisterTpl(7,"a",v1); RegisterTplKey("c",v2); RegisterTpl(7,"c",v3); RegisterTpl(7,"a",v4)`: the pairing is
    NOT consistent (ID 7 goes with "a" and with "c"), yet by ID, by "a" and by "c" the latest registrations are found. -/
example : ¬ Consistent (hist4 ++ [⟨7, kA, ⟨4, 4⟩⟩]) := by decide
example : ((run (hist4 ++ [⟨7, kA, ⟨4, 4⟩⟩])).getID 7).map (·.tree) = some ⟨4, 4⟩ := latest_by_id hist4 _ (by decide)
example : ((run (hist4 ++ [⟨7, kA, ⟨4, 4⟩⟩])).getKey kC).map (·.tree) = some ⟨3, 3⟩ := by decide

end DyntplV.C04F
