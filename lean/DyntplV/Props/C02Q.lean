import DyntplV.Props.C15
import DyntplV.Props.Decimal
/-!
# Indexed operands inside counter loops: `a[i].f` is `a.<value of i>.f`

`Ctx.replaceQB` (model `replaceQB`) substitutes the text of the index variable for the bracketed part of a path.
`replaceQB_form` gives its closed form for every path with one pair of brackets; `replaceQB_counter` and
`cmp_indexed_by_counter` specialise it to the situation of a counter loop: in the iteration in which the counter `i`
holds `n`, a comparison whose LEFT operand is written `pre[i]post` compares the value at `pre.<decimal n>post`
(property C02 "whether the operands are literals or variables"; repair fe26bba made `Ctx.cmp` do this).
-/
namespace DyntplV.C02Q
open DyntplV

theorem indexOf_none (c : UInt8) (x : Bytes) (h : ∀ d ∈ x, (d == c) = false) : indexOf c x = none := by
  induction x with
  | nil => rfl
  | cons d r ih =>
    simp only [indexOf, h d (by simp), Bool.false_eq_true, if_false, ih (fun e he => h e (by simp [he]))]
    rfl

theorem indexOf_append (c : UInt8) (x y : Bytes) (h : ∀ d ∈ x, (d == c) = false) :
    indexOf c (x ++ c :: y) = some x.length := by
  induction x with
  | nil => simp [indexOf]
  | cons d r ih =>
    simp only [List.cons_append, indexOf, h d (by simp), Bool.false_eq_true, if_false,
      ih (fun e he => h e (by simp [he])), List.length_cons]
    rfl

/-- **Closed form of the substitution** for a path `pre[inner]post` whose first `[` and first `]` are these. -/
theorem replaceQB_form (vars : Vars) (pre inner post : Bytes)
    (h1 : ∀ d ∈ pre, (d == 91) = false) (h2 : ∀ d ∈ pre, (d == 93) = false) (h3 : ∀ d ∈ inner, (d == 93) = false)
    (hpost : indexOf 91 post = none) :
    replaceQB vars (pre ++ 91 :: (inner ++ 93 :: post)) =
      (match getChunks vars (splitDots inner) with
       | .nil => some (pre ++ [46] ++ post)
       | v => match v.text with
         | some t => some (pre ++ [46] ++ t ++ post)
         | none => none) := by
  have hl : indexOf 91 (pre ++ 91 :: (inner ++ 93 :: post)) = some pre.length := indexOf_append 91 pre _ h1
  have hr : indexOf 93 (pre ++ 91 :: (inner ++ 93 :: post)) = some (pre.length + 1 + inner.length) := by
    have : pre ++ 91 :: (inner ++ 93 :: post) = (pre ++ 91 :: inner) ++ 93 :: post := by simp
    rw [this, indexOf_append 93 (pre ++ 91 :: inner) post]
    · simp; omega
    · intro d hd
      simp only [List.mem_append, List.mem_cons] at hd
      rcases hd with hd | rfl | hd
      · exact h2 d hd
      · decide
      · exact h3 d hd
  have hlt : pre.length < pre.length + 1 + inner.length := by omega
  have hinner : ((pre ++ 91 :: (inner ++ 93 :: post)).drop (pre.length + 1)).take (pre.length + 1 + inner.length - pre.length - 1) = inner := by
    have : (pre ++ 91 :: (inner ++ 93 :: post)).drop (pre.length + 1) = inner ++ 93 :: post := by
      rw [show pre ++ 91 :: (inner ++ 93 :: post) = (pre ++ [91]) ++ (inner ++ 93 :: post) by simp]
      rw [show pre.length + 1 = (pre ++ [91]).length by simp, List.drop_left]
    rw [this]
    have hn : pre.length + 1 + inner.length - pre.length - 1 = inner.length := by omega
    rw [hn, List.take_left]
  have htake : (pre ++ 91 :: (inner ++ 93 :: post)).take pre.length = pre := List.take_left
  have hdrop : (pre ++ 91 :: (inner ++ 93 :: post)).drop (pre.length + 1 + inner.length + 1) = post := by
    rw [show pre ++ 91 :: (inner ++ 93 :: post) = (pre ++ 91 :: inner ++ [93]) ++ post by simp]
    rw [show pre.length + 1 + inner.length + 1 = (pre ++ 91 :: inner ++ [93]).length by simp; omega, List.drop_left]
  unfold replaceQB
  have hlen : (pre ++ 91 :: (inner ++ 93 :: post)).length = (pre.length + inner.length + post.length + 1) + 1 := by
    simp; omega
  rw [hlen, replaceQBF]
  simp only [hl, hr, hlt, if_true, hinner, htake, hdrop, replaceQBF_plain _ vars post hpost, Option.map_some]
  cases getChunks vars (splitDots inner) <;> first | rfl | (simp only []; split <;> rfl)

/-- **Every pair of brackets, from left to right** (repair: only the first pair used to be substituted, `m[i][j]`
    reached the inspector as `m.0[j]`). The first pair is replaced by the text of its index; what follows it — the
    ORIGINAL text, not what was put in — is substituted in the same way. -/
theorem replaceQB_step (vars : Vars) (pre inner post : Bytes)
    (h1 : ∀ d ∈ pre, (d == 91) = false) (h2 : ∀ d ∈ pre, (d == 93) = false) (h3 : ∀ d ∈ inner, (d == 93) = false) :
    replaceQB vars (pre ++ 91 :: (inner ++ 93 :: post)) =
      (match getChunks vars (splitDots inner) with
       | .nil => (replaceQB vars post).map (fun tl => pre ++ [46] ++ tl)
       | v => match v.text with
         | some t => (replaceQB vars post).map (fun tl => pre ++ [46] ++ t ++ tl)
         | none => none) := by
  have hl : indexOf 91 (pre ++ 91 :: (inner ++ 93 :: post)) = some pre.length := indexOf_append 91 pre _ h1
  have hr : indexOf 93 (pre ++ 91 :: (inner ++ 93 :: post)) = some (pre.length + 1 + inner.length) := by
    have : pre ++ 91 :: (inner ++ 93 :: post) = (pre ++ 91 :: inner) ++ 93 :: post := by simp
    rw [this, indexOf_append 93 (pre ++ 91 :: inner) post]
    · simp; omega
    · intro d hd
      simp only [List.mem_append, List.mem_cons] at hd
      rcases hd with hd | rfl | hd
      · exact h2 d hd
      · decide
      · exact h3 d hd
  have hlt : pre.length < pre.length + 1 + inner.length := by omega
  have hinner : ((pre ++ 91 :: (inner ++ 93 :: post)).drop (pre.length + 1)).take (pre.length + 1 + inner.length - pre.length - 1) = inner := by
    have : (pre ++ 91 :: (inner ++ 93 :: post)).drop (pre.length + 1) = inner ++ 93 :: post := by
      rw [show pre ++ 91 :: (inner ++ 93 :: post) = (pre ++ [91]) ++ (inner ++ 93 :: post) by simp]
      rw [show pre.length + 1 = (pre ++ [91]).length by simp, List.drop_left]
    rw [this]
    have hn : pre.length + 1 + inner.length - pre.length - 1 = inner.length := by omega
    rw [hn, List.take_left]
  have htake : (pre ++ 91 :: (inner ++ 93 :: post)).take pre.length = pre := List.take_left
  have hdrop : (pre ++ 91 :: (inner ++ 93 :: post)).drop (pre.length + 1 + inner.length + 1) = post := by
    rw [show pre ++ 91 :: (inner ++ 93 :: post) = (pre ++ 91 :: inner ++ [93]) ++ post by simp]
    rw [show pre.length + 1 + inner.length + 1 = (pre ++ 91 :: inner ++ [93]).length by simp; omega, List.drop_left]
  have hlen : (pre ++ 91 :: (inner ++ 93 :: post)).length = (pre.length + inner.length + post.length + 1) + 1 := by
    simp; omega
  have hfuel : replaceQBF (pre.length + inner.length + post.length + 1) vars post = replaceQB vars post :=
    replaceQBF_fuel vars _ post (by omega)
  unfold replaceQB at *
  rw [hlen, replaceQBF]
  simp only [hl, hr, hlt, if_true, hinner, htake, hdrop, hfuel]
  cases getChunks vars (splitDots inner) <;> rfl

/-- **Two indexes.** Inside two nested counter loops whose counters `i`, `j` hold `n`, `m`: `pre[i]mid[j]post` becomes
    `pre.<n>mid.<m>post`. -/
theorem replaceQB_two_counters (vars : Vars) (pre mid post i j : Bytes) (n m : Int)
    (h1 : ∀ d ∈ pre, (d == 91) = false) (h2 : ∀ d ∈ pre, (d == 93) = false) (h3 : ∀ d ∈ i, (d == 93) = false)
    (g1 : ∀ d ∈ mid, (d == 91) = false) (g2 : ∀ d ∈ mid, (d == 93) = false) (g3 : ∀ d ∈ j, (d == 93) = false)
    (hi : splitDots i = [i]) (hvi : getVar vars i = some (.ins (.int n) .static))
    (hj : splitDots j = [j]) (hvj : getVar vars j = some (.ins (.int m) .static)) (hpost : indexOf 91 post = none) :
    replaceQB vars (pre ++ 91 :: (i ++ 93 :: (mid ++ 91 :: (j ++ 93 :: post)))) =
      some (pre ++ [46] ++ decInt n ++ (mid ++ [46] ++ decInt m ++ post)) := by
  rw [replaceQB_step vars pre i _ h1 h2 h3, hi, replaceQB_form vars mid j post g1 g2 g3 hpost, hj]
  simp [getChunks, hvi, hvj, insGet, Val.text]

/-- Inside a counter loop whose counter `i` holds `n`: `pre[i]post` becomes `pre.<decimal n>post`. -/
theorem replaceQB_counter (vars : Vars) (pre post i : Bytes) (n : Int)
    (h1 : ∀ d ∈ pre, (d == 91) = false) (h2 : ∀ d ∈ pre, (d == 93) = false) (h3 : ∀ d ∈ i, (d == 93) = false)
    (hi : splitDots i = [i]) (hv : getVar vars i = some (.ins (.int n) .static)) (hpost : indexOf 91 post = none) :
    replaceQB vars (pre ++ 91 :: (i ++ 93 :: post)) = some (pre ++ [46] ++ decInt n ++ post) := by
  rw [replaceQB_form vars pre i post h1 h2 h3 hpost, hi]
  simp [getChunks, hv, insGet, Val.text]

/-- **C02, indexed left operand.** In the iteration in which the loop counter `i` holds `n`, the comparison
    `pre[i]post op right` is the comparison of the value at `pre.<n>post` with `right`. -/
theorem cmp_indexed_by_counter (c : Ctx) (pre post i : Bytes) (n : Int) (o : Op) (right : Bytes) (hq : c.chQB = true)
    (h1 : ∀ d ∈ pre, (d == 91) = false) (h2 : ∀ d ∈ pre, (d == 93) = false) (h3 : ∀ d ∈ i, (d == 93) = false)
    (hi : splitDots i = [i]) (hv : getVar c.vars i = some (.ins (.int n) .static)) (hpost : indexOf 91 post = none) :
    (c.cmp (pre ++ 91 :: (i ++ 93 :: post)) o right).1 = cmpCore c.vars (pre ++ [46] ++ decInt n ++ post) o right :=
  C15.cmp_indexed_left c _ _ o right hq (replaceQB_counter c.vars pre post i n h1 h2 h3 hi hv hpost)

/-! Non-vacuity: `lst[i]` with `i = 1` over `["a", "b"]` compares `lst.1`, i.e. `"b"`. -/
def cx : Ctx := { ((({} : Ctx).set (lit "lst") (.strs [lit "a", lit "b"]) .strings).setStatic (lit "i") (.int 1)) with chQB := true }
example : (cx.cmp (lit "lst[i]") .eq (lit "b")).1 = true := by decide
example : (cx.cmp (lit "lst[i]") .eq (lit "a")).1 = false := by decide
example : replaceQB cx.vars (lit "lst[i]") = some (lit "lst.1") := by decide
example : replaceQB cx.vars (lit "m[i][i].x") = some (lit "m.1.1.x") := by decide

/-- **C03, indexed range-loop source.** Inside a counter loop whose counter `i` holds `n`, `for … in pre[i]post`
    ranges over the value at `pre.<n>post` (repair of `Ctx.rloop`, which looked the literal path `pre[i]post` up,
    found nothing and ran no iteration); like every range loop it starts with `ctx.Err` cleared. -/
theorem rloop_indexed_by_counter (run : St → Res) (re : Option (St → Res)) (ls : RLoopSpec) (s : St)
    (pre post i : Bytes) (n : Int) (hq : s.c.chQB = true) (hsrc : ls.src = pre ++ 91 :: (i ++ 93 :: post))
    (h1 : ∀ d ∈ pre, (d == 91) = false) (h2 : ∀ d ∈ pre, (d == 93) = false) (h3 : ∀ d ∈ i, (d == 93) = false)
    (hi : splitDots i = [i]) (hv : getVar s.c.vars i = some (.ins (.int n) .static)) (hpost : indexOf 91 post = none) :
    rloopQB run re ls s = rloopWith run re { ls with src := pre ++ [46] ++ decInt n ++ post }
      { s with c := { s.c with err := none } } := by
  unfold rloopQB cmpPath
  simp only [hq, if_true, hsrc, replaceQB_counter s.c.vars pre post i n h1 h2 h3 hi hv hpost]

/-- Outside counter loops (no substitution pending) the source is taken as written. -/
theorem rloop_outside_counter_loops (run : St → Res) (re : Option (St → Res)) (ls : RLoopSpec) (s : St)
    (hq : s.c.chQB = false) :
    rloopQB run re ls s = rloopWith run re ls { s with c := { s.c with err := none } } := by
  unfold rloopQB cmpPath
  simp [hq]

/-- An index that cannot be written as text: no iteration, `ctx.Err` is set, the render carries on. -/
theorem rloop_index_unwritable (run : St → Res) (re : Option (St → Res)) (ls : RLoopSpec) (s : St)
    (hq : s.c.chQB = true) (hn : replaceQB s.c.vars ls.src = none) :
    rloopQB run re ls s = ok { s with c := { s.c with err := some .unknownType } } := by
  unfold rloopQB cmpPath
  simp [hq, hn]

/-- **Printed values and assignments' sources.** In the same situation `Ctx.get` of `pre[i]post` is `Ctx.get` of
    `pre.<n>post` as it reads outside counter loops — value and error alike. -/
theorem get_indexed_by_counter (c : Ctx) (pre post i : Bytes) (n : Int) (hq : c.chQB = true)
    (h1 : ∀ d ∈ pre, (d == 91) = false) (h2 : ∀ d ∈ pre, (d == 93) = false) (h3 : ∀ d ∈ i, (d == 93) = false)
    (hi : splitDots i = [i]) (hv : getVar c.vars i = some (.ins (.int n) .static)) (hpost : indexOf 91 post = none) :
    getCore c.vars c.chQB (pre ++ 91 :: (i ++ 93 :: post)) = getCore c.vars false (pre ++ [46] ++ decInt n ++ post) := by
  unfold getCore
  simp only [hq, if_true, replaceQB_counter c.vars pre post i n h1 h2 h3 hi hv hpost]
  simp

/-- **`len()` / `cap()` conditions.** The same for `Ctx.cmpLC`. -/
theorem cmpLC_indexed_by_counter (c : Ctx) (pre post i : Bytes) (n : Int) (o : Op) (right : Bytes) (hq : c.chQB = true)
    (h1 : ∀ d ∈ pre, (d == 91) = false) (h2 : ∀ d ∈ pre, (d == 93) = false) (h3 : ∀ d ∈ i, (d == 93) = false)
    (hi : splitDots i = [i]) (hv : getVar c.vars i = some (.ins (.int n) .static)) (hpost : indexOf 91 post = none) :
    cmpLCCore c.vars c.chQB (pre ++ 91 :: (i ++ 93 :: post)) o right = cmpLCCore c.vars false (pre ++ [46] ++ decInt n ++ post) o right := by
  unfold cmpLCCore
  simp only [hq, if_true, replaceQB_counter c.vars pre post i n h1 h2 h3 hi hv hpost]
  simp

/-- A path without a square bracket is read the same inside and outside counter loops, by all four readers. -/
theorem readers_plain (vars : Vars) (qb : Bool) (k : Bytes) (o : Op) (right : Bytes) (hb : indexOf 91 k = none) :
    getCore vars qb k = getCore vars false k ∧ cmpPath vars qb k = some k ∧
    cmpLCCore vars qb k o right = cmpLCCore vars false k o right := by
  have hr : replaceQB vars k = some k := replaceQB_plain vars k hb
  refine ⟨?_, C15.cmpPath_plain vars qb k hb, ?_⟩
  · unfold getCore; cases qb <;> simp [hr]
  · unfold cmpLCCore; cases qb <;> simp [hr]

/-! Non-vacuity: printing `lst[i]` with `i = 1` prints `b`; `len(lst[i])`-style comparison goes through the same path. -/
example : (cx.get (lit "lst[i]")).1.text = some (lit "b") := by decide

end DyntplV.C02Q
