import DyntplV.Parser.Nest
import DyntplV.Parser.NestLemmas
import DyntplV.Parser.Args
/-!
# C12 — Parse is total and accepts exactly the properly nested templates

* `nest_accepts_iff` — the control skeleton of `parseTpl`/`processCtl` (model `Nest`: counters,
  target snapshot, `reached`, `eqZero`, `up`, error override) accepts a tag sequence **iff** it is a
  word of the three-bracket Dyck language with leaves (`Balanced`), for every sequence: unbounded
  length and depth.  Both directions are proved (`balanced_accepted`, `accepted_balanced`), so a
  missing, surplus or crossed closer, a rejected tag and an unterminated tag are all rejected.
* `parse_terminates` — with fuel `length + 1` the model never runs out of fuel.
* `extractArgs_total` / `extractArgs_returns` — the checked byte-level model of `extractArgs`
  (as repaired) has no `panic` outcome and does not run out of fuel, for every byte string.

Not covered by these theorems: the classification of tag *text* into `Tok` (regular expressions,
tied by the harness for the generator's tag shapes), RE2 itself, Go stack depth.
-/
namespace DyntplV.C12
open DyntplV DyntplV.Nest

/-- Properly nested and closed: the Dyck language over three bracket pairs, with leaves.
    (`Tok.opn`/`Tok.cls` map `Kind.cond|loop|switch` to `openIf|openFor|openSwitch` / `closeIf|…`.)
    `bad` and `unterminated` do not occur in a balanced sequence. -/
inductive Balanced : List Tok → Prop
  | nil : Balanced []
  | leaf {ts : List Tok} : Balanced ts → Balanced (.leaf :: ts)
  | block (k : Kind) {a b : List Tok} : Balanced a → Balanced b →
      Balanced (Tok.opn k :: (a ++ Tok.cls k :: b))

/-! ### Completeness of the mechanism: balanced ⇒ accepted -/

/-- A balanced prefix is transparent: at any level where the loop runs, parsing `a ++ rest`
    gives what parsing `rest` gives. -/
theorem balanced_prefix {a : List Tok} (hb : Balanced a) :
    ∀ (t p : Ctr) (rest : List Tok) (f : Nat) (x : List Tok) (y : Ctr) (z : Option Err),
      (!reached t p || eqZero t) = true →
      parseTpl f t p rest = .done x y z →
      ∃ f', parseTpl f' t p (a ++ rest) = .done x y z := by
  induction hb with
  | nil => intro t p rest f x y z _ h; exact ⟨f, h⟩
  | leaf _ ih =>
    intro t p rest f x y z hc h
    obtain ⟨f', h'⟩ := ih t p rest f x y z hc h
    exact ⟨f' + 1, by rw [List.cons_append, parseTpl_leaf _ _ _ _ hc]; exact h'⟩
  | @block k a b _ _ iha ihb =>
    intro t p rest f x y z hc h
    obtain ⟨f1, h1⟩ := ihb t p rest f x y z hc h
    -- inner level: target = p, counters = p.inc k; the matching closer brings them back to p
    have hci : (!reached p (p.inc k) || eqZero p) = true := by simp [reached_inc]
    have hclose : parseTpl 1 p (p.inc k) (Tok.cls k :: (b ++ rest)) = .done (b ++ rest) p none := by
      rw [parseTpl_cls _ _ _ _ _ hci, inc_dec]
      simp [finish, reached_self]
    obtain ⟨f2, h2⟩ := iha p (p.inc k) (Tok.cls k :: (b ++ rest)) 1 _ _ _ hci hclose
    refine ⟨max f1 f2 + 1, ?_⟩
    have e : (Tok.opn k :: (a ++ Tok.cls k :: b)) ++ rest = Tok.opn k :: (a ++ Tok.cls k :: (b ++ rest)) := by
      simp [List.append_assoc]
    rw [e, parseTpl_opn _ _ _ _ _ hc, mono_le (Nat.le_max_right f1 f2) h2]
    simp only [Option.isSome_none, Bool.false_eq_true, if_false]
    exact mono_le (Nat.le_max_left f1 f2) h1

/-! ### Soundness of the mechanism: accepted ⇒ balanced -/

/-- What an error-free return of `parseTpl` means, at any level: the counters are back at the target and
    the consumed tags are a balanced sequence, followed by the closer that led back to the target
    unless the level was already at its target on entry (root level, or the degenerate entry `p = t`). -/
theorem ok_shape (f : Nat) : ∀ (t p : Ctr) (ts rest : List Tok) (p' : Ctr),
    parseTpl f t p ts = .done rest p' none →
    p' = t ∧ ∃ a, Balanced a ∧
      ((ts = a ++ rest ∧ p = t ∧ (rest = [] ∨ eqZero t = false)) ∨
       (∃ k, ts = a ++ Tok.cls k :: rest ∧ p.dec k = t)) := by
  induction f with
  | zero => intro t p ts rest p' h; simp [parseTpl] at h
  | succ f ih =>
    intro t p ts rest p' h
    cases hc : (!reached t p || eqZero t)
    · rw [parseTpl_stop _ _ _ _ hc, finish_ok_iff] at h
      obtain ⟨hr, hp, ht, _⟩ := h
      have hz : eqZero t = false := by simp at hc; exact hc.2
      exact ⟨hp.trans ht.symm, [], .nil, .inl ⟨by simp [hr], ht.symm, .inr hz⟩⟩
    · cases ts with
      | nil =>
        rw [parseTpl_nil _ _ _ hc, finish_ok_iff] at h
        obtain ⟨hr, hp, ht, _⟩ := h
        exact ⟨hp.trans ht.symm, [], .nil, .inl ⟨by simp [hr], ht.symm, .inl hr⟩⟩
      | cons tok r =>
        rcases tok_cases tok with ⟨k, rfl⟩ | ⟨k, rfl⟩ | rfl | rfl | rfl
        · -- opening tag: dive, then continue at this level
          rw [parseTpl_opn _ _ _ _ _ hc] at h
          cases hd : parseTpl f p (p.inc k) r with
          | outOfFuel => simp [hd] at h
          | done r1 p1 e1 =>
            simp only [hd] at h
            cases e1 with
            | some e =>
              simp only [Option.isSome_some, if_true, finish_ok_iff] at h
              exact absurd h.2.2.2 (by simp)
            | none =>
              simp only [Option.isSome_none, Bool.false_eq_true, if_false] at h
              obtain ⟨hp1, a, ha, hsh⟩ := ih _ _ _ _ _ hd
              subst hp1
              obtain ⟨p'eq, b, hbb, hsh2⟩ := ih _ _ _ _ _ h
              have hr : r = a ++ Tok.cls k :: r1 := by
                rcases hsh with ⟨_, hpe, _⟩ | ⟨k', hr, hk⟩
                · exact absurd hpe.symm (inc_ne p1 k)
                · have := inc_dec_eq _ _ _ hk; subst this; exact hr
              refine ⟨p'eq, Tok.opn k :: (a ++ Tok.cls k :: b), .block k ha hbb, ?_⟩
              rcases hsh2 with ⟨h1, h2, h3⟩ | ⟨k2, h1, h2⟩
              · exact .inl ⟨by rw [hr, h1]; simp [List.append_assoc], h2, h3⟩
              · exact .inr ⟨k2, by rw [hr, h1]; simp [List.append_assoc], h2⟩
        · -- closing tag: `up`, the loop ends here
          rw [parseTpl_cls _ _ _ _ _ hc, finish_ok_iff] at h
          obtain ⟨hr, hp, ht, _⟩ := h
          exact ⟨hp.trans ht.symm, [], .nil, .inr ⟨k, by simp [hr], ht.symm⟩⟩
        · rw [parseTpl_leaf _ _ _ _ hc] at h
          obtain ⟨p'eq, a, ha, hsh⟩ := ih _ _ _ _ _ h
          refine ⟨p'eq, .leaf :: a, .leaf ha, ?_⟩
          rcases hsh with ⟨h1, h2, h3⟩ | ⟨k2, h1, h2⟩
          · exact .inl ⟨by rw [h1]; rfl, h2, h3⟩
          · exact .inr ⟨k2, by rw [h1]; rfl, h2⟩
        · rw [parseTpl_bad _ _ _ _ hc, finish_ok_iff] at h
          exact absurd h.2.2.2 (by simp)
        · rw [parseTpl_unterminated _ _ _ _ hc, finish_ok_iff] at h
          exact absurd h.2.2.2 (by simp)

/-! ### The property theorems -/

/-- **Termination**: fuel `length + 1` always suffices; `parse` returns a proper result. -/
theorem parse_terminates (ts : List Tok) : ∃ rest p err, parse ts = .done rest p err := by
  obtain ⟨r, p, e, h, _⟩ := terminates (ts.length + 1) Ctr.zero Ctr.zero ts (Nat.lt_succ_self _)
  exact ⟨r, p, e, h⟩

theorem parse_ne_outOfFuel (ts : List Tok) : parse ts ≠ .outOfFuel := by
  obtain ⟨r, p, e, h⟩ := parse_terminates ts
  rw [h]; exact fun h => Res.noConfusion h

theorem accepts_iff_parse (ts : List Tok) : accepts ts = true ↔ ∃ rest p, parse ts = .done rest p none := by
  unfold accepts
  constructor
  · intro h
    split at h
    · next r p heq => exact ⟨r, p, heq⟩
    · cases h
  · rintro ⟨r, p, h⟩; rw [h]

/-- A properly nested and closed template skeleton is accepted. -/
theorem balanced_accepted {ts : List Tok} (hb : Balanced ts) : accepts ts = true := by
  have hroot : parseTpl 1 Ctr.zero Ctr.zero [] = .done [] Ctr.zero none := by decide
  obtain ⟨f, hf⟩ := balanced_prefix hb Ctr.zero Ctr.zero [] 1 _ _ _ (by decide) hroot
  rw [List.append_nil] at hf
  obtain ⟨r, p, e, h⟩ := parse_terminates ts
  obtain ⟨rfl, rfl, rfl⟩ := deterministic hf h
  exact (accepts_iff_parse ts).2 ⟨_, _, h⟩

/-- Whatever is accepted is properly nested and closed (hence: a missing, surplus or crossed closing
    tag, a rejected tag, an unterminated tag ⇒ error). -/
theorem accepted_balanced {ts : List Tok} (h : accepts ts = true) : Balanced ts := by
  obtain ⟨r, p, hp⟩ := (accepts_iff_parse ts).1 h
  obtain ⟨_, a, ha, hsh⟩ := ok_shape _ _ _ _ _ _ hp
  rcases hsh with ⟨h1, _, h3⟩ | ⟨k, _, h2⟩
  · rcases h3 with rfl | h3
    · rw [h1, List.append_nil]; exact ha
    · exact absurd h3 (by decide)
  · exact absurd h2 (zero_dec_ne k)

/-- **Acceptance = proper nesting**, for every tag sequence (any length, any depth). -/
theorem nest_accepts_iff (ts : List Tok) : accepts ts = true ↔ Balanced ts :=
  ⟨accepted_balanced, balanced_accepted⟩

/-- Rejection, stated positively: not balanced ⇒ `Parse` returns some error. -/
theorem unbalanced_rejected {ts : List Tok} (h : ¬ Balanced ts) : ∃ e, parseErr ts = some e := by
  obtain ⟨r, p, e, hp⟩ := parse_terminates ts
  cases e with
  | some e => exact ⟨e, by simp [parseErr, hp]⟩
  | none => exact absurd (accepted_balanced ((accepts_iff_parse ts).2 ⟨r, p, hp⟩)) h

/-! Non-vacuity: concrete skeletons (letters: i f s open, I F S close, l leaf, b bad, u unterminated). -/
example : Balanced (sk "ilfFIsS") :=
  .block .cond (.leaf (.block .loop .nil .nil)) (.block .switch .nil .nil)
example : accepts (sk "ilfFIsS") = true := by decide
example : accepts (sk "") = true := by decide
-- crossed closers: endif inside the for makes the for-level target unreachable
example : parse (sk "ifIF") = .done (sk "F") ⟨0, 1, 0⟩ (some .unbalanced) := by decide
example : ¬ Balanced (sk "ifIF") := fun h => by
  have := balanced_accepted h; revert this; decide
-- surplus closer at root: cc = −1, `up`, then `!t.reached(p)`
example : parse (sk "Ii") = .done (sk "i") ⟨-1, 0, 0⟩ (some .unbalanced) := by decide
-- missing closer: end of input below root is ErrUnbalancedCtl, not ErrUnexpectedEOF
example : parseErr (sk "il") = some .unbalanced := by decide
-- unterminated tag: ErrUnexpectedEOF at root, overridden by ErrUnbalancedCtl below root
example : parseErr (sk "lu") = some .eof := by decide
example : parseErr (sk "iu") = some .unbalanced := by decide
-- a rejected tag: its own error at root, overridden below root
example : parseErr (sk "b") = some .bad := by decide
example : parseErr (sk "ibI") = some .unbalanced := by decide
example : ∃ e, parseErr (sk "ifIF") = some e := unbalanced_rejected (fun h => by
  have := balanced_accepted h; revert this; decide)
example : ∃ rest p err, parse (sk "iiiiffffssss") = .done rest p err := parse_terminates _

/-! ## `extractArgs` never panics -/

open DyntplV.Args

theorem index_some (b : Bytes) (i : Int) (h0 : 0 ≤ i) (h1 : i < b.length) : ∃ c, index b i = some c := by
  have hi : i.toNat < b.length := by omega
  refine ⟨b[i.toNat], ?_⟩
  unfold index
  rw [if_neg (by omega)]
  exact List.getElem?_eq_getElem hi

theorem indexByte_lt (b : Bytes) (c : UInt8) (i : Nat) (h : indexByte b c = some i) : i < b.length := by
  induction b generalizing i with
  | nil => simp [indexByte] at h
  | cons x xs ih =>
    rw [indexByte] at h
    split at h
    · cases h; simp
    · cases hx : indexByte xs c with
      | none => simp [hx] at h
      | some j =>
        simp [hx] at h
        have := ih j hx
        subst h; simp; omega

theorem stripBrace_some (a : Bytes) (nested : Bool) (c0 : UInt8) (ha : 0 < a.length) :
    ∃ x, stripBrace a nested c0 = some x := by
  unfold stripBrace
  by_cases h : (c0 == 123) = true
  · have hs : sliceFrom a 1 = some (a.drop 1) := by
      unfold sliceFrom; rw [if_pos (by omega)]
    rw [if_pos h, hs]; exact ⟨_, rfl⟩
  · rw [if_neg h]; exact ⟨_, rfl⟩

/-- The repaired closing check cannot panic. -/
theorem closeCheck_some (a : Bytes) (nested : Bool) : ∃ x, closeCheck true a nested = some x := by
  unfold closeCheck
  by_cases hl : a.length = 0
  · rw [if_pos (by simp [hl])]; exact ⟨_, rfl⟩
  · rw [if_neg (by simp [hl])]
    obtain ⟨c, hc⟩ := index_some a ((a.length : Int) - 1) (by omega) (by omega)
    rw [hc]; exact ⟨_, rfl⟩

/-- The loop body cannot panic on a non-empty (trimmed) argument — with the repaired check. -/
theorem argBody_some (a : Bytes) (nested : Bool) (r : List Arg) (ha : 0 < a.length) :
    ∃ x, argBody true a nested r = some x := by
  obtain ⟨c0, hc0⟩ := index_some a 0 (by omega) (by omega)
  obtain ⟨⟨a1, n1⟩, h1⟩ := stripBrace_some a nested c0 ha
  obtain ⟨n2, h2⟩ := closeCheck_some (collect a1 n1 r).1 n1
  exact ⟨(n2, (collect a1 n1 r).2), by simp only [argBody, hc0, h1, h2]⟩

theorem loop_ok (raw : Bytes) : ∀ (fuel off : Nat) (nested : Bool) (r : List Arg),
    off ≤ raw.length → raw.length < fuel + off →
    ∃ args, loop true raw fuel off nested r = .ok args := by
  intro fuel
  induction fuel with
  | zero => intro off nested r h1 h2; omega
  | succ fuel ih =>
    intro off nested r h1 h2
    rw [loop]
    have hs : sliceFrom raw off = some (raw.drop off) := by unfold sliceFrom; rw [if_pos h1]
    simp only [hs]
    -- pos ≤ len(raw) - off
    have hpos : ∀ pos, pos = (indexByte (raw.drop off) 44).getD (raw.length - off) →
        off + pos ≤ raw.length := by
      intro pos hp
      cases hi : indexByte (raw.drop off) 44 with
      | none =>
        rw [hi] at hp
        have hp' : pos = raw.length - off := hp
        omega
      | some i =>
        rw [hi] at hp
        have hp' : pos = i := hp
        have := indexByte_lt _ _ _ hi
        rw [List.length_drop] at this; omega
    generalize hpe : (indexByte (raw.drop off) 44).getD (raw.length - off) = pos
    have hle := hpos pos hpe.symm
    have hsl : slice raw off (off + pos) = some ((raw.take (off + pos)).drop off) := by
      unfold slice; rw [if_pos ⟨by omega, hle⟩]
    simp only [hsl]
    have hbody : ∃ x, (if (trim ((raw.take (off + pos)).drop off) space).length > 0
        then argBody true (trim ((raw.take (off + pos)).drop off) space) nested r
        else some (nested, r)) = some x := by
      by_cases hl : (trim ((raw.take (off + pos)).drop off) space).length > 0
      · rw [if_pos hl]; exact argBody_some _ _ _ hl
      · rw [if_neg hl]; exact ⟨_, rfl⟩
    obtain ⟨⟨n', r'⟩, hx⟩ := hbody
    simp only [hx]
    by_cases hbrk : off + pos ≥ raw.length
    · rw [if_pos hbrk]; exact ⟨_, rfl⟩
    · rw [if_neg hbrk]
      exact ih (off + pos + 1) n' r' (by omega) (by omega)

/-- `extractArgs` returns an argument list for every byte string: no panic, and the loop ends
    within `len(raw) + 1` iterations. -/
theorem extractArgs_returns (raw : Bytes) : ∃ args, extractArgsM raw = .ok args := by
  unfold extractArgsM extractArgsWith
  by_cases h : (raw.length == 0) = true
  · rw [if_pos h]; exact ⟨_, rfl⟩
  · rw [if_neg h]; exact loop_ok raw _ 0 false [] (by omega) (by omega)

/-- **Totality of `extractArgs`** (as repaired): no index or slice operation is out of range. -/
theorem extractArgs_total (raw : Bytes) : (extractArgsM raw).isPanic = false := by
  obtain ⟨args, h⟩ := extractArgs_returns raw
  rw [h]; rfl

/-! Non-vacuity, and the pre-repair behaviour: with the unchecked `a[len(a)-1]` the one-byte argument
    list `{` (template `{%= x|default({) %}`) indexes `a[-1]`:
    `a = "{"`, `a[0] == '{'` ⇒ `a = a[1:] = ""`, `nested`, `Split` gives one piece, then `a[len(a)-1]`. -/
example : (extractArgsOld (lit "{")).isPanic = true := by decide
example : extractArgsM (lit "{") = .ok [] := by decide
example : (extractArgsOld (lit "a, {")).isPanic = true := by decide
example : extractArgsM (lit "{\"k\": 1}, x") =
    .ok [⟨lit "k", lit "1", true⟩, ⟨[], lit "x", false⟩] := by decide
example : extractArgsM (lit "a,,\"b\"") = .ok [⟨[], lit "a", false⟩, ⟨[], lit "b", true⟩] := by decide
example : (extractArgsM (lit "{")).isPanic = false := extractArgs_total _

end DyntplV.C12
