import DyntplV.Props.C11A
/-!
# Property C11: "… its own arguments, which may be literals, variables or key-value groups"

The general round trip of `extractArgs`: an argument list is a sequence of PIECES separated by `, ` — positional
arguments and the pairs of key-value groups `{k: v, k2: v2}`, the first pair of a group carrying the opening brace,
the last one the closing brace.  For every well-bracketed sequence of plain pieces (`flowAll`), of any length,
`extractArgs` returns one argument per piece, in order: a positional argument with its text, a pair with its own key
and its own value (`extract_pieces`).
-/
namespace DyntplV.C11B
open DyntplV DyntplV.Args DyntplV.C11A

inductive Piece
  | pos (a : Bytes)
  | kv (opens closes : Bool) (k v : Bytes)
  deriving Repr

/-- Key or value of a pair: plain, and no colon. -/
def PlainKV (a : Bytes) : Prop := PlainArg a ∧ ∀ c ∈ a, c ≠ 58

def Piece.text : Piece → Bytes
  | .pos a => a
  | .kv o c k v => (if o then [123] else []) ++ (k ++ 58 :: 32 :: (v ++ (if c then [125] else [])))

def Piece.arg : Piece → Arg
  | .pos a => mk a
  | .kv _ _ k v => { name := k, val := v, static := isStatic v }

def Piece.Plain : Piece → Prop
  | .pos a => PlainArg a
  | .kv _ _ k v => PlainKV k ∧ PlainKV v

/-- The "inside a group" flag after a piece; `none`: the piece does not fit (a positional argument or an opening
    brace inside a group, a pair without opening brace outside). -/
def Piece.flow (nested : Bool) : Piece → Option Bool
  | .pos _ => if nested then none else some false
  | .kv o c _ _ => if o == nested then none else some (!c)

def flowAll : Bool → List Piece → Bool
  | _, [] => true
  | n, p :: ps => match p.flow n with
    | some n' => flowAll n' ps
    | none => false

/-- The pieces as written: separated by a comma and a blank. -/
def joinP : List Piece → Bytes
  | [] => []
  | [p] => p.text
  | p :: q :: rest => p.text ++ [44, 32] ++ joinP (q :: rest)

/-! ### Library functions -/

theorem dropWhile_head {p : UInt8 → Bool} (c : UInt8) (xs : Bytes) (h : p c = false) :
    (c :: xs).dropWhile p = c :: xs := by simp [List.dropWhile, h]

/-- `Trim`: bytes of the cut set before and after a text whose first and last byte are not in it. -/
theorem trim_ends (l t cut : Bytes) (c e : UInt8) (mid : Bytes)
    (hl : ∀ d ∈ l, cut.contains d = true) (ht : ∀ d ∈ t, cut.contains d = true)
    (hc : cut.contains c = false) (he : cut.contains e = false) :
    trim (l ++ (c :: mid ++ [e]) ++ t) cut = c :: mid ++ [e] := by
  unfold trim
  rw [List.append_assoc, dropWhile_all_append l _ hl]
  rw [show (c :: mid ++ [e]) ++ t = c :: (mid ++ [e] ++ t) by simp, dropWhile_head c _ hc]
  rw [show (c :: (mid ++ [e] ++ t)).reverse = t.reverse ++ (e :: (c :: mid).reverse) by simp]
  rw [dropWhile_all_append t.reverse _ (fun d hd => ht d (by simpa using hd)), dropWhile_head e _ he]
  simp

theorem trim_single (l t cut : Bytes) (c : UInt8)
    (hl : ∀ d ∈ l, cut.contains d = true) (ht : ∀ d ∈ t, cut.contains d = true) (hc : cut.contains c = false) :
    trim (l ++ [c] ++ t) cut = [c] := by
  unfold trim
  rw [List.append_assoc, dropWhile_all_append l _ hl]
  rw [show [c] ++ t = c :: t by simp, dropWhile_head c _ hc]
  rw [show (c :: t).reverse = t.reverse ++ [c] by simp]
  rw [dropWhile_all_append t.reverse _ (fun d hd => ht d (by simpa using hd)), dropWhile_head c _ hc]
  simp

/-- Every non-empty list is `[c]` or `c :: mid ++ [e]`. -/
theorem ends_cases (x : Bytes) (h : x ≠ []) : (∃ c, x = [c]) ∨ (∃ c mid e, x = c :: mid ++ [e]) := by
  cases x with
  | nil => exact absurd rfl h
  | cons c r =>
    cases hr : r.reverse with
    | nil => left; exact ⟨c, by simp at hr; simp [hr]⟩
    | cons e m =>
      right
      refine ⟨c, m.reverse, e, ?_⟩
      have : r = (e :: m).reverse := by rw [← hr, List.reverse_reverse]
      simp [this]

/-- `Trim` of a text with cut-set bytes around it, all of whose own bytes are outside the cut set. -/
theorem trim_around (l t x cut : Bytes) (hl : ∀ d ∈ l, cut.contains d = true) (ht : ∀ d ∈ t, cut.contains d = true)
    (hx : ∀ d ∈ x, cut.contains d = false) (hne : x ≠ []) : trim (l ++ x ++ t) cut = x := by
  rcases ends_cases x hne with ⟨c, rfl⟩ | ⟨c, mid, e, rfl⟩
  · exact trim_single l t cut c hl ht (hx c (by simp))
  · exact trim_ends l t cut c e mid hl ht (hx c (by simp)) (hx e (by simp))

theorem splitByte_none (c : UInt8) (x : Bytes) (h : ∀ d ∈ x, (d == c) = false) : splitByte c x = [x] := by
  induction x with
  | nil => rfl
  | cons d r ih =>
    simp only [splitByte, h d (by simp), Bool.false_eq_true, if_false, ih (fun e he => h e (by simp [he]))]

theorem splitByte_one (c : UInt8) (x y : Bytes) (hx : ∀ d ∈ x, (d == c) = false) (hy : ∀ d ∈ y, (d == c) = false) :
    splitByte c (x ++ c :: y) = [x, y] := by
  induction x with
  | nil => simp [splitByte, splitByte_none c y hy]
  | cons d r ih =>
    simp only [List.cons_append, splitByte, hx d (by simp), Bool.false_eq_true, if_false,
      ih (fun e he => hx e (by simp [he]))]

/-! ### One piece -/

theorem closeCheck_last (a : Bytes) (nested : Bool) (e : UInt8) (h : a.getLast? = some e) :
    closeCheck true a nested = some (if e == 125 then false else nested) := by
  have hne : a ≠ [] := by intro h0; simp [h0] at h
  have hlen : 0 < a.length := List.length_pos_iff.mpr hne
  have hl0 : (a.length == 0) = false := by simp; omega
  have hnn : ¬ (((a.length : Int) - 1) < 0) := by omega
  have hidx : (((a.length : Int) - 1)).toNat = a.length - 1 := by omega
  rw [List.getLast?_eq_getElem?] at h
  simp only [closeCheck, Bool.true_and, hl0, Bool.false_eq_true, if_false, index, hnn, hidx, h]

theorem kv_parts {a : Bytes} (h : PlainKV a) :
    a ≠ [] ∧ (∀ d ∈ a, space.contains d = false) ∧ (∀ d ∈ a, quotes.contains d = false) ∧
    (∀ d ∈ a, spaceCBE.contains d = false) ∧ (∀ d ∈ a, (d == 58) = false) ∧ (∀ d ∈ a, d ≠ 125) ∧ (∀ d ∈ a, d ≠ 123) := by
  obtain ⟨⟨hne, hsp⟩, hcol⟩ := h
  refine ⟨hne, fun d hd => special_space (hsp d hd), fun d hd => special_quotes (hsp d hd), ?_, ?_, ?_, ?_⟩
  · intro d hd
    have := special_parts (hsp d hd)
    simp [spaceCBE, this.1, this.2.2.2.2.2.2]
  · intro d hd; simpa using hcol d hd
  · intro d hd; exact (special_parts (hsp d hd)).2.2.2.2.2.2
  · intro d hd; exact (special_parts (hsp d hd)).2.2.2.2.2.1

/-- The text of a pair after its opening brace (if any) has been stripped. -/
def kvBody (c : Bool) (k v : Bytes) : Bytes := k ++ 58 :: 32 :: (v ++ (if c then [125] else []))

theorem collect_kv (c : Bool) (k v : Bytes) (r : List Arg) (hk : PlainKV k) (hv : PlainKV v) :
    collect (kvBody c k v) true r = (kvBody c k v, r ++ [{ name := k, val := v, static := isStatic v }]) := by
  obtain ⟨hkne, hkS, hkQ, _, hk58, _, _⟩ := kv_parts hk
  obtain ⟨hvne, _, hvQ, hvC, hv58, _, _⟩ := kv_parts hv
  have hsplit : splitByte 58 (kvBody c k v) = [k, 32 :: (v ++ (if c then [125] else []))] := by
    unfold kvBody
    apply splitByte_one 58 k _ hk58
    intro d hd
    simp only [List.mem_cons, List.mem_append] at hd
    rcases hd with rfl | hd | hd
    · decide
    · exact hv58 d hd
    · cases c <;> simp at hd; subst hd; decide
  have hvt : trim (32 :: (v ++ (if c then [125] else []))) spaceCBE = v := by
    have := trim_around [32] (if c then [125] else []) v spaceCBE (by simp [spaceCBE])
      (by cases c <;> simp [spaceCBE]) hvC hvne
    simpa using this
  simp only [collect, if_true, hsplit, trim_id k space hkS, trim_id k quotes hkQ, hvt, trim_id v quotes hvQ]

theorem getLast?_cons_some (x : UInt8) (l : Bytes) (e : UInt8) (h : l.getLast? = some e) : (x :: l).getLast? = some e := by
  cases l with
  | nil => simp at h
  | cons y t => rw [List.getLast?_cons_cons]; exact h

theorem getLast?_append_single (l : Bytes) (e : UInt8) : (l ++ [e]).getLast? = some e := by simp

theorem kvBody_last (c : Bool) (k v : Bytes) (hv : PlainKV v) :
    ∃ e, (kvBody c k v).getLast? = some e ∧ ((e == 125) = c) := by
  obtain ⟨hvne, _, _, _, _, hv125, _⟩ := kv_parts hv
  cases c with
  | true =>
    refine ⟨125, ?_, by decide⟩
    have h1 : (58 :: 32 :: (v ++ [125])).getLast? = some 125 :=
      getLast?_cons_some _ _ _ (getLast?_cons_some _ _ _ (getLast?_append_single v 125))
    simp [kvBody, List.getLast?_append, h1]
  | false =>
    obtain ⟨e, he⟩ : ∃ e, v.getLast? = some e := by
      cases hl : v.getLast? with
      | none => simp [List.getLast?_eq_none_iff] at hl; exact absurd hl hvne
      | some e => exact ⟨e, rfl⟩
    have h1 : (58 :: 32 :: v).getLast? = some e := getLast?_cons_some _ _ _ (getLast?_cons_some _ _ _ he)
    refine ⟨e, by simp [kvBody, List.getLast?_append, h1], ?_⟩
    have : e ∈ v := List.mem_of_getLast? he
    simpa using hv125 e this

/-- One pair of a key-value group: appended with ITS key and ITS value; the group is left iff the pair carries the
    closing brace. -/
theorem argBody_kv (o c : Bool) (k v : Bytes) (r : List Arg) (hk : PlainKV k) (hv : PlainKV v) :
    argBody true (Piece.kv o c k v).text (!o) r = some (!c, r ++ [{ name := k, val := v, static := isStatic v }]) := by
  obtain ⟨e, hlast, he⟩ := kvBody_last c k v hv
  have hcc : closeCheck true (kvBody c k v) true = some (!c) := by
    rw [closeCheck_last _ _ e hlast, he]; cases c <;> rfl
  cases o with
  | true =>
    have ht : (Piece.kv true c k v).text = 123 :: kvBody c k v := by simp [Piece.text, kvBody]
    have hi : index (123 :: kvBody c k v) 0 = some 123 := by simp [index]
    have hs : stripBrace (123 :: kvBody c k v) false 123 = some (kvBody c k v, true) := by simp [stripBrace, sliceFrom]
    rw [ht]
    simp only [argBody, Bool.not_true, hi, hs, collect_kv c k v r hk hv, hcc]
  | false =>
    obtain ⟨hkne, _, _, _, _, _, hk123⟩ := kv_parts hk
    cases hkk : k with
    | nil => exact absurd hkk hkne
    | cons k0 krest =>
      have hk0 : (k0 == 123) = false := by
        have := hk123 k0 (by simp [hkk]); simp [this]
      have ht : (Piece.kv false c (k0 :: krest) v).text = kvBody c (k0 :: krest) v := by simp [Piece.text, kvBody]
      have hi : index (kvBody c (k0 :: krest) v) 0 = some k0 := by simp [index, kvBody]
      have hs : stripBrace (kvBody c (k0 :: krest) v) true k0 = some (kvBody c (k0 :: krest) v, true) := by
        simp [stripBrace, hk0]
      rw [ht]
      simp only [argBody, Bool.not_false, hi, hs, collect_kv c (k0 :: krest) v r (hkk ▸ hk) hv, hkk ▸ hcc]

/-- Any piece that fits the current flag: it is appended as ITS argument and the flag moves as `flow` says. -/
theorem argBody_piece (p : Piece) (nested nested' : Bool) (r : List Arg) (hp : p.Plain) (hf : p.flow nested = some nested') :
    argBody true p.text nested r = some (nested', r ++ [p.arg]) := by
  cases p with
  | pos a =>
    cases nested with
    | true => simp [Piece.flow] at hf
    | false =>
      simp only [Piece.flow, Bool.false_eq_true, if_false, Option.some.injEq] at hf
      subst hf
      exact argBody_plain a r hp
  | kv o c k v =>
    have hn : nested = !o := by
      cases o <;> cases nested <;> simp [Piece.flow] at hf ⊢
    have hn' : nested' = !c := by
      cases o <;> cases nested <;> cases c <;> cases nested' <;> simp [Piece.flow] at hf ⊢
    subst hn hn'
    exact argBody_kv o c k v r hp.1 hp.2

theorem plain_no_comma {a : Bytes} (h : PlainArg a) : ∀ d ∈ a, (d == 44) = false :=
  fun d hd => special_comma (h.2 d hd)

/-- No piece contains a comma. -/
theorem text_no_comma (p : Piece) (hp : p.Plain) : ∀ d ∈ p.text, (d == 44) = false := by
  cases p with
  | pos a => exact plain_no_comma hp
  | kv o c k v =>
    intro d hd
    simp only [Piece.text, List.mem_append, List.mem_cons] at hd
    rcases hd with hd | hd | rfl | rfl | hd | hd
    · cases o <;> simp at hd; subst hd; decide
    · exact plain_no_comma hp.1.1 d hd
    · decide
    · decide
    · exact plain_no_comma hp.2.1 d hd
    · cases c <;> simp at hd; subst hd; decide

/-- A piece neither starts nor ends with a blank: `Trim` gives it back from behind its leading blanks. -/
theorem text_trim (p : Piece) (hp : p.Plain) (lead : Bytes) (hl : ∀ d ∈ lead, space.contains d = true) :
    trim (lead ++ p.text) space = p.text ∧ p.text.length > 0 := by
  cases p with
  | pos a =>
    exact ⟨trim_lead lead a space hl (fun d hd => special_space (hp.2 d hd)), List.length_pos_iff.mpr hp.1⟩
  | kv o c k v =>
    obtain ⟨hkne, hkS, _, _, _, _, _⟩ := kv_parts hp.1
    obtain ⟨hvne, hvS, _, _, _, _, _⟩ := kv_parts hp.2
    -- first byte: '{' or the key's first byte; last byte: '}' or the value's last byte
    obtain ⟨k0, kr, hk⟩ : ∃ k0 kr, k = k0 :: kr := by
      cases k with
      | nil => exact absurd rfl hkne
      | cons a b => exact ⟨a, b, rfl⟩
    obtain ⟨vm, ve, hvv⟩ : ∃ vm ve, v = vm ++ [ve] := by
      rcases ends_cases v hvne with ⟨c1, rfl⟩ | ⟨c1, mid, e, rfl⟩
      · exact ⟨[], c1, rfl⟩
      · exact ⟨c1 :: mid, e, by simp⟩
    have hk0 : space.contains k0 = false := hkS k0 (by simp [hk])
    have hve : space.contains ve = false := hvS ve (by simp [hvv])
    have hform : ∃ c0 mid e, (Piece.kv o c k v).text = c0 :: mid ++ [e] ∧ space.contains c0 = false ∧ space.contains e = false := by
      subst hk hvv
      cases o <;> cases c
      · exact ⟨k0, kr ++ 58 :: 32 :: vm, ve, by simp [Piece.text], hk0, hve⟩
      · exact ⟨k0, kr ++ 58 :: 32 :: (vm ++ [ve]), 125, by simp [Piece.text], hk0, by decide⟩
      · exact ⟨123, k0 :: kr ++ 58 :: 32 :: vm, ve, by simp [Piece.text], by decide, hve⟩
      · exact ⟨123, k0 :: kr ++ 58 :: 32 :: (vm ++ [ve]), 125, by simp [Piece.text], by decide, by decide⟩
    obtain ⟨c0, mid, e, ht, h0, he⟩ := hform
    rw [ht]
    refine ⟨?_, by simp⟩
    have := trim_ends lead [] space c0 e mid hl (by simp) h0 he
    simpa using this

theorem lead_no_comma (lead : Bytes) (hl : ∀ d ∈ lead, space.contains d = true) : ∀ d ∈ lead, (d == 44) = false := by
  intro d hd; rw [space_mem (hl d hd)]; decide

/-- From any separator on. -/
theorem extract_pieces_tail : ∀ (ps : List Piece) (p : Piece) (pre lead : Bytes) (f : Nat) (nested : Bool) (r : List Arg),
      (∀ d ∈ lead, space.contains d = true) → (∀ x ∈ p :: ps, x.Plain) → flowAll nested (p :: ps) = true → ps.length < f →
      loop true (pre ++ (lead ++ joinP (p :: ps))) f pre.length nested r = .ok (r ++ (p :: ps).map Piece.arg) := by
  intro ps
  induction ps with
  | nil =>
    intro p pre lead f nested r hl hp hfl hf
    have hpp : p.Plain := hp p (by simp)
    obtain ⟨f', rfl⟩ : ∃ f', f = f' + 1 := ⟨f - 1, by simp at hf; omega⟩
    obtain ⟨n', hn'⟩ : ∃ n', p.flow nested = some n' := by
      simp only [flowAll] at hfl
      cases h : p.flow nested with
      | none => simp [h] at hfl
      | some n' => exact ⟨n', rfl⟩
    have hno : indexByte (lead ++ p.text) 44 = none := by
      apply indexByte_none
      intro d hd
      rcases List.mem_append.mp hd with h | h
      · exact lead_no_comma lead hl d h
      · exact text_no_comma p hpp d h
    obtain ⟨htrim, hlen⟩ := text_trim p hpp lead hl
    rw [show joinP [p] = p.text from rfl, loop_step]
    simp only [hno, Option.getD_none, List.take_length, htrim, hlen, if_true, argBody_piece p nested n' r hpp hn',
      ge_iff_le, Nat.le_refl, List.map_cons, List.map_nil]
  | cons q rest ih =>
    intro p pre lead f nested r hl hp hfl hf
    have hpp : p.Plain := hp p (by simp)
    obtain ⟨f', rfl⟩ : ∃ f', f = f' + 1 := ⟨f - 1, by simp at hf; omega⟩
    obtain ⟨n', hn', hrest⟩ : ∃ n', p.flow nested = some n' ∧ flowAll n' (q :: rest) = true := by
      rw [flowAll] at hfl
      cases h : p.flow nested with
      | none => simp [h] at hfl
      | some n' => exact ⟨n', rfl, by simpa [h] using hfl⟩
    have hjoin : lead ++ joinP (p :: q :: rest) = (lead ++ p.text) ++ 44 :: ([32] ++ joinP (q :: rest)) := by
      simp [joinP]
    have hidx : indexByte ((lead ++ p.text) ++ 44 :: ([32] ++ joinP (q :: rest))) 44 = some (lead ++ p.text).length := by
      apply indexByte_append
      intro d hd
      rcases List.mem_append.mp hd with h | h
      · exact lead_no_comma lead hl d h
      · exact text_no_comma p hpp d h
    obtain ⟨htrim, hlen⟩ := text_trim p hpp lead hl
    have htake : ((lead ++ p.text) ++ 44 :: ([32] ++ joinP (q :: rest))).take (lead ++ p.text).length = lead ++ p.text :=
      List.take_left
    have hnot : ¬ ((lead ++ p.text).length ≥ ((lead ++ p.text) ++ 44 :: ([32] ++ joinP (q :: rest))).length) := by
      simp
    rw [hjoin, loop_step]
    simp only [hidx, Option.getD_some, htake, htrim, hlen, if_true, argBody_piece p nested n' r hpp hn', hnot, if_false]
    have hraw : pre ++ ((lead ++ p.text) ++ 44 :: ([32] ++ joinP (q :: rest))) =
        (pre ++ (lead ++ p.text) ++ [44]) ++ ([32] ++ joinP (q :: rest)) := by simp
    have hoff : pre.length + (lead ++ p.text).length + 1 = (pre ++ (lead ++ p.text) ++ [44]).length := by simp; omega
    rw [hraw, hoff, ih q (pre ++ (lead ++ p.text) ++ [44]) [32] f' n' (r ++ [p.arg]) (by simp [space])
      (fun x hx => hp x (by simp at hx ⊢; rcases hx with h | h; exact Or.inr (Or.inl h); exact Or.inr (Or.inr h)))
      hrest (by simp at hf ⊢; omega)]
    simp

/-- **C11, arguments of every kind.** A well-bracketed sequence of plain pieces — positional arguments (literals,
    variable names) and key-value groups of any number of pairs — of any length: `extractArgs` returns one argument
    per piece, in order, every pair with its own key and its own value. -/
theorem extract_pieces (ps : List Piece) (hp : ∀ x ∈ ps, x.Plain) (hfl : flowAll false ps = true) :
    extractArgsM (joinP ps) = .ok (ps.map Piece.arg) := by
  cases ps with
  | nil => rfl
  | cons p rest =>
    have htl := (text_trim p (hp p (by simp)) [] (by simp)).2
    have hne : (joinP (p :: rest)).length ≠ 0 := by
      cases rest with
      | nil => simp only [joinP]; omega
      | cons b r => simp [joinP]
    have hlen : rest.length < (joinP (p :: rest)).length + 1 := by
      clear hne hp hfl htl
      induction rest generalizing p with
      | nil => simp
      | cons b r ih => have := ih b; simp [joinP] at this ⊢; omega
    unfold extractArgsM extractArgsWith
    simp only [beq_iff_eq, hne, if_false]
    have := extract_pieces_tail rest p [] [] ((joinP (p :: rest)).length + 1) false [] (by simp) hp hfl hlen
    simpa using this

/-! Non-vacuity: `w, {a: 1, b: user.Name}, "x"`… (quotes are not plain; a literal number and names are). -/
def ex : List Piece := [.pos (lit "w"), .kv true false (lit "a") (lit "1"), .kv false true (lit "b") (lit "user.Name"), .pos (lit "7")]
example : joinP ex = lit "w, {a: 1, b: user.Name}, 7" := by decide
example : flowAll false ex = true := by decide
example : extractArgsM (lit "w, {a: 1, b: user.Name}, 7") =
    .ok [⟨[], lit "w", false⟩, ⟨lit "a", lit "1", true⟩, ⟨lit "b", lit "user.Name", false⟩, ⟨[], lit "7", true⟩] := by decide

end DyntplV.C11B
