import DyntplV.Val

/-!
# Decimal text round trip

The model prints integers with `decNat` / `decInt` (what `strconv.AppendInt` does) and reads integer literals with
`parseNatDec` / `parseIntLit` (the decimal case of `strconv.ParseInt`). This file proves the round trip
`parse (print n) = n` for every natural number below `10^40` (the printing fuel) and every integer of that
magnitude — in particular for the whole `int64` / `uint64` range — so that a printed counter, loop variable or
length compares and re-parses as the number it is.
-/

namespace DyntplV.Decimal
open DyntplV

/-- The fold of `parseNatDec`, started from an accumulator. -/
def pfold (acc : Option Nat) (b : Bytes) : Option Nat :=
  b.foldl (fun acc c => match acc with
    | none => none
    | some n => if isDigit c then some (n * 10 + (c.toNat - 48)) else none) acc

theorem pfold_none (b : Bytes) : pfold none b = none := by
  induction b with
  | nil => rfl
  | cons c rest ih => simpa [pfold] using ih

theorem digit_ok (d : Nat) (hd : d < 10) : isDigit (UInt8.ofNat (48 + d)) = true ∧ (UInt8.ofNat (48 + d)).toNat - 48 = d := by
  have : d = 0 ∨ d = 1 ∨ d = 2 ∨ d = 3 ∨ d = 4 ∨ d = 5 ∨ d = 6 ∨ d = 7 ∨ d = 8 ∨ d = 9 := by omega
  rcases this with h | h | h | h | h | h | h | h | h | h <;> subst h <;> decide

/-- Reading the digits `decDigitsAux` produces in front of `acc`: first `n`, then whatever `acc` reads as. -/
theorem pfold_dec : ∀ (fuel n : Nat) (acc : Bytes) (k : Nat), n < 10 ^ fuel → 0 < fuel →
    pfold (some k) (decDigitsAux fuel n acc) = pfold (some (k * 10 ^ (decDigitsAux fuel n []).length + n)) acc := by
  intro fuel
  induction fuel with
  | zero => intro n acc k _ h; omega
  | succ f ih =>
    intro n acc k hn _
    have hd := digit_ok (n % 10) (Nat.mod_lt _ (by omega))
    by_cases h10 : n < 10
    · have hmod : n % 10 = n := Nat.mod_eq_of_lt h10
      rw [hmod] at hd
      simp only [decDigitsAux, h10, if_true, hmod]
      simp only [pfold, List.foldl_cons, hd.1, if_true, hd.2, List.length_singleton, Nat.pow_one]
    · simp only [decDigitsAux, h10, if_false]
      have hf : 0 < f := by
        cases f with
        | zero => simp at hn; omega
        | succ g => omega
      have hn' : n / 10 < 10 ^ f := by
        have : 10 ^ (f + 1) = 10 * 10 ^ f := by rw [Nat.pow_succ]; omega
        rw [this] at hn
        exact Nat.div_lt_of_lt_mul hn
      -- digits of n/10 first, then the last digit d, then acc
      rw [ih (n / 10) (UInt8.ofNat (48 + n % 10) :: acc) k hn' hf]
      have hlen : (decDigitsAux f (n / 10) [UInt8.ofNat (48 + n % 10)]).length = (decDigitsAux f (n / 10) []).length + 1 := by
        have key : ∀ (g m : Nat) (a : Bytes), (decDigitsAux g m a).length = (decDigitsAux g m []).length + a.length := by
          intro g
          induction g with
          | zero => intro m a; simp [decDigitsAux]
          | succ g ihg =>
            intro m a
            by_cases hm : m < 10
            · simp [decDigitsAux, hm]; omega
            · simp only [decDigitsAux, hm, if_false]
              rw [ihg (m / 10) (_ :: a), ihg (m / 10) [_]]
              simp; omega
        rw [key]; simp
      rw [hlen]
      simp only [pfold, List.foldl_cons, hd.1, if_true, hd.2]
      congr 2
      rw [Nat.pow_succ]
      have := Nat.div_add_mod n 10
      -- (k * 10^L + n/10) * 10 + n%10 = k * (10^L * 10) + n
      have e : (k * 10 ^ (decDigitsAux f (n / 10) []).length + n / 10) * 10 + n % 10 =
          k * (10 ^ (decDigitsAux f (n / 10) []).length * 10) + (10 * (n / 10) + n % 10) := by
        rw [Nat.add_mul, Nat.mul_assoc, Nat.mul_comm (n / 10) 10, Nat.add_assoc]
      rw [e, this]

theorem dec_ne_nil : ∀ (fuel n : Nat) (acc : Bytes), 0 < fuel → decDigitsAux fuel n acc ≠ [] := by
  intro fuel
  induction fuel with
  | zero => intro n acc h; omega
  | succ f ih =>
    intro n acc _
    by_cases h10 : n < 10
    · simp [decDigitsAux, h10]
    · simp only [decDigitsAux, h10, if_false]
      cases f with
      | zero => simp [decDigitsAux]
      | succ g => exact ih _ _ (by omega)

/-- **Round trip for natural numbers** (everything `decNat` prints completely: below `10^40`). -/
theorem parseNatDec_decNat (n : Nat) (h : n < 10 ^ 40) : parseNatDec (decNat n) = some n := by
  unfold parseNatDec
  have hne : (decNat n).isEmpty = false := by
    cases hh : decNat n with
    | nil => exact absurd hh (dec_ne_nil 40 n [] (by omega))
    | cons _ _ => rfl
  simp only [hne, Bool.false_eq_true, if_false]
  have := pfold_dec 40 n [] 0 h (by omega)
  simp only [pfold, Nat.zero_mul, Nat.zero_add, List.foldl_nil] at this
  exact this

/-- **Round trip for integers**: `parseIntLit (decInt i) = i`. -/
theorem parseIntLit_decInt (i : Int) (h : i.natAbs < 10 ^ 40) : parseIntLit (decInt i) = some i := by
  unfold decInt
  by_cases hneg : i < 0
  · simp only [hneg, if_true, parseIntLit, parseNatDec_decNat _ h, Option.map_some]
    congr 1
    have h1 : ((i.natAbs : Nat) : Int) = -i := Int.ofNat_natAbs_of_nonpos (by omega)
    show -((i.natAbs : Nat) : Int) = i
    rw [h1]; omega
  · simp only [hneg, if_false]
    -- the first byte of a printed natural number is a digit, neither '-' nor '+'
    have hfirst : ∀ c rest, decNat i.natAbs = c :: rest → c ≠ 45 ∧ c ≠ 43 := by
      intro c rest hc
      have hp := parseNatDec_decNat _ h
      rw [hc] at hp
      unfold parseNatDec at hp
      simp only [List.isEmpty_cons, Bool.false_eq_true, if_false, List.foldl_cons] at hp
      by_cases hdg : isDigit c = true
      · constructor <;> (intro hcc; subst hcc; simp [isDigit] at hdg)
      · simp only [hdg, Bool.false_eq_true, if_false] at hp
        have hnone := pfold_none rest
        simp only [pfold] at hnone
        exact absurd (hnone.symm.trans hp) (by simp)
    cases hc : decNat i.natAbs with
    | nil => exact absurd hc (dec_ne_nil 40 _ [] (by omega))
    | cons c rest =>
      obtain ⟨h1, h2⟩ := hfirst c rest hc
      have hp := parseNatDec_decNat _ h
      rw [hc] at hp
      unfold parseIntLit
      split
      · rename_i r heq; injection heq with hh; exact absurd hh h1
      · rename_i r heq; injection heq with hh; exact absurd hh h2
      · rename_i heq1 heq2
        simp only [hp, Option.map_some]
        congr 1
        exact Int.natAbs_of_nonneg (by omega)

/-- In particular for every `int64` and `uint64` (and every length, counter and loop variable of the engine). -/
theorem int64_roundtrip (i : Int) (h1 : -9223372036854775808 ≤ i) (h2 : i ≤ 18446744073709551615) :
    parseIntLit (decInt i) = some i := by
  apply parseIntLit_decInt
  have : i.natAbs ≤ 18446744073709551615 := by omega
  calc i.natAbs ≤ 18446744073709551615 := this
    _ < 10 ^ 40 := by decide

/-- A signed 64-bit value compares equal to its own printed text, and strictly below / above the text of a larger /
    smaller value: the comparison of a variable with a number written in the template is the comparison of the numbers. -/
theorem int_cmp_printed (a b : Int) (o : Op) (ha : -9223372036854775808 ≤ b) (hb : b ≤ 9223372036854775807) :
    (Val.int a).cmpLit o (decInt b) = some (cmpOrd o (compare a b)) := by
  have hp := int64_roundtrip b ha (by omega)
  simp [Val.cmpLit, parseInt64Lit, hp, ha, hb]

theorem int_eq_own_text (a : Int) (h1 : -9223372036854775808 ≤ a) (h2 : a ≤ 9223372036854775807) :
    (Val.int a).cmpLit .eq (decInt a) = some true := by
  rw [int_cmp_printed a a .eq h1 h2]
  simp [cmpOrd, Int.compare_eq_eq.mpr rfl]

/-! Non-vacuity. -/
example : decInt (-9223372036854775808) = lit "-9223372036854775808" := by decide
example : parseIntLit (lit "18446744073709551615") = some 18446744073709551615 := by decide

end DyntplV.Decimal
