import DyntplV.Mods.Round
import DyntplV.Mods.Operands
/-!
# C20 — numeric and date modifiers compute the mathematically right value (exact part)

Property theorems about the exact specification of the rounding operations (`DyntplV.Round`) and about the
operand selection of the `math::*` modifiers (`DyntplV.Operands`).

A value is `num/den` (`den > 0`); `N := scaled k num = num·10^k` is the numerator of `x·10^k`, so
`x·10^k = N/den`, and an inequality like `n ≤ x·10^k < n+1` is stated, multiplied through by `den`, as
`n·den ≤ N < n·den + den`.  All statements are for every `Int` numerator, every positive `Nat` denominator
and every number of decimals `k`; the `Dec` corollaries (denominator `10^e`) carry no hypothesis at all.

Floating point is not modelled: the tie to the Go code is the harness (`harness/c20.go`), which sends every
tested float64 as the exact decimal it is, and compares the rendered result with this specification.
-/
namespace DyntplV.C20
open DyntplV.Round DyntplV.Operands

/-! ## Floor division by a positive divisor -/

theorem fdiv_spec (N D : Int) (hD : 0 < D) : N / D * D ≤ N ∧ N < N / D * D + D := by
  have h1 := Int.ediv_mul_le N (Int.ne_of_gt hD)
  have h2 := Int.lt_ediv_add_one_mul_self N hD
  rw [Int.add_mul, Int.one_mul] at h2
  exact ⟨h1, h2⟩

theorem fdiv_unique (N D z : Int) (hD : 0 < D) (h1 : z * D ≤ N) (h2 : N < z * D + D) : N / D = z := by
  have a : z ≤ N / D := (Int.le_ediv_iff_mul_le hD).mpr h1
  have b : N / D < z + 1 := by
    apply (Int.ediv_lt_iff_lt_mul hD).mpr
    rw [Int.add_mul, Int.one_mul]; exact h2
  omega

/-- Monotone across denominators: `N1/D1 ≤ N2/D2` (cross-multiplied) gives `⌊N1/D1⌋ ≤ ⌊N2/D2⌋`. -/
theorem fdiv_mono (N1 D1 N2 D2 : Int) (h1 : 0 < D1) (h2 : 0 < D2) (h : N1 * D2 ≤ N2 * D1) :
    N1 / D1 ≤ N2 / D2 := by
  apply (Int.le_ediv_iff_mul_le h2).mpr
  have hq := (fdiv_spec N1 D1 h1).1
  have := Int.mul_le_mul_of_nonneg_right hq (Int.le_of_lt h2)
  have key : N1 / D1 * D2 * D1 ≤ N2 * D1 := by grind
  exact Int.le_of_mul_le_mul_right key h1

theorem pow10_pos (k : Nat) : (0 : Int) < (10 : Int) ^ k := Int.pow_pos (by decide)

theorem scaled_nonneg {k : Nat} {n : Int} (h : 0 ≤ n) : 0 ≤ scaled k n :=
  Int.mul_nonneg h (Int.le_of_lt (pow10_pos k))

theorem scaled_nonpos {k : Nat} {n : Int} (h : n ≤ 0) : scaled k n ≤ 0 := by
  have := Int.mul_le_mul_of_nonneg_right h (Int.le_of_lt (pow10_pos k))
  simpa [scaled] using this

theorem scaled_neg {k : Nat} {n : Int} (h : n < 0) : scaled k n < 0 := by
  have := Int.mul_lt_mul_of_pos_right h (pow10_pos k)
  simpa [scaled] using this

theorem scaled_mono {k : Nat} {a b : Int} (h : a ≤ b) : scaled k a ≤ scaled k b :=
  Int.mul_le_mul_of_nonneg_right h (Int.le_of_lt (pow10_pos k))

theorem cast_pos {d : Nat} (hd : 0 < d) : (0 : Int) < (d : Int) := Int.natCast_pos.mpr hd

/-! ## Defining inequalities -/

/-- **floor**: `n ≤ x·10^k < n + 1`. -/
theorem floor_spec (k : Nat) (num : Int) (den : Nat) (hd : 0 < den) :
    floorAt k num den * den ≤ scaled k num ∧ scaled k num < floorAt k num den * den + den :=
  fdiv_spec _ _ (cast_pos hd)

/-- `floorAt` is the only integer with that property. -/
theorem floor_unique (k : Nat) (num : Int) (den : Nat) (hd : 0 < den) (z : Int)
    (h1 : z * den ≤ scaled k num) (h2 : scaled k num < z * den + den) : floorAt k num den = z :=
  fdiv_unique _ _ _ (cast_pos hd) h1 h2

example : floorAt 2 (-314159) (10 ^ 5) = -315 := by decide
example : floorAt 2 57 100 = 57 ∧ floorAt 1 57 100 = 5 ∧ floorAt 0 (-1) 2 = -1 := by decide

/-- **ceil**: `n − 1 < x·10^k ≤ n`. -/
theorem ceil_spec (k : Nat) (num : Int) (den : Nat) (hd : 0 < den) :
    ceilAt k num den * den - den < scaled k num ∧ scaled k num ≤ ceilAt k num den * den := by
  have h := fdiv_spec (-(scaled k num)) den (cast_pos hd)
  unfold ceilAt
  rw [Int.neg_mul]
  omega

theorem ceil_unique (k : Nat) (num : Int) (den : Nat) (hd : 0 < den) (z : Int)
    (h1 : z * den - den < scaled k num) (h2 : scaled k num ≤ z * den) : ceilAt k num den = z := by
  have : -(scaled k num) / (den : Int) = -z := by
    apply fdiv_unique _ _ _ (cast_pos hd)
    · rw [Int.neg_mul]; omega
    · rw [Int.neg_mul]; omega
  unfold ceilAt; omega

example : ceilAt 2 (-314159) (10 ^ 5) = -314 := by decide
example : ceilAt 3 5668734 (10 ^ 5) = 56688 ∧ ceilAt 0 1 2 = 1 ∧ ceilAt 0 (-1) 2 = 0 := by decide

/-- **toward zero**, non-negative values: the floor. -/
theorem trunc_of_nonneg (k : Nat) (num : Int) (den : Nat) (h : 0 ≤ num) :
    truncAt k num den = floorAt k num den :=
  Int.tdiv_eq_ediv_of_nonneg (scaled_nonneg h)

/-- **toward zero**, non-positive values: the ceiling. -/
theorem trunc_of_nonpos (k : Nat) (num : Int) (den : Nat) (h : num ≤ 0) :
    truncAt k num den = ceilAt k num den := by
  have hs := scaled_nonpos (k := k) h
  unfold truncAt ceilAt
  have e : scaled k num = -(-(scaled k num)) := by omega
  rw [e, Int.neg_tdiv, Int.tdiv_eq_ediv_of_nonneg (by omega)]
  simp

theorem trunc_of_neg (k : Nat) (num : Int) (den : Nat) (h : num < 0) :
    truncAt k num den = ceilAt k num den := trunc_of_nonpos k num den (Int.le_of_lt h)

/-- **toward zero** as inequalities: the result lies between 0 and the value, less than one unit from the value. -/
theorem trunc_spec (k : Nat) (num : Int) (den : Nat) (hd : 0 < den) :
    (0 ≤ num → 0 ≤ truncAt k num den ∧ truncAt k num den * den ≤ scaled k num ∧
      scaled k num < truncAt k num den * den + den) ∧
    (num ≤ 0 → truncAt k num den ≤ 0 ∧ truncAt k num den * den - den < scaled k num ∧
      scaled k num ≤ truncAt k num den * den) := by
  constructor
  · intro h
    rw [trunc_of_nonneg k num den h]
    have hs := floor_spec k num den hd
    refine ⟨?_, hs.1, hs.2⟩
    exact Int.ediv_nonneg (scaled_nonneg h) (Int.le_of_lt (cast_pos hd))
  · intro h
    rw [trunc_of_nonpos k num den h]
    have hs := ceil_spec k num den hd
    refine ⟨?_, hs.1, hs.2⟩
    have : 0 ≤ -(scaled k num) / (den : Int) :=
      Int.ediv_nonneg (by have := scaled_nonpos (k := k) h; omega) (Int.le_of_lt (cast_pos hd))
    unfold ceilAt; omega

example : truncAt 3 31415 (10 ^ 4) = 3141 ∧ truncAt 2 (-314159) (10 ^ 5) = -314 := by decide
example : truncAt 0 (-7) 2 = -3 ∧ floorAt 0 (-7) 2 = -4 ∧ ceilAt 0 (-7) 2 = -3 := by decide

/-- **nearest, ties away from zero**: `|x·10^k − n| ≤ 1/2`; at distance exactly 1/2 the result is the one
    farther from zero (strict bound on the far side). -/
theorem round_spec (k : Nat) (num : Int) (den : Nat) (hd : 0 < den) :
    2 * (roundHalfAwayAt k num den * den) - den ≤ 2 * scaled k num ∧
    2 * scaled k num ≤ 2 * (roundHalfAwayAt k num den * den) + den ∧
    (0 ≤ num → 2 * scaled k num < 2 * (roundHalfAwayAt k num den * den) + den) ∧
    (num < 0 → 2 * (roundHalfAwayAt k num den * den) - den < 2 * scaled k num) := by
  have hD := cast_pos hd
  have h2D : (0 : Int) < 2 * (den : Int) := by omega
  unfold roundHalfAwayAt
  by_cases hs : 0 ≤ scaled k num
  · rw [if_pos hs]
    have h := fdiv_spec (2 * scaled k num + den) (2 * (den : Int)) h2D
    have e : (2 * scaled k num + (den : Int)) / (2 * (den : Int)) * (2 * (den : Int)) =
        2 * ((2 * scaled k num + (den : Int)) / (2 * (den : Int)) * (den : Int)) := by grind
    rw [e] at h
    refine ⟨by omega, by omega, fun _ => by omega, fun hn => ?_⟩
    have := scaled_neg (k := k) hn; omega
  · rw [if_neg hs]
    have h := fdiv_spec (2 * -(scaled k num) + den) (2 * (den : Int)) h2D
    have e : (2 * -(scaled k num) + (den : Int)) / (2 * (den : Int)) * (2 * (den : Int)) =
        2 * ((2 * -(scaled k num) + (den : Int)) / (2 * (den : Int)) * (den : Int)) := by grind
    rw [e] at h
    rw [Int.neg_mul]
    refine ⟨by omega, by omega, fun hn => ?_, fun _ => by omega⟩
    have := scaled_nonneg (k := k) hn; omega

/-- `roundHalfAwayAt` is the only integer within 1/2 that takes ties away from zero. -/
theorem round_unique (k : Nat) (num : Int) (den : Nat) (hd : 0 < den) (z : Int)
    (h1 : 2 * (z * den) - den ≤ 2 * scaled k num) (h2 : 2 * scaled k num ≤ 2 * (z * den) + den)
    (hp : 0 ≤ num → 2 * scaled k num < 2 * (z * den) + den)
    (hn : num < 0 → 2 * (z * den) - den < 2 * scaled k num) : roundHalfAwayAt k num den = z := by
  have hD := cast_pos hd
  have h2D : (0 : Int) < 2 * (den : Int) := by omega
  unfold roundHalfAwayAt
  by_cases hs : 0 ≤ scaled k num
  · rw [if_pos hs]
    have hnum : 0 ≤ num := by
      apply Classical.byContradiction; intro hc
      have := scaled_neg (k := k) (show num < 0 by omega); omega
    have := hp hnum
    apply fdiv_unique _ _ _ h2D
    · have e : z * (2 * (den : Int)) = 2 * (z * den) := by grind
      rw [e]; omega
    · have e : z * (2 * (den : Int)) = 2 * (z * den) := by grind
      rw [e]; omega
  · rw [if_neg hs]
    have hnum : num < 0 := by
      apply Classical.byContradiction; intro hc
      have := scaled_nonneg (k := k) (show 0 ≤ num by omega); omega
    have := hn hnum
    have : (2 * -(scaled k num) + (den : Int)) / (2 * (den : Int)) = -z := by
      apply fdiv_unique _ _ _ h2D
      · have e : -z * (2 * (den : Int)) = -(2 * (z * den)) := by grind
        rw [e]; omega
      · have e : -z * (2 * (den : Int)) = -(2 * (z * den)) := by grind
        rw [e]; omega
    omega

example : roundHalfAwayAt 0 5 2 = 3 ∧ roundHalfAwayAt 0 (-5) 2 = -3 := by decide          -- ties: 2.5 → 3, −2.5 → −3
example : roundHalfAwayAt 0 49 20 = 2 ∧ roundHalfAwayAt 0 (-49) 20 = -2 := by decide      -- 2.45 → 2
example : roundHalfAwayAt 2 (-314159) (10 ^ 5) = -314 ∧ roundHalfAwayAt 3 (-314159) (10 ^ 5) = -3142 := by decide
example : roundHalfAwayAt 1 25 100 = 3 ∧ roundHalfAwayAt 1 (-25) 100 = -3 ∧ roundHalfAwayAt 1 24 100 = 2 := by decide

/-! ## Order between the four results -/

theorem floor_le_ceil (k : Nat) (num : Int) (den : Nat) (hd : 0 < den) :
    floorAt k num den ≤ ceilAt k num den ∧ ceilAt k num den ≤ floorAt k num den + 1 := by
  have hD := cast_pos hd
  have f := floor_spec k num den hd
  have c := ceil_spec k num den hd
  constructor
  · have : floorAt k num den * den ≤ ceilAt k num den * den := by omega
    exact Int.le_of_mul_le_mul_right this hD
  · have : ceilAt k num den * den < (floorAt k num den + 1 + 1) * den := by
      rw [Int.add_mul, Int.add_mul, Int.one_mul]; omega
    have := Int.lt_of_mul_lt_mul_right this (Int.le_of_lt hD)
    omega

theorem floor_le_trunc_le_ceil (k : Nat) (num : Int) (den : Nat) (hd : 0 < den) :
    floorAt k num den ≤ truncAt k num den ∧ truncAt k num den ≤ ceilAt k num den := by
  have h := floor_le_ceil k num den hd
  by_cases hn : 0 ≤ num
  · rw [trunc_of_nonneg k num den hn]; omega
  · rw [trunc_of_nonpos k num den (by omega)]; omega

theorem floor_le_round_le_ceil (k : Nat) (num : Int) (den : Nat) (hd : 0 < den) :
    floorAt k num den ≤ roundHalfAwayAt k num den ∧ roundHalfAwayAt k num den ≤ ceilAt k num den := by
  have hD := cast_pos hd
  have f := floor_spec k num den hd
  have c := ceil_spec k num den hd
  have r := round_spec k num den hd
  constructor
  · have : floorAt k num den * den < (roundHalfAwayAt k num den + 1) * den := by
      rw [Int.add_mul, Int.one_mul]; omega
    have := Int.lt_of_mul_lt_mul_right this (Int.le_of_lt hD)
    omega
  · have : (roundHalfAwayAt k num den - 1) * den < ceilAt k num den * den := by
      rw [Int.sub_mul, Int.one_mul]; omega
    have := Int.lt_of_mul_lt_mul_right this (Int.le_of_lt hD)
    omega

/-! ## A value that is already a multiple of 10^-k is unchanged; idempotence -/

/-- If `x·10^k` is the integer `z`, each of the four operations returns `z`. -/
theorem apply_exact (o : Op) (k : Nat) (num : Int) (den : Nat) (hd : 0 < den) (z : Int)
    (h : scaled k num = z * den) : o.apply k num den = z := by
  have hD := cast_pos hd
  cases o with
  | floor => exact floor_unique k num den hd z (by omega) (by omega)
  | ceil => exact ceil_unique k num den hd z (by omega) (by omega)
  | trunc =>
    show truncAt k num den = z
    by_cases hn : 0 ≤ num
    · rw [trunc_of_nonneg k num den hn]; exact floor_unique k num den hd z (by omega) (by omega)
    · rw [trunc_of_nonpos k num den (by omega)]; exact ceil_unique k num den hd z (by omega) (by omega)
  | round =>
    exact round_unique k num den hd z (by omega) (by omega) (fun _ => by omega) (fun _ => by omega)

theorem natCast_pow10 (k : Nat) : (((10 ^ k : Nat)) : Int) = (10 : Int) ^ k := by
  rw [Int.natCast_pow]; rfl

/-- **Idempotence**: rounding an already rounded value (`n/10^k`, at `k` decimals) changes nothing —
    for every operation, in particular composing two *different* operations returns the first result. -/
theorem round_of_rounded (o : Op) (k : Nat) (n : Int) : o.apply k n (10 ^ k) = n :=
  apply_exact o k n (10 ^ k) (Nat.pow_pos (by decide)) n (by rw [natCast_pow10]; rfl)

theorem idempotent (o o' : Op) (k : Nat) (num : Int) (den : Nat) :
    o'.apply k (o.apply k num den) (10 ^ k) = o.apply k num den :=
  round_of_rounded o' k _

theorem floor_idem (k : Nat) (num : Int) (den : Nat) : floorAt k (floorAt k num den) (10 ^ k) = floorAt k num den :=
  idempotent .floor .floor k num den
theorem ceil_idem (k : Nat) (num : Int) (den : Nat) : ceilAt k (ceilAt k num den) (10 ^ k) = ceilAt k num den :=
  idempotent .ceil .ceil k num den
theorem trunc_idem (k : Nat) (num : Int) (den : Nat) : truncAt k (truncAt k num den) (10 ^ k) = truncAt k num den :=
  idempotent .trunc .trunc k num den
theorem round_idem (k : Nat) (num : Int) (den : Nat) :
    roundHalfAwayAt k (roundHalfAwayAt k num den) (10 ^ k) = roundHalfAwayAt k num den :=
  idempotent .round .round k num den

/-- Rounding a value with `j` decimals at a finer precision `k ≥ j` only re-scales it. -/
theorem finer_precision (o : Op) (j k : Nat) (h : j ≤ k) (n : Int) :
    o.apply k n (10 ^ j) = n * (10 : Int) ^ (k - j) := by
  apply apply_exact o k n (10 ^ j) (Nat.pow_pos (by decide))
  rw [natCast_pow10, Int.mul_assoc, ← Int.pow_add]
  have : k - j + j = k := by omega
  rw [this]; rfl

example : Op.floor.apply 2 (Op.floor.apply 2 (-314159) (10 ^ 5)) (10 ^ 2) = -315 := by decide
example : Op.round.apply 4 (-315) (10 ^ 2) = -31500 := by decide

/-! ## Monotonicity -/

/-- Each operation is monotone in the value: `num1/den1 ≤ num2/den2` (cross-multiplied). -/
theorem floor_mono (k : Nat) (n1 : Int) (d1 : Nat) (n2 : Int) (d2 : Nat) (h1 : 0 < d1) (h2 : 0 < d2)
    (h : n1 * d2 ≤ n2 * d1) : floorAt k n1 d1 ≤ floorAt k n2 d2 := by
  apply fdiv_mono _ _ _ _ (cast_pos h1) (cast_pos h2)
  have := Int.mul_le_mul_of_nonneg_right h (Int.le_of_lt (pow10_pos k))
  unfold scaled; grind

theorem ceil_mono (k : Nat) (n1 : Int) (d1 : Nat) (n2 : Int) (d2 : Nat) (h1 : 0 < d1) (h2 : 0 < d2)
    (h : n1 * d2 ≤ n2 * d1) : ceilAt k n1 d1 ≤ ceilAt k n2 d2 := by
  have : -(scaled k n2) / (d2 : Int) ≤ -(scaled k n1) / (d1 : Int) := by
    apply fdiv_mono _ _ _ _ (cast_pos h2) (cast_pos h1)
    have := Int.mul_le_mul_of_nonneg_right h (Int.le_of_lt (pow10_pos k))
    unfold scaled; grind
  unfold ceilAt; omega

/-- Sign facts used for the sign-split operations. -/
theorem floor_nonneg (k : Nat) (num : Int) (den : Nat) (h : 0 ≤ num) : 0 ≤ floorAt k num den :=
  Int.ediv_nonneg (scaled_nonneg h) (Int.natCast_nonneg _)

theorem ceil_nonpos (k : Nat) (num : Int) (den : Nat) (h : num ≤ 0) : ceilAt k num den ≤ 0 := by
  have : 0 ≤ -(scaled k num) / (den : Int) :=
    Int.ediv_nonneg (by have := scaled_nonpos (k := k) h; omega) (Int.natCast_nonneg _)
  unfold ceilAt; omega

theorem cross_sign {n1 n2 : Int} {d1 d2 : Nat} (h1 : 0 < d1) (h2 : 0 < d2)
    (h : n1 * d2 ≤ n2 * d1) (hn : 0 ≤ n1) : 0 ≤ n2 := by
  apply Classical.byContradiction; intro hc
  have a : n2 * (d1 : Int) < 0 := Int.mul_neg_of_neg_of_pos (by omega) (cast_pos h1)
  have b : 0 ≤ n1 * (d2 : Int) := Int.mul_nonneg hn (Int.le_of_lt (cast_pos h2))
  omega

theorem trunc_mono (k : Nat) (n1 : Int) (d1 : Nat) (n2 : Int) (d2 : Nat) (h1 : 0 < d1) (h2 : 0 < d2)
    (h : n1 * d2 ≤ n2 * d1) : truncAt k n1 d1 ≤ truncAt k n2 d2 := by
  by_cases p1 : 0 ≤ n1
  · have p2 := cross_sign h1 h2 h p1
    rw [trunc_of_nonneg k n1 d1 p1, trunc_of_nonneg k n2 d2 p2]
    exact floor_mono k n1 d1 n2 d2 h1 h2 h
  · by_cases p2 : 0 ≤ n2
    · rw [trunc_of_nonpos k n1 d1 (by omega), trunc_of_nonneg k n2 d2 p2]
      have a := ceil_nonpos k n1 d1 (by omega)
      have b := floor_nonneg k n2 d2 p2
      omega
    · rw [trunc_of_nonpos k n1 d1 (by omega), trunc_of_nonpos k n2 d2 (by omega)]
      exact ceil_mono k n1 d1 n2 d2 h1 h2 h

theorem round_mono (k : Nat) (n1 : Int) (d1 : Nat) (n2 : Int) (d2 : Nat) (h1 : 0 < d1) (h2 : 0 < d2)
    (h : n1 * d2 ≤ n2 * d1) : roundHalfAwayAt k n1 d1 ≤ roundHalfAwayAt k n2 d2 := by
  have hD1 := cast_pos h1
  have hD2 := cast_pos h2
  have hs : scaled k n1 * d2 ≤ scaled k n2 * d1 := by
    have := Int.mul_le_mul_of_nonneg_right h (Int.le_of_lt (pow10_pos k))
    unfold scaled; grind
  unfold roundHalfAwayAt
  by_cases p1 : 0 ≤ scaled k n1
  · have p2 : 0 ≤ scaled k n2 := by
      apply Classical.byContradiction; intro hc
      have a : scaled k n2 * (d1 : Int) < 0 := Int.mul_neg_of_neg_of_pos (by omega) hD1
      have b : 0 ≤ scaled k n1 * (d2 : Int) := Int.mul_nonneg p1 (Int.le_of_lt hD2)
      omega
    rw [if_pos p1, if_pos p2]
    apply fdiv_mono _ _ _ _ (by omega) (by omega)
    grind
  · by_cases p2 : 0 ≤ scaled k n2
    · rw [if_neg p1, if_pos p2]
      have a : 0 ≤ (2 * -(scaled k n1) + (d1 : Int)) / (2 * (d1 : Int)) :=
        Int.ediv_nonneg (by omega) (by omega)
      have b : 0 ≤ (2 * scaled k n2 + (d2 : Int)) / (2 * (d2 : Int)) :=
        Int.ediv_nonneg (by omega) (by omega)
      omega
    · rw [if_neg p1, if_neg p2]
      have : (2 * -(scaled k n2) + (d2 : Int)) / (2 * (d2 : Int)) ≤
          (2 * -(scaled k n1) + (d1 : Int)) / (2 * (d1 : Int)) := by
        apply fdiv_mono _ _ _ _ (by omega) (by omega)
        grind
      omega

/-- Monotonicity of every operation, in one statement. -/
theorem apply_mono (o : Op) (k : Nat) (n1 : Int) (d1 : Nat) (n2 : Int) (d2 : Nat) (h1 : 0 < d1) (h2 : 0 < d2)
    (h : n1 * d2 ≤ n2 * d1) : o.apply k n1 d1 ≤ o.apply k n2 d2 := by
  cases o with
  | floor => exact floor_mono k n1 d1 n2 d2 h1 h2 h
  | ceil => exact ceil_mono k n1 d1 n2 d2 h1 h2 h
  | trunc => exact trunc_mono k n1 d1 n2 d2 h1 h2 h
  | round => exact round_mono k n1 d1 n2 d2 h1 h2 h

example : floorAt 2 (-314159) (10 ^ 5) ≤ floorAt 2 (-314) (10 ^ 2) := by decide
example : roundHalfAwayAt 1 (-25) 100 ≤ roundHalfAwayAt 1 (-24) 100 := by decide

/-! ## Exact decimals (`m/10^e`): the same statements without hypotheses -/

theorem dec_den_pos (x : Dec) : 0 < x.den := Nat.pow_pos (by decide)

theorem dec_floor_spec (k : Nat) (x : Dec) :
    x.floorAt k * x.den ≤ scaled k x.m ∧ scaled k x.m < x.floorAt k * x.den + x.den :=
  floor_spec k x.m x.den (dec_den_pos x)

theorem dec_ceil_spec (k : Nat) (x : Dec) :
    x.ceilAt k * x.den - x.den < scaled k x.m ∧ scaled k x.m ≤ x.ceilAt k * x.den :=
  ceil_spec k x.m x.den (dec_den_pos x)

theorem dec_trunc_spec (k : Nat) (x : Dec) :
    (0 ≤ x.m → x.truncAt k = x.floorAt k) ∧ (x.m ≤ 0 → x.truncAt k = x.ceilAt k) :=
  ⟨trunc_of_nonneg k x.m x.den, trunc_of_nonpos k x.m x.den⟩

theorem dec_round_spec (k : Nat) (x : Dec) :
    2 * (x.roundHalfAwayAt k * x.den) - x.den ≤ 2 * scaled k x.m ∧
    2 * scaled k x.m ≤ 2 * (x.roundHalfAwayAt k * x.den) + x.den ∧
    (0 ≤ x.m → 2 * scaled k x.m < 2 * (x.roundHalfAwayAt k * x.den) + x.den) ∧
    (x.m < 0 → 2 * (x.roundHalfAwayAt k * x.den) - x.den < 2 * scaled k x.m) :=
  round_spec k x.m x.den (dec_den_pos x)

/-- Idempotence on decimals: the rounded value, rounded again by any operation at the same precision, is itself. -/
theorem dec_idempotent (o o' : Op) (k : Nat) (x : Dec) :
    Dec.rounded o' k (Dec.rounded o k x) = Dec.rounded o k x := by
  show (⟨o'.apply k (o.apply k x.m x.den) (10 ^ k), k⟩ : Dec) = ⟨o.apply k x.m x.den, k⟩
  rw [idempotent]

/-- Monotonicity on decimals (`x ≤ y` cross-multiplied). -/
theorem dec_mono (o : Op) (k : Nat) (x y : Dec) (h : x.m * y.den ≤ y.m * x.den) :
    Dec.apply o k x ≤ Dec.apply o k y :=
  apply_mono o k x.m x.den y.m y.den (dec_den_pos x) (dec_den_pos y) h

example : Dec.floorAt 2 ⟨-314159, 5⟩ = -315 := by decide
example : Dec.ceilAt 3 ⟨5668734, 5⟩ = 56688 ∧ Dec.floorAt 3 ⟨20214999, 6⟩ = 20214 := by decide   -- documented examples
example : Dec.truncAt 3 ⟨31415, 4⟩ = 3141 := by decide                                              -- roundPrec(3) of 3.1415
example : Dec.rounded .floor 2 (Dec.rounded .ceil 2 ⟨-314159, 5⟩) = ⟨-314, 2⟩ := by decide

/-- What each of the six modifiers means. -/
theorem modifier_table :
    Modifier.round.op = .round ∧ Modifier.roundPrec.op = .trunc ∧ Modifier.ceil.op = .ceil ∧
    Modifier.ceilPrec.op = .ceil ∧ Modifier.floor.op = .floor ∧ Modifier.floorPrec.op = .floor ∧
    (∀ k, Modifier.round.decimals k = 0 ∧ Modifier.ceil.decimals k = 0 ∧ Modifier.floor.decimals k = 0 ∧
      Modifier.roundPrec.decimals k = k ∧ Modifier.ceilPrec.decimals k = k ∧ Modifier.floorPrec.decimals k = k) :=
  ⟨rfl, rfl, rfl, rfl, rfl, rfl, fun _ => ⟨rfl, rfl, rfl, rfl, rfl, rfl⟩⟩

/-! ## Operand selection -/

/-- **Pipe form = function-call form** (two-operand modifiers): `math::add(x, a)` — value absent or
    not numeric, two arguments — selects exactly what `x|math::add(a)` selects, whatever `x` and `a` are. -/
theorem pipe_eq_call {α : Type} (v x a : NumArg α) (hv : floatConv v = none) :
    mathConv2 v [x, a] = mathConv2 x [a] := by
  cases v <;> cases x <;> cases a <;> simp_all [mathConv2, mathConv2With, floatConv]

/-- The function-call form proper: the value slot is nil. -/
theorem pipe_eq_call_nil {α : Type} (x a : NumArg α) : mathConv2 .nil [x, a] = mathConv2 x [a] :=
  pipe_eq_call .nil x a rfl

/-- Numeric operands: both forms compute with `(x, a)` in this order. -/
theorem pipe_call_operands {α : Type} (x a : α) :
    mathConv2 (.num x) [.num a] = .ops x a ∧ mathConv2 .nil [.num x, .num a] = .ops x a ∧
    mathConv2 .nonnum [.num x, .num a] = .ops x a := ⟨rfl, rfl, rfl⟩

/-- One-operand modifiers (abs, inc, dec, sqrt, cbrt, exp, log): `math::abs(x)` = `x|math::abs()`. -/
theorem pipe_eq_call_unary {α : Type} (v x : NumArg α) (hv : floatConv v = none) :
    floatConvAny v [x] = floatConvAny x [] := by
  cases v <;> cases x <;> simp_all [floatConvAny, floatConvAnyWith, floatConv]

/-- min / max: `math::max(x, a)` selects the operands of `x|math::max(a)`, in the opposite order
    (`d = args[0]`, `f = args[1]`) — immaterial for the symmetric operations it serves. -/
theorem pipe_eq_call_minmax {α : Type} (v x a : NumArg α) :
    mathConvArgs2 v [x, a] = (mathConvArgs2 x [a]).swap := by
  cases x <;> cases a <;> simp [mathConvArgs2, mathConvArgs2With, mathConv2With, floatConv, Sel2.swap]

/-- Extra arguments never change the selection of the pipe form. -/
theorem pipe_ignores_extra {α : Type} (x : α) (a : NumArg α) (rest : List (NumArg α)) :
    mathConv2 (.num x) (a :: rest) = mathConv2 (.num x) [a] := by
  cases a <;> simp [mathConv2, mathConv2With, floatConv]

example : mathConv2 (.num "v") [.num "a0"] = .ops "v" "a0" := by decide
example : mathConv2 (.nil : NumArg String) [.num "a0", .num "a1"] = .ops "a0" "a1" := by decide
example : mathConv2 (.nonnum : NumArg String) [.num "a0"] = .none := by decide
example : mathConv2 (.num "v") ([] : List (NumArg String)) = .poor := by decide
example : mathConvArgs2 (.nil : NumArg String) [.num "a0", .num "a1"] = .ops "a1" "a0" := by decide
example : mathConvArgs2 (.num "v") [.num "a0"] = .ops "v" "a0" := by decide
example : floatConvAny (.nil : NumArg String) [.num "a0"] = some "a0" := by decide
-- the pre-repair selections differ exactly where the defects were
example : floatConvOnly (.nil : NumArg String) [.num "a0"] = none := by decide
example : mathConvArgs2Old "0" (.num "v") [.num "a0"] = .poor := by decide
example : mathConvArgs2Old "0" (.nil : NumArg String) [.nonnum, .num "a1"] = .ops "0" "0" := by decide

/-- The type switch of `floatConv` sees exactly numeric-ness and value. -/
theorem floatConvC_abs {α : Type} (c : Carrier α) : floatConvC c = floatConv c.abs := by
  cases c with
  | nil => rfl
  | scalar k p v => cases k <;> rfl
  | text k p parse => cases k <;> cases parse <;> rfl
  | other => rfl

theorem floatConvC_eq_comp {α : Type} : (floatConvC : Carrier α → Option α) = fun c => floatConv c.abs :=
  funext floatConvC_abs

/-- The selection on carriers factors through the abstraction. -/
theorem mathConv2C_abs {α : Type} (v : Carrier α) (as : List (Carrier α)) :
    mathConv2C v as = mathConv2 v.abs (as.map Carrier.abs) := by
  unfold mathConv2C mathConv2
  rw [floatConvC_eq_comp]
  exact mathConv2With_comp floatConv Carrier.abs v as

theorem floatConvAnyC_abs {α : Type} (v : Carrier α) (as : List (Carrier α)) :
    floatConvAnyC v as = floatConvAny v.abs (as.map Carrier.abs) := by
  unfold floatConvAnyC floatConvAny
  rw [floatConvC_eq_comp]
  exact floatConvAnyWith_comp floatConv Carrier.abs v as

theorem mathConvArgs2C_abs {α : Type} (v : Carrier α) (as : List (Carrier α)) :
    mathConvArgs2C v as = mathConvArgs2 v.abs (as.map Carrier.abs) := by
  unfold mathConvArgs2C mathConvArgs2
  rw [floatConvC_eq_comp]
  exact mathConvArgs2With_comp floatConv Carrier.abs v as

/-- **Carrier independence**: two calls whose operands agree in numeric-ness and value — in whatever integer,
    float, pointer or numeric-text kind they arrive — select the same operands (all three selection functions). -/
theorem carrier_indep {α : Type} (v v' : Carrier α) (as as' : List (Carrier α))
    (hv : v.abs = v'.abs) (has : as.map Carrier.abs = as'.map Carrier.abs) :
    mathConv2C v as = mathConv2C v' as' ∧ floatConvAnyC v as = floatConvAnyC v' as' ∧
    mathConvArgs2C v as = mathConvArgs2C v' as' := by
  simp only [mathConv2C_abs, floatConvAnyC_abs, mathConvArgs2C_abs, hv, has, and_self]

/-- Every scalar kind, by value or by pointer, and every parsable text converts to its value. -/
theorem every_numeric_kind_converts {α : Type} (q : α) :
    (∀ k p, floatConvC (.scalar k p q) = some q) ∧ (∀ k p, floatConvC (.text k p (some q)) = some q) ∧
    (∀ k p, floatConvC (.text k p (none : Option α)) = none) ∧
    floatConvC (.nil : Carrier α) = none ∧ floatConvC (.other : Carrier α) = none := by
  refine ⟨fun k p => ?_, fun k p => ?_, fun k p => ?_, rfl, rfl⟩
  · cases k <;> rfl
  · cases k <;> rfl
  · cases k <;> rfl

/-- In particular: `int8(5)|math::add("3.5")` and `math::add(*float64 5, []byte "3.5")` use the same operands. -/
example : mathConv2C (.scalar .int8 false (5 : Nat)) [.text .string false (some 35)] =
    mathConv2C .nil [.scalar .float64 true 5, .text .bytes false (some 35)] := by decide
example : mathConv2C (.scalar .uint64 true "v") [.text .bytes true (some "a0")] = .ops "v" "a0" := by decide
example : mathConv2C (.text .string false none) [.scalar .int false "a0"] = (.none : Sel2 String) := by decide

end DyntplV.C20
