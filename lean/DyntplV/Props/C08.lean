import DyntplV.Esc.Html
import DyntplV.HexLemmas
/-!
# C08 — HTML and attribute escaping neutralise markup and decode back to the input
-/
namespace DyntplV.C08
open DyntplV DyntplV.Html

theorem plain_facts : ∀ c : UInt8,
    (c == 60) = false → (c == 62) = false → (c == 34) = false → (c == 39) = false → (c == 38) = false →
    (c != 38) = true := by
  apply u8_forall; decide +kernel

/-- Step lemma: the general reference decoder undoes one escaped byte, whatever follows. -/
theorem decUnit_encByte (c : UInt8) (rest : Bytes) : decUnit (encByte c ++ rest) = some ([c], rest) := by
  unfold encByte
  split
  · next h => have : c = 60 := by simpa using h
              subst this; rfl
  split
  · next h => have : c = 62 := by simpa using h
              subst this; rfl
  split
  · next h => have : c = 34 := by simpa using h
              subst this; rfl
  split
  · next h => have : c = 39 := by simpa using h
              subst this; rfl
  split
  · next h => have : c = 38 := by simpa using h
              subst this; rfl
  · next h1 h2 h3 h4 h5 =>
    have := plain_facts c (by simpa using h1) (by simpa using h2) (by simpa using h3) (by simpa using h4) (by simpa using h5)
    simp only [List.cons_append, List.nil_append, decUnit, this]
    simp

theorem encByte_pos (c : UInt8) : 0 < (encByte c).length := by
  unfold encByte
  repeat (first | split | simp)

/-- **HTML round trip** for every byte string. -/
theorem html_roundtrip (s : Bytes) : unescape (escape s) = some s := by
  have := decLoop_roundtrip decUnit encByte (fun c => [c]) decUnit_encByte encByte_pos s
    (escape s).length (Nat.le_refl _)
  simpa [unescape, escape] using this

theorem al_encByte : ∀ c : UInt8, (encByte c).foldl alStep (some 0) = some 0 := by
  apply u8_forall; decide +kernel

/-- **HTML alphabet**: none of `< > " '`, and no `&` other than the start of one of the five references. -/
theorem html_alphabet (s : Bytes) : alphabetOK (escape s) = true := by
  have : (escape s).foldl alStep (some 0) = some 0 := by
    induction s with
    | nil => rfl
    | cons c s ih =>
      simp only [escape, List.flatMap_cons, List.foldl_append, al_encByte] at ih ⊢
      exact ih
  simp [alphabetOK, this]

def unescapeN : Nat → Bytes → Option Bytes
  | 0, b => some b
  | n+1, b => (unescapeN n b).bind unescape

/-- Repeated letters (`hh`, `hhh`). -/
theorem html_iter_roundtrip (n : Nat) (s : Bytes) : unescapeN n (escapeN n s) = some s := by
  induction n generalizing s with
  | zero => rfl
  | succ n ih =>
    show (unescapeN n (escapeN n (escape s))).bind unescape = some s
    rw [ih (escape s)]; exact html_roundtrip s

example : escape (lit "<a href='x'>&amp;") = lit "&lt;a href=&#39;x&#39;&gt;&amp;amp;" := by decide
example : unescape (lit "&#x41;&#65;&bogus;&") = some (lit "AA&bogus;&") := by decide
example : alphabetOK (lit "a<b") = false := by decide

end DyntplV.C08

/-! ### Attribute escape (rune level) -/
namespace DyntplV.C08
open DyntplV DyntplV.Html

/-- What a decoder must return for rune `r`: the rune itself, or U+FFFD for the control characters the
    escaper deliberately replaces. -/
def attrOut (r : Nat) : Nat := if isAttrCtl r then 0xFFFD else r

theorem attr_safe_facts : ∀ n : Fin 128, isAttrSafe n.val = true →
    (UInt8.ofNat n.val != 38) = true ∧ isAttrCtl n.val = false ∧ (UInt8.ofNat n.val).toNat = n.val := by
  decide +kernel

theorem attr_safe_lt (r : Nat) (h : isAttrSafe r = true) : r < 128 := by
  simp [isAttrSafe] at h; omega

theorem refCp_id (r : Nat) (h0 : r ≠ 0) (hs : isScalar r = true) : refCp r = r := by
  simp [isScalar] at hs
  simp [refCp, h0]
  omega

theorem isHex_semi : isHex 59 = false := by decide

/-- The decoder on a hexadecimal reference with explicit digits. -/
theorem dec_ref2 (a b : UInt8) (ha : isHex a = true) (hb : isHex b = true) (rest : Bytes) :
    decUnit ([38, 35, 120, a, b, 59] ++ rest) = some (utf8Enc (refCp (hexVal [a, b])), rest) := by
  simp [decUnit, stripPrefix, spanP_cons_true, spanP_cons_false, ha, hb, isHex_semi]
theorem dec_ref4 (a b c d : UInt8) (ha : isHex a = true) (hb : isHex b = true) (hc : isHex c = true)
    (hd' : isHex d = true) (rest : Bytes) :
    decUnit ([38, 35, 120, a, b, c, d, 59] ++ rest) = some (utf8Enc (refCp (hexVal [a, b, c, d])), rest) := by
  simp [decUnit, stripPrefix, spanP_cons_true, spanP_cons_false, ha, hb, hc, hd', isHex_semi]
theorem dec_ref5 (a b c d e : UInt8) (ha : isHex a = true) (hb : isHex b = true) (hc : isHex c = true)
    (hd' : isHex d = true) (he : isHex e = true) (rest : Bytes) :
    decUnit ([38, 35, 120, a, b, c, d, e, 59] ++ rest) = some (utf8Enc (refCp (hexVal [a, b, c, d, e])), rest) := by
  simp [decUnit, stripPrefix, spanP_cons_true, spanP_cons_false, ha, hb, hc, hd', he, isHex_semi]
theorem dec_ref6 (a b c d e f : UInt8) (ha : isHex a = true) (hb : isHex b = true) (hc : isHex c = true)
    (hd' : isHex d = true) (he : isHex e = true) (hf : isHex f = true) (rest : Bytes) :
    decUnit ([38, 35, 120, a, b, c, d, e, f, 59] ++ rest) = some (utf8Enc (refCp (hexVal [a, b, c, d, e, f])), rest) := by
  simp [decUnit, stripPrefix, spanP_cons_true, spanP_cons_false, ha, hb, hc, hd', he, hf, isHex_semi]

/-- Step lemma: the reference decoder undoes one attribute-escaped rune, whatever follows. -/
theorem decUnit_attrRune (r : Nat) (hs : isScalar r = true) (rest : Bytes) :
    decUnit (attrRune r ++ rest) = some (utf8Enc (attrOut r), rest) := by
  have hlt : r < 0x110000 := by simp [isScalar] at hs; omega
  unfold attrRune
  split
  · next h => have : r = 38 := by simpa using h
              subst this; rfl
  split
  · next h => have : r = 60 := by simpa using h
              subst this; rfl
  split
  · next h => have : r = 62 := by simpa using h
              subst this; rfl
  split
  · next h => have : r = 34 := by simpa using h
              subst this; rfl
  split
  · next h =>
    have hl := attr_safe_lt r h
    obtain ⟨f1, f2, f3⟩ := attr_safe_facts ⟨r, hl⟩ h
    simp only at f1 f2 f3
    simp only [List.cons_append, List.nil_append, decUnit, f1, attrOut, f2]
    simp [utf8Enc, hl]
  split
  · next h =>
    simp only [attrOut, h, if_true]
    rfl
  · next hctl =>
    have hc : isAttrCtl r = false := by simpa using hctl
    have h0 : r ≠ 0 := by intro e; subst e; simp [isAttrCtl] at hc
    have hcp := refCp_id r h0 hs
    have hx : ∀ x, x = r → utf8Enc (refCp x) = utf8Enc (attrOut r) := by
      intro x e; subst e; simp [attrOut, hc, hcp]
    split
    · next hsm =>
      rw [pad2_eq r (by omega)]
      have := dec_ref2 (hd r 16) (hd r 1) (isHex_hd _ _) (isHex_hd _ _) rest
      simp only [List.cons_append, List.nil_append] at this ⊢
      rw [this]; congr 2; apply hx
      simp [hexVal, unhex_hd, toNat_nib]; omega
    · next hbig =>
      by_cases h4 : r < 0x10000
      · rw [pad4_eq r h4]
        have := dec_ref4 (hd r 4096) (hd r 256) (hd r 16) (hd r 1) (isHex_hd _ _) (isHex_hd _ _) (isHex_hd _ _) (isHex_hd _ _) rest
        simp only [List.cons_append, List.nil_append] at this ⊢
        rw [this]; congr 2; apply hx
        simp [hexVal, unhex_hd, toNat_nib]; omega
      · by_cases h5 : r < 0x100000
        · rw [pad4_big5 r (by omega) h5]
          have := dec_ref5 (hd r 65536) (hd r 4096) (hd r 256) (hd r 16) (hd r 1) (isHex_hd _ _) (isHex_hd _ _) (isHex_hd _ _) (isHex_hd _ _) (isHex_hd _ _) rest
          simp only [List.cons_append, List.nil_append] at this ⊢
          rw [this]; congr 2; apply hx
          simp [hexVal, unhex_hd, toNat_nib]; omega
        · rw [pad4_big6 r (by omega)]
          have := dec_ref6 (hd r 1048576) (hd r 65536) (hd r 4096) (hd r 256) (hd r 16) (hd r 1) (isHex_hd _ _) (isHex_hd _ _) (isHex_hd _ _) (isHex_hd _ _) (isHex_hd _ _) (isHex_hd _ _) rest
          simp only [List.cons_append, List.nil_append] at this ⊢
          rw [this]; congr 2; apply hx
          simp [hexVal, unhex_hd, toNat_nib]; omega

theorem attrRune_pos (r : Nat) : 0 < (attrRune r).length := by
  unfold attrRune
  split; · simp
  split; · simp
  split; · simp
  split; · simp
  split; · simp
  split; · simp
  split <;> simp

/-- **Attribute round trip**: for every list of scalar values, decoding the escaped text with the general
    reference decoder returns the original text, except that the control characters the escaper
    deliberately replaces come back as U+FFFD. -/
theorem attr_roundtrip_mod_controls (cs : List Nat) (hcs : ∀ r ∈ cs, isScalar r = true) :
    unescape (attrEscapeRunes cs) = some (utf8Encode (cs.map attrOut)) := by
  have key := decLoop_roundtrip_on (fun r : Nat => isScalar r = true) decUnit attrRune (fun r => utf8Enc (attrOut r))
    (fun r hr rest => decUnit_attrRune r hr rest) attrRune_pos cs hcs _ (Nat.le_refl _)
  unfold unescape attrEscapeRunes
  rw [key]
  simp [utf8Encode, List.flatMap_map]

theorem hd_lower_or_digit (r k : Nat) : isHex (hd r k) = true := isHex_hd r k

theorem al_attrRune (r : Nat) (hlt : r < 0x110000) : (attrRune r).foldl attrAlStep (some 0) = some 0 := by
  unfold attrRune
  split; · rfl
  split; · rfl
  split; · rfl
  split; · rfl
  split
  · next h =>
    have hl := attr_safe_lt r h
    obtain ⟨f1, _, f3⟩ := attr_safe_facts ⟨r, hl⟩ h
    simp only at f1 f3
    have f1' : (UInt8.ofNat r == 38) = false := by simpa using f1
    simp [attrAlStep, f1', f3, h]
  split; · rfl
  split
  · rw [pad2_eq r (by omega)]
    simp [attrAlStep, isHex_hd, hd_ne_semi, isHex_semi]
  · by_cases h4 : r < 0x10000
    · rw [pad4_eq r h4]; simp [attrAlStep, isHex_hd, hd_ne_semi, isHex_semi]
    · by_cases h5 : r < 0x100000
      · rw [pad4_big5 r (by omega) h5]; simp [attrAlStep, isHex_hd, hd_ne_semi, isHex_semi]
      · rw [pad4_big6 r (by omega)]; simp [attrAlStep, isHex_hd, hd_ne_semi, isHex_semi]

/-- **Attribute alphabet**: only ASCII letters, digits, `, . - _` and character references. -/
theorem attr_alphabet (cs : List Nat) (hcs : ∀ r ∈ cs, r < 0x110000) : attrAlphabetOK (attrEscapeRunes cs) = true := by
  have : (attrEscapeRunes cs).foldl attrAlStep (some 0) = some 0 := by
    unfold attrEscapeRunes
    induction cs with
    | nil => rfl
    | cons r cs ih =>
      simp only [List.flatMap_cons, List.foldl_append, al_attrRune r (hcs r (by simp))]
      exact ih (fun x hx => hcs x (by simp [hx]))
  simp [attrAlphabetOK, this]

example : attrEscapeRunes [0x41, 0x27, 0xe9, 0x01, 0x1f600] = lit "A&#x27;&#x00e9;&#xFFFD;&#x1f600;" := by decide
example : unescape (lit "A&#x27;&#x00e9;&#xFFFD;") = some [0x41, 0x27, 0xc3, 0xa9, 0xef, 0xbf, 0xbd] := by decide

end DyntplV.C08
