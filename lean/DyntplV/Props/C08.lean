import DyntplV.Esc.Html
/-!
# C08 — HTML and attribute escaping neutralise markup and decode back to the input
-/
namespace DyntplV.C08
open DyntplV DyntplV.Html

theorem plain_facts : ∀ c : UInt8,
    (c == 60) = false → (c == 62) = false → (c == 34) = false → (c == 39) = false → (c == 38) = false →
    (c != 38) = true := by
  apply u8_forall; decide +kernel

/-- Step lemma: the general reference decoder undoes one escaped byte, whatever follows. -/
theorem decUnit_encByte (c : UInt8) (rest : Bytes) : decUnit (encByte c ++ rest) = some ([c], rest) := by
  unfold encByte
  split
  · next h => have : c = 60 := by simpa using h
              subst this; rfl
  split
  · next h => have : c = 62 := by simpa using h
              subst this; rfl
  split
  · next h => have : c = 34 := by simpa using h
              subst this; rfl
  split
  · next h => have : c = 39 := by simpa using h
              subst this; rfl
  split
  · next h => have : c = 38 := by simpa using h
              subst this; rfl
  · next h1 h2 h3 h4 h5 =>
    have := plain_facts c (by simpa using h1) (by simpa using h2) (by simpa using h3) (by simpa using h4) (by simpa using h5)
    simp only [List.cons_append, List.nil_append, decUnit, this]
    simp

theorem encByte_pos (c : UInt8) : 0 < (encByte c).length := by
  unfold encByte
  repeat (first | split | simp)

/-- **HTML round trip** for every byte string. -/
theorem html_roundtrip (s : Bytes) : unescape (escape s) = some s := by
  have := decLoop_roundtrip decUnit encByte (fun c => [c]) decUnit_encByte encByte_pos s
    (escape s).length (Nat.le_refl _)
  simpa [unescape, escape] using this

theorem al_encByte : ∀ c : UInt8, (encByte c).foldl alStep (some 0) = some 0 := by
  apply u8_forall; decide +kernel

/-- **HTML alphabet**: none of `< > " '`, and no `&` other than the start of one of the five references. -/
theorem html_alphabet (s : Bytes) : alphabetOK (escape s) = true := by
  have : (escape s).foldl alStep (some 0) = some 0 := by
    induction s with
    | nil => rfl
    | cons c s ih =>
      simp only [escape, List.flatMap_cons, List.foldl_append, al_encByte] at ih ⊢
      exact ih
  simp [alphabetOK, this]

def unescapeN : Nat → Bytes → Option Bytes
  | 0, b => some b
  | n+1, b => (unescapeN n b).bind unescape

/-- Repeated letters (`hh`, `hhh`). -/
theorem html_iter_roundtrip (n : Nat) (s : Bytes) : unescapeN n (escapeN n s) = some s := by
  induction n generalizing s with
  | zero => rfl
  | succ n ih =>
    show (unescapeN n (escapeN n (escape s))).bind unescape = some s
    rw [ih (escape s)]; exact html_roundtrip s

example : escape (lit "<a href='x'>&amp;") = lit "&lt;a href=&#39;x&#39;&gt;&amp;amp;" := by decide
example : unescape (lit "&#x41;&#65;&bogus;&") = some (lit "AA&bogus;&") := by decide
example : alphabetOK (lit "a<b") = false := by decide

end DyntplV.C08
