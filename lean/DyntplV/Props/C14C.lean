import DyntplV.Props.C14N
import DyntplV.Props.C16N

/-!
# Counter loops at any nesting depth

The counter-loop companion of `Props/C14N.lean`: nests of `{% for i := 0; i < n; i++ %} a · inner · b {% endfor %}`
(the bound a variable `n = m ≥ 0`, so that no decimal parsing is involved). Every level of a nest of any depth `k` runs
exactly `m` iterations in every iteration of the loops around it, and `break N` as the innermost body ends exactly the
`N` innermost counter loops after one iteration each while the next loop out carries on (C03 / C14 for counter loops).
-/

namespace DyntplV.C14C
open DyntplV DyntplV.C01 DyntplV.C14 DyntplV.C14N

/-- The states the nests run in: outside regions, healthy writer, no error pending, the bound `n` set to `m`. -/
structure Good (m : Int) (s : St) : Prop where
  bnd : s.c.bnd = []
  wr : s.w.failAt = none
  err : s.c.err = none
  lim : getVar s.c.vars (lit "n") = some (.ins (.int m) .static)

def cspec : CLoopSpec :=
  { cnt := lit "i", cntInit := lit "0", cntStatic := true, cntOp := .inc, condOp := .lt, lim := lit "n", limStatic := false, sep := [] }

/-- What a node does from a `Good` state with nothing pending (as `C14N.Leaves`, for the counter-loop states). -/
def Leaves (reg : Registry) (m : Int) (n : Node) (f : Nat) (d : Nat) (o : Bytes) (brk : Bool) : Prop :=
  ∀ s, Good m s → s.c.brkD = 0 →
    (writeNode reg f n s).err = (if brk then some .breakLoop else none) ∧
    (writeNode reg f n s).st.c.brkD = d ∧
    (writeNode reg f n s).st.w.out = s.w.out ++ o ∧
    Good m (writeNode reg f n s).st

theorem good_setI (m : Int) (s : St) (v : Int) (hg : Good m s) : Good m { s with c := s.c.setStatic (lit "i") (.int v) } := by
  refine ⟨hg.bnd, hg.wr, hg.err, ?_⟩
  show getVar (setVar s.c.vars (lit "i") _) (lit "n") = _
  rw [C15.get_set_other _ _ _ _ (by decide)]
  exact hg.lim

theorem good_chQB (m : Int) (s : St) (b : Bool) (hg : Good m s) : Good m { s with c := { s.c with chQB := b } } :=
  ⟨hg.bnd, hg.wr, hg.err, hg.lim⟩

theorem leaves_raw (reg : Registry) (m : Int) (c : Bytes) (f : Nat) : Leaves reg m (.raw c) (f+1) 0 c false := by
  intro s hg hd
  rw [raw_emits reg f c s hg.bnd hg.wr]
  exact ⟨rfl, hd, rfl, ⟨hg.bnd, hg.wr, hg.err, hg.lim⟩⟩

theorem leaves_break (reg : Registry) (m : Int) (N f : Nat) : Leaves reg m (.brk N) (f+1) (max N 1) [] true := by
  intro s hg hd
  rw [break_node]
  refine ⟨rfl, ?_, by simp [fail], ⟨hg.bnd, hg.wr, hg.err, hg.lim⟩⟩
  simp [fail, hd]

/-- The bounds of the loop: `0` and the value of `n`; `ctx.Err` stays clear. -/
theorem bounds (m : Int) (s : St) (hg : Good m s) :
    (loopBounds s.c cspec).2 = some (0, m) ∧ Good m { s with c := (loopBounds s.c cspec).1 } ∧
    (loopBounds s.c cspec).1.brkD = s.c.brkD ∧ ({ s with c := (loopBounds s.c cspec).1 } : St).w = s.w := by
  have h0 : parseIntLit (lit "0") = some 0 := by decide
  have hsp : splitDots (lit "n") = [lit "n"] := by decide
  have hnb : indexOf 91 (lit "n") = none := by decide
  have hget : ∀ c : Ctx, getVar c.vars (lit "n") = some (.ins (.int m) .static) →
      c.get (lit "n") = (.int m, { c with err := none }) := by
    intro c hc
    unfold Ctx.get getCore
    cases c.chQB <;> simp [replaceQB_plain _ _ hnb, hsp, getChunks, getChunksErr, hc, insGet, insGetErr]
  unfold loopBounds cloopRange
  simp only [cspec, h0, if_true, Bool.false_eq_true, if_false]
  rw [hget { s.c with err := none } hg.lim]
  simp only
  refine ⟨by simp, ⟨hg.bnd, hg.wr, rfl, hg.lim⟩, by simp, by simp⟩

/-- The body `a · inner · b` of one iteration (any `chQB`). -/
theorem body_run (reg : Registry) (m : Int) (inner : Node) (f d : Nat) (o : Bytes) (brk : Bool) (a b : Bytes)
    (h : Leaves reg m inner (f+3) d o brk) (s : St) (hg : Good m s) (hd : s.c.brkD = 0) :
    let rb := writeSeq reg (f+5) [.raw a, inner, .raw b] s
    rb.err = (if brk then some .breakLoop else none) ∧ rb.st.c.brkD = d ∧
      rb.st.w.out = s.w.out ++ (a ++ o ++ (if brk then [] else b)) ∧ Good m rb.st := by
  intro rb
  have hrb : rb = writeSeq reg (f+5) [.raw a, inner, .raw b] s := rfl
  rw [writeSeq.eq_3, raw_emits reg (f+3) a s hg.bnd hg.wr, ok_andThen, writeSeq.eq_3] at hrb
  have hg2 : Good m { s with w := { s.w with out := s.w.out ++ a, writes := s.w.writes + 1 } } := ⟨hg.bnd, hg.wr, hg.err, hg.lim⟩
  obtain ⟨he, hdd, ho, hgi⟩ := h _ hg2 hd
  generalize hri : writeNode reg (f+3) inner { s with w := { s.w with out := s.w.out ++ a, writes := s.w.writes + 1 } } = ri at hrb he hdd ho hgi
  cases brk with
  | true =>
    simp only [if_true] at he
    have : rb = ri := by rw [hrb]; simp [Res.andThen, he]
    rw [this]
    refine ⟨he, hdd, ?_, hgi⟩
    rw [ho]; simp
  | false =>
    simp only [Bool.false_eq_true, if_false] at he
    have h1 : rb = writeSeq reg (f+3) [.raw b] ri.st := by rw [hrb]; simp [Res.andThen, he]
    rw [C16N.seq_raw reg (f+1) b ri.st hgi.bnd hgi.wr] at h1
    rw [h1]
    refine ⟨rfl, hdd, ?_, ⟨hgi.bnd, hgi.wr, hgi.err, hgi.lim⟩⟩
    simp [ok, ho]

/-- A counter loop whose body never leaves anything pending runs once per counter value. -/
theorem cloopLoop_all (m : Int) (run : St → Res) (p : Bytes)
    (hrun : ∀ st, Good m st → st.c.brkD = 0 →
      (run st).err = none ∧ (run st).st.c.brkD = 0 ∧ (run st).st.w.out = st.w.out ++ p ∧ Good m (run st).st) :
    ∀ (f : Nat) (v : Int) (n : Nat) (s : St), Good m s → s.c.brkD = 0 → (m - v).toNat < f →
      (cloopLoop run cspec f v m n s).abort = false ∧
      (cloopLoop run cspec f v m n s).st.w.out = s.w.out ++ rep p (m - v).toNat ∧
      Good m (cloopLoop run cspec f v m n s).st ∧ (cloopLoop run cspec f v m n s).st.c.brkD = 0 ∧
      (cloopLoop run cspec f v m n s).n = n + (m - v).toNat := by
  intro f
  induction f with
  | zero => intro v n s _ _ h; omega
  | succ f ih =>
    intro v n s hg hd hf
    rw [cloopLoop]
    by_cases hv : v < m
    · have hla : loopAllows cspec.condOp v m = some true := by simp [loopAllows, cspec, hv]
      simp only [hla]
      have hsep : sepWrite n cspec.sep { s with c := s.c.setStatic cspec.cnt (.int v) } = ok { s with c := s.c.setStatic cspec.cnt (.int v) } := by
        simp [sepWrite, cspec]
      simp only [hsep, ok]
      have hclr : clrErrIf (n > 0 && !cspec.sep.isEmpty) { s with c := s.c.setStatic cspec.cnt (.int v) } = { s with c := s.c.setStatic cspec.cnt (.int v) } := by
        simp [clrErrIf, cspec]
      simp only [hclr]
      have hop : (cspec.cntOp == Op.inc || cspec.cntOp == Op.dec) = true := by decide
      simp only [hop, if_true]
      have hg2 : Good m { ({ s with c := s.c.setStatic cspec.cnt (.int v) } : St) with
          c := { ({ s with c := s.c.setStatic cspec.cnt (.int v) } : St).c with chQB := true } } :=
        good_chQB m _ true (good_setI m s v hg)
      have hfacts := hrun _ hg2 hd
      generalize hrb : run { ({ s with c := s.c.setStatic cspec.cnt (.int v) } : St) with
          c := { ({ s with c := s.c.setStatic cspec.cnt (.int v) } : St).c with chQB := true } } = rb at hfacts ⊢
      obtain ⟨he, hb, ho, hgr⟩ := hfacts
      rw [no_pending_continues]
      · simp only
        have hstep : stepVal cspec.cntOp v = v + 1 := by simp [stepVal, cspec]
        have hg3 := good_setI m _ (stepVal cspec.cntOp v)
          (good_chQB m rb.st ({ s with c := s.c.setStatic cspec.cnt (.int v) } : St).c.chQB hgr)
        -- the next iteration starts with `ctx.Err` cleared
        have hg3' : Good m ({ ({ rb.st with c := { rb.st.c with chQB := ({ s with c := s.c.setStatic cspec.cnt (.int v) } : St).c.chQB } } : St) with
            c := { (({ rb.st with c := { rb.st.c with chQB := ({ s with c := s.c.setStatic cspec.cnt (.int v) } : St).c.chQB } } : St).c.setStatic cspec.cnt (.int (stepVal cspec.cntOp v))) with err := none } } : St) :=
          ⟨hg3.bnd, hg3.wr, rfl, hg3.lim⟩
        obtain ⟨h1, h2, h3, h4, h5⟩ := ih (stepVal cspec.cntOp v) (n + 1) _ hg3' hb (by rw [hstep]; omega)
        refine ⟨h1, ?_, h3, h4, ?_⟩
        · refine h2.trans ?_
          show rb.st.w.out ++ _ = _
          rw [ho, hstep]
          have hn : (m - v).toNat = (m - (v + 1)).toNat + 1 := by omega
          rw [hn]
          simp [rep, List.append_assoc]
        · refine h5.trans ?_
          rw [hstep]; omega
      · exact Or.inl he
      · exact hb
    · have hla : loopAllows cspec.condOp v m = some false := by simp [loopAllows, cspec, hv]
      have h0 : (m - v).toNat = 0 := by omega
      simp only [hla, h0, rep, List.append_nil, Nat.add_zero]
      refine ⟨by simp, by simp, good_setI m s v hg, hd, by simp⟩

theorem cloopWith_all (m : Int) (run : St → Res) (p : Bytes) (f : Nat)
    (hrun : ∀ st, Good m st → st.c.brkD = 0 →
      (run st).err = none ∧ (run st).st.c.brkD = 0 ∧ (run st).st.w.out = st.w.out ++ p ∧ Good m (run st).st)
    (s : St) (hg : Good m s) (hd : s.c.brkD = 0) (hf : m.toNat < f) :
    ∃ st, cloopWith run none f cspec s = ok st ∧ st.w.out = s.w.out ++ rep p m.toNat ∧ Good m st ∧ st.c.brkD = 0 := by
  obtain ⟨hb, hgb, hbd, hbw⟩ := bounds m s hg
  unfold cloopWith cloopAfter
  simp only [hb]
  have hall := cloopLoop_all m run p hrun f 0 0 { s with c := (loopBounds s.c cspec).1 } hgb (by rw [← hd]; exact hbd)
    (by simpa using hf)
  obtain ⟨h1, h2, h3, h4, h5⟩ := hall
  refine ⟨_, ?_, ?_, h3, h4⟩
  · unfold afterLoop
    simp only [h1, Bool.false_eq_true, if_false]
    split <;> rfl
  · rw [h2, hbw]; simp

/-- **The loop just outside carries on (counter loops)**: a counter loop `0 ≤ i < m` around a node that leaves nothing
    pending runs `m` iterations. -/
theorem counter_carries_on (reg : Registry) (m : Int) (inner : Node) (hcf : ∀ e, inner ≠ .condFalse e) (f : Nat)
    (o a b : Bytes) (hf : m.toNat < f + 5) (h : Leaves reg m inner (f+3) 0 o false) :
    Leaves reg m (.cloop cspec [.raw a, inner, .raw b]) (f+6) 0 (rep (a ++ o ++ b) m.toNat) false := by
  intro s hg hd
  rw [writeNode]
  simp only [loopParts_plain a b inner hcf, Option.map_none]
  have hs0 : ({ s with c := { s.c with brkD := 0 } } : St) = s := by
    cases s with | mk c w => cases c; simp at hd; subst hd; rfl
  have hrun : ∀ st, Good m st → st.c.brkD = 0 →
      (writeSeq reg (f+5) [.raw a, inner, .raw b] st).err = none ∧
      (writeSeq reg (f+5) [.raw a, inner, .raw b] st).st.c.brkD = 0 ∧
      (writeSeq reg (f+5) [.raw a, inner, .raw b] st).st.w.out = st.w.out ++ (a ++ o ++ b) ∧
      Good m (writeSeq reg (f+5) [.raw a, inner, .raw b] st).st := by
    intro st hgs hds
    have := body_run reg m inner f 0 o false a b h st hgs hds
    simpa using this
  obtain ⟨st, hst, hout, hgst, hbd⟩ :=
    cloopWith_all m (fun st => writeSeq reg (f+5) [.raw a, inner, .raw b] st) (a ++ o ++ b) (f+5) hrun s hg hd hf
  rw [loopNode_ok _ s st (by rw [hs0]; exact hst) hgst.err]
  refine ⟨rfl, ?_, ?_, ⟨hgst.bnd, hgst.wr, hgst.err, hgst.lim⟩⟩
  · simp [ok, hd, hbd]
  · simp only [ok]; exact hout

/-! ### Any depth -/

/-- `k` counter loops `0 ≤ i < m` around the text `c`. -/
def nestFull (a b c : Bytes) : Nat → Node
  | 0 => .raw c
  | k+1 => .cloop cspec [.raw a, nestFull a b c k, .raw b]

theorem nestFull_not_condFalse (a b c : Bytes) (k : Nat) : ∀ e, nestFull a b c k ≠ .condFalse e := by
  intro e; cases k <;> simp [nestFull]

/-- **Nested counter loops, any depth**: every level runs `m` iterations in every iteration of the loops around it
    (output `fullOut`), for every sufficient fuel. -/
theorem nestFull_runs_all (reg : Registry) (m : Int) (a b c : Bytes) (g : Nat) (hg : m.toNat < g + 2) :
    ∀ k, Leaves reg m (nestFull a b c k) (3 * k + 3 + g) 0 (fullOut a b c m.toNat k) false := by
  intro k
  induction k with
  | zero =>
    have h3 : 3 * 0 + 3 + g = (g + 2) + 1 := by omega
    rw [h3]
    simpa [nestFull, fullOut] using leaves_raw reg m c (g + 2)
  | succ k ih =>
    have hf : 3 * k + 3 + g = (3 * k + g) + 3 := by omega
    rw [hf] at ih
    have step := counter_carries_on reg m (nestFull a b c k) (nestFull_not_condFalse a b c k) (3 * k + g)
      (fullOut a b c m.toNat k) a b (by omega) ih
    have hf2 : 3 * (k + 1) + 3 + g = (3 * k + g) + 6 := by omega
    rw [hf2]
    simpa [nestFull, fullOut] using step

/-! Non-vacuity. -/
def st0 : St := { c := ({} : Ctx).setStatic (lit "n") (.int 2), w := {} }

/-- **One level, break pending**: if `inner` leaves `d+1` levels pending, the counter loop (with at least one value to
    run, `0 < m`) runs exactly one iteration, returns normally and leaves `d` levels to its parent. -/
theorem counter_first_stops (reg : Registry) (m : Int) (hm : 0 < m) (inner : Node) (hcf : ∀ e, inner ≠ .condFalse e)
    (f d : Nat) (o : Bytes) (brk : Bool) (a b : Bytes) (h : Leaves reg m inner (f+3) (d+1) o brk) :
    Leaves reg m (.cloop cspec [.raw a, inner, .raw b]) (f+6) d (a ++ o ++ (if brk then [] else b)) false := by
  intro s hg hd
  rw [writeNode]
  simp only [loopParts_plain a b inner hcf, Option.map_none]
  have hs0 : ({ s with c := { s.c with brkD := 0 } } : St) = s := by
    cases s with | mk c w => cases c; simp at hd; subst hd; rfl
  obtain ⟨hb, hgb, hbd, hbw⟩ := bounds m s hg
  -- the first (and only) iteration
  have hg2 : Good m { ({ s with c := ((loopBounds s.c cspec).1).setStatic cspec.cnt (.int 0) } : St) with
      c := { (((loopBounds s.c cspec).1).setStatic cspec.cnt (.int 0)) with chQB := true } } :=
    good_chQB m _ true (good_setI m _ 0 hgb)
  have hbody := body_run reg m inner f (d+1) o brk a b h _ hg2 (by show (loopBounds s.c cspec).1.brkD = 0; rw [hbd]; exact hd)
  obtain ⟨he, hdd, ho, hgr⟩ := hbody
  have hloop : cloopWith (fun st => writeSeq reg (f+5) [.raw a, inner, .raw b] st) none (f+5) cspec s =
      ok { (writeSeq reg (f+5) [.raw a, inner, .raw b] { ({ s with c := ((loopBounds s.c cspec).1).setStatic cspec.cnt (.int 0) } : St) with
              c := { (((loopBounds s.c cspec).1).setStatic cspec.cnt (.int 0)) with chQB := true } }).st with
            c := { (({ (writeSeq reg (f+5) [.raw a, inner, .raw b] { ({ s with c := ((loopBounds s.c cspec).1).setStatic cspec.cnt (.int 0) } : St) with
              c := { (((loopBounds s.c cspec).1).setStatic cspec.cnt (.int 0)) with chQB := true } }).st.c with
                chQB := (((loopBounds s.c cspec).1).setStatic cspec.cnt (.int 0)).chQB, brkD := d } : Ctx).setStatic cspec.cnt (.int 1)) with err := none } } := by
    unfold cloopWith cloopAfter
    simp only [hb]
    rw [cloopLoop]
    have hla : loopAllows cspec.condOp 0 m = some true := by simp [loopAllows, cspec, hm]
    have hsep : ∀ st : St, sepWrite 0 cspec.sep st = ok st := by intro st; simp [sepWrite]
    have hclr : ∀ st : St, clrErrIf (0 > 0 && !cspec.sep.isEmpty) st = st := by intro st; simp [clrErrIf]
    have hop : (cspec.cntOp == Op.inc || cspec.cntOp == Op.dec) = true := by decide
    simp only [hla, hsep, hclr, ok, hop, if_true]
    rw [pending_stops _ d]
    · simp only [afterLoop, Bool.false_eq_true, if_false, ok]
      have : stepVal cspec.cntOp 0 = 1 := by decide
      simp [this]
    · cases brk with
      | true => right; exact ⟨.breakLoop, by simpa using he, by decide⟩
      | false => left; simpa using he
    · exact hdd
  rw [loopNode_ok _ s _ (by rw [hs0]; exact hloop) rfl]
  refine ⟨rfl, ?_, ?_, ⟨hgr.bnd, hgr.wr, rfl, ?_⟩⟩
  · simp [ok, hd, Ctx.setStatic, Ctx.set]
  · simp only [ok]
    exact ho
  · show getVar (setVar _ (lit "i") _) (lit "n") = _
    rw [C15.get_set_other _ _ _ _ (by decide)]
    exact hgr.lim

/-- `k` counter loops around `{% break N %}`. -/
def nest (N : Nat) (a b : Bytes) : Nat → Node
  | 0 => .brk N
  | k+1 => .cloop cspec [.raw a, nest N a b k, .raw b]

theorem nest_not_condFalse (N : Nat) (a b : Bytes) (k : Nat) : ∀ e, nest N a b k ≠ .condFalse e := by
  intro e; cases k <;> simp [nest]

/-- **`break N` under `k ≤ max N 1` counter loops** (each with at least one value to run): one iteration per loop,
    `max N 1 − k` levels left pending — the counter-loop twin of `C14N.nest_leaves`. -/
theorem nest_leaves (reg : Registry) (m : Int) (hm : 0 < m) (N : Nat) (a b : Bytes) (g : Nat) :
    ∀ k, k ≤ max N 1 → Leaves reg m (nest N a b k) (3 * k + 3 + g) (max N 1 - k) (nestOut a b k) (k == 0) := by
  intro k
  induction k with
  | zero =>
    intro _
    have h3 : 3 * 0 + 3 + g = (g + 2) + 1 := by omega
    rw [h3]
    simpa [nest, nestOut] using leaves_break reg m N (g + 2)
  | succ k ih =>
    intro hk
    have ihk := ih (by omega)
    have hd : max N 1 - k = (max N 1 - (k + 1)) + 1 := by omega
    rw [hd] at ihk
    have hf : 3 * k + 3 + g = (3 * k + g) + 3 := by omega
    rw [hf] at ihk
    have step := counter_first_stops reg m hm (nest N a b k) (nest_not_condFalse N a b k) (3 * k + g)
      (max N 1 - (k + 1)) (nestOut a b k) (k == 0) a b ihk
    have hf2 : 3 * (k + 1) + 3 + g = (3 * k + g) + 6 := by omega
    rw [hf2]
    have ho : nestOut a b (k + 1) = a ++ nestOut a b k ++ (if (k == 0) = true then [] else b) := by
      cases k with
      | zero => simp [nestOut]
      | succ j => simp [nestOut]
    rw [ho]
    simpa [nest] using step

example : (writeNode [] 20 (nest 2 (lit "[") (lit "]") 3) st0).st.w.out = lit "[[[]][[[]]" := by decide

example : Good 2 st0 := ⟨rfl, rfl, rfl, rfl⟩
example : (writeNode [] 20 (nestFull (lit "[") (lit "]") (lit "x") 2) st0).st.w.out = lit "[[x][x]][[x][x]]" := by decide

end DyntplV.C14C
