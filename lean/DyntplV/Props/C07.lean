import DyntplV.Esc.Json
/-!
# C07 — JSON escaping yields a valid JSON string that decodes to the input
-/
namespace DyntplV.C07
open DyntplV DyntplV.Json

/-! Byte facts, decided over all 256 values in the kernel. -/
theorem plain_facts : ∀ c : UInt8,
    (c == 34) = false → (c == 92) = false → (c == 10) = false → (c == 13) = false → (c == 9) = false →
    isU00 c = false → ((c == 34 || c < 32) = false) := by
  apply u8_forall; decide +kernel

theorem u00_facts : ∀ c : UInt8, isU00 c = true →
    hex4 48 48 (hexLo (c >>> 4)) (hexLo (c &&& 15)) = some c.toNat ∧
    ¬ (0xD800 ≤ c.toNat ∧ c.toNat ≤ 0xDBFF) ∧ ¬ (0xDC00 ≤ c.toNat ∧ c.toNat ≤ 0xDFFF) ∧
    utf8Enc c.toNat = [c] := by
  apply u8_forall; decide +kernel

/-- Step lemma: the general decoder undoes one escaped byte, whatever follows. -/
theorem decUnit_encByte (c : UInt8) (rest : Bytes) : decUnit (encByte c ++ rest) = some ([c], rest) := by
  unfold encByte
  split
  · next h => have : c = 34 := by simpa using h
              subst this; rfl
  split
  · next h => have : c = 92 := by simpa using h
              subst this; rfl
  split
  · next h => have : c = 10 := by simpa using h
              subst this; rfl
  split
  · next h => have : c = 13 := by simpa using h
              subst this; rfl
  split
  · next h => have : c = 9 := by simpa using h
              subst this; rfl
  split
  · next h =>
    obtain ⟨h1, h2, h3, h4⟩ := u00_facts c h
    simp only [List.cons_append, List.nil_append, decUnit]
    simp [h1, h2, h3, h4]
  · next h1 h2 h3 h4 h5 h6 =>
    have := plain_facts c (by simpa using h1) (by simpa using h2) (by simpa using h3) (by simpa using h4)
      (by simpa using h5) (by simpa using h6)
    have h92 : (c == 92) = false := by simpa using h2
    simp only [List.cons_append, List.nil_append, decUnit, h92, this]
    simp

theorem encByte_pos (c : UInt8) : 0 < (encByte c).length := by
  unfold encByte
  repeat (first | split | simp)

/-- **Round trip**: for every byte string, the escaped text read as the body of a JSON string
    literal decodes to the original. -/
theorem json_roundtrip (s : Bytes) : unescape (escape s) = some s := by
  have := decLoop_roundtrip decUnit encByte (fun c => [c]) decUnit_encByte encByte_pos s
    (escape s).length (Nat.le_refl _)
  simpa [unescape, escape] using this

/-- **Alphabet**: no control byte, no raw quote, every backslash starts a valid escape. -/
theorem al_encByte : ∀ c : UInt8, (encByte c).foldl alStep (some 0) = some 0 := by
  apply u8_forall; decide +kernel

theorem json_alphabet (s : Bytes) : alphabetOK (escape s) = true := by
  have : (escape s).foldl alStep (some 0) = some 0 := by
    induction s with
    | nil => rfl
    | cons c s ih =>
      simp only [escape, List.flatMap_cons, List.foldl_append, al_encByte] at ih ⊢
      exact ih
  simp [alphabetOK, this]

/-- `jsonQuote` = the literal including its quotes; stripping them gives the escaped body. -/
theorem jsonQuote_eq (s : Bytes) : quote s = [34] ++ escape s ++ [34] := rfl

theorem jsonQuote_body (s : Bytes) : unescape ((quote s).tail.dropLast) = some s := by
  have : (quote s).tail.dropLast = escape s := by simp [quote]
  rw [this]; exact json_roundtrip s

/-- Repeated letters (`jj`, `jjj`): n passes are undone by n decodings. -/
def unescapeN : Nat → Bytes → Option Bytes
  | 0, b => some b
  | n+1, b => (unescapeN n b).bind unescape

theorem json_iter_roundtrip (n : Nat) (s : Bytes) : unescapeN n (escapeN n s) = some s := by
  induction n generalizing s with
  | zero => rfl
  | succ n ih =>
    show (unescapeN n (escapeN n (escape s))).bind unescape = some s
    rw [ih (escape s)]; exact json_roundtrip s

/-! Sanity / non-vacuity. -/
example : escape [0x01, 0x22, 0x41, 0x1f] = lit "\\u0001\\\"A\\u001f" := by decide
example : unescape (lit "\\ud83d\\ude00") = some [0xF0, 0x9F, 0x98, 0x80] := by decide
example : unescape (lit "\\ud83d") = none := by decide
example : unescape [0x01] = none := by decide
example : alphabetOK [0x01] = false := by decide

end DyntplV.C07
