import DyntplV.Props.C14
import DyntplV.Props.C01

/-!
# C14, composed: `break N` in a nest of any depth ends exactly the N innermost loops

`Props/C14.lean` proves the single steps (a break leaves a depth, a pending depth ends a loop and is decremented,
the loop node hands the rest to its parent). This file composes them **for every nesting depth `k` and every break
depth `N`** over nests of range loops

    nest 0     = {% break N %}
    nest (k+1) = {% for _, v := range l %} a · nest k · b {% endfor %}

over a non-empty list `l`:

* `nest_leaves` — for `k ≤ max N 1`: each of the `k` loops starts exactly ONE iteration (the output is
  `a^k · b^(k-1)`: every level writes its opening text once; the level holding the break is cut short, the levels
  above it finish their iteration — as the engine does — and then end), and `max N 1 − k` levels are left pending;
* `outer_carries_on` — the loop just outside the `max N 1` innermost ones runs **all** its iterations, each of
  them rendering the inner nest afresh (nothing pending leaks from one iteration into the next).
-/

namespace DyntplV.C14N
open DyntplV DyntplV.C01 DyntplV.C14

/-- The states the nests run in: outside regions, on a healthy writer, with the list `l` set. -/
structure Good (xs : List Bytes) (s : St) : Prop where
  bnd : s.c.bnd = []
  wr : s.w.failAt = none
  src : getVar s.c.vars (lit "l") = some (.ins (.strs xs) .strings)

def spec : RLoopSpec := ⟨[], lit "v", lit "l", []⟩

/-- What a node does from a `Good` state with nothing pending: it returns no error or the break signal, leaves
    `d` levels pending, appends `o`, and stays `Good`. -/
def Leaves (reg : Registry) (xs : List Bytes) (n : Node) (f : Nat) (d : Nat) (o : Bytes) (brk : Bool) : Prop :=
  ∀ s, Good xs s → s.c.brkD = 0 →
    (writeNode reg f n s).err = (if brk then some .breakLoop else none) ∧
    (writeNode reg f n s).st.c.brkD = d ∧
    (writeNode reg f n s).st.w.out = s.w.out ++ o ∧
    Good xs (writeNode reg f n s).st

theorem leaves_break (reg : Registry) (xs : List Bytes) (N f : Nat) :
    Leaves reg xs (.brk N) (f+1) (max N 1) [] true := by
  intro s hg hd
  rw [break_node]
  refine ⟨rfl, ?_, by simp [fail], ⟨hg.bnd, hg.wr, hg.src⟩⟩
  simp [fail, hd]

theorem items_nonempty (x : Bytes) (xs : List Bytes) :
    ∃ it rest, loopItems (.ins (.strs (x :: xs)) .strings) [] = it :: rest := by
  have hlen : (loopItems (.ins (.strs (x :: xs)) .strings) []).length = xs.length + 1 := by
    simp [loopItems, insLoop]
  cases h : loopItems (.ins (.strs (x :: xs)) .strings) [] with
  | nil => rw [h] at hlen; simp at hlen
  | cons it rest => exact ⟨it, rest, rfl⟩

theorem good_iterStart (xs : List Bytes) (k : Bytes) (v : Val) (ik : InsKind) (s : St) (hg : Good xs s) :
    Good xs (rIterStart spec k v ik s) := by
  refine ⟨hg.bnd, hg.wr, ?_⟩
  show getVar (setVar s.c.vars (lit "v") _) (lit "l") = _
  rw [C15.get_set_other _ _ _ _ (by decide)]
  exact hg.src

theorem loopParts_plain (a b : Bytes) (inner : Node) (hcf : ∀ e, inner ≠ .condFalse e) :
    loopParts [.raw a, inner, .raw b] = ([.raw a, inner, .raw b], none) := by
  cases inner <;> first | rfl | exact absurd rfl (hcf _)

/-- A loop node whose loop returns normally with a clear `ctx.Err`. -/
theorem loopNode_ok (loop : St → Res) (s st : St) (h : loop { s with c := { s.c with brkD := 0 } } = ok st)
    (he : st.c.err = none) :
    loopNode loop s = ok { st with c := { st.c with brkD := max s.c.brkD st.c.brkD } } := by
  unfold loopNode
  simp only [h, ok, he]

/-- A range loop (no else, no separator, no key) over a non-empty list whose FIRST iteration ends with a pending
    depth: one iteration, then the loop returns with `ctx.Err` cleared. -/
theorem rloopWith_first_stops (run : St → Res) (xs : List Bytes) (x : Bytes) (xs' : List Bytes) (hxs : xs = x :: xs')
    (s : St) (hg : Good xs s) :
    ∃ k v ik, Good xs (rIterStart spec k v ik s) ∧ (rIterStart spec k v ik s).c.brkD = s.c.brkD ∧
      (rIterStart spec k v ik s).w = s.w ∧
      ∀ st, iterAfterBody (run (rIterStart spec k v ik s)) = .stop st →
        rloopWith run none spec s = ok { st with c := { st.c with err := none } } := by
  obtain ⟨it, rest, hit⟩ := items_nonempty x xs'
  obtain ⟨k, v, ik⟩ := it
  refine ⟨k, v, ik, good_iterStart xs k v ik s hg, rfl, rfl, ?_⟩
  intro st hst
  unfold rloopWith
  have hsp : splitDots spec.src = [lit "l"] := by decide
  simp only [hsp, hg.src, hxs, hit]
  rw [rloopLoop]
  have hsep : sepWrite 0 spec.sep (rIterStart spec k v ik s) = ok (rIterStart spec k v ik s) := by
    simp [sepWrite]
  simp only [hsep, ok, hst]
  simp [afterLoop, ok]

/-- The body `a · inner · b` of one iteration, when `inner` leaves `d+1` levels pending. -/
theorem body_run (reg : Registry) (xs : List Bytes) (inner : Node) (f d : Nat) (o : Bytes) (brk : Bool) (a b : Bytes)
    (h : Leaves reg xs inner (f+3) (d+1) o brk) (s : St) (hg : Good xs s) (hd : s.c.brkD = 0) :
    let rb := writeSeq reg (f+5) [.raw a, inner, .raw b] s
    (rb.err = none ∨ ∃ e, rb.err = some e ∧ isSentinel e = true) ∧ rb.st.c.brkD = d + 1 ∧
      rb.st.w.out = s.w.out ++ (a ++ o ++ (if brk then [] else b)) ∧ Good xs rb.st := by
  intro rb
  have hrb : rb = writeSeq reg (f+5) [.raw a, inner, .raw b] s := rfl
  rw [writeSeq, raw_emits reg (f+3) a s hg.bnd hg.wr, ok_andThen, writeSeq] at hrb
  have hg2 : Good xs { s with w := { s.w with out := s.w.out ++ a, writes := s.w.writes + 1 } } := ⟨hg.bnd, hg.wr, hg.src⟩
  obtain ⟨he, hdd, ho, hgi⟩ := h _ hg2 hd
  generalize hri : writeNode reg (f+3) inner { s with w := { s.w with out := s.w.out ++ a, writes := s.w.writes + 1 } } = ri at hrb he hdd ho hgi
  cases brk with
  | true =>
    simp only [if_true] at he
    have : rb = ri := by rw [hrb]; simp [Res.andThen, he]
    rw [this]
    refine ⟨Or.inr ⟨.breakLoop, he, by decide⟩, hdd, ?_, hgi⟩
    rw [ho]; simp
  | false =>
    simp only [Bool.false_eq_true, if_false] at he
    have h1 : rb = writeSeq reg (f+3) [.raw b] ri.st := by rw [hrb]; simp [Res.andThen, he]
    rw [writeSeq, raw_emits reg (f+1) b ri.st hgi.bnd hgi.wr, ok_andThen, writeSeq] at h1
    rw [h1]
    refine ⟨Or.inl rfl, hdd, ?_, ⟨hgi.bnd, hgi.wr, hgi.src⟩⟩
    simp [ok, ho]

/-- **One level.** If `inner` leaves `d+1` levels pending, the range loop around `a · inner · b` runs exactly one
    iteration, returns normally and leaves `d` levels to its parent. -/
theorem leaves_loop (reg : Registry) (xs : List Bytes) (x : Bytes) (xs' : List Bytes) (hxs : xs = x :: xs')
    (inner : Node) (hcf : ∀ e, inner ≠ .condFalse e) (f d : Nat) (o : Bytes) (brk : Bool) (a b : Bytes)
    (h : Leaves reg xs inner (f+3) (d+1) o brk) :
    Leaves reg xs (.rloop spec [.raw a, inner, .raw b]) (f+6) d (a ++ o ++ (if brk then [] else b)) false := by
  intro s hg hd
  rw [writeNode]
  simp only [loopParts_plain a b inner hcf, Option.map_none]
  have hs0 : ({ s with c := { s.c with brkD := 0 } } : St) = s := by
    cases s with | mk c w => cases c; simp at hd; subst hd; rfl
  -- the loop starts from the state with `ctx.Err` cleared
  have hg1 : Good xs ({ s with c := { s.c with err := none } } : St) := ⟨hg.bnd, hg.wr, hg.src⟩
  have hd1 : ({ s with c := { s.c with err := none } } : St).c.brkD = 0 := hd
  obtain ⟨k, v, ik, hgs, hbd, hw, hstop⟩ :=
    rloopWith_first_stops (fun st => writeSeq reg (f+5) [.raw a, inner, .raw b] st) xs x xs' hxs _ hg1
  obtain ⟨hbe, hbdd, hbo, hbg⟩ := body_run reg xs inner f d o brk a b h _ hgs (by rw [hbd]; exact hd1)
  have hst := hstop _ (pending_stops _ d hbe hbdd)
  rw [loopNode_ok _ s _ (by rw [hs0, rloopQB_plain _ _ spec s (by decide)]; exact hst) rfl]
  refine ⟨rfl, ?_, ?_, ⟨hbg.bnd, hbg.wr, hbg.src⟩⟩
  · simp [ok, hd]
  · simp only [ok]
    rw [hbo, hw]

/-! ### Any depth -/

/-- `k` range loops around `{% break N %}`; every level writes `a` before and `b` after the level below. -/
def nest (N : Nat) (a b : Bytes) : Nat → Node
  | 0 => .brk N
  | k+1 => .rloop spec [.raw a, nest N a b k, .raw b]

/-- What the nest writes when all its `k` loops are ended by the break: every level writes its opening text once;
    the innermost body is cut short by the break, the levels above finish their iteration. -/
def nestOut (a b : Bytes) : Nat → Bytes
  | 0 => []
  | 1 => a
  | k+2 => a ++ nestOut a b (k+1) ++ b

theorem nest_not_condFalse (N : Nat) (a b : Bytes) (k : Nat) : ∀ e, nest N a b k ≠ .condFalse e := by
  intro e; cases k <;> simp [nest]

/-- **`break N` ends the `k ≤ max N 1` innermost loops**: each of them starts exactly one iteration (the output is
    `nestOut k`), none returns an error to its parent except the break signal of the innermost body, and
    `max N 1 − k` levels remain pending for the loops further out. For every `N`, every `k`, every non-empty list,
    every sufficient fuel (`3k+3` and more, see `Refine/Fuel.lean`). -/
theorem nest_leaves (reg : Registry) (xs : List Bytes) (x : Bytes) (xs' : List Bytes) (hxs : xs = x :: xs')
    (N : Nat) (a b : Bytes) (g : Nat) :
    ∀ k, k ≤ max N 1 → Leaves reg xs (nest N a b k) (3 * k + 3 + g) (max N 1 - k) (nestOut a b k) (k == 0) := by
  intro k
  induction k with
  | zero =>
    intro _
    have h3 : 3 * 0 + 3 + g = (g + 2) + 1 := by omega
    rw [h3]
    simpa [nest, nestOut] using leaves_break reg xs N (g + 2)
  | succ k ih =>
    intro hk
    have ihk := ih (by omega)
    have hd : max N 1 - k = (max N 1 - (k + 1)) + 1 := by omega
    rw [hd] at ihk
    have hf : 3 * k + 3 + g = (3 * k + g) + 3 := by omega
    rw [hf] at ihk
    have step := leaves_loop reg xs x xs' hxs (nest N a b k) (nest_not_condFalse N a b k) (3 * k + g)
      (max N 1 - (k + 1)) (nestOut a b k) (k == 0) a b ihk
    have hf2 : 3 * (k + 1) + 3 + g = (3 * k + g) + 6 := by omega
    rw [hf2]
    have ho : nestOut a b (k + 1) = a ++ nestOut a b k ++ (if (k == 0) = true then [] else b) := by
      cases k with
      | zero => simp [nestOut]
      | succ j => simp [nestOut]
    rw [ho]
    simpa [nest] using step

/-! ### The loop just outside carries on -/

def rep (p : Bytes) : Nat → Bytes
  | 0 => []
  | m+1 => p ++ rep p m

/-- A range loop whose body never leaves anything pending runs once per element. -/
theorem rloopLoop_all (xs : List Bytes) (run : St → Res) (p : Bytes)
    (hrun : ∀ st, Good xs st → st.c.brkD = 0 →
      (run st).err = none ∧ (run st).st.c.brkD = 0 ∧ (run st).st.w.out = st.w.out ++ p ∧ Good xs (run st).st) :
    ∀ (items : List (Bytes × Val × InsKind)) (n : Nat) (s : St), Good xs s → s.c.brkD = 0 →
      (rloopLoop run spec items n s).abort = false ∧ (rloopLoop run spec items n s).n = n + items.length ∧
      (rloopLoop run spec items n s).st.w.out = s.w.out ++ rep p items.length ∧
      Good xs (rloopLoop run spec items n s).st ∧ (rloopLoop run spec items n s).st.c.brkD = 0 := by
  intro items
  induction items with
  | nil => intro n s hg hd; simp [rloopLoop, rep, hg, hd]
  | cons it rest ih =>
    obtain ⟨k, v, ik⟩ := it
    intro n s hg hd
    rw [rloopLoop]
    have hsep : sepWrite n spec.sep (rIterStart spec k v ik s) = ok (rIterStart spec k v ik s) := by
      simp [sepWrite, spec]
    obtain ⟨he, hb, ho, hgr⟩ := hrun (rIterStart spec k v ik s) (good_iterStart xs k v ik s hg) hd
    have hnext : iterAfterBody (run (rIterStart spec k v ik s)) = .next (run (rIterStart spec k v ik s)).st :=
      no_pending_continues _ (Or.inl he) hb
    simp only [hsep, ok, hnext]
    obtain ⟨h1, h2, h3, h4, h5⟩ := ih (n + 1) _ hgr hb
    refine ⟨h1, by rw [h2]; simp; omega, ?_, h4, h5⟩
    rw [h3, ho]
    show s.w.out ++ p ++ rep p rest.length = s.w.out ++ rep p (rest.length + 1)
    simp [rep]

theorem loopItems_length (xs : List Bytes) : (loopItems (.ins (.strs xs) .strings) []).length = xs.length := by
  simp [loopItems, insLoop]

/-- **The loops further out carry on**: a range loop around a node that leaves nothing pending (such as the nest of
    `max N 1` loops around `break N`) runs one iteration per element, each rendering the inner node afresh. -/
theorem outer_carries_on (reg : Registry) (xs : List Bytes) (x : Bytes) (xs' : List Bytes) (hxs : xs = x :: xs')
    (inner : Node) (hcf : ∀ e, inner ≠ .condFalse e) (f : Nat) (o : Bytes) (a b : Bytes)
    (h : Leaves reg xs inner (f+3) 0 o false) :
    Leaves reg xs (.rloop spec [.raw a, inner, .raw b]) (f+6) 0 (rep (a ++ o ++ b) xs.length) false := by
  intro s hg hd
  rw [writeNode]
  simp only [loopParts_plain a b inner hcf, Option.map_none]
  have hs0 : ({ s with c := { s.c with brkD := 0 } } : St) = s := by
    cases s with | mk c w => cases c; simp at hd; subst hd; rfl
  -- the loop starts from the state with `ctx.Err` cleared
  have hg1 : Good xs ({ s with c := { s.c with err := none } } : St) := ⟨hg.bnd, hg.wr, hg.src⟩
  have hd1 : ({ s with c := { s.c with err := none } } : St).c.brkD = 0 := hd
  -- one iteration of the body
  have hrun : ∀ st, Good xs st → st.c.brkD = 0 →
      (writeSeq reg (f+5) [.raw a, inner, .raw b] st).err = none ∧
      (writeSeq reg (f+5) [.raw a, inner, .raw b] st).st.c.brkD = 0 ∧
      (writeSeq reg (f+5) [.raw a, inner, .raw b] st).st.w.out = st.w.out ++ (a ++ o ++ b) ∧
      Good xs (writeSeq reg (f+5) [.raw a, inner, .raw b] st).st := by
    intro st hgs hds
    rw [writeSeq, raw_emits reg (f+3) a st hgs.bnd hgs.wr, ok_andThen, writeSeq]
    have hg2 : Good xs { st with w := { st.w with out := st.w.out ++ a, writes := st.w.writes + 1 } } := ⟨hgs.bnd, hgs.wr, hgs.src⟩
    obtain ⟨he, hdd, ho, hgi⟩ := h _ hg2 hds
    simp only [Bool.false_eq_true, if_false] at he
    generalize writeNode reg (f+3) inner { st with w := { st.w with out := st.w.out ++ a, writes := st.w.writes + 1 } } = ri at he hdd ho hgi
    have h1 : (ri.andThen fun s1 => writeSeq reg (f+3) [.raw b] s1) = writeSeq reg (f+3) [.raw b] ri.st := by
      simp [Res.andThen, he]
    rw [h1, writeSeq, raw_emits reg (f+1) b ri.st hgi.bnd hgi.wr, ok_andThen, writeSeq]
    refine ⟨rfl, hdd, ?_, ⟨hgi.bnd, hgi.wr, hgi.src⟩⟩
    simp [ok, ho]
  have hall := rloopLoop_all xs (fun st => writeSeq reg (f+5) [.raw a, inner, .raw b] st) (a ++ o ++ b) hrun
    (loopItems (.ins (.strs xs) .strings) []) 0 _ hg1 hd1
  obtain ⟨hab, hn, hout, hgl, hbl⟩ := hall
  have hloop : rloopWith (fun st => writeSeq reg (f+5) [.raw a, inner, .raw b] st) none spec { s with c := { s.c with err := none } } =
      ok { (rloopLoop (fun st => writeSeq reg (f+5) [.raw a, inner, .raw b] st) spec (loopItems (.ins (.strs xs) .strings) []) 0 { s with c := { s.c with err := none } }).st with
        c := { (rloopLoop (fun st => writeSeq reg (f+5) [.raw a, inner, .raw b] st) spec (loopItems (.ins (.strs xs) .strings) []) 0 { s with c := { s.c with err := none } }).st.c with err := none } } := by
    unfold rloopWith
    have hsp : splitDots spec.src = [lit "l"] := by decide
    simp only [hsp, hg1.src]
    unfold afterLoop
    have hn0 : ((rloopLoop (fun st => writeSeq reg (f+5) [.raw a, inner, .raw b] st) spec (loopItems (.ins (.strs xs) .strings) []) 0 { s with c := { s.c with err := none } }).n == 0) = false := by
      rw [hn, loopItems_length, hxs]; simp
    simp only [hab, Bool.false_eq_true, if_false, hn0]
  rw [loopNode_ok _ s _ (by rw [hs0, rloopQB_plain _ _ spec s (by decide)]; exact hloop) rfl]
  refine ⟨rfl, ?_, ?_, ⟨hgl.bnd, hgl.wr, hgl.src⟩⟩
  · simp only [ok]
    rw [hbl, hd]; rfl
  · simp only [ok]
    rw [hout, loopItems_length]

/-- Both together: `max N 1 + 1` loops around `break N` — the outermost runs once per element of the list, the
    `max N 1` loops inside it run one iteration each, every time. -/
theorem break_N_ends_exactly_N (reg : Registry) (xs : List Bytes) (x : Bytes) (xs' : List Bytes) (hxs : xs = x :: xs')
    (N : Nat) (a b : Bytes) (g : Nat) :
    Leaves reg xs (nest N a b (max N 1 + 1)) (3 * (max N 1 + 1) + 3 + g) 0
      (rep (a ++ nestOut a b (max N 1) ++ b) xs.length) false := by
  have hin := nest_leaves reg xs x xs' hxs N a b g (max N 1) (Nat.le_refl _)
  have hz : max N 1 - max N 1 = 0 := by omega
  have hb : (max N 1 == 0) = false := by
    have : max N 1 ≠ 0 := by omega
    simp [this]
  rw [hz, hb] at hin
  have hf : 3 * max N 1 + 3 + g = (3 * max N 1 + g) + 3 := by omega
  rw [hf] at hin
  have := outer_carries_on reg xs x xs' hxs (nest N a b (max N 1)) (nest_not_condFalse N a b _) (3 * max N 1 + g)
    (nestOut a b (max N 1)) a b hin
  have hf2 : 3 * (max N 1 + 1) + 3 + g = (3 * max N 1 + g) + 6 := by omega
  rw [hf2]
  simpa [nest] using this

/-! Non-vacuity: the hypotheses are met by a concrete state, and the statement agrees with a run of the model. -/
def st0 : St := { c := ({} : Ctx).set (lit "l") (.strs [lit "1", lit "2"]) .strings, w := {} }

example : Good [lit "1", lit "2"] st0 := ⟨rfl, rfl, rfl⟩
example : (writeNode [] 20 (nest 2 (lit "[") (lit "]") 3) st0).st.w.out = lit "[[[]][[[]]" := by decide
example : rep (lit "[" ++ nestOut (lit "[") (lit "]") 2 ++ lit "]") 2 = lit "[[[]][[[]]" := by decide

/-! ### Loops that nobody breaks: every level runs once per element, at any nesting depth (C03) -/

theorem leaves_raw (reg : Registry) (xs : List Bytes) (c : Bytes) (f : Nat) : Leaves reg xs (.raw c) (f+1) 0 c false := by
  intro s hg hd
  rw [raw_emits reg f c s hg.bnd hg.wr]
  exact ⟨rfl, hd, rfl, ⟨hg.bnd, hg.wr, hg.src⟩⟩

/-- `k` range loops over the same list around the text `c`, each level writing `a` before and `b` after. -/
def nestFull (a b c : Bytes) : Nat → Node
  | 0 => .raw c
  | k+1 => .rloop spec [.raw a, nestFull a b c k, .raw b]

/-- What they write over a list of `m` elements: every level repeats its whole body `m` times. -/
def fullOut (a b c : Bytes) (m : Nat) : Nat → Bytes
  | 0 => c
  | k+1 => rep (a ++ fullOut a b c m k ++ b) m

theorem nestFull_not_condFalse (a b c : Bytes) (k : Nat) : ∀ e, nestFull a b c k ≠ .condFalse e := by
  intro e; cases k <;> simp [nestFull]

/-- **Nested loops do not disturb one another, at any depth**: `k` nested range loops over a non-empty list each run
    once per element in every iteration of the loops around them (the output is the `k`-fold repetition), return no
    error and leave nothing pending. -/
theorem nestFull_runs_all (reg : Registry) (xs : List Bytes) (x : Bytes) (xs' : List Bytes) (hxs : xs = x :: xs')
    (a b c : Bytes) (g : Nat) :
    ∀ k, Leaves reg xs (nestFull a b c k) (3 * k + 3 + g) 0 (fullOut a b c xs.length k) false := by
  intro k
  induction k with
  | zero =>
    have h3 : 3 * 0 + 3 + g = (g + 2) + 1 := by omega
    rw [h3]
    simpa [nestFull, fullOut] using leaves_raw reg xs c (g + 2)
  | succ k ih =>
    have hf : 3 * k + 3 + g = (3 * k + g) + 3 := by omega
    rw [hf] at ih
    have step := outer_carries_on reg xs x xs' hxs (nestFull a b c k) (nestFull_not_condFalse a b c k) (3 * k + g)
      (fullOut a b c xs.length k) a b ih
    have hf2 : 3 * (k + 1) + 3 + g = (3 * k + g) + 6 := by omega
    rw [hf2]
    simpa [nestFull, fullOut] using step

example : (writeNode [] 20 (nestFull (lit "[") (lit "]") (lit "x") 2) st0).st.w.out = lit "[[x][x]][[x][x]]" := by decide
example : fullOut (lit "[") (lit "]") (lit "x") 2 2 = lit "[[x][x]][[x][x]]" := by decide

/-! ### lazybreak at any depth -/

theorem leaves_lazybreak (reg : Registry) (xs : List Bytes) (N f : Nat) :
    Leaves reg xs (.lbrk N) (f+1) (max N 1) [] false := by
  intro s hg hd
  rw [lazybreak_node]
  refine ⟨rfl, ?_, by simp [ok], ⟨hg.bnd, hg.wr, hg.src⟩⟩
  simp [ok, hd]

/-- `k` range loops around `{% lazybreak N %}`. -/
def nestLazy (N : Nat) (a b : Bytes) : Nat → Node
  | 0 => .lbrk N
  | k+1 => .rloop spec [.raw a, nestLazy N a b k, .raw b]

/-- With lazybreak every level finishes its iteration: `a^k · b^k`. -/
def nestLazyOut (a b : Bytes) : Nat → Bytes
  | 0 => []
  | k+1 => a ++ nestLazyOut a b k ++ b

theorem nestLazy_not_condFalse (N : Nat) (a b : Bytes) (k : Nat) : ∀ e, nestLazy N a b k ≠ .condFalse e := by
  intro e; cases k <;> simp [nestLazy]

/-- **`lazybreak N` lets every one of the `k ≤ max N 1` innermost loops finish its current iteration and then ends
    it**: one iteration each (output `a^k · b^k`), `max N 1 − k` levels left pending. -/
theorem nestLazy_leaves (reg : Registry) (xs : List Bytes) (x : Bytes) (xs' : List Bytes) (hxs : xs = x :: xs')
    (N : Nat) (a b : Bytes) (g : Nat) :
    ∀ k, k ≤ max N 1 → Leaves reg xs (nestLazy N a b k) (3 * k + 3 + g) (max N 1 - k) (nestLazyOut a b k) false := by
  intro k
  induction k with
  | zero =>
    intro _
    have h3 : 3 * 0 + 3 + g = (g + 2) + 1 := by omega
    rw [h3]
    simpa [nestLazy, nestLazyOut] using leaves_lazybreak reg xs N (g + 2)
  | succ k ih =>
    intro hk
    have ihk := ih (by omega)
    have hd : max N 1 - k = (max N 1 - (k + 1)) + 1 := by omega
    rw [hd] at ihk
    have hf : 3 * k + 3 + g = (3 * k + g) + 3 := by omega
    rw [hf] at ihk
    have step := leaves_loop reg xs x xs' hxs (nestLazy N a b k) (nestLazy_not_condFalse N a b k) (3 * k + g)
      (max N 1 - (k + 1)) (nestLazyOut a b k) false a b ihk
    have hf2 : 3 * (k + 1) + 3 + g = (3 * k + g) + 6 := by omega
    rw [hf2]
    simpa [nestLazy, nestLazyOut] using step

example : (writeNode [] 20 (nestLazy 2 (lit "[") (lit "]") 2) st0).st.w.out = lit "[[]]" := by decide

end DyntplV.C14N
