import DyntplV.Props.C14C

/-!
# C14 / C03 for MIXED nests of any depth

`Props/C14N.lean` (range loops) and `Props/C14C.lean` (counter loops) prove the any-depth theorems for nests of one
loop kind.  Here the kinds are mixed freely: a nest is given by a list of kinds, outermost first
(`true` = `{% for i := 0; i < n; i++ %}`, `false` = `{% for _, v := range l %}`), over a non-empty list `l` and a
bound `n = m > 0`:

* `nestM_leaves` — `break N` under `k ≤ max N 1` loops of ANY kinds: each loop starts exactly one iteration and
  `max N 1 − k` levels are left pending;
* `break_N_ends_exactly_N` — one more loop (of either kind) around `max N 1` loops of any kinds runs ALL its
  iterations, each rendering the inner nest afresh;
* `fullM_runs_all` — without a break every level of a mixed nest of any depth runs all its iterations in every
  iteration of the loops around it (C03 "nested … loops do not disturb one another").
-/

namespace DyntplV.C14M
open DyntplV DyntplV.C01 DyntplV.C14 DyntplV.C14N
open DyntplV.C14C (cspec)

/-- The states mixed nests run in: outside regions, healthy writer, no error pending, the list `l` and the bound `n` set. -/
structure Good (xs : List Bytes) (m : Int) (s : St) : Prop where
  bnd : s.c.bnd = []
  wr : s.w.failAt = none
  err : s.c.err = none
  src : getVar s.c.vars (lit "l") = some (.ins (.strs xs) .strings)
  lim : getVar s.c.vars (lit "n") = some (.ins (.int m) .static)

def Leaves (reg : Registry) (xs : List Bytes) (m : Int) (n : Node) (f : Nat) (d : Nat) (o : Bytes) (brk : Bool) : Prop :=
  ∀ s, Good xs m s → s.c.brkD = 0 →
    (writeNode reg f n s).err = (if brk then some .breakLoop else none) ∧
    (writeNode reg f n s).st.c.brkD = d ∧
    (writeNode reg f n s).st.w.out = s.w.out ++ o ∧
    Good xs m (writeNode reg f n s).st

theorem leaves_raw (reg : Registry) (xs : List Bytes) (m : Int) (c : Bytes) (f : Nat) : Leaves reg xs m (.raw c) (f+1) 0 c false := by
  intro s hg hd
  rw [raw_emits reg f c s hg.bnd hg.wr]
  exact ⟨rfl, hd, rfl, ⟨hg.bnd, hg.wr, hg.err, hg.src, hg.lim⟩⟩

theorem leaves_break (reg : Registry) (xs : List Bytes) (m : Int) (N f : Nat) : Leaves reg xs m (.brk N) (f+1) (max N 1) [] true := by
  intro s hg hd
  rw [break_node]
  refine ⟨rfl, ?_, by simp [fail], ⟨hg.bnd, hg.wr, hg.err, hg.src, hg.lim⟩⟩
  simp [fail, hd]

theorem good_setVar (xs : List Bytes) (m : Int) (s : St) (k : Bytes) (vv : VarVal) (hg : Good xs m s)
    (hl : (k == lit "l") = false) (hn : (k == lit "n") = false) :
    Good xs m { s with c := { s.c with vars := setVar s.c.vars k vv } } := by
  refine ⟨hg.bnd, hg.wr, hg.err, ?_, ?_⟩
  · show getVar (setVar s.c.vars k _) (lit "l") = _
    rw [C15.get_set_other _ _ _ _ hl]; exact hg.src
  · show getVar (setVar s.c.vars k _) (lit "n") = _
    rw [C15.get_set_other _ _ _ _ hn]; exact hg.lim

theorem good_iterStart (xs : List Bytes) (m : Int) (k : Bytes) (v : Val) (ik : InsKind) (s : St) (hg : Good xs m s) :
    Good xs m (rIterStart spec k v ik s) :=
  good_setVar xs m s (lit "v") _ hg (by decide) (by decide)

theorem good_setI (xs : List Bytes) (m : Int) (s : St) (v : Int) (hg : Good xs m s) :
    Good xs m { s with c := s.c.setStatic (lit "i") (.int v) } :=
  good_setVar xs m s (lit "i") _ hg (by decide) (by decide)

theorem good_chQB (xs : List Bytes) (m : Int) (s : St) (b : Bool) (hg : Good xs m s) :
    Good xs m { s with c := { s.c with chQB := b } } :=
  ⟨hg.bnd, hg.wr, hg.err, hg.src, hg.lim⟩

/-- The body `a · inner · b` of one iteration of either loop kind. -/
theorem body_run (reg : Registry) (xs : List Bytes) (m : Int) (inner : Node) (f d : Nat) (o : Bytes) (brk : Bool) (a b : Bytes)
    (h : Leaves reg xs m inner (f+3) d o brk) (s : St) (hg : Good xs m s) (hd : s.c.brkD = 0) :
    let rb := writeSeq reg (f+5) [.raw a, inner, .raw b] s
    rb.err = (if brk then some .breakLoop else none) ∧ rb.st.c.brkD = d ∧
      rb.st.w.out = s.w.out ++ (a ++ o ++ (if brk then [] else b)) ∧ Good xs m rb.st := by
  intro rb
  have hrb : rb = writeSeq reg (f+5) [.raw a, inner, .raw b] s := rfl
  rw [writeSeq.eq_3, raw_emits reg (f+3) a s hg.bnd hg.wr, ok_andThen, writeSeq.eq_3] at hrb
  have hg2 : Good xs m { s with w := { s.w with out := s.w.out ++ a, writes := s.w.writes + 1 } } :=
    ⟨hg.bnd, hg.wr, hg.err, hg.src, hg.lim⟩
  obtain ⟨he, hdd, ho, hgi⟩ := h _ hg2 hd
  generalize hri : writeNode reg (f+3) inner { s with w := { s.w with out := s.w.out ++ a, writes := s.w.writes + 1 } } = ri at hrb he hdd ho hgi
  cases brk with
  | true =>
    simp only [if_true] at he
    have : rb = ri := by rw [hrb]; simp [Res.andThen, he]
    rw [this]
    refine ⟨he, hdd, ?_, hgi⟩
    rw [ho]; simp
  | false =>
    simp only [Bool.false_eq_true, if_false] at he
    have h1 : rb = writeSeq reg (f+3) [.raw b] ri.st := by rw [hrb]; simp [Res.andThen, he]
    rw [C16N.seq_raw reg (f+1) b ri.st hgi.bnd hgi.wr] at h1
    rw [h1]
    refine ⟨rfl, hdd, ?_, ⟨hgi.bnd, hgi.wr, hgi.err, hgi.src, hgi.lim⟩⟩
    simp [ok, ho]

/-! ### Range level -/

/-- A range loop over the non-empty list whose FIRST iteration ends with a pending depth. -/
theorem rloopWith_first_stops (run : St → Res) (xs : List Bytes) (m : Int) (x : Bytes) (xs' : List Bytes) (hxs : xs = x :: xs')
    (s : St) (hg : Good xs m s) :
    ∃ k v ik, Good xs m (rIterStart spec k v ik s) ∧ (rIterStart spec k v ik s).c.brkD = s.c.brkD ∧
      (rIterStart spec k v ik s).w = s.w ∧
      ∀ st, iterAfterBody (run (rIterStart spec k v ik s)) = .stop st →
        rloopWith run none spec s = ok { st with c := { st.c with err := none } } := by
  obtain ⟨it, rest, hit⟩ := items_nonempty x xs'
  obtain ⟨k, v, ik⟩ := it
  refine ⟨k, v, ik, good_iterStart xs m k v ik s hg, rfl, rfl, ?_⟩
  intro st hst
  unfold rloopWith
  have hsp : splitDots spec.src = [lit "l"] := by decide
  simp only [hsp, hg.src, hxs, hit]
  rw [rloopLoop]
  have hsep : sepWrite 0 spec.sep (rIterStart spec k v ik s) = ok (rIterStart spec k v ik s) := by
    simp [sepWrite]
  simp only [hsep, ok, hst]
  simp [afterLoop, ok]

/-- **One range level, break pending.** -/
theorem range_first_stops (reg : Registry) (xs : List Bytes) (m : Int) (x : Bytes) (xs' : List Bytes) (hxs : xs = x :: xs')
    (inner : Node) (hcf : ∀ e, inner ≠ .condFalse e) (f d : Nat) (o : Bytes) (brk : Bool) (a b : Bytes)
    (h : Leaves reg xs m inner (f+3) (d+1) o brk) :
    Leaves reg xs m (.rloop spec [.raw a, inner, .raw b]) (f+6) d (a ++ o ++ (if brk then [] else b)) false := by
  intro s hg hd
  rw [writeNode]
  simp only [loopParts_plain a b inner hcf, Option.map_none]
  have hs0 : ({ s with c := { s.c with brkD := 0 } } : St) = s := by
    cases s with | mk c w => cases c; simp at hd; subst hd; rfl
  obtain ⟨k, v, ik, hgs, hbd, hw, hstop⟩ :=
    rloopWith_first_stops (fun st => writeSeq reg (f+5) [.raw a, inner, .raw b] st) xs m x xs' hxs s hg
  obtain ⟨hbe, hbdd, hbo, hbg⟩ := body_run reg xs m inner f (d+1) o brk a b h _ hgs (by rw [hbd]; exact hd)
  have hsig : (writeSeq reg (f+5) [.raw a, inner, .raw b] (rIterStart spec k v ik s)).err = none ∨
      ∃ e, (writeSeq reg (f+5) [.raw a, inner, .raw b] (rIterStart spec k v ik s)).err = some e ∧ isSentinel e = true := by
    cases brk with
    | true => right; exact ⟨.breakLoop, by simpa using hbe, by decide⟩
    | false => left; simpa using hbe
  have hst := hstop _ (pending_stops _ d hsig hbdd)
  rw [loopNode_ok _ s _ (by rw [hs0, rloopQB_plain_clean _ _ spec s (by decide) hg.err]; exact hst) rfl]
  refine ⟨rfl, ?_, ?_, ⟨hbg.bnd, hbg.wr, rfl, hbg.src, hbg.lim⟩⟩
  · simp [ok, hd]
  · simp only [ok]
    rw [hbo, hw]

/-- A range loop whose body never leaves anything pending runs once per element. -/
theorem rloopLoop_all (xs : List Bytes) (m : Int) (run : St → Res) (p : Bytes)
    (hrun : ∀ st, Good xs m st → st.c.brkD = 0 →
      (run st).err = none ∧ (run st).st.c.brkD = 0 ∧ (run st).st.w.out = st.w.out ++ p ∧ Good xs m (run st).st) :
    ∀ (items : List (Bytes × Val × InsKind)) (n : Nat) (s : St), Good xs m s → s.c.brkD = 0 →
      (rloopLoop run spec items n s).abort = false ∧ (rloopLoop run spec items n s).n = n + items.length ∧
      (rloopLoop run spec items n s).st.w.out = s.w.out ++ rep p items.length ∧
      Good xs m (rloopLoop run spec items n s).st ∧ (rloopLoop run spec items n s).st.c.brkD = 0 := by
  intro items
  induction items with
  | nil => intro n s hg hd; simp [rloopLoop, rep, hg, hd]
  | cons it rest ih =>
    obtain ⟨k, v, ik⟩ := it
    intro n s hg hd
    rw [rloopLoop]
    have hsep : sepWrite n spec.sep (rIterStart spec k v ik s) = ok (rIterStart spec k v ik s) := by
      simp [sepWrite, spec]
    obtain ⟨he, hb, ho, hgr⟩ := hrun (rIterStart spec k v ik s) (good_iterStart xs m k v ik s hg) hd
    have hnext : iterAfterBody (run (rIterStart spec k v ik s)) = .next (run (rIterStart spec k v ik s)).st :=
      no_pending_continues _ (Or.inl he) hb
    simp only [hsep, ok, hnext]
    obtain ⟨h1, h2, h3, h4, h5⟩ := ih (n + 1) _ hgr hb
    refine ⟨h1, by rw [h2]; simp; omega, ?_, h4, h5⟩
    rw [h3, ho]
    show s.w.out ++ p ++ rep p rest.length = s.w.out ++ rep p (rest.length + 1)
    simp [rep]

/-- **One range level, nothing pending**: the loop runs once per element. -/
theorem range_carries_on (reg : Registry) (xs : List Bytes) (m : Int) (x : Bytes) (xs' : List Bytes) (hxs : xs = x :: xs')
    (inner : Node) (hcf : ∀ e, inner ≠ .condFalse e) (f : Nat) (o : Bytes) (a b : Bytes)
    (h : Leaves reg xs m inner (f+3) 0 o false) :
    Leaves reg xs m (.rloop spec [.raw a, inner, .raw b]) (f+6) 0 (rep (a ++ o ++ b) xs.length) false := by
  intro s hg hd
  rw [writeNode]
  simp only [loopParts_plain a b inner hcf, Option.map_none]
  have hs0 : ({ s with c := { s.c with brkD := 0 } } : St) = s := by
    cases s with | mk c w => cases c; simp at hd; subst hd; rfl
  have hrun : ∀ st, Good xs m st → st.c.brkD = 0 →
      (writeSeq reg (f+5) [.raw a, inner, .raw b] st).err = none ∧
      (writeSeq reg (f+5) [.raw a, inner, .raw b] st).st.c.brkD = 0 ∧
      (writeSeq reg (f+5) [.raw a, inner, .raw b] st).st.w.out = st.w.out ++ (a ++ o ++ b) ∧
      Good xs m (writeSeq reg (f+5) [.raw a, inner, .raw b] st).st := by
    intro st hgs hds
    have := body_run reg xs m inner f 0 o false a b h st hgs hds
    simpa using this
  have hall := rloopLoop_all xs m (fun st => writeSeq reg (f+5) [.raw a, inner, .raw b] st) (a ++ o ++ b) hrun
    (loopItems (.ins (.strs xs) .strings) []) 0 s hg hd
  obtain ⟨hab, hn, hout, hgl, hbl⟩ := hall
  have hloop : rloopWith (fun st => writeSeq reg (f+5) [.raw a, inner, .raw b] st) none spec s =
      ok { (rloopLoop (fun st => writeSeq reg (f+5) [.raw a, inner, .raw b] st) spec (loopItems (.ins (.strs xs) .strings) []) 0 s).st with
        c := { (rloopLoop (fun st => writeSeq reg (f+5) [.raw a, inner, .raw b] st) spec (loopItems (.ins (.strs xs) .strings) []) 0 s).st.c with err := none } } := by
    unfold rloopWith
    have hsp : splitDots spec.src = [lit "l"] := by decide
    simp only [hsp, hg.src]
    unfold afterLoop
    have hn0 : ((rloopLoop (fun st => writeSeq reg (f+5) [.raw a, inner, .raw b] st) spec (loopItems (.ins (.strs xs) .strings) []) 0 s).n == 0) = false := by
      rw [hn, loopItems_length, hxs]; simp
    simp only [hab, Bool.false_eq_true, if_false, hn0]
  rw [loopNode_ok _ s _ (by rw [hs0, rloopQB_plain_clean _ _ spec s (by decide) hg.err]; exact hloop) rfl]
  refine ⟨rfl, ?_, ?_, ⟨hgl.bnd, hgl.wr, rfl, hgl.src, hgl.lim⟩⟩
  · simp [ok, hd, hbl]
  · simp only [ok]
    rw [hout, loopItems_length]

/-! ### Counter level -/

/-- The bounds of the counter loop: `0` and the value of `n`; `ctx.Err` stays clear. -/
theorem bounds (xs : List Bytes) (m : Int) (s : St) (hg : Good xs m s) :
    (loopBounds s.c cspec).2 = some (0, m) ∧ Good xs m { s with c := (loopBounds s.c cspec).1 } ∧
    (loopBounds s.c cspec).1.brkD = s.c.brkD ∧ ({ s with c := (loopBounds s.c cspec).1 } : St).w = s.w := by
  have h0 : parseIntLit (lit "0") = some 0 := by decide
  have hsp : splitDots (lit "n") = [lit "n"] := by decide
  have hnb : indexOf 91 (lit "n") = none := by decide
  have hget : ∀ c : Ctx, getVar c.vars (lit "n") = some (.ins (.int m) .static) →
      c.get (lit "n") = (.int m, { c with err := none }) := by
    intro c hc
    unfold Ctx.get getCore
    cases c.chQB <;> simp [replaceQB_plain _ _ hnb, hsp, getChunks, getChunksErr, hc, insGet, insGetErr]
  unfold loopBounds cloopRange
  simp only [cspec, h0, if_true, Bool.false_eq_true, if_false]
  rw [hget { s.c with err := none } hg.lim]
  simp only
  refine ⟨by simp, ⟨hg.bnd, hg.wr, rfl, hg.src, hg.lim⟩, by simp, by simp⟩

/-- A counter loop whose body never leaves anything pending runs once per counter value. -/
theorem cloopLoop_all (xs : List Bytes) (m : Int) (run : St → Res) (p : Bytes)
    (hrun : ∀ st, Good xs m st → st.c.brkD = 0 →
      (run st).err = none ∧ (run st).st.c.brkD = 0 ∧ (run st).st.w.out = st.w.out ++ p ∧ Good xs m (run st).st) :
    ∀ (f : Nat) (v : Int) (n : Nat) (s : St), Good xs m s → s.c.brkD = 0 → (m - v).toNat < f →
      (cloopLoop run cspec f v m n s).abort = false ∧
      (cloopLoop run cspec f v m n s).st.w.out = s.w.out ++ rep p (m - v).toNat ∧
      Good xs m (cloopLoop run cspec f v m n s).st ∧ (cloopLoop run cspec f v m n s).st.c.brkD = 0 ∧
      (cloopLoop run cspec f v m n s).n = n + (m - v).toNat := by
  intro f
  induction f with
  | zero => intro v n s _ _ h; omega
  | succ f ih =>
    intro v n s hg hd hf
    rw [cloopLoop]
    by_cases hv : v < m
    · have hla : loopAllows cspec.condOp v m = some true := by simp [loopAllows, cspec, hv]
      simp only [hla]
      have hsep : sepWrite n cspec.sep { s with c := s.c.setStatic cspec.cnt (.int v) } = ok { s with c := s.c.setStatic cspec.cnt (.int v) } := by
        simp [sepWrite, cspec]
      simp only [hsep, ok]
      have hclr : clrErrIf (n > 0 && !cspec.sep.isEmpty) { s with c := s.c.setStatic cspec.cnt (.int v) } = { s with c := s.c.setStatic cspec.cnt (.int v) } := by
        simp [clrErrIf, cspec]
      simp only [hclr]
      have hop : (cspec.cntOp == Op.inc || cspec.cntOp == Op.dec) = true := by decide
      simp only [hop, if_true]
      have hg2 : Good xs m { ({ s with c := s.c.setStatic cspec.cnt (.int v) } : St) with
          c := { ({ s with c := s.c.setStatic cspec.cnt (.int v) } : St).c with chQB := true } } :=
        good_chQB xs m _ true (good_setI xs m s v hg)
      have hfacts := hrun _ hg2 hd
      generalize hrb : run { ({ s with c := s.c.setStatic cspec.cnt (.int v) } : St) with
          c := { ({ s with c := s.c.setStatic cspec.cnt (.int v) } : St).c with chQB := true } } = rb at hfacts ⊢
      obtain ⟨he, hb, ho, hgr⟩ := hfacts
      rw [no_pending_continues]
      · simp only
        have hstep : stepVal cspec.cntOp v = v + 1 := by simp [stepVal, cspec]
        have hg3 := good_setI xs m _ (stepVal cspec.cntOp v)
          (good_chQB xs m rb.st ({ s with c := s.c.setStatic cspec.cnt (.int v) } : St).c.chQB hgr)
        -- the next iteration starts with `ctx.Err` cleared
        have hg3' : Good xs m ({ ({ rb.st with c := { rb.st.c with chQB := ({ s with c := s.c.setStatic cspec.cnt (.int v) } : St).c.chQB } } : St) with
            c := { (({ rb.st with c := { rb.st.c with chQB := ({ s with c := s.c.setStatic cspec.cnt (.int v) } : St).c.chQB } } : St).c.setStatic cspec.cnt (.int (stepVal cspec.cntOp v))) with err := none } } : St) :=
          ⟨hg3.bnd, hg3.wr, rfl, hg3.src, hg3.lim⟩
        obtain ⟨h1, h2, h3, h4, h5⟩ := ih (stepVal cspec.cntOp v) (n + 1) _ hg3' hb (by rw [hstep]; omega)
        refine ⟨h1, ?_, h3, h4, ?_⟩
        · refine h2.trans ?_
          show rb.st.w.out ++ _ = _
          rw [ho, hstep]
          have hn : (m - v).toNat = (m - (v + 1)).toNat + 1 := by omega
          rw [hn]
          simp [rep, List.append_assoc]
        · refine h5.trans ?_
          rw [hstep]; omega
      · exact Or.inl he
      · exact hb
    · have hla : loopAllows cspec.condOp v m = some false := by simp [loopAllows, cspec, hv]
      have h0 : (m - v).toNat = 0 := by omega
      simp only [hla, h0, rep, List.append_nil, Nat.add_zero]
      refine ⟨by simp, by simp, good_setI xs m s v hg, hd, by simp⟩

theorem cloopWith_all (xs : List Bytes) (m : Int) (run : St → Res) (p : Bytes) (f : Nat)
    (hrun : ∀ st, Good xs m st → st.c.brkD = 0 →
      (run st).err = none ∧ (run st).st.c.brkD = 0 ∧ (run st).st.w.out = st.w.out ++ p ∧ Good xs m (run st).st)
    (s : St) (hg : Good xs m s) (hd : s.c.brkD = 0) (hf : m.toNat < f) :
    ∃ st, cloopWith run none f cspec s = ok st ∧ st.w.out = s.w.out ++ rep p m.toNat ∧ Good xs m st ∧ st.c.brkD = 0 := by
  obtain ⟨hb, hgb, hbd, hbw⟩ := bounds xs m s hg
  unfold cloopWith cloopAfter
  simp only [hb]
  have hall := cloopLoop_all xs m run p hrun f 0 0 { s with c := (loopBounds s.c cspec).1 } hgb (by rw [← hd]; exact hbd)
    (by simpa using hf)
  obtain ⟨h1, h2, h3, h4, h5⟩ := hall
  refine ⟨_, ?_, ?_, h3, h4⟩
  · unfold afterLoop
    simp only [h1, Bool.false_eq_true, if_false]
    split <;> rfl
  · rw [h2, hbw]; simp

/-- **One counter level, nothing pending**: the loop runs `m` iterations. -/
theorem counter_carries_on (reg : Registry) (xs : List Bytes) (m : Int) (inner : Node) (hcf : ∀ e, inner ≠ .condFalse e) (f : Nat)
    (o a b : Bytes) (hf : m.toNat < f + 5) (h : Leaves reg xs m inner (f+3) 0 o false) :
    Leaves reg xs m (.cloop cspec [.raw a, inner, .raw b]) (f+6) 0 (rep (a ++ o ++ b) m.toNat) false := by
  intro s hg hd
  rw [writeNode]
  simp only [loopParts_plain a b inner hcf, Option.map_none]
  have hs0 : ({ s with c := { s.c with brkD := 0 } } : St) = s := by
    cases s with | mk c w => cases c; simp at hd; subst hd; rfl
  have hrun : ∀ st, Good xs m st → st.c.brkD = 0 →
      (writeSeq reg (f+5) [.raw a, inner, .raw b] st).err = none ∧
      (writeSeq reg (f+5) [.raw a, inner, .raw b] st).st.c.brkD = 0 ∧
      (writeSeq reg (f+5) [.raw a, inner, .raw b] st).st.w.out = st.w.out ++ (a ++ o ++ b) ∧
      Good xs m (writeSeq reg (f+5) [.raw a, inner, .raw b] st).st := by
    intro st hgs hds
    have := body_run reg xs m inner f 0 o false a b h st hgs hds
    simpa using this
  obtain ⟨st, hst, hout, hgst, hbd⟩ :=
    cloopWith_all xs m (fun st => writeSeq reg (f+5) [.raw a, inner, .raw b] st) (a ++ o ++ b) (f+5) hrun s hg hd hf
  rw [loopNode_ok _ s st (by rw [hs0]; exact hst) hgst.err]
  refine ⟨rfl, ?_, ?_, ⟨hgst.bnd, hgst.wr, hgst.err, hgst.src, hgst.lim⟩⟩
  · simp [ok, hd, hbd]
  · simp only [ok]; exact hout

/-- **One counter level, break pending**: exactly one iteration, `d` levels left to the parent. -/
theorem counter_first_stops (reg : Registry) (xs : List Bytes) (m : Int) (hm : 0 < m) (inner : Node) (hcf : ∀ e, inner ≠ .condFalse e)
    (f d : Nat) (o : Bytes) (brk : Bool) (a b : Bytes) (h : Leaves reg xs m inner (f+3) (d+1) o brk) :
    Leaves reg xs m (.cloop cspec [.raw a, inner, .raw b]) (f+6) d (a ++ o ++ (if brk then [] else b)) false := by
  intro s hg hd
  rw [writeNode]
  simp only [loopParts_plain a b inner hcf, Option.map_none]
  have hs0 : ({ s with c := { s.c with brkD := 0 } } : St) = s := by
    cases s with | mk c w => cases c; simp at hd; subst hd; rfl
  obtain ⟨hb, hgb, hbd, hbw⟩ := bounds xs m s hg
  have hg2 : Good xs m { ({ s with c := ((loopBounds s.c cspec).1).setStatic cspec.cnt (.int 0) } : St) with
      c := { (((loopBounds s.c cspec).1).setStatic cspec.cnt (.int 0)) with chQB := true } } :=
    good_chQB xs m _ true (good_setI xs m _ 0 hgb)
  have hbody := body_run reg xs m inner f (d+1) o brk a b h _ hg2 (by show (loopBounds s.c cspec).1.brkD = 0; rw [hbd]; exact hd)
  obtain ⟨he, hdd, ho, hgr⟩ := hbody
  have hloop : cloopWith (fun st => writeSeq reg (f+5) [.raw a, inner, .raw b] st) none (f+5) cspec s =
      ok { (writeSeq reg (f+5) [.raw a, inner, .raw b] { ({ s with c := ((loopBounds s.c cspec).1).setStatic cspec.cnt (.int 0) } : St) with
              c := { (((loopBounds s.c cspec).1).setStatic cspec.cnt (.int 0)) with chQB := true } }).st with
            c := { (({ (writeSeq reg (f+5) [.raw a, inner, .raw b] { ({ s with c := ((loopBounds s.c cspec).1).setStatic cspec.cnt (.int 0) } : St) with
              c := { (((loopBounds s.c cspec).1).setStatic cspec.cnt (.int 0)) with chQB := true } }).st.c with
                chQB := (((loopBounds s.c cspec).1).setStatic cspec.cnt (.int 0)).chQB, brkD := d } : Ctx).setStatic cspec.cnt (.int 1)) with err := none } } := by
    unfold cloopWith cloopAfter
    simp only [hb]
    rw [cloopLoop]
    have hla : loopAllows cspec.condOp 0 m = some true := by simp [loopAllows, cspec, hm]
    have hsep : ∀ st : St, sepWrite 0 cspec.sep st = ok st := by intro st; simp [sepWrite]
    have hclr : ∀ st : St, clrErrIf (0 > 0 && !cspec.sep.isEmpty) st = st := by intro st; simp [clrErrIf]
    have hop : (cspec.cntOp == Op.inc || cspec.cntOp == Op.dec) = true := by decide
    simp only [hla, hsep, hclr, ok, hop, if_true]
    rw [pending_stops _ d]
    · simp only [afterLoop, Bool.false_eq_true, if_false, ok]
      have : stepVal cspec.cntOp 0 = 1 := by decide
      simp [this]
    · cases brk with
      | true => right; exact ⟨.breakLoop, by simpa using he, by decide⟩
      | false => left; simpa using he
    · exact hdd
  rw [loopNode_ok _ s _ (by rw [hs0]; exact hloop) rfl]
  refine ⟨rfl, ?_, ?_, ⟨hgr.bnd, hgr.wr, rfl, ?_, ?_⟩⟩
  · simp [ok, hd, Ctx.setStatic, Ctx.set]
  · simp only [ok]
    exact ho
  · show getVar (setVar _ (lit "i") _) (lit "l") = _
    rw [C15.get_set_other _ _ _ _ (by decide)]
    exact hgr.src
  · show getVar (setVar _ (lit "i") _) (lit "n") = _
    rw [C15.get_set_other _ _ _ _ (by decide)]
    exact hgr.lim

/-! ### Mixed nests of any depth -/

/-- One loop of the given kind (`true`: counter loop `0 ≤ i < n`, `false`: range loop over `l`) around `a · inner · b`. -/
def wrap (kind : Bool) (a b : Bytes) (inner : Node) : Node :=
  if kind then .cloop cspec [.raw a, inner, .raw b] else .rloop spec [.raw a, inner, .raw b]

theorem wrap_not_condFalse (kind : Bool) (a b : Bytes) (inner : Node) : ∀ e, wrap kind a b inner ≠ .condFalse e := by
  intro e; cases kind <;> simp [wrap]

/-- Number of iterations of a loop of the given kind. -/
def cnt (xs : List Bytes) (m : Int) (kind : Bool) : Nat := if kind then m.toNat else xs.length

theorem first_stops (reg : Registry) (xs : List Bytes) (m : Int) (hm : 0 < m) (x : Bytes) (xs' : List Bytes) (hxs : xs = x :: xs')
    (kind : Bool) (inner : Node) (hcf : ∀ e, inner ≠ .condFalse e) (f d : Nat) (o : Bytes) (brk : Bool) (a b : Bytes)
    (h : Leaves reg xs m inner (f+3) (d+1) o brk) :
    Leaves reg xs m (wrap kind a b inner) (f+6) d (a ++ o ++ (if brk then [] else b)) false := by
  cases kind with
  | true => simpa [wrap] using counter_first_stops reg xs m hm inner hcf f d o brk a b h
  | false => simpa [wrap] using range_first_stops reg xs m x xs' hxs inner hcf f d o brk a b h

theorem carries_on (reg : Registry) (xs : List Bytes) (m : Int) (x : Bytes) (xs' : List Bytes) (hxs : xs = x :: xs')
    (kind : Bool) (inner : Node) (hcf : ∀ e, inner ≠ .condFalse e) (f : Nat) (o a b : Bytes) (hf : m.toNat < f + 5)
    (h : Leaves reg xs m inner (f+3) 0 o false) :
    Leaves reg xs m (wrap kind a b inner) (f+6) 0 (rep (a ++ o ++ b) (cnt xs m kind)) false := by
  cases kind with
  | true => simpa [wrap, cnt] using counter_carries_on reg xs m inner hcf f o a b hf h
  | false => simpa [wrap, cnt] using range_carries_on reg xs m x xs' hxs inner hcf f o a b h

/-- Loops of the given kinds (outermost first) around `{% break N %}`. -/
def nestM (N : Nat) (a b : Bytes) : List Bool → Node
  | [] => .brk N
  | k :: ks => wrap k a b (nestM N a b ks)

theorem nestM_not_condFalse (N : Nat) (a b : Bytes) (ks : List Bool) : ∀ e, nestM N a b ks ≠ .condFalse e := by
  intro e
  cases ks with
  | nil => simp [nestM]
  | cons k r => exact wrap_not_condFalse k a b _ e

/-- **`break N` under `k ≤ max N 1` loops of ANY kinds**: each loop starts exactly one iteration, `max N 1 − k` levels
    are left pending for the loops further out. For every `N`, every list of kinds, every non-empty list `l`, every
    bound `n > 0`, every sufficient fuel. -/
theorem nestM_leaves (reg : Registry) (xs : List Bytes) (m : Int) (hm : 0 < m) (x : Bytes) (xs' : List Bytes) (hxs : xs = x :: xs')
    (N : Nat) (a b : Bytes) (g : Nat) :
    ∀ ks : List Bool, ks.length ≤ max N 1 →
      Leaves reg xs m (nestM N a b ks) (3 * ks.length + 3 + g) (max N 1 - ks.length) (nestOut a b ks.length) (ks.length == 0) := by
  intro ks
  induction ks with
  | nil =>
    intro _
    have h3 : 3 * ([] : List Bool).length + 3 + g = (g + 2) + 1 := by simp; omega
    rw [h3]
    simpa [nestM, nestOut] using leaves_break reg xs m N (g + 2)
  | cons kd ks ih =>
    intro hk
    simp only [List.length_cons] at hk ⊢
    have ihk := ih (by omega)
    have hd : max N 1 - ks.length = (max N 1 - (ks.length + 1)) + 1 := by omega
    rw [hd] at ihk
    have hf : 3 * ks.length + 3 + g = (3 * ks.length + g) + 3 := by omega
    rw [hf] at ihk
    have step := first_stops reg xs m hm x xs' hxs kd (nestM N a b ks) (nestM_not_condFalse N a b ks) (3 * ks.length + g)
      (max N 1 - (ks.length + 1)) (nestOut a b ks.length) (ks.length == 0) a b ihk
    have hf2 : 3 * (ks.length + 1) + 3 + g = (3 * ks.length + g) + 6 := by omega
    rw [hf2]
    have ho : nestOut a b (ks.length + 1) = a ++ nestOut a b ks.length ++ (if (ks.length == 0) = true then [] else b) := by
      cases hl : ks.length with
      | zero => simp [nestOut]
      | succ j => simp [nestOut]
    rw [ho]
    simpa [nestM] using step

/-- **… and the loop just outside, of either kind, carries on**: `max N 1` loops of any kinds around `break N`, inside
    one more loop: that loop runs ALL its iterations, the loops inside it one iteration each, every time. -/
theorem break_N_ends_exactly_N (reg : Registry) (xs : List Bytes) (m : Int) (hm : 0 < m) (x : Bytes) (xs' : List Bytes) (hxs : xs = x :: xs')
    (N : Nat) (a b : Bytes) (g : Nat) (hg : m.toNat < g + 2) (kind : Bool) (ks : List Bool) (hlen : ks.length = max N 1) :
    Leaves reg xs m (nestM N a b (kind :: ks)) (3 * (max N 1 + 1) + 3 + g) 0
      (rep (a ++ nestOut a b (max N 1) ++ b) (cnt xs m kind)) false := by
  have hin := nestM_leaves reg xs m hm x xs' hxs N a b g ks (by omega)
  rw [hlen] at hin
  have hz : max N 1 - max N 1 = 0 := by omega
  have hb : (max N 1 == 0) = false := by
    have : max N 1 ≠ 0 := by omega
    simp [this]
  rw [hz, hb] at hin
  have hf : 3 * max N 1 + 3 + g = (3 * max N 1 + g) + 3 := by omega
  rw [hf] at hin
  have := carries_on reg xs m x xs' hxs kind (nestM N a b ks) (nestM_not_condFalse N a b ks) (3 * max N 1 + g)
    (nestOut a b (max N 1)) a b (by omega) hin
  have hf2 : 3 * (max N 1 + 1) + 3 + g = (3 * max N 1 + g) + 6 := by omega
  rw [hf2]
  simpa [nestM] using this

/-- Loops of the given kinds around the text `c`. -/
def fullM (a b c : Bytes) : List Bool → Node
  | [] => .raw c
  | k :: ks => wrap k a b (fullM a b c ks)

def fullOutM (xs : List Bytes) (m : Int) (a b c : Bytes) : List Bool → Bytes
  | [] => c
  | k :: ks => rep (a ++ fullOutM xs m a b c ks ++ b) (cnt xs m k)

theorem fullM_not_condFalse (a b c : Bytes) (ks : List Bool) : ∀ e, fullM a b c ks ≠ .condFalse e := by
  intro e
  cases ks with
  | nil => simp [fullM]
  | cons k r => exact wrap_not_condFalse k a b _ e

/-- **Mixed nests without a break, any depth**: every level runs all its iterations (`m` for a counter loop, one per
    element for a range loop) in every iteration of the loops around it. -/
theorem fullM_runs_all (reg : Registry) (xs : List Bytes) (m : Int) (x : Bytes) (xs' : List Bytes) (hxs : xs = x :: xs')
    (a b c : Bytes) (g : Nat) (hg : m.toNat < g + 2) :
    ∀ ks : List Bool, Leaves reg xs m (fullM a b c ks) (3 * ks.length + 3 + g) 0 (fullOutM xs m a b c ks) false := by
  intro ks
  induction ks with
  | nil =>
    have h3 : 3 * ([] : List Bool).length + 3 + g = (g + 2) + 1 := by simp; omega
    rw [h3]
    simpa [fullM, fullOutM] using leaves_raw reg xs m c (g + 2)
  | cons kd ks ih =>
    simp only [List.length_cons]
    have hf : 3 * ks.length + 3 + g = (3 * ks.length + g) + 3 := by omega
    rw [hf] at ih
    have step := carries_on reg xs m x xs' hxs kd (fullM a b c ks) (fullM_not_condFalse a b c ks) (3 * ks.length + g)
      (fullOutM xs m a b c ks) a b (by omega) ih
    have hf2 : 3 * (ks.length + 1) + 3 + g = (3 * ks.length + g) + 6 := by omega
    rw [hf2]
    simpa [fullM, fullOutM] using step

/-! Non-vacuity: the hypotheses are met, and the statements agree with runs of the model. -/
def st0 : St := { c := (({} : Ctx).set (lit "l") (.strs [lit "1", lit "2"]) .strings).setStatic (lit "n") (.int 3), w := {} }

example : Good [lit "1", lit "2"] 3 st0 := ⟨rfl, rfl, rfl, rfl, rfl⟩
-- counter loop around range loop around counter loop around `break 2`, inside a range loop: the outer two carry on
example : (writeNode [] 40 (nestM 2 (lit "[") (lit "]") [false, true, false, true]) st0).st.w.out =
    lit "[[[[]][[[]][[[]]][[[[]][[[]][[[]]]" := by decide
example : (writeNode [] 40 (fullM (lit "[") (lit "]") (lit "x") [true, false]) st0).st.w.out =
    lit "[[x][x]][[x][x]][[x][x]]" := by decide

end DyntplV.C14M
