import DyntplV.Refine.WriterInterp
import DyntplV.Refine.LockInterp
/-!
# C17 — a failing output writer is always reported to the caller

The writer of the model (`Writer`) fails its `failAt`-th call and every later one; `failed` is a ghost
flag raised by the first failing call.  The theorems hold for EVERY tree (any nesting of conditions,
switches, counter and range loops with separators and else branches, includes, regions, break / continue /
lazybreak / exit), every registry, every context, every fault position and every fuel.
-/
namespace DyntplV.C17
open DyntplV

/-- **A failed write is always reported.** If no write had failed before the call and some write fails
    during `Write(w, key, ctx)`, the call returns the writer's error — it never reports success and
    never masks the failure by another result (interrupt, break/continue signal, a later error). -/
theorem write_error_reported (reg : Registry) (fuel : Nat) (key : Bytes) (s : St)
    (h0 : s.w.failed = false) (hf : (writeKey reg fuel key s).st.w.failed = true) :
    (writeKey reg fuel key s).err = some Err.writer :=
  writeKey_good reg fuel key s h0 hf

/-- Contrapositive: a render that reports success (or any non-writer result) saw no failed write. -/
theorem success_means_no_failed_write (reg : Registry) (fuel : Nat) (key : Bytes) (s : St)
    (h0 : s.w.failed = false) (hok : (writeKey reg fuel key s).err ≠ some Err.writer) :
    (writeKey reg fuel key s).st.w.failed = false :=
  (writeKey_good reg fuel key s).notfailed h0 hok

/-- The same for every individual node, list of nodes, included tree and switch. -/
theorem node_error_reported (reg : Registry) (f : Nat) (n : Node) (s : St)
    (h0 : s.w.failed = false) (hf : (writeNode reg f n s).st.w.failed = true) :
    (writeNode reg f n s).err = some Err.writer :=
  (interp_good reg f).2.2.1 n s h0 hf

/-- A write fails exactly when its index has reached the fault position. -/
theorem write_fails_iff (w : Writer) (p : Bytes) (k : Nat) (h : w.failAt = some k) :
    (w.write p).2 = false ↔ k ≤ w.writes + 1 := by
  unfold Writer.write; rw [h]
  by_cases hk : k ≤ w.writes + 1 <;> simp [hk]

/-- Accepted bytes never shrink and a failed call accepts nothing. -/
theorem write_accepts (w : Writer) (p : Bytes) :
    ((w.write p).2 = true → (w.write p).1.out = w.out ++ p) ∧ ((w.write p).2 = false → (w.write p).1.out = w.out) := by
  unfold Writer.write
  cases w.failAt with
  | none => simp
  | some k => by_cases hk : k ≤ w.writes + 1 <;> simp [hk]

/-- **Accepted prefix.** For EVERY tree, registry, context, fuel and fault position `k`: the bytes the writer
    accepted in the run whose `k`-th (and every later) Write call fails are a prefix of the output of the
    fault-free run from the same state. (Lockstep of the two runs up to the failing call — `interp_lock` — and
    no byte is accepted afterwards — `Frozen.interp_mono`; the fault-free output only grows — `interp_frame`.) -/
theorem accepted_prefix (reg : Registry) (fuel : Nat) (key : Bytes) (s : St) (k : Nat) (h : s.w.failAt = none) :
    (writeKey reg fuel key (s.wf k)).st.w.out <+: (writeKey reg fuel key s).st.w.out := by
  cases writeKey_lock reg fuel key k s h with
  | inl e => rw [e]; exact List.prefix_refl _
  | inr d => exact d.2

/-- If the fault position was not reached, the two runs are the same run: same result, same output, same
    context. -/
theorem same_run_or_dead (reg : Registry) (fuel : Nat) (key : Bytes) (s : St) (k : Nat) (h : s.w.failAt = none) :
    writeKey reg fuel key (s.wf k) = (writeKey reg fuel key s).wf k ∨
    Frozen.Dead (writeKey reg fuel key (s.wf k)).st.w :=
  (writeKey_lock reg fuel key k s h).imp id (fun d => d.1)

/-- **Nothing is accepted after the failure.** Once the writer's fault position has been reached (`Dead`:
    the next Write call and every later one fail), a render — whatever it does afterwards: loops, else
    branches, includes, deferred functions — leaves the accepted output exactly as it was. -/
theorem no_output_after_failure (reg : Registry) (fuel : Nat) (key : Bytes) (s : St) (hd : Frozen.Dead s.w) :
    (writeKey reg fuel key s).st.w.out = s.w.out :=
  (writeKey_frozen reg fuel key s hd).2

/-- The same two facts for every node. -/
theorem node_accepted_prefix (reg : Registry) (f : Nat) (n : Node) (s : St) (k : Nat) (h : s.w.failAt = none) :
    (writeNode reg f n (s.wf k)).st.w.out <+: (writeNode reg f n s).st.w.out := by
  cases (interp_lock reg f).2.2.1 n k s h with
  | inl e => rw [e]; exact List.prefix_refl _
  | inr d => exact d.2

/-! Non-vacuity: a loop whose separator write is the one that fails (the case the original code dropped). -/
def sampleLoop : List Node :=
  [.cloop ⟨lit "i", lit "0", true, .inc, .lt, lit "3", true, lit ","⟩ [.raw (lit "x")]]

example : (write [] 50 sampleLoop { c := {}, w := { failAt := some 2 } }).err = some Err.writer := by decide
example : (write [] 50 sampleLoop { c := {}, w := { failAt := some 2 } }).st.w.out = lit "x" := by decide
example : (write [] 50 sampleLoop { c := {}, w := {} }).st.w.out = lit "x,x,x" := by decide
-- the accepted bytes of the faulty run ("x") are a proper prefix of the fault-free output ("x,x,x")
example : ((write [] 50 sampleLoop ({ c := {}, w := {} } : St)).st.w.out.take 1) =
    (write [] 50 sampleLoop (({ c := {}, w := {} } : St).wf 2)).st.w.out := by decide

end DyntplV.C17
