import DyntplV.Refine.WriterInterp
/-!
# C17 — a failing output writer is always reported to the caller

The writer of the model (`Writer`) fails its `failAt`-th call and every later one; `failed` is a ghost
flag raised by the first failing call.  The theorems hold for EVERY tree (any nesting of conditions,
switches, counter and range loops with separators and else branches, includes, regions, break / continue /
lazybreak / exit), every registry, every context, every fault position and every fuel.
-/
namespace DyntplV.C17
open DyntplV

/-- **A failed write is always reported.** If no write had failed before the call and some write fails
    during `Write(w, key, ctx)`, the call returns the writer's error — it never reports success and
    never masks the failure by another result (interrupt, break/continue signal, a later error). -/
theorem write_error_reported (reg : Registry) (fuel : Nat) (key : Bytes) (s : St)
    (h0 : s.w.failed = false) (hf : (writeKey reg fuel key s).st.w.failed = true) :
    (writeKey reg fuel key s).err = some Err.writer :=
  writeKey_good reg fuel key s h0 hf

/-- Contrapositive: a render that reports success (or any non-writer result) saw no failed write. -/
theorem success_means_no_failed_write (reg : Registry) (fuel : Nat) (key : Bytes) (s : St)
    (h0 : s.w.failed = false) (hok : (writeKey reg fuel key s).err ≠ some Err.writer) :
    (writeKey reg fuel key s).st.w.failed = false :=
  (writeKey_good reg fuel key s).notfailed h0 hok

/-- The same for every individual node, list of nodes, included tree and switch. -/
theorem node_error_reported (reg : Registry) (f : Nat) (n : Node) (s : St)
    (h0 : s.w.failed = false) (hf : (writeNode reg f n s).st.w.failed = true) :
    (writeNode reg f n s).err = some Err.writer :=
  (interp_good reg f).2.2.1 n s h0 hf

/-- A write fails exactly when its index has reached the fault position. -/
theorem write_fails_iff (w : Writer) (p : Bytes) (k : Nat) (h : w.failAt = some k) :
    (w.write p).2 = false ↔ k ≤ w.writes + 1 := by
  unfold Writer.write; rw [h]
  by_cases hk : k ≤ w.writes + 1 <;> simp [hk]

/-- Accepted bytes never shrink and a failed call accepts nothing. -/
theorem write_accepts (w : Writer) (p : Bytes) :
    ((w.write p).2 = true → (w.write p).1.out = w.out ++ p) ∧ ((w.write p).2 = false → (w.write p).1.out = w.out) := by
  unfold Writer.write
  cases w.failAt with
  | none => simp
  | some k => by_cases hk : k ≤ w.writes + 1 <;> simp [hk]

/-! Non-vacuity: a loop whose separator write is the one that fails (the case the original code dropped). -/
def sampleLoop : List Node :=
  [.cloop ⟨lit "i", lit "0", true, .inc, .lt, lit "3", true, lit ","⟩ [.raw (lit "x")]]

example : (write [] 50 sampleLoop { c := {}, w := { failAt := some 2 } }).err = some Err.writer := by decide
example : (write [] 50 sampleLoop { c := {}, w := { failAt := some 2 } }).st.w.out = lit "x" := by decide
example : (write [] 50 sampleLoop { c := {}, w := {} }).st.w.out = lit "x,x,x" := by decide

end DyntplV.C17
