import DyntplV.Db
/-!
# Helper lemmas for property C04 (registry model `Db`)

* association lists are finite maps (`alookup_aset`, `alookup_aerase`);
* what one `Db.set` does to the three indexes and the slot array (`StepFacts`);
* the name invariant `Inv` (indexes in range, injective, two names share a slot iff they were
  registered together, every name points at the tree of its latest registration) and its preservation;
* the hash invariant `HInv` (a hash entry points at a slot whose tree has that checksum).
-/
namespace DyntplV.Reg

section assoc
variable {α β : Type} [DecidableEq α]

theorem alookup_aerase (k k' : α) (l : List (α × β)) :
    alookup k (aerase k' l) = if k = k' then none else alookup k l := by
  induction l with
  | nil => simp [aerase, alookup]
  | cons p r ih =>
    obtain ⟨a, b⟩ := p
    unfold aerase at ih ⊢
    by_cases ha : a = k'
    · subst ha
      simp only [List.filter_cons, ne_eq, not_true_eq_false, decide_false, Bool.false_eq_true, if_false, ih]
      by_cases hk : k = a
      · simp [hk]
      · have : ¬ a = k := fun h => hk h.symm
        simp [hk, alookup, this]
    · simp only [List.filter_cons, ne_eq, ha, not_false_eq_true, decide_true, if_true, alookup, ih]
      by_cases hk : k = k'
      · subst hk; simp [ha]
      · simp [hk]

theorem alookup_aset (k k' : α) (v : β) (l : List (α × β)) :
    alookup k (aset k' v l) = if k = k' then some v else alookup k l := by
  unfold aset
  rw [alookup, alookup_aerase]
  by_cases hk : k = k'
  · subst hk; simp
  · have : ¬ k' = k := fun h => hk h.symm
    simp [hk, this]

theorem alookup_map {γ : Type} (f : β → γ) (k : α) (l : List (α × β)) :
    alookup k (l.map (fun p => (p.1, f p.2))) = (alookup k l).map f := by
  induction l with
  | nil => rfl
  | cons p r ih =>
    obtain ⟨a, b⟩ := p
    simp only [List.map_cons, alookup, ih]
    split <;> rfl
end assoc

namespace Db

theorem slotIdx_lt {db : Db} {id : Int} {key : Bytes} {i : Nat} (h : db.slotIdx id key = some i) :
    i < db.tpl.length := by
  unfold slotIdx at h
  split at h
  · split at h
    · next hlt => injection h with h; omega
    · cases h
  · cases h

theorem setIdx_le (db : Db) (id : Int) (key : Bytes) : db.setIdx id key ≤ db.tpl.length := by
  unfold setIdx
  cases h : db.slotIdx id key with
  | none => simp
  | some i => have := slotIdx_lt h; simp; omega

theorem set_tpl_get (db : Db) (id : Int) (key : Bytes) (t : Tree) (j : Nat) :
    (db.set id key t).tpl[j]? = if j = db.setIdx id key then some ⟨id, key, t⟩ else db.tpl[j]? := by
  show (db.setTpl id key t)[j]? = _
  unfold setTpl setIdx
  cases h : db.slotIdx id key with
  | none =>
    simp only [Option.getD_none, List.getElem?_append]
    by_cases hj : j = db.tpl.length
    · subst hj; simp
    · simp only [hj, if_false]
      by_cases hlt : j < db.tpl.length
      · simp [hlt]
      · have h1 : j - db.tpl.length ≠ 0 := by omega
        simp [hlt]
        omega
  | some i =>
    have hi := slotIdx_lt h
    simp only [Option.getD_some, List.getElem?_set, hi, if_true]
    by_cases hj : j = i
    · subst hj; simp
    · have : ¬ i = j := fun e => hj e.symm
      simp [hj, this]

theorem set_tpl_length (db : Db) (id : Int) (key : Bytes) (t : Tree) :
    (db.set id key t).tpl.length =
      if db.setIdx id key < db.tpl.length then db.tpl.length else db.tpl.length + 1 := by
  show (db.setTpl id key t).length = _
  unfold setTpl setIdx
  cases h : db.slotIdx id key with
  | none => simp
  | some i => have hi := slotIdx_lt h; simp [hi]

theorem set_idxKey (db : Db) (id : Int) (key : Bytes) (t : Tree) (k : Bytes) :
    alookup k (db.set id key t).idxKey =
      if key ≠ noKey ∧ k = key then some (db.setIdx id key) else alookup k db.idxKey := by
  show alookup k (if key ≠ noKey then aset key (db.setIdx id key) db.idxKey else db.idxKey) = _
  by_cases hk : key = noKey
  · simp [hk]
  · simp only [hk, ne_eq, not_false_eq_true, if_true, true_and, alookup_aset]

theorem set_idxID (db : Db) (id : Int) (key : Bytes) (t : Tree) (i : Int) :
    alookup i (db.set id key t).idxID =
      if 0 ≤ id ∧ i = id then some (db.setIdx id key) else alookup i db.idxID := by
  show alookup i (if 0 ≤ id then aset id (db.setIdx id key) db.idxID else db.idxID) = _
  by_cases hk : 0 ≤ id
  · simp only [hk, if_true, true_and, alookup_aset]
  · simp [hk]

end Db

/-! ### The name invariant -/

structure Inv (hist : List Op) (db : Db) : Prop where
  keyRange : ∀ k s, alookup k db.idxKey = some s → s < db.tpl.length
  idRange : ∀ i s, alookup i db.idxID = some s → s < db.tpl.length
  noKeyAbsent : alookup noKey db.idxKey = none
  negAbsent : ∀ i : Int, i < 0 → alookup i db.idxID = none
  keyInj : ∀ k k' s, alookup k db.idxKey = some s → alookup k' db.idxKey = some s → k = k'
  idInj : ∀ i i' s, alookup i db.idxID = some s → alookup i' db.idxID = some s → i = i'
  shareBound : ∀ k i s, alookup k db.idxKey = some s → alookup i db.idxID = some s → bound hist i k = true
  boundShare : ∀ k i, bound hist i k = true →
    ∃ s, alookup k db.idxKey = some s ∧ alookup i db.idxID = some s
  keyVal : ∀ k, ((alookup k db.idxKey).bind (fun s => db.tpl[s]?)).map (·.tree) = lastKeyR k hist
  idVal : ∀ i, ((alookup i db.idxID).bind (fun s => db.tpl[s]?)).map (·.tree) = lastIDR i hist

theorem bound_nil (i : Int) (k : Bytes) : bound [] i k = false := rfl

theorem bound_cons (o : Op) (older : List Op) (i : Int) (k : Bytes) :
    bound (o :: older) i k = true ↔
      (o.id = i ∧ o.key = k ∧ 0 ≤ i ∧ k ≠ noKey) ∨ bound older i k = true := by
  simp [bound, List.any_cons, and_assoc]

theorem bound_elim {hist : List Op} {i : Int} {k : Bytes} (h : bound hist i k = true) :
    ∃ p ∈ hist, p.id = i ∧ p.key = k ∧ 0 ≤ i ∧ k ≠ noKey := by
  simpa [bound, List.any_eq_true, and_assoc] using h

theorem inv_empty : Inv [] Db.empty := by
  constructor <;> intros <;> simp_all [Db.empty, alookup, bound_nil, lastKeyR, lastIDR]

/-- Consistency, used against a pair bound earlier. -/
theorem consistent_bound {o : Op} {older : List Op} {i : Int} {k : Bytes}
    (hc : Consistent (o :: older)) (hb : bound older i k = true) (h1 : 0 ≤ o.id) (h2 : o.key ≠ noKey) :
    (o.key = k ↔ o.id = i) := by
  obtain ⟨p, hp, rfl, rfl, h3, h4⟩ := bound_elim hb
  exact hc o (by simp) p (by simp [hp]) h1 h2 h3 h4

theorem consistent_tail {o : Op} {older : List Op} (hc : Consistent (o :: older)) : Consistent older :=
  fun a ha b hb => hc a (by simp [ha]) b (by simp [hb])

/-- Everything `Db.set` does to the name indexes and the slot array, in terms of the written slot `idx`. -/
structure StepFacts (db db' : Db) (id : Int) (key : Bytes) (t : Tree) (idx : Nat) : Prop where
  le : idx ≤ db.tpl.length
  key' : ∀ k, alookup k db'.idxKey = if key ≠ noKey ∧ k = key then some idx else alookup k db.idxKey
  id' : ∀ i, alookup i db'.idxID = if 0 ≤ id ∧ i = id then some idx else alookup i db.idxID
  tpl' : ∀ j, db'.tpl[j]? = if j = idx then some ⟨id, key, t⟩ else db.tpl[j]?
  len' : db'.tpl.length = if idx < db.tpl.length then db.tpl.length else db.tpl.length + 1
  how : (alookup key db.idxKey = some idx) ∨
        (alookup key db.idxKey = none ∧ alookup id db.idxID = some idx) ∨
        (alookup key db.idxKey = none ∧ alookup id db.idxID = none ∧ idx = db.tpl.length)

theorem step_facts {hist : List Op} {db : Db} (hinv : Inv hist db) (id : Int) (key : Bytes) (t : Tree) :
    StepFacts db (db.set id key t) id key t (db.setIdx id key) where
  le := Db.setIdx_le db id key
  key' := Db.set_idxKey db id key t
  id' := Db.set_idxID db id key t
  tpl' := Db.set_tpl_get db id key t
  len' := Db.set_tpl_length db id key t
  how := by
    unfold Db.setIdx Db.slotIdx Db.getIdxLF
    cases hk : alookup key db.idxKey with
    | some s => simp [hinv.keyRange key s hk]
    | none =>
      cases hi : alookup id db.idxID with
      | some s => simp [hinv.idRange id s hi]
      | none => simp

/-- One registration preserves the name invariant (for histories with a consistent pairing). -/
theorem inv_step {o : Op} {older : List Op} {db : Db} (hinv : Inv older db)
    (hc : Consistent (o :: older)) : Inv (o :: older) (db.set o.id o.key o.tree) := by
  obtain ⟨id, key, t⟩ := o
  have sf := step_facts hinv id key t
  generalize db.setIdx id key = idx at sf
  show Inv _ (db.set id key t)
  generalize db.set id key t = db' at sf
  obtain ⟨hle, hK, hI, hT, hL, how⟩ := sf
  have hlen : db.tpl.length ≤ db'.tpl.length ∧ idx < db'.tpl.length := by
    rw [hL]; split <;> omega
  have Q1 : ∀ i k, bound older i k = true → 0 ≤ id → key ≠ noKey → (key = k ↔ id = i) :=
    fun i k hb h1 h2 => consistent_bound hc hb h1 h2
  have idpos : ∀ i s, alookup i db.idxID = some s → 0 ≤ i := by
    intro i s h
    by_cases hi : 0 ≤ i
    · exact hi
    · have := hinv.negAbsent i (by omega); rw [this] at h; cases h
  have keyne : ∀ k s, alookup k db.idxKey = some s → k ≠ noKey := by
    intro k s h hk; subst hk; rw [hinv.noKeyAbsent] at h; cases h
  have P1 : ∀ k, alookup k db.idxKey = some idx →
      (alookup key db.idxKey = some idx ∧ k = key) ∨
      (alookup key db.idxKey = none ∧ alookup id db.idxID = some idx ∧ bound older id k = true) := by
    intro k h
    rcases how with h1 | ⟨h1, h2⟩ | ⟨_, _, h3⟩
    · exact Or.inl ⟨h1, hinv.keyInj k key idx h h1⟩
    · exact Or.inr ⟨h1, h2, hinv.shareBound k id idx h h2⟩
    · have := hinv.keyRange k idx h; omega
  have P2 : ∀ i, alookup i db.idxID = some idx →
      (alookup key db.idxKey = some idx ∧ bound older i key = true) ∨
      (alookup key db.idxKey = none ∧ alookup id db.idxID = some idx ∧ i = id) := by
    intro i h
    rcases how with h1 | ⟨h1, h2⟩ | ⟨_, _, h3⟩
    · exact Or.inl ⟨h1, hinv.shareBound key i idx h1 h⟩
    · exact Or.inr ⟨h1, h2, hinv.idInj i id idx h h2⟩
    · have := hinv.idRange i idx h; omega
  refine ⟨?_, ?_, ?_, ?_, ?_, ?_, ?_, ?_, ?_, ?_⟩
  · -- keyRange
    intro k s h
    rw [hK] at h
    split at h
    · injection h with h; omega
    · have := hinv.keyRange k s h; omega
  · intro i s h
    rw [hI] at h
    split at h
    · injection h with h; omega
    · have := hinv.idRange i s h; omega
  · rw [hK]
    have : ¬ (key ≠ noKey ∧ noKey = key) := fun ⟨a, b⟩ => a b.symm
    simp only [this, if_false]; exact hinv.noKeyAbsent
  · intro i hi
    rw [hI]
    have : ¬ (0 ≤ id ∧ i = id) := fun ⟨a, b⟩ => by omega
    simp only [this, if_false]; exact hinv.negAbsent i hi
  · -- keyInj
    intro k k' s h h'
    rw [hK] at h h'
    by_cases c : key ≠ noKey ∧ k = key <;> by_cases c' : key ≠ noKey ∧ k' = key
    · exact c.2.trans c'.2.symm
    · rw [if_pos c] at h; rw [if_neg c'] at h'
      injection h with h; subst h
      rcases P1 k' h' with ⟨_, e⟩ | ⟨_, h2, hb⟩
      · exact absurd ⟨c.1, e⟩ c'
      · have := (Q1 id k' hb (idpos id _ h2) c.1).2 rfl
        exact absurd ⟨c.1, this.symm⟩ c'
    · rw [if_neg c] at h; rw [if_pos c'] at h'
      injection h' with h'; subst h'
      rcases P1 k h with ⟨_, e⟩ | ⟨_, h2, hb⟩
      · exact absurd ⟨c'.1, e⟩ c
      · have := (Q1 id k hb (idpos id _ h2) c'.1).2 rfl
        exact absurd ⟨c'.1, this.symm⟩ c
    · rw [if_neg c] at h; rw [if_neg c'] at h'
      exact hinv.keyInj k k' s h h'
  · -- idInj
    intro i i' s h h'
    rw [hI] at h h'
    by_cases c : 0 ≤ id ∧ i = id <;> by_cases c' : 0 ≤ id ∧ i' = id
    · exact c.2.trans c'.2.symm
    · rw [if_pos c] at h; rw [if_neg c'] at h'
      injection h with h; subst h
      rcases P2 i' h' with ⟨h1, hb⟩ | ⟨_, _, e⟩
      · have := (Q1 i' key hb c.1 (keyne key _ h1)).1 rfl
        exact absurd ⟨c.1, this.symm⟩ c'
      · exact absurd ⟨c.1, e⟩ c'
    · rw [if_neg c] at h; rw [if_pos c'] at h'
      injection h' with h'; subst h'
      rcases P2 i h with ⟨h1, hb⟩ | ⟨_, _, e⟩
      · have := (Q1 i key hb c'.1 (keyne key _ h1)).1 rfl
        exact absurd ⟨c'.1, this.symm⟩ c
      · exact absurd ⟨c'.1, e⟩ c
    · rw [if_neg c] at h; rw [if_neg c'] at h'
      exact hinv.idInj i i' s h h'
  · -- shareBound
    intro k i s h h'
    rw [bound_cons]
    rw [hK] at h; rw [hI] at h'
    by_cases c : key ≠ noKey ∧ k = key <;> by_cases c' : 0 ≤ id ∧ i = id
    · obtain ⟨c1, c2⟩ := c; obtain ⟨c3, c4⟩ := c'
      subst c2; subst c4
      exact Or.inl ⟨rfl, rfl, c3, c1⟩
    · rw [if_pos c] at h; rw [if_neg c'] at h'
      injection h with h; subst h
      rcases P2 i h' with ⟨_, hb⟩ | ⟨_, h2, e⟩
      · rw [c.2]; exact Or.inr hb
      · exact absurd ⟨idpos id _ h2, e⟩ c'
    · rw [if_neg c] at h; rw [if_pos c'] at h'
      injection h' with h'; subst h'
      rcases P1 k h with ⟨h1, e⟩ | ⟨_, _, hb⟩
      · exact absurd ⟨keyne key _ h1, e⟩ c
      · rw [c'.2]; exact Or.inr hb
    · rw [if_neg c] at h; rw [if_neg c'] at h'
      exact Or.inr (hinv.shareBound k i s h h')
  · -- boundShare
    intro k i hb
    rw [bound_cons] at hb
    rcases hb with ⟨e1, e2, h3, h4⟩ | hb
    · simp only at e1 e2
      subst e1; subst e2
      exact ⟨idx, by rw [hK, if_pos ⟨h4, rfl⟩], by rw [hI, if_pos ⟨h3, rfl⟩]⟩
    · obtain ⟨s, hs1, hs2⟩ := hinv.boundShare k i hb
      by_cases c : key ≠ noKey ∧ k = key <;> by_cases c' : 0 ≤ id ∧ i = id
      · exact ⟨idx, by rw [hK, if_pos c], by rw [hI, if_pos c']⟩
      · by_cases hid : 0 ≤ id
        · have := (Q1 i k hb hid c.1).1 c.2.symm
          exact absurd ⟨hid, this.symm⟩ c'
        · refine ⟨s, ?_, by rw [hI, if_neg c']; exact hs2⟩
          rw [hK, if_pos c]
          obtain ⟨_, c2⟩ := c; subst c2
          rcases how with h1 | ⟨h1, _⟩ | ⟨h1, _⟩
          · rw [h1] at hs1; exact hs1
          · rw [h1] at hs1; cases hs1
          · rw [h1] at hs1; cases hs1
      · by_cases hkey : key = noKey
        · refine ⟨s, by rw [hK, if_neg c]; exact hs1, ?_⟩
          rw [hI, if_pos c']
          obtain ⟨_, c2⟩ := c'; subst c2
          rcases how with h1 | ⟨_, h2⟩ | ⟨_, h2, _⟩
          · exact absurd hkey (keyne key _ h1)
          · rw [h2] at hs2; exact hs2
          · rw [h2] at hs2; cases hs2
        · have := (Q1 i k hb c'.1 hkey).2 c'.2.symm
          exact absurd ⟨hkey, this.symm⟩ c
      · exact ⟨s, by rw [hK, if_neg c]; exact hs1, by rw [hI, if_neg c']; exact hs2⟩
  · -- keyVal
    intro k
    rw [lastKeyR, hK]
    simp only
    by_cases c : key ≠ noKey ∧ k = key
    · rw [if_pos c, if_pos ⟨c.2 ▸ c.1, Or.inl c.2.symm⟩]
      simp [hT]
    · rw [if_neg c]
      cases hk : alookup k db.idxKey with
      | none =>
        have : ¬ (k ≠ noKey ∧ (key = k ∨ bound older id k = true)) := by
          rintro ⟨a, b | b⟩
          · exact c ⟨b ▸ a, b.symm⟩
          · obtain ⟨s, h1, _⟩ := hinv.boundShare k id b
            rw [hk] at h1; cases h1
        rw [if_neg this, ← hinv.keyVal k, hk]; rfl
      | some s =>
        have hkne := keyne k s hk
        simp only [Option.bind_some, hT]
        by_cases e : s = idx
        · subst e
          have : k ≠ noKey ∧ (key = k ∨ bound older id k = true) := by
            rcases P1 k hk with ⟨h1, e2⟩ | ⟨_, _, hb⟩
            · exact absurd ⟨keyne key _ h1, e2⟩ c
            · exact ⟨hkne, Or.inr hb⟩
          rw [if_pos this]; simp
        · have : ¬ (k ≠ noKey ∧ (key = k ∨ bound older id k = true)) := by
            rintro ⟨a, b | b⟩
            · exact c ⟨b ▸ a, b.symm⟩
            · obtain ⟨s', h1', h2'⟩ := hinv.boundShare k id b
              rw [hk] at h1'; injection h1' with h1'; subst h1'
              by_cases hkey : key = noKey
              · rcases how with h1 | ⟨_, h2⟩ | ⟨_, h2, _⟩
                · exact absurd hkey (keyne key _ h1)
                · rw [h2] at h2'; injection h2' with h2'; exact e h2'.symm
                · rw [h2] at h2'; cases h2'
              · have := (Q1 id k b (idpos id _ h2') hkey).2 rfl
                exact c ⟨hkey, this.symm⟩
          rw [if_neg this, if_neg e, ← hinv.keyVal k, hk]; rfl
  · -- idVal
    intro i
    rw [lastIDR, hI]
    simp only
    by_cases c : 0 ≤ id ∧ i = id
    · rw [if_pos c, if_pos ⟨c.2 ▸ c.1, Or.inl c.2.symm⟩]
      simp [hT]
    · rw [if_neg c]
      cases hi : alookup i db.idxID with
      | none =>
        have : ¬ (0 ≤ i ∧ (id = i ∨ bound older i key = true)) := by
          rintro ⟨a, b | b⟩
          · exact c ⟨b ▸ a, b.symm⟩
          · obtain ⟨s, _, h2⟩ := hinv.boundShare key i b
            rw [hi] at h2; cases h2
        rw [if_neg this, ← hinv.idVal i, hi]; rfl
      | some s =>
        have hipos := idpos i s hi
        simp only [Option.bind_some, hT]
        by_cases e : s = idx
        · subst e
          have : 0 ≤ i ∧ (id = i ∨ bound older i key = true) := by
            rcases P2 i hi with ⟨_, hb⟩ | ⟨_, h2, e2⟩
            · exact ⟨hipos, Or.inr hb⟩
            · exact absurd ⟨idpos id _ h2, e2⟩ c
          rw [if_pos this]; simp
        · have : ¬ (0 ≤ i ∧ (id = i ∨ bound older i key = true)) := by
            rintro ⟨a, b | b⟩
            · exact c ⟨b ▸ a, b.symm⟩
            · obtain ⟨s', h1', h2'⟩ := hinv.boundShare key i b
              rw [hi] at h2'; injection h2' with h2'; subst h2'
              rcases how with h1 | ⟨h1, _⟩ | ⟨h1, _⟩
              · rw [h1] at h1'; injection h1' with h1'; exact e h1'.symm
              · rw [h1] at h1'; cases h1'
              · rw [h1] at h1'; cases h1'
          rw [if_neg this, if_neg e, ← hinv.idVal i, hi]; rfl

/-! ### Histories, newest first -/

/-- The registry after a history given newest first. -/
def runR (l : List Op) : Db := l.foldr (fun o db => db.set o.id o.key o.tree) Db.empty

theorem run_eq (hist : List Op) : run hist = runR hist.reverse := by
  simp [run, runR, List.foldr_reverse]

theorem consistent_reverse {hist : List Op} (h : Consistent hist) : Consistent hist.reverse :=
  fun a ha b hb => h a (List.mem_reverse.1 ha) b (List.mem_reverse.1 hb)

theorem inv_runR : ∀ l : List Op, Consistent l → Inv l (runR l)
  | [], _ => inv_empty
  | _ :: older, hc => inv_step (inv_runR older (consistent_tail hc)) hc

theorem inv_run {hist : List Op} (hc : Consistent hist) : Inv hist.reverse (run hist) := by
  rw [run_eq]; exact inv_runR _ (consistent_reverse hc)

/-! ### Lookups under the invariant -/

theorem getKey_eq {hist : List Op} {db : Db} (hinv : Inv hist db) (k : Bytes) :
    db.getKey k = (alookup k db.idxKey).bind (fun s => db.tpl[s]?) := by
  unfold Db.getKey Db.get Db.getIdxLF
  cases alookup k db.idxKey with
  | some s => rfl
  | none => simp [hinv.negAbsent (-1) (by omega)]

theorem getID_eq {hist : List Op} {db : Db} (hinv : Inv hist db) (i : Int) :
    db.getID i = (alookup i db.idxID).bind (fun s => db.tpl[s]?) := by
  unfold Db.getID Db.get Db.getIdxLF
  rw [hinv.noKeyAbsent]
  cases alookup i db.idxID <;> rfl

theorem getKey_tree {hist : List Op} {db : Db} (hinv : Inv hist db) (k : Bytes) :
    (db.getKey k).map (·.tree) = lastKeyR k hist := by
  rw [getKey_eq hinv, hinv.keyVal]

theorem getID_tree {hist : List Op} {db : Db} (hinv : Inv hist db) (i : Int) :
    (db.getID i).map (·.tree) = lastIDR i hist := by
  rw [getID_eq hinv, hinv.idVal]

theorem getKey1_eq {hist : List Op} {db : Db} (hinv : Inv hist db) (k k1 : Bytes) :
    db.getKey1 k k1 = match db.getKey k with
      | some s => some s
      | none => db.getKey k1 := by
  rw [getKey_eq hinv, getKey_eq hinv]
  unfold Db.getKey1
  cases hk : alookup k db.idxKey with
  | some s =>
    have := hinv.keyRange k s hk
    simp [List.getElem?_eq_getElem this]
  | none => cases alookup k1 db.idxKey <;> rfl

theorem getBKeys_tree {hist : List Op} {db : Db} (hinv : Inv hist db) (ks : List Bytes) :
    (db.getBKeys ks).map (·.tree) = ks.findSome? (fun k => lastKeyR k hist) := by
  induction ks with
  | nil => rfl
  | cons k rest ih =>
    rw [Db.getBKeys, List.findSome?_cons, ← hinv.keyVal k]
    cases (alookup k db.idxKey).bind (fun s => db.tpl[s]?) with
    | some s => rfl
    | none => exact ih

/-! ### Names that never occur -/

theorem lastKeyR_none {k : Bytes} : ∀ {l : List Op}, (∀ o ∈ l, o.key ≠ k) → lastKeyR k l = none
  | [], _ => rfl
  | o :: older, h => by
    have ih := lastKeyR_none (k := k) (l := older) (fun p hp => h p (by simp [hp]))
    rw [lastKeyR, if_neg, ih]
    rintro ⟨_, b | b⟩
    · exact h o (by simp) b
    · obtain ⟨p, hp, _, e, _⟩ := bound_elim b
      exact h p (by simp [hp]) e

theorem lastIDR_none {i : Int} : ∀ {l : List Op}, (∀ o ∈ l, o.id ≠ i) → lastIDR i l = none
  | [], _ => rfl
  | o :: older, h => by
    have ih := lastIDR_none (i := i) (l := older) (fun p hp => h p (by simp [hp]))
    rw [lastIDR, if_neg, ih]
    rintro ⟨_, b | b⟩
    · exact h o (by simp) b
    · obtain ⟨p, hp, e, _⟩ := bound_elim b
      exact h p (by simp [hp]) e

/-! ### The hash invariant and `parse` -/

/-- `S` is the set of sources in play, `h` the checksum function. -/
structure HInv (h : Nat → Nat) (S : List Nat) (db : Db) : Prop where
  hashRange : ∀ x i, alookup x db.idxHash = some i → i < db.tpl.length
  hashVal : ∀ (x i : Nat) (s : Slot), alookup x db.idxHash = some i → db.tpl[i]? = some s → s.tree.hsum = x
  slotOk : ∀ (j : Nat) (s : Slot), db.tpl[j]? = some s → s.tree.hsum = h s.tree.src ∧ s.tree.src ∈ S

theorem hinv_empty (h : Nat → Nat) (S : List Nat) : HInv h S Db.empty := by
  constructor <;> intros <;> simp_all [Db.empty, alookup]

/-- The hash index after the deletion step only keeps entries of the old index, none of which points at
    the slot about to be written. -/
theorem setHash0_spec {h : Nat → Nat} {S : List Nat} {db : Db} (hinv : HInv h S db)
    (id : Int) (key : Bytes) (x i : Nat) (hx : alookup x (db.setHash0 id key) = some i) :
    alookup x db.idxHash = some i ∧ i ≠ db.setIdx id key := by
  unfold Db.setHash0 at hx
  unfold Db.setIdx
  cases hs : db.slotIdx id key with
  | none =>
    rw [hs] at hx
    simp only at hx
    have := hinv.hashRange x i hx
    exact ⟨hx, by simp; omega⟩
  | some j =>
    rw [hs] at hx
    simp only [Option.getD_some] at hx ⊢
    have hj := Db.slotIdx_lt hs
    rw [List.getElem?_eq_getElem hj] at hx
    simp only at hx
    split at hx
    · next hold =>
      rw [alookup_aerase] at hx
      split at hx
      · cases hx
      · next hne =>
        refine ⟨hx, ?_⟩
        intro e; subst e
        exact hne (hinv.hashVal x i _ hx (List.getElem?_eq_getElem hj)).symm
    · next hold =>
      refine ⟨hx, ?_⟩
      intro e; subst e
      have := hinv.hashVal x i _ hx (List.getElem?_eq_getElem hj)
      rw [this] at hold
      exact hold hx

/-- One registration of a tree with a correct checksum preserves the hash invariant
    (this is repair 1; no assumption on names). -/
theorem hinv_step {h : Nat → Nat} {S : List Nat} {db : Db} (hinv : HInv h S db)
    (id : Int) (key : Bytes) (t : Tree) (ht : t.hsum = h t.src) (hS : t.src ∈ S) :
    HInv h S (db.set id key t) := by
  have hle := Db.setIdx_le db id key
  have hT := Db.set_tpl_get db id key t
  have hL := Db.set_tpl_length db id key t
  have h0 := setHash0_spec hinv id key
  have hH : ∀ x i, alookup x (db.set id key t).idxHash = some i →
      (x = t.hsum ∧ i = db.setIdx id key) ∨ (alookup x db.idxHash = some i ∧ i ≠ db.setIdx id key) := by
    intro x i hx
    change alookup x (if (alookup t.hsum (db.setHash0 id key)).isNone
      then aset t.hsum (db.setIdx id key) (db.setHash0 id key) else db.setHash0 id key) = some i at hx
    split at hx
    · rw [alookup_aset] at hx
      split at hx
      · next e => injection hx with hx; exact Or.inl ⟨e, hx.symm⟩
      · exact Or.inr (h0 x i hx)
    · exact Or.inr (h0 x i hx)
  generalize db.setIdx id key = idx at *
  generalize db.set id key t = db' at *
  have hlen : db.tpl.length ≤ db'.tpl.length ∧ idx < db'.tpl.length := by
    rw [hL]; split <;> omega
  refine ⟨?_, ?_, ?_⟩
  · intro x i hx
    rcases hH x i hx with ⟨_, e⟩ | ⟨hx', _⟩
    · omega
    · have := hinv.hashRange x i hx'; omega
  · intro x i s hx hs
    rw [hT] at hs
    rcases hH x i hx with ⟨e1, e2⟩ | ⟨hx', hne⟩
    · rw [if_pos e2] at hs; injection hs with hs; subst hs; exact e1.symm
    · rw [if_neg hne] at hs; exact hinv.hashVal x i s hx' hs
  · intro j s hs
    rw [hT] at hs
    split at hs
    · injection hs with hs; subst hs; exact ⟨ht, hS⟩
    · exact hinv.slotOk j s hs

/-- `Parse` returns a tree of its own source (and with the right checksum), provided the checksum
    function is injective on the sources in play. -/
theorem parse_spec {h : Nat → Nat} {S : List Nat} {db : Db} (hinv : HInv h S db)
    (hinj : ∀ a ∈ S, ∀ b ∈ S, h a = h b → a = b) (src : Nat) (hsrc : src ∈ S) :
    (parse h db src).src = src ∧ (parse h db src).hsum = h src := by
  unfold parse Db.getTreeByHash
  cases hx : alookup (h src) db.idxHash with
  | none => exact ⟨rfl, rfl⟩
  | some i =>
    have hi := hinv.hashRange _ i hx
    simp only [List.getElem?_eq_getElem hi, Option.map_some]
    have h1 := hinv.hashVal _ i _ hx (List.getElem?_eq_getElem hi)
    obtain ⟨h2, h3⟩ := hinv.slotOk i _ (List.getElem?_eq_getElem hi)
    have : (db.tpl[i]).tree.src = src := hinj _ h3 _ hsrc (by rw [← h2, h1])
    exact ⟨this, by rw [h1]⟩

/-- The hash invariant holds after every history of registrations of trees with correct checksums. -/
theorem hinv_runR {h : Nat → Nat} {S : List Nat} : ∀ (l : List Op),
    (∀ o ∈ l, o.tree.hsum = h o.tree.src ∧ o.tree.src ∈ S) → HInv h S (runR l)
  | [], _ => hinv_empty h S
  | o :: older, hl =>
    hinv_step (hinv_runR older (fun p hp => hl p (by simp [hp]))) o.id o.key o.tree
      (hl o (by simp)).1 (hl o (by simp)).2

/-! ### The two-map reference -/

def Spec.runR (l : List Op) : Spec := l.foldr (fun o s => s.set o.id o.key o.tree) Spec.empty

theorem Spec.run_eq (hist : List Op) : Spec.run hist = Spec.runR hist.reverse := by
  simp [Spec.run, Spec.runR, List.foldr_reverse]

theorem Spec.getKey_set (s : Spec) (id : Int) (key : Bytes) (t : Tree) (k : Bytes) :
    (s.set id key t).getKey k = if key ≠ noKey ∧ k = key then some t else s.getKey k := by
  unfold Spec.getKey Spec.set
  by_cases hk : key = noKey
  · simp [hk]
  · simp only [hk, ne_eq, not_false_eq_true, if_true, true_and, alookup_aset]

theorem Spec.getID_set (s : Spec) (id : Int) (key : Bytes) (t : Tree) (i : Int) :
    (s.set id key t).getID i = if 0 ≤ id ∧ i = id then some t else s.getID i := by
  unfold Spec.getID Spec.set
  by_cases hk : 0 ≤ id
  · simp only [hk, if_true, true_and, alookup_aset]
  · simp [hk]

theorem soloAfterPair_false {older : List Op} {o p : Op} (h : soloAfterPair older o = false)
    (hp : p ∈ older) (h1 : 0 ≤ p.id) (h2 : p.key ≠ noKey) :
    ¬ (o.key = noKey ∧ p.id = o.id) ∧ ¬ (o.id < 0 ∧ p.key = o.key) := by
  unfold soloAfterPair at h
  have := List.any_eq_false.1 h p hp
  simp only [h1, h2, decide_true, Bool.true_and, ne_eq, not_false_eq_true, Bool.or_eq_true,
    Bool.and_eq_true, decide_eq_true_eq, not_or] at this
  exact this

/-- When no name is registered alone after it was paired, "the latest registration that concerns a
    name" is just "the latest registration that gives that name": the two-map reference. -/
theorem spec_key : ∀ (l : List Op), Consistent l → pairedOnlyR l = true → ∀ k,
    (Spec.runR l).getKey k = lastKeyR k l
  | [], _, _, _ => rfl
  | o :: older, hc, hp, k => by
    simp only [pairedOnlyR, Bool.and_eq_true, Bool.not_eq_true'] at hp
    have ih := spec_key older (consistent_tail hc) hp.2 k
    show ((Spec.runR older).set o.id o.key o.tree).getKey k = _
    rw [Spec.getKey_set, lastKeyR, ih]
    by_cases c : o.key ≠ noKey ∧ k = o.key
    · rw [if_pos c, if_pos ⟨c.2 ▸ c.1, Or.inl c.2.symm⟩]
    · rw [if_neg c, if_neg]
      rintro ⟨a, b | b⟩
      · exact c ⟨b ▸ a, b.symm⟩
      · obtain ⟨p, hpm, e1, e2, h3, h4⟩ := bound_elim b
        have hs := soloAfterPair_false hp.1 hpm (e1 ▸ h3) (e2 ▸ h4)
        by_cases hk : o.key = noKey
        · exact hs.1 ⟨hk, e1⟩
        · have := (hc o (by simp) p (by simp [hpm]) h3 hk (e1 ▸ h3) (e2 ▸ h4)).2 e1.symm
          exact c ⟨hk, by rw [this, e2]⟩

theorem spec_id : ∀ (l : List Op), Consistent l → pairedOnlyR l = true → ∀ i,
    (Spec.runR l).getID i = lastIDR i l
  | [], _, _, _ => rfl
  | o :: older, hc, hp, i => by
    simp only [pairedOnlyR, Bool.and_eq_true, Bool.not_eq_true'] at hp
    have ih := spec_id older (consistent_tail hc) hp.2 i
    show ((Spec.runR older).set o.id o.key o.tree).getID i = _
    rw [Spec.getID_set, lastIDR, ih]
    by_cases c : 0 ≤ o.id ∧ i = o.id
    · rw [if_pos c, if_pos ⟨c.2 ▸ c.1, Or.inl c.2.symm⟩]
    · rw [if_neg c, if_neg]
      rintro ⟨a, b | b⟩
      · exact c ⟨b ▸ a, b.symm⟩
      · obtain ⟨p, hpm, e1, e2, h3, h4⟩ := bound_elim b
        have hs := soloAfterPair_false hp.1 hpm (e1 ▸ h3) (e2 ▸ h4)
        by_cases hk : 0 ≤ o.id
        · have := (hc o (by simp) p (by simp [hpm]) hk h4 (e1 ▸ h3) (e2 ▸ h4)).1 e2.symm
          exact c ⟨hk, by rw [this, e1]⟩
        · exact hs.2 ⟨by omega, e2⟩

theorem abs_getKey {hist : List Op} {db : Db} (hinv : Inv hist db) (k : Bytes) :
    (abs db).getKey k = (db.getKey k).map (·.tree) := by
  unfold abs Spec.getKey
  rw [alookup_map (fun i => (db.tpl.getD i ⟨0, [], ⟨0, 0⟩⟩).tree), getKey_eq hinv]
  cases hk : alookup k db.idxKey with
  | none => rfl
  | some s =>
    have := hinv.keyRange k s hk
    simp [List.getD_eq_getElem?_getD, List.getElem?_eq_getElem this]

theorem abs_getID {hist : List Op} {db : Db} (hinv : Inv hist db) (i : Int) :
    (abs db).getID i = (db.getID i).map (·.tree) := by
  unfold abs Spec.getID
  rw [alookup_map (fun i => (db.tpl.getD i ⟨0, [], ⟨0, 0⟩⟩).tree), getID_eq hinv]
  cases hk : alookup i db.idxID with
  | none => rfl
  | some s =>
    have := hinv.idRange i s hk
    simp [List.getD_eq_getElem?_getD, List.getElem?_eq_getElem this]

/-! ### Sessions -/

/-- Session invariant: hash invariant of the registry, and every tree handed out so far has the right
    checksum and a source in play. -/
structure SInv (h : Nat → Nat) (S : List Nat) (s : Sess) : Prop where
  db : HInv h S s.db
  trees : ∀ t ∈ s.trees, t.hsum = h t.src ∧ t.src ∈ S

theorem sinv_exec {h : Nat → Nat} {S : List Nat} (hinj : ∀ a ∈ S, ∀ b ∈ S, h a = h b → a = b) :
    ∀ (ops : List SOp) (s : Sess), SInv h S s → (∀ a ∈ parsedSrcs ops, a ∈ S) →
      (ops.foldl (Sess.step h) s).trees.map (·.src) = s.trees.map (·.src) ++ parsedSrcs ops
  | [], s, _, _ => by simp [parsedSrcs]
  | .parse src :: rest, s, hs, hS => by
    have hsrc : src ∈ S := hS src (by simp [parsedSrcs])
    obtain ⟨p1, p2⟩ := parse_spec hs.db hinj src hsrc
    have hs' : SInv h S (Sess.step h s (.parse src)) := by
      refine ⟨hs.db, ?_⟩
      intro t ht
      simp only [Sess.step, List.mem_append, List.mem_singleton] at ht
      rcases ht with ht | ht
      · exact hs.trees t ht
      · subst ht; exact ⟨by rw [p2, p1], by rw [p1]; exact hsrc⟩
    have := sinv_exec hinj rest _ hs' (fun a ha => hS a (by simp [parsedSrcs, ha]))
    rw [List.foldl_cons, this]
    simp [Sess.step, parsedSrcs, p1]
  | .reg id key ref :: rest, s, hs, hS => by
    have hs' : SInv h S (Sess.step h s (.reg id key ref)) ∧
        (Sess.step h s (.reg id key ref)).trees = s.trees := by
      cases ht : s.trees[ref]? with
      | none => simp only [Sess.step, ht]; exact ⟨hs, trivial⟩
      | some t =>
        simp only [Sess.step, ht]
        obtain ⟨t1, t2⟩ := hs.trees t (List.mem_of_getElem? ht)
        exact ⟨⟨hinv_step hs.db id key t t1 t2, hs.trees⟩, trivial⟩
    have := sinv_exec hinj rest _ hs'.1 (fun a ha => hS a (by simpa [parsedSrcs] using ha))
    rw [List.foldl_cons, this, hs'.2]
    simp [parsedSrcs]

end DyntplV.Reg
