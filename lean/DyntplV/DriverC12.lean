import DyntplV.Basic
import DyntplV.Parser.Nest
import DyntplV.Parser.Args
/-!
  Driver requests of property C12 (wired into `DyntplV.Driver.answer`; runs the same definitions
  the theorems in `DyntplV/Props/C12.lean` are about).

  * `nest <skeleton>` — skeleton over the letters `i f s` (open if / for / switch), `I F S` (close),
    `l` (leaf), `b` (bad), `u` (unterminated); the bare request `nest` is the empty skeleton.
    Answer: `ok` | `err:unbalanced` | `err:eof` | `err:bad` — what `Nest.parse` returns
    (`fuel` if the model ran out of fuel: impossible by `parse_terminates`).
  * `args <hex>` — the raw argument string (hex, `-` = empty).
    Answer: `panic` | `fuel` | `empty` | `name:val:static|name:val:static|…` with `name`, `val` in hex
    (`-` = empty) and `static` ∈ {0,1} — what `Args.extractArgsM` returns.
  * `argsold <hex>` — same through the pre-repair variant `Args.extractArgsOld`.
-/
namespace DyntplV.DriverC12
open DyntplV

def hexVal (c : Char) : Option Nat :=
  if '0' ≤ c ∧ c ≤ '9' then some (c.toNat - 48)
  else if 'a' ≤ c ∧ c ≤ 'f' then some (c.toNat - 87)
  else if 'A' ≤ c ∧ c ≤ 'F' then some (c.toNat - 55)
  else none

def unhexGo : List Char → List UInt8 → Option Bytes
  | [], acc => some acc.reverse
  | [_], _ => none
  | a :: b :: rest, acc =>
    match hexVal a, hexVal b with
    | some h, some l => unhexGo rest (UInt8.ofNat (h * 16 + l) :: acc)
    | _, _ => none

/-- Hex token → bytes; `-` is the empty string. -/
def unhexStr (s : String) : Option Bytes :=
  if s == "-" then some [] else unhexGo s.toList []

def hexChar (n : Nat) : Char := if n < 10 then Char.ofNat (48 + n) else Char.ofNat (87 + n)

def hexStr (b : Bytes) : String :=
  if b.isEmpty then "-" else
  String.ofList (b.flatMap (fun c => [hexChar (c.toNat / 16), hexChar (c.toNat % 16)]))

def errStr : Nest.Err → String
  | .unbalanced => "unbalanced"
  | .eof => "eof"
  | .bad => "bad"

def nestAnswer (s : String) : String :=
  match Nest.skeleton s with
  | none => "bad-op"
  | some ts =>
    match Nest.parse ts with
    | .outOfFuel => "fuel"
    | .done _ _ none => "ok"
    | .done _ _ (some e) => "err:" ++ errStr e

def argStr (a : Args.Arg) : String :=
  s!"{hexStr a.name}:{hexStr a.val}:{if a.static then "1" else "0"}"

def outcomeStr : Args.Outcome → String
  | .panic => "panic"
  | .outOfFuel => "fuel"
  | .ok [] => "empty"
  | .ok l => "|".intercalate (l.map argStr)

def answer (toks : List String) : Option String :=
  match toks with
  | ["nest"] => some (nestAnswer "")
  | ["nest", s] => some (nestAnswer s)
  | ["args", h] =>
    match unhexStr h with
    | some raw => some (outcomeStr (Args.extractArgsM raw))
    | none => some "bad-op"
  | ["argsold", h] =>
    match unhexStr h with
    | some raw => some (outcomeStr (Args.extractArgsOld raw))
    | none => some "bad-op"
  | _ => none

end DyntplV.DriverC12
