import DyntplV.Impl
import DyntplV.Refine.TermIncl
/-!
  Driver part for the interpreter model: parses tree dumps (hook `VerifDumpTree`), environments and
  render sessions from the token stream, runs `Impl`, prints canonical results.
  Not theorem-relevant (uses `partial`).
-/
namespace DyntplV.DriverR
open DyntplV

abbrev P := StateT (List String) Option

def tok : P String := do
  match (← get) with
  | [] => failure
  | t :: rest => set rest; pure t

def hexVal (c : Char) : Option Nat :=
  if '0' ≤ c ∧ c ≤ '9' then some (c.toNat - 48)
  else if 'a' ≤ c ∧ c ≤ 'f' then some (c.toNat - 87)
  else if 'A' ≤ c ∧ c ≤ 'F' then some (c.toNat - 55)
  else none

def unhexStr (s : String) : Option Bytes :=
  if s == "-" then some [] else
  let rec go : List Char → List UInt8 → Option Bytes
    | [], acc => some acc.reverse
    | [_], _ => none
    | a :: b :: rest, acc =>
      match hexVal a, hexVal b with
      | some h, some l => go rest (UInt8.ofNat (h * 16 + l) :: acc)
      | _, _ => none
  go s.toList []

def hexChar (n : Nat) : Char := if n < 10 then Char.ofNat (48 + n) else Char.ofNat (87 + n)
def hexStr (b : Bytes) : String :=
  if b.isEmpty then "-" else
  String.ofList (b.flatMap (fun c => [hexChar (c.toNat / 16), hexChar (c.toNat % 16)]))

def pHex : P Bytes := do
  let t ← tok
  match unhexStr t with
  | some b => pure b
  | none => failure

def pNat : P Nat := do
  let t ← tok
  match t.toNat? with
  | some n => pure n
  | none => failure

def pInt : P Int := do
  let t ← tok
  match t.toInt? with
  | some n => pure n
  | none => failure

def pBool : P Bool := do
  let t ← tok
  if t == "1" then pure true else if t == "0" then pure false else failure

def pMany {α : Type} (p : P α) : Nat → P (List α)
  | 0 => pure []
  | n+1 => do let a ← p; let r ← pMany p n; pure (a :: r)

def pArg : P Arg := do
  let name ← pHex; let val ← pHex; let st ← pBool; let gl ← pBool
  pure { name := name, val := val, static := st, global := gl }

def pArgs : P (List Arg) := do let n ← pNat; pMany pArg n

def pMod : P Mod := do
  let id ← pHex; let args ← pArgs
  pure { id := id, args := args }

mutual
partial def pNodes : P (List Node) := do
  let n ← pNat
  pMany pNode n

partial def pNode : P Node := do
  let t ← tok
  if t != "N" then failure
  let typ ← pNat
  let raw ← pHex; let pre ← pHex; let suf ← pHex; let noesc ← pBool
  let ctxVar ← pHex; let ctxSrc ← pHex; let ctxOK ← pHex; let ctxSrcStatic ← pBool; let ctxIns ← pHex
  let cntrVar ← pHex; let cntrInit ← pInt; let cntrInitF ← pBool; let cntrOp ← pNat; let cntrOpArg ← pInt
  let condL ← pHex; let condR ← pHex; let condOKL ← pHex; let condOKR ← pHex
  let condStaticL ← pBool; let condStaticR ← pBool; let condOp ← pNat; let condHlp ← pHex
  let condHlpArg ← pArgs; let condIns ← pHex; let condLC ← pNat
  let loopKey ← pHex; let loopVal ← pHex; let loopSrc ← pHex; let loopCnt ← pHex; let loopCntInit ← pHex
  let loopCntStatic ← pBool; let loopCntOp ← pNat; let loopCondOp ← pNat; let loopLim ← pHex
  let loopLimStatic ← pBool; let loopSep ← pHex; let loopBrkD ← pInt
  let switchArg ← pHex
  let caseL ← pHex; let caseR ← pHex; let caseStaticL ← pBool; let caseStaticR ← pBool; let caseOp ← pNat
  let caseHlp ← pHex; let caseHlpArg ← pArgs
  let nt ← pNat; let tpls ← pMany pHex nt
  let nm ← pNat; let mods ← pMany pMod nm
  let child ← pNodes
  let cond : CondSpec := ⟨condL, condR, condStaticL, condStaticR, Op.ofCode condOp, condHlp, condHlpArg, condLC⟩
  pure (match typ with
    | 0 => .raw raw
    | 1 => .tpl raw mods noesc pre suf
    | 2 => .cond cond child
    | 3 => .condOK { varV := condOKL, varOK := condOKR, ins := condIns, cd := cond } child
    | 4 => .condTrue child
    | 5 => .condFalse child
    | 6 => .rloop { key := loopKey, val := loopVal, src := loopSrc, sep := loopSep } child
    | 7 => .cloop ⟨loopCnt, loopCntInit, loopCntStatic, Op.ofCode loopCntOp, Op.ofCode loopCondOp, loopLim, loopLimStatic, loopSep⟩ child
    | 8 => .brk loopBrkD.toNat
    | 9 => .lbrk loopBrkD.toNat
    | 10 => .cont
    | 11 => .ctx { var := ctxVar, src := ctxSrc, ok := ctxOK, srcStatic := ctxSrcStatic, ins := ctxIns, mods := mods }
    | 12 => .counter { var := cntrVar, init := cntrInit, initF := cntrInitF, op := Op.ofCode cntrOp, opArg := cntrOpArg }
    | 13 => .switch switchArg child
    | 14 => .case_ ⟨caseL, caseR, caseStaticL, caseStaticR, Op.ofCode caseOp, caseHlp, caseHlpArg⟩ child
    | 15 => .default_ child
    | 16 => .div
    | 17 => .jsonQ | 18 => .endJsonQ | 19 => .htmlE | 20 => .endHtmlE | 21 => .urlEnc | 22 => .endUrlEnc
    | 23 => .incl tpls
    | 24 => .exit
    | _ => .unknown)
end

def pTree : P (List Node) := do
  let t ← tok
  if t != "T" then failure
  pNodes

partial def pVal : P Val := do
  let t ← tok
  match t with
  | "n" => pure .nil
  | "i" => do let v ← pInt; pure (.int v)
  | "u" => do let v ← pNat; pure (.uint v)
  | "f" => do let v ← pHex; pure (.float v)
  | "b" => do let v ← pBool; pure (.bool v)
  | "s" => do let v ← pHex; pure (.str v)
  | "y" => do let v ← pHex; pure (.bytes v)
  | "o" => do
    let k ← pNat
    let fs ← pMany (do let n ← pHex; let v ← pVal; pure (n, v)) k
    pure (.obj fs)
  | "l" => do let k ← pNat; let xs ← pMany pVal k; pure (.list xs)
  | "t" => do let k ← pNat; let xs ← pMany pHex k; pure (.strs xs)
  | "x" => pure .other
  | _ => failure

/-- Session operations on one context. -/
inductive SOp
  | setStatic (k : Bytes) (v : Val)
  | setObj (k : Bytes) (v : Val)
  | setStrs (k : Bytes) (v : Val)
  | setBytes (k : Bytes) (b : Bytes)
  | setCounter (k : Bytes) (n : Int)
  | render (key : Bytes) (failAt : Option Nat)
  | reset

def pSOp : P SOp := do
  let t ← tok
  match t with
  | "static" => do let k ← pHex; let v ← pVal; pure (.setStatic k v)
  | "obj" => do let k ← pHex; let v ← pVal; pure (.setObj k v)
  | "strs" => do let k ← pHex; let v ← pVal; pure (.setStrs k v)
  | "bytes" => do let k ← pHex; let b ← pHex; pure (.setBytes k b)
  | "counter" => do let k ← pHex; let n ← pInt; pure (.setCounter k n)
  | "render" => do
    let k ← pHex
    let f ← tok
    pure (.render k (if f == "-" then none else f.toNat?))
  | "reset" => pure .reset
  | _ => failure

def errName : Err → String
  | .tplNotFound => "notfound" | .interrupt => "interrupt" | .breakLoop => "break" | .contLoop => "continue"
  | .modNoArgs => "modnoargs" | .modPoorArgs => "modpoorargs" | .modNoStr => "modnostr"
  | .condHlpNotFound => "condhlp" | .senseless => "senseless" | .wrongLoopLim => "wronglim"
  | .wrongLoopCond => "wrongcond" | .wrongLoopOp => "wrongop" | .unknownCtl => "unknownctl"
  | .unknownType => "unknowntype" | .writer => "writer" | .unknownInspector => "unknownins"
  | .unknownPool => "unknownpool" | .userFail => "userfail" | .unsupported => "unsupported" | .outOfFuel => "outoffuel" | .incDepth => "incdepth" | .parse => "parse"

def evStr : Event → String
  | .deferReg t => s!"reg{t}" | .deferRan t => s!"ran{t}" | .acquire t => s!"acq{t}" | .release t => s!"rel{t}"

def logStr (l : List Event) : String := if l.isEmpty then "-" else ",".intercalate (l.map evStr)

/-- Run a session; one result per render: `<status> <outhex> <writes> <log-so-far>`. -/
def runSession (reg : Registry) (fuel : Nat) (ops : List SOp) : List String :=
  let step := fun (acc : Ctx × List String) (op : SOp) =>
    let (c, outs) := acc
    match op with
    | .setStatic k v => (c.setStatic k v, outs)
    | .setObj k v => (c.set k v .obj, outs)
    | .setStrs k v => (c.set k v .strings, outs)
    | .setBytes k b => (c.setBytes k b, outs)
    | .setCounter k n => (c.setCounter k n, outs)
    | .reset => (c.reset, outs)
    | .render key failAt =>
      let r := writeKey reg (TermIncl.fuelFor reg key fuel) key { c := c, w := { failAt := failAt } }
      let status := match r.err with | none => "ok" | some e => "err:" ++ errName e
      (r.st.c, outs ++ [s!"{status} {hexStr r.st.w.out} {r.st.w.writes} {logStr r.st.c.log}"])
  (ops.foldl step (({} : Ctx), [])).2

/-- `session <fuel> <nReg> (<keyhex> <tree>)* <nOps> ops…` -/
def pSession : P String := do
  let fuel ← pNat
  let nr ← pNat
  let reg ← pMany (do let k ← pHex; let t ← pTree; pure (k, t)) nr
  let no ← pNat
  let ops ← pMany pSOp no
  let rest ← get
  if !rest.isEmpty then failure
  pure (" | ".intercalate (runSession reg fuel ops))

def answer (toks : List String) : Option String :=
  match toks with
  | "session" :: rest => match pSession.run rest with
    | some (s, _) => some s
    | none => some "bad-session"
  | _ => none

end DyntplV.DriverR
