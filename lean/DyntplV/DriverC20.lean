import DyntplV.Mods.Round
import DyntplV.Mods.Operands
/-!
  Driver requests of property C20 (to be wired into `DyntplV.Driver.answer`; runs the same definitions the
  theorems in `DyntplV/Props/C20.lean` are about).

  * `round <op> <k> <m> <e>` — `op` ∈ `floor ceil trunc round`, `k` decimals, the value is the exact decimal
    `m·10^-e` (`m` a signed decimal integer, `e` a natural number).
    Answer: the scaled integer `n` (the rounded value is `n/10^k`) — `Round.Op.apply op k m (10^e)`.
  * `operands <fn> <val> <arg>*` — `fn` ∈ `any` (`floatConvAny`: abs inc dec sqrt cbrt exp log),
    `conv2` (`mathConv2`: add sub mul div mod pow), `minmax` (`mathConvArgs2`: min max),
    `only` / `minmaxold` (the pre-repair selections of sqrt… and of min / max);
    `val` and every `arg` ∈ `N` (numeric), `X` (not numeric), `-` (nil).
    Answer: the selected operands by position, first operand first — `v`, `a0`, `a1`, `a2`, (`0` = the constant
    zero of the pre-repair min / max) — or `none` (no result, value passes through) or `poor` (`ErrModPoorArgs`).
-/
namespace DyntplV.DriverC20
open DyntplV DyntplV.Round DyntplV.Operands

def parseNat (s : String) : Option Nat :=
  if s.isEmpty then none else
  s.toList.foldl (fun acc c =>
    match acc with
    | none => none
    | some n => if '0' ≤ c ∧ c ≤ '9' then some (n * 10 + (c.toNat - 48)) else none) (some 0)

def parseInt (s : String) : Option Int :=
  match s.toList with
  | '-' :: rest => (parseNat (String.ofList rest)).map (fun n => -(n : Int))
  | '+' :: rest => (parseNat (String.ofList rest)).map (fun n => (n : Int))
  | _ => (parseNat s).map (fun n => (n : Int))

def parseOp : String → Option Op
  | "floor" => some .floor
  | "ceil" => some .ceil
  | "trunc" => some .trunc
  | "round" => some .round
  | _ => none

def mkArg (label : String) : String → Option (NumArg String)
  | "N" => some (.num label)
  | "X" => some .nonnum
  | "-" => some .nil
  | _ => none

def mkArgs : Nat → List String → Option (List (NumArg String))
  | _, [] => some []
  | i, t :: rest =>
    match mkArg s!"a{i}" t, mkArgs (i + 1) rest with
    | some a, some as => some (a :: as)
    | _, _ => none

def sel2Str : Sel2 String → String
  | .poor => "poor"
  | .none => "none"
  | .ops f d => s!"{f} {d}"

def optStr : Option String → String
  | none => "none"
  | some f => f

def answer (toks : List String) : Option String :=
  match toks with
  | ["round", op, k, m, e] =>
    match parseOp op, parseNat k, parseInt m, parseNat e with
    | some o, some k, some m, some e => some (toString (Dec.apply o k ⟨m, e⟩))
    | _, _, _, _ => some "bad-op"
  | "operands" :: fn :: val :: args =>
    match mkArg "v" val, mkArgs 0 args with
    | some v, some as =>
      match fn with
      | "any" => some (optStr (floatConvAny v as))
      | "conv2" => some (sel2Str (mathConv2 v as))
      | "minmax" => some (sel2Str (mathConvArgs2 v as))
      | "only" => some (optStr (floatConvOnly v as))
      | "minmaxold" => some (sel2Str (mathConvArgs2Old "0" v as))
      | _ => some "bad-op"
    | _, _ => some "bad-op"
  | _ => none

end DyntplV.DriverC20
