import DyntplV.Basic
/-!
# Model of the template registry (`/repo/db.go`, AS REPAIRED) and of `Parse`'s hash short-cut

Go maps are association lists read through `alookup` and written through `aset` / `aerase`
(only the two lemmas `alookup_aset` / `alookup_aerase` are ever used about them, i.e. they are
finite maps).  Trees are abstract: `src` is the identity of the (pre-processed) source text the
tree was built from, `hsum` its checksum (`crc64` in Go, an abstract function `h` here).

Differences in representation (not in behaviour):
* Go's `getIdxLF` returns `-1` for "no index"; here `Option Nat`.  The Go tests `idx1 != -1`
  are vacuous (only `len(db.tpl)-1` or an already stored index is ever stored) and disappear.
* `idx >= 0 && idx < len(db.tpl)` is `slotIdx` / the bounds check inside `tpl[i]?`.
* Key `"-1"` (`noKey`) and id `-1` (any negative id) mean "absent", exactly as in the Go code.

Repairs mirrored here (see /verif/.work/c04_fix_notes.md):
1. when a slot is overwritten, the hash entry of the replaced tree is deleted if it points at that
   slot (otherwise `Parse` of the old source returned the new tree);
2. `idxID` / `idxKey` are maintained on the overwrite path too (otherwise `RegisterTplID(id)`
   followed by `RegisterTpl(id, key)` never entered the key index).
-/
namespace DyntplV.Reg

/-! ### Finite maps as association lists -/

def alookup {α β : Type} [DecidableEq α] (k : α) : List (α × β) → Option β
  | [] => none
  | (k', v) :: r => if k' = k then some v else alookup k r

/-- Go: `delete(m, k)`. -/
def aerase {α β : Type} [DecidableEq α] (k : α) (l : List (α × β)) : List (α × β) :=
  l.filter (fun p => decide (p.1 ≠ k))

/-- Go: `m[k] = v`. -/
def aset {α β : Type} [DecidableEq α] (k : α) (v : β) (l : List (α × β)) : List (α × β) :=
  (k, v) :: aerase k l

/-- An abstract parsed template: `src` identifies the source text, `hsum` is its checksum. -/
structure Tree where
  hsum : Nat
  src : Nat
  deriving DecidableEq, Repr

/-- Go: `Tpl{ID, Key, tree}`. -/
structure Slot where
  id : Int
  key : Bytes
  tree : Tree
  deriving DecidableEq, Repr

/-- The key that means "no key" (`"-1"`). -/
def noKey : Bytes := [45, 49]

example : noKey = lit "-1" := by decide

/-- Go: `type db struct`. Index values are offsets in `tpl`. -/
structure Db where
  idxID : List (Int × Nat)
  idxKey : List (Bytes × Nat)
  idxHash : List (Nat × Nat)
  tpl : List Slot
  deriving Repr

namespace Db

/-- Go: `initDB()`. -/
def empty : Db := ⟨[], [], [], []⟩

/-- Go: `getIdxLF` — first available index by key, else by ID. -/
def getIdxLF (db : Db) (id : Int) (key : Bytes) : Option Nat :=
  match alookup key db.idxKey with
  | some i => some i
  | none => alookup id db.idxID

/-- Go: `idx = db.getIdxLF(id, key); idx >= 0 && idx < len(db.tpl)`. -/
def slotIdx (db : Db) (id : Int) (key : Bytes) : Option Nat :=
  match db.getIdxLF id key with
  | some i => if i < db.tpl.length then some i else none
  | none => none

/-- The slot `set` writes: the found one, else the appended one. -/
def setIdx (db : Db) (id : Int) (key : Bytes) : Nat :=
  (db.slotIdx id key).getD db.tpl.length

/-- The slot array after `set`. -/
def setTpl (db : Db) (id : Int) (key : Bytes) (t : Tree) : List Slot :=
  match db.slotIdx id key with
  | some i => db.tpl.set i ⟨id, key, t⟩
  | none => db.tpl ++ [⟨id, key, t⟩]

/-- (repair 1) The hash index after dropping the entry of the tree that is being replaced,
    if that entry points at the replaced slot. -/
def setHash0 (db : Db) (id : Int) (key : Bytes) : List (Nat × Nat) :=
  match db.slotIdx id key with
  | some i =>
    match db.tpl[i]? with
    | some old =>
      if alookup old.tree.hsum db.idxHash = some i then aerase old.tree.hsum db.idxHash
      else db.idxHash
    | none => db.idxHash
  | none => db.idxHash

/-- Go: `db.set(id, key, tree)` as repaired. -/
def set (db : Db) (id : Int) (key : Bytes) (t : Tree) : Db :=
  let idx := db.setIdx id key
  let h0 := db.setHash0 id key
  { idxID := if 0 ≤ id then aset id idx db.idxID else db.idxID            -- (repair 2: both paths)
    idxKey := if key ≠ noKey then aset key idx db.idxKey else db.idxKey   -- (repair 2: both paths)
    idxHash := if (alookup t.hsum h0).isNone then aset t.hsum idx h0 else h0
    tpl := db.setTpl id key t }

/-- Go: `db.get(id, key)`. -/
def get (db : Db) (id : Int) (key : Bytes) : Option Slot :=
  match db.getIdxLF id key with
  | some i => db.tpl[i]?
  | none => none

/-- Go: `db.getID(id)`. -/
def getID (db : Db) (id : Int) : Option Slot := db.get id noKey

/-- Go: `db.getKey(key)`. -/
def getKey (db : Db) (key : Bytes) : Option Slot := db.get (-1) key

/-- Go: `db.getKey1(key, key1)` — key, else fallback key. -/
def getKey1 (db : Db) (key key1 : Bytes) : Option Slot :=
  let idx := match alookup key db.idxKey with
    | some i => some i
    | none => alookup key1 db.idxKey
  match idx with
  | some i => db.tpl[i]?
  | none => none

/-- Go: `db.getBKeys(bkeys)` — the first name of the list that is registered. -/
def getBKeys (db : Db) : List Bytes → Option Slot
  | [] => none
  | k :: rest =>
    match (alookup k db.idxKey).bind (fun i => db.tpl[i]?) with
    | some s => some s
    | none => getBKeys db rest

/-- Go: `db.getTreeByHash(hsum)`. -/
def getTreeByHash (db : Db) (hsum : Nat) : Option Tree :=
  match alookup hsum db.idxHash with
  | some i => (db.tpl[i]?).map (·.tree)
  | none => none

end Db

/-- Go: `Parse` reduced to its interaction with the registry: checksum, hash short-cut, else a new
    tree built from the source. `h` is the checksum function. `Parse` never writes to the registry. -/
def parse (h : Nat → Nat) (db : Db) (src : Nat) : Tree :=
  match db.getTreeByHash (h src) with
  | some t => t
  | none => ⟨h src, src⟩

/-! ### Two-map reference specification -/

structure Spec where
  byKey : List (Bytes × Tree)
  byID : List (Int × Tree)
  deriving Repr

namespace Spec
def empty : Spec := ⟨[], []⟩

/-- A registration writes the tree under every name it gives. -/
def set (s : Spec) (id : Int) (key : Bytes) (t : Tree) : Spec :=
  { byKey := if key ≠ noKey then aset key t s.byKey else s.byKey
    byID := if 0 ≤ id then aset id t s.byID else s.byID }

def getKey (s : Spec) (k : Bytes) : Option Tree := alookup k s.byKey
def getID (s : Spec) (i : Int) : Option Tree := alookup i s.byID
end Spec

/-! ### Histories -/

/-- One registration (`RegisterTpl` / `RegisterTplID` (key = `noKey`) / `RegisterTplKey` (id = -1)). -/
structure Op where
  id : Int
  key : Bytes
  tree : Tree
  deriving DecidableEq, Repr

/-- The registry after a history of registrations (oldest first), starting empty. -/
def run (hist : List Op) : Db := hist.foldl (fun db o => db.set o.id o.key o.tree) Db.empty

/-- The two-map reference after the same history. -/
def Spec.run (hist : List Op) : Spec := hist.foldl (fun s o => s.set o.id o.key o.tree) Spec.empty

/-- The two-map view of a registry: every indexed name with the tree in the slot it points at. -/
def abs (db : Db) : Spec :=
  { byKey := db.idxKey.map (fun p => (p.1, (db.tpl.getD p.2 ⟨0, [], ⟨0, 0⟩⟩).tree))
    byID := db.idxID.map (fun p => (p.1, (db.tpl.getD p.2 ⟨0, [], ⟨0, 0⟩⟩).tree)) }

/-! ### Sessions: interleaved `Parse` and registrations

  A session op either parses a source (the returned tree is appended to `trees`) or registers the
  tree returned by an earlier parse (`ref` = number of that parse op, 0-based, among the parse ops). -/

inductive SOp where
  | parse (src : Nat)
  | reg (id : Int) (key : Bytes) (ref : Nat)
  deriving DecidableEq, Repr

structure Sess where
  db : Db
  trees : List Tree
  deriving Repr

def Sess.empty : Sess := ⟨Db.empty, []⟩

def Sess.step (h : Nat → Nat) (s : Sess) : SOp → Sess
  | .parse src => { s with trees := s.trees ++ [parse h s.db src] }
  | .reg id key ref =>
    match s.trees[ref]? with
    | some t => { s with db := s.db.set id key t }
    | none => s

def Sess.exec (h : Nat → Nat) (ops : List SOp) : Sess := ops.foldl (Sess.step h) Sess.empty

/-- The sources of the parse ops, in order. -/
def parsedSrcs : List SOp → List Nat
  | [] => []
  | .parse s :: r => s :: parsedSrcs r
  | .reg .. :: r => parsedSrcs r

end DyntplV.Reg

namespace DyntplV.Reg

/-! ### History-level specification of the lookups

  A key and an ID that were registered together by one `RegisterTpl(id, key, _)` are two names of one
  template from then on (`bound`): a later registration under either name replaces that template.
  Before that they are unrelated names.  `lastKeyR` / `lastIDR` read a history newest-first. -/

/-- `i` and `k` were registered together somewhere in `hist`. -/
def bound (hist : List Op) (i : Int) (k : Bytes) : Bool :=
  hist.any (fun p => decide (p.id = i) && decide (p.key = k) && decide (0 ≤ i) && decide (k ≠ noKey))

/-- Newest first: the tree of the latest registration that concerns key `k`, i.e. one that names `k`, or
    that names an ID registered together with `k` before. -/
def lastKeyR (k : Bytes) : List Op → Option Tree
  | [] => none
  | o :: older =>
    if k ≠ noKey ∧ (o.key = k ∨ bound older o.id k = true) then some o.tree else lastKeyR k older

/-- Newest first: the tree of the latest registration that concerns ID `i`. -/
def lastIDR (i : Int) : List Op → Option Tree
  | [] => none
  | o :: older =>
    if 0 ≤ i ∧ (o.id = i ∨ bound older i o.key = true) then some o.tree else lastIDR i older

/-- The tree of the latest registration concerning key `k` in a history given oldest first. -/
def lastKey (k : Bytes) (hist : List Op) : Option Tree := lastKeyR k hist.reverse
/-- The tree of the latest registration concerning ID `i` in a history given oldest first. -/
def lastID (i : Int) (hist : List Op) : Option Tree := lastIDR i hist.reverse

/-- The key↔ID pairing of a history is consistent: among the registrations that give both names, equal
    keys come with equal IDs and conversely (a key is always registered with the same ID or with none,
    an ID with the same key or with none). -/
def Consistent (hist : List Op) : Prop :=
  ∀ a ∈ hist, ∀ b ∈ hist, 0 ≤ a.id → a.key ≠ noKey → 0 ≤ b.id → b.key ≠ noKey →
    (a.key = b.key ↔ a.id = b.id)

instance (hist : List Op) : Decidable (Consistent hist) := by unfold Consistent; infer_instance

/-- `o` gives one name only, and that name was registered together with another name in `older`. -/
def soloAfterPair (older : List Op) (o : Op) : Bool :=
  older.any (fun p => decide (0 ≤ p.id) && decide (p.key ≠ noKey) &&
    ((decide (o.key = noKey) && decide (p.id = o.id)) || (decide (o.id < 0) && decide (p.key = o.key))))

def pairedOnlyR : List Op → Bool
  | [] => true
  | o :: older => !soloAfterPair older o && pairedOnlyR older

/-- No name is registered alone after it has been registered together with another one
    (then the plain two-map reference `Spec` applies literally). -/
def PairedOnly (hist : List Op) : Prop := pairedOnlyR hist.reverse = true

instance (hist : List Op) : Decidable (PairedOnly hist) := by unfold PairedOnly; infer_instance

end DyntplV.Reg

namespace DyntplV.Reg

/-- Go: `Write` / `WriteFallback` / `WriteByID` / the include node, reduced to their interaction with the
    registry: a failed lookup returns `ErrTplNotFound` before anything reaches the writer.  `render`
    stands for the evaluation of a tree, `w` for what the writer holds; the result is the writer's new
    contents and whether `ErrTplNotFound` is returned. -/
def writeWith (found : Option Slot) (render : Tree → Bytes) (w : Bytes) : Bytes × Bool :=
  match found with
  | none => (w, true)
  | some s => (w ++ render s.tree, false)

end DyntplV.Reg
