/-!
# Source facts about the lock discipline of the registry (`/repo/db.go`) — types only

The DATA lives in `DyntplV/Generated/DbLocks.lean` and `DyntplV/Generated/TreeWrites.lean`, rewritten by
`/verif/extract` from /repo's current source on every check run.  This hand-written file only defines the
record the generated list is made of, so that the generated files contain nothing but data.

All facts are syntactic (see /verif/extract/README.md).  `unknown` means: the extractor did not recognise the
shape and refuses to guess; every predicate in `Props/C06.lean` treats `unknown` as "not protected".
-/
namespace DyntplV.Conc

/-- Which lock call comes first in the function body. -/
inductive LockKind where
  | lock      -- `mux.Lock()`
  | rlock     -- `mux.RLock()`
  | none      -- no lock call at all
  | unknown   -- nested / repeated / otherwise unrecognised
  deriving DecidableEq, Repr

/-- How the lock is released. -/
inductive Release where
  | deferUnlock    -- `defer mux.Unlock()` right inside the locked span
  | deferRUnlock   -- `defer mux.RUnlock()`
  | lastUnlock     -- explicit `mux.Unlock()` as last statement (an argument-free `return` may follow)
  | lastRUnlock    -- explicit `mux.RUnlock()` as last statement
  | midUnlock      -- explicit `mux.Unlock()` followed by more statements
  | midRUnlock     -- explicit `mux.RUnlock()` followed by more statements
  | none           -- never released (or never locked)
  | unknown
  deriving DecidableEq, Repr

/-- One function that touches the registry (`set`, `get`, … are methods of `*db`; other functions that reach into
    the registry's fields directly are listed as `func <name>`). -/
structure LockFact where
  /-- first lock call -/
  first : LockKind
  /-- how it is released -/
  release : Release
  /-- some access to an index / the slot array (`idxID`, `idxKey`, `idxHash`, `tpl`) lies outside the locked span
      (before the lock call, after an explicit unlock, or anywhere if there is no lock) -/
  outside : Bool
  /-- the function assigns to, deletes from or appends to an index or the slot array -/
  writes : Bool
  /-- a `return` lies inside a span that is released explicitly (the lock would stay held) -/
  retInside : Bool
  /-- registry methods called inside the locked span -/
  callsLocked : List String
  /-- registry methods called outside any locked span -/
  callsUnlocked : List String
  deriving DecidableEq, Repr

end DyntplV.Conc
