import DyntplV.Db
import DyntplV.Conc.Facts
/-!
# C06 — small-step interleaving model of the registry under its RW mutex

Shared state: the registry `Reg.Db` (the sequential model of `/repo/db.go`, reused from `DyntplV/Db.lean`) and the
state of `db.mux` (number of readers, writer).  Threads run straight-line programs of atomic instructions; one
`step` executes the next instruction of ONE thread, so a schedule is a list of thread ids and "every interleaving"
is "every schedule".

* a **reader** (`Write` / `WriteByID` / `WriteFallback`, and the include node) runs, per lookup,
  `rlock; rdIdx q; rdSlot; runlock` — index read and slot read are separate steps, as in `db.get` — and finally
  `render`, whose output is a function of the slots found and the thread's own context;
* a **writer** (`RegisterTpl*` → `db.set`) runs `lock; find; dropHash; slot; idxID; idxKey; hash; unlock`: the
  body of `db.set` is split into its individual index / slot updates in the order of db.go, so that every
  half-done state of the registry is a state of the model.

The lock instructions are NOT built in: `ThreadSpec.prog` takes, per registry method, whether the method is
protected (`Guards`, computed in `Props/C06.lean` from the GENERATED `LockFact`s).  A method whose fact says "no
lock" / "access outside the locked span" yields a program without `rlock`/`lock`, whose steps interleave freely.

Ghost state (never read by any instruction): `holdsR`, `holdsW`, `mid` in a thread; the owner id in
`RW.writer`; `base`, `commits`, `committed` in `Sys`; `Found.seen`.  Enabledness of the lock instructions only
tests `readers = 0` and `writer.isSome`, i.e. the RW lock is "number of readers + writer flag".

Trees are immutable values here.  That is an assumption about the Go code, discharged syntactically by the generated
fact `treeWrites = []` (no function on the render path assigns through a tree type).
-/
namespace DyntplV.Conc
open DyntplV DyntplV.Reg

deriving instance DecidableEq for Db

/-! ## The RW mutex -/

/-- `sync.RWMutex`: `readers` = number of read locks held; `writer = some i` = write-locked (`i`: ghost owner). -/
structure RW where
  readers : Nat
  writer : Option Nat
  deriving DecidableEq, Repr

/-! ## Lookups -/

/-- The four lookups of the registry. -/
inductive Query where
  | key (k : Bytes)            -- `db.getKey`   (`Write`)
  | id (i : Int)               -- `db.getID`    (`WriteByID`)
  | key1 (k k1 : Bytes)        -- `db.getKey1`  (`WriteFallback`)
  | bkeys (ks : List Bytes)    -- `db.getBKeys` (`{% include k1 k2 … %}`)
  deriving DecidableEq, Repr

/-- First half of a lookup: the slot index read from the indexes (`-1` in Go = `none`). -/
def Query.index (db : Db) : Query → Option Nat
  | .key k => db.getIdxLF (-1) k
  | .id i => db.getIdxLF i noKey
  | .key1 k k1 =>
    match alookup k db.idxKey with
    | some i => some i
    | none => alookup k1 db.idxKey
  | .bkeys ks => ks.findSome? (fun k =>
      match alookup k db.idxKey with
      | some i => if i < db.tpl.length then some i else none
      | none => none)

/-- Second half: `idx >= 0 && idx < len(db.tpl)` → `db.tpl[idx]`, else nil. -/
def readSlot (db : Db) : Option Nat → Option Slot
  | some i => db.tpl[i]?
  | none => none

/-- What the sequential model (`DyntplV/Db.lean`) answers. -/
def Query.seq (db : Db) : Query → Option Slot
  | .key k => db.getKey k
  | .id i => db.getID i
  | .key1 k k1 => db.getKey1 k k1
  | .bkeys ks => db.getBKeys ks

/-- The registry method behind a query. -/
def Query.method : Query → String
  | .key _ => "getKey"
  | .id _ => "getID"
  | .key1 _ _ => "getKey1"
  | .bkeys _ => "getBKeys"

/-! ## Instructions and threads -/

/-- The individual updates inside `db.set`, in the order of db.go. -/
inductive WrOp where
  | find       -- `idx = db.getIdxLF(id, key); idx >= 0 && idx < len(db.tpl)`
  | dropHash   -- reused slot: `delete(db.idxHash, old.tree.hsum)` if it points at the slot
  | slot       -- `db.tpl[idx] = &tpl`  or  `db.tpl = append(db.tpl, &tpl); idx = len(db.tpl)-1`
  | idxID      -- `if id >= 0 { db.idxID[id] = idx }`
  | idxKey     -- `if key != "-1" { db.idxKey[key] = idx }`
  | hash       -- `if _, ok := db.idxHash[tree.hsum]; !ok { db.idxHash[tree.hsum] = idx }`
  deriving DecidableEq, Repr

inductive Instr where
  | rlock | runlock | lock | unlock
  | rdIdx (q : Query)
  | rdSlot
  | wr (o : WrOp)
  | render
  deriving DecidableEq, Repr

/-- One finished lookup of a reader. `seen` (ghost) = number of committed registrations at that moment. -/
structure Found where
  q : Query
  res : Option Slot
  seen : Nat
  deriving DecidableEq, Repr

structure Thread where
  /-- remaining program -/
  prog : List Instr
  /-- writer: the arguments of `db.set` (constant) -/
  id : Int
  key : Bytes
  tree : Tree
  /-- reader: its own context (constant, abstract) -/
  ctx : Nat
  /-- Go local `idx` (of `get` and of `set`) -/
  idx : Option Nat
  /-- reader: the lookup in progress -/
  cur : Query
  /-- reader: finished lookups, oldest first -/
  found : List Found
  /-- reader: what the render wrote -/
  out : Option Bytes
  /-- ghost: between rlock and runlock / between lock and unlock / between index read and slot read -/
  holdsR : Bool
  holdsW : Bool
  mid : Bool
  deriving DecidableEq, Repr

/-- The registration a writer thread performs. -/
def Thread.op (t : Thread) : Op := ⟨t.id, t.key, t.tree⟩

/-- One update of `db.set` on (local `idx`, registry). -/
def WrOp.exec (id : Int) (key : Bytes) (tree : Tree) : WrOp → Option Nat × Db → Option Nat × Db
  | .find, (_, db) => (db.slotIdx id key, db)
  | .dropHash, (idx, db) =>
    (idx, { db with idxHash :=
      match idx with
      | some i =>
        match db.tpl[i]? with
        | some old =>
          if alookup old.tree.hsum db.idxHash = some i then aerase old.tree.hsum db.idxHash else db.idxHash
        | none => db.idxHash
      | none => db.idxHash })
  | .slot, (idx, db) =>
    (some (idx.getD db.tpl.length), { db with tpl :=
      match idx with
      | some i => db.tpl.set i ⟨id, key, tree⟩
      | none => db.tpl ++ [⟨id, key, tree⟩] })
  | .idxID, (idx, db) => (idx, { db with idxID := if 0 ≤ id then aset id (idx.getD 0) db.idxID else db.idxID })
  | .idxKey, (idx, db) => (idx, { db with idxKey := if key ≠ noKey then aset key (idx.getD 0) db.idxKey else db.idxKey })
  | .hash, (idx, db) =>
    (idx, { db with idxHash :=
      if (alookup tree.hsum db.idxHash).isNone then aset tree.hsum (idx.getD 0) db.idxHash else db.idxHash })

/-- The body of `db.set` between `Lock` and `Unlock`. -/
def writerBody : List Instr := [.wr .find, .wr .dropHash, .wr .slot, .wr .idxID, .wr .idxKey, .wr .hash]

/-! ## Programs, parametrised by the lock discipline -/

/-- Is the registry method of that name protected by the mutex (computed from the generated facts)? -/
abbrev Guards := String → Bool

/-- One lookup. -/
def lookupProg (g : Guards) (q : Query) : List Instr :=
  if g q.method then [.rlock, .rdIdx q, .rdSlot, .runlock] else [.rdIdx q, .rdSlot]

/-- `db.set`. -/
def setProg (g : Guards) : List Instr :=
  if g "set" then .lock :: writerBody ++ [.unlock] else writerBody

inductive ThreadSpec where
  /-- a render: the template's own lookup first, then one lookup per include node met, then the output -/
  | reader (qs : List Query) (ctx : Nat)
  /-- a registration -/
  | writer (id : Int) (key : Bytes) (tree : Tree)
  deriving DecidableEq, Repr

def ThreadSpec.prog (g : Guards) : ThreadSpec → List Instr
  | .reader qs _ => qs.flatMap (lookupProg g) ++ [.render]
  | .writer .. => setProg g

def ThreadSpec.thread (g : Guards) (sp : ThreadSpec) : Thread :=
  match sp with
  | .reader _ ctx =>
    { prog := sp.prog g, id := -1, key := noKey, tree := ⟨0, 0⟩, ctx := ctx, idx := none, cur := .key [],
      found := [], out := none, holdsR := false, holdsW := false, mid := false }
  | .writer id key tree =>
    { prog := sp.prog g, id := id, key := key, tree := tree, ctx := 0, idx := none, cur := .key [],
      found := [], out := none, holdsR := false, holdsW := false, mid := false }

/-! ## The system -/

structure Sys where
  db : Db
  rw : RW
  threads : List Thread
  /-- ghost: the registry at the start -/
  base : Db
  /-- ghost: the registrations whose `Unlock` has happened, in that order -/
  commits : List Op
  /-- ghost: the registry at the moment of the last `Unlock` (at the start: `base`) -/
  committed : Db
  deriving DecidableEq, Repr

def Sys.init (g : Guards) (db0 : Db) (specs : List ThreadSpec) : Sys :=
  { db := db0, rw := ⟨0, none⟩, threads := specs.map (·.thread g), base := db0, commits := [], committed := db0 }

/-- The registry after the registrations `ops` (oldest first), starting from `db0`. -/
def applyOps (db0 : Db) (ops : List Op) : Db := ops.foldl (fun db o => db.set o.id o.key o.tree) db0

/-- What a render computes: a function of the trees found (one per lookup, `none` = not found) and the context. -/
abbrev RenderFn := List (Option Tree) → Nat → Bytes

/-- Execute instruction `ins` of thread `i` (state `t`, program counter already advanced by the caller).
    `none`: the instruction cannot execute now — blocked (`rlock` while write-locked; `lock` while locked) or a
    run-time error of the mutex (`RUnlock` / `Unlock` of an unlocked mutex). -/
def exec (render : RenderFn) (i : Nat) (t : Thread) (s : Sys) : Instr → Option (Thread × Sys)
  | .rlock =>
    if s.rw.writer.isSome then none
    else some ({ t with holdsR := true }, { s with rw := { s.rw with readers := s.rw.readers + 1 } })
  | .runlock =>
    if s.rw.readers = 0 then none
    else some ({ t with holdsR := false }, { s with rw := { s.rw with readers := s.rw.readers - 1 } })
  | .lock =>
    if s.rw.writer.isSome ∨ s.rw.readers ≠ 0 then none
    else some ({ t with holdsW := true }, { s with rw := { s.rw with writer := some i } })
  | .unlock =>
    if s.rw.writer.isNone then none
    else some ({ t with holdsW := false },
               { s with rw := { s.rw with writer := none }, commits := s.commits ++ [t.op], committed := s.db })
  | .rdIdx q => some ({ t with idx := q.index s.db, cur := q, mid := true }, s)
  | .rdSlot =>
    some ({ t with found := t.found ++ [⟨t.cur, readSlot s.db t.idx, s.commits.length⟩], mid := false }, s)
  | .wr o =>
    let r := o.exec t.id t.key t.tree (t.idx, s.db)
    some ({ t with idx := r.1 }, { s with db := r.2 })
  | .render => some ({ t with out := some (render (t.found.map (fun f => f.res.map (·.tree))) t.ctx) }, s)

/-- One step of thread `i`. `none`: no such thread, thread finished, or its next instruction cannot execute. -/
def step (render : RenderFn) (s : Sys) (i : Nat) : Option Sys :=
  match s.threads[i]? with
  | none => none
  | some t =>
    match t.prog with
    | [] => none
    | ins :: rest =>
      match exec render i t s ins with
      | none => none
      | some (t', s') => some { s' with threads := s'.threads.set i { t' with prog := rest } }

/-- Run a schedule (a list of thread ids); `none` as soon as a scheduled thread cannot step. -/
def runSched (render : RenderFn) (s : Sys) : List Nat → Option Sys
  | [] => some s
  | i :: rest =>
    match step render s i with
    | some s' => runSched render s' rest
    | none => none

/-- Reachability: reflexive-transitive closure of `step` over all thread choices. -/
inductive Reachable (render : RenderFn) (s0 : Sys) : Sys → Prop where
  | refl : Reachable render s0 s0
  | step {s s' : Sys} {i : Nat} : Reachable render s0 s → step render s i = some s' → Reachable render s0 s'

theorem Reachable.trans {render : RenderFn} {a b c : Sys} (h1 : Reachable render a b) (h2 : Reachable render b c) :
    Reachable render a c := by
  induction h2 with
  | refl => exact h1
  | step _ hs ih => exact .step ih hs

theorem runSched_reachable {render : RenderFn} : ∀ (sched : List Nat) {s s' : Sys},
    runSched render s sched = some s' → Reachable render s s'
  | [], s, s', h => by simp [runSched] at h; subst h; exact .refl
  | i :: rest, s, s', h => by
    simp only [runSched] at h
    split at h
    · rename_i s1 hs1
      exact Reachable.trans (.step .refl hs1) (runSched_reachable rest h)
    · cases h

end DyntplV.Conc
