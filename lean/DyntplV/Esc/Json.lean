import DyntplV.Basic
/-! Model of `mod_json.go` (`jsonEscape`, `modJSONEscape`, `modJSONQuote`) and a general
    RFC 8259 string-body decoder. -/
namespace DyntplV.Json
open DyntplV

/-- Bytes that `jsonEscape` writes as `\u00XX`: `<`, `'`, and every control byte below 0x20
    that has no short escape. -/
def isU00 (c : UInt8) : Bool := c == 60 || c == 39 || c < 32

/-- One byte of `jsonEscape` (mod_json.go:78-130). -/
def encByte (c : UInt8) : Bytes :=
  if c == 34 then [92, 34]            -- \"
  else if c == 92 then [92, 92]       -- \\
  else if c == 10 then [92, 110]      -- \n
  else if c == 13 then [92, 114]      -- \r
  else if c == 9 then [92, 116]       -- \t
  else if isU00 c then [92, 117, 48, 48, hexLo (c >>> 4), hexLo (c &&& 15)]
  else [c]

def escape (b : Bytes) : Bytes := b.flatMap encByte

def escapeN : Nat → Bytes → Bytes
  | 0, b => b
  | n+1, b => escapeN n (escape b)

/-- `modJSONQuote`: quote + escape + quote. -/
def quote (b : Bytes) : Bytes := 34 :: escape b ++ [34]

def hex4 (a b c d : UInt8) : Option Nat :=
  match unhex a, unhex b, unhex c, unhex d with
  | some a, some b, some c, some d => some (a.toNat * 4096 + b.toNat * 256 + c.toNat * 16 + d.toNat)
  | _, _, _, _ => none

/-- Simple (one-letter) escapes of RFC 8259. -/
def simpleEsc (e : UInt8) : Option UInt8 :=
  if e == 34 then some 34 else if e == 92 then some 92 else if e == 47 then some 47
  else if e == 98 then some 8 else if e == 102 then some 12 else if e == 110 then some 10
  else if e == 114 then some 13 else if e == 116 then some 9 else none

/-- General decoder unit for the body of a JSON string literal (RFC 8259 §7):
    rejects a raw quote, raw control bytes, unknown escapes, bad hex, lone surrogates;
    `\uXXXX` (and surrogate pairs) decode to UTF-8. -/
def decUnit (b : Bytes) : Option (Bytes × Bytes) :=
  match b with
  | [] => none
  | c :: rest =>
    if c == 92 then
      match rest with
      | [] => none
      | e :: rest1 =>
        if e == 117 then
          match rest1 with
          | h1 :: h2 :: h3 :: h4 :: rest2 =>
            match hex4 h1 h2 h3 h4 with
            | none => none
            | some u =>
              if 0xD800 ≤ u ∧ u ≤ 0xDBFF then
                match rest2 with
                | b1 :: b2 :: l1 :: l2 :: l3 :: l4 :: rest3 =>
                  if b1 == 92 && b2 == 117 then
                    match hex4 l1 l2 l3 l4 with
                    | none => none
                    | some lo =>
                      if 0xDC00 ≤ lo ∧ lo ≤ 0xDFFF then
                        some (utf8Enc (0x10000 + (u - 0xD800) * 1024 + (lo - 0xDC00)), rest3)
                      else none
                  else none
                | _ => none
              else if 0xDC00 ≤ u ∧ u ≤ 0xDFFF then none
              else some (utf8Enc u, rest2)
          | _ => none
        else
          match simpleEsc e with
          | some d => some ([d], rest1)
          | none => none
    else if c == 34 || c < 32 then none
    else some ([c], rest)

def unescape (b : Bytes) : Option Bytes := decLoop decUnit b.length b

/-- Output-alphabet automaton: no byte < 0x20, no raw `"`, every `\` starts a valid escape.
    States: 0 normal, 1 after `\`, 2..5 = hex digits still expected (5 = four left). -/
def alStep (st : Option Nat) (c : UInt8) : Option Nat :=
  match st with
  | none => none
  | some 0 => if c == 92 then some 1 else if c == 34 || c < 32 then none else some 0
  | some 1 => if c == 117 then some 5 else if (simpleEsc c).isSome then some 0 else none
  | some (n+2) => if isHex c then (if n == 0 then some 0 else some (n+1)) else none

def alphabetOK (b : Bytes) : Bool := b.foldl alStep (some 0) == some 0

end DyntplV.Json
