import DyntplV.Basic
/-! Model of `mod_uri.go`: `modURLEncode`, `modLinkEscape`, and a general query-string decoder. -/
namespace DyntplV.Url
open DyntplV

/-- mod_uri.go:62-63: the bytes copied through unchanged. -/
def isUnres (c : UInt8) : Bool :=
  (97 ≤ c && c ≤ 122) || (65 ≤ c && c ≤ 90) || (48 ≤ c && c ≤ 57) || c == 45 || c == 46 || c == 95

/-- One byte of `modURLEncode`'s inner loop. -/
def encByte (c : UInt8) : Bytes :=
  if isUnres c then [c]
  else if c == 32 then [43]
  else [37, hexUp (c >>> 4), hexUp (c &&& 15)]

/-- One pass of URL encoding. -/
def encode (b : Bytes) : Bytes := b.flatMap encByte

/-- `itr` passes (cases `u=`, `uu=`, …). -/
def encodeN : Nat → Bytes → Bytes
  | 0, b => b
  | n+1, b => encodeN n (encode b)

/-- General query-string decoder unit (`net/url.QueryUnescape` semantics):
    `%XX` (either hex case) → byte, `+` → space, `%` not followed by two hex digits → reject. -/
def decUnit (b : Bytes) : Option (Bytes × Bytes) :=
  match b with
  | [] => none
  | c :: rest =>
    if c == 37 then
      match rest with
      | a :: b :: rest' =>
        match unhex a, unhex b with
        | some h, some l => some ([h * 16 + l], rest')
        | _, _ => none
      | _ => none
    else if c == 43 then some ([32], rest)
    else some ([c], rest)

def queryUnescape (b : Bytes) : Option Bytes := decLoop decUnit b.length b

/-- Output alphabet of the property: letters, digits, `- . _ +`, and `%XX` with upper-case hex. -/
def isUpHex (c : UInt8) : Bool := (48 ≤ c && c ≤ 57) || (65 ≤ c && c ≤ 70)

/-- Recogniser of the output language as a three-state automaton:
    0 = between tokens, 1 = after `%`, 2 = after `%H`. -/
def wfStep (st : Option Nat) (c : UInt8) : Option Nat :=
  match st with
  | none => none
  | some 0 => if c == 37 then some 1 else if isUnres c || c == 43 then some 0 else none
  | some 1 => if isUpHex c then some 2 else none
  | some _ => if isUpHex c then some 0 else none

def wellFormed (b : Bytes) : Bool := b.foldl wfStep (some 0) == some 0

/-- One byte of `modLinkEscape`. -/
def linkByte (c : UInt8) : Bytes :=
  if c == 34 then [92, 34] else if c == 32 then [43] else [c]

def linkEscape (b : Bytes) : Bytes := b.flatMap linkByte

def linkEscapeN : Nat → Bytes → Bytes
  | 0, b => b
  | n+1, b => linkEscapeN n (linkEscape b)

/-- "no space and no double quote that is not preceded by a backslash", as an automaton whose
    state is "previous byte was a backslash" (`none` = violated). -/
def linkStep (st : Option Bool) (c : UInt8) : Option Bool :=
  match st with
  | none => none
  | some prevBs =>
    if c == 32 then none
    else if c == 34 && !prevBs then none
    else some (c == 92)

def linkSafe (b : Bytes) : Bool := (b.foldl linkStep (some false)).isSome

end DyntplV.Url
