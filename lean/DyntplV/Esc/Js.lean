import DyntplV.Basic
/-! Model of `mod_js1.go` (`modJSEscape`) and `mod_css.go` (`modCSSEscape`), with small general
    decoders for the body of a JavaScript string literal and for CSS escapes. -/
namespace DyntplV.Js
open DyntplV

def isJsSafe (r : Nat) : Bool :=
  r == 44 || r == 46 || r == 95 || (97 ≤ r && r ≤ 122) || (65 ≤ r && r ≤ 90) || (48 ≤ r && r ≤ 57)

/-- `\uXXXX` with the hex text padded to four digits (the `Reduce(delta*2)` arithmetic). -/
def uEsc (u : Nat) : Bytes := [92, 117] ++ padZero 4 (hexLoRune u)

/-- One rune of `modJSEscape`. -/
def jsRune (r : Nat) : Bytes :=
  if r == 92 then [92, 92]
  else if r == 47 then [92, 47]
  else if r == 8 then [92, 98]
  else if r == 12 then [92, 102]
  else if r == 10 then [92, 110]
  else if r == 13 then [92, 114]
  else if r == 9 then [92, 116]
  else if isJsSafe r then [UInt8.ofNat r]
  else if r < 0x10000 then uEsc r
  else uEsc (0xD800 + (r - 0x10000) / 1024) ++ uEsc (0xDC00 + (r - 0x10000) % 1024)

def jsEscapeRunes (rs : List Nat) : Bytes := rs.flatMap jsRune
def jsEscape (b : Bytes) : Bytes := jsEscapeRunes (utf8DecodeGo b)

def jsEscapeN : Nat → Bytes → Bytes
  | 0, b => b
  | n+1, b => jsEscapeN n (jsEscape b)

def hex4 (a b c d : UInt8) : Option Nat :=
  match unhex a, unhex b, unhex c, unhex d with
  | some a, some b, some c, some d => some (a.toNat * 4096 + b.toNat * 256 + c.toNat * 16 + d.toNat)
  | _, _, _, _ => none

def jsSimple (e : UInt8) : Option Nat :=
  if e == 98 then some 8 else if e == 102 then some 12 else if e == 110 then some 10
  else if e == 114 then some 13 else if e == 116 then some 9 else if e == 118 then some 11
  else none

/-- Decoder unit for the body of a JS string literal, yielding UTF-16 code units.
    Rejects raw quotes, raw line terminators (LF, CR, U+2028, U+2029), legacy octal escapes,
    malformed `\u`/`\x`. -/
def decUnit (b : Bytes) : Option (List Nat × Bytes) :=
  match b with
  | [] => none
  | c :: rest =>
    if c == 92 then
      match rest with
      | [] => none
      | e :: rest1 =>
        if e == 117 then
          match rest1 with
          | h1 :: h2 :: h3 :: h4 :: rest2 =>
            match hex4 h1 h2 h3 h4 with
            | some u => some ([u], rest2)
            | none => none
          | _ => none
        else if e == 120 then
          match rest1 with
          | h1 :: h2 :: rest2 =>
            match unhex h1, unhex h2 with
            | some a, some b => some ([a.toNat * 16 + b.toNat], rest2)
            | _, _ => none
          | _ => none
        else if isDigit e then
          (if e == 48 then
            match rest1 with
            | d :: _ => if isDigit d then none else some ([0], rest1)
            | [] => some ([0], rest1)
           else none)
        else if e == 10 || e == 13 then some ([], rest1)      -- line continuation
        else match jsSimple e with
          | some v => some ([v], rest1)
          | none =>
            if e < 0x80 then some ([e.toNat], rest1)            -- identity escape
            else match utf8DecUnit rest with
              | some (r, rest') => some (utf16Enc r, rest')
              | none => none
    else if c == 34 || c == 39 || c == 10 || c == 13 then none
    else
      match utf8DecUnit b with
      | some (r, rest') => if r == 0x2028 || r == 0x2029 then none else some (utf16Enc r, rest')
      | none => none

def jsDecode (b : Bytes) : Option (List Nat) := decLoop decUnit b.length b

/-- Alphabet automaton: letters, digits, `, . _`, and the backslash escapes the escaper may write
    (`\\ \/ \b \f \n \r \t \uXXXX`). -/
def alStep (st : Option Nat) (c : UInt8) : Option Nat :=
  match st with
  | none => none
  | some 0 => if c == 92 then some 1 else if isJsSafe c.toNat then some 0 else none
  | some 1 => if c == 117 then some 5
              else if c == 92 || c == 47 || c == 98 || c == 102 || c == 110 || c == 114 || c == 116 then some 0
              else none
  | some (n+2) => if isHex c then (if n == 0 then some 0 else some (n+1)) else none

def alphabetOK (b : Bytes) : Bool := b.foldl alStep (some 0) == some 0

/-! ### CSS -/

def isCssSafe (r : Nat) : Bool := (97 ≤ r && r ≤ 122) || (65 ≤ r && r ≤ 90) || (48 ≤ r && r ≤ 57)

/-- One rune of `modCSSEscape`. -/
def cssRune (r : Nat) : Bytes :=
  if r == 13 then [92, 68, 32]
  else if r == 10 then [92, 65, 32]
  else if r == 9 then [92, 57, 32]
  else if r == 0 then [92, 48, 32]
  else if r == 32 then [92, 50, 48, 32]
  else if isCssSafe r then [UInt8.ofNat r]
  else [92] ++ hexLoRune r ++ [32]

def cssEscapeRunes (rs : List Nat) : Bytes := rs.flatMap cssRune
def cssEscape (b : Bytes) : Bytes := cssEscapeRunes (utf8DecodeGo b)

def cssEscapeN : Nat → Bytes → Bytes
  | 0, b => b
  | n+1, b => cssEscapeN n (cssEscape b)

/-- Up to `n` leading hex digits. -/
def spanHex : Nat → Bytes → Bytes × Bytes
  | 0, b => ([], b)
  | _+1, [] => ([], [])
  | n+1, c :: rest => if isHex c then (c :: (spanHex n rest).1, (spanHex n rest).2) else ([], c :: rest)

def cssCp (n : Nat) : Nat := if n == 0 || (0xD800 ≤ n && n ≤ 0xDFFF) || n > 0x10FFFF then 0xFFFD else n

/-- CSS Syntax §4.3.7 "consume an escaped code point": 1–6 hex digits and one optional whitespace;
    otherwise the next code point itself; a backslash before a newline is not a valid escape. -/
def cssDecUnit (b : Bytes) : Option (List Nat × Bytes) :=
  match b with
  | [] => none
  | c :: rest =>
    if c == 92 then
      match rest with
      | [] => some ([0xFFFD], [])
      | e :: _ =>
        if isHex e then
          let (ds, r) := spanHex 6 rest
          match r with
          | w :: r' => if w == 32 || w == 9 || w == 10 || w == 12 then some ([cssCp (hexVal ds)], r')
                       else some ([cssCp (hexVal ds)], r)
          | [] => some ([cssCp (hexVal ds)], [])
        else if e == 10 then none
        else match utf8DecUnit rest with
          | some (r, rest') => some ([r], rest')
          | none => none
    else
      match utf8DecUnit b with
      | some (r, rest') => some ([r], rest')
      | none => none

def cssDecode (b : Bytes) : Option (List Nat) := decLoop cssDecUnit b.length b

/-- Alphabet automaton: letters, digits, and `\` + 1–6 hex digits + space. -/
def cssAlStep (st : Option Nat) (c : UInt8) : Option Nat :=
  match st with
  | none => none
  | some 0 => if c == 92 then some 1 else if isCssSafe c.toNat then some 0 else none
  | some 1 => if isHex c then some 2 else none
  | some (n+2) => if c == 32 then some 0 else if isHex c && n < 5 then some (n+3) else none

def cssAlphabetOK (b : Bytes) : Bool := b.foldl cssAlStep (some 0) == some 0

end DyntplV.Js
