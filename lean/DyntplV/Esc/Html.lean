import DyntplV.Basic
/-! Model of `mod_html.go` (`modHTMLEscape`) and `mod_attr.go` (`modAttrEscape`), and a general
    HTML character-reference decoder. -/
namespace DyntplV.Html
open DyntplV

/-- One byte of the five-character replacement loop (mod_html.go:35-56). -/
def encByte (c : UInt8) : Bytes :=
  if c == 60 then [38, 108, 116, 59]                -- &lt;
  else if c == 62 then [38, 103, 116, 59]           -- &gt;
  else if c == 34 then [38, 113, 117, 111, 116, 59] -- &quot;
  else if c == 39 then [38, 35, 51, 57, 59]         -- &#39;
  else if c == 38 then [38, 97, 109, 112, 59]       -- &amp;
  else [c]

def escape (b : Bytes) : Bytes := b.flatMap encByte

def escapeN : Nat → Bytes → Bytes
  | 0, b => b
  | n+1, b => escapeN n (escape b)

/-- Code point of a numeric reference as a decoder maps it: 0, surrogates and out-of-range → U+FFFD. -/
def refCp (n : Nat) : Nat := if n == 0 || (0xD800 ≤ n && n ≤ 0xDFFF) || n > 0x10FFFF then 0xFFFD else n

/-- General decoder unit: named references `lt gt amp quot apos`, decimal `&#N;` and hex `&#xH;`
    references; an `&` that starts none of these is literal. Output is UTF-8. -/
def decUnit (b : Bytes) : Option (Bytes × Bytes) :=
  match b with
  | [] => none
  | c :: rest =>
    if c != 38 then some ([c], rest) else
    match stripPrefix [108, 116, 59] rest with
    | some r => some ([60], r)
    | none =>
    match stripPrefix [103, 116, 59] rest with
    | some r => some ([62], r)
    | none =>
    match stripPrefix [97, 109, 112, 59] rest with
    | some r => some ([38], r)
    | none =>
    match stripPrefix [113, 117, 111, 116, 59] rest with
    | some r => some ([34], r)
    | none =>
    match stripPrefix [97, 112, 111, 115, 59] rest with
    | some r => some ([39], r)
    | none =>
    match rest with
    | h :: x :: rest2 =>
      if h == 35 && (x == 120 || x == 88) then
        let (ds, r) := spanP isHex rest2
        match r with
        | s :: r' => if s == 59 && !ds.isEmpty && ds.length ≤ 8 then some (utf8Enc (refCp (hexVal ds)), r') else some ([38], rest)
        | [] => some ([38], rest)
      else if h == 35 then
        let (ds, r) := spanP isDigit (x :: rest2)
        match r with
        | s :: r' => if s == 59 && !ds.isEmpty && ds.length ≤ 9 then some (utf8Enc (refCp (decVal ds)), r') else some ([38], rest)
        | [] => some ([38], rest)
      else some ([38], rest)
    | _ => some ([38], rest)

def unescape (b : Bytes) : Option Bytes := decLoop decUnit b.length b

/-- Alphabet automaton for HTML-escape output: none of `< > " '`, and every `&` starts one of
    `&lt; &gt; &quot; &#39; &amp;` (trie states). -/
def alStep (st : Option Nat) (c : UInt8) : Option Nat :=
  match st with
  | none => none
  | some 0 => if c == 38 then some 1 else if c == 60 || c == 62 || c == 34 || c == 39 then none else some 0
  | some 1 => if c == 108 then some 10 else if c == 103 then some 20 else if c == 113 then some 30
              else if c == 35 then some 40 else if c == 97 then some 50 else none
  | some 10 => if c == 116 then some 99 else none      -- &l t
  | some 20 => if c == 116 then some 99 else none      -- &g t
  | some 30 => if c == 117 then some 31 else none      -- &q u
  | some 31 => if c == 111 then some 32 else none      -- &qu o
  | some 32 => if c == 116 then some 99 else none      -- &quo t
  | some 40 => if c == 51 then some 41 else none       -- &# 3
  | some 41 => if c == 57 then some 99 else none       -- &#3 9
  | some 50 => if c == 109 then some 51 else none      -- &a m
  | some 51 => if c == 112 then some 99 else none      -- &am p
  | some 99 => if c == 59 then some 0 else none        -- ;
  | some _ => none

def alphabetOK (b : Bytes) : Bool := b.foldl alStep (some 0) == some 0

/-! ### Attribute escape (rune level) -/

def isAttrSafe (r : Nat) : Bool :=
  r == 44 || r == 46 || r == 45 || r == 95 || (97 ≤ r && r ≤ 122) || (65 ≤ r && r ≤ 90) || (48 ≤ r && r ≤ 57)

/-- Controls that `modAttrEscape` replaces by U+FFFD (mod_attr.go:31). -/
def isAttrCtl (r : Nat) : Bool := (r < 0x1f && r != 9 && r != 10 && r != 13) || (0x7f ≤ r && r ≤ 0x9f)

/-- One rune of `modAttrEscape`. The `Reduce` arithmetic pads the hex text to 2 digits for
    one-byte runes and to 4 digits otherwise. -/
def attrRune (r : Nat) : Bytes :=
  if r == 38 then [38, 97, 109, 112, 59]
  else if r == 60 then [38, 108, 116, 59]
  else if r == 62 then [38, 103, 116, 59]
  else if r == 34 then [38, 113, 117, 111, 116, 59]
  else if isAttrSafe r then [UInt8.ofNat r]
  else if isAttrCtl r then [38, 35, 120, 70, 70, 70, 68, 59]   -- &#xFFFD;
  else if r < 0x80 then [38, 35, 120] ++ padZero 2 (hexLoRune r) ++ [59]
  else [38, 35, 120] ++ padZero 4 (hexLoRune r) ++ [59]

def attrEscapeRunes (rs : List Nat) : Bytes := rs.flatMap attrRune
def attrEscape (b : Bytes) : Bytes := attrEscapeRunes (utf8DecodeGo b)

def attrEscapeN : Nat → Bytes → Bytes
  | 0, b => b
  | n+1, b => attrEscapeN n (attrEscape b)

/-- Alphabet automaton for attribute-escape output: ASCII letters, digits, `, . - _` and character
    references (`&name;` or `&#x…;`). -/
def attrAlStep (st : Option Nat) (c : UInt8) : Option Nat :=
  match st with
  | none => none
  | some 0 => if c == 38 then some 1 else if isAttrSafe c.toNat then some 0 else none
  | some 1 => if c == 35 then some 2 else if isLower c then some 5 else none      -- after &
  | some 2 => if c == 120 then some 3 else none                                     -- &#
  | some 3 => if isHex c then some 4 else none                                      -- &#x, need ≥1 digit
  | some 4 => if isHex c then some 4 else if c == 59 then some 0 else none
  | some 5 => if isLower c then some 5 else if c == 59 then some 0 else none        -- &name
  | some _ => none

def attrAlphabetOK (b : Bytes) : Bool := b.foldl attrAlStep (some 0) == some 0

end DyntplV.Html
