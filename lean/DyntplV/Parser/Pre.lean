import DyntplV.Basic
/-!
# Template pre-processing (parser.go `cutComments`, `cutFmt`)

* `cutComments`: `regexp.MustCompile("{#[^#]*#}").ReplaceAll(tpl, nil)` — leftmost, non-overlapping.
  At a position holding `{#` the regexp can only match when the FIRST `#` after the opener is
  followed by `}` (`[^#]*` cannot step over a `#`), so no backtracking is involved.  On bytes the
  negated class also matches the bytes of invalid UTF-8 (RE2 reads them as U+FFFD, width 1), so the
  byte-level reading is exact.
* `cutFmt` (only when `!keepFmt`): `\n+\t*\s*` replaced by nothing, then `bytealg.Trim(tpl, " \t\n")`.
  RE2's `\s` is `[\t\n\f\r ]`, which contains `\n` and `\t`: a match is a `\n` followed by the
  maximal run of `\s` bytes.

All functions are total, computable and structurally recursive (`cutComments` on an explicit fuel
that `cutComments` instantiates with the length).
-/
namespace DyntplV.Pre
open DyntplV

/-- The rest after the closing `#}` of a comment whose opener `{#` has just been consumed; `none` if
    the first `#` is not followed by `}` or there is no `#`. -/
def commentEnd : Bytes → Option Bytes
  | [] => none
  | 35 :: 125 :: rest => some rest
  | 35 :: _ => none
  | _ :: rest => commentEnd rest

/-- After a `{`: the rest behind a complete comment `#…#}` that starts here. -/
def afterBrace : Bytes → Option Bytes
  | 35 :: r => commentEnd r
  | _ => none

/-- A comment starts at `c :: rest`: what follows it. -/
def commentAt (c : UInt8) (rest : Bytes) : Option Bytes := if c == 123 then afterBrace rest else none

def cutCommentsAux : Nat → Bytes → Bytes
  | 0, b => b
  | _ + 1, [] => []
  | fuel + 1, c :: rest =>
    match commentAt c rest with
    | some r => cutCommentsAux fuel r
    | none => c :: cutCommentsAux fuel rest

/-- parser.go `cutComments`. -/
def cutComments (b : Bytes) : Bytes := cutCommentsAux b.length b

/-- RE2 `\s`. -/
def isWs (c : UInt8) : Bool := c == 9 || c == 10 || c == 12 || c == 13 || c == 32

/-- `reCutFmt.ReplaceAll(tpl, nil)`; `skip` = we are inside a match (a `\n` has been seen and only
    `\s` bytes since). -/
def cutNlAux : Bool → Bytes → Bytes
  | _, [] => []
  | skip, c :: rest =>
    if c == 10 then cutNlAux true rest
    else if skip && isWs c then cutNlAux true rest
    else c :: cutNlAux false rest

def cutNl (b : Bytes) : Bytes := cutNlAux false b

/-- the cut set of `bytealg.Trim(tpl, noFmt)`: space, tab, line feed. -/
def isFmt (c : UInt8) : Bool := c == 32 || c == 9 || c == 10

def trimL (b : Bytes) : Bytes := b.dropWhile isFmt
def trimR (b : Bytes) : Bytes := (b.reverse.dropWhile isFmt).reverse
def trim (b : Bytes) : Bytes := trimR (trimL b)

/-- parser.go `cutFmt` with `keepFmt = false`. -/
def cutFmt (b : Bytes) : Bytes := trim (cutNl b)

/-- What `Parse` hands to `parseTpl`: `cutComments` then `cutFmt`. -/
def pre (keepFmt : Bool) (b : Bytes) : Bytes :=
  if keepFmt then cutComments b else cutFmt (cutComments b)

/-- `{#` occurs in `b`. -/
def hasOpen : Bytes → Bool
  | [] => false
  | c :: rest => (c == 123 && rest.head? == some 35) || hasOpen rest

end DyntplV.Pre
