/-!
# Control skeleton of `parseTpl` / `processCtl` (parser.go:231-281, 284-744; parser_target.go)

The template text is abstracted to the list of its `{% … %}` tags, each classified by what
`processCtl` does with it *as far as nesting is concerned*:

* `openIf`      – `{% if … %}` in any of its accepted shapes (reCondOK, reCond simple, reCond + helper):
                  `t := p.targetSnapshot(); p.cc++; parseTpl(…, t)`
* `openFor`     – `{% for … %}` (range or counter loop): snapshot, `p.cl++`, dive
* `openSwitch`  – `{% switch … %}`: snapshot, `p.cs++`, dive
* `closeIf/closeFor/closeSwitch` – `endif` / `endfor` / `endswitch`: decrement, `up = true`
* `leaf`        – every tag that returns `(nodes, pos+len(ctl), false, nil)`: print, ctx, counter, else,
                  case, default, break…, continue, exit, include, endl, jsonquote, …
* `bad`         – a tag for which `processCtl` returns a non-nil error of its own
                  (unknown control structure / too complex condition / unparsable loop / Atoi failure)
* `unterminated`– a `{%` for which `bytealg.IndexAt(p.tpl, ctlClose, i)` is negative (no `%}` follows).
                  In a real template nothing tag-like can follow it; the model stops there as the code does.

Raw text between tags has no influence on the control flow and is not represented.

The model keeps the *mechanism*: the three parser counters (as `Int`: a surplus closer at root level
really makes one of them −1), the target snapshot, `reached`, `eqZero`, the loop condition
`!t.reached(p) || t.eqZero()`, `up`, the final override `if !t.reached(p) { err = ErrUnbalancedCtl }`
(which *replaces* any error from deeper levels or from a bad tag), and the recursion structure
parseTpl → processCtl → parseTpl.  Fuel makes the recursion structural; `parse` supplies
`length + 1`, which `DyntplV.C12.parse_terminates` proves sufficient.
-/
namespace DyntplV.Nest

inductive Tok
  | openIf | openFor | openSwitch
  | closeIf | closeFor | closeSwitch
  | leaf | bad | unterminated
  deriving DecidableEq, Repr, Inhabited

/-- `ErrUnbalancedCtl`, `ErrUnexpectedEOF`, or an error created by `processCtl` itself. -/
inductive Err | unbalanced | eof | bad
  deriving DecidableEq, Repr

/-- `parser.target` (parser_target.go:4): open if / for / switch depth. -/
structure Ctr where
  cc : Int
  cl : Int
  cs : Int
  deriving DecidableEq, Repr

def Ctr.zero : Ctr := ⟨0, 0, 0⟩

/-- parser_target.go:9 `t.reached(p)`. -/
def reached (t p : Ctr) : Bool := t.cc == p.cc && t.cl == p.cl && t.cs == p.cs

/-- parser_target.go:16 `t.eqZero()`. -/
def eqZero (t : Ctr) : Bool := t.cc == 0 && t.cl == 0 && t.cs == 0

/-- Result of `parseTpl`: remaining tags (the returned offset `o`), the parser counters on return, `err`. -/
inductive Res
  | outOfFuel
  | done (rest : List Tok) (p : Ctr) (err : Option Err)
  deriving DecidableEq, Repr

/-- Result of `processCtl`: remaining tags (returned offset), counters, `up`, `err`. -/
inductive Step
  | outOfFuel
  | step (rest : List Tok) (p : Ctr) (up : Bool) (err : Option Err)
  deriving DecidableEq, Repr

/-- A dive: `subNodes, offset, err = p.parseTpl(subNodes, pos+len(ctl), t)` followed by
    `return nodes, offset, up /* = false */, err`. -/
def dive (rec : Ctr → Ctr → List Tok → Res) (t p : Ctr) (rest : List Tok) : Step :=
  match rec t p rest with
  | .outOfFuel => .outOfFuel
  | .done rest' p' err => .step rest' p' false err

/-- `processCtl` for one (terminated) tag. `rec` is `parseTpl` (with the remaining fuel). -/
def processCtl (rec : Ctr → Ctr → List Tok → Res) (p : Ctr) (tok : Tok) (rest : List Tok) : Step :=
  match tok with
  | .openIf      => dive rec p { p with cc := p.cc + 1 } rest      -- parser.go:446-450, 768-770, 792-796
  | .openFor     => dive rec p { p with cl := p.cl + 1 } rest      -- parser.go:518-522
  | .openSwitch  => dive rec p { p with cs := p.cs + 1 } rest      -- parser.go:609-617
  | .closeIf     => .step rest { p with cc := p.cc - 1 } true none -- parser.go:473-479
  | .closeFor    => .step rest { p with cl := p.cl - 1 } true none -- parser.go:537-543
  | .closeSwitch => .step rest { p with cs := p.cs - 1 } true none -- parser.go:648-654
  | .leaf        => .step rest p false none
  | .bad         => .step rest p false (some .bad)                 -- parser.go:514, 743, 785, 399, 419
  | .unterminated => .step rest p false (some .eof)                -- not reached: intercepted by `parseTpl`

/-- parser.go:277-280: `if !t.reached(p) { err = ErrUnbalancedCtl }; return nodes, o, err`. -/
def finish (t p : Ctr) (rest : List Tok) (err : Option Err) : Res :=
  .done rest p (if reached t p then err else some .unbalanced)

/-- `parseTpl(nodes, offset, t)` (parser.go:232-281), one loop iteration per unit of fuel. -/
def parseTpl : Nat → Ctr → Ctr → List Tok → Res
  | 0, _, _, _ => .outOfFuel
  | fuel + 1, t, p, ts =>
    if !reached t p || eqZero t then                       -- `for !t.reached(p) || t.eqZero() {`
      match ts with
      | [] => finish t p [] none                            -- no further `{%`: addRaw, break
      | tok :: rest =>
        if tok = .unterminated then
          finish t p ts (some .eof)                         -- `e < 0`: err = ErrUnexpectedEOF, break
        else
          match processCtl (parseTpl fuel) p tok rest with
          | .outOfFuel => .outOfFuel
          | .step rest' p' up err =>
            if err.isSome then finish t p' rest' err        -- `if err != nil { break }`
            else if up then finish t p' rest' none          -- `if up { break }`
            else parseTpl fuel t p' rest'
    else finish t p ts none

/-- `Parse` (parser.go:198-199): root target = snapshot of the fresh parser = all zero. -/
def parse (ts : List Tok) : Res := parseTpl (ts.length + 1) Ctr.zero Ctr.zero ts

/-- `Parse` returned `err == nil`. -/
def accepts (ts : List Tok) : Bool :=
  match parse ts with
  | .done _ _ none => true
  | _ => false

/-- The error `Parse` returns (`none` = accepted; out of fuel is reported as `none` too, it is
    impossible by `parse_terminates`). -/
def parseErr (ts : List Tok) : Option Err :=
  match parse ts with
  | .done _ _ e => e
  | .outOfFuel => none

/-! Letters of the harness protocol. -/
def Tok.ofChar : Char → Option Tok
  | 'i' => some .openIf | 'f' => some .openFor | 's' => some .openSwitch
  | 'I' => some .closeIf | 'F' => some .closeFor | 'S' => some .closeSwitch
  | 'l' => some .leaf | 'b' => some .bad | 'u' => some .unterminated
  | _ => none

def skeleton (s : String) : Option (List Tok) := s.toList.mapM Tok.ofChar

/-- `sk "ifFI"` for examples (ill-formed letters are dropped). -/
def sk (s : String) : List Tok := s.toList.filterMap Tok.ofChar

end DyntplV.Nest
