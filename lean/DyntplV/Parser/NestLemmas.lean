import DyntplV.Parser.Nest
/-!
Technical lemmas about the `Nest` model: block kinds, counter arithmetic, one-step unfolding of
`parseTpl` per token class, fuel monotonicity, termination.  No property statements here
(those are in `DyntplV/Props/C12.lean`).
-/
namespace DyntplV.Nest

/-- The three block kinds (if / for / switch). -/
inductive Kind | cond | loop | switch
  deriving DecidableEq, Repr

def Tok.opn : Kind → Tok
  | .cond => .openIf | .loop => .openFor | .switch => .openSwitch

def Tok.cls : Kind → Tok
  | .cond => .closeIf | .loop => .closeFor | .switch => .closeSwitch

def Ctr.inc (p : Ctr) : Kind → Ctr
  | .cond => { p with cc := p.cc + 1 }
  | .loop => { p with cl := p.cl + 1 }
  | .switch => { p with cs := p.cs + 1 }

def Ctr.dec (p : Ctr) : Kind → Ctr
  | .cond => { p with cc := p.cc - 1 }
  | .loop => { p with cl := p.cl - 1 }
  | .switch => { p with cs := p.cs - 1 }

theorem tok_cases (tok : Tok) :
    (∃ k, tok = Tok.opn k) ∨ (∃ k, tok = Tok.cls k) ∨ tok = .leaf ∨ tok = .bad ∨ tok = .unterminated := by
  cases tok
  · exact .inl ⟨.cond, rfl⟩
  · exact .inl ⟨.loop, rfl⟩
  · exact .inl ⟨.switch, rfl⟩
  · exact .inr (.inl ⟨.cond, rfl⟩)
  · exact .inr (.inl ⟨.loop, rfl⟩)
  · exact .inr (.inl ⟨.switch, rfl⟩)
  · exact .inr (.inr (.inl rfl))
  · exact .inr (.inr (.inr (.inl rfl)))
  · exact .inr (.inr (.inr (.inr rfl)))

theorem opn_ne_unterminated (k : Kind) : Tok.opn k ≠ .unterminated := by cases k <;> decide
theorem cls_ne_unterminated (k : Kind) : Tok.cls k ≠ .unterminated := by cases k <;> decide

/-! ### Counters -/

theorem Ctr.ext' {a b : Ctr} (h1 : a.cc = b.cc) (h2 : a.cl = b.cl) (h3 : a.cs = b.cs) : a = b := by
  cases a; cases b; simp_all

theorem reached_iff (t p : Ctr) : reached t p = true ↔ t = p := by
  constructor
  · intro h
    simp only [reached, Bool.and_eq_true, beq_iff_eq] at h
    exact Ctr.ext' h.1.1 h.1.2 h.2
  · intro h; subst h; simp [reached]

theorem reached_self (t : Ctr) : reached t t = true := (reached_iff t t).2 rfl

theorem inc_dec (p : Ctr) (k : Kind) : (p.inc k).dec k = p := by
  cases k <;> (apply Ctr.ext' <;> simp [Ctr.inc, Ctr.dec] <;> omega)

theorem inc_ne (p : Ctr) (k : Kind) : p ≠ p.inc k := by
  intro h
  cases k
  · have := congrArg Ctr.cc h; simp only [Ctr.inc] at this; omega
  · have := congrArg Ctr.cl h; simp only [Ctr.inc] at this; omega
  · have := congrArg Ctr.cs h; simp only [Ctr.inc] at this; omega

theorem reached_inc (p : Ctr) (k : Kind) : reached p (p.inc k) = false := by
  cases h : reached p (p.inc k)
  · rfl
  · exact absurd ((reached_iff _ _).1 h) (inc_ne p k)

theorem inc_dec_eq (p : Ctr) (k k' : Kind) (h : (p.inc k).dec k' = p) : k' = k := by
  have h1 := congrArg Ctr.cc h
  have h2 := congrArg Ctr.cl h
  have h3 := congrArg Ctr.cs h
  cases k <;> cases k' <;> simp [Ctr.inc, Ctr.dec] at h1 h2 h3 <;> first | rfl | omega

theorem zero_dec_ne (k : Kind) : Ctr.zero.dec k ≠ Ctr.zero := by
  cases k <;> decide

/-! ### `finish` -/

theorem finish_ok_iff (t p : Ctr) (r : List Tok) (e : Option Err) (rest : List Tok) (p' : Ctr) :
    finish t p r e = .done rest p' none ↔ rest = r ∧ p' = p ∧ t = p ∧ e = none := by
  unfold finish
  by_cases h : reached t p = true
  · have ht := (reached_iff _ _).1 h
    simp only [h, if_true, Res.done.injEq]
    constructor
    · rintro ⟨a, b, c⟩; exact ⟨a.symm, b.symm, ht, c⟩
    · rintro ⟨a, b, _, d⟩; exact ⟨a.symm, b.symm, d⟩
  · have ht : t ≠ p := fun e => h ((reached_iff _ _).2 e)
    simp only [h, Res.done.injEq]
    constructor
    · rintro ⟨_, _, c⟩; cases c
    · rintro ⟨_, _, c, _⟩; exact absurd c ht

theorem finish_done (t p : Ctr) (r : List Tok) (e : Option Err) :
    ∃ e', finish t p r e = .done r p e' := ⟨_, rfl⟩

/-! ### One loop iteration of `parseTpl`, per token class -/

section step
variable (f : Nat) (t p : Ctr)

theorem parseTpl_succ (ts : List Tok) :
    parseTpl (f + 1) t p ts =
      if !reached t p || eqZero t then
        match ts with
        | [] => finish t p [] none
        | tok :: rest =>
          if tok = .unterminated then finish t p ts (some .eof)
          else
            match processCtl (parseTpl f) p tok rest with
            | .outOfFuel => .outOfFuel
            | .step rest' p' up err =>
              if err.isSome then finish t p' rest' err
              else if up then finish t p' rest' none
              else parseTpl f t p' rest'
      else finish t p ts none := by
  rw [parseTpl.eq_def]; rfl

theorem parseTpl_stop (ts : List Tok) (hc : (!reached t p || eqZero t) = false) :
    parseTpl (f + 1) t p ts = finish t p ts none := by
  rw [parseTpl_succ]; simp [hc]

theorem parseTpl_nil (hc : (!reached t p || eqZero t) = true) :
    parseTpl (f + 1) t p [] = finish t p [] none := by
  rw [parseTpl_succ]; simp [hc]

theorem parseTpl_unterminated (rest : List Tok) (hc : (!reached t p || eqZero t) = true) :
    parseTpl (f + 1) t p (.unterminated :: rest) = finish t p (.unterminated :: rest) (some .eof) := by
  rw [parseTpl_succ]; simp [hc]

theorem parseTpl_leaf (rest : List Tok) (hc : (!reached t p || eqZero t) = true) :
    parseTpl (f + 1) t p (.leaf :: rest) = parseTpl f t p rest := by
  rw [parseTpl_succ]; simp [hc, processCtl]

theorem parseTpl_bad (rest : List Tok) (hc : (!reached t p || eqZero t) = true) :
    parseTpl (f + 1) t p (.bad :: rest) = finish t p rest (some .bad) := by
  rw [parseTpl_succ]; simp [hc, processCtl]

theorem parseTpl_cls (k : Kind) (rest : List Tok) (hc : (!reached t p || eqZero t) = true) :
    parseTpl (f + 1) t p (Tok.cls k :: rest) = finish t (p.dec k) rest none := by
  rw [parseTpl_succ]; cases k <;> simp [hc, processCtl, Tok.cls, Ctr.dec]

theorem parseTpl_opn (k : Kind) (rest : List Tok) (hc : (!reached t p || eqZero t) = true) :
    parseTpl (f + 1) t p (Tok.opn k :: rest) =
      match parseTpl f p (p.inc k) rest with
      | .outOfFuel => .outOfFuel
      | .done rest' p' err =>
        if err.isSome then finish t p' rest' err else parseTpl f t p' rest' := by
  rw [parseTpl_succ]
  cases k <;> simp only [hc, if_true, Tok.opn, processCtl, dive, Ctr.inc, reduceCtorEq, if_false] <;>
    (cases parseTpl f p _ rest <;> simp)

end step

/-! ### Fuel -/

/-- More fuel does not change a proper result. -/
theorem mono_succ (f : Nat) : ∀ (t p : Ctr) (ts rest : List Tok) (p' : Ctr) (e : Option Err),
    parseTpl f t p ts = .done rest p' e → parseTpl (f + 1) t p ts = .done rest p' e := by
  induction f with
  | zero => intro t p ts rest p' e h; simp [parseTpl] at h
  | succ f ih =>
    intro t p ts rest p' e h
    cases hc : (!reached t p || eqZero t)
    · rw [parseTpl_stop _ _ _ _ hc] at h ⊢; exact h
    · cases ts with
      | nil => rw [parseTpl_nil _ _ _ hc] at h ⊢; exact h
      | cons tok r =>
        rcases tok_cases tok with ⟨k, rfl⟩ | ⟨k, rfl⟩ | rfl | rfl | rfl
        · rw [parseTpl_opn _ _ _ _ _ hc] at h ⊢
          cases hd : parseTpl f p (p.inc k) r with
          | outOfFuel => simp [hd] at h
          | done r1 p1 e1 =>
            rw [ih _ _ _ _ _ _ hd]
            simp only [hd] at h ⊢
            by_cases he : e1.isSome = true
            · simpa [he] using h
            · simp only [he] at h ⊢
              exact ih _ _ _ _ _ _ h
        · rw [parseTpl_cls _ _ _ _ _ hc] at h ⊢; exact h
        · rw [parseTpl_leaf _ _ _ _ hc] at h ⊢; exact ih _ _ _ _ _ _ h
        · rw [parseTpl_bad _ _ _ _ hc] at h ⊢; exact h
        · rw [parseTpl_unterminated _ _ _ _ hc] at h ⊢; exact h

theorem mono_le {f f' : Nat} (hle : f ≤ f') {t p : Ctr} {ts rest : List Tok} {p' : Ctr} {e : Option Err}
    (h : parseTpl f t p ts = .done rest p' e) : parseTpl f' t p ts = .done rest p' e := by
  induction hle with
  | refl => exact h
  | step _ ih => exact mono_succ _ _ _ _ _ _ _ ih

/-- Proper results are independent of the fuel. -/
theorem deterministic {f f' : Nat} {t p : Ctr} {ts : List Tok} {r1 r2 : List Tok} {p1 p2 : Ctr}
    {e1 e2 : Option Err} (h1 : parseTpl f t p ts = .done r1 p1 e1)
    (h2 : parseTpl f' t p ts = .done r2 p2 e2) : r1 = r2 ∧ p1 = p2 ∧ e1 = e2 := by
  have a := mono_le (Nat.le_max_left f f') h1
  have b := mono_le (Nat.le_max_right f f') h2
  rw [a] at b
  simpa using b

/-- With more fuel than tags, `parseTpl` returns a proper result and does not lengthen the input. -/
theorem terminates (f : Nat) : ∀ (t p : Ctr) (ts : List Tok), ts.length < f →
    ∃ rest p' e, parseTpl f t p ts = .done rest p' e ∧ rest.length ≤ ts.length := by
  induction f with
  | zero => intro t p ts h; omega
  | succ f ih =>
    intro t p ts hlen
    cases hc : (!reached t p || eqZero t)
    · rw [parseTpl_stop _ _ _ _ hc]; exact ⟨_, _, _, rfl, Nat.le_refl _⟩
    · cases ts with
      | nil => rw [parseTpl_nil _ _ _ hc]; exact ⟨_, _, _, rfl, Nat.le_refl _⟩
      | cons tok r =>
        have hr : r.length < f := by simp at hlen; omega
        rcases tok_cases tok with ⟨k, rfl⟩ | ⟨k, rfl⟩ | rfl | rfl | rfl
        · rw [parseTpl_opn _ _ _ _ _ hc]
          obtain ⟨r1, p1, e1, hd, hl1⟩ := ih p (p.inc k) r hr
          simp only [hd]
          by_cases he : e1.isSome = true
          · simp only [he, if_true]
            exact ⟨_, _, _, rfl, by simp; omega⟩
          · simp only [he]
            obtain ⟨r2, p2, e2, hd2, hl2⟩ := ih t p1 r1 (by omega)
            exact ⟨r2, p2, e2, hd2, by simp; omega⟩
        · rw [parseTpl_cls _ _ _ _ _ hc]; exact ⟨_, _, _, rfl, by simp⟩
        · rw [parseTpl_leaf _ _ _ _ hc]
          obtain ⟨r2, p2, e2, hd2, hl2⟩ := ih t p r hr
          exact ⟨r2, p2, e2, hd2, by simp; omega⟩
        · rw [parseTpl_bad _ _ _ _ hc]; exact ⟨_, _, _, rfl, by simp⟩
        · rw [parseTpl_unterminated _ _ _ _ hc]; exact ⟨_, _, _, rfl, Nat.le_refl _⟩

end DyntplV.Nest
