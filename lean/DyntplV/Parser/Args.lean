import DyntplV.Basic
/-!
# `extractArgs` (parser.go:1059-1112) at byte level, every slice / index operation checked

Go slices and indexes panic when out of range; the model makes each such operation of
`extractArgs` itself explicit (`sliceFrom`, `slice`, `index` return `none` ⇒ outcome `panic`).
The bound used for `s[lo:hi]` is `len(s)`, which is *stricter* than Go's `cap(s)`: a model that never
panics implies a Go function that never panics.  Operations inside dependencies are total functions
here: `bytealg.Trim` (its loops are guarded by `l <= r`, `r >= l`), `bytes.IndexByte`, `bytes.Split`,
`regexp.Match` (`isStatic`, static.go:7: `^(\d+\.*\d*|true|false|nil|"[^"]*"|'[^']*')$`; on bytes the
negated classes also match invalid UTF-8, so the byte-level reading below is exact).
`arg.global` (a registry lookup) is not part of the model.

Offsets `off`, `pos` are `Nat`: `bytes.IndexByte`'s −1 is replaced by `len(raw) - off` on the spot
(parser.go:1069-1071) before it is used, and `len(raw) - off ≥ 0` because `raw[off:]` was just taken.
The index `len(a) - 1` is an `Int`: for `len(a) = 0` it really is −1.
-/
namespace DyntplV.Args
open DyntplV

structure Arg where
  name : Bytes
  val : Bytes
  static : Bool
  deriving DecidableEq, Repr

inductive Outcome
  | ok (args : List Arg)
  | panic
  | outOfFuel
  deriving DecidableEq, Repr

def Outcome.isPanic : Outcome → Bool
  | .panic => true
  | _ => false

/-! ### Checked Go operations -/

/-- `b[lo:]`: panics unless `lo ≤ len(b)`. -/
def sliceFrom (b : Bytes) (lo : Nat) : Option Bytes :=
  if lo ≤ b.length then some (b.drop lo) else none

/-- `b[lo:hi]`: panics unless `lo ≤ hi ≤ len(b)`. -/
def slice (b : Bytes) (lo hi : Nat) : Option Bytes :=
  if lo ≤ hi ∧ hi ≤ b.length then some ((b.take hi).drop lo) else none

/-- `b[i]`: panics unless `0 ≤ i < len(b)`. -/
def index (b : Bytes) (i : Int) : Option UInt8 :=
  if i < 0 then none else b[i.toNat]?

/-! ### Total library functions -/

/-- `bytes.IndexByte(b, c)`; `none` is −1. -/
def indexByte (b : Bytes) (c : UInt8) : Option Nat :=
  match b with
  | [] => none
  | x :: xs => if x == c then some 0 else (indexByte xs c).map (· + 1)

/-- `bytealg.Trim(b, cut)`: drop bytes of `cut` from both ends. -/
def trim (b cut : Bytes) : Bytes :=
  ((b.dropWhile cut.contains).reverse.dropWhile cut.contains).reverse

/-- `bytes.Split(b, []byte{c})`. -/
def splitByte (c : UInt8) : Bytes → List Bytes
  | [] => [[]]
  | x :: xs =>
    if x == c then [] :: splitByte c xs
    else match splitByte c xs with
      | [] => [[x]]
      | h :: t => (x :: h) :: t

/-- `\d+\.*\d*` against the whole string. -/
def isNumber (b : Bytes) : Bool :=
  let r1 := b.dropWhile isDigit
  let r2 := r1.dropWhile (· == 46)
  !(b.takeWhile isDigit).isEmpty && r2.all isDigit

/-- `q[^q]*q` against the whole string. -/
def isQuoted (q : UInt8) (b : Bytes) : Bool :=
  match b with
  | [] => false
  | c :: rest =>
    c == q && (match rest.reverse with
      | [] => false
      | d :: mid => d == q && !mid.contains q)

/-- static.go:11 `isStatic`. -/
def isStatic (b : Bytes) : Bool :=
  isNumber b || b == lit "true" || b == lit "false" || b == lit "nil" || isQuoted 34 b || isQuoted 39 b

def space : Bytes := [32]           -- " "
def spaceCBE : Bytes := [125, 32]   -- "} "
def quotes : Bytes := [34, 39, 96]  -- "'`
def ddquote : Bytes := [34, 34]     -- `""`

/-! ### The function -/

/-- parser.go:1074-1077: `if a[0] == '{' { a = a[1:]; nested = true }` (`c0` is `a[0]`). -/
def stripBrace (a : Bytes) (nested : Bool) (c0 : UInt8) : Option (Bytes × Bool) :=
  if c0 == 123 then (sliceFrom a 1).map (fun a' => (a', true)) else some (a, nested)

/-- parser.go:1078-1100: the `if nested { … } else { … }` that appends to `r`; returns the (possibly
    reassigned) outer `a` and `r`. No partial operation: `kv[0]`, `kv[1]` are under `len(kv) == 2`. -/
def collect (a : Bytes) (nested : Bool) (r : List Arg) : Bytes × List Arg :=
  if nested then
    match splitByte 58 a with                                 -- kv := bytes.Split(a, colon)
    | [k, v] =>                                               -- len(kv) == 2
      let k := trim k space
      let v := trim v spaceCBE
      (a, r ++ [{ name := trim k quotes, val := trim v quotes, static := isStatic v }])
    | _ => (a, r)
  else
    let a := trim a space                                     -- assigns the outer `a`
    let val := trim a quotes
    (a, r ++ [{ name := [], val := if val == ddquote then [] else val, static := isStatic a }])

/-- parser.go:1101-1103: `if len(a) > 0 && a[len(a)-1] == '}' { nested = false }`.
    `guarded = true`: as repaired; `guarded = false`: the original `if a[len(a)-1] == '}'`. -/
def closeCheck (guarded : Bool) (a : Bytes) (nested : Bool) : Option Bool :=
  if guarded && a.length == 0 then some nested                -- `len(a) > 0 &&` short-circuits
  else
    match index a ((a.length : Int) - 1) with                 -- a[len(a)-1]
    | none => none
    | some c => some (if c == 125 then false else nested)

/-- Body of `if a = bytealg.Trim(a, space); len(a) > 0 { … }` (parser.go:1073-1104).
    Returns `(nested, r)`; `none` = panic. -/
def argBody (guarded : Bool) (a : Bytes) (nested : Bool) (r : List Arg) : Option (Bool × List Arg) :=
  match index a 0 with                                        -- a[0]
  | none => none
  | some c0 =>
    match stripBrace a nested c0 with
    | none => none
    | some (a, nested) =>
      let ar := collect a nested r
      match closeCheck guarded ar.1 nested with
      | none => none
      | some nested => some (nested, ar.2)

/-- The `for { … }` loop (parser.go:1068-1110), one iteration per unit of fuel. -/
def loop (guarded : Bool) (raw : Bytes) : Nat → Nat → Bool → List Arg → Outcome
  | 0, _, _, _ => .outOfFuel
  | fuel + 1, off, nested, r =>
    match sliceFrom raw off with                                    -- raw[off:]
    | none => .panic
    | some tail =>
      let pos := (indexByte tail 44).getD (raw.length - off)          -- -1 ⇒ pos = len(raw) - off
      match slice raw off (off + pos) with                          -- raw[off : off+pos]
      | none => .panic
      | some a =>
        let a := trim a space
        match (if a.length > 0 then argBody guarded a nested r else some (nested, r)) with
        | none => .panic
        | some (nested, r) =>
          if off + pos ≥ raw.length then .ok r                      -- break
          else loop guarded raw fuel (off + pos + 1) nested r       -- off += pos + 1

def extractArgsWith (guarded : Bool) (raw : Bytes) : Outcome :=
  if raw.length == 0 then .ok [] else loop guarded raw (raw.length + 1) 0 false []

/-- `extractArgs` as it is in the repository now (commit fab1ce4). -/
def extractArgsM (raw : Bytes) : Outcome := extractArgsWith true raw

/-- `extractArgs` before the repair: unchecked `a[len(a)-1]`. -/
def extractArgsOld (raw : Bytes) : Outcome := extractArgsWith false raw

end DyntplV.Args
