import DyntplV.Tree
import DyntplV.Ast
import DyntplV.Parser.Pre
import DyntplV.Parser.Args
/-!
# `compile`: the node tree a template source MEANS

`compile keepFmt ast` is the tree `dyntpl.Parse(Source(ast), keepFmt)` is expected to build, written
from the generator's AST (tplast.go) — not from the parser: no regular expression of parser.go is
modelled here; every field is computed from the AST field it plainly comes from.  The harness decodes
the REAL tree (hook `VerifDumpTree`) into the same `Node` type and compares (`DriverAst.lean`).

Level of comparison: `Node` (Tree.lean) keeps, per node type, the fields the interpreter reads.

Conventions learnt from tree_node.go / parser.go and by experiment (all render-neutral):
* adjacent text / comment pieces form ONE raw node holding the pre-processed text
  (`cutComments`, and `cutNl` unless keepFmt); an empty result adds no node; `bytealg.Trim(" \t\n")`
  of the whole source (unless keepFmt) only touches a raw node at the very start / end of the top level;
* modifier list of a print = explicit chain first, then the modifiers of the escape letters;
  a maximal run of n equal letters is ONE modifier with the static argument n; `f.N` / `F.N` become
  floorPrec(N) / ceilPrec(N);
* `if` without else: `[condTrue then]`, or no child at all when `then` is empty; with else:
  `[condTrue then, condFalse else]` (either may be empty); loops: the body itself without else,
  `[condTrue body, condFalse else]` with else;
* a literal on the left of a condition stays on the left (`condStaticL`); the operator is mirrored at
  run time (`Op.swap` in `Impl.nodeCmp`);
* quotes around condition operands are stripped (`condL`/`condR`), around case operands they are kept;
* a loop separator loses trailing blanks (the content of the tag is trimmed of blanks before it is analysed);
* parser quirk: the LAST group of a switch (case or default) is dropped when its body is empty
  (`rollupSwitchNodes` only appends the last group if it has children) — nothing to render either way.

`inClass` delimits the grammar for which the expectation is claimed (what harness/gen.go produces,
with margins); outside of it the driver answers `skip`.
-/
namespace DyntplV.Compile
open DyntplV DyntplV.Pre

/-! ### Small byte-string helpers -/

def isWordCh (c : UInt8) : Bool := isAlnum c || c == 95
/-- characters of a variable path: word characters, `.`, `[`, `]` -/
def isPathCh (c : UInt8) : Bool := isWordCh c || c == 46 || c == 91 || c == 93

def isWord (b : Bytes) : Bool := !b.isEmpty && b.all isWordCh
def isPath (b : Bytes) : Bool := !b.isEmpty && b.all isPathCh

/-- `-?\d+(\.\d+)?` -/
def isNumLit (b : Bytes) : Bool :=
  let body := match b with | 45 :: r => r | r => r
  let ip := body.takeWhile isDigit
  let rest := body.dropWhile isDigit
  !ip.isEmpty && (rest.isEmpty || (match rest with
    | 46 :: fr => !fr.isEmpty && fr.all isDigit
    | _ => false))

/-- characters the generator puts between quotes (`safeLit` of gen.go) -/
def isLitCh (c : UInt8) : Bool := isAlnum c || c == 32 || c == 95 || c == 46 || c == 45

/-- `"…"` or `'…'` with harmless content -/
def isQuotedLit (b : Bytes) : Bool :=
  match b with
  | q :: rest =>
    (q == 34 || q == 39) && (match rest.reverse with
      | q' :: mid => q' == q && mid.all isLitCh
      | [] => false)
  | [] => false

/-- an operand as the generator writes it: variable path, number, `true`/`false`, quoted literal -/
def isOperand (b : Bytes) : Bool := isPath b || isNumLit b || isQuotedLit b

/-- static.go `isStatic`: `^(-?\d+\.*\d*|true|false|nil|"[^"]*"|'[^']*')$`. -/
def isStatic (b : Bytes) : Bool :=
  Args.isStatic b || (match b with | 45 :: r => Args.isNumber r | _ => false)

/-- `bytealg.Trim(x, "\"'`")` -/
def unq (b : Bytes) : Bytes := Args.trim b Args.quotes
def trimSp (b : Bytes) : Bytes := Args.trim b Args.space

/-- the delimiters of the tag are cut off and its content is trimmed of blanks before it is analysed (repair: it used
    to be trimmed of every `{`, `}`, `%` and blank, which ate a suffix or a separator ending in one of them): what
    remains of a trailing field -/
def tagTrimR (b : Bytes) : Bytes := (b.reverse.dropWhile (fun c => c == 32)).reverse

def opOf (b : Bytes) : Op :=
  if b == lit "==" then .eq else if b == lit "!=" then .nq
  else if b == lit ">" then .gt else if b == lit ">=" then .gtq
  else if b == lit "<" then .lt else if b == lit "<=" then .ltq
  else if b == lit "++" then .inc else if b == lit "--" then .dec else .unk

def isCmpOp (b : Bytes) : Bool :=
  b == lit "==" || b == lit "!=" || b == lit ">" || b == lit ">=" || b == lit "<" || b == lit "<="

def joinWith (sep : Bytes) : List Bytes → Bytes
  | [] => []
  | [x] => x
  | x :: rest => x ++ sep ++ joinWith sep rest

/-- split at every `c` (`bytes.Split`) -/
def splitOn (c : UInt8) (b : Bytes) : List Bytes := Args.splitByte c b

/-! ### Arguments and modifiers -/

/-- `{name: value}` → its inside -/
def braceInner (a : Bytes) : Option Bytes :=
  match a with
  | 123 :: rest => (match rest.reverse with
    | 125 :: mid => some mid.reverse
    | _ => none)
  | _ => none

/-- One argument as written: literal, variable, or `{name: value}`.  `global` (a look-up in the
    registry of globals) is false for every name the generator uses. -/
def argOf (a : Bytes) : Arg :=
  match braceInner a with
  | some inner =>
    match splitOn 58 inner with
    | [k, v] => { name := unq (trimSp k), val := unq (trimSp v), static := isStatic (trimSp v), global := false }
    | _ => { name := [], val := unq a, static := isStatic a, global := false }
  | none => { name := [], val := unq a, static := isStatic a, global := false }

def isRawName (n : Bytes) : Bool := n == lit "raw" || n == lit "noesc"

/-- explicit chain → modifier list (`raw` / `noesc` are flags, not modifiers) -/
def modsOf (ms : List ModCall) : List Mod :=
  (ms.filter (fun m => !isRawName m.name)).map (fun m => { id := m.name, args := m.args.map argOf })

def chainRaw (ms : List ModCall) : Bool := ms.any (fun m => isRawName m.name)

/-- modifier of an escape letter -/
def letterId (c : UInt8) : Option Bytes :=
  if c == 106 then some (lit "jsonEscape")        -- j
  else if c == 113 then some (lit "jsonQuote")    -- q
  else if c == 104 then some (lit "htmlEscape")   -- h
  else if c == 108 then some (lit "linkEscape")   -- l
  else if c == 117 then some (lit "urlEncode")    -- u
  else if c == 97 then some (lit "attrEscape")    -- a
  else if c == 99 then some (lit "cssEscape")     -- c
  else if c == 74 then some (lit "jsEscape")      -- J
  else none

def staticArg (v : Bytes) : Arg := { name := [], val := v, static := true, global := false }

/-- One modifier for a run of `n` letters `c`. -/
def runMod (id : Bytes) (n : Nat) : Mod := { id := id, args := [staticArg (decNat n)] }

/-- Escape letters → modifiers, `fuel` bounds the number of groups.  A group is a maximal run of one
    escape letter, or `f`/`F` followed by `.digits`.  Anything else ends the list (out of class). -/
def lettersToModsAux : Nat → Bytes → List Mod
  | 0, _ => []
  | _ + 1, [] => []
  | fuel + 1, c :: rest =>
    match letterId c with
    | some id =>
      let run := rest.takeWhile (· == c)
      runMod id (run.length + 1) :: lettersToModsAux fuel (rest.dropWhile (· == c))
    | none =>
      if c == 102 || c == 70 then
        match rest with
        | 46 :: r =>
          let ds := r.takeWhile isDigit
          { id := if c == 102 then lit "floorPrec" else lit "ceilPrec", args := [staticArg ds] }
            :: lettersToModsAux fuel (r.dropWhile isDigit)
        | _ => []
      else []

def lettersToMods (l : Bytes) : List Mod := lettersToModsAux l.length l

/-- the letters are a sequence of well-formed groups -/
def lettersOKAux : Nat → Bytes → Bool
  | 0, b => b.isEmpty
  | _ + 1, [] => true
  | fuel + 1, c :: rest =>
    match letterId c with
    | some _ => lettersOKAux fuel (rest.dropWhile (· == c))
    | none =>
      if c == 102 || c == 70 then
        match rest with
        | 46 :: r => !(r.takeWhile isDigit).isEmpty && lettersOKAux fuel (r.dropWhile isDigit)
        | _ => false
      else false

def lettersOK (l : Bytes) : Bool := lettersOKAux l.length l

/-- `value|mod(args)|…` written as one string (ternary alternatives): value and chain -/
def parseChain (s : Bytes) : Bytes × List ModCall :=
  match splitOn 124 s with
  | [] => ([], [])
  | v :: ms => (v, ms.map (fun m =>
      match splitOn 40 m with
      | [n] => { name := n, args := [], parens := false }
      | n :: a :: _ =>
        let inner := (a.reverse.dropWhile (· == 41)).reverse
        { name := n, args := if inner.isEmpty then [] else (splitOn 44 inner).map trimSp, parens := true }
      | [] => { name := [], args := [], parens := false }))

/-- print node of `letters= value|chain` -/
def tplOf (letters : Bytes) (path : Bytes) (ms : List ModCall) (raw : Bool) (pre suf : Bytes) : Node :=
  .tpl path (modsOf ms ++ lettersToMods letters) (raw || chainRaw ms) pre suf

/-! ### Conditions -/

def lcOf (h : Bytes) : Nat := if h == lit "len" then 1 else if h == lit "cap" then 2 else 0

def hlpText (h : Bytes) (args : List Bytes) : Bytes := h ++ [40] ++ joinWith (lit ", ") args ++ [41]

/-- Condition of `if`, of `break if` … and of a ternary. -/
def condSpec (c : Cond) : CondSpec :=
  if !c.hlp.isEmpty then
    if c.op.isEmpty then
      { l := [], r := [], staticL := false, staticR := false, op := .unk,
        hlp := c.hlp, hlpArg := c.hlpArgs.map argOf, lc := lcOf c.hlp }
    else
      -- len(x) > 3: the left operand is the call as written
      { l := hlpText c.hlp c.hlpArgs, r := unq c.r, staticL := false, staticR := isStatic c.r, op := opOf c.op,
        hlp := c.hlp, hlpArg := c.hlpArgs.map argOf, lc := lcOf c.hlp }
  else if c.not then
    { l := c.l, r := lit "true", staticL := false, staticR := true, op := .nq, hlp := [], hlpArg := [], lc := 0 }
  else
    { l := unq c.l, r := unq c.r, staticL := isStatic c.l, staticR := isStatic c.r, op := opOf c.op,
      hlp := [], hlpArg := [], lc := 0 }

/-- Condition of a `case` of an argument-less switch (quoted literals lose their quotes, like in `if`). -/
def caseSpecCond (c : Cond) : CaseSpec :=
  if !c.hlp.isEmpty then
    { l := [], r := [], staticL := false, staticR := false, op := .unk, hlp := c.hlp, hlpArg := c.hlpArgs.map argOf }
  else
    { l := unq c.l, r := unq c.r, staticL := isStatic c.l, staticR := isStatic c.r, op := opOf c.op, hlp := [], hlpArg := [] }

/-- `case <value>` of a switch with argument. -/
def caseSpecVal (v : Bytes) : CaseSpec :=
  { l := unq v, r := [], staticL := isStatic v, staticR := false, op := .unk, hlp := [], hlpArg := [] }

/-! ### Text runs -/

/-- Compile-time item: a piece of text (still raw source) or a finished node. -/
inductive Item
  | txt (b : Bytes)
  | node (n : Node)
  deriving Inhabited

def Item.isTxt : Item → Bool
  | .txt _ => true
  | .node _ => false

/-- pre-processing of one text run (no trimming: that is a property of the whole source) -/
def clean (keepFmt : Bool) (b : Bytes) : Bytes :=
  if keepFmt then cutComments b else cutNl (cutComments b)

def rawOpt (b : Bytes) : List Node := if b.isEmpty then [] else [.raw b]

def flush (keepFmt : Bool) (acc : Bytes) : List Node := rawOpt (clean keepFmt acc)

/-- merge adjacent text items, pre-process each run, drop empty runs -/
def assembleAux (keepFmt : Bool) : Bytes → List Item → List Node
  | acc, [] => flush keepFmt acc
  | acc, .txt b :: rest => assembleAux keepFmt (acc ++ b) rest
  | acc, .node n :: rest => flush keepFmt acc ++ n :: assembleAux keepFmt [] rest

def assemble (keepFmt : Bool) (is : List Item) : List Node := assembleAux keepFmt [] is

/-! ### Structures -/

def ifChildren (t : List Node) (hasElse : Bool) (e : List Node) : List Node :=
  if hasElse then [.condTrue t, .condFalse e]
  else if t.isEmpty then [] else [.condTrue t]

def loopChildren (body : List Node) (hasElse : Bool) (e : List Node) : List Node :=
  if hasElse then [.condTrue body, .condFalse e] else body

/-- parser quirk: the last group of a switch is dropped when its body is empty (render-neutral). -/
def dropLastEmpty : List Node → List Node
  | [] => []
  | [.case_ _ []] => []
  | [.default_ []] => []
  | [n] => [n]
  | n :: rest => n :: dropLastEmpty rest

def insertAt {α : Type} (i : Nat) (x : α) (l : List α) : List α := l.take i ++ x :: l.drop i

def ctlNode (kind : Bytes) (n : Nat) : Node :=
  if kind == lit "break" then .brk n
  else if kind == lit "lazybreak" then .lbrk n
  else .cont

def regionOpen (kind : Bytes) : Node :=
  if kind == lit "jsonquote" then .jsonQ else if kind == lit "htmlescape" then .htmlE else .urlEnc
def regionClose (kind : Bytes) : Node :=
  if kind == lit "jsonquote" then .endJsonQ else if kind == lit "htmlescape" then .endHtmlE else .endUrlEnc

def isQuotedSrc (b : Bytes) : Bool := isQuotedLit b && b.length > 2

def ctxSpecOf (var ok src : Bytes) (ms : List ModCall) (as_ : Bytes) : CtxSpec :=
  let quoted := isQuotedSrc src
  { var := var, ok := ok,
    src := if quoted then unq src else src,
    srcStatic := quoted || isStatic src,
    ins := if as_.isEmpty then lit "static" else as_,
    mods := modsOf ms }

def counterSpecOf (var kind : Bytes) (n : Int) : CntrSpec :=
  if kind == lit "init" then { var := var, init := n, initF := true, op := .unk, opArg := 0 }
  else if kind == lit "++" then { var := var, init := 0, initF := false, op := .inc, opArg := 1 }
  else if kind == lit "--" then { var := var, init := 0, initF := false, op := .dec, opArg := 1 }
  else if kind == lit "+" then { var := var, init := 0, initF := false, op := .inc, opArg := n }
  else { var := var, init := 0, initF := false, op := .dec, opArg := n }

def cloopSpecOf (var init op lim step sep : Bytes) : CLoopSpec :=
  { cnt := var, cntInit := init, cntStatic := isStatic init, cntOp := opOf step, condOp := opOf op,
    lim := lim, limStatic := isStatic lim, sep := tagTrimR sep }

def rloopSpecOf (key val src sep : Bytes) : RLoopSpec :=
  { key := key, val := val, src := src, sep := tagTrimR sep }

mutual
/-- items of one AST node -/
def items (k : Bool) : Ast → List Item
  | .text s => [.txt s]
  | .comment s => [.txt ([123, 35] ++ s ++ [35, 125])]
  | .print letters path ms raw pre suf _ _ => [.node (tplOf letters path ms raw pre suf)]
  | .if_ c thn he els =>
    [.node (.cond (condSpec c) (ifChildren (assemble k (itemsL k thn)) he (assemble k (itemsL k els))))]
  | .ifok var okv hlp args ins _ nt thn he els =>
    [.node (.condOK
      { varV := var, varOK := okv, ins := ins,
        cd := { l := okv, r := if nt then lit "true" else [], staticL := false, staticR := nt,
                op := if nt then .nq else .unk, hlp := hlp, hlpArg := args.map argOf, lc := 0 } }
      (ifChildren (assemble k (itemsL k thn)) he (assemble k (itemsL k els))))]
  | .ternary letters c t f =>
    let pt := parseChain t
    let pf := parseChain f
    [.node (.cond (condSpec c)
      [.condTrue [tplOf letters pt.1 pt.2 false [] []], .condFalse [tplOf letters pf.1 pf.2 false [] []]])]
  | .switch arg cases hd at_ dflt =>
    let cs := caseNodes k arg cases
    let groups := if hd then insertAt at_ (.default_ (assemble k (itemsL k dflt))) cs else cs
    [.node (.switch arg groups)]
  | .case_ c v body =>                    -- only reached for a case outside a switch (out of class)
    [.node (.case_ (if v.isEmpty then caseSpecCond c else caseSpecVal v) (assemble k (itemsL k body)))]
  | .cloop var init op lim step sep _ body he els =>
    [.node (.cloop (cloopSpecOf var init op lim step sep)
      (loopChildren (assemble k (itemsL k body)) he (assemble k (itemsL k els))))]
  | .rloop key val src sep _ body he els =>
    [.node (.rloop (rloopSpecOf key val src sep)
      (loopChildren (assemble k (itemsL k body)) he (assemble k (itemsL k els))))]
  | .ctl kind n none => [.node (ctlNode kind n)]
  | .ctl kind n (some c) => [.node (.cond (condSpec c) [ctlNode kind n])]
  | .ctxset var ok src ms as_ _ => [.node (.ctx (ctxSpecOf var ok src ms as_))]
  | .counter var kind n _ => [.node (.counter (counterSpecOf var kind n))]
  | .include names _ => [.node (.incl names)]
  | .exit => [.node .exit]
  | .region kind body => .node (regionOpen kind) :: (itemsL k body ++ [.node (regionClose kind)])
  | .rtag kind e => [.node (if e then regionClose kind else regionOpen kind)]

def itemsL (k : Bool) : List Ast → List Item
  | [] => []
  | a :: rest => items k a ++ itemsL k rest

/-- the case groups of a switch -/
def caseNodes (k : Bool) (arg : Bytes) : List Ast → List Node
  | [] => []
  | .case_ c v body :: rest =>
    .case_ (if arg.isEmpty then caseSpecCond c else caseSpecVal v) (assemble k (itemsL k body)) :: caseNodes k arg rest
  | _ :: rest => caseNodes k arg rest
end

/-- node list of a body (no trimming) -/
def compileSeq (k : Bool) (l : List Ast) : List Node := assemble k (itemsL k l)

/-! ### The whole template: `bytealg.Trim` of the source -/

def trimFirst : List Node → List Node
  | .raw t :: rest => rawOpt (trimL t) ++ rest
  | l => l

def trimLast : List Node → List Node
  | [] => []
  | [.raw t] => rawOpt (trimR t)
  | [n] => [n]
  | n :: rest => n :: trimLast rest

def trimTop (l : List Node) : List Node := trimLast (trimFirst l)

/-- The tree `Parse(Source(ast), keepFmt)` is expected to build. -/
def compile (keepFmt : Bool) (l : List Ast) : List Node :=
  if keepFmt then compileSeq true l else trimTop (compileSeq false l)

/-! ### The class for which the expectation is claimed -/

def noneOf (cs : List UInt8) (b : Bytes) : Bool := b.all (fun c => !cs.contains c)

/-- a modifier / helper argument: operand or `{word: operand}` -/
def argOK (a : Bytes) : Bool :=
  isOperand a ||
  (match braceInner a with
   | some inner => (match splitOn 58 inner with
     | [k, v] => isWord (trimSp k) && isOperand (trimSp v)
     | _ => false)
   | none => false)

def isModName (n : Bytes) : Bool := !n.isEmpty && n.all (fun c => isWordCh c || c == 58)

def modOK (m : ModCall) : Bool :=
  isModName m.name && m.args.all argOK && (m.parens || m.args.isEmpty)
    && !(m.args.any (fun a => (splitOn 58 a).length > 2))

/-- the raw flag is the last chunk of the chain (`modsSrc`), never a `ModCall` of the generator -/
def modsOK (ms : List ModCall) : Bool := ms.all modOK && !chainRaw ms

def condOK (c : Cond) : Bool :=
  if !c.hlp.isEmpty then
    isWord c.hlp && c.hlpArgs.all isOperand && !c.not && c.l.isEmpty &&
      (if c.op.isEmpty then c.r.isEmpty
       else isCmpOp c.op && isOperand c.r && (c.hlp == lit "len" || c.hlp == lit "cap"))
  else
    -- operator-less conditions (`!x`) are not part of the grammar
    !c.not && isOperand c.l && isCmpOp c.op && isOperand c.r

def caseCondOK (c : Cond) : Bool :=
  if !c.hlp.isEmpty then isWord c.hlp && c.hlpArgs.all isOperand && !c.not && c.op.isEmpty && c.l.isEmpty && c.r.isEmpty
  else !c.not && isOperand c.l && isOperand c.r && isCmpOp c.op && c.op.length == 2

/-- a ternary alternative: operand, chain of modifiers, optional `|raw` at the end -/
def altOK (s : Bytes) : Bool :=
  let p := parseChain s
  isOperand p.1 && noneOf [63, 58, 60, 62, 61, 33] s &&
    (match p.2.reverse with
     | [] => true
     | last :: before => (isRawName last.name || modOK last) && before.reverse.all modOK && !chainRaw before)

/-- no tag delimiter inside: `{%` or `%}` -/
def noDelims : Bytes → Bool
  | [] => true
  | 123 :: 37 :: _ => false
  | 37 :: 125 :: _ => false
  | _ :: rest => noDelims rest

def fixOK (b : Bytes) : Bool := noneOf [32, 63] b && noDelims b

def kwIn (kw : Bytes) (a b : String) : Bool := kw == lit a || kw == lit b

/-- text run: no tag opener, no unclosed comment opener left after `cutComments` -/
def hasTagOpen : Bytes → Bool
  | [] => false
  | 123 :: 37 :: _ => true
  | _ :: rest => hasTagOpen rest

def runOK (b : Bytes) : Bool := !hasTagOpen b && !hasOpen (cutComments b)

def itemsRunsOKAux : Bytes → List Item → Bool
  | acc, [] => runOK acc
  | acc, .txt b :: rest => itemsRunsOKAux (acc ++ b) rest
  | acc, .node _ :: rest => runOK acc && itemsRunsOKAux [] rest

/-- every text run of this body is harmless (nested bodies are checked where they occur) -/
def runsOKb (l : List Ast) : Bool := itemsRunsOKAux [] (itemsL true l)

mutual
def inClass : Ast → Bool
  | .text _ => true
  | .comment s => noneOf [35] s
  | .print letters path ms _ pre suf preKW sufKW =>
    lettersOK letters && isOperand path && modsOK ms && fixOK pre && fixOK suf &&
      (pre.isEmpty || kwIn preKW "prefix" "pfx") && (suf.isEmpty || kwIn sufKW "suffix" "sfx")
  | .if_ c thn _ els => condOK c && inClassL thn && runsOKb thn && inClassL els && runsOKb els
  | .ifok var okv hlp args ins _ _ thn _ els =>
    isWord var && isWord okv && isWord hlp && args.all (fun a => isOperand a) && (ins.isEmpty || isWord ins) &&
      inClassL thn && runsOKb thn && inClassL els && runsOKb els
  | .ternary letters c t f => lettersOK letters && condOK c && (c.hlp.isEmpty || c.op.isEmpty) && altOK t && altOK f
  | .switch arg cases hd at_ dflt =>
    (arg.isEmpty || isPath arg) && casesOK arg cases && (!hd || at_ ≤ cases.length) && inClassL dflt && runsOKb dflt
  | .case_ _ _ _ => false
  | .cloop var init op lim step sep sepKW body _ els =>
    isWord var && isWord init && (op == lit "<" || op == lit "<=" || op == lit ">" || op == lit ">=" || op == lit "!=") &&
      (isNumLit lim || isPath lim) && (step == lit "++" || step == lit "--") &&
      (sep.isEmpty || (kwIn sepKW "separator" "sep" && noDelims sep && sep.head? != some 32)) &&
      inClassL body && runsOKb body && inClassL els && runsOKb els
  | .rloop key val src sep sepKW body _ els =>
    (key.isEmpty || isWord key) && (val.isEmpty || isWord val) && !(key.isEmpty && val.isEmpty) && key != lit "_" &&
      isPath src && (sep.isEmpty || (kwIn sepKW "separator" "sep" && noDelims sep && sep.head? != some 32)) &&
      inClassL body && runsOKb body && inClassL els && runsOKb els
  | .ctl kind n none =>
    kind == lit "break" || kind == lit "lazybreak" || (kind == lit "continue" && n == 0)
  | .ctl kind n (some c) =>
    (kind == lit "break" || kind == lit "lazybreak" || (kind == lit "continue" && n == 0)) && condOK c
  | .ctxset var ok src ms as_ kw =>
    isWord var && (ok.isEmpty || isWord ok) && kwIn kw "ctx" "context" && (as_.isEmpty || isWord as_) &&
      ((isQuotedSrc src && ms.isEmpty && as_.isEmpty) || ((isPath src || (isNumLit src && src.head? != some 45)) && modsOK ms))
  | .counter var kind n kw =>
    isWord var && kwIn kw "counter" "cntr" && 0 ≤ n &&
      (kind == lit "init" || kind == lit "++" || kind == lit "--" || kind == lit "+" || kind == lit "-")
  | .include names _ => !names.isEmpty && names.all (fun n => !n.isEmpty && noneOf [32, 37, 123, 125] n)
  | .exit => true
  | .region kind body =>
    (kind == lit "jsonquote" || kind == lit "htmlescape" || kind == lit "urlencode") && inClassL body && runsOKb body
  | .rtag kind _ => kind == lit "jsonquote" || kind == lit "htmlescape" || kind == lit "urlencode"

def inClassL : List Ast → Bool
  | [] => true
  | a :: rest => inClass a && inClassL rest

def casesOK (arg : Bytes) : List Ast → Bool
  | [] => true
  | .case_ c v body :: rest =>
    (if arg.isEmpty then caseCondOK c else (isOperand v && noneOf [60, 61, 62, 33] v)) && inClassL body && runsOKb body && casesOK arg rest
  | _ :: _ => false
end

/-- the class of whole templates -/
def inClassTop (l : List Ast) : Bool := inClassL l && runsOKb l

end DyntplV.Compile
