import DyntplV.Refine.Writer
/-! Writer-failure propagation through `writeTree / writeSeq / writeNode / switchNode`. -/
namespace DyntplV

theorem Good.trans {s s1 : St} {r : Res} (h1 : s.w.failed = false → s1.w.failed = false) (g : Good s1 r) : Good s r := by
  intro hs hf; exact g (h1 hs) hf

/-- Sequencing: run `r1`, and on success continue with a good continuation from `r1.st`. -/
theorem Good.andThen {s : St} {r1 : Res} {k : St → Res} (g1 : Good s r1) (gk : ∀ s', Good s' (k s')) :
    Good s (r1.andThen k) := by
  unfold Res.andThen
  cases h : r1.err with
  | some e => simpa [h] using g1
  | none =>
    simp only
    exact Good.trans (fun hs => g1.notfailed hs (by rw [h]; simp)) (gk _)

theorem good_ctx_only {s : St} {c : Ctx} {e : Option Err} : Good s ⟨{ s with c := c }, e⟩ :=
  good_of_same_writer rfl

theorem Good.withCtx {s : St} (c : Ctx) {r : Res} (g : Good { s with c := c } r) : Good s r :=
  Good.trans (fun h => h) g

theorem okOrWrite_good (s : St) (b : Bool) (p : Bytes) : Good s (if b then ok s else s.write p) := by
  split
  · exact good_of_same_writer rfl
  · exact St.write_good _ _

/-- The three writes of a print node. -/
theorem tplWrites_good (s2 : St) (pre t suf : Bytes) (noesc : Bool) : Good s2 (tplWrites s2 pre t suf noesc) := by
  unfold tplWrites
  refine Good.andThen (okOrWrite_good _ _ _) (fun s' => ?_)
  refine Good.andThen (St.write_good _ _) (fun s'' => ?_)
  exact okOrWrite_good _ _ _

theorem orErr_good (s : St) (r : Res) (e : Err) (h : Good s r) : Good s (r.orErr e) := by
  intro hs hf
  have := h hs hf
  simp [Res.orErr, this]

theorem inclFinish_good (s : St) (r : Res) : Good s (inclFinish s r) := by
  unfold inclFinish
  cases r.err with
  | some e =>
    simp only
    split
    · exact good_ctx_only
    · exact orErr_good _ _ _ (Good.withCtx _ (St.write_good _ _))
  | none => exact Good.withCtx _ (St.write_good _ _)

theorem interp_good (reg : Registry) : ∀ f : Nat,
    (∀ nodes s, Good s (writeTree reg f nodes s)) ∧
    (∀ nodes s, Good s (writeSeq reg f nodes s)) ∧
    (∀ n s, Good s (writeNode reg f n s)) ∧
    (∀ arg all cs s, Good s (switchNode reg f arg all cs s)) := by
  intro f
  induction f with
  | zero =>
    refine ⟨?_, ?_, ?_, ?_⟩
    · intro nodes s; rw [writeTree]; exact good_of_same_writer rfl
    · intro nodes s; rw [writeSeq]; exact good_of_same_writer rfl
    · intro n s; rw [writeNode]; exact good_of_same_writer rfl
    · intro a al cs s; rw [switchNode]; exact good_of_same_writer rfl
  | succ f ih =>
    obtain ⟨ihT, ihS, ihN, ihW⟩ := ih
    refine ⟨?_, ?_, ?_, ?_⟩
    · -- writeTree
      intro nodes s
      rw [writeTree]
      have g := ihS nodes s
      intro hs hf
      simp only at hf ⊢
      split at hf
      · next hi =>
        have := g hs (by simpa using hf)
        rw [hi] at this; cases this
      · next hne =>
        have := g hs hf
        rw [if_neg hne]; exact this
    · -- writeSeq
      intro nodes s
      cases nodes with
      | nil => rw [writeSeq]; exact good_of_same_writer rfl
      | cons n rest =>
        rw [writeSeq]
        exact Good.andThen (ihN n s) (fun _ => ihS rest _)
    · -- writeNode
      intro n s
      cases n with
      | raw b => rw [writeNode]; exact St.write_good _ _
      | tpl path mods noesc pre suf =>
        rw [writeNode]
        generalize evalPrint s.c path mods = ep
        obtain ⟨c2, o⟩ := ep
        cases o with
        | stop e => exact good_ctx_only
        | text t => exact Good.withCtx c2 (tplWrites_good _ _ _ _ _)
      | ctx cs => rw [writeNode]; exact good_ctx_only
      | counter cs => rw [writeNode]; exact good_ctx_only
      | condOK k child =>
        rw [writeNode]
        split
        · exact good_of_same_writer rfl
        · generalize evalCondOK s.c k = ec
          obtain ⟨c1, o⟩ := ec
          cases o with
          | stop e => exact good_ctx_only
          | branch r pending =>
            simp only
            split
            · exact Good.withCtx c1 (ihN _ _)
            · exact good_ctx_only
      | cond cd child =>
        rw [writeNode]
        generalize evalCond s.c cd = ec
        obtain ⟨c1, o⟩ := ec
        cases o with
        | stop e => exact good_ctx_only
        | branch r pending =>
          simp only
          split
          · exact Good.withCtx c1 (ihN _ _)
          · exact good_ctx_only
      | condTrue child => rw [writeNode]; exact ihS _ _
      | condFalse child => rw [writeNode]; exact ihS _ _
      | case_ k child => rw [writeNode]; exact ihS _ _
      | default_ child => rw [writeNode]; exact ihS _ _
      | cloop ls child =>
        rw [writeNode]
        simp only
        apply loopNode_good
        intro s'
        apply cloopWith_goodL
        · intro s''; exact ihS _ _
        · intro re hre s''
          cases hp : (loopParts child).2 with
          | none => simp [hp] at hre
          | some e => simp [hp] at hre; subst hre; exact elseRun_goodL _ (elseSeq_good _ (by intro r hr; simp only [List.mem_map] at hr; obtain ⟨n, _, rfl⟩ := hr; exact fun s => ihN n s)) _ _
      | rloop ls child =>
        rw [writeNode]
        simp only
        apply loopNode_good
        intro s'
        apply rloopQB_goodL
        · intro s''; exact ihS _ _
        · intro re hre s''
          cases hp : (loopParts child).2 with
          | none => simp [hp] at hre
          | some e => simp [hp] at hre; subst hre; exact elseRun_goodL _ (elseSeq_good _ (by intro r hr; simp only [List.mem_map] at hr; obtain ⟨n, _, rfl⟩ := hr; exact fun s => ihN n s)) _ _
      | brk d => rw [writeNode]; exact good_ctx_only
      | lbrk d => rw [writeNode]; exact good_ctx_only
      | cont => rw [writeNode]; exact good_of_same_writer rfl
      | switch arg child => rw [writeNode]; exact ihW _ _ _ _
      | incl names =>
        rw [writeNode]
        split
        · exact good_of_same_writer rfl
        · split
          · exact good_of_same_writer rfl
          · exact inclFinish_good _ _
      | exit => rw [writeNode]; exact good_of_same_writer rfl
      | jsonQ => rw [writeNode]; exact good_ctx_only
      | endJsonQ => rw [writeNode]; exact good_ctx_only
      | htmlE => rw [writeNode]; exact good_ctx_only
      | endHtmlE => rw [writeNode]; exact good_ctx_only
      | urlEnc => rw [writeNode]; exact good_ctx_only
      | endUrlEnc => rw [writeNode]; exact good_ctx_only
      | div => rw [writeNode]; exact good_of_same_writer rfl
      | unknown => rw [writeNode]; exact good_of_same_writer rfl
    · -- switchNode
      intro arg all cs s
      cases cs with
      | nil =>
        rw [switchNode]
        split
        · exact ihN _ _
        · exact good_of_same_writer rfl
      | cons ch rest =>
        rw [switchNode]
        cases ch.asCase with
        | none => exact ihW _ _ _ _
        | some k =>
          simp only
          generalize evalCase s.c arg k = ec
          obtain ⟨c1, o⟩ := ec
          cases o with
          | stop e => exact good_ctx_only
          | branch r pending =>
            simp only
            split
            · exact Good.withCtx c1 (ihN _ _)
            · exact Good.withCtx c1 (ihW _ _ _ _)

/-- Top level. -/
theorem writeBody_good (reg : Registry) (fuel : Nat) (nodes : List Node) (s : St) : Good s (writeBody reg fuel nodes s) := by
  unfold writeBody
  exact Good.andThen ((interp_good reg fuel).1 nodes s) (fun _ => good_ctx_only)

theorem write_good (reg : Registry) (fuel : Nat) (nodes : List Node) (s : St) : Good s (write reg fuel nodes s) := by
  unfold write
  exact writeBody_good reg fuel nodes s.topStart

theorem writeKey_good (reg : Registry) (fuel : Nat) (key : Bytes) (s : St) : Good s (writeKey reg fuel key s) := by
  unfold writeKey
  split
  · exact good_of_same_writer rfl
  · exact write_good _ _ _ _

end DyntplV
