import DyntplV.Refine.Hist
/-! History discipline through `writeTree / writeSeq / writeNode / switchNode` and the loops. -/
namespace DyntplV

def Mono (F : St → Res) : Prop := ∀ s, CMono s.c (F s).st.c
def MonoL (F : St → LoopRes) : Prop := ∀ s, CMono s.c (F s).st.c

theorem Mono.andThen {F K : St → Res} (hF : Mono F) (hK : Mono K) : Mono (fun s => (F s).andThen K) := by
  intro s
  unfold Res.andThen
  cases h : (F s).err with
  | some e => simp only [h]; exact hF s
  | none => simp only [h]; exact (hF s).trans (hK _)

theorem write_mono (p : Bytes) (s : St) : CMono s.c (s.write p).st.c := by
  unfold St.write
  cases hw : s.w.write p with
  | mk w b => cases b <;> exact CMono.refl _

theorem clrErrIf_mono (b : Bool) (s : St) : CMono s.c (clrErrIf b s).c := by
  unfold clrErrIf; split
  · exact CMono.of_eq rfl rfl rfl
  · exact CMono.refl _

theorem sepWrite_mono (n : Nat) (sep : Bytes) (s : St) : CMono s.c (sepWrite n sep s).st.c := by
  unfold sepWrite; split
  · exact write_mono _ s
  · exact CMono.refl _

theorem tplWrites_mono (pre t suf : Bytes) (noesc : Bool) (s : St) : CMono s.c (tplWrites s pre t suf noesc).st.c := by
  have key : Mono (fun s' : St =>
      ((if pre.isEmpty then ok s' else s'.write (regionEscape s.c pre)).andThen fun s1 =>
       (s1.write (if noesc then t else regionEscape s.c t)).andThen fun s2 =>
       if suf.isEmpty then ok s2 else s2.write (regionEscape s.c suf))) := by
    apply Mono.andThen
    · intro s'; show CMono s'.c (if pre.isEmpty then ok s' else s'.write (regionEscape s.c pre)).st.c
      split
      · exact CMono.refl _
      · exact write_mono _ s'
    · apply Mono.andThen
      · intro s'; exact write_mono _ s'
      · intro s'; show CMono s'.c (if suf.isEmpty then ok s' else s'.write (regionEscape s.c suf)).st.c
        split
        · exact CMono.refl _
        · exact write_mono _ s'
  exact key s

theorem iterAfterBody_mono (rb : Res) : CMono rb.st.c (iterAfterBody rb).st.c := by
  unfold iterAfterBody
  cases rb.err with
  | none => simp only; split <;> exact CMono.of_eq rfl rfl rfl
  | some e =>
    by_cases hs : isSentinel e = true
    · simp only [hs, if_true]; split <;> exact CMono.of_eq rfl rfl rfl
    · simp only [hs, Bool.false_eq_true, if_false]; exact CMono.of_eq rfl rfl rfl

theorem IterOut.st_abort (s : St) : (IterOut.abort s).st = s := rfl
theorem IterOut.st_stop (s : St) : (IterOut.stop s).st = s := rfl
theorem IterOut.st_next (s : St) : (IterOut.next s).st = s := rfl

theorem rloopLoop_mono (run : St → Res) (hrun : Mono run) (ls : RLoopSpec) :
    ∀ (items : List (Bytes × Val × InsKind)) (n : Nat), MonoL (fun s => rloopLoop run ls items n s) := by
  intro items
  induction items with
  | nil => intro n s; exact CMono.refl _
  | cons it rest ih =>
    intro n s
    obtain ⟨kk, v, ik⟩ := it
    show CMono s.c (rloopLoop run ls ((kk, v, ik) :: rest) n s).st.c
    rw [rloopLoop]
    have h0 : CMono s.c (rIterStart ls kk v ik s).c := by
      unfold rIterStart; split <;> exact CMono.of_eq rfl rfl rfl
    have h1 := h0.trans (sepWrite_mono n ls.sep (rIterStart ls kk v ik s))
    generalize sepWrite n ls.sep (rIterStart ls kk v ik s) = rs at h1
    cases rs.err with
    | some e => exact h1.trans (CMono.of_eq rfl rfl rfl)
    | none =>
      simp only
      have h2 := (h1.trans (hrun rs.st)).trans (iterAfterBody_mono (run rs.st))
      cases hio : iterAfterBody (run rs.st) with
      | abort st => rw [hio] at h2; exact h2
      | stop st => rw [hio] at h2; exact h2
      | next st => rw [hio] at h2; exact h2.trans (ih (n+1) st)

theorem cloopLoop_mono (run : St → Res) (hrun : Mono run) (ls : CLoopSpec) :
    ∀ (f : Nat) (v lim : Int) (n : Nat), MonoL (fun s => cloopLoop run ls f v lim n s) := by
  intro f
  induction f with
  | zero => intro v lim n s; exact CMono.of_eq rfl rfl rfl
  | succ f ih =>
    intro v lim n s
    show CMono s.c (cloopLoop run ls (f+1) v lim n s).st.c
    rw [cloopLoop]
    cases loopAllows ls.condOp v lim with
    | none => exact CMono.of_eq rfl rfl rfl
    | some b =>
      cases b with
      | false => exact CMono.of_eq rfl rfl rfl
      | true =>
        simp only
        have h0 : CMono s.c ({ s with c := s.c.setStatic ls.cnt (Val.int v) } : St).c := CMono.of_eq rfl rfl rfl
        have h1 := h0.trans (sepWrite_mono n ls.sep { s with c := s.c.setStatic ls.cnt (Val.int v) })
        generalize sepWrite n ls.sep { s with c := s.c.setStatic ls.cnt (Val.int v) } = rs at h1
        cases rs.err with
        | some e => exact h1.trans (CMono.of_eq rfl rfl rfl)
        | none =>
          simp only
          have h1' : CMono s.c (clrErrIf (decide (n > 0) && !ls.sep.isEmpty) rs.st).c := h1.trans (clrErrIf_mono _ _)
          generalize clrErrIf (decide (n > 0) && !ls.sep.isEmpty) rs.st = rs1 at h1'
          have h2 : CMono s.c (run { rs1 with c := { rs1.c with chQB := true } }).st.c :=
            (h1'.trans (CMono.of_eq rfl rfl rfl)).trans (hrun { rs1 with c := { rs1.c with chQB := true } })
          generalize run { rs1 with c := { rs1.c with chQB := true } } = rb0 at h2
          have h3 : CMono s.c ({ rb0 with st := { rb0.st with c := { rb0.st.c with chQB := rs1.c.chQB } } } : Res).st.c :=
            h2.trans (CMono.of_eq rfl rfl rfl)
          have h4 := h3.trans (iterAfterBody_mono { rb0 with st := { rb0.st with c := { rb0.st.c with chQB := rs1.c.chQB } } })
          split
          · cases hio : iterAfterBody { rb0 with st := { rb0.st with c := { rb0.st.c with chQB := rs1.c.chQB } } } with
            | abort st => rw [hio] at h4; exact h4
            | stop st => rw [hio] at h4; exact h4.trans (CMono.of_eq rfl rfl rfl)
            | next st =>
              rw [hio] at h4
              exact (h4.trans (CMono.of_eq rfl rfl rfl)).trans (ih _ _ _ { st with c := { st.c.setStatic ls.cnt (Val.int (stepVal ls.cntOp v)) with err := none } })
          · cases hio : iterAfterBody { rb0 with st := { rb0.st with c := { rb0.st.c with chQB := rs1.c.chQB } } } with
            | abort st => rw [hio] at h4; exact h4
            | stop st => exact h3.trans (CMono.of_eq rfl rfl rfl)
            | next st => exact h3.trans (CMono.of_eq rfl rfl rfl)

theorem elseSeq_mono : ∀ (runs : List (St → Res)), (∀ r ∈ runs, Mono r) → Mono (elseSeq runs)
  | [], _ => by intro s; unfold elseSeq; exact CMono.refl _
  | r :: rest, h => by
    have hr := h r (List.mem_cons_self)
    have ih := elseSeq_mono rest (fun r' hr' => h r' (List.mem_cons_of_mem _ hr'))
    intro s
    unfold elseSeq
    cases hx : (r s).err with
    | some e => simp only; exact hr s
    | none => simp only; exact ((hr s).trans (CMono.of_eq rfl rfl rfl)).trans (ih { (r s).st with c := { (r s).st.c with err := none } })

theorem elseRun_mono (run : St → Res) (hrun : Mono run) (ne : Bool) : Mono (elseRun run ne) := by
  intro s
  unfold elseRun
  simp only
  cases (run s).err with
  | some e => exact (hrun s).trans (CMono.of_eq rfl rfl rfl)
  | none => simp only; split
            · exact (hrun s).trans (CMono.of_eq rfl rfl rfl)
            · exact hrun s

theorem afterLoop_mono (runElse : Option (St → Res)) (helse : ∀ re, runElse = some re → Mono re)
    (c0 : Ctx) (r : LoopRes) (sElse : St) (h1 : CMono c0 r.st.c) (h2 : CMono c0 sElse.c) :
    CMono c0 (afterLoop runElse r sElse).st.c := by
  unfold afterLoop
  split
  · exact h1
  · split
    · cases hel : runElse with
      | none => exact h2
      | some re => exact h2.trans (helse re hel sElse)
    · exact h2

theorem cloopWith_mono (run : St → Res) (hrun : Mono run) (runElse : Option (St → Res))
    (helse : ∀ re, runElse = some re → Mono re) (fuel : Nat) (ls : CLoopSpec) : Mono (cloopWith run runElse fuel ls) := by
  intro s
  unfold cloopWith cloopAfter
  have hb := loopBounds_mono s.c ls
  cases (loopBounds s.c ls).2 with
  | none => exact hb
  | some p =>
    obtain ⟨cnt, lim⟩ := p
    simp only
    have hl := hb.trans (cloopLoop_mono run hrun ls fuel cnt lim 0 { s with c := (loopBounds s.c ls).1 })
    exact afterLoop_mono runElse helse s.c _ _ hl hl

theorem rloopWith_mono (run : St → Res) (hrun : Mono run) (runElse : Option (St → Res))
    (helse : ∀ re, runElse = some re → Mono re) (ls : RLoopSpec) : Mono (rloopWith run runElse ls) := by
  intro s
  unfold rloopWith
  cases splitDots ls.src with
  | nil => exact CMono.refl _
  | cons name sub =>
    simp only
    cases getVar s.c.vars name with
    | none =>
      simp only
      cases hel : runElse with
      | none => exact CMono.refl _
      | some re => exact helse re hel s
    | some vv =>
      simp only
      have hl := rloopLoop_mono run hrun ls (loopItems vv sub) 0 s
      exact afterLoop_mono runElse helse s.c _ _ hl (hl.trans (CMono.of_eq rfl rfl rfl))


theorem rloopQB_mono (run : St → Res) (hrun : Mono run) (runElse : Option (St → Res))
    (helse : ∀ re, runElse = some re → Mono re) (ls : RLoopSpec) : Mono (rloopQB run runElse ls) := by
  intro s
  unfold rloopQB
  cases cmpPath s.c.vars s.c.chQB ls.src with
  | none => exact CMono.of_eq rfl rfl rfl
  | some p => exact (CMono.of_eq rfl rfl rfl).trans (rloopWith_mono run hrun runElse helse { ls with src := p } { s with c := { s.c with err := none } })

theorem loopNode_mono (loop : St → Res) (hl : Mono loop) : Mono (loopNode loop) := by
  intro s
  unfold loopNode
  have h := (CMono.of_eq rfl rfl rfl : CMono s.c ({ s with c := { s.c with brkD := 0 } } : St).c).trans (hl { s with c := { s.c with brkD := 0 } })
  simp only
  cases (loop { s with c := { s.c with brkD := 0 } }).err with
  | some e => exact h.trans (CMono.of_eq rfl rfl rfl)
  | none =>
    simp only
    cases (loop { s with c := { s.c with brkD := 0 } }).st.c.err with
    | none => exact h.trans (CMono.of_eq rfl rfl rfl)
    | some e => simp only; unfold loopErrRes; split <;> exact h.trans (CMono.of_eq rfl rfl rfl)

theorem interp_mono (reg : Registry) : ∀ f : Nat,
    (∀ nodes, Mono (writeTree reg f nodes)) ∧
    (∀ nodes, Mono (writeSeq reg f nodes)) ∧
    (∀ n, Mono (writeNode reg f n)) ∧
    (∀ arg all cs, Mono (switchNode reg f arg all cs)) := by
  intro f
  induction f with
  | zero =>
    refine ⟨?_, ?_, ?_, ?_⟩
    · intro nodes s; rw [writeTree]; exact CMono.refl _
    · intro nodes s; rw [writeSeq]; exact CMono.refl _
    · intro n s; rw [writeNode]; exact CMono.refl _
    · intro a al cs s; rw [switchNode]; exact CMono.refl _
  | succ f ih =>
    obtain ⟨ihT, ihS, ihN, ihW⟩ := ih
    refine ⟨?_, ?_, ?_, ?_⟩
    · intro nodes s
      rw [writeTree]; simp only
      split
      · exact (ihS nodes s).trans (CMono.of_eq rfl rfl rfl)
      · exact ihS nodes s
    · intro nodes
      cases nodes with
      | nil => intro s; rw [writeSeq]; exact CMono.refl _
      | cons n rest =>
        intro s; rw [writeSeq]
        exact Mono.andThen (ihN n) (ihS rest) s
    · intro n
      cases n with
      | raw b => intro s; rw [writeNode]; exact write_mono _ s
      | tpl path mods noesc pre suf =>
        intro s; rw [writeNode]
        have h := evalPrint_mono s.c path mods
        generalize evalPrint s.c path mods = ep at h
        obtain ⟨c2, o⟩ := ep
        cases o with
        | stop e => exact h
        | text t => exact h.trans (tplWrites_mono pre t suf noesc { s with c := c2 })
      | ctx cs => intro s; rw [writeNode]; exact ctxNode_mono s.c cs
      | counter cs => intro s; rw [writeNode]; exact counterNode_mono s.c cs
      | condOK k child =>
        intro s; rw [writeNode]
        split
        · exact CMono.refl _
        · have h := evalCondOK_mono s.c k
          generalize evalCondOK s.c k = ec at h
          obtain ⟨c1, o⟩ := ec
          cases o with
          | stop e => exact h
          | branch r pending =>
            simp only
            cases (if r then child[0]? else child[1]?) with
            | none => exact h
            | some n => exact h.trans (ihN n { s with c := c1 })
      | cond cd child =>
        intro s; rw [writeNode]
        have h := evalCond_mono s.c cd
        generalize evalCond s.c cd = ec at h
        obtain ⟨c1, o⟩ := ec
        cases o with
        | stop e => exact h
        | branch r pending =>
          simp only
          cases (if r then child[0]? else child[1]?) with
          | none => exact h
          | some n => exact h.trans (ihN n { s with c := c1 })
      | condTrue child => intro s; rw [writeNode]; exact ihS child s
      | condFalse child => intro s; rw [writeNode]; exact ihS child s
      | case_ k child => intro s; rw [writeNode]; exact ihS child s
      | default_ child => intro s; rw [writeNode]; exact ihS child s
      | cloop ls child =>
        intro s; rw [writeNode]
        apply loopNode_mono
        apply cloopWith_mono
        · exact ihS _
        · intro re hre
          rw [Option.map_eq_some_iff] at hre
          obtain ⟨a, _, rfl⟩ := hre
          exact elseRun_mono _ (elseSeq_mono _ (by intro r hr; simp only [List.mem_map] at hr; obtain ⟨n, _, rfl⟩ := hr; exact ihN n)) _
      | rloop ls child =>
        intro s; rw [writeNode]
        apply loopNode_mono
        apply rloopQB_mono
        · exact ihS _
        · intro re hre
          rw [Option.map_eq_some_iff] at hre
          obtain ⟨a, _, rfl⟩ := hre
          exact elseRun_mono _ (elseSeq_mono _ (by intro r hr; simp only [List.mem_map] at hr; obtain ⟨n, _, rfl⟩ := hr; exact ihN n)) _
      | brk d => intro s; rw [writeNode]; exact CMono.of_eq rfl rfl rfl
      | lbrk d => intro s; rw [writeNode]; exact CMono.of_eq rfl rfl rfl
      | cont => intro s; rw [writeNode]; exact CMono.refl _
      | switch arg child => intro s; rw [writeNode]; exact ihW arg child child s
      | incl names =>
        intro s; rw [writeNode]
        cases reg.getBKeys names with
        | none => exact CMono.refl _
        | some nodes =>
          simp only
          split
          · exact CMono.refl _
          · have h : CMono s.c (writeTree reg f nodes { c := { s.c with incD := s.c.incD + 1 }, w := {} }).st.c :=
              (CMono.of_eq rfl rfl rfl : CMono s.c ({ c := { s.c with incD := s.c.incD + 1 }, w := {} } : St).c).trans (ihT nodes _)
            generalize writeTree reg f nodes { c := { s.c with incD := s.c.incD + 1 }, w := {} } = r at h
            unfold inclFinish
            cases r.err with
            | some e =>
              simp only
              split
              · exact h.trans (CMono.of_eq rfl rfl rfl)
              · exact (h.trans (CMono.of_eq rfl rfl rfl)).trans (write_mono _ _)
            | none =>
              simp only
              exact (h.trans (CMono.of_eq rfl rfl rfl)).trans (write_mono _ _)
      | exit => intro s; rw [writeNode]; exact CMono.refl _
      | jsonQ => intro s; rw [writeNode]; exact CMono.of_eq rfl rfl rfl
      | endJsonQ => intro s; rw [writeNode]; exact CMono.of_eq rfl rfl rfl
      | htmlE => intro s; rw [writeNode]; exact CMono.of_eq rfl rfl rfl
      | endHtmlE => intro s; rw [writeNode]; exact CMono.of_eq rfl rfl rfl
      | urlEnc => intro s; rw [writeNode]; exact CMono.of_eq rfl rfl rfl
      | endUrlEnc => intro s; rw [writeNode]; exact CMono.of_eq rfl rfl rfl
      | div => intro s; rw [writeNode]; exact CMono.refl _
      | unknown => intro s; rw [writeNode]; exact CMono.refl _
    · intro arg all cs
      cases cs with
      | nil =>
        intro s; rw [switchNode]
        cases all.find? Node.isDefault with
        | none => exact CMono.refl _
        | some d => exact ihN d s
      | cons ch rest =>
        intro s; rw [switchNode]
        cases ch.asCase with
        | none => exact ihW arg all rest s
        | some kk =>
          simp only
          have h := evalCase_mono s.c arg kk
          generalize evalCase s.c arg kk = ec at h
          obtain ⟨c1, o⟩ := ec
          cases o with
          | stop e => exact h
          | branch r pending =>
            simp only
            cases r with
            | true => simp only [if_true]; exact h.trans (ihN ch _)
            | false => simp only [Bool.false_eq_true, if_false]; exact h.trans (ihW arg all rest _)

end DyntplV
