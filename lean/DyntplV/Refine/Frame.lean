import DyntplV.Impl
/-!
  Frame / equivariance lemmas: the interpreter never READS the event log, the bytes already accepted by a
  fault-free writer, or its write counter — it only appends.  Formally: prefixing the log with `pl`, the
  output with `po` and adding `k` to the write counter commutes with every function of the interpreter
  (for a writer without fault injection).

  Used for: C05 (a reset context differs from a new one only in the log prefix), C16 (an include renders
  into a scratch buffer exactly what inlining would append), C18.
-/
namespace DyntplV

/-- Shift of the ghost history: log prefix. -/
def Ctx.pre (pl : List Event) (c : Ctx) : Ctx := { c with log := pl ++ c.log }

/-- Shift of a fault-free writer: bytes already accepted and number of earlier writes. -/
def Writer.pre (po : Bytes) (k : Nat) (w : Writer) : Writer := { w with out := po ++ w.out, writes := k + w.writes }

def St.pre (pl : List Event) (po : Bytes) (k : Nat) (s : St) : St := { c := s.c.pre pl, w := s.w.pre po k }

def Res.pre (pl : List Event) (po : Bytes) (k : Nat) (r : Res) : Res := { st := r.st.pre pl po k, err := r.err }

@[simp] theorem Ctx.pre_vars (pl : List Event) (c : Ctx) : (c.pre pl).vars = c.vars := rfl
@[simp] theorem Ctx.pre_chQB (pl : List Event) (c : Ctx) : (c.pre pl).chQB = c.chQB := rfl
@[simp] theorem Ctx.pre_err (pl : List Event) (c : Ctx) : (c.pre pl).err = c.err := rfl
@[simp] theorem Ctx.pre_brkD (pl : List Event) (c : Ctx) : (c.pre pl).brkD = c.brkD := rfl
@[simp] theorem Ctx.pre_incD (pl : List Event) (c : Ctx) : (c.pre pl).incD = c.incD := rfl

theorem Ctx.pre_get (pl : List Event) (c : Ctx) (p : Bytes) :
    (c.pre pl).get p = ((c.get p).1, (c.get p).2.pre pl) := rfl

theorem Ctx.pre_cmp (pl : List Event) (c : Ctx) (p : Bytes) (o : Op) (r : Bytes) :
    (c.pre pl).cmp p o r = ((c.cmp p o r).1, (c.cmp p o r).2.pre pl) := rfl

theorem Ctx.pre_cmpLC (pl : List Event) (c : Ctx) (p : Bytes) (o : Op) (r : Bytes) :
    (c.pre pl).cmpLC p o r = ((c.cmpLC p o r).1, (c.cmpLC p o r).2.pre pl) := rfl

theorem Ctx.pre_set (pl : List Event) (c : Ctx) (k : Bytes) (v : Val) (i : InsKind) :
    (c.pre pl).set k v i = (c.set k v i).pre pl := rfl
theorem Ctx.pre_setStatic (pl : List Event) (c : Ctx) (k : Bytes) (v : Val) :
    (c.pre pl).setStatic k v = (c.setStatic k v).pre pl := rfl
theorem Ctx.pre_setBytes (pl : List Event) (c : Ctx) (k : Bytes) (b : Bytes) :
    (c.pre pl).setBytes k b = (c.setBytes k b).pre pl := rfl
theorem Ctx.pre_setCounter (pl : List Event) (c : Ctx) (k : Bytes) (n : Int) :
    (c.pre pl).setCounter k n = (c.setCounter k n).pre pl := rfl

theorem collectArgs_pre (pl : List Event) : ∀ (args : List Arg) (c : Ctx),
    collectArgs (c.pre pl) args = ((collectArgs c args).1, (collectArgs c args).2.pre pl)
  | [], c => rfl
  | a :: rest, c => by
    simp only [collectArgs]
    have ih := collectArgs_pre pl rest
    by_cases h1 : a.name.isEmpty = true
    · by_cases h2 : a.global = true
      · simp only [h1, Bool.not_true, Bool.false_eq_true, if_false, h2, if_true]
        rw [ih]
      · by_cases h3 : a.static = true
        · simp only [h1, Bool.not_true, Bool.false_eq_true, if_false, h2, h3, if_true]
          rw [ih]
        · simp only [h1, Bool.not_true, Bool.false_eq_true, if_false, h2, h3]
          rw [Ctx.pre_get, ih]
    · have h1' : a.name.isEmpty = false := by simpa using h1
      by_cases h3 : a.static = true
      · simp only [h1', Bool.not_false, if_true, h3]
        rw [ih]
      · simp only [h1', Bool.not_false, if_true, h3, Bool.false_eq_true, if_false]
        rw [Ctx.pre_get, ih]

theorem collectHlpArgs_pre (pl : List Event) : ∀ (args : List Arg) (c : Ctx),
    collectHlpArgs (c.pre pl) args = ((collectHlpArgs c args).1, (collectHlpArgs c args).2.pre pl)
  | [], c => rfl
  | a :: rest, c => by
    simp only [collectHlpArgs]
    have ih := collectHlpArgs_pre pl rest
    by_cases h3 : a.static = true
    · simp only [h3, if_true]; rw [ih]
    · simp only [h3, Bool.false_eq_true, if_false]; rw [Ctx.pre_get, ih]

theorem Ctx.pre_applyEff (pl : List Event) (c : Ctx) (e : ModEff) :
    (c.pre pl).applyEff e = (c.applyEff e).pre pl := by
  simp [Ctx.applyEff, Ctx.pre, List.append_assoc]

theorem applyMod_pre (pl : List Event) (c : Ctx) (id : Bytes) (val : Val) (args : List ArgVal) :
    applyMod (c.pre pl) id val args = (applyMod c id val args).map (fun p => (p.1, p.2.pre pl)) := by
  unfold applyMod
  cases modValue id val args with
  | none => rfl
  | some r => simp [Ctx.pre_applyEff]

theorem runMods_pre (pl : List Event) : ∀ (mods : List Mod) (c : Ctx) (raw : Val),
    runMods (c.pre pl) raw mods = ((runMods c raw mods).1, (runMods c raw mods).2.pre pl)
  | [], c, raw => rfl
  | m :: rest, c, raw => by
    simp only [runMods]
    rw [collectArgs_pre, applyMod_pre]
    cases h : applyMod (collectArgs c m.args).2 m.id raw (collectArgs c m.args).1 with
    | none => rfl
    | some p =>
      obtain ⟨r, c2⟩ := p
      cases r with
      | error e => rfl
      | ok v =>
        simp only [Option.map]
        exact runMods_pre pl rest { c2 with err := none } v

theorem nodeCmp_pre (pl : List Event) (c : Ctx) (l r : Bytes) (sl sr : Bool) (o : Op) :
    nodeCmp (c.pre pl) l r sl sr o =
      ((nodeCmp c l r sl sr o).1, (nodeCmp c l r sl sr o).2.1, (nodeCmp c l r sl sr o).2.2.pre pl) := by
  unfold nodeCmp
  by_cases h1 : (sl && sr) = true
  · simp [h1]
  · simp only [h1, Bool.false_eq_true, if_false]
    by_cases h2 : sr = true
    · simp only [h2, if_true]; rfl
    · simp only [h2, Bool.false_eq_true, if_false]
      by_cases h3 : sl = true
      · simp only [h3, if_true]; rfl
      · simp only [h3, Bool.false_eq_true, if_false]
        rw [Ctx.pre_get]
        simp only [Ctx.pre_err]
        cases (c.get r).2.err with
        | some e => rfl
        | none =>
          simp only
          cases (c.get r).1.text with
          | none => rfl
          | some t => rfl

theorem textBound_pre (pl : List Event) (s : Bytes) (c1 : Ctx) :
    textBound s (c1.pre pl) = ((textBound s c1).1, (textBound s c1).2.pre pl) := by
  unfold textBound
  split
  · rfl
  · cases parseInt64Lit s <;> rfl

theorem cloopRange_pre (pl : List Event) (c : Ctx) (st : Bool) (b : Bytes) :
    cloopRange (c.pre pl) st b = ((cloopRange c st b).1, (cloopRange c st b).2.pre pl) := by
  unfold cloopRange
  by_cases h : st = true
  · simp only [h, if_true]
    cases parseIntLit b <;> rfl
  · simp only [h, Bool.false_eq_true, if_false]
    rw [Ctx.pre_get]
    simp only [Ctx.pre_err]
    cases (c.get b).2.err with
    | some e => rfl
    | none =>
      simp only
      cases (c.get b).1 <;> first | rfl | exact textBound_pre pl _ _

theorem evalPrint_pre (pl : List Event) (c : Ctx) (path : Bytes) (mods : List Mod) :
    evalPrint (c.pre pl) path mods = ((evalPrint c path mods).1.pre pl, (evalPrint c path mods).2) := by
  unfold evalPrint
  rw [Ctx.pre_get]
  simp only [Ctx.pre_err]
  cases (c.get path).2.err with
  | some e => rfl
  | none =>
    simp only
    rw [runMods_pre]
    simp only [Ctx.pre_err]
    cases (runMods (c.get path).2 (c.get path).1 mods).2.err with
    | some e => rfl
    | none =>
      simp only
      split
      · rfl
      · split
        · rfl
        · split <;> rfl

theorem ctxAssign_pre (pl : List Event) (c : Ctx) (var : Bytes) (raw : Val) (kind : InsKind) :
    ctxAssign (c.pre pl) var raw kind = (ctxAssign c var raw kind).pre pl := by
  unfold ctxAssign
  split
  · split <;> rfl
  · rfl

theorem ctxNode_pre (pl : List Event) (c : Ctx) (cs : CtxSpec) :
    ctxNode (c.pre pl) cs = ((ctxNode c cs).1.pre pl, (ctxNode c cs).2) := by
  unfold ctxNode
  split
  · split <;> rfl
  · split
    · rfl
    · rw [Ctx.pre_get]
      simp only [Ctx.pre_err]
      cases (c.get cs.src).2.err with
      | some e => rfl
      | none =>
        simp only
        rw [runMods_pre]
        simp only [Ctx.pre_err]
        cases (runMods (c.get cs.src).2 (c.get cs.src).1 cs.mods).2.err with
        | some e => rfl
        | none =>
          simp only
          split
          · split <;> rfl
          · split
            · rw [ctxAssign_pre]
            · rw [Ctx.pre_setStatic, ctxAssign_pre]

theorem counterNode_pre (pl : List Event) (c : Ctx) (cs : CntrSpec) :
    counterNode (c.pre pl) cs = ((counterNode c cs).1.pre pl, (counterNode c cs).2) := by
  unfold counterNode
  split
  · rfl
  · rw [Ctx.pre_get]
    simp only [Ctx.pre_err]
    cases (c.get cs.var).2.err <;> rfl

theorem evalCond_pre (pl : List Event) (c : Ctx) (cd : CondSpec) :
    evalCond (c.pre pl) cd = ((evalCond c cd).1.pre pl, (evalCond c cd).2) := by
  unfold evalCond
  split
  · rw [show (c.pre pl).clrErr = c.clrErr.pre pl from rfl, collectHlpArgs_pre]
    simp only [Ctx.pre_err]
    cases applyCondFn cd.hlp (collectHlpArgs c.clrErr cd.hlpArg).1 with
    | none => rfl
    | some b => simp only; cases (collectHlpArgs c.clrErr cd.hlpArg).2.err <;> rfl
  · split
    · cases cd.hlpArg with
      | nil => rfl
      | cons a rest =>
        simp only
        rw [Ctx.pre_cmpLC]
        simp only [Ctx.pre_err]
        cases (c.cmpLC a.val cd.op cd.r).2.err <;> rfl
    · rw [nodeCmp_pre]
      simp only [Ctx.pre_err]
      cases (nodeCmp c cd.l cd.r cd.staticL cd.staticR cd.op).2.2.err <;> rfl

theorem evalCondOK_pre (pl : List Event) (c : Ctx) (k : CondOKSpec) :
    evalCondOK (c.pre pl) k = ((evalCondOK c k).1.pre pl, (evalCondOK c k).2) := by
  unfold evalCondOK
  cases applyCondOKFn k.cd.hlp with
  | none => rfl
  | some fn =>
    simp only
    rw [collectHlpArgs_pre]
    simp only
    split
    · rfl
    · split
      · rfl
      · rw [show condOKAssign ((collectHlpArgs c k.cd.hlpArg).2.pre pl) k (fn (collectHlpArgs c k.cd.hlpArg).1).1 (fn (collectHlpArgs c k.cd.hlpArg).1).2 =
            (condOKAssign (collectHlpArgs c k.cd.hlpArg).2 k (fn (collectHlpArgs c k.cd.hlpArg).1).1 (fn (collectHlpArgs c k.cd.hlpArg).1).2).pre pl from rfl, nodeCmp_pre]

theorem evalCase_pre (pl : List Event) (c : Ctx) (arg : Bytes) (k : CaseSpec) :
    evalCase (c.pre pl) arg k = ((evalCase c arg k).1.pre pl, (evalCase c arg k).2) := by
  unfold evalCase
  split
  · split
    · rfl
    · rw [Ctx.pre_get]
      simp only [Ctx.pre_err]
      cases (c.get k.l).2.err with
      | some e => rfl
      | none =>
        simp only
        cases (c.get k.l).1.text <;> rfl
  · split
    · rw [show (c.pre pl).clrErr = c.clrErr.pre pl from rfl, collectHlpArgs_pre]
      simp only [Ctx.pre_err]
      cases applyCondFn k.hlp (collectHlpArgs c.clrErr k.hlpArg).1 with
      | none => rfl
      | some b => simp only; cases (collectHlpArgs c.clrErr k.hlpArg).2.err <;> rfl
    · rw [nodeCmp_pre]
      simp only [Ctx.pre_err]
      cases (nodeCmp c k.l k.r k.staticL k.staticR k.op).2.1 with
      | some e => rfl
      | none =>
        simp only
        cases (nodeCmp c k.l k.r k.staticL k.staticR k.op).2.2.err <;> rfl

theorem loopBounds_pre (pl : List Event) (c : Ctx) (ls : CLoopSpec) :
    loopBounds (c.pre pl) ls = ((loopBounds c ls).1.pre pl, (loopBounds c ls).2) := by
  unfold loopBounds
  rw [cloopRange_pre]
  simp only
  cases (cloopRange c ls.cntStatic ls.cntInit).1 with
  | error e => rfl
  | ok cnt =>
    simp only
    rw [cloopRange_pre]
    simp only
    cases (cloopRange (cloopRange c ls.cntStatic ls.cntInit).2 ls.limStatic ls.lim).1 <;> rfl

end DyntplV
