import DyntplV.Refine.Term
import DyntplV.Refine.IncD

/-!
# Termination with includes: the include limit bounds every chain

`Refine/Term.lean` excludes includes. This file puts them back: **for a registry whose templates contain no counter
loop, and a tree without counter loops, a fuel computed from the tree, the registry and the include limit suffices** —
`need(tree) + (maxIncDepth − depth so far) · R`, where `R` bounds the need of every registered template. The include
graph may be anything (a template may include itself): the chain is cut by the include limit, and the proof follows the
depth counter `ctx.incD`, which every construct restores (`Refine/IncD.lean`).
-/

namespace DyntplV
namespace TermIncl

open Clean IncD Term

/-- A state at include depth `k` whose `ctx.Err` is not `outOfFuel`. -/
def SK (k : Nat) (s : St) : Prop := OK s.c.err ∧ s.c.incD = k
/-- A result at include depth `k` that neither returns `outOfFuel` nor leaves it in `ctx.Err`. -/
def RK (k : Nat) (r : Res) : Prop := OK r.err ∧ OK r.st.c.err ∧ r.st.c.incD = k

theorem RK.of {k : Nat} {s : St} {r : Res} (h1 : ROK r) (h2 : Keeps s r) (hs : SK k s) : RK k r :=
  ⟨h1.1, h1.2, h2.trans hs.2⟩

theorem SK.sok {k : Nat} {s : St} (h : SK k s) : SOK s := h.1
theorem RK.sk {k : Nat} {r : Res} (h : RK k r) : SK k r.st := ⟨h.2.1, h.2.2⟩

theorem ok_RK {k : Nat} (s : St) (h : SK k s) : RK k (ok s) := ⟨by simp [ok], h.1, h.2⟩
theorem fail_RK {k : Nat} (s : St) (e : Err) (h : SK k s) (he : e ≠ .outOfFuel) : RK k (fail s e) := ⟨OK_some he, h.1, h.2⟩

theorem write_RK {k : Nat} (s : St) (p : Bytes) (h : SK k s) : RK k (s.write p) :=
  RK.of (write_ROK s p h.sok) (write_keeps s p) h

theorem andThen_RK {k : Nat} (r : Res) (kf : St → Res) (hr : RK k r) (hk : ∀ st, SK k st → RK k (kf st)) :
    RK k (r.andThen kf) := by
  unfold Res.andThen
  split
  · exact hr
  · exact hk _ hr.sk

theorem tplWrites_RK {k : Nat} (s : St) (pre t suf : Bytes) (noesc : Bool) (h : SK k s) : RK k (tplWrites s pre t suf noesc) :=
  RK.of (tplWrites_ROK s pre t suf noesc h.sok) (tplWrites_keeps s pre t suf noesc) h

theorem iterAfterBody_SK {k : Nat} (rb : Res) (h : RK k rb) : SK k (iterAfterBody rb).st :=
  ⟨iterAfterBody_SOK rb ⟨h.1, h.2.1⟩, (iterAfterBody_incD rb).trans h.2.2⟩

theorem sepWrite_RK {k : Nat} (n : Nat) (sep : Bytes) (s : St) (h : SK k s) : RK k (sepWrite n sep s) :=
  RK.of (sepWrite_ROK n sep s h.sok) (sepWrite_keeps n sep s) h

theorem rloopLoop_SK {k : Nat} (run : St → Res) (hrun : ∀ s, SK k s → RK k (run s)) (ls : RLoopSpec) :
    ∀ (items : List (Bytes × Val × InsKind)) (n : Nat) (s : St), SK k s → SK k (rloopLoop run ls items n s).st := by
  intro items
  induction items with
  | nil => intro n s h; rw [rloopLoop]; exact h
  | cons it rest ih =>
    intro n s h
    obtain ⟨key, v, ik⟩ := it
    rw [rloopLoop]
    simp only
    have h0 : SK k (rIterStart ls key v ik s) := by
      refine ⟨?_, (rIterStart_incD ls key v ik s).trans h.2⟩
      unfold rIterStart
      simp only
      split <;> simpa using h.1
    have hs := sepWrite_RK n ls.sep _ h0
    split
    · rename_i e he
      refine ⟨?_, hs.2.2⟩
      show OK (some e)
      rw [← he]; exact hs.1
    · have hb := iterAfterBody_SK _ (hrun _ hs.sk)
      split
      · rename_i st hst; rw [hst] at hb; exact hb
      · rename_i st hst; rw [hst] at hb; exact hb
      · rename_i st hst; rw [hst] at hb; exact ih _ _ hb

theorem elseSeq_RK {k : Nat} : ∀ (l : List (St → Res)) (s : St), (∀ r ∈ l, ∀ st, SK k st → RK k (r st)) → SK k s → RK k (elseSeq l s) := by
  intro l
  induction l with
  | nil => intro s _ h; rw [elseSeq]; exact ok_RK _ h
  | cons r rest ih =>
    intro s hl h
    rw [elseSeq]
    have hr := hl r (List.mem_cons_self) s h
    split
    · exact hr
    · apply ih
      · intro r' hr' st hst; exact hl r' (List.mem_cons_of_mem _ hr') st hst
      · exact ⟨by simp, hr.2.2⟩

theorem elseRun_RK {k : Nat} (run : St → Res) (ne : Bool) (s : St) (hrun : ∀ st, SK k st → RK k (run st)) (h : SK k s) :
    RK k (elseRun run ne s) := by
  unfold elseRun
  simp only
  have hr := hrun s h
  split
  · rename_i e he
    refine ⟨by simp [ok], ?_, hr.2.2⟩
    show OK (some e)
    rw [← he]; exact hr.1
  · refine ⟨by simp [ok], ?_, ?_⟩
    · simp only [ok]
      split
      · simp
      · exact hr.2.1
    · simp only [ok]
      split
      · exact hr.2.2
      · exact hr.2.2

/-- The optional else-branch runner is good at depth `k`. -/
def ElseK (k : Nat) (re : Option (St → Res)) : Prop := ∀ f, re = some f → ∀ st, SK k st → RK k (f st)

theorem afterLoop_RK {k : Nat} (re : Option (St → Res)) (r : LoopRes) (sE : St) (hre : ElseK k re) (hr : SK k r.st) (hE : SK k sE) :
    RK k (afterLoop re r sE) := by
  unfold afterLoop
  split
  · exact ok_RK _ hr
  · split
    · split
      · rename_i f; exact hre f rfl _ hE
      · exact ok_RK _ hE
    · exact ok_RK _ hE

theorem rloopWith_RK {k : Nat} (run : St → Res) (re : Option (St → Res)) (ls : RLoopSpec) (s : St)
    (hrun : ∀ s, SK k s → RK k (run s)) (hre : ElseK k re) (h : SK k s) : RK k (rloopWith run re ls s) := by
  unfold rloopWith
  split
  · exact ok_RK _ h
  · split
    · split
      · rename_i f; exact hre f rfl _ h
      · exact ok_RK _ h
    · simp only
      have hl := rloopLoop_SK run hrun ls (loopItems (by assumption) (by assumption)) 0 s h
      apply afterLoop_RK _ _ _ hre hl
      exact ⟨by simp, hl.2⟩

theorem rloopQB_RK {k : Nat} (run : St → Res) (re : Option (St → Res)) (ls : RLoopSpec) (s : St)
    (hrun : ∀ s, SK k s → RK k (run s)) (hre : ElseK k re) (h : SK k s) : RK k (rloopQB run re ls s) := by
  unfold rloopQB
  split
  · exact ⟨by simp [ok], by simp [ok, OK], h.2⟩
  · exact rloopWith_RK run re _ _ hrun hre ⟨by simp, h.2⟩

theorem loopNode_RK {k : Nat} (loop : St → Res) (s : St) (hl : ∀ s, SK k s → RK k (loop s)) (h : SK k s) : RK k (loopNode loop s) := by
  unfold loopNode
  simp only
  have hr := hl { s with c := { s.c with brkD := 0 } } h
  split
  · exact hr
  · split
    · rename_i e he
      have hne : e ≠ .outOfFuel := by
        intro hh; subst hh; exact hr.2.1 he
      unfold loopErrRes
      split
      · exact ⟨OK_some hne, by simp [fail], hr.2.2⟩
      · exact ⟨OK_some hne, by simp only [fail]; rw [he]; exact OK_some hne, hr.2.2⟩
    · exact hr

/-- The include node after the nested rendering: the error of the included template or of the copy, the context of the
    nested rendering one level up. -/
theorem inclFinish_RK {k : Nat} (s : St) (r : Res) (hr : RK (k+1) r) :
    RK k (inclFinish s { r with st := { r.st with c := { r.st.c with incD := r.st.c.incD - 1 } } }) := by
  have hd : r.st.c.incD - 1 = k := by rw [hr.2.2]; rfl
  unfold inclFinish
  simp only
  split
  · rename_i e he
    have hne : e ≠ .outOfFuel := by
      intro hh; subst hh; exact hr.1 he
    split
    · exact ⟨OK_some hne, hr.2.1, hd⟩
    · refine ⟨?_, ?_, ?_⟩
      · simp only [Res.orErr]
        have hw := write_ROK ({ s with c := { r.st.c with incD := r.st.c.incD - 1 } } : St) r.st.w.out hr.2.1
        cases hwe : (({ s with c := { r.st.c with incD := r.st.c.incD - 1 } } : St).write r.st.w.out).err with
        | none => simpa using OK_some hne
        | some e' => simp only [Option.getD_some]; rw [← hwe]; exact hw.1
      · exact (write_ROK ({ s with c := { r.st.c with incD := r.st.c.incD - 1 } } : St) r.st.w.out hr.2.1).2
      · exact (write_keeps ({ s with c := { r.st.c with incD := r.st.c.incD - 1 } } : St) r.st.w.out).trans hd
  · exact RK.of (write_ROK _ _ hr.2.1) (write_keeps _ _) ⟨hr.2.1, hd⟩

/-! ### Counter loops that step towards their limit -/

theorem dist_step (co so : Op) (v lim : Int) (m : Nat) (hso : (so == .inc || so == .dec) = true)
    (ha : loopAllows co v lim = some true) (hd : dist co so v lim = some m) :
    ∃ m', dist co so (stepVal so v) lim = some m' ∧ m' < m := by
  unfold dist at hd ⊢
  unfold stepVal
  unfold loopAllows at ha
  cases so <;> simp at hso <;> cases co <;> simp at ha hd ⊢ <;> (try omega)
  · subst ha; simp at hd; subst hd; have : ¬ (v + 1 = v) := by omega
    simp [this]
  · exact ⟨(lim - (v + 1)).toNat, ⟨by omega, rfl⟩, by omega⟩
  · subst ha; simp at hd; subst hd; have : ¬ (v - 1 = v) := by omega
    simp [this]
  · exact ⟨(v - 1 - lim).toNat, ⟨by omega, rfl⟩, by omega⟩


/-- **A counter loop that steps towards its limit does not run out of its iteration budget**: with `dist = some m` and a
    budget above `m`, for ANY body that is good at depth `k`, the iteration part ends without `outOfFuel` in `ctx.Err`. -/
theorem cloopLoop_SK {k : Nat} (run : St → Res) (hrun : ∀ s, SK k s → RK k (run s)) (ls : CLoopSpec) :
    ∀ (f : Nat) (v lim : Int) (n : Nat) (s : St) (m : Nat), dist ls.condOp ls.cntOp v lim = some m → m < f → SK k s →
      SK k (cloopLoop run ls f v lim n s).st := by
  intro f
  induction f with
  | zero => intro v lim n s m _ h; omega
  | succ f ih =>
    intro v lim n s m hd hm hs
    rw [cloopLoop]
    cases hla : loopAllows ls.condOp v lim with
    | none => exact ⟨by simp [OK], hs.2⟩
    | some b =>
      cases b with
      | false => exact ⟨by simpa using hs.1, hs.2⟩
      | true =>
        simp only
        have h1 : SK k ({ s with c := s.c.setStatic ls.cnt (.int v) } : St) := ⟨by simpa using hs.1, hs.2⟩
        have hsw := sepWrite_RK n ls.sep _ h1
        generalize sepWrite n ls.sep { s with c := s.c.setStatic ls.cnt (.int v) } = rs at hsw
        cases hre : rs.err with
        | some e =>
          simp only
          refine ⟨?_, hsw.2.2⟩
          show OK (some e)
          rw [← hre]; exact hsw.1
        | none =>
          simp only
          have h2 : SK k (clrErrIf (n > 0 && !ls.sep.isEmpty) rs.st) := by
            unfold clrErrIf
            split
            · exact ⟨by simp, hsw.2.2⟩
            · exact hsw.sk
          generalize clrErrIf (n > 0 && !ls.sep.isEmpty) rs.st = rs1 at h2
          have h3 : SK k ({ rs1 with c := { rs1.c with chQB := true } } : St) := ⟨h2.1, h2.2⟩
          have hb := hrun _ h3
          generalize run { rs1 with c := { rs1.c with chQB := true } } = rb0 at hb
          have hb' : RK k ({ rb0 with st := { rb0.st with c := { rb0.st.c with chQB := rs1.c.chQB } } } : Res) := ⟨hb.1, hb.2.1, hb.2.2⟩
          have hio := iterAfterBody_SK _ hb'
          by_cases hop : (ls.cntOp == .inc || ls.cntOp == .dec) = true
          · simp only [hop, if_true]
            generalize iterAfterBody ({ rb0 with st := { rb0.st with c := { rb0.st.c with chQB := rs1.c.chQB } } } : Res) = io at hio
            cases io with
            | abort st => exact hio
            | stop st => exact ⟨by simp, hio.2⟩
            | next st =>
              obtain ⟨m', hd', hlt⟩ := dist_step ls.condOp ls.cntOp v lim m hop hla hd
              exact ih _ _ _ _ m' hd' (by omega) ⟨by simp, hio.2⟩
          · simp only [hop, Bool.false_eq_true, if_false]
            generalize iterAfterBody ({ rb0 with st := { rb0.st with c := { rb0.st.c with chQB := rs1.c.chQB } } } : Res) = io at hio
            cases io with
            | abort st => exact hio
            | stop st => exact ⟨by simp [OK], hb.2.2⟩
            | next st => exact ⟨by simp [OK], hb.2.2⟩


theorem textBound_SKc {k : Nat} (sb : Bytes) (c : Ctx) (h : OK c.err ∧ c.incD = k) :
    OK (textBound sb c).2.err ∧ (textBound sb c).2.incD = k := by
  unfold textBound
  split
  · exact h
  · split
    · exact h
    · exact ⟨by simp [OK], h.2⟩

theorem cloopRange_SKc {k : Nat} (c : Ctx) (st : Bool) (b : Bytes) (h : OK c.err ∧ c.incD = k) :
    OK (cloopRange c st b).2.err ∧ (cloopRange c st b).2.incD = k := by
  unfold cloopRange
  split
  · split
    · exact ⟨by simp, h.2⟩
    · exact ⟨by simp [OK], h.2⟩
  · simp only
    have hg : OK (c.get b).2.err ∧ (c.get b).2.incD = k := ⟨get_clean _ _, h.2⟩
    split
    · exact hg
    · split
      · exact hg
      · exact hg
      · exact textBound_SKc _ _ hg
      · exact textBound_SKc _ _ hg
      · exact ⟨by simp [OK], hg.2⟩

theorem loopBounds_SKc {k : Nat} (c : Ctx) (ls : CLoopSpec) (h : OK c.err ∧ c.incD = k) :
    OK (loopBounds c ls).1.err ∧ (loopBounds c ls).1.incD = k := by
  unfold loopBounds
  have h1 := cloopRange_SKc c ls.cntStatic ls.cntInit h
  split
  · exact h1
  · simp only
    have h2 := cloopRange_SKc (cloopRange c ls.cntStatic ls.cntInit).2 ls.limStatic ls.lim h1
    split
    · exact h2
    · exact h2

/-- `Ctx.cloop` as a whole: bounds, iterations, else-branch. -/
theorem cloopWith_RK {k : Nat} (run : St → Res) (re : Option (St → Res)) (f : Nat) (ls : CLoopSpec) (s : St)
    (hrun : ∀ s, SK k s → RK k (run s)) (hre : ElseK k re) (hs : SK k s)
    (hb : ∀ cnt lim, (loopBounds s.c ls).2 = some (cnt, lim) → ∃ m, dist ls.condOp ls.cntOp cnt lim = some m ∧ m < f) :
    RK k (cloopWith run re f ls s) := by
  unfold cloopWith cloopAfter
  have h0 : SK k ({ s with c := (loopBounds s.c ls).1 } : St) := loopBounds_SKc s.c ls hs
  cases hbd : (loopBounds s.c ls).2 with
  | none => exact ok_RK _ h0
  | some p =>
    obtain ⟨cnt, lim⟩ := p
    obtain ⟨m, hd, hm⟩ := hb cnt lim hbd
    simp only
    have hl := cloopLoop_SK run hrun ls f cnt lim 0 _ m hd hm h0
    exact afterLoop_RK _ _ _ hre hl hl

/-- **The counter-loop node.** Whatever the body and the else-branch (good at depth `k`), a counter loop whose bounds
    let it step towards its limit — `dist` of the bounds is some `m` below the fuel — returns without `outOfFuel`. -/
theorem cloopNode_RK {k : Nat} (run : St → Res) (re : Option (St → Res)) (f : Nat) (ls : CLoopSpec) (s : St)
    (hrun : ∀ s, SK k s → RK k (run s)) (hre : ElseK k re) (hs : SK k s)
    (hb : ∀ (c : Ctx) cnt lim, (loopBounds c ls).2 = some (cnt, lim) → ∃ m, dist ls.condOp ls.cntOp cnt lim = some m ∧ m < f) :
    RK k (loopNode (cloopWith run re f ls) s) :=
  loopNode_RK _ s (fun s' hs' => cloopWith_RK run re f ls s' hrun hre hs' (hb s'.c)) hs


/-- Literal bounds are what they say, in every context. -/
theorem loopBounds_literal (c : Ctx) (ls : CLoopSpec) (a b : Int) (h1 : ls.cntStatic = true) (h2 : ls.limStatic = true)
    (ha : parseIntLit ls.cntInit = some a) (hb : parseIntLit ls.lim = some b) : (loopBounds c ls).2 = some (a, b) := by
  unfold loopBounds cloopRange
  simp [h1, h2, ha, hb]

theorem cloopLit_bound (ls : CLoopSpec) (h : cloopLit ls = true) (f : Nat) (hf : cloopNeed ls ≤ f) :
    ∀ (c : Ctx) cnt lim, (loopBounds c ls).2 = some (cnt, lim) → ∃ m, dist ls.condOp ls.cntOp cnt lim = some m ∧ m < f := by
  intro c cnt lim hbd
  unfold cloopLit at h
  simp only [Bool.and_eq_true] at h
  obtain ⟨⟨h1, h2⟩, h3⟩ := h
  cases ha : parseIntLit ls.cntInit with
  | none => simp [ha] at h3
  | some a =>
    cases hb : parseIntLit ls.lim with
    | none => simp [ha, hb] at h3
    | some b =>
      simp only [ha, hb] at h3
      rw [loopBounds_literal c ls a b h1 h2 ha hb] at hbd
      simp only [Option.some.injEq, Prod.mk.injEq] at hbd
      obtain ⟨rfl, rfl⟩ := hbd
      cases hd : dist ls.condOp ls.cntOp a b with
      | none => simp [hd] at h3
      | some m =>
        refine ⟨m, rfl, ?_⟩
        unfold cloopNeed at hf
        simp only [h1, h2, Bool.and_self, if_true, ha, hb, hd] at hf
        omega

/-! ### Trees with includes -/

mutual
/-- Every counter loop in the node has literal bounds and steps towards its limit (includes allowed). -/
def lfNode : Node → Bool
  | .cond _ ch => lfSeq ch
  | .condOK _ ch => lfSeq ch
  | .condTrue ch => lfSeq ch
  | .condFalse ch => lfSeq ch
  | .case_ _ ch => lfSeq ch
  | .default_ ch => lfSeq ch
  | .rloop _ ch => lfSeq ch
  | .cloop ls ch => cloopLit ls && lfSeq ch
  | .switch _ ch => lfSeq ch
  | _ => true
def lfSeq : List Node → Bool
  | [] => true
  | n :: rest => lfNode n && lfSeq rest
end

theorem lf_mem : ∀ (l : List Node) (n : Node), n ∈ l → lfSeq l = true → lfNode n = true := by
  intro l
  induction l with
  | nil => intro n h; cases h
  | cons a rest ih =>
    intro n h hp
    rw [lfSeq, Bool.and_eq_true] at hp
    cases h with
    | head => exact hp.1
    | tail _ h' => exact ih n h' hp.2

theorem loopParts_body_lf (child : List Node) (h : lfSeq child = true) : lfSeq (loopParts child).1 = true := by
  unfold loopParts
  split
  · rename_i b rest
    simp only [lfSeq, lfNode, Bool.and_eq_true] at h
    exact h.1
  · exact h

theorem loopParts_else_lf (child e : List Node) (h : (loopParts child).2 = some e) (hp : lfSeq child = true) :
    lfSeq e = true := by
  simp only [loopParts] at h
  split at h
  · rename_i a e' rest
    simp only [Option.some.injEq] at h
    subst h
    simp only [lfSeq, lfNode, Bool.and_eq_true] at hp
    exact hp.2.1
  · cases h

/-- Every template an include tag can reach is free of counter loops and needs less than `R`. -/
def RegOK (reg : Registry) (R : Nat) : Prop :=
  ∀ names nodes, reg.getBKeys names = some nodes → lfSeq nodes = true ∧ needSeq nodes + 1 ≤ R

/-- The else-branch runner of a loop node at depth `k`. -/
theorem else_K (reg : Registry) (f B k : Nat) (child : List Node) (hp : lfSeq child = true)
    (ihN : ∀ n s, lfNode n = true → needNode n + B ≤ f → SK k s → RK k (writeNode reg f n s))
    (hf : needSeq child + B ≤ f) :
    ElseK k ((loopParts child).2.map (fun e st => elseRun (elseSeq (e.map (fun n st' => writeNode reg f n st'))) (!e.isEmpty) st)) := by
  intro g hg
  cases he : (loopParts child).2 with
  | none => rw [he] at hg; cases hg
  | some e =>
    rw [he] at hg
    simp only [Option.map_some, Option.some.injEq] at hg
    subst hg
    have hne := loopParts_else_need child e he
    have hpe := loopParts_else_lf child e he hp
    intro st hst
    apply elseRun_RK _ _ _ _ hst
    intro st' hst'
    apply elseSeq_RK _ _ _ hst'
    intro r hr st'' hst''
    obtain ⟨n, hn, rfl⟩ := List.mem_map.mp hr
    have h1 := need_mem e n hn
    exact ihN n st'' (lf_mem e n hn hpe) (by omega) hst''

/-- **Termination with includes.** `d` include levels are still allowed at depth `k` (`maxIncDepth ≤ k + d`); a fuel of
    the need of the tree plus `d · R` suffices. -/
theorem interp_incl (reg : Registry) (R : Nat) (hreg : RegOK reg R) : ∀ f : Nat,
    (∀ d k nodes s, lfSeq nodes = true → maxIncDepth ≤ k + d → needSeq nodes + 1 + d * R ≤ f → SK k s →
        RK k (writeTree reg f nodes s)) ∧
    (∀ d k nodes s, lfSeq nodes = true → maxIncDepth ≤ k + d → needSeq nodes + d * R ≤ f → SK k s →
        RK k (writeSeq reg f nodes s)) ∧
    (∀ d k n s, lfNode n = true → maxIncDepth ≤ k + d → needNode n + d * R ≤ f → SK k s →
        RK k (writeNode reg f n s)) ∧
    (∀ d k arg all cs s, lfSeq all = true → lfSeq cs = true → maxIncDepth ≤ k + d →
        needSeq cs + needSeq all + d * R ≤ f → SK k s → RK k (switchNode reg f arg all cs s)) := by
  intro f
  induction f with
  | zero =>
    refine ⟨?_, ?_, ?_, ?_⟩
    · intro d k nodes s _ _ h _; omega
    · intro d k nodes s _ _ h _; have := needSeq_pos nodes; omega
    · intro d k n s _ _ h _; have := needNode_pos n; omega
    · intro d k arg all cs s _ _ _ h _; have := needSeq_pos cs; omega
  | succ f ih =>
    obtain ⟨ihT, ihS, ihN, ihW⟩ := ih
    refine ⟨?_, ?_, ?_, ?_⟩
    · -- writeTree
      intro d k nodes s hp hd hf hs
      rw [writeTree]
      have h := ihS d k nodes s hp hd (by omega) hs
      simp only
      split
      · exact ⟨by simp, by simp, h.2.2⟩
      · exact h
    · -- writeSeq
      intro d k nodes s hp hd hf hs
      cases nodes with
      | nil => rw [writeSeq]; exact ok_RK _ hs
      | cons n rest =>
        rw [writeSeq]
        rw [needSeq] at hf
        rw [lfSeq, Bool.and_eq_true] at hp
        apply andThen_RK
        · exact ihN d k n s hp.1 hd (by omega) hs
        · intro s1 hs1; exact ihS d k rest s1 hp.2 hd (by omega) hs1
    · -- writeNode
      intro d k n s hp hd hf hs
      generalize hB : d * R = B at hf
      cases n with
      | raw b => rw [writeNode]; exact write_RK _ _ hs
      | tpl path mods noesc pre suf =>
        rw [writeNode]
        simp only
        have he := evalPrint_clean s.c path mods
        have hi := evalPrint_incD s.c path mods
        generalize evalPrint s.c path mods = ev at he hi
        obtain ⟨c2, o⟩ := ev
        cases o with
        | stop e => exact ⟨he.2 e rfl, he.1, hi.trans hs.2⟩
        | text t => exact tplWrites_RK _ _ _ _ _ ⟨he.1, hi.trans hs.2⟩
      | ctx cs =>
        rw [writeNode]
        simp only
        have he := ctxNode_clean s.c cs hs.1
        have hi := ctxNode_incD s.c cs
        generalize ctxNode s.c cs = ev at he hi
        obtain ⟨c', e⟩ := ev
        exact ⟨he.2, he.1, hi.trans hs.2⟩
      | counter cs =>
        rw [writeNode]
        simp only
        have he := counterNode_clean s.c cs hs.1
        have hi := counterNode_incD s.c cs
        generalize counterNode s.c cs = ev at he hi
        obtain ⟨c', e⟩ := ev
        exact ⟨he.2, he.1, hi.trans hs.2⟩
      | condOK kk child =>
        rw [writeNode]
        simp only
        rw [needNode] at hf
        rw [lfNode] at hp
        by_cases hemp : kk.cd.hlp.isEmpty = true
        · simp only [hemp, if_true]; exact ok_RK _ hs
        · simp only [hemp, Bool.false_eq_true, if_false]
          have he := evalCondOK_clean s.c kk hs.1
          have hi := evalCondOK_incD s.c kk
          generalize evalCondOK s.c kk = ev at he hi
          obtain ⟨c1, o⟩ := ev
          have hs1 : SK k ({ s with c := c1 } : St) := ⟨he.1, hi.trans hs.2⟩
          cases o with
          | stop e => exact fail_RK _ _ hs1 he.2
          | branch r pending =>
            simp only
            cases hc : (if r then child[0]? else child[1]?) with
            | none => exact ⟨he.2, hs1.1, hs1.2⟩
            | some n =>
              have hn : n ∈ child := by
                cases r with
                | true => simp only [if_true] at hc; exact List.mem_of_getElem? hc
                | false => simp only [Bool.false_eq_true, if_false] at hc; exact List.mem_of_getElem? hc
              have h1 := need_mem child n hn
              subst hB
              exact ihN d k n _ (lf_mem child n hn hp) hd (by omega) hs1
      | cond cd child =>
        rw [writeNode]
        simp only
        rw [needNode] at hf
        rw [lfNode] at hp
        have he := evalCond_clean s.c cd hs.1
        have hi := evalCond_incD s.c cd
        generalize evalCond s.c cd = ev at he hi
        obtain ⟨c1, o⟩ := ev
        have hs1 : SK k ({ s with c := c1 } : St) := ⟨he.1, hi.trans hs.2⟩
        cases o with
        | stop e => exact fail_RK _ _ hs1 he.2
        | branch r pending =>
          simp only
          cases hc : (if r then child[0]? else child[1]?) with
          | none => exact ⟨he.2, hs1.1, hs1.2⟩
          | some n =>
            have hn : n ∈ child := by
              cases r with
              | true => simp only [if_true] at hc; exact List.mem_of_getElem? hc
              | false => simp only [Bool.false_eq_true, if_false] at hc; exact List.mem_of_getElem? hc
            have h1 := need_mem child n hn
            subst hB
            exact ihN d k n _ (lf_mem child n hn hp) hd (by omega) hs1
      | condTrue child =>
        rw [writeNode]; rw [needNode] at hf; rw [lfNode] at hp; subst hB
        exact ihS d k child s hp hd (by omega) hs
      | condFalse child =>
        rw [writeNode]; rw [needNode] at hf; rw [lfNode] at hp; subst hB
        exact ihS d k child s hp hd (by omega) hs
      | case_ kk child =>
        rw [writeNode]; rw [needNode] at hf; rw [lfNode] at hp; subst hB
        exact ihS d k child s hp hd (by omega) hs
      | default_ child =>
        rw [writeNode]; rw [needNode] at hf; rw [lfNode] at hp; subst hB
        exact ihS d k child s hp hd (by omega) hs
      | cloop ls child =>
        rw [writeNode]
        simp only
        rw [needNode] at hf
        rw [lfNode, Bool.and_eq_true] at hp
        have hb := loopParts_body_need child
        subst hB
        apply cloopNode_RK _ _ _ _ _ _ _ hs
        · exact cloopLit_bound ls hp.1 f (by omega)
        · intro st hst
          exact ihS d k _ st (loopParts_body_lf child hp.2) hd (by omega) hst
        · exact else_K reg f (d * R) k child hp.2 (fun n s hn hf' hs'' => ihN d k n s hn hd hf' hs'') (by omega)
      | rloop ls child =>
        rw [writeNode]
        simp only
        rw [needNode] at hf
        rw [lfNode] at hp
        have hb := loopParts_body_need child
        subst hB
        apply loopNode_RK _ _ _ hs
        intro s' hs'
        apply rloopQB_RK _ _ _ _ _ _ hs'
        · intro st hst
          exact ihS d k _ st (loopParts_body_lf child hp) hd (by omega) hst
        · exact else_K reg f (d * R) k child hp (fun n s hn hf' hs'' => ihN d k n s hn hd hf' hs'') (by omega)
      | brk dd => rw [writeNode]; exact fail_RK _ _ ⟨hs.1, hs.2⟩ (by simp)
      | lbrk dd => rw [writeNode]; exact ok_RK _ ⟨hs.1, hs.2⟩
      | cont => rw [writeNode]; exact fail_RK _ _ hs (by simp)
      | switch arg child =>
        rw [writeNode]; rw [needNode] at hf; rw [lfNode] at hp; subst hB
        exact ihW d k arg child child s hp hp hd (by omega) hs
      | incl names =>
        rw [writeNode]
        simp only
        cases hg : reg.getBKeys names with
        | none => exact fail_RK _ _ hs (by simp)
        | some nodes =>
          simp only
          by_cases hdep : s.c.incD ≥ maxIncDepth
          · simp only [hdep, if_true]; exact fail_RK _ _ hs (by simp)
          · simp only [hdep, if_false]
            have hk : s.c.incD = k := hs.2
            obtain ⟨hlf, hR⟩ := hreg names nodes hg
            -- at least one more level is allowed
            cases d with
            | zero => omega
            | succ d' =>
              have hmul : (d' + 1) * R = d' * R + R := Nat.succ_mul d' R
              have hn1 : needNode (Node.incl names) = 1 := by simp [needNode]
              rw [hn1] at hf
              have hs0 : SK (k+1) ({ c := { s.c with incD := s.c.incD + 1 }, w := {} } : St) := ⟨hs.1, by simp [hk]⟩
              have hr := ihT d' (k+1) nodes _ hlf (by omega) (by omega) hs0
              exact inclFinish_RK s _ hr
      | exit => rw [writeNode]; exact fail_RK _ _ hs (by simp)
      | jsonQ => rw [writeNode]; exact ok_RK _ ⟨hs.1, hs.2⟩
      | endJsonQ => rw [writeNode]; exact ok_RK _ ⟨hs.1, hs.2⟩
      | htmlE => rw [writeNode]; exact ok_RK _ ⟨hs.1, hs.2⟩
      | endHtmlE => rw [writeNode]; exact ok_RK _ ⟨hs.1, hs.2⟩
      | urlEnc => rw [writeNode]; exact ok_RK _ ⟨hs.1, hs.2⟩
      | endUrlEnc => rw [writeNode]; exact ok_RK _ ⟨hs.1, hs.2⟩
      | div => rw [writeNode]; exact fail_RK _ _ hs (by simp)
      | unknown => rw [writeNode]; exact fail_RK _ _ hs (by simp)
    · -- switchNode
      intro d k arg all cs s hpa hpc hd hf hs
      cases cs with
      | nil =>
        rw [switchNode]
        rw [needSeq] at hf
        cases hdf : all.find? Node.isDefault with
        | none => exact ok_RK _ hs
        | some dn =>
          have hm : dn ∈ all := List.mem_of_find?_eq_some hdf
          have h1 := need_mem all dn hm
          exact ihN d k dn s (lf_mem all dn hm hpa) hd (by omega) hs
      | cons ch rest =>
        rw [switchNode]
        rw [needSeq] at hf
        rw [lfSeq, Bool.and_eq_true] at hpc
        have ha := needSeq_pos all
        cases hk : ch.asCase with
        | none => exact ihW d k arg all rest s hpa hpc.2 hd (by omega) hs
        | some kc =>
          simp only
          have he := evalCase_clean s.c arg kc hs.1
          have hi := evalCase_incD s.c arg kc
          generalize evalCase s.c arg kc = ev at he hi
          obtain ⟨c1, o⟩ := ev
          have hs1 : SK k ({ s with c := c1 } : St) := ⟨he.1, hi.trans hs.2⟩
          cases o with
          | stop e => exact fail_RK _ _ hs1 he.2
          | branch r pend =>
            simp only
            cases r with
            | true => simp only [if_true]; exact ihN d k ch _ hpc.1 hd (by omega) hs1
            | false => simp only [Bool.false_eq_true, if_false]; exact ihW d k arg all rest _ hpa hpc.2 hd (by omega) hs1

/-! ### A registry's bound, computed -/

/-- The largest need of a registered template (plus one for the template level). -/
def regNeed : Registry → Nat
  | [] => 0
  | (_, t) :: rest => max (needSeq t + 1) (regNeed rest)

/-- No registered template contains a counter loop. -/
def regLF : Registry → Bool
  | [] => true
  | (_, t) :: rest => lfSeq t && regLF rest

theorem lookup_bound : ∀ (reg : Registry) (key : Bytes) (t : List Node), reg.lookup key = some t → regLF reg = true →
    lfSeq t = true ∧ needSeq t + 1 ≤ regNeed reg := by
  intro reg
  induction reg with
  | nil => intro key t h; simp [List.lookup] at h
  | cons p rest ih =>
    intro key t h hlf
    obtain ⟨k', t'⟩ := p
    rw [regLF, Bool.and_eq_true] at hlf
    rw [regNeed]
    rw [List.lookup] at h
    split at h
    · simp only [Option.some.injEq] at h; subst h
      exact ⟨hlf.1, by omega⟩
    · have := ih key t h hlf.2
      exact ⟨this.1, by omega⟩

/-- A registry without counter loops satisfies `RegOK` with its computed bound. -/
theorem regOK_of_lf (reg : Registry) (h : regLF reg = true) : RegOK reg (regNeed reg) := by
  intro names
  induction names with
  | nil => intro nodes hg; simp [Registry.getBKeys] at hg
  | cons k ks ih =>
    intro nodes hg
    rw [Registry.getBKeys] at hg
    split at hg
    · rename_i t ht
      simp only [Option.some.injEq] at hg; subst hg
      exact lookup_bound reg k _ ht h
    · exact ih nodes hg

/-- Fuel that suffices for a template of a registry whose templates need at most `R` each: the include limit times `R`
    on top of the template's own need. -/
def treeNeedIncl (R : Nat) (nodes : List Node) : Nat := needSeq nodes + 1 + maxIncDepth * R

/-- The fuel the driver runs a rendering with: the proved bound where a theorem applies (then no constant is involved
    at all) — the tree's own need when it has neither counter loops nor includes, the bound with includes when no
    template of the registry has a counter loop — and the session's constant otherwise. -/
def fuelFor (reg : Registry) (key : Bytes) (dflt : Nat) : Nat :=
  match reg.lookup key with
  | some nodes =>
    if plainSeq nodes then treeNeed nodes
    else if regLF reg then treeNeedIncl (regNeed reg) nodes
    else dflt
  | none => dflt

end TermIncl
end DyntplV
