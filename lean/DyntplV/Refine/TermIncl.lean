import DyntplV.Refine.Term
import DyntplV.Refine.IncD

/-!
# Termination with includes: the include limit bounds every chain

`Refine/Term.lean` excludes includes. This file puts them back: **for a registry whose templates contain no counter
loop, and a tree without counter loops, a fuel computed from the tree, the registry and the include limit suffices** —
`need(tree) + (maxIncDepth − depth so far) · R`, where `R` bounds the need of every registered template. The include
graph may be anything (a template may include itself): the chain is cut by the include limit, and the proof follows the
depth counter `ctx.incD`, which every construct restores (`Refine/IncD.lean`).
-/

namespace DyntplV
namespace TermIncl

open Clean IncD Term

/-- A state at include depth `k` whose `ctx.Err` is not `outOfFuel`. -/
def SK (k : Nat) (s : St) : Prop := OK s.c.err ∧ s.c.incD = k
/-- A result at include depth `k` that neither returns `outOfFuel` nor leaves it in `ctx.Err`. -/
def RK (k : Nat) (r : Res) : Prop := OK r.err ∧ OK r.st.c.err ∧ r.st.c.incD = k

theorem RK.of {k : Nat} {s : St} {r : Res} (h1 : ROK r) (h2 : Keeps s r) (hs : SK k s) : RK k r :=
  ⟨h1.1, h1.2, h2.trans hs.2⟩

theorem SK.sok {k : Nat} {s : St} (h : SK k s) : SOK s := h.1
theorem RK.sk {k : Nat} {r : Res} (h : RK k r) : SK k r.st := ⟨h.2.1, h.2.2⟩

theorem ok_RK {k : Nat} (s : St) (h : SK k s) : RK k (ok s) := ⟨by simp [ok], h.1, h.2⟩
theorem fail_RK {k : Nat} (s : St) (e : Err) (h : SK k s) (he : e ≠ .outOfFuel) : RK k (fail s e) := ⟨OK_some he, h.1, h.2⟩

theorem write_RK {k : Nat} (s : St) (p : Bytes) (h : SK k s) : RK k (s.write p) :=
  RK.of (write_ROK s p h.sok) (write_keeps s p) h

theorem andThen_RK {k : Nat} (r : Res) (kf : St → Res) (hr : RK k r) (hk : ∀ st, SK k st → RK k (kf st)) :
    RK k (r.andThen kf) := by
  unfold Res.andThen
  split
  · exact hr
  · exact hk _ hr.sk

theorem tplWrites_RK {k : Nat} (s : St) (pre t suf : Bytes) (noesc : Bool) (h : SK k s) : RK k (tplWrites s pre t suf noesc) :=
  RK.of (tplWrites_ROK s pre t suf noesc h.sok) (tplWrites_keeps s pre t suf noesc) h

theorem iterAfterBody_SK {k : Nat} (rb : Res) (h : RK k rb) : SK k (iterAfterBody rb).st :=
  ⟨iterAfterBody_SOK rb ⟨h.1, h.2.1⟩, (iterAfterBody_incD rb).trans h.2.2⟩

theorem sepWrite_RK {k : Nat} (n : Nat) (sep : Bytes) (s : St) (h : SK k s) : RK k (sepWrite n sep s) :=
  RK.of (sepWrite_ROK n sep s h.sok) (sepWrite_keeps n sep s) h

theorem rloopLoop_SK {k : Nat} (run : St → Res) (hrun : ∀ s, SK k s → RK k (run s)) (ls : RLoopSpec) :
    ∀ (items : List (Bytes × Val × InsKind)) (n : Nat) (s : St), SK k s → SK k (rloopLoop run ls items n s).st := by
  intro items
  induction items with
  | nil => intro n s h; rw [rloopLoop]; exact h
  | cons it rest ih =>
    intro n s h
    obtain ⟨key, v, ik⟩ := it
    rw [rloopLoop]
    simp only
    have h0 : SK k (rIterStart ls key v ik s) := by
      refine ⟨?_, (rIterStart_incD ls key v ik s).trans h.2⟩
      unfold rIterStart
      simp only
      split <;> simpa using h.1
    have hs := sepWrite_RK n ls.sep _ h0
    split
    · rename_i e he
      refine ⟨?_, hs.2.2⟩
      show OK (some e)
      rw [← he]; exact hs.1
    · have hb := iterAfterBody_SK _ (hrun _ hs.sk)
      split
      · rename_i st hst; rw [hst] at hb; exact hb
      · rename_i st hst; rw [hst] at hb; exact hb
      · rename_i st hst; rw [hst] at hb; exact ih _ _ hb

theorem elseSeq_RK {k : Nat} : ∀ (l : List (St → Res)) (s : St), (∀ r ∈ l, ∀ st, SK k st → RK k (r st)) → SK k s → RK k (elseSeq l s) := by
  intro l
  induction l with
  | nil => intro s _ h; rw [elseSeq]; exact ok_RK _ h
  | cons r rest ih =>
    intro s hl h
    rw [elseSeq]
    have hr := hl r (List.mem_cons_self) s h
    split
    · exact hr
    · apply ih
      · intro r' hr' st hst; exact hl r' (List.mem_cons_of_mem _ hr') st hst
      · exact ⟨by simp, hr.2.2⟩

theorem elseRun_RK {k : Nat} (run : St → Res) (ne : Bool) (s : St) (hrun : ∀ st, SK k st → RK k (run st)) (h : SK k s) :
    RK k (elseRun run ne s) := by
  unfold elseRun
  simp only
  have hr := hrun s h
  split
  · rename_i e he
    refine ⟨by simp [ok], ?_, hr.2.2⟩
    show OK (some e)
    rw [← he]; exact hr.1
  · refine ⟨by simp [ok], ?_, ?_⟩
    · simp only [ok]
      split
      · simp
      · exact hr.2.1
    · simp only [ok]
      split
      · exact hr.2.2
      · exact hr.2.2

/-- The optional else-branch runner is good at depth `k`. -/
def ElseK (k : Nat) (re : Option (St → Res)) : Prop := ∀ f, re = some f → ∀ st, SK k st → RK k (f st)

theorem afterLoop_RK {k : Nat} (re : Option (St → Res)) (r : LoopRes) (sE : St) (hre : ElseK k re) (hr : SK k r.st) (hE : SK k sE) :
    RK k (afterLoop re r sE) := by
  unfold afterLoop
  split
  · exact ok_RK _ hr
  · split
    · split
      · rename_i f; exact hre f rfl _ hE
      · exact ok_RK _ hE
    · exact ok_RK _ hE

theorem rloopWith_RK {k : Nat} (run : St → Res) (re : Option (St → Res)) (ls : RLoopSpec) (s : St)
    (hrun : ∀ s, SK k s → RK k (run s)) (hre : ElseK k re) (h : SK k s) : RK k (rloopWith run re ls s) := by
  unfold rloopWith
  split
  · exact ok_RK _ h
  · split
    · split
      · rename_i f; exact hre f rfl _ h
      · exact ok_RK _ h
    · simp only
      have hl := rloopLoop_SK run hrun ls (loopItems (by assumption) (by assumption)) 0 s h
      apply afterLoop_RK _ _ _ hre hl
      exact ⟨by simp, hl.2⟩

theorem rloopQB_RK {k : Nat} (run : St → Res) (re : Option (St → Res)) (ls : RLoopSpec) (s : St)
    (hrun : ∀ s, SK k s → RK k (run s)) (hre : ElseK k re) (h : SK k s) : RK k (rloopQB run re ls s) := by
  unfold rloopQB
  split
  · exact ⟨by simp [ok], by simp [ok, OK], h.2⟩
  · exact rloopWith_RK run re _ _ hrun hre ⟨by simp, h.2⟩

theorem loopNode_RK {k : Nat} (loop : St → Res) (s : St) (hl : ∀ s, SK k s → RK k (loop s)) (h : SK k s) : RK k (loopNode loop s) := by
  unfold loopNode
  simp only
  have hr := hl { s with c := { s.c with brkD := 0 } } h
  split
  · exact hr
  · split
    · rename_i e he
      have hne : e ≠ .outOfFuel := by
        intro hh; subst hh; exact hr.2.1 he
      unfold loopErrRes
      split
      · exact ⟨OK_some hne, by simp [fail], hr.2.2⟩
      · exact ⟨OK_some hne, by simp only [fail]; rw [he]; exact OK_some hne, hr.2.2⟩
    · exact hr

/-- The include node after the nested rendering: the error of the included template or of the copy, the context of the
    nested rendering one level up. -/
theorem inclFinish_RK {k : Nat} (s : St) (r : Res) (hr : RK (k+1) r) :
    RK k (inclFinish s { r with st := { r.st with c := { r.st.c with incD := r.st.c.incD - 1 } } }) := by
  have hd : r.st.c.incD - 1 = k := by rw [hr.2.2]; rfl
  unfold inclFinish
  simp only
  split
  · rename_i e he
    have hne : e ≠ .outOfFuel := by
      intro hh; subst hh; exact hr.1 he
    split
    · exact ⟨OK_some hne, hr.2.1, hd⟩
    · refine ⟨?_, ?_, ?_⟩
      · simp only [Res.orErr]
        have hw := write_ROK ({ s with c := { r.st.c with incD := r.st.c.incD - 1 } } : St) r.st.w.out hr.2.1
        cases hwe : (({ s with c := { r.st.c with incD := r.st.c.incD - 1 } } : St).write r.st.w.out).err with
        | none => simpa using OK_some hne
        | some e' => simp only [Option.getD_some]; rw [← hwe]; exact hw.1
      · exact (write_ROK ({ s with c := { r.st.c with incD := r.st.c.incD - 1 } } : St) r.st.w.out hr.2.1).2
      · exact (write_keeps ({ s with c := { r.st.c with incD := r.st.c.incD - 1 } } : St) r.st.w.out).trans hd
  · exact RK.of (write_ROK _ _ hr.2.1) (write_keeps _ _) ⟨hr.2.1, hd⟩

end TermIncl
end DyntplV
