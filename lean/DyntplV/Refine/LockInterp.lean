import DyntplV.Refine.Lock
/-! Lockstep through the loops and `writeTree / writeSeq / writeNode / switchNode`. -/
namespace DyntplV
open Frozen (Dead Frz)

/-- A context-only step followed by a continuation that depends on its outcome. -/
theorem tri_ctxStep {α : Type} (ev : Ctx → Ctx × α) (hev : ∀ pl c, ev (c.pre pl) = ((ev c).1.pre pl, (ev c).2))
    (K : α → St → Res) (hK : ∀ a, Tri (K a)) :
    Tri (fun s => K (ev s.c).2 { s with c := (ev s.c).1 }) := by
  refine ⟨?_, frame_ctxStep ev hev K (fun a => (hK a).frame), ?_⟩
  · intro k s h
    exact (hK (ev s.c).2).lock k { s with c := (ev s.c).1 } h
  · intro s
    exact (hK (ev s.c).2).frozen { s with c := (ev s.c).1 }

theorem tplWrites_tri (pre t suf : Bytes) (noesc : Bool) : Tri (fun s => tplWrites s pre t suf noesc) := by
  refine ⟨?_, tplWrites_frame pre t suf noesc, fun s => Frozen.tplWrites_mono pre t suf noesc s⟩
  intro k s h
  have key : Tri (fun s' : St =>
      ((if pre.isEmpty then ok s' else s'.write (regionEscape s.c pre)).andThen fun s1 =>
       (s1.write (if noesc then t else regionEscape s.c t)).andThen fun s2 =>
       if suf.isEmpty then ok s2 else s2.write (regionEscape s.c suf))) := by
    apply Tri.andThen
    · by_cases hp : pre.isEmpty = true
      · simp only [hp, if_true]; exact Tri.ok_
      · simp only [hp, Bool.false_eq_true, if_false]; exact write_tri _
    · apply Tri.andThen
      · exact write_tri _
      · by_cases hs : suf.isEmpty = true
        · simp only [hs, if_true]; exact Tri.ok_
        · simp only [hs, Bool.false_eq_true, if_false]; exact write_tri _
  exact key.lock k s h

theorem sepWrite_tri (n : Nat) (sep : Bytes) : Tri (fun s => sepWrite n sep s) := by
  refine ⟨?_, sepWrite_frame n sep, fun s => Frozen.sepWrite_mono n sep s⟩
  intro k s h
  unfold sepWrite
  by_cases hc : (n > 0 && !sep.isEmpty) = true
  · simp only [hc, if_true]
    exact write_lock (regionEscape s.c sep) k s h
  · simp only [hc, Bool.false_eq_true, if_false]
    exact Or.inl rfl

theorem iterAfterBody_wf (k : Nat) (rb : Res) : iterAfterBody (rb.wf k) = (iterAfterBody rb).wf k := by
  unfold iterAfterBody
  simp only [Res.wf]
  cases rb.err with
  | none =>
    simp only
    show (if rb.st.c.brkD > 0 then _ else _) = _
    split <;> rfl
  | some e =>
    by_cases hs : isSentinel e = true
    · simp only [hs, if_true]
      show (if rb.st.c.brkD > 0 then _ else _) = _
      split <;> rfl
    · simp only [hs, Bool.false_eq_true, if_false]; rfl

theorem IterOut.wf_st (k : Nat) (io : IterOut) : (io.wf k).st = io.st.wf k := by cases io <;> rfl


/-! ### Range loop -/

/-- The rest of one range-loop iteration after the body has run. -/
def rAfterBody (run : St → Res) (ls : RLoopSpec) (rest : List (Bytes × Val × InsKind)) (n : Nat) (rb : Res) : LoopRes :=
  match iterAfterBody rb with
  | .abort st => ⟨n+1, st, true⟩
  | .stop st => ⟨n+1, st, false⟩
  | .next st => rloopLoop run ls rest (n+1) st

/-- The rest of one range-loop iteration after the separator write. -/
def rAfterSep (run : St → Res) (ls : RLoopSpec) (rest : List (Bytes × Val × InsKind)) (n : Nat) (rs : Res) : LoopRes :=
  match rs.err with
  | some e => ⟨n+1, { rs.st with c := { rs.st.c with err := some e } }, true⟩
  | none => rAfterBody run ls rest n (run rs.st)

theorem rloopLoop_cons (run : St → Res) (ls : RLoopSpec) (kk : Bytes) (v : Val) (ik : InsKind)
    (rest : List (Bytes × Val × InsKind)) (n : Nat) (s : St) :
    rloopLoop run ls ((kk, v, ik) :: rest) n s = rAfterSep run ls rest n (sepWrite n ls.sep (rIterStart ls kk v ik s)) := by
  rw [rloopLoop]; rfl

theorem rIterStart_wf (ls : RLoopSpec) (kk : Bytes) (v : Val) (ik : InsKind) (s : St) (k : Nat) :
    rIterStart ls kk v ik (s.wf k) = (rIterStart ls kk v ik s).wf k := by
  unfold rIterStart; split <;> rfl

theorem rIterStart_w (ls : RLoopSpec) (kk : Bytes) (v : Val) (ik : InsKind) (s : St) :
    (rIterStart ls kk v ik s).w = s.w := by
  unfold rIterStart; split <;> rfl

theorem rloopLoop_lock (run : St → Res) (hrun : Tri run) (ls : RLoopSpec) :
    ∀ (items : List (Bytes × Val × InsKind)) (n : Nat), LockOKL (fun s => rloopLoop run ls items n s) := by
  intro items
  induction items with
  | nil => intro n k s h; exact Or.inl rfl
  | cons it rest ih =>
    intro n k s h
    obtain ⟨kk, v, ik⟩ := it
    show LkL k (rloopLoop run ls ((kk, v, ik) :: rest) n s) (rloopLoop run ls ((kk, v, ik) :: rest) n (s.wf k))
    rw [rloopLoop_cons, rloopLoop_cons, rIterStart_wf]
    have h1 : (rIterStart ls kk v ik s).w.failAt = none := by rw [rIterStart_w]; exact h
    -- facts about the rest of the loop
    have restFrame := rloopLoop_frame run hrun.frame ls rest (n+1)
    have restFrozen := Frozen.rloopLoop_mono run hrun.frozen ls rest (n+1)
    -- the tail after the body
    have hB1 : ∀ rb : Res, rb.st.w.failAt = none → LkL k (rAfterBody run ls rest n rb) (rAfterBody run ls rest n (rb.wf k)) := by
      intro rb hrb
      unfold rAfterBody
      rw [iterAfterBody_wf]
      have hw : (iterAfterBody rb).st.w.failAt = none := by rw [iterAfterBody_w]; exact hrb
      cases hio : iterAfterBody rb with
      | abort st => exact Or.inl rfl
      | stop st => exact Or.inl rfl
      | next st =>
        rw [hio] at hw
        exact ih (n+1) k st hw
    have hB2 : ∀ rb : Res, rb.st.w.failAt = none → rb.st.w.out <+: (rAfterBody run ls rest n rb).st.w.out := by
      intro rb hrb
      unfold rAfterBody
      have hw : (iterAfterBody rb).st.w = rb.st.w := iterAfterBody_w rb
      cases hio : iterAfterBody rb with
      | abort st => rw [hio] at hw; have hw' : st.w = rb.st.w := hw; show rb.st.w.out <+: st.w.out; rw [hw']; exact List.prefix_refl _
      | stop st => rw [hio] at hw; have hw' : st.w = rb.st.w := hw; show rb.st.w.out <+: st.w.out; rw [hw']; exact List.prefix_refl _
      | next st =>
        rw [hio] at hw
        have hw' : st.w = rb.st.w := hw
        have := (growL_of_frame restFrame st (by rw [hw']; exact hrb)).2
        rw [hw'] at this
        exact this
    have hB3 : ∀ rb : Res, Dead rb.st.w → Dead (rAfterBody run ls rest n rb).st.w ∧ (rAfterBody run ls rest n rb).st.w.out = rb.st.w.out := by
      intro rb hd
      unfold rAfterBody
      have hw : (iterAfterBody rb).st.w = rb.st.w := iterAfterBody_w rb
      cases hio : iterAfterBody rb with
      | abort st => rw [hio] at hw; have hw' : st.w = rb.st.w := hw; show Dead st.w ∧ st.w.out = _; rw [hw']; exact ⟨hd, rfl⟩
      | stop st => rw [hio] at hw; have hw' : st.w = rb.st.w := hw; show Dead st.w ∧ st.w.out = _; rw [hw']; exact ⟨hd, rfl⟩
      | next st =>
        rw [hio] at hw
        have hw' : st.w = rb.st.w := hw
        have := restFrozen st (by rw [hw']; exact hd)
        rw [hw'] at this
        exact this
    -- the tail after the separator
    apply lock_bindL (fun r : Res => r.st) Res.wf (fun s => sepWrite n ls.sep s) (rAfterSep run ls rest n) k _
      ((sepWrite_tri n ls.sep).lock k _ h1)
    · -- synchronised after the separator
      have g := grow_of_frame (sepWrite_frame n ls.sep) _ h1
      generalize sepWrite n ls.sep (rIterStart ls kk v ik s) = rs at g
      unfold rAfterSep
      cases he : rs.err with
      | some e => simp only [Res.wf, he]; exact Or.inl rfl
      | none =>
        simp only [Res.wf, he]
        apply lock_bindL (fun r : Res => r.st) Res.wf run (rAfterBody run ls rest n) k rs.st (hrun.lock k rs.st g.1)
        · exact hB1 _ (grow_of_frame hrun.frame rs.st g.1).1
        · exact hB2 _ (grow_of_frame hrun.frame rs.st g.1).1
        · exact hB3
    · have g := grow_of_frame (sepWrite_frame n ls.sep) _ h1
      generalize sepWrite n ls.sep (rIterStart ls kk v ik s) = rs at g
      unfold rAfterSep
      cases he : rs.err with
      | some e => exact List.prefix_refl _
      | none =>
        simp only
        have g2 := grow_of_frame hrun.frame rs.st g.1
        exact g2.2.trans (hB2 _ g2.1)
    · intro r' hd
      unfold rAfterSep
      cases he : r'.err with
      | some e => exact ⟨hd, rfl⟩
      | none =>
        simp only
        obtain ⟨d1, e1⟩ := hrun.frozen r'.st hd
        obtain ⟨d2, e2⟩ := hB3 _ d1
        exact ⟨d2, e2.trans e1⟩


/-! ### Counter loop -/

/-- The rest of one counter-loop iteration after the body has run (`qb` = the bracket mode to restore). -/
def cAfterBody (run : St → Res) (ls : CLoopSpec) (f : Nat) (v lim : Int) (n : Nat) (qb : Bool) (rb0 : Res) : LoopRes :=
  let rb : Res := { rb0 with st := { rb0.st with c := { rb0.st.c with chQB := qb } } }
  if ls.cntOp == .inc || ls.cntOp == .dec then
    let v' := stepVal ls.cntOp v
    match iterAfterBody rb with
    | .abort st => ⟨n+1, st, true⟩
    | .stop st => ⟨n+1, { st with c := { st.c.setStatic ls.cnt (.int v') with err := none } }, false⟩
    | .next st => cloopLoop run ls f v' lim (n+1) { st with c := { st.c.setStatic ls.cnt (.int v') with err := none } }
  else
    match iterAfterBody rb with
    | .abort st => ⟨n+1, st, true⟩
    | _ => ⟨n+1, { rb.st with c := { rb.st.c with err := some .wrongLoopOp } }, true⟩

/-- The rest of one counter-loop iteration after the separator write. -/
def cAfterSep (run : St → Res) (ls : CLoopSpec) (f : Nat) (v lim : Int) (n : Nat) (rs : Res) : LoopRes :=
  match rs.err with
  | some e => ⟨n, { rs.st with c := { rs.st.c with err := some e } }, true⟩
  | none =>
    let rs1 := clrErrIf (n > 0 && !ls.sep.isEmpty) rs.st
    cAfterBody run ls f v lim n rs1.c.chQB (run { rs1 with c := { rs1.c with chQB := true } })

theorem cloopLoop_true (run : St → Res) (ls : CLoopSpec) (f : Nat) (v lim : Int) (n : Nat) (s : St)
    (hla : loopAllows ls.condOp v lim = some true) :
    cloopLoop run ls (f+1) v lim n s =
      cAfterSep run ls f v lim n (sepWrite n ls.sep { s with c := s.c.setStatic ls.cnt (.int v) }) := by
  rw [cloopLoop]; simp only [hla]; rfl

theorem clrErrIf_wf (b : Bool) (s : St) (k : Nat) : clrErrIf b (s.wf k) = (clrErrIf b s).wf k := by
  unfold clrErrIf; split <;> rfl

theorem cloopLoop_lock (run : St → Res) (hrun : Tri run) (ls : CLoopSpec) :
    ∀ (f : Nat) (v lim : Int) (n : Nat), LockOKL (fun s => cloopLoop run ls f v lim n s) := by
  intro f
  induction f with
  | zero => intro v lim n k s h; exact Or.inl rfl
  | succ f ih =>
    intro v lim n k s h
    show LkL k (cloopLoop run ls (f+1) v lim n s) (cloopLoop run ls (f+1) v lim n (s.wf k))
    cases hla : loopAllows ls.condOp v lim with
    | none => rw [cloopLoop, cloopLoop]; simp only [hla]; exact Or.inl rfl
    | some b =>
      cases b with
      | false => rw [cloopLoop, cloopLoop]; simp only [hla]; exact Or.inl rfl
      | true =>
        rw [cloopLoop_true run ls f v lim n s hla, cloopLoop_true run ls f v lim n (s.wf k) hla]
        have h1 : ({ s with c := s.c.setStatic ls.cnt (.int v) } : St).w.failAt = none := h
        have restFrame := fun v' => cloopLoop_frame run hrun.frame ls f v' lim (n+1)
        have restFrozen := fun v' => Frozen.cloopLoop_mono run hrun.frozen ls f v' lim (n+1)
        -- the tail after the body
        have hB1 : ∀ (qb : Bool) (rb0 : Res), rb0.st.w.failAt = none →
            LkL k (cAfterBody run ls f v lim n qb rb0) (cAfterBody run ls f v lim n qb (rb0.wf k)) := by
          intro qb rb0 hrb
          unfold cAfterBody
          simp only
          have hwf : ({ (rb0.wf k) with st := { (rb0.wf k).st with c := { (rb0.wf k).st.c with chQB := qb } } } : Res) =
              ({ rb0 with st := { rb0.st with c := { rb0.st.c with chQB := qb } } } : Res).wf k := rfl
          rw [hwf, iterAfterBody_wf]
          have hw : (iterAfterBody { rb0 with st := { rb0.st with c := { rb0.st.c with chQB := qb } } }).st.w.failAt = none := by
            rw [iterAfterBody_w]; exact hrb
          split
          · cases hio : iterAfterBody { rb0 with st := { rb0.st with c := { rb0.st.c with chQB := qb } } } with
            | abort st => exact Or.inl rfl
            | stop st => exact Or.inl rfl
            | next st =>
              rw [hio] at hw
              exact ih _ lim (n+1) k { st with c := { st.c.setStatic ls.cnt (.int (stepVal ls.cntOp v)) with err := none } } hw
          · cases hio : iterAfterBody { rb0 with st := { rb0.st with c := { rb0.st.c with chQB := qb } } } with
            | abort st => exact Or.inl rfl
            | stop st => exact Or.inl rfl
            | next st => exact Or.inl rfl
        have hB2 : ∀ (qb : Bool) (rb0 : Res), rb0.st.w.failAt = none →
            rb0.st.w.out <+: (cAfterBody run ls f v lim n qb rb0).st.w.out := by
          intro qb rb0 hrb
          unfold cAfterBody
          simp only
          have hw : (iterAfterBody { rb0 with st := { rb0.st with c := { rb0.st.c with chQB := qb } } }).st.w = rb0.st.w :=
            iterAfterBody_w _
          split
          · cases hio : iterAfterBody { rb0 with st := { rb0.st with c := { rb0.st.c with chQB := qb } } } with
            | abort st => rw [hio] at hw; have hw' : st.w = rb0.st.w := hw; show rb0.st.w.out <+: st.w.out; rw [hw']; exact List.prefix_refl _
            | stop st => rw [hio] at hw; have hw' : st.w = rb0.st.w := hw; show rb0.st.w.out <+: st.w.out; rw [hw']; exact List.prefix_refl _
            | next st =>
              rw [hio] at hw
              have hw' : st.w = rb0.st.w := hw
              have := (growL_of_frame (restFrame (stepVal ls.cntOp v)) { st with c := { st.c.setStatic ls.cnt (.int (stepVal ls.cntOp v)) with err := none } }
                (by show st.w.failAt = none; rw [hw']; exact hrb)).2
              have e : ({ st with c := { st.c.setStatic ls.cnt (.int (stepVal ls.cntOp v)) with err := none } } : St).w.out = rb0.st.w.out := by
                show st.w.out = _; rw [hw']
              rw [e] at this
              exact this
          · cases hio : iterAfterBody { rb0 with st := { rb0.st with c := { rb0.st.c with chQB := qb } } } with
            | abort st => rw [hio] at hw; have hw' : st.w = rb0.st.w := hw; show rb0.st.w.out <+: st.w.out; rw [hw']; exact List.prefix_refl _
            | stop st => exact List.prefix_refl _
            | next st => exact List.prefix_refl _
        have hB3 : ∀ (qb : Bool) (rb0 : Res), Dead rb0.st.w →
            Dead (cAfterBody run ls f v lim n qb rb0).st.w ∧ (cAfterBody run ls f v lim n qb rb0).st.w.out = rb0.st.w.out := by
          intro qb rb0 hd
          unfold cAfterBody
          simp only
          have hw : (iterAfterBody { rb0 with st := { rb0.st with c := { rb0.st.c with chQB := qb } } }).st.w = rb0.st.w :=
            iterAfterBody_w _
          split
          · cases hio : iterAfterBody { rb0 with st := { rb0.st with c := { rb0.st.c with chQB := qb } } } with
            | abort st => rw [hio] at hw; have hw' : st.w = rb0.st.w := hw; show Dead st.w ∧ st.w.out = _; rw [hw']; exact ⟨hd, rfl⟩
            | stop st => rw [hio] at hw; have hw' : st.w = rb0.st.w := hw; show Dead st.w ∧ st.w.out = _; rw [hw']; exact ⟨hd, rfl⟩
            | next st =>
              rw [hio] at hw
              have hw' : st.w = rb0.st.w := hw
              have := restFrozen (stepVal ls.cntOp v) { st with c := { st.c.setStatic ls.cnt (.int (stepVal ls.cntOp v)) with err := none } }
                (by show Dead st.w; rw [hw']; exact hd)
              have e : ({ st with c := { st.c.setStatic ls.cnt (.int (stepVal ls.cntOp v)) with err := none } } : St).w.out = rb0.st.w.out := by
                show st.w.out = _; rw [hw']
              rw [e] at this
              exact this
          · cases hio : iterAfterBody { rb0 with st := { rb0.st with c := { rb0.st.c with chQB := qb } } } with
            | abort st => rw [hio] at hw; have hw' : st.w = rb0.st.w := hw; show Dead st.w ∧ st.w.out = _; rw [hw']; exact ⟨hd, rfl⟩
            | stop st => exact ⟨hd, rfl⟩
            | next st => exact ⟨hd, rfl⟩
        -- the tail after the separator
        apply lock_bindL (fun r : Res => r.st) Res.wf (fun s => sepWrite n ls.sep s) (cAfterSep run ls f v lim n) k _
          ((sepWrite_tri n ls.sep).lock k _ h1)
        · have g := grow_of_frame (sepWrite_frame n ls.sep) _ h1
          generalize sepWrite n ls.sep { s with c := s.c.setStatic ls.cnt (.int v) } = rs at g
          unfold cAfterSep
          cases he : rs.err with
          | some e => simp only [Res.wf, he]; exact Or.inl rfl
          | none =>
            simp only [Res.wf, he]
            rw [clrErrIf_wf]
            have gw : (clrErrIf (decide (n > 0) && !ls.sep.isEmpty) rs.st).w.failAt = none := by rw [clrErrIf_w']; exact g.1
            generalize clrErrIf (decide (n > 0) && !ls.sep.isEmpty) rs.st = rs1 at gw
            have gin : ({ rs1 with c := { rs1.c with chQB := true } } : St).w.failAt = none := gw
            apply lock_bindL (fun r : Res => r.st) Res.wf (fun s1 => run s1) (cAfterBody run ls f v lim n rs1.c.chQB) k
              { rs1 with c := { rs1.c with chQB := true } } (hrun.lock k _ gin)
            · exact hB1 _ _ (grow_of_frame hrun.frame _ gin).1
            · exact hB2 _ _ (grow_of_frame hrun.frame _ gin).1
            · exact hB3 _
        · have g := grow_of_frame (sepWrite_frame n ls.sep) _ h1
          generalize sepWrite n ls.sep { s with c := s.c.setStatic ls.cnt (.int v) } = rs at g
          unfold cAfterSep
          cases he : rs.err with
          | some e => exact List.prefix_refl _
          | none =>
            simp only
            have gw : (clrErrIf (decide (n > 0) && !ls.sep.isEmpty) rs.st).w = rs.st.w := clrErrIf_w' _ _
            generalize clrErrIf (decide (n > 0) && !ls.sep.isEmpty) rs.st = rs1 at gw
            have gin : ({ rs1 with c := { rs1.c with chQB := true } } : St).w.failAt = none := by show rs1.w.failAt = none; rw [gw]; exact g.1
            have g2 := grow_of_frame hrun.frame _ gin
            have e : ({ rs1 with c := { rs1.c with chQB := true } } : St).w.out = rs.st.w.out := by show rs1.w.out = _; rw [gw]
            rw [e] at g2
            exact g2.2.trans (hB2 _ _ g2.1)
        · intro r' hd
          unfold cAfterSep
          cases he : r'.err with
          | some e => exact ⟨hd, rfl⟩
          | none =>
            simp only
            have gw : (clrErrIf (decide (n > 0) && !ls.sep.isEmpty) r'.st).w = r'.st.w := clrErrIf_w' _ _
            generalize clrErrIf (decide (n > 0) && !ls.sep.isEmpty) r'.st = rs1 at gw
            have hd1 : Dead ({ rs1 with c := { rs1.c with chQB := true } } : St).w := by show Dead rs1.w; rw [gw]; exact hd
            obtain ⟨d1, e1⟩ := hrun.frozen _ hd1
            obtain ⟨d2, e2⟩ := hB3 rs1.c.chQB _ d1
            refine ⟨d2, ?_⟩
            rw [e2, e1]
            show rs1.w.out = _; rw [gw]


/-! ### else branch, the loop wrappers -/

/-- The rest of a for-else branch after its first child. -/
def elseK (rest : List (St → Res)) (x : Res) : Res :=
  match x.err with
  | some _ => x
  | none => elseSeq rest { x.st with c := { x.st.c with err := none } }

theorem elseSeq_cons (r : St → Res) (rest : List (St → Res)) (s : St) : elseSeq (r :: rest) s = elseK rest (r s) := by
  rw [elseSeq]; unfold elseK; cases (r s).err <;> rfl

theorem elseSeq_tri : ∀ (runs : List (St → Res)), (∀ r ∈ runs, Tri r) → Tri (elseSeq runs)
  | [], _ => by
    refine ⟨fun _ _ _ => Or.inl rfl, elseSeq_frame [] (by simp), Frozen.elseSeq_mono [] (by simp)⟩
  | r :: rest, h => by
    have hr := h r (List.mem_cons_self)
    have ih := elseSeq_tri rest (fun r' hr' => h r' (List.mem_cons_of_mem _ hr'))
    refine ⟨?_, elseSeq_frame _ (fun r' hr' => (h r' hr').frame), Frozen.elseSeq_mono _ (fun r' hr' => (h r' hr').frozen)⟩
    intro k s hs
    have g := grow_of_frame hr.frame s hs
    rw [elseSeq_cons, elseSeq_cons]
    apply lock_bind (fun x : Res => x.st) Res.wf r (elseK rest) k s (hr.lock k s hs)
    · unfold elseK
      simp only [Res.wf]
      cases hx : (r s).err with
      | some e' => simp only; left; simp only [Res.wf, hx]
      | none => simp only; exact ih.lock k { (r s).st with c := { (r s).st.c with err := none } } g.1
    · unfold elseK
      cases hx : (r s).err with
      | some e' => exact List.prefix_refl _
      | none => exact (grow_of_frame ih.frame { (r s).st with c := { (r s).st.c with err := none } } g.1).2
    · intro r' hd
      unfold elseK
      cases hx : r'.err with
      | some e' => exact ⟨hd, rfl⟩
      | none => exact ih.frozen { r'.st with c := { r'.st.c with err := none } } hd

theorem elseRun_tri (run : St → Res) (hrun : Tri run) (ne : Bool) : Tri (elseRun run ne) := by
  refine ⟨?_, elseRun_frame run hrun.frame ne, Frozen.elseRun_mono run hrun.frozen ne⟩
  intro k s h
  unfold elseRun
  simp only
  apply lock_bind (fun r : Res => r.st) Res.wf run
    (fun x : Res => match x.err with
      | some e => ok { x.st with c := { x.st.c with err := some e } }
      | none => ok (if ne then { x.st with c := { x.st.c with err := none } } else x.st)) k s (hrun.lock k s h)
  · simp only [Res.wf]
    cases (run s).err with
    | some e => exact Or.inl rfl
    | none => simp only; cases ne <;> exact Or.inl rfl
  · cases (run s).err with
    | some e => exact List.prefix_refl _
    | none => simp only; cases ne <;> exact List.prefix_refl _
  · intro r' hd
    cases r'.err with
    | some e => exact ⟨hd, rfl⟩
    | none => simp only; cases ne <;> exact ⟨hd, rfl⟩

/-- `afterLoop` as a continuation of the loop result; `g` prepares the state for the else branch (context only). -/
theorem afterLoop_K (runElse : Option (St → Res)) (helse : ∀ re, runElse = some re → Tri re)
    (g : St → St) (gw : ∀ s, (g s).w = s.w) (gwf : ∀ k s, g (s.wf k) = (g s).wf k) (k : Nat) (r : LoopRes)
    (hr : r.st.w.failAt = none) :
    Lk k (afterLoop runElse r (g r.st)) (afterLoop runElse (r.wf k) (g (r.wf k).st)) ∧
    r.st.w.out <+: (afterLoop runElse r (g r.st)).st.w.out ∧
    (∀ r' : LoopRes, Dead r'.st.w → Dead (afterLoop runElse r' (g r'.st)).st.w ∧ (afterLoop runElse r' (g r'.st)).st.w.out = r'.st.w.out) := by
  have hg : (g r.st).w.failAt = none := by rw [gw]; exact hr
  refine ⟨?_, ?_, ?_⟩
  · unfold afterLoop
    simp only [LoopRes.wf]
    rw [gwf]
    by_cases ha : r.abort = true
    · simp only [ha, if_true]; exact Or.inl rfl
    · simp only [ha, Bool.false_eq_true, if_false]
      by_cases hn : (r.n == 0) = true
      · simp only [hn, if_true]
        cases hel : runElse with
        | none => exact Or.inl rfl
        | some re => exact (helse re hel).lock k _ hg
      · simp only [hn, Bool.false_eq_true, if_false]; exact Or.inl rfl
  · unfold afterLoop
    split
    · exact List.prefix_refl _
    · split
      · cases hel : runElse with
        | none => show r.st.w.out <+: (g r.st).w.out; rw [gw]; exact List.prefix_refl _
        | some re =>
          have := (grow_of_frame (helse re hel).frame _ hg).2
          rw [gw] at this
          exact this
      · show r.st.w.out <+: (g r.st).w.out; rw [gw]; exact List.prefix_refl _
  · intro r' hd
    have hd' : Dead (g r'.st).w := by rw [gw]; exact hd
    unfold afterLoop
    split
    · exact ⟨hd, rfl⟩
    · split
      · cases hel : runElse with
        | none => show Dead (g r'.st).w ∧ (g r'.st).w.out = _; rw [gw]; exact ⟨hd, rfl⟩
        | some re =>
          have := (helse re hel).frozen _ hd'
          rw [gw] at this
          exact this
      · show Dead (g r'.st).w ∧ (g r'.st).w.out = _; rw [gw]; exact ⟨hd, rfl⟩

theorem cloopAfter_lock (run : St → Res) (hrun : Tri run) (runElse : Option (St → Res))
    (helse : ∀ re, runElse = some re → Tri re) (fuel : Nat) (ls : CLoopSpec) (b : Option (Int × Int)) :
    LockOK (cloopAfter run runElse fuel ls b) := by
  intro k s h
  unfold cloopAfter
  cases b with
  | none => exact Or.inl rfl
  | some p =>
    obtain ⟨cnt, lim⟩ := p
    simp only
    have g := growL_of_frame (cloopLoop_frame run hrun.frame ls fuel cnt lim 0) s h
    obtain ⟨k1, k2, k3⟩ := afterLoop_K runElse helse id (fun _ => rfl) (fun _ _ => rfl) k (cloopLoop run ls fuel cnt lim 0 s) g.1
    exact lock_bind (fun r : LoopRes => r.st) LoopRes.wf (fun s => cloopLoop run ls fuel cnt lim 0 s)
      (fun r => afterLoop runElse r r.st) k s (cloopLoop_lock run hrun ls fuel cnt lim 0 k s h) k1 k2 k3

theorem cloopAfter_tri (run : St → Res) (hrun : Tri run) (runElse : Option (St → Res))
    (helse : ∀ re, runElse = some re → Tri re) (fuel : Nat) (ls : CLoopSpec) (b : Option (Int × Int)) :
    Tri (cloopAfter run runElse fuel ls b) := by
  refine ⟨cloopAfter_lock run hrun runElse helse fuel ls b,
    cloopAfter_frame run hrun.frame runElse (fun re h => (helse re h).frame) fuel ls b, ?_⟩
  intro s
  have := Frozen.cloopWith_mono run hrun.frozen runElse (fun re h => (helse re h).frozen) fuel ls
  -- cloopAfter is cloopWith after the bounds; prove directly
  unfold cloopAfter
  cases b with
  | none => exact Frz.refl _
  | some p =>
    obtain ⟨cnt, lim⟩ := p
    simp only
    have hl := Frozen.cloopLoop_mono run hrun.frozen ls fuel cnt lim 0 s
    exact Frozen.afterLoop_mono runElse (fun re h => (helse re h).frozen) s.w _ _ hl hl

theorem cloopWith_tri (run : St → Res) (hrun : Tri run) (runElse : Option (St → Res))
    (helse : ∀ re, runElse = some re → Tri re) (fuel : Nat) (ls : CLoopSpec) :
    Tri (cloopWith run runElse fuel ls) :=
  tri_ctxStep (fun c => loopBounds c ls) (fun pl c => loopBounds_pre pl c ls)
    (fun b => cloopAfter run runElse fuel ls b) (fun b => cloopAfter_tri run hrun runElse helse fuel ls b)

theorem rloopWith_tri (run : St → Res) (hrun : Tri run) (runElse : Option (St → Res))
    (helse : ∀ re, runElse = some re → Tri re) (ls : RLoopSpec) :
    Tri (rloopWith run runElse ls) := by
  refine ⟨?_, rloopWith_frame run hrun.frame runElse (fun re h => (helse re h).frame) ls,
    Frozen.rloopWith_mono run hrun.frozen runElse (fun re h => (helse re h).frozen) ls⟩
  intro k s h
  unfold rloopWith
  cases splitDots ls.src with
  | nil => exact Or.inl rfl
  | cons name sub =>
    simp only
    show Lk k _ (match getVar s.c.vars name with | none => _ | some vv => _)
    cases getVar s.c.vars name with
    | none =>
      simp only
      cases hel : runElse with
      | none => exact Or.inl rfl
      | some re => exact (helse re hel).lock k s h
    | some vv =>
      simp only
      have g := growL_of_frame (rloopLoop_frame run hrun.frame ls (loopItems vv sub) 0) s h
      obtain ⟨k1, k2, k3⟩ := afterLoop_K runElse helse (fun st => { st with c := { st.c with err := none } })
        (fun _ => rfl) (fun _ _ => rfl) k (rloopLoop run ls (loopItems vv sub) 0 s) g.1
      exact lock_bind (fun r : LoopRes => r.st) LoopRes.wf (fun s => rloopLoop run ls (loopItems vv sub) 0 s)
        (fun r => afterLoop runElse r { r.st with c := { r.st.c with err := none } }) k s
        (rloopLoop_lock run hrun ls (loopItems vv sub) 0 k s h) k1 k2 k3


theorem rloopQB_tri (run : St → Res) (hrun : Tri run) (runElse : Option (St → Res))
    (helse : ∀ re, runElse = some re → Tri re) (ls : RLoopSpec) :
    Tri (rloopQB run runElse ls) := by
  refine ⟨?_, rloopQB_frame run hrun.frame runElse (fun re h => (helse re h).frame) ls,
    Frozen.rloopQB_mono run hrun.frozen runElse (fun re h => (helse re h).frozen) ls⟩
  intro k s h
  unfold rloopQB
  show Lk k _ (match cmpPath s.c.vars s.c.chQB ls.src with | none => _ | some p => _)
  cases cmpPath s.c.vars s.c.chQB ls.src with
  | none => exact Or.inl rfl
  | some p => exact (rloopWith_tri run hrun runElse helse { ls with src := p }).lock k { s with c := { s.c with err := none } } h

theorem loopNode_tri (loop : St → Res) (hl : Tri loop) : Tri (loopNode loop) := by
  refine ⟨?_, loopNode_frame loop hl.frame, Frozen.loopNode_mono loop hl.frozen⟩
  intro k s h
  unfold loopNode
  simp only
  have h0 : ({ s with c := { s.c with brkD := 0 } } : St).w.failAt = none := h
  apply lock_bind (fun r : Res => r.st) Res.wf (fun s0 : St => loop s0)
    (fun r0 : Res =>
      match ({ r0 with st := { r0.st with c := { r0.st.c with brkD := max s.c.brkD r0.st.c.brkD } } } : Res).err with
      | some _ => ({ r0 with st := { r0.st with c := { r0.st.c with brkD := max s.c.brkD r0.st.c.brkD } } } : Res)
      | none => match ({ r0 with st := { r0.st with c := { r0.st.c with brkD := max s.c.brkD r0.st.c.brkD } } } : Res).st.c.err with
        | some e => loopErrRes ({ r0 with st := { r0.st with c := { r0.st.c with brkD := max s.c.brkD r0.st.c.brkD } } } : Res).st e
        | none => ({ r0 with st := { r0.st with c := { r0.st.c with brkD := max s.c.brkD r0.st.c.brkD } } } : Res))
    k { s with c := { s.c with brkD := 0 } } (hl.lock k _ h0)
  · generalize loop { s with c := { s.c with brkD := 0 } } = r0
    simp only [Res.wf]
    cases r0.err with
    | some e => exact Or.inl rfl
    | none =>
      simp only [St.wf_c]
      cases r0.st.c.err with
      | none => exact Or.inl rfl
      | some e => simp only; left; unfold loopErrRes; split <;> rfl
  · generalize loop { s with c := { s.c with brkD := 0 } } = r0
    cases r0.err with
    | some e => exact List.prefix_refl _
    | none =>
      simp only
      cases r0.st.c.err with
      | none => exact List.prefix_refl _
      | some e => simp only; rw [loopErrRes_w]; exact List.prefix_refl _
  · intro r' hd
    cases r'.err with
    | some e => exact ⟨hd, rfl⟩
    | none =>
      simp only
      cases r'.st.c.err with
      | none => exact ⟨hd, rfl⟩
      | some e => simp only; rw [loopErrRes_w]; exact ⟨hd, rfl⟩


/-! ### The interpreter -/

theorem lock_ctxStep {α : Type} (ev : Ctx → Ctx × α) (K : α → St → Res) (hK : ∀ a, LockOK (K a)) :
    LockOK (fun s => K (ev s.c).2 { s with c := (ev s.c).1 }) :=
  fun k s h => hK (ev s.c).2 k { s with c := (ev s.c).1 } h

theorem LockOK.fail_ (e : Err) : LockOK (fun s => fail s e) := fun _ _ _ => Or.inl rfl

theorem interp_lock (reg : Registry) : ∀ f : Nat,
    (∀ nodes, LockOK (writeTree reg f nodes)) ∧
    (∀ nodes, LockOK (writeSeq reg f nodes)) ∧
    (∀ n, LockOK (writeNode reg f n)) ∧
    (∀ arg all cs, LockOK (switchNode reg f arg all cs)) := by
  intro f
  induction f with
  | zero =>
    refine ⟨?_, ?_, ?_, ?_⟩
    · intro nodes k s h; rw [writeTree, writeTree]; exact Or.inl rfl
    · intro nodes k s h; rw [writeSeq, writeSeq]; exact Or.inl rfl
    · intro n k s h; rw [writeNode, writeNode]; exact Or.inl rfl
    · intro a al cs k s h; rw [switchNode, switchNode]; exact Or.inl rfl
  | succ f ih =>
    obtain ⟨ihT, ihS, ihN, ihW⟩ := ih
    have frT := (interp_frame reg f).1
    have frS := (interp_frame reg f).2.1
    have frN := (interp_frame reg f).2.2.1
    have frW := (interp_frame reg f).2.2.2
    have fzT := (Frozen.interp_mono reg f).1
    have fzS := (Frozen.interp_mono reg f).2.1
    have fzN := (Frozen.interp_mono reg f).2.2.1
    have fzW := (Frozen.interp_mono reg f).2.2.2
    have triS : ∀ nodes, Tri (writeSeq reg f nodes) := fun nodes => ⟨ihS nodes, frS nodes, fzS nodes⟩
    have triN : ∀ n, Tri (writeNode reg f n) := fun n => ⟨ihN n, frN n, fzN n⟩
    refine ⟨?_, ?_, ?_, ?_⟩
    · -- writeTree
      intro nodes k s h
      rw [writeTree, writeTree]
      simp only
      apply lock_bind (fun r : Res => r.st) Res.wf (fun s => writeSeq reg f nodes s)
        (fun r : Res => if r.err = some Err.interrupt then (⟨{ r.st with c := { r.st.c with err := none } }, none⟩ : Res) else r)
        k s (ihS nodes k s h)
      · simp only [Res.wf]
        by_cases hi : (writeSeq reg f nodes s).err = some Err.interrupt
        · simp only [hi, if_true]; exact Or.inl rfl
        · simp only [hi, if_false]; exact Or.inl rfl
      · split <;> exact List.prefix_refl _
      · intro r' hd
        split <;> exact ⟨hd, rfl⟩
    · -- writeSeq
      intro nodes
      cases nodes with
      | nil => intro k s h; rw [writeSeq, writeSeq]; exact Or.inl rfl
      | cons n rest =>
        intro k s h
        rw [writeSeq, writeSeq]
        exact (Tri.andThen (triN n) (triS rest)).lock k s h
    · -- writeNode
      intro n
      cases n with
      | raw b =>
        intro k s h
        rw [writeNode, writeNode]
        exact write_lock (regionEscape s.c b) k s h
      | tpl path mods noesc pre suf =>
        intro k s h
        rw [writeNode, writeNode]
        simp only [St.wf_c]
        generalize evalPrint s.c path mods = ep
        obtain ⟨c2, o⟩ := ep
        cases o with
        | stop e => exact Or.inl rfl
        | text t => exact (tplWrites_tri pre t suf noesc).lock k { s with c := c2 } h
      | ctx cs => intro k s h; rw [writeNode, writeNode]; exact Or.inl rfl
      | counter cs => intro k s h; rw [writeNode, writeNode]; exact Or.inl rfl
      | condOK kk child =>
        intro k s h
        rw [writeNode, writeNode]
        show Lk k _ (if kk.cd.hlp.isEmpty then ok (s.wf k) else _)
        by_cases he : kk.cd.hlp.isEmpty = true
        · simp only [he, if_true]; exact Or.inl rfl
        · simp only [he, Bool.false_eq_true, if_false]
          have hK : ∀ o : CondOut, LockOK (fun s1 : St => match o with
              | .stop e => fail s1 e
              | .branch r pending => match (if r then child[0]? else child[1]?) with
                | some n => writeNode reg f n s1
                | none => ⟨s1, pending⟩) := by
            intro o
            cases o with
            | stop e => exact LockOK.fail_ e
            | branch r pending =>
              simp only
              cases (if r then child[0]? else child[1]?) with
              | none => exact fun _ _ _ => Or.inl rfl
              | some n => exact ihN n
          exact lock_ctxStep (fun c => evalCondOK c kk) _ hK k s h
      | cond cd child =>
        intro k s h
        rw [writeNode, writeNode]
        have hK : ∀ o : CondOut, LockOK (fun s1 : St => match o with
            | .stop e => fail s1 e
            | .branch r pending => match (if r then child[0]? else child[1]?) with
              | some n => writeNode reg f n s1
              | none => ⟨s1, pending⟩) := by
          intro o
          cases o with
          | stop e => exact LockOK.fail_ e
          | branch r pending =>
            simp only
            cases (if r then child[0]? else child[1]?) with
            | none => exact fun _ _ _ => Or.inl rfl
            | some n => exact ihN n
        exact lock_ctxStep (fun c => evalCond c cd) _ hK k s h
      | condTrue child => intro k s h; rw [writeNode, writeNode]; exact ihS child k s h
      | condFalse child => intro k s h; rw [writeNode, writeNode]; exact ihS child k s h
      | case_ kk child => intro k s h; rw [writeNode, writeNode]; exact ihS child k s h
      | default_ child => intro k s h; rw [writeNode, writeNode]; exact ihS child k s h
      | cloop ls child =>
        intro k s h
        rw [writeNode, writeNode]
        have key : Tri (loopNode (cloopWith (fun st => writeSeq reg f (loopParts child).1 st)
            ((loopParts child).2.map (fun e st => elseRun (elseSeq (e.map (fun n st' => writeNode reg f n st'))) (!e.isEmpty) st)) f ls)) := by
          apply loopNode_tri
          apply cloopWith_tri
          · exact triS _
          · intro re hre
            cases hp : (loopParts child).2 with
            | none => simp [hp] at hre
            | some e => simp [hp] at hre; subst hre; exact elseRun_tri _ (elseSeq_tri _ (by intro r hr; simp only [List.mem_map] at hr; obtain ⟨n, _, rfl⟩ := hr; exact triN n)) _
        exact key.lock k s h
      | rloop ls child =>
        intro k s h
        rw [writeNode, writeNode]
        have key : Tri (loopNode (rloopQB (fun st => writeSeq reg f (loopParts child).1 st)
            ((loopParts child).2.map (fun e st => elseRun (elseSeq (e.map (fun n st' => writeNode reg f n st'))) (!e.isEmpty) st)) ls)) := by
          apply loopNode_tri
          apply rloopQB_tri
          · exact triS _
          · intro re hre
            cases hp : (loopParts child).2 with
            | none => simp [hp] at hre
            | some e => simp [hp] at hre; subst hre; exact elseRun_tri _ (elseSeq_tri _ (by intro r hr; simp only [List.mem_map] at hr; obtain ⟨n, _, rfl⟩ := hr; exact triN n)) _
        exact key.lock k s h
      | brk d => intro k s h; rw [writeNode, writeNode]; exact Or.inl rfl
      | lbrk d => intro k s h; rw [writeNode, writeNode]; exact Or.inl rfl
      | cont => intro k s h; rw [writeNode, writeNode]; exact Or.inl rfl
      | switch arg child => intro k s h; rw [writeNode, writeNode]; exact ihW arg child child k s h
      | incl names =>
        intro k s h
        rw [writeNode, writeNode]
        cases hg : reg.getBKeys names with
        | none => exact Or.inl rfl
        | some nodes =>
          simp only
          by_cases hd : s.c.incD ≥ maxIncDepth
          · have hd' : (s.wf k).c.incD ≥ maxIncDepth := hd
            simp only [hd, hd', if_true]; exact Or.inl rfl
          · have hd' : ¬ ((s.wf k).c.incD ≥ maxIncDepth) := hd
            simp only [hd, hd', if_false]
            show Lk k _ (inclFinish (s.wf k) _)
            generalize hr : writeTree reg f nodes { c := { s.c with incD := s.c.incD + 1 }, w := {} } = r
            have hr' : writeTree reg f nodes { c := { (s.wf k).c with incD := (s.wf k).c.incD + 1 }, w := {} } = r := hr
            rw [hr']
            unfold inclFinish
            cases r.err with
            | some e =>
              simp only
              split
              · exact Or.inl rfl
              · -- the copy-out of what the failed / interrupted template had written, then its error
                have hl := write_lock r.st.w.out k ({ s with c := { r.st.c with incD := r.st.c.incD - 1 } } : St) h
                rcases hl with hl | hl
                · left
                  have hl' : (({ s with c := { r.st.c with incD := r.st.c.incD - 1 } } : St).wf k).write r.st.w.out =
                      (({ s with c := { r.st.c with incD := r.st.c.incD - 1 } } : St).write r.st.w.out).wf k := hl
                  show Res.orErr ((({ s with c := { r.st.c with incD := r.st.c.incD - 1 } } : St).wf k).write r.st.w.out) e = _
                  rw [hl']; rfl
                · right; exact hl
            | none =>
              simp only
              exact write_lock r.st.w.out k ({ s with c := { r.st.c with incD := r.st.c.incD - 1 } } : St) h
      | exit => intro k s h; rw [writeNode, writeNode]; exact Or.inl rfl
      | jsonQ => intro k s h; rw [writeNode, writeNode]; exact Or.inl rfl
      | endJsonQ => intro k s h; rw [writeNode, writeNode]; exact Or.inl rfl
      | htmlE => intro k s h; rw [writeNode, writeNode]; exact Or.inl rfl
      | endHtmlE => intro k s h; rw [writeNode, writeNode]; exact Or.inl rfl
      | urlEnc => intro k s h; rw [writeNode, writeNode]; exact Or.inl rfl
      | endUrlEnc => intro k s h; rw [writeNode, writeNode]; exact Or.inl rfl
      | div => intro k s h; rw [writeNode, writeNode]; exact Or.inl rfl
      | unknown => intro k s h; rw [writeNode, writeNode]; exact Or.inl rfl
    · -- switchNode
      intro arg all cs
      cases cs with
      | nil =>
        intro k s h
        rw [switchNode, switchNode]
        cases hf : all.find? Node.isDefault with
        | none => exact Or.inl rfl
        | some d => exact ihN d k s h
      | cons ch rest =>
        intro k s h
        rw [switchNode, switchNode]
        cases hc : ch.asCase with
        | none => exact ihW arg all rest k s h
        | some kk =>
          have hK : ∀ o : CondOut, LockOK (fun s1 : St => match o with
              | .stop e => fail s1 e
              | .branch r _ => if r then writeNode reg f ch s1 else switchNode reg f arg all rest s1) := by
            intro o
            cases o with
            | stop e => exact LockOK.fail_ e
            | branch r pending =>
              simp only
              cases r with
              | true => simp only [if_true]; exact ihN ch
              | false => simp only [Bool.false_eq_true, if_false]; exact ihW arg all rest
          exact lock_ctxStep (fun c => evalCase c arg kk) _ hK k s h


/-! ### Top level -/

theorem write_lock_top (reg : Registry) (fuel : Nat) (nodes : List Node) : LockOK (write reg fuel nodes) := by
  suffices hb : LockOK (writeBody reg fuel nodes) by
    intro k s h
    exact hb k s.topStart h
  unfold writeBody
  have t : Tri (writeTree reg fuel nodes) :=
    ⟨(interp_lock reg fuel).1 nodes, (interp_frame reg fuel).1 nodes, (Frozen.interp_mono reg fuel).1 nodes⟩
  have t2 : Tri (fun st : St => ok { st with c := st.c.runDeferred }) := by
    refine ⟨fun _ _ _ => Or.inl rfl, ?_, fun _ => Frz.refl _⟩
    intro s h
    refine ⟨h, fun pl po k => ?_⟩
    show ok { (s.pre pl po k) with c := (s.c.pre pl).runDeferred } = _
    rw [runDeferred_pre]; rfl
  exact (Tri.andThen t t2).lock

theorem writeKey_lock (reg : Registry) (fuel : Nat) (key : Bytes) : LockOK (writeKey reg fuel key) := by
  unfold writeKey
  cases reg.lookup key with
  | none => exact LockOK.fail_ _
  | some nodes => exact write_lock_top reg fuel nodes

theorem writeKey_frozen (reg : Registry) (fuel : Nat) (key : Bytes) : Frozen.Mono (writeKey reg fuel key) := by
  unfold writeKey
  cases reg.lookup key with
  | none => exact fun _ => Frz.refl _
  | some nodes =>
    intro s
    unfold write writeBody
    exact Frozen.Mono.andThen ((Frozen.interp_mono reg fuel).1 nodes) (fun _ => Frz.refl _) s.topStart

end DyntplV
