import DyntplV.Refine.FrameInterp
import DyntplV.Refine.FrozenInterp
/-! Lockstep of a fault-free run and the run with a fault position `k` (towards C17 `accepted_prefix`):
    running the same piece from `s` and from `s.wf k` either gives the same result up to the fault position
    (the fault was not reached), or the faulty run's writer is dead and what it accepted is a prefix of what
    the fault-free run has written. Basic definitions and the generic sequencing lemma. -/
namespace DyntplV
open Frozen (Dead Frz)

/-- The same state with the writer's fault position set to `k`. -/
def St.wf (k : Nat) (s : St) : St := { s with w := { s.w with failAt := some k } }
def Res.wf (k : Nat) (r : Res) : Res := { r with st := r.st.wf k }
def LoopRes.wf (k : Nat) (r : LoopRes) : LoopRes := { r with st := r.st.wf k }
def IterOut.wf (k : Nat) : IterOut → IterOut
  | .abort s => .abort (s.wf k)
  | .stop s => .stop (s.wf k)
  | .next s => .next (s.wf k)

@[simp] theorem St.wf_c (k : Nat) (s : St) : (s.wf k).c = s.c := rfl
@[simp] theorem St.wf_out (k : Nat) (s : St) : (s.wf k).w.out = s.w.out := rfl
theorem St.wf_withCtx (k : Nat) (s : St) (c : Ctx) : ({ (s.wf k) with c := c } : St) = ({ s with c := c } : St).wf k := rfl

/-- Outcome of one piece on the two runs (`r` fault-free, `r'` with the fault position). -/
def Lk (k : Nat) (r r' : Res) : Prop :=
  r' = r.wf k ∨ (Dead r'.st.w ∧ r'.st.w.out <+: r.st.w.out)
def LkL (k : Nat) (r r' : LoopRes) : Prop :=
  r' = r.wf k ∨ (Dead r'.st.w ∧ r'.st.w.out <+: r.st.w.out)

def LockOK (F : St → Res) : Prop := ∀ k s, s.w.failAt = none → Lk k (F s) (F (s.wf k))
def LockOKL (F : St → LoopRes) : Prop := ∀ k s, s.w.failAt = none → LkL k (F s) (F (s.wf k))

/-- What the frame theorem gives about the fault-free run: it stays fault-free and its output only grows. -/
theorem grow_of_frame {F : St → Res} (hF : FrameOK F) (s : St) (h : s.w.failAt = none) :
    (F s).st.w.failAt = none ∧ s.w.out <+: (F s).st.w.out := by
  have h0 : ({ s with w := { s.w with out := [], writes := 0 } } : St).w.failAt = none := h
  obtain ⟨f1, f2⟩ := hF { s with w := { s.w with out := [], writes := 0 } } h0
  have hs : ({ s with w := { s.w with out := [], writes := 0 } } : St).pre [] s.w.out s.w.writes = s := by
    obtain ⟨c, w⟩ := s
    simp [St.pre, Ctx.pre, Writer.pre]
  have := f2 [] s.w.out s.w.writes
  rw [hs] at this
  rw [this]
  exact ⟨f1, ⟨_, rfl⟩⟩

theorem growL_of_frame {F : St → LoopRes} (hF : FrameOKL F) (s : St) (h : s.w.failAt = none) :
    (F s).st.w.failAt = none ∧ s.w.out <+: (F s).st.w.out := by
  have h0 : ({ s with w := { s.w with out := [], writes := 0 } } : St).w.failAt = none := h
  obtain ⟨f1, f2⟩ := hF { s with w := { s.w with out := [], writes := 0 } } h0
  have hs : ({ s with w := { s.w with out := [], writes := 0 } } : St).pre [] s.w.out s.w.writes = s := by
    obtain ⟨c, w⟩ := s
    simp [St.pre, Ctx.pre, Writer.pre]
  have := f2 [] s.w.out s.w.writes
  rw [hs] at this
  rw [this]
  exact ⟨f1, ⟨_, rfl⟩⟩

/-- A piece with all three properties. -/
structure Tri (F : St → Res) : Prop where
  lock : LockOK F
  frame : FrameOK F
  frozen : Frozen.Mono F

structure TriL (F : St → LoopRes) : Prop where
  lock : LockOKL F
  frame : FrameOKL F
  frozen : Frozen.MonoL F

/-- **Generic sequencing.** `F` first (its result may be of any type `ρ` with a state), then `K` on the
    result: if `F` is in lockstep and `K` is in lockstep on synchronised results, grows on the fault-free side
    and is frozen on a dead writer, then `K ∘ F` is in lockstep. -/
theorem lock_bind {ρ : Type} (stOf : ρ → St) (wfOf : Nat → ρ → ρ) (F : St → ρ) (K : ρ → Res) (k : Nat) (s : St)
    (hF : F (s.wf k) = wfOf k (F s) ∨ (Dead (stOf (F (s.wf k))).w ∧ (stOf (F (s.wf k))).w.out <+: (stOf (F s)).w.out))
    (hK1 : Lk k (K (F s)) (K (wfOf k (F s))))
    (hK2 : (stOf (F s)).w.out <+: (K (F s)).st.w.out)
    (hK3 : ∀ r', Dead (stOf r').w → Dead (K r').st.w ∧ (K r').st.w.out = (stOf r').w.out) :
    Lk k (K (F s)) (K (F (s.wf k))) := by
  cases hF with
  | inl h => rw [h]; exact hK1
  | inr h =>
    obtain ⟨hd, hp⟩ := h
    obtain ⟨d2, e2⟩ := hK3 _ hd
    right
    exact ⟨d2, by rw [e2]; exact hp.trans hK2⟩

/-- The same with a `LoopRes` at the end. -/
theorem lock_bindL {ρ : Type} (stOf : ρ → St) (wfOf : Nat → ρ → ρ) (F : St → ρ) (K : ρ → LoopRes) (k : Nat) (s : St)
    (hF : F (s.wf k) = wfOf k (F s) ∨ (Dead (stOf (F (s.wf k))).w ∧ (stOf (F (s.wf k))).w.out <+: (stOf (F s)).w.out))
    (hK1 : LkL k (K (F s)) (K (wfOf k (F s))))
    (hK2 : (stOf (F s)).w.out <+: (K (F s)).st.w.out)
    (hK3 : ∀ r', Dead (stOf r').w → Dead (K r').st.w ∧ (K r').st.w.out = (stOf r').w.out) :
    LkL k (K (F s)) (K (F (s.wf k))) := by
  cases hF with
  | inl h => rw [h]; exact hK1
  | inr h =>
    obtain ⟨hd, hp⟩ := h
    obtain ⟨d2, e2⟩ := hK3 _ hd
    right
    exact ⟨d2, by rw [e2]; exact hp.trans hK2⟩

theorem Lk.refl_wf (k : Nat) (r : Res) : Lk k r (r.wf k) := Or.inl rfl
theorem LkL.refl_wf (k : Nat) (r : LoopRes) : LkL k r (r.wf k) := Or.inl rfl

/-- One write. -/
theorem write_lock (p : Bytes) : LockOK (fun s => s.write p) := by
  intro k s h
  unfold St.write Writer.write
  simp only [h, St.wf]
  by_cases hk : k ≤ s.w.writes + 1
  · simp only [hk, if_true]
    right
    refine ⟨⟨k, rfl, ?_⟩, ?_⟩
    · show k ≤ s.w.writes + 1 + 1; omega
    · show s.w.out <+: s.w.out ++ p
      exact ⟨p, rfl⟩
  · simp only [hk, if_false]
    left; rfl

theorem write_tri (p : Bytes) : Tri (fun s => s.write p) :=
  ⟨write_lock p, write_frame p, fun s => Frozen.write_mono p s⟩

theorem Tri.ok_ : Tri (fun s => ok s) :=
  ⟨fun _ _ _ => Or.inl rfl, FrameOK.ok_, fun _ => Frz.refl _⟩
theorem Tri.fail_ (e : Err) : Tri (fun s => fail s e) :=
  ⟨fun _ _ _ => Or.inl rfl, FrameOK.fail_ e, fun _ => Frz.refl _⟩

/-- Sequencing of two pieces. -/
theorem Tri.andThen {F K : St → Res} (hF : Tri F) (hK : Tri K) : Tri (fun s => (F s).andThen K) := by
  refine ⟨?_, FrameOK.andThen hF.frame hK.frame, Frozen.Mono.andThen hF.frozen hK.frozen⟩
  intro k s h
  obtain ⟨g1, _⟩ := grow_of_frame hF.frame s h
  apply lock_bind (fun r : Res => r.st) Res.wf F (fun r => r.andThen K) k s (hF.lock k s h)
  · -- synchronised
    unfold Res.andThen
    cases he : (F s).err with
    | some e =>
      simp only [Res.wf, he]
      left; simp only [Res.wf, he]
    | none => simp only [Res.wf, he]; exact hK.lock k _ g1
  · unfold Res.andThen
    cases he : (F s).err with
    | some e => simp only [he]; exact List.prefix_refl _
    | none => simp only [he]; exact (grow_of_frame hK.frame _ g1).2
  · intro r' hd
    unfold Res.andThen
    cases he : r'.err with
    | some e => simp only [he]; exact ⟨hd, trivial⟩
    | none => simp only [he]; exact hK.frozen _ hd

end DyntplV
