import DyntplV.Impl
/-!
  Writer-failure propagation through the whole interpreter (helper lemmas for C17).
  `Good s r`: if no write had failed before and one has failed in the result, the result's error
  is the writer error.
-/
namespace DyntplV

/-- Result discipline of node-level functions. -/
def Good (s : St) (r : Res) : Prop :=
  s.w.failed = false → r.st.w.failed = true → r.err = some Err.writer

/-- Result discipline of the loop functions, which report through `ctx.Err`. -/
def GoodL (s : St) (r : Res) : Prop :=
  s.w.failed = false → r.st.w.failed = true → (r.err = some Err.writer ∨ (r.err = none ∧ r.st.c.err = some Err.writer))

theorem Writer.write_failed (w : Writer) (p : Bytes) (h : w.failed = false) :
    ((w.write p).2 = true ∧ (w.write p).1.failed = false) ∨ ((w.write p).2 = false ∧ (w.write p).1.failed = true) := by
  unfold Writer.write
  cases hf : w.failAt with
  | none => simp [h]
  | some k =>
    by_cases hk : k ≤ w.writes + 1
    · simp [hk]
    · simp [hk, h]

theorem St.write_good (s : St) (p : Bytes) : Good s (s.write p) := by
  intro h hf
  unfold St.write at hf ⊢
  rcases Writer.write_failed s.w p h with ⟨h1, h2⟩ | ⟨h1, h2⟩
  · -- success: not failed
    have : s.w.write p = ((s.w.write p).1, true) := by rw [← h1]
    rw [this] at hf
    simp [ok, h2] at hf
  · have : s.w.write p = ((s.w.write p).1, false) := by rw [← h1]
    rw [this]
    simp [fail]

theorem St.write_ok_notfailed (s : St) (p : Bytes) (h : s.w.failed = false) (he : (s.write p).err = none) :
    (s.write p).st.w.failed = false := by
  unfold St.write at he ⊢
  rcases Writer.write_failed s.w p h with ⟨h1, h2⟩ | ⟨h1, h2⟩
  · have : s.w.write p = ((s.w.write p).1, true) := by rw [← h1]
    rw [this]; simp [ok, h2]
  · have : s.w.write p = ((s.w.write p).1, false) := by rw [← h1]
    rw [this] at he; simp [fail] at he

/-- A result without error, from a good function, has no failed write. -/
theorem Good.notfailed {s : St} {r : Res} (g : Good s r) (h : s.w.failed = false) (he : r.err ≠ some Err.writer) :
    r.st.w.failed = false := by
  cases hf : r.st.w.failed with
  | false => rfl
  | true => exact absurd (g h hf) he

theorem good_of_same_writer {s : St} {r : Res} (h : r.st.w = s.w) : Good s r := by
  intro hs hf; rw [h] at hf; rw [hs] at hf; cases hf

theorem goodL_of_same_writer {s : St} {r : Res} (h : r.st.w = s.w) : GoodL s r := by
  intro hs hf; rw [h] at hf; rw [hs] at hf; cases hf

/-! ### Loops -/

/-- Closed form of `iterAfterBody`. -/
theorem iterAfterBody_eq (rb : Res) :
    iterAfterBody rb =
      (match rb.err with
       | some e => if isSentinel e then
            (if rb.st.c.brkD > 0 then .stop { rb.st with c := { rb.st.c with brkD := rb.st.c.brkD - 1 } } else .next rb.st)
          else .abort { rb.st with c := { rb.st.c with err := some e, brkD := rb.st.c.brkD - 1 } }
       | none => if rb.st.c.brkD > 0 then .stop { rb.st with c := { rb.st.c with brkD := rb.st.c.brkD - 1 } } else .next rb.st) := by
  unfold iterAfterBody
  cases rb.err with
  | none => rfl
  | some e => cases h : isSentinel e <;> simp [h]

/-- What `iterAfterBody` does with the writer, given that the body result is good. -/
theorem iterAfterBody_writer (rb : Res) (h : rb.st.w.failed = true → rb.err = some Err.writer) :
    (∀ st, iterAfterBody rb = .abort st → st.w = rb.st.w ∧ (rb.st.w.failed = true → st.c.err = some Err.writer)) ∧
    (∀ st, iterAfterBody rb = .stop st → st.w = rb.st.w ∧ rb.st.w.failed = false) ∧
    (∀ st, iterAfterBody rb = .next st → st.w = rb.st.w ∧ rb.st.w.failed = false) := by
  rw [iterAfterBody_eq]
  -- the two "no abort" shapes
  have okCase : rb.st.w.failed = false →
      (∀ st, (if rb.st.c.brkD > 0 then IterOut.stop { rb.st with c := { rb.st.c with brkD := rb.st.c.brkD - 1 } } else IterOut.next rb.st) = .abort st →
          st.w = rb.st.w ∧ (rb.st.w.failed = true → st.c.err = some Err.writer)) ∧
      (∀ st, (if rb.st.c.brkD > 0 then IterOut.stop { rb.st with c := { rb.st.c with brkD := rb.st.c.brkD - 1 } } else IterOut.next rb.st) = .stop st →
          st.w = rb.st.w ∧ rb.st.w.failed = false) ∧
      (∀ st, (if rb.st.c.brkD > 0 then IterOut.stop { rb.st with c := { rb.st.c with brkD := rb.st.c.brkD - 1 } } else IterOut.next rb.st) = .next st →
          st.w = rb.st.w ∧ rb.st.w.failed = false) := by
    intro hnf
    by_cases hb : rb.st.c.brkD > 0
    · simp only [hb, if_true]
      refine ⟨?_, ?_, ?_⟩
      · intro st e; cases e
      · intro st e; cases e; exact ⟨rfl, hnf⟩
      · intro st e; cases e
    · simp only [hb, if_false]
      refine ⟨?_, ?_, ?_⟩
      · intro st e; cases e
      · intro st e; cases e
      · intro st e; cases e; exact ⟨rfl, hnf⟩
  cases he : rb.err with
  | some e =>
    by_cases hs : isSentinel e = true
    · have hnf : rb.st.w.failed = false := by
        cases hf : rb.st.w.failed with
        | false => rfl
        | true => have := h hf; rw [he] at this; cases this; simp [isSentinel] at hs
      simp only [hs, if_true]
      exact okCase hnf
    · have hs' : isSentinel e = false := by simpa using hs
      simp only [hs', Bool.false_eq_true, if_false]
      refine ⟨?_, ?_, ?_⟩
      · intro st e'
        cases e'
        refine ⟨rfl, fun hf => ?_⟩
        have := h hf; rw [he] at this; cases this; rfl
      · intro st e'; cases e'
      · intro st e'; cases e'
  | none =>
    have hnf : rb.st.w.failed = false := by
      cases hf : rb.st.w.failed with
      | false => rfl
      | true => have := h hf; rw [he] at this; cases this
    simp only
    exact okCase hnf

theorem clrErrIf_w (b : Bool) (s : St) : (clrErrIf b s).w = s.w := by unfold clrErrIf; split <;> rfl

theorem sepWrite_good (n : Nat) (sep : Bytes) (s : St) : Good s (sepWrite n sep s) := by
  unfold sepWrite
  split
  · exact St.write_good _ _
  · exact good_of_same_writer rfl

theorem cloopLoop_good (run : St → Res) (hrun : ∀ s, Good s (run s)) (ls : CLoopSpec) :
    ∀ (f : Nat) (v lim : Int) (n : Nat) (s : St), s.w.failed = false →
      (cloopLoop run ls f v lim n s).st.w.failed = true →
      (cloopLoop run ls f v lim n s).abort = true ∧ (cloopLoop run ls f v lim n s).st.c.err = some Err.writer := by
  intro f
  induction f with
  | zero => intro v lim n s hs hf; simp [cloopLoop, hs] at hf
  | succ f ih =>
    intro v lim n s hs hf
    rw [cloopLoop] at hf ⊢
    cases hla : loopAllows ls.condOp v lim with
    | none => simp [hla, hs] at hf
    | some b =>
      cases b with
      | false => simp [hla, hs] at hf
      | true =>
        simp only [hla] at hf ⊢
        have hs1 : ({ s with c := s.c.setStatic ls.cnt (Val.int v) } : St).w.failed = false := hs
        have grs := sepWrite_good n ls.sep { s with c := s.c.setStatic ls.cnt (Val.int v) }
        generalize hrs : sepWrite n ls.sep { s with c := s.c.setStatic ls.cnt (Val.int v) } = rs at hf ⊢ grs
        cases hre : rs.err with
        | some e =>
          simp only [hre] at hf ⊢
          have := grs hs1 (by simpa using hf)
          rw [hre] at this
          simp at this; subst this
          simp
        | none =>
          simp only [hre] at hf ⊢
          have hrsf0 : rs.st.w.failed = false := grs.notfailed hs1 (by rw [hre]; simp)
          have hw1 : (clrErrIf (decide (n > 0) && !ls.sep.isEmpty) rs.st).w = rs.st.w := clrErrIf_w _ _
          generalize clrErrIf (decide (n > 0) && !ls.sep.isEmpty) rs.st = rs1 at hf ⊢ hw1
          have hrsf : rs1.w.failed = false := by rw [hw1]; exact hrsf0
          have hin : ({ rs1 with c := { rs1.c with chQB := true } } : St).w.failed = false := hrsf
          have grb := hrun { rs1 with c := { rs1.c with chQB := true } }
          generalize hrb0 : run { rs1 with c := { rs1.c with chQB := true } } = rb0 at hf ⊢ grb
          have hgood : ({ rb0 with st := { rb0.st with c := { rb0.st.c with chQB := rs1.c.chQB } } } : Res).st.w.failed = true →
              ({ rb0 with st := { rb0.st with c := { rb0.st.c with chQB := rs1.c.chQB } } } : Res).err = some Err.writer :=
            fun h => grb hin h
          obtain ⟨kA, kS, kN⟩ := iterAfterBody_writer _ hgood
          generalize hio : iterAfterBody { rb0 with st := { rb0.st with c := { rb0.st.c with chQB := rs1.c.chQB } } } = io at hf ⊢ kA kS kN
          by_cases hop : (ls.cntOp == Op.inc || ls.cntOp == Op.dec) = true
          · simp only [hop, if_true] at hf ⊢
            cases io with
            | abort st =>
              simp only at hf ⊢
              have k := kA st rfl
              exact ⟨trivial, k.2 (by rw [← k.1]; exact hf)⟩
            | stop st =>
              simp only at hf
              have k := kS st rfl
              have : st.w.failed = false := by rw [k.1]; exact k.2
              rw [show ({ st with c := st.c.setStatic ls.cnt (Val.int (stepVal ls.cntOp v)) } : St).w = st.w from rfl, this] at hf
              cases hf
            | next st =>
              simp only at hf ⊢
              have k := kN st rfl
              exact ih _ _ _ _ (by show st.w.failed = false; rw [k.1]; exact k.2) hf
          · have hop' : (ls.cntOp == Op.inc || ls.cntOp == Op.dec) = false := by simpa using hop
            simp only [hop', Bool.false_eq_true, if_false] at hf ⊢
            cases io with
            | abort st =>
              simp only at hf ⊢
              have k := kA st rfl
              exact ⟨trivial, k.2 (by rw [← k.1]; exact hf)⟩
            | stop st =>
              simp only at hf
              have k := kS st rfl
              have : rb0.st.w.failed = false := k.2
              simp [this] at hf
            | next st =>
              simp only at hf
              have k := kN st rfl
              have : rb0.st.w.failed = false := k.2
              simp [this] at hf

theorem rloopLoop_good (run : St → Res) (hrun : ∀ s, Good s (run s)) (ls : RLoopSpec) :
    ∀ (items : List (Bytes × Val × InsKind)) (n : Nat) (s : St), s.w.failed = false →
      (rloopLoop run ls items n s).st.w.failed = true →
      (rloopLoop run ls items n s).abort = true ∧ (rloopLoop run ls items n s).st.c.err = some Err.writer := by
  intro items
  induction items with
  | nil => intro n s hs hf; simp [rloopLoop, hs] at hf
  | cons it rest ih =>
    intro n s hs hf
    obtain ⟨k, v, ik⟩ := it
    rw [rloopLoop] at hf ⊢
    have hs1f : (rIterStart ls k v ik s).w.failed = false := hs
    have grs := sepWrite_good n ls.sep (rIterStart ls k v ik s)
    generalize hrs : sepWrite n ls.sep (rIterStart ls k v ik s) = rs at hf ⊢ grs
    cases hre : rs.err with
    | some e =>
      simp only [hre] at hf ⊢
      have := grs hs1f (by simpa using hf)
      rw [hre] at this
      simp at this; subst this
      simp
    | none =>
      simp only [hre] at hf ⊢
      have hrsf : rs.st.w.failed = false := grs.notfailed hs1f (by rw [hre]; simp)
      have grb := hrun rs.st
      obtain ⟨kA, kS, kN⟩ := iterAfterBody_writer (run rs.st) (fun h => grb hrsf h)
      generalize hio : iterAfterBody (run rs.st) = io at hf ⊢ kA kS kN
      cases io with
      | abort st =>
        simp only at hf ⊢
        have k := kA st rfl
        exact ⟨trivial, k.2 (by rw [← k.1]; exact hf)⟩
      | stop st =>
        simp only at hf
        have k := kS st rfl
        rw [k.1, k.2] at hf; cases hf
      | next st =>
        simp only at hf ⊢
        have k := kN st rfl
        exact ih _ _ (by rw [k.1]; exact k.2) hf

theorem elseSeq_good : ∀ (runs : List (St → Res)), (∀ r ∈ runs, ∀ s, Good s (r s)) → ∀ s, Good s (elseSeq runs s)
  | [], _, s => by unfold elseSeq; exact good_of_same_writer rfl
  | r :: rest, h, s => by
    unfold elseSeq
    have g := h r (List.mem_cons_self) s
    cases hx : (r s).err with
    | some e => simp only; exact g
    | none =>
      simp only
      intro hs hf
      have nf : (r s).st.w.failed = false := g.notfailed hs (by rw [hx]; simp)
      exact elseSeq_good rest (fun r' hr' => h r' (List.mem_cons_of_mem _ hr')) _ nf hf

theorem elseRun_goodL (run : St → Res) (hrun : ∀ s, Good s (run s)) (ne : Bool) (s : St) :
    GoodL s (elseRun run ne s) := by
  intro hs hf
  unfold elseRun at hf ⊢
  have g := hrun s
  cases hx : (run s).err with
  | some e =>
    simp only [hx] at hf ⊢
    have := g hs (by simpa [ok] using hf)
    rw [hx] at this; simp at this; subst this
    right; simp [ok]
  | none =>
    simp only [hx] at hf
    have := g.notfailed hs (by rw [hx]; simp)
    cases ne <;> simp [ok, this] at hf

/-- After a loop whose iteration part satisfied the loop discipline. -/
theorem afterLoop_goodL (runElse : Option (St → Res)) (helse : ∀ re, runElse = some re → ∀ s, GoodL s (re s))
    (s0 : St) (r : LoopRes) (sElse : St) (hw : sElse.w = r.st.w)
    (key : r.st.w.failed = true → r.abort = true ∧ r.st.c.err = some Err.writer) :
    s0.w.failed = false → (afterLoop runElse r sElse).st.w.failed = true →
      ((afterLoop runElse r sElse).err = some Err.writer ∨
       ((afterLoop runElse r sElse).err = none ∧ (afterLoop runElse r sElse).st.c.err = some Err.writer)) := by
  intro _ hf
  unfold afterLoop at hf ⊢
  by_cases hab : r.abort = true
  · simp only [hab, if_true] at hf ⊢
    have := key (by simpa [ok] using hf)
    right; simp [ok, this.2]
  · have hab' : r.abort = false := by simpa using hab
    have hnf : r.st.w.failed = false := by
      cases h : r.st.w.failed with
      | false => rfl
      | true => have := (key h).1; rw [hab'] at this; cases this
    have hnf' : sElse.w.failed = false := by rw [hw]; exact hnf
    simp only [hab', Bool.false_eq_true, if_false] at hf ⊢
    by_cases hn : (r.n == 0) = true
    · simp only [hn, if_true] at hf ⊢
      cases hel : runElse with
      | none => simp [hel, ok, hnf'] at hf
      | some re =>
        simp only [hel] at hf ⊢
        exact helse re hel sElse hnf' hf
    · have hn' : (r.n == 0) = false := by simpa using hn
      simp [hn', ok, hnf'] at hf

theorem cloopWith_goodL (run : St → Res) (hrun : ∀ s, Good s (run s)) (runElse : Option (St → Res))
    (helse : ∀ re, runElse = some re → ∀ s, GoodL s (re s)) (fuel : Nat) (ls : CLoopSpec) (s : St) :
    GoodL s (cloopWith run runElse fuel ls s) := by
  intro hs hf
  unfold cloopWith cloopAfter at hf ⊢
  cases hb : (loopBounds s.c ls).2 with
  | none => simp [hb, ok, hs] at hf
  | some p =>
    obtain ⟨cnt, lim⟩ := p
    simp only [hb] at hf ⊢
    have hs2 : ({ s with c := (loopBounds s.c ls).1 } : St).w.failed = false := hs
    exact afterLoop_goodL runElse helse s _ _ rfl
      (cloopLoop_good run hrun ls fuel cnt lim 0 { s with c := (loopBounds s.c ls).1 } hs2) hs hf

theorem rloopWith_goodL (run : St → Res) (hrun : ∀ s, Good s (run s)) (runElse : Option (St → Res))
    (helse : ∀ re, runElse = some re → ∀ s, GoodL s (re s)) (ls : RLoopSpec) (s : St) :
    GoodL s (rloopWith run runElse ls s) := by
  intro hs hf
  unfold rloopWith at hf ⊢
  cases hsp : splitDots ls.src with
  | nil => simp [hsp, ok, hs] at hf
  | cons name sub =>
    simp only [hsp] at hf ⊢
    cases hgv : getVar s.c.vars name with
    | none =>
      simp only [hgv] at hf ⊢
      cases hel : runElse with
      | none => simp [hel, ok, hs] at hf
      | some re => simp only [hel] at hf ⊢; exact helse re hel s hs hf
    | some vv =>
      simp only [hgv] at hf ⊢
      exact afterLoop_goodL runElse helse s _ _ rfl
        (rloopLoop_good run hrun ls (loopItems vv sub) 0 s hs) hs hf


theorem rloopQB_goodL (run : St → Res) (hrun : ∀ s, Good s (run s)) (runElse : Option (St → Res))
    (helse : ∀ re, runElse = some re → ∀ s, GoodL s (re s)) (ls : RLoopSpec) (s : St) :
    GoodL s (rloopQB run runElse ls s) := by
  unfold rloopQB
  cases cmpPath s.c.vars s.c.chQB ls.src with
  | none => intro hs hf; simp [ok, hs] at hf
  | some p =>
    intro hs hf
    have := rloopWith_goodL run hrun runElse helse { ls with src := p } { s with c := { s.c with err := none } } hs hf
    exact this

theorem loopNode_good (loop : St → Res) (hl : ∀ s, GoodL s (loop s)) (s : St) : Good s (loopNode loop s) := by
  intro hs hf
  unfold loopNode at hf ⊢
  have g := hl { s with c := { s.c with brkD := 0 } }
  have hs0 : ({ s with c := { s.c with brkD := 0 } } : St).w.failed = false := hs
  generalize hr : loop { s with c := { s.c with brkD := 0 } } = r at hf ⊢ g
  cases hre : r.err with
  | some e =>
    simp only [hre] at hf ⊢
    have := g hs0 (by simpa using hf)
    rcases this with h | ⟨h, _⟩
    · rw [hre] at h; simpa using h
    · rw [hre] at h; cases h
  | none =>
    simp only [hre] at hf ⊢
    cases hce : r.st.c.err with
    | some e =>
      simp only [hce] at hf ⊢
      rw [loopErrRes_w] at hf
      have := g hs0 (by simpa using hf)
      rcases this with h | ⟨_, h⟩
      · rw [hre] at h; cases h
      · rw [hce] at h; simp at h; subst h; rw [loopErrRes_err]
    | none =>
      simp only [hce] at hf
      have := g hs0 (by simpa using hf)
      rcases this with h | ⟨_, h⟩
      · rw [hre] at h; cases h
      · rw [hce] at h; cases h

end DyntplV
