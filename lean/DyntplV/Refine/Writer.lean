import DyntplV.Impl
/-!
  Writer-failure propagation through the whole interpreter (helper lemmas for C17).
  `Good s r`: if no write had failed before and one has failed in the result, the result's error
  is the writer error.
-/
namespace DyntplV

/-- Result discipline of node-level functions. -/
def Good (s : St) (r : Res) : Prop :=
  s.w.failed = false → r.st.w.failed = true → r.err = some Err.writer

/-- Result discipline of the loop functions, which report through `ctx.Err`. -/
def GoodL (s : St) (r : Res) : Prop :=
  s.w.failed = false → r.st.w.failed = true → (r.err = some Err.writer ∨ (r.err = none ∧ r.st.c.err = some Err.writer))

theorem Writer.write_failed (w : Writer) (p : Bytes) (h : w.failed = false) :
    ((w.write p).2 = true ∧ (w.write p).1.failed = false) ∨ ((w.write p).2 = false ∧ (w.write p).1.failed = true) := by
  unfold Writer.write
  cases hf : w.failAt with
  | none => simp [h]
  | some k =>
    by_cases hk : k ≤ w.writes + 1
    · simp [hk]
    · simp [hk, h]

theorem St.write_good (s : St) (p : Bytes) : Good s (s.write p) := by
  intro h hf
  unfold St.write at hf ⊢
  rcases Writer.write_failed s.w p h with ⟨h1, h2⟩ | ⟨h1, h2⟩
  · -- success: not failed
    have : s.w.write p = ((s.w.write p).1, true) := by rw [← h1]
    rw [this] at hf
    simp [ok, h2] at hf
  · have : s.w.write p = ((s.w.write p).1, false) := by rw [← h1]
    rw [this]
    simp [fail]

theorem St.write_ok_notfailed (s : St) (p : Bytes) (h : s.w.failed = false) (he : (s.write p).err = none) :
    (s.write p).st.w.failed = false := by
  unfold St.write at he ⊢
  rcases Writer.write_failed s.w p h with ⟨h1, h2⟩ | ⟨h1, h2⟩
  · have : s.w.write p = ((s.w.write p).1, true) := by rw [← h1]
    rw [this]; simp [ok, h2]
  · have : s.w.write p = ((s.w.write p).1, false) := by rw [← h1]
    rw [this] at he; simp [fail] at he

/-- A result without error, from a good function, has no failed write. -/
theorem Good.notfailed {s : St} {r : Res} (g : Good s r) (h : s.w.failed = false) (he : r.err ≠ some Err.writer) :
    r.st.w.failed = false := by
  cases hf : r.st.w.failed with
  | false => rfl
  | true => exact absurd (g h hf) he

theorem good_of_same_writer {s : St} {r : Res} (h : r.st.w = s.w) : Good s r := by
  intro hs hf; rw [h] at hf; rw [hs] at hf; cases hf

theorem goodL_of_same_writer {s : St} {r : Res} (h : r.st.w = s.w) : GoodL s r := by
  intro hs hf; rw [h] at hf; rw [hs] at hf; cases hf

/-! ### Loops -/

theorem cloopLoop_good (run : St → Res) (hrun : ∀ s, Good s (run s)) (ls : CLoopSpec) :
    ∀ (f : Nat) (v lim : Int) (n : Nat) (s : St), s.w.failed = false →
      (cloopLoop run ls f v lim n s).st.w.failed = true →
      (cloopLoop run ls f v lim n s).abort = true ∧ (cloopLoop run ls f v lim n s).st.c.err = some Err.writer := by
  intro f
  induction f with
  | zero => intro v lim n s hs hf; simp [cloopLoop, hs] at hf
  | succ f ih =>
    intro v lim n s hs hf
    rw [cloopLoop] at hf ⊢
    cases hla : loopAllows ls.condOp v lim with
    | none => simp [hla, hs] at hf
    | some b =>
      cases b with
      | false => simp [hla, hs] at hf
      | true =>
        simp only [hla] at hf ⊢
        -- separator
        generalize hrs : (if (n > 0 && !ls.sep.isEmpty) = true then
            St.write { s with c := s.c.setStatic ls.cnt (Val.int v) } ls.sep
            else ok { s with c := s.c.setStatic ls.cnt (Val.int v) }) = rs at hf ⊢
        have hs1 : ({ s with c := s.c.setStatic ls.cnt (Val.int v) } : St).w.failed = false := hs
        have grs : Good { s with c := s.c.setStatic ls.cnt (Val.int v) } rs := by
          rw [← hrs]; split
          · exact St.write_good _ _
          · exact good_of_same_writer rfl
        cases hre : rs.err with
        | some e =>
          simp only [hre] at hf ⊢
          have := grs hs1 (by simpa using hf)
          rw [hre] at this
          simp at this; subst this
          simp
        | none =>
          simp only [hre] at hf ⊢
          have hrsf : rs.st.w.failed = false := grs.notfailed hs1 (by rw [hre]; simp)
          generalize hrb : run { rs.st with c := { rs.st.c with chQB := true } } = rb at hf ⊢
          have grb : Good { rs.st with c := { rs.st.c with chQB := true } } rb := by rw [← hrb]; exact hrun _
          have hin : ({ rs.st with c := { rs.st.c with chQB := true } } : St).w.failed = false := hrsf
          cases hrbe : rb.err with
          | some e =>
            by_cases hse : isSentinel e = true
            · -- sentinel: the body did not fail a write
              have hnf : rb.st.w.failed = false := grb.notfailed hin (by rw [hrbe]; intro h; cases h; simp [isSentinel] at hse)
              simp only [hrbe, hse, if_true] at hf ⊢
              cases hop : ls.cntOp <;> simp only [hop] at hf ⊢ <;> try (simp [hnf] at hf)
              all_goals
                split at hf
                · simp [hnf] at hf
                · split
                  · simp_all
                  · exact ih _ _ _ _ (by simpa using hnf) hf
            · have hse' : isSentinel e = false := by simpa using hse
              simp only [hrbe, hse'] at hf ⊢
              simp only [Bool.false_eq_true, if_false] at hf ⊢
              have hff : rb.st.w.failed = true := by simpa using hf
              have := grb hin hff
              rw [hrbe] at this; simp at this; subst this
              simp
          | none =>
            have hnf : rb.st.w.failed = false := grb.notfailed hin (by rw [hrbe]; simp)
            simp only [hrbe] at hf ⊢
            cases hop : ls.cntOp <;> simp only [hop] at hf ⊢ <;> try (simp [hnf] at hf)
            all_goals
              split at hf
              · simp [hnf] at hf
              · split
                · simp_all
                · exact ih _ _ _ _ (by simpa using hnf) hf

theorem rloopLoop_good (run : St → Res) (hrun : ∀ s, Good s (run s)) (ls : RLoopSpec) :
    ∀ (items : List (Bytes × Val × InsKind)) (n : Nat) (s : St), s.w.failed = false →
      (rloopLoop run ls items n s).st.w.failed = true →
      (rloopLoop run ls items n s).abort = true ∧ (rloopLoop run ls items n s).st.c.err = some Err.writer := by
  intro items
  induction items with
  | nil => intro n s hs hf; simp [rloopLoop, hs] at hf
  | cons it rest ih =>
    intro n s hs hf
    obtain ⟨k, v, ik⟩ := it
    rw [rloopLoop] at hf ⊢
    generalize hs1 : ({ s with c := (if ls.key.isEmpty = true then s.c else s.c.set ls.key (Val.bytes k) InsKind.static).set ls.val v ik } : St) = s1 at hf ⊢
    have hs1f : s1.w.failed = false := by rw [← hs1]; exact hs
    generalize hrs : (if (n > 0 && !ls.sep.isEmpty) = true then St.write s1 ls.sep else ok s1) = rs at hf ⊢
    have grs : Good s1 rs := by
      rw [← hrs]; split
      · exact St.write_good _ _
      · exact good_of_same_writer rfl
    cases hre : rs.err with
    | some e =>
      simp only [hre] at hf ⊢
      have := grs hs1f (by simpa using hf)
      rw [hre] at this
      simp at this; subst this
      simp
    | none =>
      simp only [hre] at hf ⊢
      have hrsf : rs.st.w.failed = false := grs.notfailed hs1f (by rw [hre]; simp)
      generalize hrb : run rs.st = rb at hf ⊢
      have grb : Good rs.st rb := by rw [← hrb]; exact hrun _
      cases hrbe : rb.err with
      | some e =>
        by_cases hse : isSentinel e = true
        · have hnf : rb.st.w.failed = false := grb.notfailed hrsf (by rw [hrbe]; intro h; cases h; simp [isSentinel] at hse)
          simp only [hrbe, hse, if_true] at hf ⊢
          split at hf
          · simp [hnf] at hf
          · split
            · simp_all
            · exact ih _ _ (by simpa using hnf) hf
        · have hse' : isSentinel e = false := by simpa using hse
          simp only [hrbe, hse'] at hf ⊢
          simp only [Bool.false_eq_true, if_false] at hf ⊢
          have hff : rb.st.w.failed = true := by simpa using hf
          have := grb hrsf hff
          rw [hrbe] at this; simp at this; subst this
          simp
      | none =>
        have hnf : rb.st.w.failed = false := grb.notfailed hrsf (by rw [hrbe]; simp)
        simp only [hrbe] at hf ⊢
        split at hf
        · simp [hnf] at hf
        · split
          · simp_all
          · exact ih _ _ (by simpa using hnf) hf

theorem elseRun_goodL (run : St → Res) (hrun : ∀ s, Good s (run s)) (ne : Bool) (s : St) :
    GoodL s (elseRun run ne s) := by
  intro hs hf
  unfold elseRun at hf ⊢
  have g := hrun s
  cases hx : (run s).err with
  | some e =>
    simp only [hx] at hf ⊢
    have := g hs (by simpa [ok] using hf)
    rw [hx] at this; simp at this; subst this
    right; simp [ok]
  | none =>
    simp only [hx] at hf
    have := g.notfailed hs (by rw [hx]; simp)
    cases ne <;> simp [ok, this] at hf

theorem cloopWith_goodL (run : St → Res) (hrun : ∀ s, Good s (run s)) (runElse : Option (St → Res))
    (helse : ∀ re, runElse = some re → ∀ s, GoodL s (re s)) (fuel : Nat) (ls : CLoopSpec) (s : St) :
    GoodL s (cloopWith run runElse fuel ls s) := by
  intro hs hf
  unfold cloopWith at hf ⊢
  generalize hr1 : cloopRange s.c ls.cntStatic ls.cntInit = r1 at hf ⊢
  obtain ⟨cnt, c1⟩ := r1
  cases cnt with
  | error e => simp [ok, hs] at hf
  | ok cnt =>
    simp only at hf ⊢
    generalize hr2 : cloopRange c1 ls.limStatic ls.lim = r2 at hf ⊢
    obtain ⟨lim, c2⟩ := r2
    cases lim with
    | error e => simp [ok, hs] at hf
    | ok lim =>
      simp only at hf ⊢
      have hs2 : ({ s with c := c2 } : St).w.failed = false := hs
      have key := cloopLoop_good run hrun ls fuel cnt lim 0 { s with c := c2 } hs2
      generalize hr : cloopLoop run ls fuel cnt lim 0 { s with c := c2 } = r at hf ⊢ key
      by_cases hab : r.abort = true
      · simp only [hab, if_true] at hf ⊢
        have := key (by simpa [ok] using hf)
        right; simp [ok, this.2]
      · have hab' : r.abort = false := by simpa using hab
        have hnf : r.st.w.failed = false := by
          cases h : r.st.w.failed with
          | false => rfl
          | true => have := (key h).1; rw [hab'] at this; cases this
        simp only [hab', Bool.false_eq_true, if_false] at hf ⊢
        by_cases hn : (r.n == 0) = true
        · simp only [hn, if_true] at hf ⊢
          cases hel : runElse with
          | none => simp [hel, ok, hnf] at hf
          | some re =>
            simp only [hel] at hf ⊢
            exact helse re hel r.st hnf hf
        · have hn' : (r.n == 0) = false := by simpa using hn
          simp [hn', ok, hnf] at hf

theorem rloopWith_goodL (run : St → Res) (hrun : ∀ s, Good s (run s)) (runElse : Option (St → Res))
    (helse : ∀ re, runElse = some re → ∀ s, GoodL s (re s)) (ls : RLoopSpec) (s : St) :
    GoodL s (rloopWith run runElse ls s) := by
  intro hs hf
  unfold rloopWith at hf ⊢
  cases hsp : splitDots ls.src with
  | nil => simp [hsp, ok, hs] at hf
  | cons name sub =>
    simp only [hsp] at hf ⊢
    cases hgv : getVar s.c.vars name with
    | none => simp [hgv, ok, hs] at hf
    | some vv =>
      simp only [hgv] at hf ⊢
      have key := rloopLoop_good run hrun ls (loopItems vv sub) 0 s hs
      generalize hr : rloopLoop run ls (loopItems vv sub) 0 s = r at hf ⊢ key
      by_cases hab : r.abort = true
      · simp only [hab, if_true] at hf ⊢
        have := key (by simpa [ok] using hf)
        right; simp [ok, this.2]
      · have hab' : r.abort = false := by simpa using hab
        have hnf : r.st.w.failed = false := by
          cases h : r.st.w.failed with
          | false => rfl
          | true => have := (key h).1; rw [hab'] at this; cases this
        simp only [hab', Bool.false_eq_true, if_false] at hf ⊢
        by_cases hn : (r.n == 0) = true
        · simp only [hn, if_true] at hf ⊢
          cases hel : runElse with
          | none => simp [hel, ok, hnf] at hf
          | some re =>
            simp only [hel] at hf ⊢
            exact helse re hel { r.st with c := { r.st.c with err := none } } hnf hf
        · have hn' : (r.n == 0) = false := by simpa using hn
          simp [hn', ok, hnf] at hf

theorem loopNode_good (loop : St → Res) (hl : ∀ s, GoodL s (loop s)) (s : St) : Good s (loopNode loop s) := by
  intro hs hf
  unfold loopNode at hf ⊢
  have g := hl { s with c := { s.c with brkD := 0 } }
  have hs0 : ({ s with c := { s.c with brkD := 0 } } : St).w.failed = false := hs
  generalize hr : loop { s with c := { s.c with brkD := 0 } } = r at hf ⊢ g
  cases hre : r.err with
  | some e =>
    simp only [hre] at hf ⊢
    have := g hs0 (by simpa using hf)
    rcases this with h | ⟨h, _⟩
    · rw [hre] at h; simpa using h
    · rw [hre] at h; cases h
  | none =>
    simp only [hre] at hf ⊢
    cases hce : r.st.c.err with
    | some e =>
      simp only [hce] at hf ⊢
      have := g hs0 (by simpa [fail] using hf)
      rcases this with h | ⟨_, h⟩
      · rw [hre] at h; cases h
      · rw [hce] at h; simp at h; subst h; simp [fail]
    | none =>
      simp only [hce] at hf
      have := g hs0 (by simpa using hf)
      rcases this with h | ⟨_, h⟩
      · rw [hre] at h; cases h
      · rw [hce] at h; cases h

end DyntplV
