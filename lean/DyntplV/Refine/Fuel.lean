import DyntplV.Impl

/-!
# Fuel monotonicity of the interpreter model

The interpreter (`writeTree / writeSeq / writeNode / switchNode`) is defined by recursion on a fuel argument;
running out of fuel is reported as the error `outOfFuel`, which no construct swallows. This file proves that
fuel is only a termination device: **if a run with fuel `f` does not end with `outOfFuel`, every run with more
fuel returns exactly the same result** (`interp_fuel`, `writeNode_fuel_le`, `writeKey_fuel_le`). Every theorem
stated "for fuel `f`" therefore holds for all larger fuels whenever the run with `f` did not run out, and the
differential runs (fuel 1200) are not sensitive to the constant.

Method: a binary relation `Ext r r'` (`r'` = the run with one more unit of fuel) carried through the interpreter by
induction on the fuel, with loop-level lemmas for the counter loop (whose iteration count is bounded by the same
fuel), the range loop, the for-else branch and the loop node (which turns `ctx.Err` back into the returned error).
-/

namespace DyntplV
namespace Fuel

/-- `r'` (more fuel) is the same result as `r`, unless `r` ran out of fuel. -/
def Ext (r r' : Res) : Prop := r.err ≠ some .outOfFuel → r' = r

/-- The same for results of the loop functions, which report errors through `ctx.Err`. -/
def ExtC (r r' : Res) : Prop := r.st.c.err ≠ some .outOfFuel → r' = r

/-- Iteration parts of loops: they differ only when the one with less fuel returned early with `outOfFuel`. -/
def ExtL (r r' : LoopRes) : Prop := ¬ (r.abort = true ∧ r.st.c.err = some .outOfFuel) → r' = r

/-- The optional else-branch runners at the two fuels. -/
def ExtElse (a b : Option (St → Res)) : Prop :=
  match a, b with
  | some re, some re' => ∀ s, ExtC (re s) (re' s)
  | none, none => True
  | _, _ => False

theorem Ext.refl (r : Res) : Ext r r := fun _ => rfl

theorem ext_andThen (r r' : Res) (k k' : St → Res) (h : Ext r r') (hk : ∀ st, Ext (k st) (k' st)) :
    Ext (r.andThen k) (r'.andThen k') := by
  intro hne
  cases hr : r.err with
  | some e =>
    have h1 : r.andThen k = r := by simp [Res.andThen, hr]
    have h1' : r.andThen k' = r := by simp [Res.andThen, hr]
    rw [h1] at hne ⊢
    have h2 : r' = r := h hne
    rw [h2, h1']
  | none =>
    have h1 : r.andThen k = k r.st := by simp [Res.andThen, hr]
    have h1' : r.andThen k' = k' r.st := by simp [Res.andThen, hr]
    have h2 : r' = r := h (by rw [hr]; simp)
    rw [h1] at hne ⊢
    rw [h2, h1']
    exact hk r.st hne

/-! ### Iterations -/

theorem iterAfterBody_oof (rb : Res) (h : rb.err = some .outOfFuel) :
    iterAfterBody rb = .abort { rb.st with c := { rb.st.c with err := some .outOfFuel, brkD := rb.st.c.brkD - 1 } } := by
  unfold iterAfterBody
  simp [h, isSentinel]

/-- The counter loop: the body at `f` vs `f+1`, the iteration budget `f` vs `f+1`. -/
theorem cloopLoop_ext (run run' : St → Res) (h : ∀ st, Ext (run st) (run' st)) (ls : CLoopSpec) :
    ∀ (f : Nat) (v lim : Int) (n : Nat) (s : St),
      ExtL (cloopLoop run ls f v lim n s) (cloopLoop run' ls (f+1) v lim n s) := by
  intro f
  induction f with
  | zero =>
    intro v lim n s hne
    rw [cloopLoop] at hne
    exact absurd ⟨rfl, rfl⟩ hne
  | succ f ih =>
    intro v lim n s hne
    rw [cloopLoop] at hne ⊢
    rw [cloopLoop]
    cases hla : loopAllows ls.condOp v lim with
    | none => simp only [hla]
    | some b =>
      cases b with
      | false => simp only [hla]
      | true =>
        simp only [hla] at hne ⊢
        generalize hrs : sepWrite n ls.sep { s with c := s.c.setStatic ls.cnt (.int v) } = rs at hne ⊢
        cases hre : rs.err with
        | some e => simp only [hre]
        | none =>
          simp only [hre] at hne ⊢
          generalize hst : ({ clrErrIf (n > 0 && !ls.sep.isEmpty) rs.st with
              c := { (clrErrIf (n > 0 && !ls.sep.isEmpty) rs.st).c with chQB := true } } : St) = st1 at hne ⊢
          by_cases hoof : (run st1).err = some .outOfFuel
          · -- the body ran out of fuel: the loop aborts with that error in ctx.Err
            exfalso
            have hab := iterAfterBody_oof
              ({ run st1 with st := { (run st1).st with c := { (run st1).st.c with chQB := (clrErrIf (n > 0 && !ls.sep.isEmpty) rs.st).c.chQB } } } : Res) hoof
            by_cases hop : (ls.cntOp == .inc || ls.cntOp == .dec) = true
            · simp only [hop, if_true, hab] at hne
              exact hne (by simp)
            · simp only [hop, Bool.false_eq_true, if_false, hab] at hne
              exact hne (by simp)
          · have hsame : run' st1 = run st1 := h st1 hoof
            rw [hsame]
            by_cases hop : (ls.cntOp == .inc || ls.cntOp == .dec) = true
            · simp only [hop, if_true] at hne ⊢
              generalize hio : iterAfterBody ({ run st1 with st := { (run st1).st with c := { (run st1).st.c with chQB := (clrErrIf (n > 0 && !ls.sep.isEmpty) rs.st).c.chQB } } } : Res) = io at hne ⊢
              cases io with
              | abort st => rfl
              | stop st => rfl
              | next st => exact ih _ _ _ _ hne
            · simp only [hop, Bool.false_eq_true, if_false]

/-- The range loop has no fuel of its own: only the body differs. -/
theorem rloopLoop_ext (run run' : St → Res) (h : ∀ st, Ext (run st) (run' st)) (ls : RLoopSpec) :
    ∀ (items : List (Bytes × Val × InsKind)) (n : Nat) (s : St),
      ExtL (rloopLoop run ls items n s) (rloopLoop run' ls items n s) := by
  intro items
  induction items with
  | nil => intro n s _; rfl
  | cons it rest ih =>
    obtain ⟨k, v, ik⟩ := it
    intro n s hne
    rw [rloopLoop] at hne ⊢
    rw [rloopLoop]
    generalize hrs : sepWrite n ls.sep (rIterStart ls k v ik s) = rs at hne ⊢
    cases hre : rs.err with
    | some e => simp only [hre]
    | none =>
      simp only [hre] at hne ⊢
      by_cases hoof : (run rs.st).err = some .outOfFuel
      · exfalso
        rw [iterAfterBody_oof _ hoof] at hne
        exact hne ⟨rfl, rfl⟩
      · rw [h rs.st hoof]
        generalize hio : iterAfterBody (run rs.st) = io at hne ⊢
        cases io with
        | abort st => rfl
        | stop st => rfl
        | next st => exact ih _ _ hne

/-! ### The for-else branch -/

theorem elseSeq_ext (g g' : Node → St → Res) (h : ∀ n st, Ext (g n st) (g' n st)) :
    ∀ (e : List Node) (s : St), Ext (elseSeq (e.map g) s) (elseSeq (e.map g') s) := by
  intro e
  induction e with
  | nil => intro s _; rfl
  | cons n rest ih =>
    intro s hne
    simp only [List.map_cons, elseSeq] at hne ⊢
    cases hr : (g n s).err with
    | some e1 =>
      simp only [hr] at hne
      have hs : g' n s = g n s := h n s (by rw [hr]; exact hne)
      simp only [hs, hr]
    | none =>
      simp only [hr] at hne
      have hs : g' n s = g n s := h n s (by rw [hr]; simp)
      simp only [hs, hr]
      exact ih _ hne

theorem elseRun_ext (run run' : St → Res) (h : ∀ st, Ext (run st) (run' st)) (ne : Bool) (s : St) :
    ExtC (elseRun run ne s) (elseRun run' ne s) := by
  intro hne
  unfold elseRun at hne ⊢
  by_cases hoof : (run s).err = some .outOfFuel
  · exfalso
    simp only [hoof] at hne
    exact hne rfl
  · rw [h s hoof]

theorem elseRun_err (run : St → Res) (ne : Bool) (s : St) : (elseRun run ne s).err = none := by
  unfold elseRun
  simp only
  split <;> rfl

/-! ### Loops as a whole -/

theorem afterLoop_ext (runElse runElse' : Option (St → Res))
    (helse : ExtElse runElse runElse')
    (r : LoopRes) (sElse : St) :
    ExtC (afterLoop runElse r sElse) (afterLoop runElse' r sElse) := by
  intro hne
  unfold afterLoop at hne ⊢
  by_cases ha : r.abort = true
  · simp only [ha, if_true]
  · simp only [ha, Bool.false_eq_true, if_false] at hne ⊢
    by_cases hn : (r.n == 0) = true
    · simp only [hn, if_true] at hne ⊢
      cases runElse with
      | none => cases runElse' with
        | none => rfl
        | some _ => exact absurd helse (by simp [ExtElse])
      | some re => cases runElse' with
        | none => exact absurd helse (by simp [ExtElse])
        | some re' => exact helse sElse hne
    · simp only [hn, Bool.false_eq_true, if_false]

theorem afterLoop_err (runElse : Option (St → Res)) (helse : ∀ re, runElse = some re → ∀ s, (re s).err = none)
    (r : LoopRes) (sElse : St) : (afterLoop runElse r sElse).err = none := by
  unfold afterLoop
  split
  · rfl
  · split
    · cases runElse with
      | none => rfl
      | some re => exact helse re rfl sElse
    · rfl

/-- `Ctx.cloop` as a whole. -/
theorem cloopWith_ext (run run' : St → Res) (h : ∀ st, Ext (run st) (run' st)) (runElse runElse' : Option (St → Res))
    (helse : ExtElse runElse runElse')
    (f : Nat) (ls : CLoopSpec) (s : St) :
    ExtC (cloopWith run runElse f ls s) (cloopWith run' runElse' (f+1) ls s) := by
  intro hne
  unfold cloopWith cloopAfter at hne ⊢
  cases hb : (loopBounds s.c ls).2 with
  | none => rfl
  | some b =>
    obtain ⟨cnt, lim⟩ := b
    simp only [hb] at hne ⊢
    -- the loop itself
    have hloop := cloopLoop_ext run run' h ls f cnt lim 0 { s with c := (loopBounds s.c ls).1 }
    by_cases hoof : (cloopLoop run ls f cnt lim 0 { s with c := (loopBounds s.c ls).1 }).abort = true ∧
        (cloopLoop run ls f cnt lim 0 { s with c := (loopBounds s.c ls).1 }).st.c.err = some .outOfFuel
    · -- the loop returned early with outOfFuel: that is what `cloop` returns
      exfalso
      unfold afterLoop at hne
      simp only [hoof.1, if_true] at hne
      exact hne hoof.2
    · rw [hloop hoof]
      exact afterLoop_ext runElse runElse' helse _ _ hne

/-- `Ctx.rloop` as a whole. -/
theorem rloopWith_ext (run run' : St → Res) (h : ∀ st, Ext (run st) (run' st)) (runElse runElse' : Option (St → Res))
    (helse : ExtElse runElse runElse')
    (ls : RLoopSpec) (s : St) :
    ExtC (rloopWith run runElse ls s) (rloopWith run' runElse' ls s) := by
  intro hne
  unfold rloopWith at hne ⊢
  cases hsp : splitDots ls.src with
  | nil => rfl
  | cons name sub =>
    simp only [hsp] at hne ⊢
    cases hg : getVar s.c.vars name with
    | none =>
      simp only [hg] at hne ⊢
      cases runElse with
      | none => cases runElse' with
        | none => rfl
        | some _ => exact absurd helse (by simp [ExtElse])
      | some re => cases runElse' with
        | none => exact absurd helse (by simp [ExtElse])
        | some re' => exact helse s hne
    | some vv =>
      simp only [hg] at hne ⊢
      have hloop := rloopLoop_ext run run' h ls (loopItems vv sub) 0 s
      by_cases hoof : (rloopLoop run ls (loopItems vv sub) 0 s).abort = true ∧
          (rloopLoop run ls (loopItems vv sub) 0 s).st.c.err = some .outOfFuel
      · exfalso
        unfold afterLoop at hne
        simp only [hoof.1, if_true] at hne
        exact hne hoof.2
      · rw [hloop hoof]
        exact afterLoop_ext runElse runElse' helse _ _ hne

theorem cloopWith_err (run : St → Res) (runElse : Option (St → Res))
    (helse : ∀ re, runElse = some re → ∀ s, (re s).err = none) (f : Nat) (ls : CLoopSpec) (s : St) :
    (cloopWith run runElse f ls s).err = none := by
  unfold cloopWith cloopAfter
  split
  · rfl
  · exact afterLoop_err runElse helse _ _

theorem rloopWith_err (run : St → Res) (runElse : Option (St → Res))
    (helse : ∀ re, runElse = some re → ∀ s, (re s).err = none) (ls : RLoopSpec) (s : St) :
    (rloopWith run runElse ls s).err = none := by
  unfold rloopWith
  split
  · rfl
  · split
    · cases runElse with
      | none => rfl
      | some re => exact helse re rfl s
    · exact afterLoop_err runElse helse _ _


theorem rloopQB_ext (run run' : St → Res) (h : ∀ st, Ext (run st) (run' st)) (runElse runElse' : Option (St → Res))
    (helse : ExtElse runElse runElse')
    (ls : RLoopSpec) (s : St) :
    ExtC (rloopQB run runElse ls s) (rloopQB run' runElse' ls s) := by
  unfold rloopQB
  cases cmpPath s.c.vars s.c.chQB ls.src with
  | none => intro _; rfl
  | some p => exact rloopWith_ext run run' h runElse runElse' helse { ls with src := p } { s with c := { s.c with err := none } }

theorem rloopQB_err (run : St → Res) (runElse : Option (St → Res))
    (helse : ∀ re, runElse = some re → ∀ s, (re s).err = none) (ls : RLoopSpec) (s : St) :
    (rloopQB run runElse ls s).err = none := by
  unfold rloopQB
  cases cmpPath s.c.vars s.c.chQB ls.src with
  | none => rfl
  | some p => exact rloopWith_err run runElse helse { ls with src := p } { s with c := { s.c with err := none } }

/-- The loop node turns `ctx.Err` into the returned error: a loop that ran out of fuel returns `outOfFuel`. -/
theorem loopNode_ext (loop loop' : St → Res) (hnone : ∀ s, (loop s).err = none) (h : ∀ s, ExtC (loop s) (loop' s)) (s : St) :
    Ext (loopNode loop s) (loopNode loop' s) := by
  intro hne
  by_cases hoof : (loop { s with c := { s.c with brkD := 0 } }).st.c.err = some .outOfFuel
  · exfalso
    unfold loopNode at hne
    generalize hr : loop { s with c := { s.c with brkD := 0 } } = r at hne hoof
    have hrn : r.err = none := by rw [← hr]; exact hnone _
    simp only [hrn, hoof] at hne
    exact hne (loopErrRes_err _ _)
  · unfold loopNode
    rw [h _ hoof]

theorem inclFinish_ext (s : St) (r r' : Res) (h : Ext r r') : Ext (inclFinish s r) (inclFinish s r') := by
  intro hne
  by_cases hoof : r.err = some .outOfFuel
  · exfalso
    unfold inclFinish at hne
    simp only [hoof, beq_self_eq_true, Bool.or_true, if_true] at hne
    exact hne rfl
  · rw [h hoof]

/-! ### The interpreter -/

/-- **Fuel monotonicity, one step.** -/
theorem interp_fuel (reg : Registry) : ∀ f : Nat,
    (∀ nodes s, Ext (writeTree reg f nodes s) (writeTree reg (f+1) nodes s)) ∧
    (∀ nodes s, Ext (writeSeq reg f nodes s) (writeSeq reg (f+1) nodes s)) ∧
    (∀ n s, Ext (writeNode reg f n s) (writeNode reg (f+1) n s)) ∧
    (∀ arg all cs s, Ext (switchNode reg f arg all cs s) (switchNode reg (f+1) arg all cs s)) := by
  intro f
  induction f with
  | zero =>
    refine ⟨?_, ?_, ?_, ?_⟩
    · intro nodes s hne; rw [writeTree] at hne; exact absurd rfl hne
    · intro nodes s hne; rw [writeSeq] at hne; exact absurd rfl hne
    · intro n s hne; rw [writeNode] at hne; exact absurd rfl hne
    · intro a al cs s hne; rw [switchNode] at hne; exact absurd rfl hne
  | succ f ih =>
    obtain ⟨ihT, ihS, ihN, ihW⟩ := ih
    have hElse : ∀ (els : Option (List Node)), ExtElse
        (els.map (fun e st => elseRun (elseSeq (e.map (fun n st' => writeNode reg f n st'))) (!e.isEmpty) st))
        (els.map (fun e st => elseRun (elseSeq (e.map (fun n st' => writeNode reg (f+1) n st'))) (!e.isEmpty) st)) := by
      intro els
      cases els with
      | none => trivial
      | some e =>
        intro s
        exact elseRun_ext _ _ (fun st => elseSeq_ext _ _ (fun n st' => ihN n st') e st) _ s
    have hElseErr : ∀ (g : Nat) (els : Option (List Node)) (re : St → Res),
        els.map (fun e st => elseRun (elseSeq (e.map (fun n st' => writeNode reg g n st'))) (!e.isEmpty) st) = some re →
        ∀ s, (re s).err = none := by
      intro g els re hre s
      cases els with
      | none => simp at hre
      | some e => simp only [Option.map_some, Option.some.injEq] at hre; subst hre; exact elseRun_err _ _ _
    refine ⟨?_, ?_, ?_, ?_⟩
    · -- writeTree
      intro nodes s hne
      rw [writeTree] at hne ⊢
      rw [writeTree]
      simp only at hne ⊢
      by_cases hoof : (writeSeq reg f nodes s).err = some .outOfFuel
      · exfalso
        have hni : ¬ ((writeSeq reg f nodes s).err = some Err.interrupt) := by rw [hoof]; simp
        simp only [hni, if_false] at hne
        exact hne hoof
      · rw [ihS nodes s hoof]
    · -- writeSeq
      intro nodes s
      cases nodes with
      | nil => intro _; rw [writeSeq, writeSeq]
      | cons n rest =>
        rw [writeSeq, writeSeq]
        exact ext_andThen _ _ _ _ (ihN n s) (fun st => ihS rest st)
    · -- writeNode
      intro n s
      cases n with
      | raw b => intro _; rw [writeNode, writeNode]
      | tpl path mods noesc pre suf => intro _; rw [writeNode, writeNode]
      | ctx cs => intro _; rw [writeNode, writeNode]
      | counter cs => intro _; rw [writeNode, writeNode]
      | condOK kk child =>
        rw [writeNode, writeNode]
        simp only
        by_cases he : kk.cd.hlp.isEmpty = true
        · simp only [he, if_true]; exact Ext.refl _
        · simp only [he, Bool.false_eq_true, if_false]
          generalize evalCondOK s.c kk = ev
          obtain ⟨c1, o⟩ := ev
          cases o with
          | stop e => exact Ext.refl _
          | branch r pending =>
            simp only
            cases (if r then child[0]? else child[1]?) with
            | none => exact Ext.refl _
            | some n => exact ihN n _
      | cond cd child =>
        rw [writeNode, writeNode]
        simp only
        generalize evalCond s.c cd = ev
        obtain ⟨c1, o⟩ := ev
        cases o with
        | stop e => exact Ext.refl _
        | branch r pending =>
          simp only
          cases (if r then child[0]? else child[1]?) with
          | none => exact Ext.refl _
          | some n => exact ihN n _
      | condTrue child => rw [writeNode, writeNode]; exact ihS child s
      | condFalse child => rw [writeNode, writeNode]; exact ihS child s
      | case_ kk child => rw [writeNode, writeNode]; exact ihS child s
      | default_ child => rw [writeNode, writeNode]; exact ihS child s
      | cloop ls child =>
        rw [writeNode, writeNode]
        simp only
        apply loopNode_ext
        · intro s'; exact cloopWith_err _ _ (hElseErr f _) _ _ _
        · intro s'
          exact cloopWith_ext _ _ (fun st => ihS _ st) _ _ (hElse _) f ls s'
      | rloop ls child =>
        rw [writeNode, writeNode]
        simp only
        apply loopNode_ext
        · intro s'; exact rloopQB_err _ _ (hElseErr f _) _ _
        · intro s'
          exact rloopQB_ext _ _ (fun st => ihS _ st) _ _ (hElse _) ls s'
      | brk d => intro _; rw [writeNode, writeNode]
      | lbrk d => intro _; rw [writeNode, writeNode]
      | cont => intro _; rw [writeNode, writeNode]
      | switch arg child => rw [writeNode, writeNode]; exact ihW arg child child s
      | incl names =>
        rw [writeNode, writeNode]
        simp only
        cases hg : reg.getBKeys names with
        | none => exact Ext.refl _
        | some nodes =>
          simp only
          by_cases hd : s.c.incD ≥ maxIncDepth
          · simp only [hd, if_true]; exact Ext.refl _
          · simp only [hd, if_false]
            apply inclFinish_ext
            intro hne
            have := ihT nodes { c := { s.c with incD := s.c.incD + 1 }, w := {} } hne
            rw [this]
      | exit => intro _; rw [writeNode, writeNode]
      | jsonQ => intro _; rw [writeNode, writeNode]
      | endJsonQ => intro _; rw [writeNode, writeNode]
      | htmlE => intro _; rw [writeNode, writeNode]
      | endHtmlE => intro _; rw [writeNode, writeNode]
      | urlEnc => intro _; rw [writeNode, writeNode]
      | endUrlEnc => intro _; rw [writeNode, writeNode]
      | div => intro _; rw [writeNode, writeNode]
      | unknown => intro _; rw [writeNode, writeNode]
    · -- switchNode
      intro arg all cs s
      cases cs with
      | nil =>
        rw [switchNode, switchNode]
        cases all.find? Node.isDefault with
        | none => exact Ext.refl _
        | some d => exact ihN d s
      | cons ch rest =>
        rw [switchNode, switchNode]
        cases ch.asCase with
        | none => exact ihW arg all rest s
        | some k =>
          simp only
          generalize evalCase s.c arg k = ev
          obtain ⟨c1, o⟩ := ev
          cases o with
          | stop e => exact Ext.refl _
          | branch r pend =>
            simp only
            cases r with
            | true => simp only [if_true]; exact ihN ch _
            | false => simp only [Bool.false_eq_true, if_false]; exact ihW arg all rest _

/-! ### Any larger fuel -/

theorem writeNode_fuel_le (reg : Registry) (n : Node) (s : St) (f : Nat) (h : (writeNode reg f n s).err ≠ some .outOfFuel) :
    ∀ g, f ≤ g → writeNode reg g n s = writeNode reg f n s := by
  intro g hfg
  induction g with
  | zero => have : f = 0 := Nat.le_zero.mp hfg; rw [this]
  | succ g ih =>
    by_cases hle : f ≤ g
    · have hg := ih hle
      rw [(interp_fuel reg g).2.2.1 n s (by rw [hg]; exact h), hg]
    · have : f = g + 1 := by omega
      rw [this]

theorem writeSeq_fuel_le (reg : Registry) (nodes : List Node) (s : St) (f : Nat) (h : (writeSeq reg f nodes s).err ≠ some .outOfFuel) :
    ∀ g, f ≤ g → writeSeq reg g nodes s = writeSeq reg f nodes s := by
  intro g hfg
  induction g with
  | zero => have : f = 0 := Nat.le_zero.mp hfg; rw [this]
  | succ g ih =>
    by_cases hle : f ≤ g
    · have hg := ih hle
      rw [(interp_fuel reg g).2.1 nodes s (by rw [hg]; exact h), hg]
    · have : f = g + 1 := by omega
      rw [this]

theorem writeTree_fuel_le (reg : Registry) (nodes : List Node) (s : St) (f : Nat) (h : (writeTree reg f nodes s).err ≠ some .outOfFuel) :
    ∀ g, f ≤ g → writeTree reg g nodes s = writeTree reg f nodes s := by
  intro g hfg
  induction g with
  | zero => have : f = 0 := Nat.le_zero.mp hfg; rw [this]
  | succ g ih =>
    by_cases hle : f ≤ g
    · have hg := ih hle
      rw [(interp_fuel reg g).1 nodes s (by rw [hg]; exact h), hg]
    · have : f = g + 1 := by omega
      rw [this]

theorem andThen_ok_err (r : Res) (k : St → St) : (r.andThen fun st => ok (k st)).err = r.err := by
  unfold Res.andThen
  cases h : r.err <;> simp [ok, h]

/-- `write` (the outermost rendering, deferred functions included). -/
theorem write_fuel_le (reg : Registry) (nodes : List Node) (s : St) (f g : Nat) (hfg : f ≤ g)
    (h : (write reg f nodes s).err ≠ some .outOfFuel) : write reg g nodes s = write reg f nodes s := by
  unfold write writeBody at h ⊢
  rw [andThen_ok_err] at h
  rw [writeTree_fuel_le reg nodes s.topStart f h g hfg]

/-- `Write(w, key, ctx)`. -/
theorem writeKey_fuel_le (reg : Registry) (key : Bytes) (s : St) (f g : Nat) (hfg : f ≤ g)
    (h : (writeKey reg f key s).err ≠ some .outOfFuel) : writeKey reg g key s = writeKey reg f key s := by
  unfold writeKey at h ⊢
  cases hl : reg.lookup key with
  | none => rfl
  | some nodes =>
    simp only [hl] at h ⊢
    exact write_fuel_le reg nodes s f g hfg h

/-- **Fuel independence.** Two runs that both have enough fuel return the same result. -/
theorem writeKey_fuel_indep (reg : Registry) (key : Bytes) (s : St) (f g : Nat)
    (hf : (writeKey reg f key s).err ≠ some .outOfFuel) (hg : (writeKey reg g key s).err ≠ some .outOfFuel) :
    writeKey reg f key s = writeKey reg g key s := by
  by_cases hle : f ≤ g
  · exact (writeKey_fuel_le reg key s f g hle hf).symm
  · exact writeKey_fuel_le reg key s g f (by omega) hg

end Fuel
end DyntplV
