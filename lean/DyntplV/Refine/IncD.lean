import DyntplV.Impl

/-!
# The include depth is restored by every construct

`ctx.incD` counts the includes that are open; the include node adds one before the nested rendering and takes it
off afterwards. Nothing else touches it — so after any node the depth is what it was before, which is what lets the
include limit bound the depth of every chain (`Refine/Term.lean`, the theorem with includes).
-/

namespace DyntplV
namespace IncD

@[simp] theorem get_incD (c : Ctx) (p : Bytes) : (c.get p).2.incD = c.incD := rfl
@[simp] theorem cmp_incD (c : Ctx) (p : Bytes) (o : Op) (r : Bytes) : (c.cmp p o r).2.incD = c.incD := rfl
@[simp] theorem cmpLC_incD (c : Ctx) (p : Bytes) (o : Op) (r : Bytes) : (c.cmpLC p o r).2.incD = c.incD := rfl
@[simp] theorem set_incD (c : Ctx) (k : Bytes) (v : Val) (i : InsKind) : (c.set k v i).incD = c.incD := rfl
@[simp] theorem setStatic_incD (c : Ctx) (k : Bytes) (v : Val) : (c.setStatic k v).incD = c.incD := rfl
@[simp] theorem setBytes_incD (c : Ctx) (k : Bytes) (b : Bytes) : (c.setBytes k b).incD = c.incD := rfl
@[simp] theorem setCounter_incD (c : Ctx) (k : Bytes) (n : Int) : (c.setCounter k n).incD = c.incD := rfl
@[simp] theorem applyEff_incD (c : Ctx) (e : ModEff) : (c.applyEff e).incD = c.incD := rfl
@[simp] theorem clrErr_incD (c : Ctx) : c.clrErr.incD = c.incD := rfl

theorem collectArgs_incD (c : Ctx) (l : List Arg) : (collectArgs c l).2.incD = c.incD := by
  induction l generalizing c with
  | nil => simp [collectArgs]
  | cons a rest ih =>
    rw [collectArgs]
    simp only
    rw [ih]
    repeat' split
    all_goals simp

theorem collectHlpArgs_incD (c : Ctx) (l : List Arg) : (collectHlpArgs c l).2.incD = c.incD := by
  induction l generalizing c with
  | nil => simp [collectHlpArgs]
  | cons a rest ih =>
    rw [collectHlpArgs]
    simp only
    rw [ih]
    split <;> simp

theorem runMods_incD (c : Ctx) (raw : Val) (mods : List Mod) : (runMods c raw mods).2.incD = c.incD := by
  induction mods generalizing c raw with
  | nil => simp [runMods]
  | cons m rest ih =>
    rw [runMods]
    simp only
    cases ha : applyMod (collectArgs c m.args).2 m.id raw (collectArgs c m.args).1 with
    | none => simp [collectArgs_incD]
    | some p =>
      obtain ⟨r, c2⟩ := p
      have hc2 : c2.incD = c.incD := by
        unfold applyMod at ha
        cases hm : modValue m.id raw (collectArgs c m.args).1 with
        | none => simp [hm] at ha
        | some r' =>
          simp only [hm, Option.map_some, Option.some.injEq, Prod.mk.injEq] at ha
          rw [← ha.2]; simp [collectArgs_incD]
      cases r with
      | error e => simpa using hc2
      | ok v => simp only; rw [ih]; simpa using hc2

theorem nodeCmp_incD (c : Ctx) (l r : Bytes) (sl sr : Bool) (o : Op) : (nodeCmp c l r sl sr o).2.2.incD = c.incD := by
  unfold nodeCmp
  split
  · rfl
  · split
    · exact cmp_incD _ _ _ _
    · split
      · exact cmp_incD _ _ _ _
      · simp only
        split
        · exact get_incD _ _
        · split
          · exact get_incD _ _
          · exact (cmp_incD _ _ _ _).trans (get_incD _ _)

theorem evalPrint_incD (c : Ctx) (path : Bytes) (mods : List Mod) : (evalPrint c path mods).1.incD = c.incD := by
  unfold evalPrint
  simp only
  repeat' split
  all_goals simp [runMods_incD]

theorem ctxAssign_incD (c : Ctx) (var : Bytes) (raw : Val) (k : InsKind) : (ctxAssign c var raw k).incD = c.incD := by
  unfold ctxAssign
  repeat' split
  all_goals rfl

theorem ctxNode_incD (c : Ctx) (cs : CtxSpec) : (ctxNode c cs).1.incD = c.incD := by
  unfold ctxNode
  simp only
  repeat' split
  all_goals simp [runMods_incD, ctxAssign_incD]

theorem counterNode_incD (c : Ctx) (cs : CntrSpec) : (counterNode c cs).1.incD = c.incD := by
  unfold counterNode
  simp only
  repeat' split
  all_goals simp

theorem evalCond_incD (c : Ctx) (cd : CondSpec) : (evalCond c cd).1.incD = c.incD := by
  unfold evalCond
  simp only
  repeat' split
  all_goals simp [collectHlpArgs_incD, nodeCmp_incD]

theorem condOKAssign_incD (c : Ctx) (k : CondOKSpec) (v : Val) (okv : Bool) : (condOKAssign c k v okv).incD = c.incD := rfl

theorem evalCondOK_incD (c : Ctx) (k : CondOKSpec) : (evalCondOK c k).1.incD = c.incD := by
  unfold evalCondOK
  simp only
  repeat' split
  all_goals simp [collectHlpArgs_incD, nodeCmp_incD, condOKAssign_incD]

theorem evalCase_incD (c : Ctx) (arg : Bytes) (k : CaseSpec) : (evalCase c arg k).1.incD = c.incD := by
  unfold evalCase
  simp only
  repeat' split
  all_goals simp [collectHlpArgs_incD, nodeCmp_incD]

/-! ### Results -/

/-- The result has the include depth of the start state. -/
def Keeps (s : St) (r : Res) : Prop := r.st.c.incD = s.c.incD

theorem write_keeps (s : St) (p : Bytes) : Keeps s (s.write p) := by
  unfold St.write Keeps
  split <;> rfl

theorem andThen_keeps (s : St) (r : Res) (k : St → Res) (hr : Keeps s r) (hk : ∀ st, Keeps st (k st)) :
    Keeps s (r.andThen k) := by
  unfold Res.andThen
  split
  · exact hr
  · exact (hk r.st).trans hr

theorem tplWrites_keeps (s : St) (pre t suf : Bytes) (noesc : Bool) : Keeps s (tplWrites s pre t suf noesc) := by
  unfold tplWrites
  apply andThen_keeps
  · split
    · rfl
    · exact write_keeps _ _
  · intro s1
    apply andThen_keeps
    · exact write_keeps _ _
    · intro s2
      split
      · rfl
      · exact write_keeps _ _

theorem iterAfterBody_incD (rb : Res) : (iterAfterBody rb).st.c.incD = rb.st.c.incD := by
  unfold iterAfterBody
  simp only
  repeat' split
  all_goals rfl

theorem sepWrite_keeps (n : Nat) (sep : Bytes) (s : St) : Keeps s (sepWrite n sep s) := by
  unfold sepWrite
  split
  · exact write_keeps _ _
  · rfl

theorem rIterStart_incD (ls : RLoopSpec) (k : Bytes) (v : Val) (ik : InsKind) (s : St) :
    (rIterStart ls k v ik s).c.incD = s.c.incD := by
  unfold rIterStart
  simp only
  split <;> rfl

theorem rloopLoop_incD (run : St → Res) (hrun : ∀ s, Keeps s (run s)) (ls : RLoopSpec) :
    ∀ (items : List (Bytes × Val × InsKind)) (n : Nat) (s : St), (rloopLoop run ls items n s).st.c.incD = s.c.incD := by
  intro items
  induction items with
  | nil => intro n s; rw [rloopLoop]
  | cons it rest ih =>
    intro n s
    obtain ⟨k, v, ik⟩ := it
    rw [rloopLoop]
    simp only
    have hs : (sepWrite n ls.sep (rIterStart ls k v ik s)).st.c.incD = s.c.incD :=
      (sepWrite_keeps n ls.sep _).trans (rIterStart_incD ls k v ik s)
    split
    · exact hs
    · have hb : (iterAfterBody (run (sepWrite n ls.sep (rIterStart ls k v ik s)).st)).st.c.incD = s.c.incD := by
        rw [iterAfterBody_incD]; exact (hrun _).trans hs
      split
      · rename_i st hst; rw [hst] at hb; exact hb
      · rename_i st hst; rw [hst] at hb; exact hb
      · rename_i st hst; rw [hst] at hb; rw [ih]; exact hb

theorem elseSeq_keeps : ∀ (l : List (St → Res)) (s : St), (∀ r ∈ l, ∀ st, Keeps st (r st)) → Keeps s (elseSeq l s) := by
  intro l
  induction l with
  | nil => intro s _; rw [elseSeq]; rfl
  | cons r rest ih =>
    intro s hl
    rw [elseSeq]
    have hr := hl r (List.mem_cons_self) s
    split
    · exact hr
    · have := ih { (r s).st with c := { (r s).st.c with err := none } }
        (fun r' hr' st => hl r' (List.mem_cons_of_mem _ hr') st)
      exact this.trans hr

theorem elseRun_keeps (run : St → Res) (ne : Bool) (s : St) (hrun : ∀ st, Keeps st (run st)) : Keeps s (elseRun run ne s) := by
  unfold elseRun
  simp only
  have hr := hrun s
  split
  · exact hr
  · simp only [ok]
    split
    · exact hr
    · exact hr

/-- The optional else-branch runner keeps the depth. -/
def ElseKeeps (re : Option (St → Res)) : Prop := ∀ f, re = some f → ∀ st, Keeps st (f st)

theorem afterLoop_incD (re : Option (St → Res)) (r : LoopRes) (sE : St) (d : Nat) (hre : ElseKeeps re)
    (hr : r.st.c.incD = d) (hE : sE.c.incD = d) : (afterLoop re r sE).st.c.incD = d := by
  unfold afterLoop
  split
  · exact hr
  · split
    · split
      · rename_i f; exact (hre f rfl sE).trans hE
      · exact hE
    · exact hE

theorem rloopWith_keeps (run : St → Res) (re : Option (St → Res)) (ls : RLoopSpec) (s : St)
    (hrun : ∀ s, Keeps s (run s)) (hre : ElseKeeps re) : Keeps s (rloopWith run re ls s) := by
  unfold rloopWith
  split
  · rfl
  · split
    · split
      · rename_i f; exact hre f rfl s
      · rfl
    · simp only
      apply afterLoop_incD _ _ _ _ hre
      · exact rloopLoop_incD run hrun _ _ _ _
      · exact rloopLoop_incD run hrun _ _ _ _

theorem rloopQB_keeps (run : St → Res) (re : Option (St → Res)) (ls : RLoopSpec) (s : St)
    (hrun : ∀ s, Keeps s (run s)) (hre : ElseKeeps re) : Keeps s (rloopQB run re ls s) := by
  unfold rloopQB
  split
  · rfl
  · exact rloopWith_keeps run re _ _ hrun hre

theorem loopNode_keeps (loop : St → Res) (s : St) (hl : ∀ s, Keeps s (loop s)) : Keeps s (loopNode loop s) := by
  unfold loopNode
  simp only
  have hr := hl { s with c := { s.c with brkD := 0 } }
  split
  · exact hr
  · split
    · unfold loopErrRes
      split
      · exact hr
      · exact hr
    · exact hr

theorem inclFinish_incD (s : St) (r : Res) : (inclFinish s r).st.c.incD = r.st.c.incD := by
  unfold inclFinish
  split
  · split
    · rfl
    · exact write_keeps _ _
  · exact write_keeps _ _

end IncD
end DyntplV
