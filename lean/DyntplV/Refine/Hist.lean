import DyntplV.Impl
/-!
  History discipline of the interpreter below the top level (helper lemmas for C18): while a tree is
  rendered — including every include, loop, exit — deferred functions are only REGISTERED (never run)
  and pooled objects only ACQUIRED (never released): the log grows by registration/acquisition events
  and the pending lists grow by exactly the registered / acquired tags, in the same order.
-/
namespace DyntplV

def regTags : List Event → List Nat
  | [] => []
  | .deferReg t :: rest => t :: regTags rest
  | _ :: rest => regTags rest

def acqTags : List Event → List Nat
  | [] => []
  | .acquire t :: rest => t :: acqTags rest
  | _ :: rest => acqTags rest

def isRegOrAcq : Event → Bool
  | .deferReg _ => true
  | .acquire _ => true
  | _ => false

theorem regTags_append (a b : List Event) : regTags (a ++ b) = regTags a ++ regTags b := by
  induction a with
  | nil => rfl
  | cons e rest ih => cases e <;> simp [regTags, ih]

theorem acqTags_append (a b : List Event) : acqTags (a ++ b) = acqTags a ++ acqTags b := by
  induction a with
  | nil => rfl
  | cons e rest ih => cases e <;> simp [acqTags, ih]

/-- `c'` extends the history of `c` by registrations / acquisitions only. -/
def CMono (c c' : Ctx) : Prop :=
  ∃ evs, c'.log = c.log ++ evs ∧ c'.dfr = c.dfr ++ regTags evs ∧ c'.ipv = c.ipv ++ acqTags evs ∧ evs.all isRegOrAcq = true

theorem CMono.refl (c : Ctx) : CMono c c := ⟨[], by simp [regTags, acqTags]⟩

theorem CMono.of_eq {c c' : Ctx} (h1 : c'.log = c.log) (h2 : c'.dfr = c.dfr) (h3 : c'.ipv = c.ipv) : CMono c c' :=
  ⟨[], by simp [regTags, acqTags, h1, h2, h3]⟩

theorem CMono.trans {a b c : Ctx} (h1 : CMono a b) (h2 : CMono b c) : CMono a c := by
  obtain ⟨e1, l1, d1, i1, a1⟩ := h1
  obtain ⟨e2, l2, d2, i2, a2⟩ := h2
  refine ⟨e1 ++ e2, ?_, ?_, ?_, ?_⟩
  · rw [l2, l1, List.append_assoc]
  · rw [d2, d1, regTags_append, List.append_assoc]
  · rw [i2, i1, acqTags_append, List.append_assoc]
  · simp [List.all_append, a1, a2]

theorem applyEff_mono (c : Ctx) (id : Bytes) (args : List ArgVal) : CMono c (c.applyEff (modEffect id args)) := by
  unfold modEffect Ctx.applyEff
  simp only
  split
  · exact CMono.of_eq (by simp) (by simp) (by simp)
  · next t _ =>
    split
    · exact ⟨[.deferReg t], by simp [regTags, acqTags, isRegOrAcq]⟩
    · split
      · exact ⟨[.acquire t], by simp [regTags, acqTags, isRegOrAcq]⟩
      · exact CMono.of_eq (by simp) (by simp) (by simp)

theorem get_mono (c : Ctx) (p : Bytes) : CMono c (c.get p).2 := CMono.of_eq rfl rfl rfl
theorem cmp_mono (c : Ctx) (p : Bytes) (o : Op) (r : Bytes) : CMono c (c.cmp p o r).2 := CMono.of_eq rfl rfl rfl
theorem cmpLC_mono (c : Ctx) (p : Bytes) (o : Op) (r : Bytes) : CMono c (c.cmpLC p o r).2 := CMono.of_eq rfl rfl rfl

theorem collectArgs_mono : ∀ (args : List Arg) (c : Ctx), CMono c (collectArgs c args).2
  | [], c => CMono.refl c
  | a :: rest, c => by
    simp only [collectArgs]
    split
    · split
      · exact collectArgs_mono rest c
      · exact (get_mono c a.val).trans (collectArgs_mono rest _)
    · split
      · exact collectArgs_mono rest c
      · split
        · exact collectArgs_mono rest c
        · exact (get_mono c a.val).trans (collectArgs_mono rest _)

theorem collectHlpArgs_mono : ∀ (args : List Arg) (c : Ctx), CMono c (collectHlpArgs c args).2
  | [], c => CMono.refl c
  | a :: rest, c => by
    simp only [collectHlpArgs]
    split
    · exact collectHlpArgs_mono rest c
    · exact (get_mono c a.val).trans (collectHlpArgs_mono rest _)

theorem runMods_mono : ∀ (mods : List Mod) (c : Ctx) (raw : Val), CMono c (runMods c raw mods).2
  | [], c, raw => CMono.refl c
  | m :: rest, c, raw => by
    simp only [runMods]
    have h1 := collectArgs_mono m.args c
    unfold applyMod
    cases modValue m.id raw (collectArgs c m.args).1 with
    | none => exact h1.trans (CMono.of_eq rfl rfl rfl)
    | some r =>
      simp only [Option.map]
      have h2 := applyEff_mono (collectArgs c m.args).2 m.id (collectArgs c m.args).1
      cases r with
      | error e => exact (h1.trans h2).trans (CMono.of_eq rfl rfl rfl)
      | ok v => exact (h1.trans h2).trans ((CMono.of_eq rfl rfl rfl).trans (runMods_mono rest _ v))

theorem nodeCmp_mono (c : Ctx) (l r : Bytes) (sl sr : Bool) (o : Op) : CMono c (nodeCmp c l r sl sr o).2.2 := by
  unfold nodeCmp
  by_cases h1 : (sl && sr) = true
  · simp only [h1, if_true]; exact CMono.refl c
  · simp only [h1, Bool.false_eq_true, if_false]
    by_cases h2 : sr = true
    · simp only [h2, if_true]; exact cmp_mono c l o r
    · simp only [h2, Bool.false_eq_true, if_false]
      by_cases h3 : sl = true
      · simp only [h3, if_true]; exact cmp_mono c r o.swap l
      · simp only [h3, Bool.false_eq_true, if_false]
        cases he : (c.get r).2.err with
        | some e => simp only; exact get_mono c r
        | none =>
          simp only
          cases ht : (c.get r).1.text with
          | none => simp only; exact get_mono c r
          | some t => simp only; exact (get_mono c r).trans (cmp_mono _ l o t)

theorem textBound_mono (s : Bytes) (c1 : Ctx) : CMono c1 (textBound s c1).2 := by
  unfold textBound
  split
  · exact CMono.of_eq rfl rfl rfl
  · cases parseInt64Lit s <;> exact CMono.of_eq rfl rfl rfl

theorem cloopRange_mono (c : Ctx) (st : Bool) (b : Bytes) : CMono c (cloopRange c st b).2 := by
  unfold cloopRange
  by_cases h : st = true
  · simp only [h, if_true]
    cases parseIntLit b <;> exact CMono.of_eq rfl rfl rfl
  · simp only [h, Bool.false_eq_true, if_false]
    cases he : (c.get b).2.err with
    | some e => simp only; exact get_mono c b
    | none =>
      simp only
      cases (c.get b).1 <;> first | exact get_mono c b | exact (get_mono c b).trans (CMono.of_eq rfl rfl rfl) | exact (get_mono c b).trans (textBound_mono _ _)

theorem loopBounds_mono (c : Ctx) (ls : CLoopSpec) : CMono c (loopBounds c ls).1 := by
  unfold loopBounds
  split
  · exact cloopRange_mono _ _ _
  · simp only
    split
    · exact (cloopRange_mono _ _ _).trans (cloopRange_mono _ _ _)
    · exact (cloopRange_mono _ _ _).trans (cloopRange_mono _ _ _)

theorem evalPrint_mono (c : Ctx) (path : Bytes) (mods : List Mod) : CMono c (evalPrint c path mods).1 := by
  unfold evalPrint
  simp only
  split
  · exact get_mono _ _
  · have h := (get_mono c path).trans (runMods_mono mods (c.get path).2 (c.get path).1)
    split
    · exact h
    · split
      · exact h
      · split
        · exact h
        · split <;> exact h

theorem ctxAssign_mono (c : Ctx) (var : Bytes) (raw : Val) (kind : InsKind) : CMono c (ctxAssign c var raw kind) := by
  unfold ctxAssign
  split
  · split <;> exact CMono.of_eq rfl rfl rfl
  · exact CMono.of_eq rfl rfl rfl

theorem ctxNode_mono (c : Ctx) (cs : CtxSpec) : CMono c (ctxNode c cs).1 := by
  unfold ctxNode
  split
  · split <;> exact CMono.of_eq rfl rfl rfl
  · split
    · exact CMono.refl c
    · simp only
      split
      · exact get_mono _ _
      · have h := (get_mono c cs.src).trans (runMods_mono cs.mods (c.get cs.src).2 (c.get cs.src).1)
        split
        · exact h
        · split
          · split
            · exact h
            · exact h.trans (CMono.of_eq rfl rfl rfl)
          · split
            · exact h.trans (ctxAssign_mono _ _ _ _)
            · exact (h.trans (CMono.of_eq rfl rfl rfl)).trans (ctxAssign_mono _ _ _ _)

theorem counterNode_mono (c : Ctx) (cs : CntrSpec) : CMono c (counterNode c cs).1 := by
  unfold counterNode
  split
  · exact CMono.of_eq rfl rfl rfl
  · simp only
    split
    · exact get_mono c cs.var
    · exact (get_mono c cs.var).trans (CMono.of_eq rfl rfl rfl)

theorem evalCond_mono (c : Ctx) (cd : CondSpec) : CMono c (evalCond c cd).1 := by
  unfold evalCond
  by_cases h1 : (!cd.hlp.isEmpty && cd.lc == 0) = true
  · simp only [h1, if_true]
    have hm : CMono c (collectHlpArgs c.clrErr cd.hlpArg).2 :=
      (CMono.of_eq rfl rfl rfl : CMono c c.clrErr).trans (collectHlpArgs_mono cd.hlpArg c.clrErr)
    cases applyCondFn cd.hlp (collectHlpArgs c.clrErr cd.hlpArg).1 with
    | none => exact hm
    | some b => simp only; cases (collectHlpArgs c.clrErr cd.hlpArg).2.err <;> exact hm
  · simp only [h1, Bool.false_eq_true, if_false]
    by_cases h2 : (!cd.hlp.isEmpty) = true
    · simp only [h2, if_true]
      cases cd.hlpArg with
      | nil => exact CMono.refl c
      | cons a rest =>
        simp only
        have hm := cmpLC_mono c a.val cd.op cd.r
        cases (c.cmpLC a.val cd.op cd.r).2.err <;> exact hm
    · simp only [h2, Bool.false_eq_true, if_false]
      have hm := nodeCmp_mono c cd.l cd.r cd.staticL cd.staticR cd.op
      cases (nodeCmp c cd.l cd.r cd.staticL cd.staticR cd.op).2.2.err <;> exact hm

theorem evalCondOK_mono (c : Ctx) (k : CondOKSpec) : CMono c (evalCondOK c k).1 := by
  unfold evalCondOK
  cases applyCondOKFn k.cd.hlp with
  | none => exact CMono.refl c
  | some fn =>
    simp only
    have hm := collectHlpArgs_mono k.cd.hlpArg c
    split
    · exact hm
    · split
      · exact hm.trans (CMono.of_eq rfl rfl rfl)
      · exact (hm.trans (CMono.of_eq rfl rfl rfl)).trans (nodeCmp_mono _ _ _ _ _ _)

theorem evalCase_mono (c : Ctx) (arg : Bytes) (k : CaseSpec) : CMono c (evalCase c arg k).1 := by
  unfold evalCase
  by_cases h1 : (!arg.isEmpty) = true
  · simp only [h1, if_true]
    by_cases h2 : k.staticL = true
    · simp only [h2, if_true]; exact cmp_mono c arg .eq k.l
    · simp only [h2, Bool.false_eq_true, if_false]
      cases he : (c.get k.l).2.err with
      | some e => simp only; exact get_mono c k.l
      | none =>
        simp only
        cases ht : (c.get k.l).1.text with
        | none => simp only; exact get_mono c k.l
        | some t => simp only; exact (get_mono c k.l).trans (cmp_mono _ arg .eq t)
  · simp only [h1, Bool.false_eq_true, if_false]
    by_cases h2 : (!k.hlp.isEmpty) = true
    · simp only [h2, if_true]
      have hm : CMono c (collectHlpArgs c.clrErr k.hlpArg).2 :=
        (CMono.of_eq rfl rfl rfl : CMono c c.clrErr).trans (collectHlpArgs_mono k.hlpArg c.clrErr)
      cases applyCondFn k.hlp (collectHlpArgs c.clrErr k.hlpArg).1 with
      | none => exact hm
      | some b => simp only; cases (collectHlpArgs c.clrErr k.hlpArg).2.err <;> exact hm
    · simp only [h2, Bool.false_eq_true, if_false]
      have hm := nodeCmp_mono c k.l k.r k.staticL k.staticR k.op
      cases (nodeCmp c k.l k.r k.staticL k.staticR k.op).2.1 with
      | some e => exact hm
      | none => simp only; cases (nodeCmp c k.l k.r k.staticL k.staticR k.op).2.2.err <;> exact hm

end DyntplV
