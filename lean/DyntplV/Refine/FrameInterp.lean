import DyntplV.Refine.Frame
/-! Equivariance of the whole interpreter under a shift of log, accepted output and write counter
    (fault-free writer). -/
namespace DyntplV

/-- `F` keeps a fault-free writer fault-free and commutes with the shift. -/
def FrameOK (F : St → Res) : Prop :=
  ∀ s, s.w.failAt = none →
    (F s).st.w.failAt = none ∧ ∀ pl po k, F (s.pre pl po k) = (F s).pre pl po k

theorem St.pre_failAt (pl : List Event) (po : Bytes) (k : Nat) (s : St) : (s.pre pl po k).w.failAt = s.w.failAt := rfl

theorem St.pre_withCtx (pl : List Event) (po : Bytes) (k : Nat) (s : St) (c : Ctx) :
    ({ (s.pre pl po k) with c := c.pre pl } : St) = ({ s with c := c } : St).pre pl po k := rfl

theorem write_frame (p : Bytes) : FrameOK (fun s => s.write p) := by
  intro s h
  constructor
  · simp only [St.write, Writer.write, h]; rfl
  · intro pl po k
    simp only [St.write, Writer.write, St.pre, Writer.pre, h, Res.pre, ok]
    simp [List.append_assoc, Nat.add_assoc]

theorem FrameOK.ok_ : FrameOK (fun s => ok s) := by
  intro s h; exact ⟨h, fun _ _ _ => rfl⟩

theorem FrameOK.fail_ (e : Err) : FrameOK (fun s => fail s e) := by
  intro s h; exact ⟨h, fun _ _ _ => rfl⟩

/-- Sequencing. -/
theorem FrameOK.andThen {F : St → Res} {K : St → Res} (hF : FrameOK F) (hK : FrameOK K) :
    FrameOK (fun s => (F s).andThen K) := by
  intro s h
  obtain ⟨f1, f2⟩ := hF s h
  unfold Res.andThen
  cases he : (F s).err with
  | some e =>
    simp only [he]
    refine ⟨f1, fun pl po k => ?_⟩
    rw [f2]
    simp only [Res.pre, he]
  | none =>
    simp only [he]
    obtain ⟨k1, k2⟩ := hK (F s).st f1
    refine ⟨k1, fun pl po k => ?_⟩
    rw [f2]
    simp only [Res.pre, he]
    exact k2 pl po k

/-- A context-only step followed by a continuation that depends on its outcome. -/
theorem frame_ctxStep {α : Type} (ev : Ctx → Ctx × α) (hev : ∀ pl c, ev (c.pre pl) = ((ev c).1.pre pl, (ev c).2))
    (K : α → St → Res) (hK : ∀ a, FrameOK (K a)) :
    FrameOK (fun s => K (ev s.c).2 { s with c := (ev s.c).1 }) := by
  intro s h
  obtain ⟨k1, k2⟩ := hK (ev s.c).2 { s with c := (ev s.c).1 } h
  refine ⟨k1, fun pl po k => ?_⟩
  show K (ev (s.c.pre pl)).2 { (s.pre pl po k) with c := (ev (s.c.pre pl)).1 } = _
  rw [hev]
  simp only
  rw [St.pre_withCtx]
  exact k2 pl po k

theorem regionEscape_pre (pl : List Event) (c : Ctx) (p : Bytes) : regionEscape (c.pre pl) p = regionEscape c p := rfl

theorem tplWrites_frame (pre t suf : Bytes) (noesc : Bool) : FrameOK (fun s => tplWrites s pre t suf noesc) := by
  intro s h
  -- the escaping function is fixed by the (unshifted) flags
  have key : FrameOK (fun s' : St =>
      ((if pre.isEmpty then ok s' else s'.write (regionEscape s.c pre)).andThen fun s1 =>
       (s1.write (if noesc then t else regionEscape s.c t)).andThen fun s2 =>
       if suf.isEmpty then ok s2 else s2.write (regionEscape s.c suf))) := by
    apply FrameOK.andThen
    · by_cases hp : pre.isEmpty = true
      · simp only [hp, if_true]; exact FrameOK.ok_
      · simp only [hp, Bool.false_eq_true, if_false]; exact write_frame _
    · apply FrameOK.andThen
      · exact write_frame _
      · by_cases hp : suf.isEmpty = true
        · simp only [hp, if_true]; exact FrameOK.ok_
        · simp only [hp, Bool.false_eq_true, if_false]; exact write_frame _
  obtain ⟨k1, k2⟩ := key s h
  exact ⟨k1, fun pl po k => k2 pl po k⟩

theorem clrErrIf_w' (b : Bool) (s : St) : (clrErrIf b s).w = s.w := by unfold clrErrIf; split <;> rfl

theorem clrErrIf_pre (b : Bool) (s : St) (pl : List Event) (po : Bytes) (k : Nat) :
    clrErrIf b (s.pre pl po k) = (clrErrIf b s).pre pl po k := by
  unfold clrErrIf; split <;> rfl

theorem sepWrite_frame (n : Nat) (sep : Bytes) : FrameOK (fun s => sepWrite n sep s) := by
  unfold sepWrite
  by_cases h : (n > 0 && !sep.isEmpty) = true
  · simp only [h, if_true]
    intro s hs
    have hw := write_frame (regionEscape s.c sep) s hs
    exact ⟨hw.1, fun pl po k => hw.2 pl po k⟩
  · simp only [h, Bool.false_eq_true, if_false]; exact FrameOK.ok_

/-! ### Loops -/

def IterOut.pre (pl : List Event) (po : Bytes) (k : Nat) : IterOut → IterOut
  | .abort s => .abort (s.pre pl po k)
  | .stop s => .stop (s.pre pl po k)
  | .next s => .next (s.pre pl po k)

def LoopRes.pre (pl : List Event) (po : Bytes) (k : Nat) (r : LoopRes) : LoopRes := ⟨r.n, r.st.pre pl po k, r.abort⟩

theorem iterAfterBody_pre (pl : List Event) (po : Bytes) (k : Nat) (rb : Res) :
    iterAfterBody (rb.pre pl po k) = (iterAfterBody rb).pre pl po k := by
  unfold iterAfterBody
  simp only [Res.pre]
  cases rb.err with
  | none =>
    simp only
    show (if rb.st.c.brkD > 0 then _ else _) = _
    split <;> rfl
  | some e =>
    by_cases hs : isSentinel e = true
    · simp only [hs, if_true]
      show (if rb.st.c.brkD > 0 then _ else _) = _
      split <;> rfl
    · simp only [hs, Bool.false_eq_true, if_false]; rfl

theorem iterAfterBody_w (rb : Res) : (iterAfterBody rb).st.w = rb.st.w := by
  unfold iterAfterBody
  cases rb.err with
  | none => simp only; split <;> rfl
  | some e =>
    by_cases hs : isSentinel e = true
    · simp only [hs, if_true]; split <;> rfl
    · simp only [hs, Bool.false_eq_true, if_false]; rfl

/-- Loop functions: same notion for `LoopRes`. -/
def FrameOKL (F : St → LoopRes) : Prop :=
  ∀ s, s.w.failAt = none →
    (F s).st.w.failAt = none ∧ ∀ pl po k, F (s.pre pl po k) = (F s).pre pl po k

theorem rIterStart_pre (ls : RLoopSpec) (kk : Bytes) (v : Val) (ik : InsKind) (s : St) (pl : List Event) (po : Bytes) (k : Nat) :
    rIterStart ls kk v ik (s.pre pl po k) = (rIterStart ls kk v ik s).pre pl po k := by
  unfold rIterStart
  split <;> rfl

theorem rloopLoop_frame (run : St → Res) (hrun : FrameOK run) (ls : RLoopSpec) :
    ∀ (items : List (Bytes × Val × InsKind)) (n : Nat), FrameOKL (fun s => rloopLoop run ls items n s) := by
  intro items
  induction items with
  | nil => intro n s h; exact ⟨h, fun _ _ _ => rfl⟩
  | cons it rest ih =>
    intro n s h
    obtain ⟨kk, v, ik⟩ := it
    have hs1 : (rIterStart ls kk v ik s).w.failAt = none := h
    have sw := sepWrite_frame n ls.sep (rIterStart ls kk v ik s) hs1
    have sw1 : (sepWrite n ls.sep (rIterStart ls kk v ik s)).st.w.failAt = none := sw.1
    have sw2 : ∀ pl po k, sepWrite n ls.sep ((rIterStart ls kk v ik s).pre pl po k) =
        (sepWrite n ls.sep (rIterStart ls kk v ik s)).pre pl po k := sw.2
    generalize hrs : sepWrite n ls.sep (rIterStart ls kk v ik s) = rs at sw1 sw2
    have hr := hrun rs.st sw1
    have r1 : (run rs.st).st.w.failAt = none := hr.1
    have r2 : ∀ pl po k, run (rs.st.pre pl po k) = (run rs.st).pre pl po k := hr.2
    have hio_w : (iterAfterBody (run rs.st)).st.w.failAt = none := by rw [iterAfterBody_w]; exact r1
    show (rloopLoop run ls ((kk, v, ik) :: rest) n s).st.w.failAt = none ∧
      ∀ pl po k, rloopLoop run ls ((kk, v, ik) :: rest) n (s.pre pl po k) = (rloopLoop run ls ((kk, v, ik) :: rest) n s).pre pl po k
    constructor
    · rw [rloopLoop, hrs]
      cases he : rs.err with
      | some e => exact sw1
      | none =>
        simp only
        cases hio : iterAfterBody (run rs.st) with
        | abort st => rw [hio] at hio_w; exact hio_w
        | stop st => rw [hio] at hio_w; exact hio_w
        | next st => rw [hio] at hio_w; exact (ih (n+1) st hio_w).1
    · intro pl po k
      rw [rloopLoop, rloopLoop, rIterStart_pre, sw2, hrs]
      cases he : rs.err with
      | some e => simp only [Res.pre, he]; rfl
      | none =>
        simp only [Res.pre, he]
        rw [r2, iterAfterBody_pre]
        cases hio : iterAfterBody (run rs.st) with
        | abort st => rfl
        | stop st => rfl
        | next st =>
          rw [hio] at hio_w
          simp only [IterOut.pre]
          exact (ih (n+1) st hio_w).2 pl po k

theorem cloopLoop_frame (run : St → Res) (hrun : FrameOK run) (ls : CLoopSpec) :
    ∀ (f : Nat) (v lim : Int) (n : Nat), FrameOKL (fun s => cloopLoop run ls f v lim n s) := by
  intro f
  induction f with
  | zero => intro v lim n s h; exact ⟨h, fun _ _ _ => rfl⟩
  | succ f ih =>
    intro v lim n s h
    show (cloopLoop run ls (f+1) v lim n s).st.w.failAt = none ∧
      ∀ pl po k, cloopLoop run ls (f+1) v lim n (s.pre pl po k) = (cloopLoop run ls (f+1) v lim n s).pre pl po k
    cases hla : loopAllows ls.condOp v lim with
    | none => simp only [cloopLoop, hla]; exact ⟨h, fun _ _ _ => rfl⟩
    | some b =>
      cases b with
      | false => simp only [cloopLoop, hla]; exact ⟨h, fun _ _ _ => rfl⟩
      | true =>
        have hs1 : ({ s with c := s.c.setStatic ls.cnt (Val.int v) } : St).w.failAt = none := h
        have sw := sepWrite_frame n ls.sep { s with c := s.c.setStatic ls.cnt (Val.int v) } hs1
        have sw1 : (sepWrite n ls.sep { s with c := s.c.setStatic ls.cnt (Val.int v) }).st.w.failAt = none := sw.1
        have sw2 : ∀ pl po k, sepWrite n ls.sep ({ (s.pre pl po k) with c := (s.pre pl po k).c.setStatic ls.cnt (Val.int v) } : St) =
            (sepWrite n ls.sep { s with c := s.c.setStatic ls.cnt (Val.int v) }).pre pl po k := sw.2
        generalize hrs : sepWrite n ls.sep { s with c := s.c.setStatic ls.cnt (Val.int v) } = rs at sw1 sw2
        have c1w : (clrErrIf (decide (n > 0) && !ls.sep.isEmpty) rs.st).w.failAt = none := by rw [clrErrIf_w']; exact sw1
        have c1pre : ∀ pl po k, clrErrIf (decide (n > 0) && !ls.sep.isEmpty) (rs.st.pre pl po k) =
            (clrErrIf (decide (n > 0) && !ls.sep.isEmpty) rs.st).pre pl po k := fun pl po k => clrErrIf_pre _ _ pl po k
        generalize hr1 : clrErrIf (decide (n > 0) && !ls.sep.isEmpty) rs.st = rs1 at c1w c1pre
        have hin : ({ rs1 with c := { rs1.c with chQB := true } } : St).w.failAt = none := c1w
        have hr := hrun { rs1 with c := { rs1.c with chQB := true } } hin
        have r1 : (run { rs1 with c := { rs1.c with chQB := true } }).st.w.failAt = none := hr.1
        have r2 : ∀ pl po k, run ({ (rs1.pre pl po k) with c := { (rs1.pre pl po k).c with chQB := true } } : St) =
            (run { rs1 with c := { rs1.c with chQB := true } }).pre pl po k := hr.2
        generalize hrb0 : run { rs1 with c := { rs1.c with chQB := true } } = rb0 at r1 r2
        -- the body result with the bracket mode restored
        let rb : Res := { rb0 with st := { rb0.st with c := { rb0.st.c with chQB := rs1.c.chQB } } }
        have hrbw : rb.st.w.failAt = none := r1
        have hio_w : (iterAfterBody rb).st.w.failAt = none := by rw [iterAfterBody_w]; exact hrbw
        have hrbpre : ∀ pl po k, ({ (rb0.pre pl po k) with st := { (rb0.pre pl po k).st with c := { (rb0.pre pl po k).st.c with chQB := (rs1.pre pl po k).c.chQB } } } : Res) = rb.pre pl po k :=
          fun _ _ _ => rfl
        constructor
        · rw [cloopLoop]; simp only [hla, hrs]
          cases he : rs.err with
          | some e => exact sw1
          | none =>
            simp only [hr1, hrb0]
            split
            · cases hio : iterAfterBody rb with
              | abort st => rw [hio] at hio_w; exact hio_w
              | stop st => rw [hio] at hio_w; exact hio_w
              | next st => rw [hio] at hio_w; exact (ih _ _ _ { st with c := { st.c.setStatic ls.cnt (Val.int (stepVal ls.cntOp v)) with err := none } } hio_w).1
            · cases hio : iterAfterBody rb with
              | abort st => rw [hio] at hio_w; exact hio_w
              | stop st => exact r1
              | next st => exact r1
        · intro pl po k
          rw [cloopLoop, cloopLoop]; simp only [hla]
          rw [sw2, hrs]
          cases he : rs.err with
          | some e => simp only [Res.pre, he]; rfl
          | none =>
            simp only [Res.pre, he]
            rw [c1pre, hr1, r2, hrb0, hrbpre, iterAfterBody_pre]
            split
            · cases hio : iterAfterBody rb with
              | abort st => rfl
              | stop st => rfl
              | next st =>
                rw [hio] at hio_w
                simp only [IterOut.pre]
                exact (ih _ _ _ { st with c := { st.c.setStatic ls.cnt (Val.int (stepVal ls.cntOp v)) with err := none } } hio_w).2 pl po k
            · cases hio : iterAfterBody rb with
              | abort st => rfl
              | stop st => rfl
              | next st => rfl

theorem elseSeq_frame : ∀ (runs : List (St → Res)), (∀ r ∈ runs, FrameOK r) → FrameOK (elseSeq runs)
  | [], _ => by intro s h; unfold elseSeq; exact ⟨h, fun _ _ _ => rfl⟩
  | r :: rest, h => by
    have hr := h r (List.mem_cons_self)
    have ih := elseSeq_frame rest (fun r' hr' => h r' (List.mem_cons_of_mem _ hr'))
    intro s hs
    obtain ⟨r1, r2⟩ := hr s hs
    unfold elseSeq
    constructor
    · cases hx : (r s).err with
      | some e => simp only; exact r1
      | none => simp only; exact (ih { (r s).st with c := { (r s).st.c with err := none } } r1).1
    · intro pl po k
      rw [r2]
      cases hx : (r s).err with
      | some e => simp only [Res.pre, hx]
      | none =>
        simp only [Res.pre, hx]
        exact (ih { (r s).st with c := { (r s).st.c with err := none } } r1).2 pl po k

theorem elseRun_frame (run : St → Res) (hrun : FrameOK run) (ne : Bool) : FrameOK (elseRun run ne) := by
  intro s h
  obtain ⟨r1, r2⟩ := hrun s h
  unfold elseRun
  constructor
  · simp only
    cases (run s).err with
    | some e => exact r1
    | none => simp only; split <;> exact r1
  · intro pl po k
    simp only
    rw [r2]
    simp only [Res.pre]
    cases (run s).err with
    | some e => rfl
    | none => simp only; split <;> rfl

theorem afterLoop_frame (runElse : Option (St → Res)) (helse : ∀ re, runElse = some re → FrameOK re)
    (r : LoopRes) (sElse : St) (hr : r.st.w.failAt = none) (hse : sElse.w.failAt = none) :
    (afterLoop runElse r sElse).st.w.failAt = none ∧
    ∀ pl po k, afterLoop runElse (r.pre pl po k) (sElse.pre pl po k) = (afterLoop runElse r sElse).pre pl po k := by
  unfold afterLoop
  simp only [LoopRes.pre]
  by_cases hab : r.abort = true
  · simp only [hab, if_true]; exact ⟨hr, fun _ _ _ => rfl⟩
  · simp only [hab, Bool.false_eq_true, if_false]
    by_cases hn : (r.n == 0) = true
    · simp only [hn, if_true]
      cases hel : runElse with
      | none => exact ⟨hse, fun _ _ _ => rfl⟩
      | some re => exact helse re hel sElse hse
    · simp only [hn, Bool.false_eq_true, if_false]; exact ⟨hse, fun _ _ _ => rfl⟩

theorem cloopAfter_frame (run : St → Res) (hrun : FrameOK run) (runElse : Option (St → Res))
    (helse : ∀ re, runElse = some re → FrameOK re) (fuel : Nat) (ls : CLoopSpec) (b : Option (Int × Int)) :
    FrameOK (cloopAfter run runElse fuel ls b) := by
  intro s h
  unfold cloopAfter
  cases b with
  | none => exact ⟨h, fun _ _ _ => rfl⟩
  | some p =>
    obtain ⟨cnt, lim⟩ := p
    simp only
    have lf := cloopLoop_frame run hrun ls fuel cnt lim 0 s h
    have l1 : (cloopLoop run ls fuel cnt lim 0 s).st.w.failAt = none := lf.1
    have l2 : ∀ pl po k, cloopLoop run ls fuel cnt lim 0 (s.pre pl po k) = (cloopLoop run ls fuel cnt lim 0 s).pre pl po k := lf.2
    have af := afterLoop_frame runElse helse (cloopLoop run ls fuel cnt lim 0 s) (cloopLoop run ls fuel cnt lim 0 s).st l1 l1
    refine ⟨af.1, fun pl po k => ?_⟩
    rw [l2]
    exact af.2 pl po k

theorem cloopWith_frame (run : St → Res) (hrun : FrameOK run) (runElse : Option (St → Res))
    (helse : ∀ re, runElse = some re → FrameOK re) (fuel : Nat) (ls : CLoopSpec) :
    FrameOK (cloopWith run runElse fuel ls) :=
  frame_ctxStep (fun c => loopBounds c ls) (fun pl c => loopBounds_pre pl c ls)
    (fun b => cloopAfter run runElse fuel ls b) (fun b => cloopAfter_frame run hrun runElse helse fuel ls b)

theorem rloopWith_frame (run : St → Res) (hrun : FrameOK run) (runElse : Option (St → Res))
    (helse : ∀ re, runElse = some re → FrameOK re) (ls : RLoopSpec) :
    FrameOK (rloopWith run runElse ls) := by
  intro s h
  unfold rloopWith
  cases hsp : splitDots ls.src with
  | nil => exact ⟨h, fun _ _ _ => rfl⟩
  | cons name sub =>
    simp only
    have hv : ∀ pl po k, getVar (s.pre pl po k).c.vars name = getVar s.c.vars name := fun _ _ _ => rfl
    cases hgv : getVar s.c.vars name with
    | none =>
      cases hel : runElse with
      | none =>
        refine ⟨h, fun pl po k => ?_⟩
        rw [hv, hgv]; rfl
      | some re =>
        obtain ⟨e1, e2⟩ := helse re hel s h
        refine ⟨e1, fun pl po k => ?_⟩
        rw [hv, hgv]; exact e2 pl po k
    | some vv =>
      simp only
      have lf := rloopLoop_frame run hrun ls (loopItems vv sub) 0 s h
      have l1 : (rloopLoop run ls (loopItems vv sub) 0 s).st.w.failAt = none := lf.1
      have l2 : ∀ pl po k, rloopLoop run ls (loopItems vv sub) 0 (s.pre pl po k) =
          (rloopLoop run ls (loopItems vv sub) 0 s).pre pl po k := lf.2
      have af := afterLoop_frame runElse helse (rloopLoop run ls (loopItems vv sub) 0 s)
        { (rloopLoop run ls (loopItems vv sub) 0 s).st with c := { (rloopLoop run ls (loopItems vv sub) 0 s).st.c with err := none } } l1 l1
      refine ⟨af.1, fun pl po k => ?_⟩
      rw [hv, hgv]; simp only
      rw [l2]
      exact af.2 pl po k


theorem rloopQB_frame (run : St → Res) (hrun : FrameOK run) (runElse : Option (St → Res))
    (helse : ∀ re, runElse = some re → FrameOK re) (ls : RLoopSpec) :
    FrameOK (rloopQB run runElse ls) := by
  intro s h
  unfold rloopQB
  show (match cmpPath s.c.vars s.c.chQB ls.src with | none => _ | some p => _ : Res).st.w.failAt = none ∧
    ∀ pl po k, (match cmpPath s.c.vars s.c.chQB ls.src with | none => _ | some p => _ : Res) = _
  cases cmpPath s.c.vars s.c.chQB ls.src with
  | none => exact ⟨h, fun _ _ _ => rfl⟩
  | some p => exact rloopWith_frame run hrun runElse helse { ls with src := p } { s with c := { s.c with err := none } } h

theorem loopNode_frame (loop : St → Res) (hl : FrameOK loop) : FrameOK (loopNode loop) := by
  intro s h
  have hs0 : ({ s with c := { s.c with brkD := 0 } } : St).w.failAt = none := h
  obtain ⟨l1, l2⟩ := hl { s with c := { s.c with brkD := 0 } } hs0
  have l2' : ∀ pl po k, loop ({ (s.pre pl po k) with c := { (s.pre pl po k).c with brkD := 0 } } : St) =
      (loop { s with c := { s.c with brkD := 0 } }).pre pl po k := l2
  generalize hr : loop { s with c := { s.c with brkD := 0 } } = r at l1 l2'
  unfold loopNode
  constructor
  · simp only [hr]
    cases r.err with
    | some e => exact l1
    | none =>
      simp only
      cases r.st.c.err with
      | none => exact l1
      | some e => simp only; rw [loopErrRes_w]; exact l1
  · intro pl po k
    simp only [l2', hr, Res.pre]
    cases r.err with
    | some e => rfl
    | none =>
      simp only [St.pre, Ctx.pre, Writer.pre]
      cases hce : r.st.c.err with
      | none => simp [hce]
      | some e => simp only [hce]; unfold loopErrRes; split <;> simp [fail]

theorem inclFinish_frame (r : Res) (s : St) (h : s.w.failAt = none) :
    (inclFinish s r).st.w.failAt = none ∧
    ∀ pl po k, inclFinish (s.pre pl po k) (r.pre pl [] 0) = (inclFinish s r).pre pl po k := by
  unfold inclFinish
  constructor
  · cases r.err with
    | some e =>
      simp only
      split
      · exact h
      · simp only [Res.orErr, St.write, Writer.write, h]; rfl
    | none => simp only [St.write, Writer.write, h]; rfl
  · intro pl po k
    simp only [Res.pre]
    cases r.err with
    | some e =>
      have ho : (r.st.pre pl [] 0).w.out = r.st.w.out := by simp [St.pre, Writer.pre]
      simp only [ho]
      by_cases hc : (r.st.w.out.isEmpty || e == .outOfFuel) = true
      · simp only [hc, if_true]; rfl
      · simp only [hc, Bool.false_eq_true, if_false]
        simp only [Res.orErr, St.write, Writer.write, St.pre, Writer.pre, Ctx.pre, h, Res.pre, ok]
        simp [List.append_assoc, Nat.add_assoc]
    | none =>
      simp only [St.write, Writer.write, St.pre, Writer.pre, Ctx.pre, h, Res.pre, ok]
      simp [List.append_assoc, Nat.add_assoc]

/-- **Equivariance of the interpreter** under a shift of log, accepted output and write counter. -/
theorem interp_frame (reg : Registry) : ∀ f : Nat,
    (∀ nodes, FrameOK (writeTree reg f nodes)) ∧
    (∀ nodes, FrameOK (writeSeq reg f nodes)) ∧
    (∀ n, FrameOK (writeNode reg f n)) ∧
    (∀ arg all cs, FrameOK (switchNode reg f arg all cs)) := by
  intro f
  induction f with
  | zero =>
    refine ⟨?_, ?_, ?_, ?_⟩
    · intro nodes s h; rw [writeTree]; exact ⟨h, fun _ _ _ => by rw [writeTree]; rfl⟩
    · intro nodes s h; rw [writeSeq]; exact ⟨h, fun _ _ _ => by rw [writeSeq]; rfl⟩
    · intro n s h; rw [writeNode]; exact ⟨h, fun _ _ _ => by rw [writeNode]; rfl⟩
    · intro a al cs s h; rw [switchNode]; exact ⟨h, fun _ _ _ => by rw [switchNode]; rfl⟩
  | succ f ih =>
    obtain ⟨ihT, ihS, ihN, ihW⟩ := ih
    refine ⟨?_, ?_, ?_, ?_⟩
    · -- writeTree
      intro nodes s h
      obtain ⟨s1, s2⟩ := ihS nodes s h
      constructor
      · rw [writeTree]; simp only; split <;> exact s1
      · intro pl po k
        rw [writeTree, writeTree]; simp only
        rw [s2]
        by_cases hi : (writeSeq reg f nodes s).err = some Err.interrupt
        · simp only [Res.pre, hi, if_true]; rfl
        · simp only [Res.pre, hi, if_false]
    · -- writeSeq
      intro nodes
      cases nodes with
      | nil => intro s h; rw [writeSeq]; exact ⟨h, fun _ _ _ => by rw [writeSeq]; rfl⟩
      | cons n rest =>
        have := FrameOK.andThen (ihN n) (ihS rest)
        intro s h
        obtain ⟨a1, a2⟩ := this s h
        constructor
        · rw [writeSeq]; exact a1
        · intro pl po k; rw [writeSeq, writeSeq]; exact a2 pl po k
    · -- writeNode
      intro n
      cases n with
      | raw b =>
        intro s h
        have := write_frame (regionEscape s.c b) s h
        exact ⟨by rw [writeNode]; exact this.1, fun pl po k => by rw [writeNode, writeNode]; exact this.2 pl po k⟩
      | tpl path mods noesc pre suf =>
        have key : FrameOK (fun s => (match (evalPrint s.c path mods).2 with
            | PrintOut.stop e => (fun s2 : St => (⟨s2, e⟩ : Res))
            | PrintOut.text t => (fun s2 : St => tplWrites s2 pre t suf noesc)) { s with c := (evalPrint s.c path mods).1 }) := by
          apply frame_ctxStep (fun c => evalPrint c path mods) (fun pl c => evalPrint_pre pl c path mods)
            (fun o => match o with
              | PrintOut.stop e => (fun s2 : St => (⟨s2, e⟩ : Res))
              | PrintOut.text t => (fun s2 : St => tplWrites s2 pre t suf noesc))
          intro o
          cases o with
          | stop e => intro s h; exact ⟨h, fun _ _ _ => rfl⟩
          | text t => exact tplWrites_frame pre t suf noesc
        intro s h
        obtain ⟨k1, k2⟩ := key s h
        constructor
        · rw [writeNode]
          simp only at k1 ⊢
          cases ho : (evalPrint s.c path mods).2 <;> (rw [ho] at k1; exact k1)
        · intro pl po k
          rw [writeNode, writeNode]
          have := k2 pl po k
          simp only at this ⊢
          cases ho : (evalPrint s.c path mods).2 with
          | stop e =>
            rw [ho] at this
            have hp : (evalPrint (s.pre pl po k).c path mods).2 = PrintOut.stop e := by
              show (evalPrint (s.c.pre pl) path mods).2 = _; rw [evalPrint_pre]; exact ho
            rw [hp] at this ⊢
            exact this
          | text t =>
            rw [ho] at this
            have hp : (evalPrint (s.pre pl po k).c path mods).2 = PrintOut.text t := by
              show (evalPrint (s.c.pre pl) path mods).2 = _; rw [evalPrint_pre]; exact ho
            rw [hp] at this ⊢
            exact this
      | ctx cs =>
        intro s h
        refine ⟨by rw [writeNode]; exact h, fun pl po k => ?_⟩
        rw [writeNode, writeNode]
        show (⟨{ (s.pre pl po k) with c := (ctxNode (s.c.pre pl) cs).1 }, (ctxNode (s.c.pre pl) cs).2⟩ : Res) = _
        rw [ctxNode_pre]; rfl
      | counter cs =>
        intro s h
        refine ⟨by rw [writeNode]; exact h, fun pl po k => ?_⟩
        rw [writeNode, writeNode]
        show (⟨{ (s.pre pl po k) with c := (counterNode (s.c.pre pl) cs).1 }, (counterNode (s.c.pre pl) cs).2⟩ : Res) = _
        rw [counterNode_pre]; rfl
      | condOK kk child =>
        intro s h
        by_cases he : kk.cd.hlp.isEmpty = true
        · constructor
          · rw [writeNode]; simp only [he, if_true]; exact h
          · intro pl po k; rw [writeNode, writeNode]; simp only [he, if_true]; rfl
        · have hK : ∀ o : CondOut, FrameOK (fun s1 : St => match o with
              | .stop e => fail s1 e
              | .branch r pending => match (if r then child[0]? else child[1]?) with
                | some n => writeNode reg f n s1
                | none => ⟨s1, pending⟩) := by
            intro o
            cases o with
            | stop e => exact FrameOK.fail_ e
            | branch r pending =>
              simp only
              cases (if r then child[0]? else child[1]?) with
              | none => intro s h; exact ⟨h, fun _ _ _ => rfl⟩
              | some n => exact ihN n
          have key := frame_ctxStep (fun c => evalCondOK c kk) (fun pl c => evalCondOK_pre pl c kk) _ hK s h
          constructor
          · rw [writeNode]; simp only [he, Bool.false_eq_true, if_false]; exact key.1
          · intro pl po k; rw [writeNode, writeNode]; simp only [he, Bool.false_eq_true, if_false]; exact key.2 pl po k
      | cond cd child =>
        intro s h
        have hK : ∀ o : CondOut, FrameOK (fun s1 : St => match o with
            | .stop e => fail s1 e
            | .branch r pending => match (if r then child[0]? else child[1]?) with
              | some n => writeNode reg f n s1
              | none => ⟨s1, pending⟩) := by
          intro o
          cases o with
          | stop e => exact FrameOK.fail_ e
          | branch r pending =>
            simp only
            cases (if r then child[0]? else child[1]?) with
            | none => intro s h; exact ⟨h, fun _ _ _ => rfl⟩
            | some n => exact ihN n
        have key := frame_ctxStep (fun c => evalCond c cd) (fun pl c => evalCond_pre pl c cd) _ hK s h
        constructor
        · rw [writeNode]; exact key.1
        · intro pl po k; rw [writeNode, writeNode]; exact key.2 pl po k
      | condTrue child =>
        intro s h; obtain ⟨a, b⟩ := ihS child s h
        exact ⟨by rw [writeNode]; exact a, fun pl po k => by rw [writeNode, writeNode]; exact b pl po k⟩
      | condFalse child =>
        intro s h; obtain ⟨a, b⟩ := ihS child s h
        exact ⟨by rw [writeNode]; exact a, fun pl po k => by rw [writeNode, writeNode]; exact b pl po k⟩
      | case_ kk child =>
        intro s h; obtain ⟨a, b⟩ := ihS child s h
        exact ⟨by rw [writeNode]; exact a, fun pl po k => by rw [writeNode, writeNode]; exact b pl po k⟩
      | default_ child =>
        intro s h; obtain ⟨a, b⟩ := ihS child s h
        exact ⟨by rw [writeNode]; exact a, fun pl po k => by rw [writeNode, writeNode]; exact b pl po k⟩
      | cloop ls child =>
        have key : FrameOK (loopNode (cloopWith (fun st => writeSeq reg f (loopParts child).1 st)
            ((loopParts child).2.map (fun e st => elseRun (elseSeq (e.map (fun n st' => writeNode reg f n st'))) (!e.isEmpty) st)) f ls)) := by
          apply loopNode_frame
          apply cloopWith_frame
          · exact ihS _
          · intro re hre
            cases hp : (loopParts child).2 with
            | none => simp [hp] at hre
            | some e => simp [hp] at hre; subst hre; exact elseRun_frame _ (elseSeq_frame _ (by intro r hr; simp only [List.mem_map] at hr; obtain ⟨n, _, rfl⟩ := hr; exact ihN n)) _
        intro s h
        obtain ⟨a, b⟩ := key s h
        exact ⟨by rw [writeNode]; exact a, fun pl po k => by rw [writeNode, writeNode]; exact b pl po k⟩
      | rloop ls child =>
        have key : FrameOK (loopNode (rloopQB (fun st => writeSeq reg f (loopParts child).1 st)
            ((loopParts child).2.map (fun e st => elseRun (elseSeq (e.map (fun n st' => writeNode reg f n st'))) (!e.isEmpty) st)) ls)) := by
          apply loopNode_frame
          apply rloopQB_frame
          · exact ihS _
          · intro re hre
            cases hp : (loopParts child).2 with
            | none => simp [hp] at hre
            | some e => simp [hp] at hre; subst hre; exact elseRun_frame _ (elseSeq_frame _ (by intro r hr; simp only [List.mem_map] at hr; obtain ⟨n, _, rfl⟩ := hr; exact ihN n)) _
        intro s h
        obtain ⟨a, b⟩ := key s h
        exact ⟨by rw [writeNode]; exact a, fun pl po k => by rw [writeNode, writeNode]; exact b pl po k⟩
      | brk d => intro s h; rw [writeNode]; exact ⟨h, fun _ _ _ => by rw [writeNode]; rfl⟩
      | lbrk d => intro s h; rw [writeNode]; exact ⟨h, fun _ _ _ => by rw [writeNode]; rfl⟩
      | cont => intro s h; rw [writeNode]; exact ⟨h, fun _ _ _ => by rw [writeNode]; rfl⟩
      | switch arg child =>
        intro s h; obtain ⟨a, b⟩ := ihW arg child child s h
        exact ⟨by rw [writeNode]; exact a, fun pl po k => by rw [writeNode, writeNode]; exact b pl po k⟩
      | incl names =>
        intro s h
        cases hg : reg.getBKeys names with
        | none =>
          refine ⟨by rw [writeNode]; simp [hg]; exact h, fun pl po k => ?_⟩
          rw [writeNode, writeNode]; simp [hg]; rfl
        | some nodes =>
          by_cases hd : s.c.incD ≥ maxIncDepth
          · refine ⟨by rw [writeNode]; simp [hg, hd]; exact h, fun pl po k => ?_⟩
            rw [writeNode, writeNode]
            have hd' : (s.pre pl po k).c.incD ≥ maxIncDepth := hd
            simp [hg, hd, hd']; rfl
          · have hin : ({ c := { s.c with incD := s.c.incD + 1 }, w := {} } : St).w.failAt = none := rfl
            obtain ⟨t1, t2⟩ := ihT nodes { c := { s.c with incD := s.c.incD + 1 }, w := {} } hin
            generalize hr : writeTree reg f nodes { c := { s.c with incD := s.c.incD + 1 }, w := {} } = r at t1 t2
            obtain ⟨i1, i2⟩ := inclFinish_frame { r with st := { r.st with c := { r.st.c with incD := r.st.c.incD - 1 } } } s h
            constructor
            · rw [writeNode]; simp only [hg, hd, if_false, hr]
              exact i1
            · intro pl po k
              rw [writeNode, writeNode]
              have hd' : ¬ ((s.pre pl po k).c.incD ≥ maxIncDepth) := hd
              simp only [hg, hd, hd', if_false, hr]
              have hshift : writeTree reg f nodes { c := { (s.pre pl po k).c with incD := (s.pre pl po k).c.incD + 1 }, w := {} } =
                  r.pre pl [] 0 := by
                have := t2 pl [] 0
                rw [← this]
                congr 1
              rw [hshift]
              exact i2 pl po k
      | exit => intro s h; rw [writeNode]; exact ⟨h, fun _ _ _ => by rw [writeNode]; rfl⟩
      | jsonQ => intro s h; rw [writeNode]; exact ⟨h, fun _ _ _ => by rw [writeNode]; rfl⟩
      | endJsonQ => intro s h; rw [writeNode]; exact ⟨h, fun _ _ _ => by rw [writeNode]; rfl⟩
      | htmlE => intro s h; rw [writeNode]; exact ⟨h, fun _ _ _ => by rw [writeNode]; rfl⟩
      | endHtmlE => intro s h; rw [writeNode]; exact ⟨h, fun _ _ _ => by rw [writeNode]; rfl⟩
      | urlEnc => intro s h; rw [writeNode]; exact ⟨h, fun _ _ _ => by rw [writeNode]; rfl⟩
      | endUrlEnc => intro s h; rw [writeNode]; exact ⟨h, fun _ _ _ => by rw [writeNode]; rfl⟩
      | div => intro s h; rw [writeNode]; exact ⟨h, fun _ _ _ => by rw [writeNode]; rfl⟩
      | unknown => intro s h; rw [writeNode]; exact ⟨h, fun _ _ _ => by rw [writeNode]; rfl⟩
    · -- switchNode
      intro arg all cs
      cases cs with
      | nil =>
        intro s h
        cases hf : all.find? Node.isDefault with
        | none =>
          exact ⟨by rw [switchNode]; simp [hf]; exact h, fun pl po k => by rw [switchNode, switchNode]; simp [hf]; rfl⟩
        | some d =>
          obtain ⟨a, b⟩ := ihN d s h
          exact ⟨by rw [switchNode]; simp only [hf]; exact a, fun pl po k => by rw [switchNode, switchNode]; simp only [hf]; exact b pl po k⟩
      | cons ch rest =>
        intro s h
        cases hc : ch.asCase with
        | none =>
          obtain ⟨a, b⟩ := ihW arg all rest s h
          exact ⟨by rw [switchNode]; simp only [hc]; exact a, fun pl po k => by rw [switchNode, switchNode]; simp only [hc]; exact b pl po k⟩
        | some kk =>
          have hK : ∀ o : CondOut, FrameOK (fun s1 : St => match o with
              | .stop e => fail s1 e
              | .branch r _ => if r then writeNode reg f ch s1 else switchNode reg f arg all rest s1) := by
            intro o
            cases o with
            | stop e => exact FrameOK.fail_ e
            | branch r pending =>
              simp only
              cases r with
              | true => simp only [if_true]; exact ihN ch
              | false => simp only [Bool.false_eq_true, if_false]; exact ihW arg all rest
          have key := frame_ctxStep (fun c => evalCase c arg kk) (fun pl c => evalCase_pre pl c arg kk) _ hK s h
          constructor
          · rw [switchNode]; simp only [hc]; exact key.1
          · intro pl po k; rw [switchNode, switchNode]; simp only [hc]; exact key.2 pl po k

end DyntplV

namespace DyntplV

theorem runDeferred_pre (pl : List Event) (c : Ctx) : (c.pre pl).runDeferred = (c.runDeferred).pre pl := by
  simp [Ctx.runDeferred, Ctx.pre, List.append_assoc]

theorem St.topStart_pre (s : St) (pl : List Event) (po : Bytes) (k : Nat) : (s.pre pl po k).topStart = s.topStart.pre pl po k := rfl

theorem write_frame_top (reg : Registry) (fuel : Nat) (nodes : List Node) : FrameOK (write reg fuel nodes) := by
  have hb : FrameOK (writeBody reg fuel nodes) := by
    unfold writeBody
    apply FrameOK.andThen ((interp_frame reg fuel).1 nodes)
    intro s h
    refine ⟨h, fun pl po k => ?_⟩
    show ok { (s.pre pl po k) with c := (s.c.pre pl).runDeferred } = _
    rw [runDeferred_pre]; rfl
  intro s h
  obtain ⟨b1, b2⟩ := hb s.topStart h
  refine ⟨b1, fun pl po k => ?_⟩
  show writeBody reg fuel nodes (s.pre pl po k).topStart = _
  rw [St.topStart_pre]
  exact b2 pl po k

theorem write_frame_top_old (reg : Registry) (fuel : Nat) (nodes : List Node) : FrameOK (writeBody reg fuel nodes) := by
  unfold writeBody
  apply FrameOK.andThen ((interp_frame reg fuel).1 nodes)
  intro s h
  refine ⟨h, fun pl po k => ?_⟩
  show ok { (s.pre pl po k) with c := (s.c.pre pl).runDeferred } = _
  rw [runDeferred_pre]; rfl

theorem writeKey_frame (reg : Registry) (fuel : Nat) (key : Bytes) : FrameOK (writeKey reg fuel key) := by
  unfold writeKey
  cases reg.lookup key with
  | none => exact FrameOK.fail_ _
  | some nodes => exact write_frame_top reg fuel nodes

end DyntplV
