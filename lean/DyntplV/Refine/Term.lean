import DyntplV.Impl
import DyntplV.Refine.Clean

/-!
# Termination of the interpreter model: a fuel that always suffices

The interpreter is defined by recursion on a fuel argument. `Refine/Fuel.lean` shows that the fuel is only a
termination device (more fuel never changes a result that did not run out). This file shows the other half for the
part of the language whose running time does not depend on numbers in the data: **for a tree without counter loops
and without includes a fuel computed from the tree alone (`needSeq`, its nesting measure) always suffices** — whatever
the data, the writer and the state of the context, the rendering does not end with `outOfFuel`. Range loops run over
finite lists, conditions and switches pick a branch, break / continue only end loops earlier: nothing in that fragment
can keep the interpreter running. (A counter loop runs as long as the template says — its iteration budget is the
same fuel — and an include may recurse up to the include limit; both are outside this theorem.)
-/

namespace DyntplV
namespace Term

/-- Iterations a counter loop can still make from counter value `v` (`none`: no bound — the loop steps away from its
    limit). One more unit of fuel than this ends the loop. -/
def dist (co so : Op) (v lim : Int) : Option Nat :=
  if so == .inc then
    match co with
    | .lt => some (lim - v).toNat
    | .ltq => some (lim + 1 - v).toNat
    | .nq => if v ≤ lim then some (lim - v).toNat else none
    | .eq => some (if v = lim then 1 else 0)
    | .gt | .gtq => none
    | _ => some 0
  else if so == .dec then
    match co with
    | .gt => some (v - lim).toNat
    | .gtq => some (v + 1 - lim).toNat
    | .nq => if lim ≤ v then some (v - lim).toNat else none
    | .eq => some (if v = lim then 1 else 0)
    | .lt | .ltq => none
    | _ => some 0
  else some 1

/-- Budget a counter loop with literal bounds needs (0: not literal, or stepping away from its limit). -/
def cloopNeed (ls : CLoopSpec) : Nat :=
  if ls.cntStatic && ls.limStatic then
    match parseIntLit ls.cntInit, parseIntLit ls.lim with
    | some a, some b => match dist ls.condOp ls.cntOp a b with
      | some m => m + 1
      | none => 0
    | _, _ => 0
  else 0

/-- The loop has literal bounds and steps towards its limit. -/
def cloopLit (ls : CLoopSpec) : Bool :=
  ls.cntStatic && ls.limStatic &&
    (match parseIntLit ls.cntInit, parseIntLit ls.lim with
     | some a, some b => (dist ls.condOp ls.cntOp a b).isSome
     | _, _ => false)

mutual
/-- Fuel that suffices for a node. -/
def needNode : Node → Nat
  | .cond _ ch => 1 + needSeq ch
  | .condOK _ ch => 1 + needSeq ch
  | .condTrue ch => 1 + needSeq ch
  | .condFalse ch => 1 + needSeq ch
  | .case_ _ ch => 1 + needSeq ch
  | .default_ ch => 1 + needSeq ch
  | .rloop _ ch => 1 + needSeq ch
  | .cloop ls ch => 1 + (needSeq ch + cloopNeed ls)
  | .switch _ ch => 1 + (needSeq ch + needSeq ch)
  | _ => 1
/-- Fuel that suffices for a node list. -/
def needSeq : List Node → Nat
  | [] => 1
  | n :: rest => 1 + max (needNode n) (needSeq rest)
end

mutual
/-- No counter loop and no include anywhere in the node. -/
def plainNode : Node → Bool
  | .cond _ ch => plainSeq ch
  | .condOK _ ch => plainSeq ch
  | .condTrue ch => plainSeq ch
  | .condFalse ch => plainSeq ch
  | .case_ _ ch => plainSeq ch
  | .default_ ch => plainSeq ch
  | .rloop _ ch => plainSeq ch
  | .cloop _ _ => false
  | .incl _ => false
  | .switch _ ch => plainSeq ch
  | _ => true
def plainSeq : List Node → Bool
  | [] => true
  | n :: rest => plainNode n && plainSeq rest
end

/-- Fuel that suffices for a whole template (`writeTree`). -/
def treeNeed (nodes : List Node) : Nat := needSeq nodes + 1

theorem need_mem : ∀ (l : List Node) (n : Node), n ∈ l → needNode n < needSeq l := by
  intro l
  induction l with
  | nil => intro n h; cases h
  | cons a rest ih =>
    intro n h
    rw [needSeq]
    cases h with
    | head => omega
    | tail _ h' => have := ih n h'; omega

theorem plain_mem : ∀ (l : List Node) (n : Node), n ∈ l → plainSeq l = true → plainNode n = true := by
  intro l
  induction l with
  | nil => intro n h; cases h
  | cons a rest ih =>
    intro n h hp
    rw [plainSeq, Bool.and_eq_true] at hp
    cases h with
    | head => exact hp.1
    | tail _ h' => exact ih n h' hp.2

theorem needSeq_pos (l : List Node) : 1 ≤ needSeq l := by
  cases l <;> rw [needSeq] <;> omega

theorem needNode_pos (n : Node) : 1 ≤ needNode n := by
  cases n <;> simp only [needNode] <;> omega

/-! ### Body and else-branch of a loop node -/

theorem loopParts_body_need (child : List Node) : needSeq (loopParts child).1 ≤ needSeq child := by
  unfold loopParts
  split
  · rename_i b rest
    simp only [needSeq, needNode]; omega
  · exact Nat.le_refl _

theorem loopParts_body_plain (child : List Node) (h : plainSeq child = true) : plainSeq (loopParts child).1 = true := by
  unfold loopParts
  split
  · rename_i b rest
    simp only [plainSeq, plainNode, Bool.and_eq_true] at h
    exact h.1
  · exact h

theorem loopParts_else_need (child e : List Node) (h : (loopParts child).2 = some e) : needSeq e < needSeq child := by
  simp only [loopParts] at h
  split at h
  · rename_i a e' rest
    simp only [Option.some.injEq] at h
    subst h
    simp only [needSeq, needNode]; omega
  · cases h

theorem loopParts_else_plain (child e : List Node) (h : (loopParts child).2 = some e) (hp : plainSeq child = true) :
    plainSeq e = true := by
  simp only [loopParts] at h
  split at h
  · rename_i a e' rest
    simp only [Option.some.injEq] at h
    subst h
    simp only [plainSeq, plainNode, Bool.and_eq_true] at hp
    exact hp.2.1
  · cases h

/-- The else-branch runners of a loop node at two sufficient fuels are the same function. -/
theorem else_congr (reg : Registry) (f g : Nat) (child : List Node) (hp : plainSeq child = true)
    (ihN : ∀ n s, plainNode n = true → needNode n ≤ f → needNode n ≤ g → writeNode reg f n s = writeNode reg g n s)
    (hf : needSeq child ≤ f) (hg : needSeq child ≤ g) :
    (loopParts child).2.map (fun e st => elseRun (elseSeq (e.map (fun n st' => writeNode reg f n st'))) (!e.isEmpty) st) =
    (loopParts child).2.map (fun e st => elseRun (elseSeq (e.map (fun n st' => writeNode reg g n st'))) (!e.isEmpty) st) := by
  cases he : (loopParts child).2 with
  | none => rfl
  | some e =>
    have hne := loopParts_else_need child e he
    have hpe := loopParts_else_plain child e he hp
    have hm : e.map (fun n st' => writeNode reg f n st') = e.map (fun n st' => writeNode reg g n st') := by
      apply List.map_congr_left
      intro n hn
      funext st'
      have h1 := need_mem e n hn
      exact ihN n st' (plain_mem e n hn hpe) (by omega) (by omega)
    simp only [Option.map_some, hm]

/-- **Stabilisation.** For a tree without counter loops and includes, any two fuels of at least `need` give the
    same result: beyond `need` the fuel argument is not looked at. -/
theorem interp_stable (reg : Registry) : ∀ f : Nat,
    (∀ g nodes s, plainSeq nodes = true → needSeq nodes ≤ f → needSeq nodes ≤ g →
        writeSeq reg f nodes s = writeSeq reg g nodes s) ∧
    (∀ g n s, plainNode n = true → needNode n ≤ f → needNode n ≤ g →
        writeNode reg f n s = writeNode reg g n s) ∧
    (∀ g arg all cs s, plainSeq all = true → plainSeq cs = true →
        needSeq cs + needSeq all ≤ f → needSeq cs + needSeq all ≤ g →
        switchNode reg f arg all cs s = switchNode reg g arg all cs s) := by
  intro f
  induction f with
  | zero =>
    refine ⟨?_, ?_, ?_⟩
    · intro g nodes s _ h _; have := needSeq_pos nodes; omega
    · intro g n s _ h _; have := needNode_pos n; omega
    · intro g arg all cs s _ _ h _; have := needSeq_pos cs; omega
  | succ f ih =>
    obtain ⟨ihS, ihN, ihW⟩ := ih
    refine ⟨?_, ?_, ?_⟩
    · -- writeSeq
      intro g nodes s hp hf hg
      cases g with
      | zero => have := needSeq_pos nodes; omega
      | succ g =>
        cases nodes with
        | nil => rw [writeSeq, writeSeq]
        | cons n rest =>
          rw [writeSeq, writeSeq]
          rw [needSeq] at hf hg
          rw [plainSeq, Bool.and_eq_true] at hp
          rw [ihN g n s hp.1 (by omega) (by omega)]
          congr 1
          funext s1
          exact ihS g rest s1 hp.2 (by omega) (by omega)
    · -- writeNode
      intro g n s hp hf hg
      cases g with
      | zero => have := needNode_pos n; omega
      | succ g =>
        cases n with
        | raw b => rw [writeNode, writeNode]
        | tpl path mods noesc pre suf => rw [writeNode, writeNode]
        | ctx cs => rw [writeNode, writeNode]
        | counter cs => rw [writeNode, writeNode]
        | condOK kk child =>
          rw [writeNode, writeNode]
          simp only
          rw [needNode] at hf hg
          rw [plainNode] at hp
          by_cases he : kk.cd.hlp.isEmpty = true
          · simp only [he, if_true]
          · simp only [he, Bool.false_eq_true, if_false]
            generalize evalCondOK s.c kk = ev
            obtain ⟨c1, o⟩ := ev
            cases o with
            | stop e => rfl
            | branch r pending =>
              simp only
              cases hc : (if r then child[0]? else child[1]?) with
              | none => rfl
              | some n =>
                have hn : n ∈ child := by
                  cases r with
                  | true => simp only [if_true] at hc; exact List.mem_of_getElem? hc
                  | false => simp only [Bool.false_eq_true, if_false] at hc; exact List.mem_of_getElem? hc
                have h1 := need_mem child n hn
                exact ihN g n _ (plain_mem child n hn hp) (by omega) (by omega)
        | cond cd child =>
          rw [writeNode, writeNode]
          simp only
          rw [needNode] at hf hg
          rw [plainNode] at hp
          generalize evalCond s.c cd = ev
          obtain ⟨c1, o⟩ := ev
          cases o with
          | stop e => rfl
          | branch r pending =>
            simp only
            cases hc : (if r then child[0]? else child[1]?) with
            | none => rfl
            | some n =>
              have hn : n ∈ child := by
                cases r with
                | true => simp only [if_true] at hc; exact List.mem_of_getElem? hc
                | false => simp only [Bool.false_eq_true, if_false] at hc; exact List.mem_of_getElem? hc
              have h1 := need_mem child n hn
              exact ihN g n _ (plain_mem child n hn hp) (by omega) (by omega)
        | condTrue child =>
          rw [writeNode, writeNode]; rw [needNode] at hf hg; rw [plainNode] at hp
          exact ihS g child s hp (by omega) (by omega)
        | condFalse child =>
          rw [writeNode, writeNode]; rw [needNode] at hf hg; rw [plainNode] at hp
          exact ihS g child s hp (by omega) (by omega)
        | case_ kk child =>
          rw [writeNode, writeNode]; rw [needNode] at hf hg; rw [plainNode] at hp
          exact ihS g child s hp (by omega) (by omega)
        | default_ child =>
          rw [writeNode, writeNode]; rw [needNode] at hf hg; rw [plainNode] at hp
          exact ihS g child s hp (by omega) (by omega)
        | cloop ls child => rw [plainNode] at hp; cases hp
        | rloop ls child =>
          rw [writeNode, writeNode]
          simp only
          rw [needNode] at hf hg
          rw [plainNode] at hp
          have hb := loopParts_body_need child
          have hbody : (fun st => writeSeq reg f (loopParts child).1 st) = (fun st => writeSeq reg g (loopParts child).1 st) := by
            funext st
            exact ihS g _ st (loopParts_body_plain child hp) (by omega) (by omega)
          rw [hbody, else_congr reg f g child hp (fun n s => ihN g n s) (by omega) (by omega)]
        | brk d => rw [writeNode, writeNode]
        | lbrk d => rw [writeNode, writeNode]
        | cont => rw [writeNode, writeNode]
        | switch arg child =>
          rw [writeNode, writeNode]; rw [needNode] at hf hg; rw [plainNode] at hp
          exact ihW g arg child child s hp hp (by omega) (by omega)
        | incl names => rw [plainNode] at hp; cases hp
        | exit => rw [writeNode, writeNode]
        | jsonQ => rw [writeNode, writeNode]
        | endJsonQ => rw [writeNode, writeNode]
        | htmlE => rw [writeNode, writeNode]
        | endHtmlE => rw [writeNode, writeNode]
        | urlEnc => rw [writeNode, writeNode]
        | endUrlEnc => rw [writeNode, writeNode]
        | div => rw [writeNode, writeNode]
        | unknown => rw [writeNode, writeNode]
    · -- switchNode
      intro g arg all cs s hpa hpc hf hg
      cases g with
      | zero => have := needSeq_pos cs; omega
      | succ g =>
        cases cs with
        | nil =>
          rw [switchNode, switchNode]
          rw [needSeq] at hf hg
          cases hd : all.find? Node.isDefault with
          | none => rfl
          | some d =>
            have hm : d ∈ all := List.mem_of_find?_eq_some hd
            have h1 := need_mem all d hm
            exact ihN g d s (plain_mem all d hm hpa) (by omega) (by omega)
        | cons ch rest =>
          rw [switchNode, switchNode]
          rw [needSeq] at hf hg
          rw [plainSeq, Bool.and_eq_true] at hpc
          have ha := needSeq_pos all
          cases ch.asCase with
          | none => exact ihW g arg all rest s hpa hpc.2 (by omega) (by omega)
          | some k =>
            simp only
            generalize evalCase s.c arg k = ev
            obtain ⟨c1, o⟩ := ev
            cases o with
            | stop e => rfl
            | branch r pend =>
              simp only
              cases r with
              | true => simp only [if_true]; exact ihN g ch _ hpc.1 (by omega) (by omega)
              | false => simp only [Bool.false_eq_true, if_false]; exact ihW g arg all rest _ hpa hpc.2 (by omega) (by omega)

/-! ### Never `outOfFuel` -/

open Clean in
/-- The else-branch runner of a loop node in the fragment is good at a sufficient fuel. -/
theorem else_OK (reg : Registry) (f : Nat) (child : List Node) (hp : plainSeq child = true)
    (ihN : ∀ n s, plainNode n = true → needNode n ≤ f → SOK s → ROK (writeNode reg f n s))
    (hf : needSeq child ≤ f) :
    ElseOK ((loopParts child).2.map (fun e st => elseRun (elseSeq (e.map (fun n st' => writeNode reg f n st'))) (!e.isEmpty) st)) := by
  intro g hg
  cases he : (loopParts child).2 with
  | none => rw [he] at hg; cases hg
  | some e =>
    rw [he] at hg
    simp only [Option.map_some, Option.some.injEq] at hg
    subst hg
    have hne := loopParts_else_need child e he
    have hpe := loopParts_else_plain child e he hp
    intro st hst
    apply elseRun_ROK _ _ _ _ hst
    intro st' hst'
    apply elseSeq_ROK _ _ _ hst'
    intro r hr st'' hst''
    obtain ⟨n, hn, rfl⟩ := List.mem_map.mp hr
    have h1 := need_mem e n hn
    exact ihN n st'' (plain_mem e n hn hpe) (by omega) hst''

open Clean in
/-- **Termination.** For a tree without counter loops and includes, run with a fuel of at least `need` from a
    context that does not hold `outOfFuel`, the interpreter neither returns `outOfFuel` nor leaves it in `ctx.Err`. -/
theorem interp_clean (reg : Registry) : ∀ f : Nat,
    (∀ nodes s, plainSeq nodes = true → needSeq nodes ≤ f → SOK s → ROK (writeSeq reg f nodes s)) ∧
    (∀ n s, plainNode n = true → needNode n ≤ f → SOK s → ROK (writeNode reg f n s)) ∧
    (∀ arg all cs s, plainSeq all = true → plainSeq cs = true → needSeq cs + needSeq all ≤ f → SOK s →
        ROK (switchNode reg f arg all cs s)) := by
  intro f
  induction f with
  | zero =>
    refine ⟨?_, ?_, ?_⟩
    · intro nodes s _ h _; have := needSeq_pos nodes; omega
    · intro n s _ h _; have := needNode_pos n; omega
    · intro arg all cs s _ _ h _; have := needSeq_pos cs; omega
  | succ f ih =>
    obtain ⟨ihS, ihN, ihW⟩ := ih
    refine ⟨?_, ?_, ?_⟩
    · -- writeSeq
      intro nodes s hp hf hs
      cases nodes with
      | nil => rw [writeSeq]; exact ok_ROK _ hs
      | cons n rest =>
        rw [writeSeq]
        rw [needSeq] at hf
        rw [plainSeq, Bool.and_eq_true] at hp
        apply andThen_ROK
        · exact ihN n s hp.1 (by omega) hs
        · intro s1 hs1; exact ihS rest s1 hp.2 (by omega) hs1
    · -- writeNode
      intro n s hp hf hs
      cases n with
      | raw b => rw [writeNode]; exact write_ROK _ _ hs
      | tpl path mods noesc pre suf =>
        rw [writeNode]
        simp only
        have he := evalPrint_clean s.c path mods
        generalize evalPrint s.c path mods = ev at he
        obtain ⟨c2, o⟩ := ev
        cases o with
        | stop e => exact ⟨he.2 e rfl, he.1⟩
        | text t => exact tplWrites_ROK _ _ _ _ _ he.1
      | ctx cs =>
        rw [writeNode]
        simp only
        have he := ctxNode_clean s.c cs hs
        generalize ctxNode s.c cs = ev at he
        obtain ⟨c', e⟩ := ev
        exact ⟨he.2, he.1⟩
      | counter cs =>
        rw [writeNode]
        simp only
        have he := counterNode_clean s.c cs hs
        generalize counterNode s.c cs = ev at he
        obtain ⟨c', e⟩ := ev
        exact ⟨he.2, he.1⟩
      | condOK kk child =>
        rw [writeNode]
        simp only
        rw [needNode] at hf
        rw [plainNode] at hp
        by_cases hemp : kk.cd.hlp.isEmpty = true
        · simp only [hemp, if_true]; exact ok_ROK _ hs
        · simp only [hemp, Bool.false_eq_true, if_false]
          have he := evalCondOK_clean s.c kk hs
          generalize evalCondOK s.c kk = ev at he
          obtain ⟨c1, o⟩ := ev
          cases o with
          | stop e => exact fail_ROK _ _ he.1 he.2
          | branch r pending =>
            simp only
            cases hc : (if r then child[0]? else child[1]?) with
            | none => exact ⟨he.2, he.1⟩
            | some n =>
              have hn : n ∈ child := by
                cases r with
                | true => simp only [if_true] at hc; exact List.mem_of_getElem? hc
                | false => simp only [Bool.false_eq_true, if_false] at hc; exact List.mem_of_getElem? hc
              have h1 := need_mem child n hn
              exact ihN n _ (plain_mem child n hn hp) (by omega) he.1
      | cond cd child =>
        rw [writeNode]
        simp only
        rw [needNode] at hf
        rw [plainNode] at hp
        have he := evalCond_clean s.c cd hs
        generalize evalCond s.c cd = ev at he
        obtain ⟨c1, o⟩ := ev
        cases o with
        | stop e => exact fail_ROK _ _ he.1 he.2
        | branch r pending =>
          simp only
          cases hc : (if r then child[0]? else child[1]?) with
          | none => exact ⟨he.2, he.1⟩
          | some n =>
            have hn : n ∈ child := by
              cases r with
              | true => simp only [if_true] at hc; exact List.mem_of_getElem? hc
              | false => simp only [Bool.false_eq_true, if_false] at hc; exact List.mem_of_getElem? hc
            have h1 := need_mem child n hn
            exact ihN n _ (plain_mem child n hn hp) (by omega) he.1
      | condTrue child =>
        rw [writeNode]; rw [needNode] at hf; rw [plainNode] at hp
        exact ihS child s hp (by omega) hs
      | condFalse child =>
        rw [writeNode]; rw [needNode] at hf; rw [plainNode] at hp
        exact ihS child s hp (by omega) hs
      | case_ kk child =>
        rw [writeNode]; rw [needNode] at hf; rw [plainNode] at hp
        exact ihS child s hp (by omega) hs
      | default_ child =>
        rw [writeNode]; rw [needNode] at hf; rw [plainNode] at hp
        exact ihS child s hp (by omega) hs
      | cloop ls child => rw [plainNode] at hp; cases hp
      | rloop ls child =>
        rw [writeNode]
        simp only
        rw [needNode] at hf
        rw [plainNode] at hp
        have hb := loopParts_body_need child
        apply loopNode_ROK _ _ _ hs
        intro s' _
        apply rloopQB_ROK
        · intro st hst
          exact ihS _ st (loopParts_body_plain child hp) (by omega) hst
        · exact else_OK reg f child hp ihN (by omega)
      | brk d => rw [writeNode]; exact fail_ROK _ _ hs (by simp)
      | lbrk d => rw [writeNode]; exact ok_ROK _ hs
      | cont => rw [writeNode]; exact fail_ROK _ _ hs (by simp)
      | switch arg child =>
        rw [writeNode]; rw [needNode] at hf; rw [plainNode] at hp
        exact ihW arg child child s hp hp (by omega) hs
      | incl names => rw [plainNode] at hp; cases hp
      | exit => rw [writeNode]; exact fail_ROK _ _ hs (by simp)
      | jsonQ => rw [writeNode]; exact ok_ROK _ hs
      | endJsonQ => rw [writeNode]; exact ok_ROK _ hs
      | htmlE => rw [writeNode]; exact ok_ROK _ hs
      | endHtmlE => rw [writeNode]; exact ok_ROK _ hs
      | urlEnc => rw [writeNode]; exact ok_ROK _ hs
      | endUrlEnc => rw [writeNode]; exact ok_ROK _ hs
      | div => rw [writeNode]; exact fail_ROK _ _ hs (by simp)
      | unknown => rw [writeNode]; exact fail_ROK _ _ hs (by simp)
    · -- switchNode
      intro arg all cs s hpa hpc hf hs
      cases cs with
      | nil =>
        rw [switchNode]
        rw [needSeq] at hf
        cases hd : all.find? Node.isDefault with
        | none => exact ok_ROK _ hs
        | some d =>
          have hm : d ∈ all := List.mem_of_find?_eq_some hd
          have h1 := need_mem all d hm
          exact ihN d s (plain_mem all d hm hpa) (by omega) hs
      | cons ch rest =>
        rw [switchNode]
        rw [needSeq] at hf
        rw [plainSeq, Bool.and_eq_true] at hpc
        have ha := needSeq_pos all
        cases hk : ch.asCase with
        | none => exact ihW arg all rest s hpa hpc.2 (by omega) hs
        | some k =>
          simp only
          have he := evalCase_clean s.c arg k hs
          generalize evalCase s.c arg k = ev at he
          obtain ⟨c1, o⟩ := ev
          cases o with
          | stop e => exact fail_ROK _ _ he.1 he.2
          | branch r pend =>
            simp only
            cases r with
            | true => simp only [if_true]; exact ihN ch _ hpc.1 (by omega) he.1
            | false => simp only [Bool.false_eq_true, if_false]; exact ihW arg all rest _ hpa hpc.2 (by omega) he.1

end Term
end DyntplV
