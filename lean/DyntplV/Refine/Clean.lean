import DyntplV.Impl

/-!
# `outOfFuel` is the interpreter's own error: nothing else produces it

The error `outOfFuel` is returned by the four fuel-indexed functions (and left in `ctx.Err` by the counter loop's
iteration budget) when the fuel argument is used up. This file proves the other direction for everything those
functions call: **no context operation, condition, modifier, print, assignment or write produces `outOfFuel`, and none
of them puts it into `ctx.Err`** — a context that does not hold it keeps not holding it. With `Refine/Term.lean` this
turns "the result does not depend on the fuel" into "the result is never `outOfFuel`".
-/

namespace DyntplV
namespace Clean

/-- An error value that is not the model's own `outOfFuel`. -/
def OK (e : Option Err) : Prop := e ≠ some .outOfFuel

@[simp] theorem OK_none : OK none := by simp [OK]
theorem OK_some {e : Err} (h : e ≠ .outOfFuel) : OK (some e) := by simp [OK, h]

theorem getCore_clean (vars : Vars) (qb : Bool) (path : Bytes) : OK (getCore vars qb path).2 := by
  unfold getCore
  repeat' split
  all_goals simp [OK]

@[simp] theorem get_clean (c : Ctx) (path : Bytes) : OK (c.get path).2.err := by
  unfold Ctx.get; exact getCore_clean _ _ _

theorem cmpErrCore_clean (vars : Vars) (path : Bytes) (o : Op) (right : Bytes) : OK (cmpErrCore vars path o right) := by
  unfold cmpErrCore
  repeat' split
  all_goals simp [OK]

@[simp] theorem cmp_clean (c : Ctx) (path : Bytes) (o : Op) (right : Bytes) : OK (c.cmp path o right).2.err := by
  unfold Ctx.cmp
  simp only
  split
  · simp [OK]
  · exact cmpErrCore_clean _ _ _ _

@[simp] theorem cmpLC_clean (c : Ctx) (path : Bytes) (o : Op) (right : Bytes) : OK (c.cmpLC path o right).2.err := by
  simp [Ctx.cmpLC]

@[simp] theorem set_err (c : Ctx) (k : Bytes) (v : Val) (i : InsKind) : (c.set k v i).err = c.err := rfl
@[simp] theorem setStatic_err (c : Ctx) (k : Bytes) (v : Val) : (c.setStatic k v).err = c.err := rfl
@[simp] theorem setBytes_err (c : Ctx) (k : Bytes) (b : Bytes) : (c.setBytes k b).err = c.err := rfl
@[simp] theorem setCounter_err (c : Ctx) (k : Bytes) (n : Int) : (c.setCounter k n).err = c.err := rfl
@[simp] theorem applyEff_err (c : Ctx) (e : ModEff) : (c.applyEff e).err = c.err := rfl

theorem collectArgs_clean (c : Ctx) (l : List Arg) (h : OK c.err) : OK (collectArgs c l).2.err := by
  induction l generalizing c with
  | nil => simpa [collectArgs]
  | cons a rest ih =>
    rw [collectArgs]
    simp only
    apply ih
    repeat' split
    all_goals first | exact h | exact get_clean _ _

theorem collectHlpArgs_clean (c : Ctx) (l : List Arg) (h : OK c.err) : OK (collectHlpArgs c l).2.err := by
  induction l generalizing c with
  | nil => simpa [collectHlpArgs]
  | cons a rest ih =>
    rw [collectHlpArgs]
    simp only
    apply ih
    split
    · exact h
    · exact get_clean _ _

theorem escMod_clean (f : Bytes → Bytes) (val : Val) (args : List ArgVal) (b : Bool) (e : Err)
    (h : escMod f val args b = .error e) : e ≠ .outOfFuel := by
  unfold escMod at h
  split at h
  · cases h; simp
  · split at h <;> cases h

theorem modValue_clean (id : Bytes) (val : Val) (args : List ArgVal) (e : Err)
    (h : modValue id val args = some (.error e)) : e ≠ .outOfFuel := by
  unfold modValue at h
  by_cases h1 : (id == lit "default" || id == lit "def") = true
  · rw [if_pos h1] at h
    cases args with
    | nil => simp at h; subst h; simp
    | cons a t => simp at h
  rw [if_neg h1] at h
  by_cases h2 : (id == lit "ifThen" || id == lit "if") = true
  · rw [if_pos h2] at h
    cases args with
    | nil => simp at h; subst h; simp
    | cons a t => simp at h
  rw [if_neg h2] at h
  by_cases h3 : (id == lit "ifThenElse" || id == lit "ifel") = true
  · rw [if_pos h3] at h
    simp only [Option.some.injEq] at h
    split at h
    · cases h
    · cases h; simp
  rw [if_neg h3] at h
  by_cases h4 : (id == lit "jsonEscape" || id == lit "je") = true
  · rw [if_pos h4] at h; simp only [Option.some.injEq] at h; exact escMod_clean _ _ _ _ _ h
  rw [if_neg h4] at h
  by_cases h5 : (id == lit "jsonQuote" || id == lit "jq") = true
  · rw [if_pos h5] at h; simp only [Option.some.injEq] at h; split at h <;> cases h
  rw [if_neg h5] at h
  by_cases h6 : (id == lit "htmlEscape" || id == lit "he") = true
  · rw [if_pos h6] at h; simp only [Option.some.injEq] at h; exact escMod_clean _ _ _ _ _ h
  rw [if_neg h6] at h
  by_cases h7 : (id == lit "linkEscape" || id == lit "le") = true
  · rw [if_pos h7] at h; simp only [Option.some.injEq] at h; exact escMod_clean _ _ _ _ _ h
  rw [if_neg h7] at h
  by_cases h8 : (id == lit "urlEncode" || id == lit "ue") = true
  · rw [if_pos h8] at h; simp only [Option.some.injEq] at h; exact escMod_clean _ _ _ _ _ h
  rw [if_neg h8] at h
  by_cases h9 : (id == lit "attrEscape" || id == lit "ae") = true
  · rw [if_pos h9] at h; simp only [Option.some.injEq] at h; exact escMod_clean _ _ _ _ _ h
  rw [if_neg h9] at h
  by_cases h10 : (id == lit "cssEscape" || id == lit "ce") = true
  · rw [if_pos h10] at h; simp only [Option.some.injEq] at h; exact escMod_clean _ _ _ _ _ h
  rw [if_neg h10] at h
  by_cases h11 : (id == lit "jsEscape" || id == lit "jse") = true
  · rw [if_pos h11] at h; simp only [Option.some.injEq] at h; exact escMod_clean _ _ _ _ _ h
  rw [if_neg h11] at h
  by_cases h12 : (id == lit "vcat") = true
  · rw [if_pos h12] at h; simp at h
  rw [if_neg h12] at h
  by_cases h13 : (id == lit "vdefer" || id == lit "vacquire") = true
  · rw [if_pos h13] at h; simp at h
  rw [if_neg h13] at h
  by_cases h14 : (id == lit "vfail") = true
  · rw [if_pos h14] at h; simp at h; subst h; simp
  rw [if_neg h14] at h
  cases h

theorem runMods_clean (c : Ctx) (raw : Val) (mods : List Mod) (h : OK c.err) : OK (runMods c raw mods).2.err := by
  induction mods generalizing c raw with
  | nil => simpa [runMods]
  | cons m rest ih =>
    rw [runMods]
    simp only
    cases ha : applyMod (collectArgs c m.args).2 m.id raw (collectArgs c m.args).1 with
    | none => simp [OK]
    | some p =>
      obtain ⟨r, c2⟩ := p
      cases r with
      | error e =>
        simp only
        unfold applyMod at ha
        cases hm : modValue m.id raw (collectArgs c m.args).1 with
        | none => simp [hm] at ha
        | some r' =>
          simp only [hm, Option.map_some, Option.some.injEq, Prod.mk.injEq] at ha
          obtain ⟨h1, _⟩ := ha
          subst h1
          exact OK_some (modValue_clean _ _ _ _ hm)
      | ok v => simp only; exact ih _ _ (by simp)

theorem nodeCmp_clean (c : Ctx) (l r : Bytes) (sl sr : Bool) (o : Op) (h : OK c.err) :
    OK (nodeCmp c l r sl sr o).2.1 ∧ OK (nodeCmp c l r sl sr o).2.2.err := by
  unfold nodeCmp
  split
  · exact ⟨by simp [OK], h⟩
  · split
    · exact ⟨by simp, cmp_clean _ _ _ _⟩
    · split
      · exact ⟨by simp, cmp_clean _ _ _ _⟩
      · simp only
        split
        · exact ⟨by simp, get_clean _ _⟩
        · split
          · exact ⟨by simp [OK], get_clean _ _⟩
          · exact ⟨by simp, cmp_clean _ _ _ _⟩

theorem evalPrint_clean (c : Ctx) (path : Bytes) (mods : List Mod) :
    OK (evalPrint c path mods).1.err ∧ ∀ e, (evalPrint c path mods).2 = .stop e → OK e := by
  unfold evalPrint
  simp only
  have hg := get_clean c path
  split
  · rename_i e he
    refine ⟨hg, ?_⟩
    intro e' h'
    simp only [PrintOut.stop.injEq] at h'
    subst h'
    rw [← he]; exact hg
  · have hr := runMods_clean (c.get path).2 (c.get path).1 mods hg
    split
    · exact ⟨hr, by intro e' h'; simp only [PrintOut.stop.injEq] at h'; subst h'; simp⟩
    · split
      · exact ⟨hr, by intro e' h'; simp only [PrintOut.stop.injEq] at h'; subst h'; simp⟩
      · split
        · exact ⟨hr, by intro e' h'; simp only [PrintOut.stop.injEq] at h'; subst h'; simp [OK]⟩
        · split
          · exact ⟨hr, by intro e' h'; simp only [PrintOut.stop.injEq] at h'; subst h'; simp⟩
          · exact ⟨hr, by intro e' h'; cases h'⟩


theorem ctxAssign_err (c : Ctx) (var : Bytes) (raw : Val) (k : InsKind) : (ctxAssign c var raw k).err = c.err := by
  unfold ctxAssign
  split
  · split <;> rfl
  · rfl

theorem ctxNode_clean (c : Ctx) (cs : CtxSpec) (h : OK c.err) :
    OK (ctxNode c cs).1.err ∧ OK (ctxNode c cs).2 := by
  unfold ctxNode
  split
  · refine ⟨?_, by simp⟩
    split <;> simpa
  · split
    · exact ⟨h, by simp [OK]⟩
    · simp only
      have hg := get_clean c cs.src
      split
      · rename_i e he
        exact ⟨hg, by rw [← he]; exact hg⟩
      · have hr := runMods_clean (c.get cs.src).2 (c.get cs.src).1 cs.mods hg
        split
        · rename_i e he
          exact ⟨hr, by rw [← he]; exact hr⟩
        · split
          · refine ⟨?_, by simp⟩
            split
            · exact hr
            · simpa using hr
          · refine ⟨?_, by simp⟩
            rw [ctxAssign_err]
            split
            · exact hr
            · simpa using hr

theorem counterNode_clean (c : Ctx) (cs : CntrSpec) (h : OK c.err) :
    OK (counterNode c cs).1.err ∧ OK (counterNode c cs).2 := by
  unfold counterNode
  split
  · exact ⟨by simpa, by simp⟩
  · simp only
    have hg := get_clean c cs.var
    split
    · rename_i e he
      exact ⟨hg, by rw [← he]; exact hg⟩
    · exact ⟨by simpa using hg, by simp⟩

/-- What a condition may hand back. -/
def OKCond (o : CondOut) : Prop :=
  match o with
  | .stop e => e ≠ .outOfFuel
  | .branch _ pending => OK pending

theorem OK_of_eq {o : Option Err} {e : Err} (h : OK o) (he : o = some e) : e ≠ .outOfFuel := by
  intro hh; subst hh; exact h he

theorem evalCond_clean (c : Ctx) (cd : CondSpec) (h : OK c.err) :
    OK (evalCond c cd).1.err ∧ OKCond (evalCond c cd).2 := by
  unfold evalCond
  split
  · simp only
    have hc : OK (collectHlpArgs c.clrErr cd.hlpArg).2.err := collectHlpArgs_clean _ _ (by simp [Ctx.clrErr])
    split
    · exact ⟨hc, by simp [OKCond]⟩
    · split
      · rename_i e he
        exact ⟨hc, OK_of_eq hc he⟩
      · exact ⟨hc, by simp [OKCond]⟩
  · split
    · split
      · exact ⟨h, by simp [OKCond]⟩
      · simp only
        have hl := cmpLC_clean c (by assumption : Arg).val cd.op cd.r
        split
        · rename_i e he
          exact ⟨hl, OK_of_eq hl he⟩
        · exact ⟨hl, by simp [OKCond]⟩
    · simp only
      have hn := nodeCmp_clean c cd.l cd.r cd.staticL cd.staticR cd.op h
      split
      · rename_i e he
        exact ⟨hn.2, OK_of_eq hn.2 he⟩
      · exact ⟨hn.2, hn.1⟩

theorem condOKAssign_err (c : Ctx) (k : CondOKSpec) (v : Val) (okv : Bool) : (condOKAssign c k v okv).err = c.err := rfl

theorem evalCondOK_clean (c : Ctx) (k : CondOKSpec) (h : OK c.err) :
    OK (evalCondOK c k).1.err ∧ OKCond (evalCondOK c k).2 := by
  unfold evalCondOK
  split
  · exact ⟨h, by simp [OKCond]⟩
  · simp only
    have hc : OK (collectHlpArgs c k.cd.hlpArg).2.err := collectHlpArgs_clean _ _ h
    split
    · exact ⟨hc, by simp [OKCond]⟩
    · split
      · exact ⟨by rw [condOKAssign_err]; exact hc, by simp [OKCond]⟩
      · have hn := nodeCmp_clean (condOKAssign (collectHlpArgs c k.cd.hlpArg).2 k
            ((by assumption : List Val → Val × Bool) (collectHlpArgs c k.cd.hlpArg).1).1
            ((by assumption : List Val → Val × Bool) (collectHlpArgs c k.cd.hlpArg).1).2)
            k.cd.l k.cd.r k.cd.staticL k.cd.staticR k.cd.op (by rw [condOKAssign_err]; exact hc)
        exact ⟨hn.2, hn.1⟩

theorem evalCase_clean (c : Ctx) (arg : Bytes) (k : CaseSpec) (h : OK c.err) :
    OK (evalCase c arg k).1.err ∧ OKCond (evalCase c arg k).2 := by
  unfold evalCase
  split
  · split
    · exact ⟨cmp_clean _ _ _ _, by simp [OKCond]⟩
    · simp only
      split
      · exact ⟨get_clean _ _, by simp [OKCond]⟩
      · split
        · exact ⟨get_clean _ _, by simp [OKCond]⟩
        · exact ⟨cmp_clean _ _ _ _, by simp [OKCond]⟩
  · split
    · simp only
      have hc : OK (collectHlpArgs c.clrErr k.hlpArg).2.err := collectHlpArgs_clean _ _ (by simp [Ctx.clrErr])
      split
      · exact ⟨hc, by simp [OKCond]⟩
      · split
        · rename_i e he
          exact ⟨hc, OK_of_eq hc he⟩
        · exact ⟨hc, by simp [OKCond]⟩
    · simp only
      have hn := nodeCmp_clean c k.l k.r k.staticL k.staticR k.op h
      split
      · rename_i e he
        exact ⟨hn.2, OK_of_eq hn.1 he⟩
      · split
        · rename_i e he
          exact ⟨hn.2, OK_of_eq hn.2 he⟩
        · exact ⟨hn.2, by simp [OKCond]⟩


/-! ### Writes, sequencing, loops -/

/-- A state whose `ctx.Err` is not `outOfFuel`. -/
def SOK (s : St) : Prop := OK s.c.err
/-- A result that neither returns `outOfFuel` nor leaves it in `ctx.Err`. -/
def ROK (r : Res) : Prop := OK r.err ∧ OK r.st.c.err

theorem ok_ROK (s : St) (h : SOK s) : ROK (ok s) := ⟨by simp [ok], h⟩
theorem fail_ROK (s : St) (e : Err) (h : SOK s) (he : e ≠ .outOfFuel) : ROK (fail s e) := ⟨OK_some he, h⟩

theorem write_ROK (s : St) (p : Bytes) (h : SOK s) : ROK (s.write p) := by
  unfold St.write
  split
  · exact ok_ROK _ h
  · exact fail_ROK _ _ h (by simp)

theorem andThen_ROK (r : Res) (k : St → Res) (hr : ROK r) (hk : ∀ st, SOK st → ROK (k st)) : ROK (r.andThen k) := by
  unfold Res.andThen
  split
  · exact hr
  · exact hk _ hr.2

theorem tplWrites_ROK (s : St) (pre t suf : Bytes) (noesc : Bool) (h : SOK s) : ROK (tplWrites s pre t suf noesc) := by
  unfold tplWrites
  apply andThen_ROK
  · split
    · exact ok_ROK _ h
    · exact write_ROK _ _ h
  · intro s1 h1
    apply andThen_ROK
    · exact write_ROK _ _ h1
    · intro s2 h2
      split
      · exact ok_ROK _ h2
      · exact write_ROK _ _ h2

theorem iterAfterBody_SOK (rb : Res) (h : ROK rb) : SOK (iterAfterBody rb).st := by
  unfold iterAfterBody
  simp only
  split
  · rename_i e he
    -- abort: `ctx.Err` := the body's own (non-sentinel) error
    show OK (some e)
    split at he
    · split at he
      · cases he
      · simp only [Option.some.injEq] at he; subst he
        rename_i e' hre _
        exact fun hh => h.1 (by rw [hre]; exact hh)
    · cases he
  · split
    · exact h.2
    · exact h.2

theorem sepWrite_ROK (n : Nat) (sep : Bytes) (s : St) (h : SOK s) : ROK (sepWrite n sep s) := by
  unfold sepWrite
  split
  · exact write_ROK _ _ h
  · exact ok_ROK _ h

theorem rloopLoop_SOK (run : St → Res) (hrun : ∀ s, SOK s → ROK (run s)) (ls : RLoopSpec) :
    ∀ (items : List (Bytes × Val × InsKind)) (n : Nat) (s : St), SOK s → SOK (rloopLoop run ls items n s).st := by
  intro items
  induction items with
  | nil => intro n s h; rw [rloopLoop]; exact h
  | cons it rest ih =>
    intro n s h
    obtain ⟨k, v, ik⟩ := it
    rw [rloopLoop]
    simp only
    have h0 : SOK (rIterStart ls k v ik s) := by
      unfold rIterStart SOK
      simp only
      split <;> simpa [SOK] using h
    have hs := sepWrite_ROK n ls.sep _ h0
    split
    · rename_i e he
      show OK (some e)
      rw [← he]; exact hs.1
    · have hb := iterAfterBody_SOK _ (hrun _ hs.2)
      split
      · rename_i st hst; rw [hst] at hb; exact hb
      · rename_i st hst; rw [hst] at hb; exact hb
      · rename_i st hst; rw [hst] at hb; exact ih _ _ hb

theorem elseSeq_ROK : ∀ (l : List (St → Res)) (s : St), (∀ r ∈ l, ∀ st, SOK st → ROK (r st)) → SOK s → ROK (elseSeq l s) := by
  intro l
  induction l with
  | nil => intro s _ h; rw [elseSeq]; exact ok_ROK _ h
  | cons r rest ih =>
    intro s hl h
    rw [elseSeq]
    have hr := hl r (List.mem_cons_self) s h
    split
    · exact hr
    · apply ih
      · intro r' hr' st hst; exact hl r' (List.mem_cons_of_mem _ hr') st hst
      · simp [SOK]

theorem elseRun_ROK (run : St → Res) (ne : Bool) (s : St) (hrun : ∀ st, SOK st → ROK (run st)) (h : SOK s) :
    ROK (elseRun run ne s) := by
  unfold elseRun
  simp only
  have hr := hrun s h
  split
  · rename_i e he
    refine ⟨by simp [ok], ?_⟩
    show OK (some e)
    rw [← he]; exact hr.1
  · refine ⟨by simp [ok], ?_⟩
    simp only [ok]
    split
    · simp
    · exact hr.2

/-- The optional else-branch runner is good. -/
def ElseOK (re : Option (St → Res)) : Prop := ∀ f, re = some f → ∀ st, SOK st → ROK (f st)

theorem afterLoop_ROK (re : Option (St → Res)) (r : LoopRes) (sE : St) (hre : ElseOK re) (hr : SOK r.st) (hE : SOK sE) :
    ROK (afterLoop re r sE) := by
  unfold afterLoop
  split
  · exact ok_ROK _ hr
  · split
    · split
      · rename_i f; exact hre f rfl _ hE
      · exact ok_ROK _ hE
    · exact ok_ROK _ hE

theorem rloopWith_ROK (run : St → Res) (re : Option (St → Res)) (ls : RLoopSpec) (s : St)
    (hrun : ∀ s, SOK s → ROK (run s)) (hre : ElseOK re) (h : SOK s) : ROK (rloopWith run re ls s) := by
  unfold rloopWith
  split
  · exact ok_ROK _ h
  · split
    · split
      · rename_i f; exact hre f rfl _ h
      · exact ok_ROK _ h
    · simp only
      apply afterLoop_ROK _ _ _ hre
      · exact rloopLoop_SOK run hrun _ _ _ _ h
      · simp [SOK]

theorem rloopQB_ROK (run : St → Res) (re : Option (St → Res)) (ls : RLoopSpec) (s : St)
    (hrun : ∀ s, SOK s → ROK (run s)) (hre : ElseOK re) : ROK (rloopQB run re ls s) := by
  unfold rloopQB
  split
  · exact ⟨by simp [ok], by simp [ok, OK]⟩
  · exact rloopWith_ROK run re _ _ hrun hre (by simp [SOK])

theorem loopNode_ROK (loop : St → Res) (s : St) (hl : ∀ s, SOK s → ROK (loop s)) (h : SOK s) : ROK (loopNode loop s) := by
  unfold loopNode
  simp only
  have hr := hl { s with c := { s.c with brkD := 0 } } h
  split
  · rename_i e he
    exact ⟨hr.1, hr.2⟩
  · split
    · rename_i e he
      have hne : e ≠ .outOfFuel := by
        intro hh; subst hh; exact hr.2 he
      unfold loopErrRes
      split
      · exact ⟨OK_some hne, by simp [fail]⟩
      · exact ⟨OK_some hne, by simp only [fail]; rw [he]; exact OK_some hne⟩
    · exact ⟨hr.1, hr.2⟩

end Clean
end DyntplV
