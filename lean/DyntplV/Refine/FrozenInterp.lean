import DyntplV.Impl
/-! After a failed write nothing more is written: once the writer is dead (its fault position was reached)
    every later Write call fails as well, so the accepted output is frozen — through `writeTree / writeSeq /
    writeNode / switchNode` and the loops. (Same shape as HistInterp: a preorder between the state before and
    after a piece; here on the writer.) -/
namespace DyntplV.Frozen
open DyntplV

/-- The writer's fault position has been reached: this and every later Write call fails. -/
def Dead (w : Writer) : Prop := ∃ k, w.failAt = some k ∧ k ≤ w.writes + 1

/-- `w'` comes after `w`: if `w` was dead, `w'` is dead too and holds the same accepted output. -/
def Frz (w w' : Writer) : Prop := Dead w → Dead w' ∧ w'.out = w.out

theorem Frz.refl (w : Writer) : Frz w w := fun h => ⟨h, rfl⟩
theorem Frz.trans {a b c : Writer} (h1 : Frz a b) (h2 : Frz b c) : Frz a c := by
  intro h; obtain ⟨hb, e1⟩ := h1 h; obtain ⟨hc, e2⟩ := h2 hb; exact ⟨hc, e2.trans e1⟩

def Mono (F : St → Res) : Prop := ∀ s, Frz s.w (F s).st.w
def MonoL (F : St → LoopRes) : Prop := ∀ s, Frz s.w (F s).st.w

theorem Mono.andThen {F K : St → Res} (hF : Mono F) (hK : Mono K) : Mono (fun s => (F s).andThen K) := by
  intro s
  unfold Res.andThen
  cases h : (F s).err with
  | some e => simp only [h]; exact hF s
  | none => simp only [h]; exact (hF s).trans (hK _)

theorem write_mono (p : Bytes) (s : St) : Frz s.w (s.write p).st.w := by
  intro hd
  obtain ⟨k, hk, hle⟩ := hd
  unfold St.write Writer.write
  simp only [hk]
  have : k ≤ s.w.writes + 1 := hle
  simp only [this, if_true]
  refine ⟨⟨k, ?_, ?_⟩, rfl⟩
  · show some k = some k; rfl
  · show k ≤ s.w.writes + 1 + 1; omega

theorem clrErrIf_mono (b : Bool) (s : St) : Frz s.w (clrErrIf b s).w := by
  unfold clrErrIf; split <;> exact Frz.refl _

theorem sepWrite_mono (n : Nat) (sep : Bytes) (s : St) : Frz s.w (sepWrite n sep s).st.w := by
  unfold sepWrite; split
  · exact write_mono _ s
  · exact Frz.refl _

theorem tplWrites_mono (pre t suf : Bytes) (noesc : Bool) (s : St) : Frz s.w (tplWrites s pre t suf noesc).st.w := by
  have key : Mono (fun s' : St =>
      ((if pre.isEmpty then ok s' else s'.write (regionEscape s.c pre)).andThen fun s1 =>
       (s1.write (if noesc then t else regionEscape s.c t)).andThen fun s2 =>
       if suf.isEmpty then ok s2 else s2.write (regionEscape s.c suf))) := by
    apply Mono.andThen
    · intro s'; show Frz s'.w (if pre.isEmpty then ok s' else s'.write (regionEscape s.c pre)).st.w
      split
      · exact Frz.refl _
      · exact write_mono _ s'
    · apply Mono.andThen
      · intro s'; exact write_mono _ s'
      · intro s'; show Frz s'.w (if suf.isEmpty then ok s' else s'.write (regionEscape s.c suf)).st.w
        split
        · exact Frz.refl _
        · exact write_mono _ s'
  exact key s

theorem iterAfterBody_mono (rb : Res) : Frz rb.st.w (iterAfterBody rb).st.w := by
  unfold iterAfterBody
  cases rb.err with
  | none => simp only; split <;> exact Frz.refl _
  | some e =>
    by_cases hs : isSentinel e = true
    · simp only [hs, if_true]; split <;> exact Frz.refl _
    · simp only [hs, Bool.false_eq_true, if_false]; exact Frz.refl _

theorem IterOut.st_abort (s : St) : (IterOut.abort s).st = s := rfl
theorem IterOut.st_stop (s : St) : (IterOut.stop s).st = s := rfl
theorem IterOut.st_next (s : St) : (IterOut.next s).st = s := rfl

theorem rloopLoop_mono (run : St → Res) (hrun : Mono run) (ls : RLoopSpec) :
    ∀ (items : List (Bytes × Val × InsKind)) (n : Nat), MonoL (fun s => rloopLoop run ls items n s) := by
  intro items
  induction items with
  | nil => intro n s; exact Frz.refl _
  | cons it rest ih =>
    intro n s
    obtain ⟨kk, v, ik⟩ := it
    show Frz s.w (rloopLoop run ls ((kk, v, ik) :: rest) n s).st.w
    rw [rloopLoop]
    have h0 : Frz s.w (rIterStart ls kk v ik s).w := by
      unfold rIterStart; split <;> exact Frz.refl _
    have h1 := h0.trans (sepWrite_mono n ls.sep (rIterStart ls kk v ik s))
    generalize sepWrite n ls.sep (rIterStart ls kk v ik s) = rs at h1
    cases rs.err with
    | some e => exact h1.trans (Frz.refl _)
    | none =>
      simp only
      have h2 := (h1.trans (hrun rs.st)).trans (iterAfterBody_mono (run rs.st))
      cases hio : iterAfterBody (run rs.st) with
      | abort st => rw [hio] at h2; exact h2
      | stop st => rw [hio] at h2; exact h2
      | next st => rw [hio] at h2; exact h2.trans (ih (n+1) st)

theorem cloopLoop_mono (run : St → Res) (hrun : Mono run) (ls : CLoopSpec) :
    ∀ (f : Nat) (v lim : Int) (n : Nat), MonoL (fun s => cloopLoop run ls f v lim n s) := by
  intro f
  induction f with
  | zero => intro v lim n s; exact Frz.refl _
  | succ f ih =>
    intro v lim n s
    show Frz s.w (cloopLoop run ls (f+1) v lim n s).st.w
    rw [cloopLoop]
    cases loopAllows ls.condOp v lim with
    | none => exact Frz.refl _
    | some b =>
      cases b with
      | false => exact Frz.refl _
      | true =>
        simp only
        have h0 : Frz s.w ({ s with c := s.c.setStatic ls.cnt (Val.int v) } : St).w := Frz.refl _
        have h1 := h0.trans (sepWrite_mono n ls.sep { s with c := s.c.setStatic ls.cnt (Val.int v) })
        generalize sepWrite n ls.sep { s with c := s.c.setStatic ls.cnt (Val.int v) } = rs at h1
        cases rs.err with
        | some e => exact h1.trans (Frz.refl _)
        | none =>
          simp only
          have h1' : Frz s.w (clrErrIf (decide (n > 0) && !ls.sep.isEmpty) rs.st).w := h1.trans (clrErrIf_mono _ _)
          generalize clrErrIf (decide (n > 0) && !ls.sep.isEmpty) rs.st = rs1 at h1'
          have h2 : Frz s.w (run { rs1 with c := { rs1.c with chQB := true } }).st.w :=
            (h1'.trans (Frz.refl _)).trans (hrun { rs1 with c := { rs1.c with chQB := true } })
          generalize run { rs1 with c := { rs1.c with chQB := true } } = rb0 at h2
          have h3 : Frz s.w ({ rb0 with st := { rb0.st with c := { rb0.st.c with chQB := rs1.c.chQB } } } : Res).st.w :=
            h2.trans (Frz.refl _)
          have h4 := h3.trans (iterAfterBody_mono { rb0 with st := { rb0.st with c := { rb0.st.c with chQB := rs1.c.chQB } } })
          split
          · cases hio : iterAfterBody { rb0 with st := { rb0.st with c := { rb0.st.c with chQB := rs1.c.chQB } } } with
            | abort st => rw [hio] at h4; exact h4
            | stop st => rw [hio] at h4; exact h4.trans (Frz.refl _)
            | next st =>
              rw [hio] at h4
              exact (h4.trans (Frz.refl _)).trans (ih _ _ _ { st with c := { st.c.setStatic ls.cnt (Val.int (stepVal ls.cntOp v)) with err := none } })
          · cases hio : iterAfterBody { rb0 with st := { rb0.st with c := { rb0.st.c with chQB := rs1.c.chQB } } } with
            | abort st => rw [hio] at h4; exact h4
            | stop st => exact h3.trans (Frz.refl _)
            | next st => exact h3.trans (Frz.refl _)

theorem elseSeq_mono : ∀ (runs : List (St → Res)), (∀ r ∈ runs, Mono r) → Mono (elseSeq runs)
  | [], _ => by intro s; unfold elseSeq; exact Frz.refl _
  | r :: rest, h => by
    have hr := h r (List.mem_cons_self)
    have ih := elseSeq_mono rest (fun r' hr' => h r' (List.mem_cons_of_mem _ hr'))
    intro s
    unfold elseSeq
    cases hx : (r s).err with
    | some e => simp only; exact hr s
    | none => simp only; exact ((hr s).trans (Frz.refl _)).trans (ih { (r s).st with c := { (r s).st.c with err := none } })

theorem elseRun_mono (run : St → Res) (hrun : Mono run) (ne : Bool) : Mono (elseRun run ne) := by
  intro s
  unfold elseRun
  simp only
  cases (run s).err with
  | some e => exact (hrun s).trans (Frz.refl _)
  | none => simp only; split
            · exact (hrun s).trans (Frz.refl _)
            · exact hrun s

theorem afterLoop_mono (runElse : Option (St → Res)) (helse : ∀ re, runElse = some re → Mono re)
    (c0 : Writer) (r : LoopRes) (sElse : St) (h1 : Frz c0 r.st.w) (h2 : Frz c0 sElse.w) :
    Frz c0 (afterLoop runElse r sElse).st.w := by
  unfold afterLoop
  split
  · exact h1
  · split
    · cases hel : runElse with
      | none => exact h2
      | some re => exact h2.trans (helse re hel sElse)
    · exact h2

theorem cloopWith_mono (run : St → Res) (hrun : Mono run) (runElse : Option (St → Res))
    (helse : ∀ re, runElse = some re → Mono re) (fuel : Nat) (ls : CLoopSpec) : Mono (cloopWith run runElse fuel ls) := by
  intro s
  unfold cloopWith cloopAfter
  have hb : Frz s.w ({ s with c := (loopBounds s.c ls).1 } : St).w := Frz.refl _
  cases (loopBounds s.c ls).2 with
  | none => exact hb
  | some p =>
    obtain ⟨cnt, lim⟩ := p
    simp only
    have hl := hb.trans (cloopLoop_mono run hrun ls fuel cnt lim 0 { s with c := (loopBounds s.c ls).1 })
    exact afterLoop_mono runElse helse s.w _ _ hl hl

theorem rloopWith_mono (run : St → Res) (hrun : Mono run) (runElse : Option (St → Res))
    (helse : ∀ re, runElse = some re → Mono re) (ls : RLoopSpec) : Mono (rloopWith run runElse ls) := by
  intro s
  unfold rloopWith
  cases splitDots ls.src with
  | nil => exact Frz.refl _
  | cons name sub =>
    simp only
    cases getVar s.c.vars name with
    | none =>
      simp only
      cases hel : runElse with
      | none => exact Frz.refl _
      | some re => exact helse re hel s
    | some vv =>
      simp only
      have hl := rloopLoop_mono run hrun ls (loopItems vv sub) 0 s
      exact afterLoop_mono runElse helse s.w _ _ hl (hl.trans (Frz.refl _))


theorem rloopQB_mono (run : St → Res) (hrun : Mono run) (runElse : Option (St → Res))
    (helse : ∀ re, runElse = some re → Mono re) (ls : RLoopSpec) : Mono (rloopQB run runElse ls) := by
  intro s
  unfold rloopQB
  cases cmpPath s.c.vars s.c.chQB ls.src with
  | none => exact Frz.refl _
  | some p => exact rloopWith_mono run hrun runElse helse { ls with src := p } { s with c := { s.c with err := none } }

theorem loopNode_mono (loop : St → Res) (hl : Mono loop) : Mono (loopNode loop) := by
  intro s
  unfold loopNode
  have h := (Frz.refl _ : Frz s.w ({ s with c := { s.c with brkD := 0 } } : St).w).trans (hl { s with c := { s.c with brkD := 0 } })
  simp only
  cases (loop { s with c := { s.c with brkD := 0 } }).err with
  | some e => exact h.trans (Frz.refl _)
  | none =>
    simp only
    cases (loop { s with c := { s.c with brkD := 0 } }).st.c.err with
    | none => exact h.trans (Frz.refl _)
    | some e => simp only; rw [loopErrRes_w]; exact h.trans (Frz.refl _)

theorem interp_mono (reg : Registry) : ∀ f : Nat,
    (∀ nodes, Mono (writeTree reg f nodes)) ∧
    (∀ nodes, Mono (writeSeq reg f nodes)) ∧
    (∀ n, Mono (writeNode reg f n)) ∧
    (∀ arg all cs, Mono (switchNode reg f arg all cs)) := by
  intro f
  induction f with
  | zero =>
    refine ⟨?_, ?_, ?_, ?_⟩
    · intro nodes s; rw [writeTree]; exact Frz.refl _
    · intro nodes s; rw [writeSeq]; exact Frz.refl _
    · intro n s; rw [writeNode]; exact Frz.refl _
    · intro a al cs s; rw [switchNode]; exact Frz.refl _
  | succ f ih =>
    obtain ⟨ihT, ihS, ihN, ihW⟩ := ih
    refine ⟨?_, ?_, ?_, ?_⟩
    · intro nodes s
      rw [writeTree]; simp only
      split
      · exact (ihS nodes s).trans (Frz.refl _)
      · exact ihS nodes s
    · intro nodes
      cases nodes with
      | nil => intro s; rw [writeSeq]; exact Frz.refl _
      | cons n rest =>
        intro s; rw [writeSeq]
        exact Mono.andThen (ihN n) (ihS rest) s
    · intro n
      cases n with
      | raw b => intro s; rw [writeNode]; exact write_mono _ s
      | tpl path mods noesc pre suf =>
        intro s; rw [writeNode]
        have h : Frz s.w s.w := Frz.refl _
        generalize evalPrint s.c path mods = ep
        obtain ⟨c2, o⟩ := ep
        cases o with
        | stop e => exact h
        | text t => exact h.trans (tplWrites_mono pre t suf noesc { s with c := c2 })
      | ctx cs => intro s; rw [writeNode]; exact Frz.refl _
      | counter cs => intro s; rw [writeNode]; exact Frz.refl _
      | condOK k child =>
        intro s; rw [writeNode]
        split
        · exact Frz.refl _
        · have h : Frz s.w s.w := Frz.refl _
          generalize evalCondOK s.c k = ec
          obtain ⟨c1, o⟩ := ec
          cases o with
          | stop e => exact h
          | branch r pending =>
            simp only
            cases (if r then child[0]? else child[1]?) with
            | none => exact h
            | some n => exact h.trans (ihN n { s with c := c1 })
      | cond cd child =>
        intro s; rw [writeNode]
        have h : Frz s.w s.w := Frz.refl _
        generalize evalCond s.c cd = ec
        obtain ⟨c1, o⟩ := ec
        cases o with
        | stop e => exact h
        | branch r pending =>
          simp only
          cases (if r then child[0]? else child[1]?) with
          | none => exact h
          | some n => exact h.trans (ihN n { s with c := c1 })
      | condTrue child => intro s; rw [writeNode]; exact ihS child s
      | condFalse child => intro s; rw [writeNode]; exact ihS child s
      | case_ k child => intro s; rw [writeNode]; exact ihS child s
      | default_ child => intro s; rw [writeNode]; exact ihS child s
      | cloop ls child =>
        intro s; rw [writeNode]
        apply loopNode_mono
        apply cloopWith_mono
        · exact ihS _
        · intro re hre
          rw [Option.map_eq_some_iff] at hre
          obtain ⟨a, _, rfl⟩ := hre
          exact elseRun_mono _ (elseSeq_mono _ (by intro r hr; simp only [List.mem_map] at hr; obtain ⟨n, _, rfl⟩ := hr; exact ihN n)) _
      | rloop ls child =>
        intro s; rw [writeNode]
        apply loopNode_mono
        apply rloopQB_mono
        · exact ihS _
        · intro re hre
          rw [Option.map_eq_some_iff] at hre
          obtain ⟨a, _, rfl⟩ := hre
          exact elseRun_mono _ (elseSeq_mono _ (by intro r hr; simp only [List.mem_map] at hr; obtain ⟨n, _, rfl⟩ := hr; exact ihN n)) _
      | brk d => intro s; rw [writeNode]; exact Frz.refl _
      | lbrk d => intro s; rw [writeNode]; exact Frz.refl _
      | cont => intro s; rw [writeNode]; exact Frz.refl _
      | switch arg child => intro s; rw [writeNode]; exact ihW arg child child s
      | incl names =>
        intro s; rw [writeNode]
        cases reg.getBKeys names with
        | none => exact Frz.refl _
        | some nodes =>
          simp only
          split
          · exact Frz.refl _
          · generalize writeTree reg f nodes { c := { s.c with incD := s.c.incD + 1 }, w := {} } = r
            unfold inclFinish
            cases r.err with
            | some e =>
              simp only
              split
              · exact Frz.refl _
              · exact write_mono r.st.w.out ({ s with c := { r.st.c with incD := r.st.c.incD - 1 } } : St)
            | none =>
              simp only
              exact write_mono r.st.w.out ({ s with c := { r.st.c with incD := r.st.c.incD - 1 } } : St)
      | exit => intro s; rw [writeNode]; exact Frz.refl _
      | jsonQ => intro s; rw [writeNode]; exact Frz.refl _
      | endJsonQ => intro s; rw [writeNode]; exact Frz.refl _
      | htmlE => intro s; rw [writeNode]; exact Frz.refl _
      | endHtmlE => intro s; rw [writeNode]; exact Frz.refl _
      | urlEnc => intro s; rw [writeNode]; exact Frz.refl _
      | endUrlEnc => intro s; rw [writeNode]; exact Frz.refl _
      | div => intro s; rw [writeNode]; exact Frz.refl _
      | unknown => intro s; rw [writeNode]; exact Frz.refl _
    · intro arg all cs
      cases cs with
      | nil =>
        intro s; rw [switchNode]
        cases all.find? Node.isDefault with
        | none => exact Frz.refl _
        | some d => exact ihN d s
      | cons ch rest =>
        intro s; rw [switchNode]
        cases ch.asCase with
        | none => exact ihW arg all rest s
        | some kk =>
          simp only
          have h : Frz s.w s.w := Frz.refl _
          generalize evalCase s.c arg kk = ec
          obtain ⟨c1, o⟩ := ec
          cases o with
          | stop e => exact h
          | branch r pending =>
            simp only
            cases r with
            | true => simp only [if_true]; exact ihN ch { s with c := c1 }
            | false => simp only [Bool.false_eq_true, if_false]; exact ihW arg all rest { s with c := c1 }

end DyntplV.Frozen
