import DyntplV.Basic
import DyntplV.Esc.Url
/-!
  Line-protocol driver: one request per line on stdin, one answer per line on stdout.
  Runs the *same* definitions the theorems are about.
-/
namespace DyntplV.Driver
open DyntplV

def hexVal (c : Char) : Option Nat :=
  if '0' ≤ c ∧ c ≤ '9' then some (c.toNat - 48)
  else if 'a' ≤ c ∧ c ≤ 'f' then some (c.toNat - 87)
  else if 'A' ≤ c ∧ c ≤ 'F' then some (c.toNat - 55)
  else none

/-- Hex token → bytes; `-` is the empty string. -/
def unhexStr (s : String) : Option Bytes :=
  if s == "-" then some [] else
  let rec go : List Char → List UInt8 → Option Bytes
    | [], acc => some acc.reverse
    | [_], _ => none
    | a :: b :: rest, acc =>
      match hexVal a, hexVal b with
      | some h, some l => go rest (UInt8.ofNat (h * 16 + l) :: acc)
      | _, _ => none
  go s.toList []

def hexChar (n : Nat) : Char := if n < 10 then Char.ofNat (48 + n) else Char.ofNat (87 + n)

def hexStr (b : Bytes) : String :=
  if b.isEmpty then "-" else
  String.ofList (b.flatMap (fun c => [hexChar (c.toNat / 16), hexChar (c.toNat % 16)]))

def optHex : Option Bytes → String
  | none => "!"
  | some b => hexStr b

def boolStr (b : Bool) : String := if b then "1" else "0"

/-- Answer one request line. -/
def answer (line : String) : String :=
  match (line.splitOn " ").filter (· ≠ "") with
  -- url <itr> <in> <goOut> → <modelOut> <wellFormed goOut> <unescapeN goOut>
  | ["url", n, i, o] =>
    match n.toNat?, unhexStr i, unhexStr o with
    | some n, some i, some o =>
      let dec := (List.range n).foldl (fun acc _ => acc.bind Url.queryUnescape) (some o)
      s!"{hexStr (Url.encodeN n i)} {boolStr (Url.wellFormed o)} {optHex dec}"
    | _, _, _ => "bad-op"
  | ["link", n, i, o] =>
    match n.toNat?, unhexStr i, unhexStr o with
    | some n, some i, some o => s!"{hexStr (Url.linkEscapeN n i)} {boolStr (Url.linkSafe o)}"
    | _, _, _ => "bad-op"
  | _ => "bad-op"

partial def loop (hin : IO.FS.Stream) (hout : IO.FS.Stream) : IO Unit := do
  let line ← hin.getLine
  if line.isEmpty then return ()
  let l := (line.dropRightWhile (fun c => c == '\n' || c == '\r'))
  hout.putStrLn (answer l)
  loop hin hout

def main : IO Unit := do
  let hin ← IO.getStdin
  let hout ← IO.getStdout
  loop hin hout
  hout.flush

end DyntplV.Driver
