import DyntplV.Basic
import DyntplV.Esc.Url
import DyntplV.Esc.Json
import DyntplV.Esc.Html
import DyntplV.Esc.Js
import DyntplV.DriverR
import DyntplV.DriverC20
import DyntplV.DriverC04
import DyntplV.DriverC12
import DyntplV.DriverC06
import DyntplV.DriverAst
/-!
  Line-protocol driver: one request per line on stdin, one answer per line on stdout.
  Runs the *same* definitions the theorems are about.
-/
namespace DyntplV.Driver
open DyntplV

def hexVal (c : Char) : Option Nat :=
  if '0' ≤ c ∧ c ≤ '9' then some (c.toNat - 48)
  else if 'a' ≤ c ∧ c ≤ 'f' then some (c.toNat - 87)
  else if 'A' ≤ c ∧ c ≤ 'F' then some (c.toNat - 55)
  else none

/-- Hex token → bytes; `-` is the empty string. -/
def unhexStr (s : String) : Option Bytes :=
  if s == "-" then some [] else
  let rec go : List Char → List UInt8 → Option Bytes
    | [], acc => some acc.reverse
    | [_], _ => none
    | a :: b :: rest, acc =>
      match hexVal a, hexVal b with
      | some h, some l => go rest (UInt8.ofNat (h * 16 + l) :: acc)
      | _, _ => none
  go s.toList []

def hexChar (n : Nat) : Char := if n < 10 then Char.ofNat (48 + n) else Char.ofNat (87 + n)

def hexStr (b : Bytes) : String :=
  if b.isEmpty then "-" else
  String.ofList (b.flatMap (fun c => [hexChar (c.toNat / 16), hexChar (c.toNat % 16)]))

def optHex : Option Bytes → String
  | none => "!"
  | some b => hexStr b

def boolStr (b : Bool) : String := if b then "1" else "0"

def iterOpt (n : Nat) (f : Bytes → Option Bytes) (b : Bytes) : Option Bytes :=
  (List.range n).foldl (fun acc _ => acc.bind f) (some b)

/-- code points / code units as dot-separated decimals; `-` empty, `!` none -/
def natsStr : Option (List Nat) → String
  | none => "!"
  | some [] => "-"
  | some l => ".".intercalate (l.map toString)

/-- n-fold rune-level decode: decode, re-encode as UTF-8 (from code points), decode … -/
def iterCp (n : Nat) (dec : Bytes → Option (List Nat)) (toBytes : List Nat → Bytes) (b : Bytes) : Option (List Nat) :=
  match n with
  | 0 => none
  | 1 => dec b
  | n+1 => match iterOpt n (fun x => (dec x).map toBytes) b with
    | none => none
    | some x => dec x

def utf16ToCps : List Nat → List Nat
  | [] => []
  | [x] => [x]
  | h :: l :: rest =>
    if 0xD800 ≤ h ∧ h ≤ 0xDBFF ∧ 0xDC00 ≤ l ∧ l ≤ 0xDFFF then
      (0x10000 + (h - 0xD800) * 1024 + (l - 0xDC00)) :: utf16ToCps rest
    else h :: utf16ToCps (l :: rest)

/-- Answer one request line. -/
def answer (line : String) : String :=
  let toks := (line.splitOn " ").filter (· ≠ "")
  match DriverR.answer toks with
  | some a => a
  | none =>
  match DriverC12.answer toks with
  | some a => a
  | none =>
  match DriverC06.answer toks with
  | some a => a
  | none =>
  match DriverC04.answer toks with
  | some a => a
  | none =>
  match DriverC20.answer toks with
  | some a => a
  | none =>
  match DriverAst.answer toks with
  | some a => a
  | none =>
  match toks with
  -- url <itr> <in> <goOut> → <modelOut> <wellFormed goOut> <unescapeN goOut>
  | ["url", n, i, o] =>
    match n.toNat?, unhexStr i, unhexStr o with
    | some n, some i, some o =>
      let dec := (List.range n).foldl (fun acc _ => acc.bind Url.queryUnescape) (some o)
      s!"{hexStr (Url.encodeN n i)} {boolStr (Url.wellFormed o)} {optHex dec}"
    | _, _, _ => "bad-op"
  -- json <itr> <in> <goOut> → <modelOut> <alphabetOK goOut> <unescapeN goOut>
  | ["json", n, i, o] =>
    match n.toNat?, unhexStr i, unhexStr o with
    | some n, some i, some o =>
      s!"{hexStr (Json.escapeN n i)} {boolStr (Json.alphabetOK o)} {optHex (iterOpt n Json.unescape o)}"
    | _, _, _ => "bad-op"
  -- jsonq <itr> <in> <goOut> → <modelOut> <quoted & alphabetOK body> <decoded body>
  | ["jsonq", _, i, o] =>
    match unhexStr i, unhexStr o with
    | some i, some o =>
      let body := o.tail.dropLast
      let quoted := o.head? == some 34 && o.getLast? == some 34 && o.length ≥ 2
      s!"{hexStr (Json.quote i)} {boolStr (quoted && Json.alphabetOK body)} {optHex (Json.unescape body)}"
    | _, _ => "bad-op"
  | ["html", n, i, o] =>
    match n.toNat?, unhexStr i, unhexStr o with
    | some n, some i, some o =>
      s!"{hexStr (Html.escapeN n i)} {boolStr (Html.alphabetOK o)} {optHex (iterOpt n Html.unescape o)}"
    | _, _, _ => "bad-op"
  | ["attr", n, i, o] =>
    match n.toNat?, unhexStr i, unhexStr o with
    | some n, some i, some o =>
      s!"{hexStr (Html.attrEscapeN n i)} {boolStr (Html.attrAlphabetOK o)} {optHex (iterOpt n Html.unescape o)}"
    | _, _, _ => "bad-op"
  -- js <itr> <in> <goOut> → <modelOut> <alphabetOK goOut> <code units of n-fold decode>
  | ["js", n, i, o] =>
    match n.toNat?, unhexStr i, unhexStr o with
    | some n, some i, some o =>
      let dec := iterCp n Js.jsDecode (fun us => utf8Encode (utf16ToCps us)) o
      s!"{hexStr (Js.jsEscapeN n i)} {boolStr (Js.alphabetOK o)} {natsStr dec}"
    | _, _, _ => "bad-op"
  | ["css", n, i, o] =>
    match n.toNat?, unhexStr i, unhexStr o with
    | some n, some i, some o =>
      let dec := iterCp n Js.cssDecode utf8Encode o
      s!"{hexStr (Js.cssEscapeN n i)} {boolStr (Js.cssAlphabetOK o)} {natsStr dec}"
    | _, _, _ => "bad-op"
  | ["link", n, i, o] =>
    match n.toNat?, unhexStr i, unhexStr o with
    | some n, some i, some o => s!"{hexStr (Url.linkEscapeN n i)} {boolStr (Url.linkSafe o)}"
    | _, _, _ => "bad-op"
  | _ => "bad-op"

partial def loop (hin : IO.FS.Stream) (hout : IO.FS.Stream) : IO Unit := do
  let line ← hin.getLine
  if line.isEmpty then return ()
  let l := (line.dropRightWhile (fun c => c == '\n' || c == '\r'))
  hout.putStrLn (answer l)
  loop hin hout

def main : IO Unit := do
  let hin ← IO.getStdin
  let hout ← IO.getStdout
  loop hin hout
  hout.flush

end DyntplV.Driver
