import DyntplV.Val
import DyntplV.Esc.Url
import DyntplV.Esc.Json
import DyntplV.Esc.Html
import DyntplV.Esc.Js
/-!
  Model of the tree-walking interpreter: `dyntpl.go` (`write`, `writeNode`, `nodeCmp`), `ctx.go`
  (`Set*`, `get`, `cmp`, `cmpLC`, `replaceQB`, `rloop`, `defer_`, `Reset`), `cloop.go`, `rloop.go`.
  Written to read like the Go code.  Every function is total; loops recurse on an explicit fuel.
-/
namespace DyntplV

inductive Err
  | tplNotFound | interrupt | breakLoop | contLoop
  | modNoArgs | modPoorArgs | modNoStr | condHlpNotFound | senseless
  | wrongLoopLim | wrongLoopCond | wrongLoopOp | unknownCtl | unknownType
  | writer | unknownInspector | unknownPool | userFail | unsupported | outOfFuel | incDepth
  | parse            -- strconv error passed on by a code-generated inspector's Compare
  deriving DecidableEq, Repr, Inhabited

/-- One variable slot: exactly one representation is live (after the repair of `Set*`). -/
inductive VarVal
  | ins (v : Val) (k : InsKind)    -- Set / SetStatic: value + inspector
  | bytes (b : Bytes)              -- SetBytes / SetString
  | cntr (n : Int)                 -- SetCounter
  deriving Repr, Inhabited

/-- Events observable by harness-registered modifiers and pools (C18). -/
inductive Event
  | deferReg (tag : Nat) | deferRan (tag : Nat)
  | acquire (tag : Nat) | release (tag : Nat)
  deriving DecidableEq, Repr, Inhabited

/-- Destination writer with fault injection: the `failAt`-th call (1-based) and every later one fail. -/
structure Writer where
  out : Bytes := []
  writes : Nat := 0
  failAt : Option Nat := none
  failed : Bool := false      -- ghost: some Write call has returned an error
  deriving Repr, Inhabited

/-- One `w.Write(p)` call: the new writer and whether the call succeeded. -/
def Writer.write (w : Writer) (p : Bytes) : Writer × Bool :=
  let n := w.writes + 1
  match w.failAt with
  | some k => if k ≤ n then ({ w with writes := n, failed := true }, false)
              else ({ w with out := w.out ++ p, writes := n }, true)
  | none => ({ w with out := w.out ++ p, writes := n }, true)

/-- The three bound tags. -/
inductive Bound where
  | json | html | url
  deriving DecidableEq, Repr, Inhabited

def Bound.esc : Bound → Bytes → Bytes
  | .json, p => Json.escape p
  | .html, p => Html.escape p
  | .url, p => Url.encode p

structure Ctx where
  vars : List (Bytes × VarVal) := []
  chQB : Bool := false
  bnd : List Bound := []            -- open bound tags (jsonquote / htmlescape / urlencode), the innermost first
  brkD : Nat := 0
  incD : Nat := 0                   -- depth of nested includes
  err : Option Err := none          -- ctx.Err
  dfr : List Nat := []              -- deferred function tags, in registration order
  ipv : List Nat := []              -- objects acquired from pools
  log : List Event := []
  deriving Repr, Inhabited

/-! ### Variables -/

def setVar (vars : List (Bytes × VarVal)) (k : Bytes) (v : VarVal) : List (Bytes × VarVal) :=
  match vars with
  | [] => [(k, v)]
  | (k', v') :: rest => if k' == k then (k, v) :: rest else (k', v') :: setVar rest k v

def getVar (vars : List (Bytes × VarVal)) (k : Bytes) : Option VarVal :=
  match vars with
  | [] => none
  | (k', v) :: rest => if k' == k then some v else getVar rest k

def Ctx.set (c : Ctx) (k : Bytes) (v : Val) (ins : InsKind) : Ctx := { c with vars := setVar c.vars k (.ins v ins) }
def Ctx.setStatic (c : Ctx) (k : Bytes) (v : Val) : Ctx := c.set k v .static
def Ctx.setBytes (c : Ctx) (k : Bytes) (b : Bytes) : Ctx := { c with vars := setVar c.vars k (.bytes b) }
def Ctx.setCounter (c : Ctx) (k : Bytes) (n : Int) : Ctx := { c with vars := setVar c.vars k (.cntr n) }

/-- `Ctx.Reset`: back to the state of `NewCtx()`; pooled objects are released (logged). -/
def Ctx.reset (c : Ctx) : Ctx :=
  { vars := [], log := c.log ++ c.ipv.map Event.release }

/-! ### Paths -/

def splitOn (sep : UInt8) : Bytes → List Bytes
  | [] => [[]]
  | c :: rest =>
    if c == sep then [] :: splitOn sep rest
    else match splitOn sep rest with
      | [] => [[c]]
      | h :: t => (c :: h) :: t

/-- `bytealg.AppendSplitString(buf, path, ".", -1)`: empty input gives no chunks. -/
def splitDots (p : Bytes) : List Bytes := if p.isEmpty then [] else splitOn 46 p

def indexOf (c : UInt8) : Bytes → Option Nat
  | [] => none
  | x :: rest => if x == c then some 0 else (indexOf c rest).map (· + 1)

abbrev Vars := List (Bytes × VarVal)

/-- Look a split path up in the variables (`get` after the `[i]` substitution). -/
def getChunks (vars : Vars) (chunks : List Bytes) : Val :=
  match chunks with
  | [] => .nil
  | name :: sub =>
    match getVar vars name with
    | none => .nil
    | some (.bytes b) => .bytes b            -- (repair: an EMPTY bytes variable is a value too, not "unset")
    | some (.cntr n) => .int n
    | some (.ins v k) => insGet k v sub

/-- The inspector's `GetTo` returns an error (`ctx.Err`, the value reads as nil): an index chunk that is not a number. -/
def getChunksErr (vars : Vars) (chunks : List Bytes) : Bool :=
  match chunks with
  | [] => false
  | name :: sub =>
    match getVar vars name with
    | some (.ins v k) => insGetErr k v sub
    | _ => false

/-- `Ctx.replaceQB` with a budget of bracket pairs: `a[i].b[j]` → `a.<text of i>.b.<text of j>` — every pair of the
    path, from left to right, each index looked up in the ORIGINAL text (repair: only the first pair used to be
    substituted, `m[i][j]` reached the inspector as `m.0[j]`). The text that is put in is not scanned again. -/
def replaceQBF : Nat → Vars → Bytes → Option Bytes
  | 0, _, path => some path
  | f+1, vars, path =>
    match indexOf 91 path, indexOf 93 path with
    | some l, some r =>
      if l < r then
        let inner := (path.drop (l + 1)).take (r - l - 1)
        let v := getChunks vars (splitDots inner)
        match v with
        | .nil => (replaceQBF f vars (path.drop (r + 1))).map (fun tl => path.take l ++ [46] ++ tl)
        | _ => match v.text with
          | some t => (replaceQBF f vars (path.drop (r + 1))).map (fun tl => path.take l ++ [46] ++ t ++ tl)
          | none => none            -- WriteX error: ctx.Err set, nil path
      else some path
    | _, _ => some path

/-- `Ctx.replaceQB` (only inside counter loops): a path has fewer bracket pairs than bytes. -/
def replaceQB (vars : Vars) (path : Bytes) : Option Bytes := replaceQBF path.length vars path

/-- What `Ctx.get` computes: a function of the variables and the square-bracket mode only. -/
def getCore (vars : Vars) (qb : Bool) (path : Bytes) : Val × Option Err :=
  if qb then
    match replaceQB vars path with
    | some p => if getChunksErr vars (splitDots p) then (.nil, some .parse) else (getChunks vars (splitDots p), none)
    | none => (.nil, some .unknownType)
  else if getChunksErr vars (splitDots path) then (.nil, some .parse) else (getChunks vars (splitDots path), none)

/-- `Ctx.get`: resets `Err` (and `bufX`), substitutes `[i]` inside counter loops, resolves the path. -/
def Ctx.get (c : Ctx) (path : Bytes) : Val × Ctx :=
  ((getCore c.vars c.chQB path).1, { c with err := (getCore c.vars c.chQB path).2 })

/-- What `Ctx.cmp` computes (repaired: the result buffer is reset first and a bytes variable is compared
    through its own buffer): a function of the variables only. -/
def cmpCore (vars : Vars) (path : Bytes) (o : Op) (right : Bytes) : Bool :=
  match splitDots path with
  | [] => false
  | name :: sub =>
    match getVar vars name with
    | none => false
    | some (.cntr n) => ((Val.int n).cmpLit o right).getD false
    | some (.bytes b) => ((Val.bytes b).cmpLit o right).getD false
    | some (.ins v k) => (insCompare k v sub o right).getD false

/-- The error `Ctx.cmp` leaves in `ctx.Err` (`ctx.Err = v.ins.Compare(...)`): a function of the variables only. -/
def cmpErrCore (vars : Vars) (path : Bytes) (o : Op) (right : Bytes) : Option Err :=
  match splitDots path with
  | [] => none
  | name :: sub =>
    match getVar vars name with
    | some (.ins v k) => if insCompareErr k v sub o right then some .parse else none
    | _ => none

/-- The path `Ctx.cmp` compares: inside counter loops the square-bracket index of the LEFT operand is substituted
    first, as `get` and `cmpLC` do (repair: `{% if a[i].f > 0 %}` compared the literal path `a[i]` and was always false). -/
def cmpPath (vars : Vars) (qb : Bool) (path : Bytes) : Option Bytes :=
  if qb then replaceQB vars path else some path

/-- `Ctx.cmp`: the error is reset (or set by the inspector), then the comparison. -/
def Ctx.cmp (c : Ctx) (path : Bytes) (o : Op) (right : Bytes) : Bool × Ctx :=
  (((cmpPath c.vars c.chQB path).map (fun p => cmpCore c.vars p o right)).getD false,
   { c with err := match cmpPath c.vars c.chQB path with
      | none => some .unknownType                       -- the index could not be written: `ctx.Err`, nil path
      | some p => cmpErrCore c.vars p o right })

/-- What `Ctx.cmpLC` computes: `len(x) op n` / `cap(x) op n`. -/
def cmpLCCore (vars : Vars) (qb : Bool) (path : Bytes) (o : Op) (right : Bytes) : Bool :=
  match (if qb then replaceQB vars path else some path) with
  | none => false
  | some p =>
    match splitDots p with
    | [] => false
    | name :: sub =>
      match getVar vars name with
      | some (.ins v k) => match insLength k v sub with
        | some n => ((Val.int n).cmpLit o right).getD false
        | none => false
      | some (.bytes b) =>
        -- bytes variable: its own buffer (repair); an empty one reads as nil: length 0
        ((Val.int b.length).cmpLit o right).getD false
      | some (.cntr _) => ((Val.int 0).cmpLit o right).getD false   -- static inspector on nil: length 0
      | none => false

def Ctx.cmpLC (c : Ctx) (path : Bytes) (o : Op) (right : Bytes) : Bool × Ctx :=
  (cmpLCCore c.vars c.chQB path o right, { c with err := none })

/-! ### Modifiers -/

/-- A collected modifier argument (`ctx.bufA`). -/
inductive ArgVal
  | pos (v : Val)
  | kv (k : Bytes) (v : Val)
  deriving Repr, Inhabited

def ArgVal.val : ArgVal → Val
  | .pos v => v
  | .kv _ v => v

/-- `printIterations`: first argument, when it is a bytes pointer holding a decimal — one pass at least (repair: a
    count of zero or less, which may come from the data, used to switch the escaping off). -/
def printIterations (args : List ArgVal) : Nat :=
  match args with
  | .pos (.bytes b) :: _ => match parseIntLit b with
    | some n => max 1 n.toNat
    | none => 1
  | _ => 1

/-- `ConvFloat`-free numeric class of the model for `EmptyCheck`: zero of any numeric kind. -/
def isZeroText (t : Bytes) : Bool := match parseDec t with
  | some d => d.m == 0
  | none => false

/-- `EmptyCheck`: nil, zero, false, zero length. -/
def emptyCheck : Val → Bool
  | .nil => true
  | .int v => v == 0
  | .uint v => v == 0
  | .float t => isZeroText t
  | .bool b => !b
  | .str s => s.isEmpty
  | .bytes s => s.isEmpty
  | .strs xs => xs.isEmpty
  -- (repair: containers of types no registered helper knows — a map without entries, a slice of structs without elements; nil ones are `.nil`)
  | .obj fs => fs.isEmpty
  | .list xs => xs.isEmpty
  | _ => false

def iterate (f : Bytes → Bytes) : Nat → Bytes → Bytes
  | 0, b => b
  | n+1, b => iterate f n (f b)

/-- Escape modifiers share one shape: text of the value, `itr` passes; empty text leaves the
    value untouched (the early `return nil` before `BufModOut`). -/
def escMod (f : Bytes → Bytes) (val : Val) (args : List ArgVal) (skipEmpty : Bool) : Except Err Val :=
  match val.text with
  | none => .error .modNoStr
  | some b => if skipEmpty && b.isEmpty then .ok val else .ok (.bytes (iterate f (printIterations args) b))

/-- Value computed by a modifier: built-ins and the harness-registered ones (`v…`). `none` = a modifier
    the model does not cover (the generators never emit it). -/
def modValue (id : Bytes) (val : Val) (args : List ArgVal) : Option (Except Err Val) :=
  if id == lit "default" || id == lit "def" then
    some (match args with
      | [] => .error .modNoArgs
      | a :: _ => .ok (if emptyCheck val then a.val else val))
  else if id == lit "ifThen" || id == lit "if" then
    some (match args with
      | [] => .error .modNoArgs
      | a :: _ => .ok (match val with | .bool true => a.val | _ => val))
  else if id == lit "ifThenElse" || id == lit "ifel" then
    some (match args with
      | a :: b :: _ => .ok (match val with | .bool true => a.val | .bool false => b.val | _ => val)
      | _ => .error .modPoorArgs)
  else if id == lit "jsonEscape" || id == lit "je" then some (escMod Json.escape val args true)
  else if id == lit "jsonQuote" || id == lit "jq" then
    some (match val.text with
      -- first pass fails: empty result, later passes quote it
      | none => .ok (.bytes (iterate Json.quote (printIterations args - 1) []))
      | some b => .ok (.bytes (iterate Json.quote (printIterations args) b)))
  else if id == lit "htmlEscape" || id == lit "he" then some (escMod Html.escape val args true)
  else if id == lit "linkEscape" || id == lit "le" then some (escMod Url.linkEscape val args true)
  else if id == lit "urlEncode" || id == lit "ue" then some (escMod Url.encode val args true)
  else if id == lit "attrEscape" || id == lit "ae" then some (escMod Html.attrEscape val args false)
  else if id == lit "cssEscape" || id == lit "ce" then some (escMod Js.cssEscape val args false)
  else if id == lit "jsEscape" || id == lit "jse" then some (escMod Js.jsEscape val args false)
  -- harness-registered: vcat(args…) appends "[a1,a2,k=v]" to the text of the value
  else if id == lit "vcat" then
    let showArg : ArgVal → Bytes := fun a => match a with
      | .pos v => (v.text.getD (lit "?"))
      | .kv k v => k ++ [61] ++ (v.text.getD (lit "?"))
    some (.ok (.bytes ((val.text.getD (lit "?")) ++ [91] ++ (lit ",").intercalate (args.map showArg) ++ [93])))
  -- vdefer(tag) / vacquire(tag): the value passes through
  else if id == lit "vdefer" || id == lit "vacquire" then some (.ok val)
  -- vfail(): always fails
  else if id == lit "vfail" then some (.error .userFail)
  else none

/-- Side effect of a modifier on the context: only the harness modifiers `vdefer(tag)` (registers a
    deferred function) and `vacquire(tag)` (takes an object from the harness pool) have one. -/
structure ModEff where
  dfr : List Nat := []
  ipv : List Nat := []
  log : List Event := []

def modEffect (id : Bytes) (args : List ArgVal) : ModEff :=
  let tag : Option Nat := match args with
    | a :: _ => (a.val.text.bind parseIntLit).map Int.toNat
    | [] => none
  match tag with
  | none => {}
  | some t =>
    if id == lit "vdefer" then { dfr := [t], log := [.deferReg t] }
    else if id == lit "vacquire" then { ipv := [t], log := [.acquire t] }
    else {}

def Ctx.applyEff (c : Ctx) (e : ModEff) : Ctx :=
  { c with dfr := c.dfr ++ e.dfr, ipv := c.ipv ++ e.ipv, log := c.log ++ e.log }

/-- One modifier call. -/
def applyMod (c : Ctx) (id : Bytes) (val : Val) (args : List ArgVal) : Option (Except Err Val × Ctx) :=
  (modValue id val args).map fun r => (r, c.applyEff (modEffect id args))

/-- Condition helpers: built-in `lenEq0 / lenGt0 / lenGtq0` and the harness-registered
    `veq(a, b)` (texts equal) and `vtrue()`. -/
def applyCondFn (id : Bytes) (args : List Val) : Option Bool :=
  let len : Val → Nat := fun v => match v with
    | .bytes s => s.length | .str s => s.length | .strs xs => xs.length | _ => 0
  if id == lit "lenEq0" then some (match args with | a :: _ => len a == 0 | [] => false)
  else if id == lit "lenGt0" then some (match args with | a :: _ => len a > 0 | [] => false)
  else if id == lit "lenGtq0" then some (match args with | _ :: _ => true | [] => false)
  else if id == lit "veq" then some (match args with | a :: b :: _ => a.text == b.text | _ => false)
  else if id == lit "vtrue" then some true
  else if id == lit "vfalse" then some false
  else none

/-- Condition-OK helpers: the harness-registered `vok(a, …)`: the text of its first argument, if that is
    non-empty, as a byte string, and whether it was. `none` = no such helper. -/
def applyCondOKFn (id : Bytes) : Option (List Val → Val × Bool) :=
  -- `vokmaybe` returns without touching its outputs when there is nothing to return; the outputs are reset before
  -- the call (repair: they used to keep the verdict of an earlier comparison), so that reads as (nil, false) too
  if id == lit "vok" || id == lit "vokmaybe" then
    some (fun args => match args with
      | a :: _ => (match a.text with
        | some t => if t.isEmpty then (.nil, false) else (.bytes t, true)
        | none => (.nil, false))
      | [] => (.nil, false))
  else none

/-! ### The interpreter -/

structure St where
  c : Ctx
  w : Writer
  deriving Repr, Inhabited

/-- Result of evaluating a node: new state and the `err` return value. -/
structure Res where
  st : St
  err : Option Err
  deriving Repr, Inhabited

def ok (st : St) : Res := ⟨st, none⟩
def fail (st : St) (e : Err) : Res := ⟨st, some e⟩

/-- Run `k` from the state of `r` unless `r` already carries an error. -/
def Res.andThen (r : Res) (k : St → Res) : Res :=
  match r.err with
  | some _ => r
  | none => k r.st

/-- A step that succeeded is followed by the error `e`; its own error wins. -/
def Res.orErr (r : Res) (e : Err) : Res := ⟨r.st, some (r.err.getD e)⟩

def St.write (s : St) (p : Bytes) : Res :=
  match s.w.write p with
  | (w, true) => ok { s with w := w }
  | (w, false) => fail { s with w := w } .writer

/-- Text written for static text or a printed value inside an escape region
    (`writeNode typeRaw`, the print node, loop separators — `Ctx.writeBound`): the escaping of every
    open bound tag is applied, the innermost first. -/
def regionEscape (c : Ctx) (p : Bytes) : Bytes :=
  c.bnd.foldl (fun acc b => b.esc acc) p

/-- The writes of a print node: prefix, value, suffix (prefix and suffix are escaped inside a region,
    the value too unless it is marked raw). The first failing write ends the node. -/
def tplWrites (s : St) (pre t suf : Bytes) (noesc : Bool) : Res :=
  let esc := fun (p : Bytes) => regionEscape s.c p
  (if pre.isEmpty then ok s else s.write (esc pre)).andThen fun s1 =>
  (s1.write (if noesc then t else esc t)).andThen fun s2 =>
  if suf.isEmpty then ok s2 else s2.write (esc suf)

/-- `typeInclude` after the nested render `r` into the scratch buffer: an error is passed on,
    otherwise the buffer is copied out with one write. -/
def inclFinish (s : St) (r : Res) : Res :=
  match r.err with
  | some e =>
    -- what the included template wrote before it ended by break / continue or by an error is output as well
    -- (repair: it used to be dropped, unlike the same source standing in place of the tag); a failing copy
    -- reports the writer's error
    -- (`outOfFuel` is the model's own error, not the engine's: it is passed on as it is and never masked)
    if r.st.w.out.isEmpty || e == .outOfFuel then ⟨{ s with c := r.st.c }, some e⟩
    else (({ s with c := r.st.c } : St).write r.st.w.out).orErr e
  | none => ({ s with c := r.st.c } : St).write r.st.w.out

/-- A `case` node's specification, if the node is one. -/
def Node.asCase : Node → Option CaseSpec
  | .case_ k _ => some k
  | _ => none

def Node.isDefault : Node → Bool
  | .default_ _ => true
  | _ => false

/-- Collect the arguments of one modifier call (`ctx.bufA`). -/
def collectArgs (c : Ctx) : List Arg → List ArgVal × Ctx
  | [] => ([], c)
  | a :: rest =>
    let (v, c1) : Val × Ctx :=
      if !a.name.isEmpty then (if a.static then (.bytes a.val, c) else c.get a.val)
      else if a.global then (.other, c)
      else if a.static then (.bytes a.val, c)
      else c.get a.val
    let (vs, c2) := collectArgs c1 rest
    ((if a.name.isEmpty then .pos v else .kv a.name v) :: vs, c2)

/-- The modifier loop of `typeTpl` / `typeCtx`: left fold, each step receives the previous result.
    Stops at the first failing modifier with `ctx.Err` set. -/
def runMods (c : Ctx) (raw : Val) : List Mod → Val × Ctx
  | [] => (raw, c)
  | m :: rest =>
    let (args, c1) := collectArgs c m.args
    match applyMod c1 m.id raw args with
    | none => (raw, { c1 with err := some .unsupported })
    | some (.error e, c2) => (raw, { c2 with err := some e })
    | some (.ok v, c2) => runMods { c2 with err := none } v rest

/-- `ctx.Err = nil`. -/
def Ctx.clrErr (c : Ctx) : Ctx := { c with err := none }

/-- Helper arguments (`condHlpArg` / `caseHlpArg`): static → the literal bytes, else `get`. -/
def collectHlpArgs (c : Ctx) : List Arg → List Val × Ctx
  | [] => ([], c)
  | a :: rest =>
    let (v, c1) : Val × Ctx := if a.static then (.bytes a.val, c) else c.get a.val
    let (vs, c2) := collectHlpArgs c1 rest
    (v :: vs, c2)

/-- `nodeCmp`: literal on the right / on the left (operator swapped) / two variables
    (right side rendered to text first). Returns result, error, context. -/
def nodeCmp (c : Ctx) (l r : Bytes) (sl sr : Bool) (o : Op) : Bool × Option Err × Ctx :=
  if sl && sr then (false, some .senseless, c)
  else if sr then let (b, c1) := c.cmp l o r; (b, none, c1)
  else if sl then let (b, c1) := c.cmp r o.swap l; (b, none, c1)
  else
    let (rv, c1) := c.get r
    match c1.err with
    | some _ => (false, none, c1)
    | none => match rv.text with
      | none => (false, some .unknownType, c1)
      | some t => let (b, c2) := c1.cmp l o t; (b, none, c2)

/-- A counter-loop bound given as text (`if2int` → `text2int`). -/
def textBound (s : Bytes) (c1 : Ctx) : Except Err Int × Ctx :=
  if s.isEmpty then (.ok 0, c1) else
  match parseInt64Lit s with
  | some n => (.ok n, c1)
  | none => (.error .wrongLoopLim, { c1 with err := some .wrongLoopLim })

/-- `cloopRange`: initial value / bound of a counter loop. -/
def cloopRange (c : Ctx) (static : Bool) (b : Bytes) : Except Err Int × Ctx :=
  if static then
    -- `r, ctx.Err = strconv.ParseInt(...)`: ctx.Err is overwritten either way
    match parseIntLit b with
    | some n => (.ok n, { c with err := none })
    | none => (.error .wrongLoopLim, { c with err := some .wrongLoopLim })
  else
    let (v, c1) := c.get b
    match c1.err with
    | some e => (.error e, c1)
    | none => match v with
      | .int n => (.ok n, c1)
      | .uint n => (.ok n, c1)
      -- text: empty is 0; text that is not an integer (or is out of range) is a wrong bound (repair: `text2int`;
      -- the 0 / MaxInt64 that ParseInt returns next to its error used to be taken for the bound)
      | .bytes s => textBound s c1
      | .str s => textBound s c1
      | _ => (.error .wrongLoopLim, { c1 with err := some .wrongLoopLim })

def loopAllows (o : Op) (v lim : Int) : Option Bool :=
  match o with
  | .lt => some (v < lim) | .ltq => some (v ≤ lim) | .gt => some (v > lim) | .gtq => some (v ≥ lim)
  | .eq => some (v == lim) | .nq => some (v != lim)
  | _ => none

/-- `ConvInt` on the current counter value (typeCounter). -/
def convInt : Val → Int
  | .int n => n
  | _ => 0

/-! ### Context-only parts of the node semantics -/

/-- Outcome of evaluating the value of a print tag. -/
inductive PrintOut
  | stop (e : Option Err)     -- return now with this error (`none`: nothing to print)
  | text (t : Bytes)          -- non-empty text to write
  deriving Repr, Inhabited

/-- `typeTpl` up to the point where bytes are written: lookup, modifier chain, emptiness, conversion. -/
def evalPrint (c : Ctx) (path : Bytes) (mods : List Mod) : Ctx × PrintOut :=
  let (raw, c1) := c.get path
  match c1.err with
  | some e => (c1, .stop (some e))
  | none =>
    let (raw, c2) := runMods c1 raw mods
    match c2.err with
    | some _ => (c2, .stop none)               -- a failing modifier silently ends this print
    | none =>
      if raw.isNilOrEmptyStr then (c2, .stop none) else
      match raw.text with
      | none => (c2, .stop (some .unknownType))
      | some t => if t.isEmpty then (c2, .stop none) else (c2, .text t)

/-- Emptiness of the source of a ctx assignment: nil, "", and (after the repair) empty strings / bytes
    behind pointers. -/
def srcEmpty (raw : Val) : Bool :=
  raw.isNilOrEmptyStr || (match raw with | .bytes b => b.isEmpty | .str s => s.isEmpty | _ => false)

/-- The assignment itself: byte strings are copied into a bytes variable, anything else is stored with
    the inspector. -/
def ctxAssign (c : Ctx) (var : Bytes) (raw : Val) (kind : InsKind) : Ctx :=
  match raw with
  | .bytes b => if b.isEmpty then c.set var raw kind else c.setBytes var b
  | _ => c.set var raw kind

/-- `typeCtx`. -/
def ctxNode (c : Ctx) (cs : CtxSpec) : Ctx × Option Err :=
  -- literal source: the variable, then the ok-flag (repair: the fast path used to skip the flag)
  if cs.srcStatic then
    ((if cs.ok.isEmpty then c.setBytes cs.var cs.src else (c.setBytes cs.var cs.src).setStatic cs.ok (.bool (!cs.src.isEmpty))), none) else
  -- GetInspector(var, ins): "static" unless a var-inspector pair is registered; other names fail
  if !(cs.ins == lit "static" || cs.ins == lit "TestObject" || cs.ins == lit "TestHistory" || cs.ins == lit "strings") then
    (c, some .unknownInspector)
  else
  let kind : InsKind := if cs.ins == lit "static" then .static else if cs.ins == lit "strings" then .strings else .obj
  let (raw, c1) := c.get cs.src
  match c1.err with
  | some e => (c1, some e)
  | none =>
    let (raw, c2) := runMods c1 raw cs.mods
    match c2.err with
    | some e => (c2, some e)
    | none =>
      let empty := srcEmpty raw
      let c3 := if cs.ok.isEmpty then c2 else c2.setStatic cs.ok (.bool (!empty))
      if empty then (c3, none) else (ctxAssign c3 cs.var raw kind, none)

/-- Two's-complement wrap-around of Go's `int` arithmetic. -/
def wrap64 (x : Int) : Int := (x + 9223372036854775808) % 18446744073709551616 - 9223372036854775808

/-- `typeCounter`. -/
def counterNode (c : Ctx) (cs : CntrSpec) : Ctx × Option Err :=
  if cs.initF then (c.setCounter cs.var cs.init, none) else
  let (raw, c1) := c.get cs.var
  match c1.err with
  | some e => (c1, some e)
  | none =>
    let cur := convInt raw
    let nv := if cs.op == .inc then cur + cs.opArg else cur - cs.opArg
    (c1.setCounter cs.var (wrap64 nv), none)

/-- Outcome of evaluating a condition. -/
inductive CondOut
  | stop (e : Err)                               -- return this error now
  | branch (r : Bool) (pending : Option Err)     -- take branch `r`; `pending` is returned if that branch is absent
  deriving Repr, Inhabited

/-- The three evaluation modes of `typeCond`. Helper-not-found / no-args errors and `ctx.Err` return at
    once; an error of `nodeCmp` is only kept in `err` and is overwritten by the result of the branch
    that runs (dyntpl.go: `r, err = t.nodeCmp(...)`). -/
def evalCond (c : Ctx) (cd : CondSpec) : Ctx × CondOut :=
  if !cd.hlp.isEmpty && cd.lc == 0 then
    -- the helper's verdict depends on its arguments only: `ctx.Err` is cleared first (repair — an error left by an
    -- earlier node used to abort a helper condition whose arguments are all literals)
    let (args, c1) := collectHlpArgs c.clrErr cd.hlpArg
    match applyCondFn cd.hlp args with
    | none => (c1, .stop .condHlpNotFound)
    | some b => match c1.err with
      | some e => (c1, .stop e)
      | none => (c1, .branch b none)
  else if !cd.hlp.isEmpty then
    match cd.hlpArg with
    | [] => (c, .stop .modNoArgs)
    | a :: _ =>
      let (b, c1) := c.cmpLC a.val cd.op cd.r
      match c1.err with
      | some e => (c1, .stop e)
      | none => (c1, .branch b none)
  else
    let (b, e, c1) := nodeCmp c cd.l cd.r cd.staticL cd.staticR cd.op
    match c1.err with
    | some e' => (c1, .stop e')
    | none => (c1, .branch b e)

/-- `ctx.Set(v, raw, ins); ctx.SetStatic(ok, ctx.BufB)` of the if-ok node. -/
def condOKAssign (c : Ctx) (k : CondOKSpec) (v : Val) (okv : Bool) : Ctx :=
  let kind : InsKind := if k.ins == lit "static" then .static else if k.ins == lit "strings" then .strings else .obj
  (c.set k.varV v kind).setStatic k.varOK (.bool okv)

/-- `typeCondOK` up to the choice of the branch: helper lookup (before anything else), arguments, the
    helper call, inspector lookup, the two assignments, and the optional trailing test (`!ok`). Neither the
    helper call nor the test looks at `ctx.Err`; an error of `nodeCmp` is pending like in `typeCond`. -/
def evalCondOK (c : Ctx) (k : CondOKSpec) : Ctx × CondOut :=
  match applyCondOKFn k.cd.hlp with
  | none => (c, .stop .condHlpNotFound)
  | some fn =>
    let (args, c1) := collectHlpArgs c k.cd.hlpArg
    let (v, okv) := fn args
    if !(k.ins == lit "static" || k.ins == lit "TestObject" || k.ins == lit "TestHistory" || k.ins == lit "strings") then
      (c1, .stop .unknownInspector)
    else
    let c2 := condOKAssign c1 k v okv
    if k.cd.r.isEmpty then (c2, .branch okv none)
    else
      let (b, e, c3) := nodeCmp c2 k.cd.l k.cd.r k.cd.staticL k.cd.staticR k.cd.op
      (c3, .branch b e)

/-- One `case` of a switch: `stop e` or `branch matched none`. -/
def evalCase (c : Ctx) (arg : Bytes) (k : CaseSpec) : Ctx × CondOut :=
  if !arg.isEmpty then
    -- classic switch: switchArg == caseL
    if k.staticL then let (b, c1) := c.cmp arg .eq k.l; (c1, .branch b none)
    else
      let (v, c1) := c.get k.l
      match c1.err with
      | some _ => (c1, .branch false none)
      | none => match v.text with
        | none => (c1, .stop .unknownType)
        | some t => let (b, c2) := c1.cmp arg .eq t; (c2, .branch b none)
  else if !k.hlp.isEmpty then
    let (args, c1) := collectHlpArgs c.clrErr k.hlpArg   -- (repair, as in `evalCond`)
    match applyCondFn k.hlp args with
    | none => (c1, .stop .condHlpNotFound)
    | some b => match c1.err with
      | some e => (c1, .stop e)
      | none => (c1, .branch b none)
  else
    let (b, e, c1) := nodeCmp c k.l k.r k.staticL k.staticR k.op
    match e with
    | some e => (c1, .stop e)
    | none => match c1.err with
      | some e => (c1, .stop e)
      | none => (c1, .branch b none)

def isSentinel (e : Err) : Bool := e == .breakLoop || e == .contLoop

/-- Result of the iteration part of a loop: iterations run, state, and whether the function returned
    early because of an error (then `ctx.Err` holds it). -/
structure LoopRes where
  n : Nat
  st : St
  abort : Bool
  deriving Inhabited

/-- `maxIncDepth` of dyntpl.go. -/
def maxIncDepth : Nat := 128

/-- Body and optional else-branch of a loop node (`child[0]` true-wrapper, `child[1]` false-wrapper;
    without an else the children are the body itself). -/
def loopParts (child : List Node) : List Node × Option (List Node) :=
  let body := match child with
    | .condTrue b :: _ => b
    | b => b
  let els := match child with
    | _ :: .condFalse e :: _ => some e
    | _ => none
  (body, els)

/-- What happens after the body of one loop iteration. -/
inductive IterOut
  | abort (s : St)     -- a real error: the loop function returns early, `ctx.Err` holds the error
  | stop (s : St)      -- a pending break depth was consumed: no further iteration
  | next (s : St)      -- go on with the next iteration
  deriving Inhabited

/-- The state carried by an outcome. -/
def IterOut.st : IterOut → St
  | .abort s => s
  | .stop s => s
  | .next s => s

/-- Decide from the result of the body (both loop kinds): break / continue sentinels are not errors;
    any other error aborts; a pending depth (set by break / lazybreak or left over by a child loop) ends
    this loop and is decremented — this loop is one of the loops to end. -/
def iterAfterBody (rb : Res) : IterOut :=
  let abortErr : Option Err := match rb.err with
    | some e => if isSentinel e then none else some e
    | none => none
  match abortErr with
  -- the loop ends here, so it takes its share of a pending depth with it (repair: `lazybreak` followed by `exit`
  -- in an included template used to leave the depth to the loops of the including template)
  | some e => .abort { rb.st with c := { rb.st.c with err := some e, brkD := rb.st.c.brkD - 1 } }
  | none =>
    if rb.st.c.brkD > 0 then .stop { rb.st with c := { rb.st.c with brkD := rb.st.c.brkD - 1 } }
    else .next rb.st

/-- Clear `ctx.Err` if `b`. -/
def clrErrIf (b : Bool) (s : St) : St := if b then { s with c := { s.c with err := none } } else s

/-- The separator write before every iteration but the first. -/
def sepWrite (n : Nat) (sep : Bytes) (s : St) : Res :=
  if n > 0 && !sep.isEmpty then s.write (regionEscape s.c sep) else ok s

/-- Next counter value. -/
def stepVal (o : Op) (v : Int) : Int := if o == .inc then v + 1 else v - 1

/-- The `for { … }` of `Ctx.cloop`, with the body given as a function. `abort` = the function
    returned early with `ctx.Err` set. The loop variable references the counter cell, so on every
    exit it reads the current value. -/
def cloopLoop (run : St → Res) (ls : CLoopSpec) : Nat → Int → Int → Nat → St → LoopRes
  | 0, _, _, n, s => ⟨n, { s with c := { s.c with err := some .outOfFuel } }, true⟩
  | f+1, v, lim, n, s =>
    match loopAllows ls.condOp v lim with
    | none => ⟨n, { s with c := { s.c.setStatic ls.cnt (.int v) with err := some .wrongLoopCond } }, false⟩
    | some false => ⟨n, { s with c := s.c.setStatic ls.cnt (.int v) }, false⟩
    | some true =>
      let s1 : St := { s with c := s.c.setStatic ls.cnt (.int v) }
      let rs := sepWrite n ls.sep s1
      match rs.err with
      | some e => ⟨n, { rs.st with c := { rs.st.c with err := some e } }, true⟩
      | none =>
        -- `ctx.Err = ctx.writeBound(w, sep)`: a separator that was written clears a stale `ctx.Err`
        let rs1 := clrErrIf (n > 0 && !ls.sep.isEmpty) rs.st
        -- body with the square-bracket check on; the previous mode is restored afterwards (repair)
        let qb := rs1.c.chQB
        let rb0 := run { rs1 with c := { rs1.c with chQB := true } }
        let rb : Res := { rb0 with st := { rb0.st with c := { rb0.st.c with chQB := qb } } }
        if ls.cntOp == .inc || ls.cntOp == .dec then
          let v' := stepVal ls.cntOp v
          -- an iteration that ended without an error of its own clears what a tag of its body merely LEFT in
          -- `ctx.Err` (repair: a modifier that failed in a print tag is not fatal, but the loop node used to return
          -- its error after the last iteration, and a loop around this one ended after one iteration)
          match iterAfterBody rb with
          | .abort st => ⟨n+1, st, true⟩
          | .stop st => ⟨n+1, { st with c := { st.c.setStatic ls.cnt (.int v') with err := none } }, false⟩
          | .next st => cloopLoop run ls f v' lim (n+1) { st with c := { st.c.setStatic ls.cnt (.int v') with err := none } }
        else
          match iterAfterBody rb with
          | .abort st => ⟨n+1, st, true⟩
          | _ => ⟨n+1, { rb.st with c := { rb.st.c with err := some .wrongLoopOp } }, true⟩

/-- The children of a for-else branch, one after the other: `if ctx.Err = tpl.writeNode(w, ch, ctx); ctx.Err != nil
    { break }` — the result of EVERY child is assigned to `ctx.Err`, so each successful child clears a stale error
    before the next one runs; the first failing child ends the branch. -/
def elseSeq : List (St → Res) → St → Res
  | [], s => ok s
  | r :: rest, s =>
    match (r s).err with
    | some _ => r s
    | none => elseSeq rest { (r s).st with c := { (r s).st.c with err := none } }

/-- The for-else branch: `if ctx.Err = tpl.writeNode(w, ch, ctx); ctx.Err != nil { break }` — the result
    of every child is ASSIGNED to `ctx.Err`, so a successful non-empty branch clears a stale error. -/
def elseRun (run : St → Res) (nonEmpty : Bool) (s : St) : Res :=
  let x := run s
  match x.err with
  | some e => ok { x.st with c := { x.st.c with err := some e } }
  | none => ok (if nonEmpty then { x.st with c := { x.st.c with err := none } } else x.st)

/-- Both bounds of a counter loop (`cloopRange` twice); `none` = one of them failed (`ctx.Err` is set). -/
def loopBounds (c : Ctx) (ls : CLoopSpec) : Ctx × Option (Int × Int) :=
  match (cloopRange c ls.cntStatic ls.cntInit).1 with
  | .error _ => ((cloopRange c ls.cntStatic ls.cntInit).2, none)
  | .ok cnt =>
    let c1 := (cloopRange c ls.cntStatic ls.cntInit).2
    match (cloopRange c1 ls.limStatic ls.lim).1 with
    | .error _ => ((cloopRange c1 ls.limStatic ls.lim).2, none)
    | .ok lim => ((cloopRange c1 ls.limStatic ls.lim).2, some (cnt, lim))

/-- After a loop: an aborted loop returns at once; otherwise the else-branch runs iff there was no iteration. -/
def afterLoop (runElse : Option (St → Res)) (r : LoopRes) (sElse : St) : Res :=
  if r.abort then ok r.st else
  if r.n == 0 then
    match runElse with
    | some re => re sElse
    | none => ok sElse
  else ok sElse

/-- `Ctx.cloop` once the bounds are known. -/
def cloopAfter (run : St → Res) (runElse : Option (St → Res)) (fuel : Nat) (ls : CLoopSpec)
    (b : Option (Int × Int)) (s : St) : Res :=
  match b with
  | none => ok s
  | some (cnt, lim) =>
    let r := cloopLoop run ls fuel cnt lim 0 s
    afterLoop runElse r r.st

/-- `Ctx.cloop`: bounds, the loop, the else-branch. Errors are reported through `ctx.Err`. -/
def cloopWith (run : St → Res) (runElse : Option (St → Res)) (fuel : Nat) (ls : CLoopSpec) (s : St) : Res :=
  cloopAfter run runElse fuel ls (loopBounds s.c ls).2 { s with c := (loopBounds s.c ls).1 }

/-- State in which the body of a range-loop iteration starts: `SetKey` (if required) and `SetVal`. -/
def rIterStart (ls : RLoopSpec) (k : Bytes) (v : Val) (ik : InsKind) (s : St) : St :=
  { s with c := (if ls.key.isEmpty then s.c else s.c.set ls.key (.bytes k) .static).set ls.val v ik }

/-- `RangeLoop.Iterate` driven by `Inspector.Loop` over the elements. -/
def rloopLoop (run : St → Res) (ls : RLoopSpec) : List (Bytes × Val × InsKind) → Nat → St → LoopRes
  | [], n, s => ⟨n, s, false⟩
  | (k, v, ik) :: rest, n, s =>
    let rs := sepWrite n ls.sep (rIterStart ls k v ik s)
    match rs.err with
    | some e => ⟨n+1, { rs.st with c := { rs.st.c with err := some e } }, true⟩
    | none =>
      match iterAfterBody (run rs.st) with
      | .abort st => ⟨n+1, st, true⟩
      | .stop st => ⟨n+1, st, false⟩
      | .next st => rloopLoop run ls rest (n+1) st

/-- What `Inspector.Loop` iterates over for a variable. -/
def loopItems (vv : VarVal) (sub : List Bytes) : List (Bytes × Val × InsKind) :=
  match vv with
  | .ins v k => insLoop k v sub
  | _ => []

/-- `Ctx.rloop`. -/
def rloopWith (run : St → Res) (runElse : Option (St → Res)) (ls : RLoopSpec) (s : St) : Res :=
  match splitDots ls.src with
  | [] => ok s
  | name :: sub =>
    match getVar s.c.vars name with
    | none =>
      -- the variable is not set: no iteration, the else branch runs (repair); `ctx.Err` is not touched before it
      (match runElse with
       | some re => re s
       | none => ok s)
    | some vv =>
      let r := rloopLoop run ls (loopItems vv sub) 0 s
      -- `ctx.Err = v.ins.Loop(...)`: the inspector's result (nil) replaces whatever was there;
      -- an error caught inside an iteration (rl.err) is put back and the function returns
      afterLoop runElse r { r.st with c := { r.st.c with err := none } }

/-- `Ctx.rloop` with the substitution of a square-bracket index in the SOURCE path (repair: inside a counter loop
    `{% for _, v := range m[i] %}` used to look up the literal name `m[i]`, found nothing and rendered its else branch).
    An index whose value cannot be written as text leaves `ctx.Err` and no loop, as in `get` / `cmp` / `cmpLC`. -/
def rloopQB (run : St → Res) (runElse : Option (St → Res)) (ls : RLoopSpec) (s : St) : Res :=
  match cmpPath s.c.vars s.c.chQB ls.src with
  | none => ok { s with c := { s.c with err := some .unknownType } }
  -- `ctx.Err = nil` first (repair: a range loop over an unset variable without an else branch used to hand an
  -- error that an EARLIER tag — or an earlier render on the same context — had left there to its caller)
  | some p => rloopWith run runElse { ls with src := p } { s with c := { s.c with err := none } }

/-- What a loop node returns when `ctx.Err` is set after the loop: the error; a break / continue signal left
    there by the for-else branch is handed to the parent loop and cleared (repair). -/
def loopErrRes (st : St) (e : Err) : Res :=
  if isSentinel e then fail { st with c := { st.c with err := none } } e else fail st e

theorem loopErrRes_w (st : St) (e : Err) : (loopErrRes st e).st.w = st.w := by
  unfold loopErrRes; split <;> rfl
theorem loopErrRes_err (st : St) (e : Err) : (loopErrRes st e).err = some e := by
  unfold loopErrRes; split <;> rfl

/-- `writeNode typeLoopCount / typeLoopRange`: the break depth pending for the parent loops survives
    the loop; `ctx.Err` is turned into the returned error. -/
def loopNode (loop : St → Res) (s : St) : Res :=
  let saved := s.c.brkD
  let r := loop { s with c := { s.c with brkD := 0 } }
  let r : Res := { r with st := { r.st with c := { r.st.c with brkD := max saved r.st.c.brkD } } }
  match r.err with
  | some _ => r
  | none => match r.st.c.err with
    -- a break / continue signal left by the for-else branch goes to the parent loop and is not kept (repair)
    | some e => loopErrRes r.st e
    | none => r

mutual

/-- `write` minus the deferred functions: the node loop; `ErrInterrupt` ends the template with success. -/
def writeTree (reg : Registry) : Nat → List Node → St → Res
  | 0, _, s => fail s .outOfFuel
  | f+1, nodes, s =>
    let r := writeSeq reg f nodes s
    if r.err = some .interrupt then ⟨{ r.st with c := { r.st.c with err := none } }, none⟩ else r

/-- Walk a node list, stop at the first error (also used by condTrue / condFalse / case / default). -/
def writeSeq (reg : Registry) : Nat → List Node → St → Res
  | 0, _, s => fail s .outOfFuel
  | _+1, [], s => ok s
  | f+1, n :: rest, s =>
    (writeNode reg f n s).andThen fun s1 => writeSeq reg f rest s1

/-- `Tpl.writeNode`. -/
def writeNode (reg : Registry) : Nat → Node → St → Res
  | 0, _, s => fail s .outOfFuel
  | f+1, node, s =>
    match node with
    | .raw b => s.write (regionEscape s.c b)
    | .tpl path mods noesc pre suf =>
      let (c2, o) := evalPrint s.c path mods
      let s2 : St := { s with c := c2 }
      (match o with
       | .stop e => ⟨s2, e⟩
       | .text t => tplWrites s2 pre t suf noesc)
    | .ctx cs =>
      let (c', e) := ctxNode s.c cs
      ⟨{ s with c := c' }, e⟩
    | .counter cs =>
      let (c', e) := counterNode s.c cs
      ⟨{ s with c := c' }, e⟩
    | .condOK k child =>
      if k.cd.hlp.isEmpty then ok s else
      let (c1, o) := evalCondOK s.c k
      let s1 : St := { s with c := c1 }
      (match o with
       | .stop e => fail s1 e
       | .branch r pending =>
         match (if r then child[0]? else child[1]?) with
         | some n => writeNode reg f n s1
         | none => ⟨s1, pending⟩)
    | .cond cd child =>
      let (c1, o) := evalCond s.c cd
      let s1 : St := { s with c := c1 }
      (match o with
       | .stop e => fail s1 e
       | .branch r pending =>
         match (if r then child[0]? else child[1]?) with
         | some n => writeNode reg f n s1
         | none => ⟨s1, pending⟩)
    | .condTrue child => writeSeq reg f child s
    | .condFalse child => writeSeq reg f child s
    | .case_ _ child => writeSeq reg f child s
    | .default_ child => writeSeq reg f child s
    | .cloop ls child =>
      let (body, els) := loopParts child
      loopNode (cloopWith (fun st => writeSeq reg f body st) (els.map (fun e st => elseRun (elseSeq (e.map (fun n st' => writeNode reg f n st'))) (!e.isEmpty) st)) f ls) s
    | .rloop ls child =>
      let (body, els) := loopParts child
      loopNode (rloopQB (fun st => writeSeq reg f body st) (els.map (fun e st => elseRun (elseSeq (e.map (fun n st' => writeNode reg f n st'))) (!e.isEmpty) st)) ls) s
    | .brk d => fail { s with c := { s.c with brkD := max s.c.brkD (max d 1) } } .breakLoop
    | .lbrk d => ok { s with c := { s.c with brkD := max s.c.brkD (max d 1) } }
    | .cont => fail s .contLoop
    | .switch arg child => switchNode reg f arg child child s
    | .incl names =>
      match reg.getBKeys names with
      | none => fail s .tplNotFound
      | some nodes =>
        if s.c.incD ≥ maxIncDepth then fail s .incDepth else
        -- nested write into a scratch buffer (a writer that cannot fail), then one copy out
        let r := writeTree reg f nodes { c := { s.c with incD := s.c.incD + 1 }, w := {} }
        inclFinish s { r with st := { r.st with c := { r.st.c with incD := r.st.c.incD - 1 } } }
    | .exit => fail s .interrupt
    | .jsonQ => ok { s with c := { s.c with bnd := .json :: s.c.bnd } }
    | .endJsonQ => ok { s with c := { s.c with bnd := s.c.bnd.erase .json } }
    | .htmlE => ok { s with c := { s.c with bnd := .html :: s.c.bnd } }
    | .endHtmlE => ok { s with c := { s.c with bnd := s.c.bnd.erase .html } }
    | .urlEnc => ok { s with c := { s.c with bnd := .url :: s.c.bnd } }
    | .endUrlEnc => ok { s with c := { s.c with bnd := s.c.bnd.erase .url } }
    | .div => fail s .unknownCtl
    | .unknown => fail s .unknownCtl

/-- `typeSwitch`: first matching case wins, otherwise the default. `all` is the full child list
    (for the default search), `cs` the cases still to try. -/
def switchNode (reg : Registry) : Nat → Bytes → List Node → List Node → St → Res
  | 0, _, _, _, s => fail s .outOfFuel
  | f+1, arg, all, cs, s =>
    match cs with
    | [] =>
      -- no case matched: default, if any
      match all.find? Node.isDefault with
      | some d => writeNode reg f d s
      | none => ok s
    | ch :: rest =>
      match ch.asCase with
      | some k =>
        let (c1, o) := evalCase s.c arg k
        let s1 : St := { s with c := c1 }
        (match o with
         | .stop e => fail s1 e
         | .branch r _ => if r then writeNode reg f ch s1 else switchNode reg f arg all rest s1)
      | none => switchNode reg f arg all rest s

end

/-- `Ctx.defer_` (repaired: the list is emptied once run). Harness deferred functions never fail. -/
def Ctx.runDeferred (c : Ctx) : Ctx :=
  { c with log := c.log ++ c.dfr.map Event.deferRan, dfr := [] }

/-- `write`: the outermost template; deferred functions run once, after all output. -/
def writeBody (reg : Registry) (fuel : Nat) (nodes : List Node) (s : St) : Res :=
  (writeTree reg fuel nodes s).andThen fun st => ok { st with c := st.c.runDeferred }

/-- The state an outermost rendering starts from: bound tags are lexical, a tag left open by an earlier rendering
    on the same context does not leak into this one (repair). -/
def St.topStart (s : St) : St := { s with c := { s.c with bnd := [] } }

def write (reg : Registry) (fuel : Nat) (nodes : List Node) (s : St) : Res :=
  writeBody reg fuel nodes s.topStart

/-- `Write(w, key, ctx)`: lookup first; not found → error before any write. -/
def writeKey (reg : Registry) (fuel : Nat) (key : Bytes) (s : St) : Res :=
  match reg.lookup key with
  | none => fail s .tplNotFound
  | some nodes => write reg fuel nodes s

end DyntplV
