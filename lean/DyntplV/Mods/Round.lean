/-!
# Exact specification of the rounding operations (property C20)

`mod_builtin.go` offers six rounding modifiers (`round`, `roundPrec`, `ceil`, `ceilPrec`, `floor`,
`floorPrec`; the directives `{%f.k= … %}` / `{%F.k= … %}` are `floorPrec(k)` / `ceilPrec(k)`).  Their
meaning — "the value rounded down, up, toward zero or to the nearest integer, exact at the requested
number of decimals" — is specified here on *exact* values, free of floating point:

* a value is a rational `num / den` (`num : Int`, `den : Nat`, `den > 0`), or in particular an exact
  decimal `m / 10^e` (`Dec`) — every finite float64 is such a decimal (`m·2^-j = m·5^j / 10^j`);
* rounding at `k` decimals returns the *scaled integer* `n`; the rounded value is `n / 10^k`.

The four mathematical operations (`round`/`roundPrec`, `ceil`/`ceilPrec`, `floor`/`floorPrec` are the
precision-0 and precision-`k` instances of them):

| modifier                    | operation                        |
|-----------------------------|----------------------------------|
| `floor`, `floorPrec(k)`, `f.k` | `floorAt k`  (toward −∞)       |
| `ceil`, `ceilPrec(k)`, `F.k`   | `ceilAt k`   (toward +∞)       |
| `roundPrec(k)`              | `truncAt k` (toward zero; documented example `3.1415|roundPrec(3)` = `3.141`) |
| `round`                     | `roundHalfAwayAt 0` (nearest, ties away from zero)                           |

No floating point is modelled here; the Go harness compares the float64 results with this
specification through `math/big` and, on inputs whose float computation is exact, directly.
-/
namespace DyntplV.Round

/-- `x·10^k·den` for `x = num/den`: the numerator of the scaled value. -/
def scaled (k : Nat) (num : Int) : Int := num * (10 : Int) ^ k

/-- ⌊x·10^k⌋ for `x = num/den` (Euclidean division: for a positive divisor it is the floor). -/
def floorAt (k : Nat) (num : Int) (den : Nat) : Int := scaled k num / (den : Int)

/-- ⌈x·10^k⌉ = −⌊−x·10^k⌋. -/
def ceilAt (k : Nat) (num : Int) (den : Nat) : Int := -((-(scaled k num)) / (den : Int))

/-- x·10^k rounded toward zero (`Int.tdiv` is the T-division of the integers). -/
def truncAt (k : Nat) (num : Int) (den : Nat) : Int := (scaled k num).tdiv (den : Int)

/-- x·10^k rounded to the nearest integer, ties away from zero: sign(x)·⌊|x|·10^k + 1/2⌋. -/
def roundHalfAwayAt (k : Nat) (num : Int) (den : Nat) : Int :=
  if 0 ≤ scaled k num then (2 * scaled k num + (den : Int)) / (2 * (den : Int))
  else -((2 * (-(scaled k num)) + (den : Int)) / (2 * (den : Int)))

/-- The four operations by name (the vocabulary of the driver and of the harness). -/
inductive Op where
  | floor | ceil | trunc | round
  deriving DecidableEq, Repr

def Op.apply : Op → Nat → Int → Nat → Int
  | .floor => floorAt
  | .ceil => ceilAt
  | .trunc => truncAt
  | .round => roundHalfAwayAt

/-- The operation behind each of the six modifiers (and the two directives). -/
inductive Modifier where
  | round | roundPrec | ceil | ceilPrec | floor | floorPrec
  deriving DecidableEq, Repr

def Modifier.op : Modifier → Op
  | .round => .round
  | .roundPrec => .trunc
  | .ceil | .ceilPrec => .ceil
  | .floor | .floorPrec => .floor

/-- `round`, `ceil`, `floor` work at 0 decimals whatever argument they get; the `…Prec` forms at `k`. -/
def Modifier.decimals (m : Modifier) (k : Nat) : Nat :=
  match m with
  | .round | .ceil | .floor => 0
  | .roundPrec | .ceilPrec | .floorPrec => k

/-- An exact decimal `m / 10^e`. -/
structure Dec where
  m : Int
  e : Nat
  deriving DecidableEq, Repr

namespace Dec
def den (x : Dec) : Nat := 10 ^ x.e
def floorAt (k : Nat) (x : Dec) : Int := Round.floorAt k x.m x.den
def ceilAt (k : Nat) (x : Dec) : Int := Round.ceilAt k x.m x.den
def truncAt (k : Nat) (x : Dec) : Int := Round.truncAt k x.m x.den
def roundHalfAwayAt (k : Nat) (x : Dec) : Int := Round.roundHalfAwayAt k x.m x.den
def apply (o : Op) (k : Nat) (x : Dec) : Int := o.apply k x.m x.den
/-- The rounded value `n / 10^k` as a decimal again. -/
def rounded (o : Op) (k : Nat) (x : Dec) : Dec := ⟨apply o k x, k⟩
end Dec

end DyntplV.Round
