/-!
# Operand selection of the `math::*` modifiers (property C20)

Model of `mod_math.go`: which of *value* and *arguments* a modifier computes with.

* `floatConv`      — `floatConv(val)`: the float64 of a carrier, or "not ok".
* `floatConvAny`   — `floatConvAny(val, args)`: the value if numeric, else the first argument
                     (abs, inc, dec, sqrt, cbrt, exp, log).
* `mathConv2`      — `mathConv2(val, args)`: (value, arg0) in pipe form, (arg0, arg1) when the value is
                     absent / not numeric (add, sub, mul, div, mod, pow; also radical and factorial).
* `mathConvArgs2`  — `mathConvArgs2(val, args)`: (arg1, arg0) when two arguments are given — note the order:
                     the code reads `d = args[0]`, `f = args[1]` — else as `mathConv2` (min, max).

Two levels:

* `NumArg α` — what matters to the selection: a numeric operand with its value, a non-numeric one, or nil;
* `Carrier α` — the dynamic Go type as `floatConv`'s type switch sees it (twelve scalar kinds by value or by
  pointer, string / `[]byte` by value or by pointer with the outcome of `strconv.ParseFloat`, untyped nil,
  anything else).  `floatConvC` mirrors the switch case by case; `Carrier.abs` forgets the kind.

The functions are written once, over an arbitrary conversion `conv : β → Option α` (`…With`), and instantiated
at both levels; `α` is abstract (the theorems hold for every value type; the driver uses position labels).

Pre-repair variants (`…Old`) are kept for the record: `floatConvOnly` (sqrt, cbrt, exp, log ignored the
function-call form) and `mathConvArgs2Old` (min / max ignored the value and turned a non-numeric argument into 0).
-/
namespace DyntplV.Operands

/-- An operand as the selection logic sees it. -/
inductive NumArg (α : Type) where
  | num (q : α)   -- converts: any int/uint/float kind, a pointer to one, numeric string / bytes
  | nonnum        -- present but does not convert
  | nil           -- untyped nil: absent variable, or the value slot of the function-call form
  deriving DecidableEq, Repr

/-- `floatConv` on abstract operands. -/
def floatConv {α : Type} : NumArg α → Option α
  | .num q => some q
  | .nonnum => none
  | .nil => none

/-- Result of a two-operand selection. -/
inductive Sel2 (α : Type) where
  | poor                -- `ErrModPoorArgs`
  | none                -- no error, no result: the value passes through unchanged
  | ops (f d : α)       -- the modifier computes `f ∘ d`
  deriving DecidableEq, Repr

def Sel2.swap {α : Type} : Sel2 α → Sel2 α
  | .ops f d => .ops d f
  | s => s

section generic
variable {α β : Type} (conv : β → Option α)

/-- mod_math.go `floatConvAny`. -/
def floatConvAnyWith (val : β) (args : List β) : Option α :=
  match conv val with
  | some f => some f
  | none =>
    match args with
    | [] => none
    | a0 :: _ => conv a0

/-- mod_math.go `mathConv2`. -/
def mathConv2With (val : β) (args : List β) : Sel2 α :=
  match args with
  | [] => .poor
  | a0 :: rest =>
    match conv val with
    | none =>
      match rest with
      | a1 :: _ =>
        match conv a0, conv a1 with
        | some x, some y => .ops x y
        | _, _ => .none
      | [] => .none
    | some f =>
      match conv a0 with
      | none => .none
      | some d => .ops f d

/-- mod_math.go `mathConvArgs2` (min, max): with two arguments `d = args[0]`, `f = args[1]`;
    with fewer the pipe form of `mathConv2`. -/
def mathConvArgs2With (val : β) (args : List β) : Sel2 α :=
  match args with
  | a0 :: a1 :: _ =>
    match conv a0 with
    | none => .none
    | some d =>
      match conv a1 with
      | none => .none
      | some f => .ops f d
  | _ => mathConv2With conv val args

/-- Pre-repair `mathConvArgs2(args)`: value ignored, a non-numeric argument gives the operands (0, 0);
    `zero` stands for the float 0. -/
def mathConvArgs2OldWith (zero : α) (_val : β) (args : List β) : Sel2 α :=
  match args with
  | a0 :: a1 :: _ =>
    match conv a0 with
    | none => .ops zero zero
    | some d =>
      match conv a1 with
      | none => .ops zero zero
      | some f => .ops f d
  | _ => .poor

/-- Pre-repair operand of sqrt, cbrt, exp, log: `floatConv(val)` only. -/
def floatConvOnlyWith (val : β) (_args : List β) : Option α := conv val

/-- The selection commutes with any re-encoding of the operands. -/
theorem floatConvAnyWith_comp {γ : Type} (h : γ → β) (v : γ) (as : List γ) :
    floatConvAnyWith (fun c => conv (h c)) v as = floatConvAnyWith conv (h v) (as.map h) := by
  cases as <;> simp [floatConvAnyWith]

theorem mathConv2With_comp {γ : Type} (h : γ → β) (v : γ) (as : List γ) :
    mathConv2With (fun c => conv (h c)) v as = mathConv2With conv (h v) (as.map h) := by
  cases as with
  | nil => rfl
  | cons a0 rest => cases rest <;> simp [mathConv2With]

theorem mathConvArgs2With_comp {γ : Type} (h : γ → β) (v : γ) (as : List γ) :
    mathConvArgs2With (fun c => conv (h c)) v as = mathConvArgs2With conv (h v) (as.map h) := by
  cases as with
  | nil => rfl
  | cons a0 rest =>
    cases rest with
    | nil => simp [mathConvArgs2With, mathConv2With]
    | cons a1 r2 => simp [mathConvArgs2With]

end generic

/-! ## Abstract level -/

def floatConvAny {α : Type} (val : NumArg α) (args : List (NumArg α)) : Option α :=
  floatConvAnyWith floatConv val args

def mathConv2 {α : Type} (val : NumArg α) (args : List (NumArg α)) : Sel2 α :=
  mathConv2With floatConv val args

def mathConvArgs2 {α : Type} (val : NumArg α) (args : List (NumArg α)) : Sel2 α :=
  mathConvArgs2With floatConv val args

def mathConvArgs2Old {α : Type} (zero : α) (val : NumArg α) (args : List (NumArg α)) : Sel2 α :=
  mathConvArgs2OldWith floatConv zero val args

def floatConvOnly {α : Type} (val : NumArg α) (args : List (NumArg α)) : Option α :=
  floatConvOnlyWith floatConv val args

/-! ## Carrier level: the type switch of `floatConv` -/

inductive Scalar where
  | int | int8 | int16 | int32 | int64 | uint | uint8 | uint16 | uint32 | uint64 | float32 | float64
  deriving DecidableEq, Repr

inductive TextKind where
  | string | bytes
  deriving DecidableEq, Repr

/-- A dynamic Go value as `floatConv` distinguishes it.  `v` is the float64 the conversion `float64(x)` yields
    (for `float64` the value itself); `parse` is the outcome of `strconv.ParseFloat(text, 64)`. -/
inductive Carrier (α : Type) where
  | nil
  | scalar (k : Scalar) (ptr : Bool) (v : α)
  | text (k : TextKind) (ptr : Bool) (parse : Option α)
  | other
  deriving DecidableEq, Repr

/-- mod_math.go `floatConv`: `val == nil` → not ok; the 24 scalar cases convert; the 4 text cases convert
    iff `ParseFloat` succeeds; `default` → not ok. -/
def floatConvC {α : Type} : Carrier α → Option α
  | .nil => none
  | .scalar .int _ v => some v
  | .scalar .int8 _ v => some v
  | .scalar .int16 _ v => some v
  | .scalar .int32 _ v => some v
  | .scalar .int64 _ v => some v
  | .scalar .uint _ v => some v
  | .scalar .uint8 _ v => some v
  | .scalar .uint16 _ v => some v
  | .scalar .uint32 _ v => some v
  | .scalar .uint64 _ v => some v
  | .scalar .float32 _ v => some v
  | .scalar .float64 _ v => some v
  | .text .string _ p => p
  | .text .bytes _ p => p
  | .other => none

/-- Forget the kind: only numeric-ness and the value remain. -/
def Carrier.abs {α : Type} : Carrier α → NumArg α
  | .nil => .nil
  | .scalar _ _ v => .num v
  | .text _ _ (some v) => .num v
  | .text _ _ none => .nonnum
  | .other => .nonnum

def floatConvAnyC {α : Type} (val : Carrier α) (args : List (Carrier α)) : Option α :=
  floatConvAnyWith floatConvC val args

def mathConv2C {α : Type} (val : Carrier α) (args : List (Carrier α)) : Sel2 α :=
  mathConv2With floatConvC val args

def mathConvArgs2C {α : Type} (val : Carrier α) (args : List (Carrier α)) : Sel2 α :=
  mathConvArgs2With floatConvC val args

end DyntplV.Operands
