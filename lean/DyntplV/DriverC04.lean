import DyntplV.Db
/-!
# Driver request `db` (property C04): run one whole registry history through the model

Request (one line, space separated tokens):

    db [H:<a>=<b> ...] <op> <op> ...

* `H:<a>=<b>`  (only before the first op) declares a checksum collision: source `b` has the checksum
  of source `a`.  Otherwise the checksum of source `s` is `s` itself (injective).
* `P:<src>`                 `Parse(source #src)`; the returned tree becomes tree `#n`, `n` = number of
                            `P` ops before this one (0-based).             answer token: src of the tree
* `R:<id>:<keyhex>:<n>`     `RegisterTpl(id, key, tree #n)`                no answer token
* `I:<id>:<n>`              `RegisterTplID(id, tree #n)`                   no answer token
* `K:<keyhex>:<n>`          `RegisterTplKey(key, tree #n)`                 no answer token
* `k:<keyhex>`              `Render(key)`           → `db.getKey`          answer token: src | `nf`
* `i:<id>`                  `RenderByID(id)`        → `db.getID`           answer token: src | `nf`
* `f:<keyhex>:<keyhex>`     `RenderFallback(k, fb)` → `db.getKey1`         answer token: src | `nf`
* `b:<keyhex>,<keyhex>,..`  `{% include k1 k2 .. %}` → `db.getBKeys`       answer token: src | `nf`

`<keyhex>` is the key in lower-case hex (`-` = empty key); `<id>` a decimal integer (may be negative);
`<src>`, `<n>`, `<a>`, `<b>` decimal naturals.

Answer: `ok <m1> <m2> … | <s1> <s2> …` — one model token `<m>` and one specification token `<s>` per
`P` / `k` / `i` / `f` / `b` op, in order: the source id of the tree found (for `P`: of the tree
returned), or `nf` (not found).  A malformed line or a tree reference `<n>` that does not exist yet
answers `bad-op`.

Model tokens: the ops are executed by `Sess.step` (the very function `C04.parse_own_source_session` is
about); lookups call `Db.getKey`, `Db.getID`, `Db.getKey1`, `Db.getBKeys` on the session's registry.

Specification tokens: what the property demands, computed from the history alone by the functions the
theorems are stated with — `P:<src>` ↦ `src`; lookups ↦ `lastKeyR` / `lastIDR` / `Option.or` /
`List.findSome?` over the registrations so far, where a registration of tree `#n` counts as a
registration of the source the `n`-th `P` op asked for.  The harness compares its own reference with
these, so that the Go-side oracle and the Lean-side specification are the same function on every
generated history.
-/
namespace DyntplV.DriverC04
open DyntplV DyntplV.Reg

def hexVal (c : Char) : Option Nat :=
  if '0' ≤ c ∧ c ≤ '9' then some (c.toNat - 48)
  else if 'a' ≤ c ∧ c ≤ 'f' then some (c.toNat - 87)
  else if 'A' ≤ c ∧ c ≤ 'F' then some (c.toNat - 55)
  else none

def unhexAux : List Char → List UInt8 → Option Bytes
  | [], acc => some acc.reverse
  | [_], _ => none
  | a :: b :: rest, acc =>
    match hexVal a, hexVal b with
    | some h, some l => unhexAux rest (UInt8.ofNat (h * 16 + l) :: acc)
    | _, _ => none

/-- Hex token → bytes; `-` is the empty string. -/
def unhexStr (s : String) : Option Bytes :=
  if s == "-" then some [] else unhexAux s.toList []

def unhexList (s : String) : Option (List Bytes) :=
  (s.splitOn ",").foldr (fun t acc => match unhexStr t, acc with
    | some b, some l => some (b :: l)
    | _, _ => none) (some [])

/-- Checksum function: identity except for the declared collisions (`b ↦ checksum of a`). -/
def hsum (coll : List (Nat × Nat)) (s : Nat) : Nat :=
  match alookup s coll with
  | some a => a
  | none => s

def srcTok : Option Tree → String
  | some t => toString t.src
  | none => "nf"

def slotTok (s : Option Slot) : String := srcTok (s.map (·.tree))

/-- Execute the ops; `none` = malformed. Output tokens are accumulated in reverse. -/
structure St where
  sess : Sess
  /-- the trees the `P` ops *should* have returned (one per `P` op) -/
  ideal : List Tree
  /-- registrations so far, newest first, with the ideal trees -/
  hist : List Op
  out : List String
  spec : List String

def St.reg (coll : List (Nat × Nat)) (st : St) (id : Int) (key : Bytes) (n : Nat) : Option St :=
  match st.ideal[n]? with
  | some t =>
    if n < st.sess.trees.length then
      some { st with sess := Sess.step (hsum coll) st.sess (.reg id key n), hist := ⟨id, key, t⟩ :: st.hist }
    else none
  | none => none

def St.look (st : St) (model : Option Slot) (spec : Option Tree) : St :=
  { st with out := slotTok model :: st.out, spec := srcTok spec :: st.spec }

def exec (coll : List (Nat × Nat)) : List String → St → Option St
  | [], st => some st
  | tok :: rest, st =>
    match tok.splitOn ":" with
    | ["P", src] =>
      match src.toNat? with
      | some src =>
        let s' := Sess.step (hsum coll) st.sess (.parse src)
        exec coll rest { st with sess := s', ideal := st.ideal ++ [⟨hsum coll src, src⟩],
                                 out := srcTok s'.trees.getLast? :: st.out, spec := toString src :: st.spec }
      | none => none
    | ["R", id, key, n] =>
      match id.toInt?, unhexStr key, n.toNat? with
      | some id, some key, some n => (st.reg coll id key n).bind (exec coll rest)
      | _, _, _ => none
    | ["I", id, n] =>
      match id.toInt?, n.toNat? with
      | some id, some n => (st.reg coll id noKey n).bind (exec coll rest)
      | _, _ => none
    | ["K", key, n] =>
      match unhexStr key, n.toNat? with
      | some key, some n => (st.reg coll (-1) key n).bind (exec coll rest)
      | _, _ => none
    | ["k", key] =>
      match unhexStr key with
      | some key => exec coll rest (st.look (st.sess.db.getKey key) (lastKeyR key st.hist))
      | none => none
    | ["i", id] =>
      match id.toInt? with
      | some id => exec coll rest (st.look (st.sess.db.getID id) (lastIDR id st.hist))
      | none => none
    | ["f", key, fb] =>
      match unhexStr key, unhexStr fb with
      | some key, some fb =>
        exec coll rest (st.look (st.sess.db.getKey1 key fb) ((lastKeyR key st.hist).or (lastKeyR fb st.hist)))
      | _, _ => none
    | ["b", keys] =>
      match unhexList keys with
      | some keys =>
        exec coll rest (st.look (st.sess.db.getBKeys keys) (keys.findSome? (fun k => lastKeyR k st.hist)))
      | none => none
    | _ => none

/-- Leading `H:<a>=<b>` tokens → collision table and the remaining tokens. -/
def collisions : List String → List (Nat × Nat) → Option (List (Nat × Nat) × List String)
  | [], coll => some (coll, [])
  | tok :: rest, coll =>
    match tok.splitOn ":" with
    | ["H", ab] =>
      match ab.splitOn "=" with
      | [a, b] =>
        match String.toNat? a, String.toNat? b with
        | some a, some b => collisions rest ((b, hsum coll a) :: coll)
        | _, _ => none
      | _ => none
    | _ => some (coll, tok :: rest)

/-- Answer a `db …` request given as its list of tokens; `none` if the request is of another kind. -/
def answer (toks : List String) : Option String :=
  match toks with
  | "db" :: rest =>
    match collisions rest [] with
    | some (coll, ops) =>
      match exec coll ops ⟨Sess.empty, [], [], [], []⟩ with
      | some st => some (" ".intercalate ("ok" :: st.out.reverse ++ "|" :: st.spec.reverse))
      | none => some "bad-op"
    | none => some "bad-op"
  | _ => none

end DyntplV.DriverC04
