import DyntplV.Basic
/-!
# Source-level template AST (mirror of harness/tplast.go)

The harness generates templates as values of these types, prints them with `Source()` and sends the
prefix encoding `EncTpl()` to the driver.  Every field that influences the source text is carried
(keyword spellings included), so that `Parser/Compile.lean` can say what tree the source MEANS
without looking at the parser.

`Ast.case_` only occurs in the `cases` list of `Ast.switch` (tplast.go has a separate `Case` struct;
one inductive with `List Ast` children keeps the recursion simple).
-/
namespace DyntplV

/-- `ModCall`: `|name` (`parens = false`) or `|name(a, b, …)`; arguments as written. -/
structure ModCall where
  name : Bytes
  args : List Bytes
  parens : Bool
  deriving DecidableEq, Repr, Inhabited

/-- `Cond`: `L Op R`, or `Hlp(HlpArgs…) [Op R]`, or `!L`. -/
structure Cond where
  l : Bytes
  op : Bytes
  r : Bytes
  hlp : Bytes
  hlpArgs : List Bytes
  not : Bool
  deriving DecidableEq, Repr, Inhabited

inductive Ast
  | text (s : Bytes)
  | comment (s : Bytes)
  | print (letters path : Bytes) (mods : List ModCall) (raw : Bool) (pre suf preKW sufKW : Bytes)
  | if_ (c : Cond) (thn : List Ast) (hasElse : Bool) (els : List Ast)
  | ifok (var ok hlp : Bytes) (args : List Bytes) (ins : Bytes) (asKW not : Bool) (thn : List Ast) (hasElse : Bool) (els : List Ast)
  | ternary (letters : Bytes) (c : Cond) (t f : Bytes)
  | switch (arg : Bytes) (cases : List Ast) (hasDefault : Bool) (dfltAt : Nat) (dflt : List Ast)
  | case_ (c : Cond) (val : Bytes) (body : List Ast)
  | cloop (var init op lim step sep sepKW : Bytes) (body : List Ast) (hasElse : Bool) (els : List Ast)
  | rloop (key val src sep sepKW : Bytes) (body : List Ast) (hasElse : Bool) (els : List Ast)
  | ctl (kind : Bytes) (n : Nat) (c : Option Cond)
  | ctxset (var ok src : Bytes) (mods : List ModCall) (as_ kw : Bytes)
  | counter (var kind : Bytes) (n : Int) (kw : Bytes)
  | include (names : List Bytes) (dot : Bool)
  | exit
  | region (kind : Bytes) (body : List Ast)
  | rtag (kind : Bytes) (end_ : Bool)
  deriving Repr, Inhabited

namespace AstDec
/-! ### Decoder for the `EncTpl` token stream -/

abbrev P := StateT (List String) Option

def tok : P String := do
  match (← get) with
  | [] => failure
  | t :: rest => set rest; pure t

def hexVal (c : Char) : Option Nat :=
  if '0' ≤ c ∧ c ≤ '9' then some (c.toNat - 48)
  else if 'a' ≤ c ∧ c ≤ 'f' then some (c.toNat - 87)
  else if 'A' ≤ c ∧ c ≤ 'F' then some (c.toNat - 55)
  else none

def unhexStr (s : String) : Option Bytes :=
  if s == "-" then some [] else
  let rec go : List Char → List UInt8 → Option Bytes
    | [], acc => some acc.reverse
    | [_], _ => none
    | a :: b :: rest, acc =>
      match hexVal a, hexVal b with
      | some h, some l => go rest (UInt8.ofNat (h * 16 + l) :: acc)
      | _, _ => none
  go s.toList []

def pHex : P Bytes := do
  match unhexStr (← tok) with
  | some b => pure b
  | none => failure

def pNat : P Nat := do
  match (← tok).toNat? with
  | some n => pure n
  | none => failure

def pInt : P Int := do
  match (← tok).toInt? with
  | some n => pure n
  | none => failure

def pBool : P Bool := do
  let t ← tok
  if t == "1" then pure true else if t == "0" then pure false else failure

def pMany {α : Type} (p : P α) : Nat → P (List α)
  | 0 => pure []
  | n+1 => do let a ← p; let r ← pMany p n; pure (a :: r)

def pStrs : P (List Bytes) := do let n ← pNat; pMany pHex n

def pMod : P ModCall := do
  let name ← pHex; let parens ← pBool; let args ← pStrs
  pure { name, args, parens }

def pMods : P (List ModCall) := do let n ← pNat; pMany pMod n

def pCond : P Cond := do
  let l ← pHex; let op ← pHex; let r ← pHex; let hlp ← pHex; let hlpArgs ← pStrs; let not ← pBool
  pure { l, op, r, hlp, hlpArgs, not }

/-- ASCII bytes of a plain (non-hex) token. -/
def plain (s : String) : Bytes := s.toList.map (fun c => UInt8.ofNat c.toNat)

mutual
partial def pList : P (List Ast) := do
  let n ← pNat
  pMany pAst n

partial def pCase : P Ast := do
  let c ← pCond; let v ← pHex; let body ← pList
  pure (.case_ c v body)

partial def pAst : P Ast := do
  match (← tok) with
  | "text" => do pure (.text (← pHex))
  | "comment" => do pure (.comment (← pHex))
  | "print" => do
    let letters ← pHex; let path ← pHex; let mods ← pMods; let raw ← pBool
    let pre ← pHex; let suf ← pHex; let preKW ← pHex; let sufKW ← pHex
    pure (.print letters path mods raw pre suf preKW sufKW)
  | "if" => do
    let c ← pCond; let thn ← pList; let he ← pBool; let els ← pList
    pure (.if_ c thn he els)
  | "ifok" => do
    let var ← pHex; let okv ← pHex; let hlp ← pHex; let n ← pNat; let args ← pMany pHex n
    let ins ← pHex; let asKW ← pBool; let nt ← pBool
    let thn ← pList; let he ← pBool; let els ← pList
    pure (.ifok var okv hlp args ins asKW nt thn he els)
  | "ternary" => do
    let letters ← pHex; let c ← pCond; let t ← pHex; let f ← pHex
    pure (.ternary letters c t f)
  | "switch" => do
    let arg ← pHex; let n ← pNat; let cases ← pMany pCase n
    let hd ← pBool; let at_ ← pNat; let dflt ← pList
    pure (.switch arg cases hd at_ dflt)
  | "cloop" => do
    let var ← pHex; let init ← pHex; let op ← pHex; let lim ← pHex; let step ← pHex
    let sep ← pHex; let sepKW ← pHex
    let body ← pList; let he ← pBool; let els ← pList
    pure (.cloop var init op lim step sep sepKW body he els)
  | "rloop" => do
    let key ← pHex; let val ← pHex; let src ← pHex; let sep ← pHex; let sepKW ← pHex
    let body ← pList; let he ← pBool; let els ← pList
    pure (.rloop key val src sep sepKW body he els)
  | "ctl" => do
    let kind ← tok; let n ← pNat; let has ← pBool
    if has then do let c ← pCond; pure (.ctl (plain kind) n (some c))
    else pure (.ctl (plain kind) n none)
  | "ctxset" => do
    let var ← pHex; let ok ← pHex; let src ← pHex; let mods ← pMods; let as_ ← pHex; let kw ← pHex
    pure (.ctxset var ok src mods as_ kw)
  | "counter" => do
    let var ← pHex; let kind ← pHex; let n ← pInt; let kw ← pHex
    pure (.counter var kind n kw)
  | "include" => do
    let names ← pStrs; let dot ← pBool
    pure (.include names dot)
  | "exit" => pure .exit
  | "region" => do
    let kind ← tok; let body ← pList
    pure (.region (plain kind) body)
  | "rtag" => do
    let kind ← tok; let e ← pBool
    pure (.rtag (plain kind) e)
  | _ => failure
end

/-- `A <n> <node>…` -/
def pTpl : P (List Ast) := do
  let t ← tok
  if t != "A" then failure
  pList

end AstDec
end DyntplV
