/-
  Basic definitions shared by all models: byte strings, hex digits, UTF-8 / UTF-16
  (with Go's decoding semantics), decimal text, the generic "unit decoder + fuel loop".
  Core Lean only (no Mathlib) so that the driver links as an executable.
-/
namespace DyntplV

abbrev Bytes := List UInt8

/-- ASCII bytes of a string literal (only used on ASCII literals). -/
def lit (s : String) : Bytes := s.toList.map (fun c => UInt8.ofNat c.toNat)

def isDigit (c : UInt8) : Bool := 48 ≤ c && c ≤ 57
def isLower (c : UInt8) : Bool := 97 ≤ c && c ≤ 122
def isUpper (c : UInt8) : Bool := 65 ≤ c && c ≤ 90
def isAlnum (c : UInt8) : Bool := isDigit c || isLower c || isUpper c

/-- Upper-case hex digit of a nibble (Go: `hexUp[n]`). -/
def hexUp (n : UInt8) : UInt8 := if n < 10 then 48 + n else 55 + n
/-- Lower-case hex digit of a nibble. -/
def hexLo (n : UInt8) : UInt8 := if n < 10 then 48 + n else 87 + n

/-- Value of a hex digit in either case. -/
def unhex (c : UInt8) : Option UInt8 :=
  if 48 ≤ c && c ≤ 57 then some (c - 48)
  else if 65 ≤ c && c ≤ 70 then some (c - 55)
  else if 97 ≤ c && c ≤ 102 then some (c - 87)
  else none

def isHex (c : UInt8) : Bool := (unhex c).isSome

/-- Lower-case hex text of a natural number, no padding (Go: `strconv.AppendInt(_, n, 16)` for n ≥ 0). -/
def hexDigitsLoAux : Nat → Nat → Bytes → Bytes
  | 0, _, acc => acc
  | fuel+1, n, acc =>
    let d := hexLo (UInt8.ofNat (n % 16))
    if n < 16 then d :: acc else hexDigitsLoAux fuel (n / 16) (d :: acc)

def hexLoNat (n : Nat) : Bytes := hexDigitsLoAux 16 n []

/-- Left-pad with '0' to width `w`. -/
def padZero (w : Nat) (b : Bytes) : Bytes := List.replicate (w - b.length) 48 ++ b

/-- Decimal text of a natural number. -/
def decDigitsAux : Nat → Nat → Bytes → Bytes
  | 0, _, acc => acc
  | fuel+1, n, acc =>
    let d := UInt8.ofNat (48 + n % 10)
    if n < 10 then d :: acc else decDigitsAux fuel (n / 10) (d :: acc)

def decNat (n : Nat) : Bytes := decDigitsAux 40 n []
def decInt (i : Int) : Bytes := if i < 0 then 45 :: decNat i.natAbs else decNat i.natAbs

/-- Parse an unsigned decimal (digits only, non-empty). -/
def parseNatDec (b : Bytes) : Option Nat :=
  if b.isEmpty then none else
  b.foldl (fun acc c => match acc with
    | none => none
    | some n => if isDigit c then some (n * 10 + (c.toNat - 48)) else none) (some 0)

/-! ### UTF-8 encode, and decode with Go's `range string` semantics -/

/-- UTF-8 encoding of a code point (callers pass scalar values; anything else is encoded
    like Go's `utf8.AppendRune` does: as U+FFFD). -/
def utf8Enc (cp : Nat) : Bytes :=
  if cp < 0x80 then [UInt8.ofNat cp]
  else if cp < 0x800 then [UInt8.ofNat (0xC0 + cp / 64), UInt8.ofNat (0x80 + cp % 64)]
  else if 0xD800 ≤ cp ∧ cp ≤ 0xDFFF then [0xEF, 0xBF, 0xBD]
  else if cp < 0x10000 then
    [UInt8.ofNat (0xE0 + cp / 4096), UInt8.ofNat (0x80 + cp / 64 % 64), UInt8.ofNat (0x80 + cp % 64)]
  else if cp < 0x110000 then
    [UInt8.ofNat (0xF0 + cp / 262144), UInt8.ofNat (0x80 + cp / 4096 % 64),
     UInt8.ofNat (0x80 + cp / 64 % 64), UInt8.ofNat (0x80 + cp % 64)]
  else [0xEF, 0xBF, 0xBD]

def isCont (c : UInt8) : Bool := 0x80 ≤ c && c ≤ 0xBF

/-- Decode one rune the way Go's `utf8.DecodeRune` does: returns (rune, width); invalid → (0xFFFD, 1). -/
def utf8DecUnit (b : Bytes) : Option (Nat × Bytes) :=
  match b with
  | [] => none
  | c0 :: r0 =>
    if c0 < 0x80 then some (c0.toNat, r0)
    else if c0 < 0xC2 then some (0xFFFD, r0)
    else if c0 < 0xE0 then
      match r0 with
      | c1 :: r1 => if isCont c1 then some ((c0.toNat - 0xC0) * 64 + (c1.toNat - 0x80), r1) else some (0xFFFD, r0)
      | _ => some (0xFFFD, r0)
    else if c0 < 0xF0 then
      match r0 with
      | c1 :: c2 :: r2 =>
        let lo : UInt8 := if c0 == 0xE0 then 0xA0 else 0x80
        let hi : UInt8 := if c0 == 0xED then 0x9F else 0xBF
        if lo ≤ c1 && c1 ≤ hi && isCont c2 then
          some ((c0.toNat - 0xE0) * 4096 + (c1.toNat - 0x80) * 64 + (c2.toNat - 0x80), r2)
        else some (0xFFFD, r0)
      | _ => some (0xFFFD, r0)
    else if c0 < 0xF5 then
      match r0 with
      | c1 :: c2 :: c3 :: r3 =>
        let lo : UInt8 := if c0 == 0xF0 then 0x90 else 0x80
        let hi : UInt8 := if c0 == 0xF4 then 0x8F else 0xBF
        if lo ≤ c1 && c1 ≤ hi && isCont c2 && isCont c3 then
          some ((c0.toNat - 0xF0) * 262144 + (c1.toNat - 0x80) * 4096 + (c2.toNat - 0x80) * 64 + (c3.toNat - 0x80), r3)
        else some (0xFFFD, r0)
      | _ => some (0xFFFD, r0)
    else some (0xFFFD, r0)

/-- Runes of a byte string as Go's `for _, r := range s` yields them. -/
def utf8DecodeGoAux : Nat → Bytes → List Nat
  | 0, _ => []
  | fuel+1, b =>
    match utf8DecUnit b with
    | none => []
    | some (r, rest) => r :: utf8DecodeGoAux fuel rest

def utf8DecodeGo (b : Bytes) : List Nat := utf8DecodeGoAux b.length b

def utf8Encode (cs : List Nat) : Bytes := cs.flatMap utf8Enc

/-- UTF-16 code units of a scalar value. -/
def utf16Enc (cp : Nat) : List Nat :=
  if cp < 0x10000 then [cp]
  else [0xD800 + (cp - 0x10000) / 1024, 0xDC00 + (cp - 0x10000) % 1024]

def isScalar (cp : Nat) : Bool := cp < 0xD800 || (0xE000 ≤ cp && cp < 0x110000)

/-! ### Unit decoder + fuel loop

  A decoder is given as a non-recursive `unit : Bytes → Option (List β × Bytes)` that consumes
  at least one byte; `decLoop` iterates it.  Round-trip proofs then need one closed step lemma
  per escaper. -/

def decLoop {β : Type} (unit : Bytes → Option (List β × Bytes)) : Nat → Bytes → Option (List β)
  | _, [] => some []
  | 0, _ :: _ => none
  | fuel+1, b@(_ :: _) =>
    match unit b with
    | none => none
    | some (out, rest) => (decLoop unit fuel rest).map (out ++ ·)

/-- Generic round trip, for lists whose elements satisfy `P`. -/
theorem decLoop_roundtrip_on {α β : Type} (P : α → Prop) (unit : Bytes → Option (List β × Bytes))
    (enc : α → Bytes) (out : α → List β)
    (hstep : ∀ a, P a → ∀ rest, unit (enc a ++ rest) = some (out a, rest))
    (hpos : ∀ a, 0 < (enc a).length) :
    ∀ (s : List α), (∀ a ∈ s, P a) → ∀ (fuel : Nat), (s.flatMap enc).length ≤ fuel →
      decLoop unit fuel (s.flatMap enc) = some (s.flatMap out) := by
  intro s
  induction s with
  | nil => intro _ fuel _; cases fuel <;> simp [decLoop]
  | cons a s ih =>
    intro hP fuel hf
    have hp := hpos a
    simp only [List.flatMap_cons, List.length_append] at hf ⊢
    cases fuel with
    | zero => omega
    | succ f =>
      cases hea : enc a with
      | nil => simp [hea] at hp
      | cons x xs =>
        have hs := hstep a (hP a (by simp)) (s.flatMap enc)
        rw [hea] at hs
        simp only [List.cons_append] at hs ⊢
        simp only [decLoop, hs]
        have : (s.flatMap enc).length ≤ f := by
          rw [hea] at hf; simp only [List.length_cons] at hf; omega
        rw [ih (fun b hb => hP b (by simp [hb])) f this]; rfl

theorem decLoop_roundtrip {α β : Type} (unit : Bytes → Option (List β × Bytes))
    (enc : α → Bytes) (out : α → List β)
    (hstep : ∀ a rest, unit (enc a ++ rest) = some (out a, rest))
    (hpos : ∀ a, 0 < (enc a).length) :
    ∀ (s : List α) (fuel : Nat), (s.flatMap enc).length ≤ fuel →
      decLoop unit fuel (s.flatMap enc) = some (s.flatMap out) := by
  intro s fuel hf
  exact decLoop_roundtrip_on (fun _ => True) unit enc out (fun a _ rest => hstep a rest) hpos s
    (fun _ _ => trivial) fuel hf

/-- Enumeration principle for bytes: a decidable predicate that holds for the 256 values holds for all. -/
theorem u8_forall {p : UInt8 → Prop} [DecidablePred p]
    (h : ∀ i : Fin 256, p (UInt8.ofNat i.val)) : ∀ x, p x := by
  intro x
  have := h ⟨x.toNat, x.toNat_lt⟩
  simpa using this

end DyntplV

namespace DyntplV

/-- Lower-case hex digit of `r` at weight `k` (k = 16^i). -/
def hd (r k : Nat) : UInt8 := hexLo (UInt8.ofNat (r / k % 16))

/-- Lower-case hex text without leading zeros, closed form for values below 2^24
    (every rune is below 0x110000).  Go: `strconv.AppendInt(dst, int64(r), 16)`. -/
def hexLoRune (r : Nat) : Bytes :=
  if r < 0x10 then [hd r 1]
  else if r < 0x100 then [hd r 16, hd r 1]
  else if r < 0x1000 then [hd r 256, hd r 16, hd r 1]
  else if r < 0x10000 then [hd r 4096, hd r 256, hd r 16, hd r 1]
  else if r < 0x100000 then [hd r 65536, hd r 4096, hd r 256, hd r 16, hd r 1]
  else [hd r 1048576, hd r 65536, hd r 4096, hd r 256, hd r 16, hd r 1]

/-- Longest prefix satisfying `p`, and the rest. -/
def spanP (p : UInt8 → Bool) : Bytes → Bytes × Bytes
  | [] => ([], [])
  | c :: rest => if p c then ((c :: (spanP p rest).1), (spanP p rest).2) else ([], c :: rest)

/-- Value of a run of hex digits (either case); non-hex bytes count as 0 (callers check first). -/
def hexVal (b : Bytes) : Nat := b.foldl (fun acc c => acc * 16 + ((unhex c).getD 0).toNat) 0
def decVal (b : Bytes) : Nat := b.foldl (fun acc c => acc * 10 + (c.toNat - 48)) 0

/-- `stripPrefix p b` = the rest of `b` after the prefix `p`, if `b` starts with `p`. -/
def stripPrefix : Bytes → Bytes → Option Bytes
  | [], b => some b
  | _ :: _, [] => none
  | p :: ps, c :: cs => if p == c then stripPrefix ps cs else none

end DyntplV
