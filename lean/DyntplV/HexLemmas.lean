import DyntplV.Basic
/-! Helper lemmas about hex digits of runes (used by the rune-level escaper proofs). -/
namespace DyntplV

theorem nib_facts : ∀ n : Fin 16,
    unhex (hexLo (UInt8.ofNat n.val)) = some (UInt8.ofNat n.val) ∧ (UInt8.ofNat n.val).toNat = n.val ∧
    isHex (hexLo (UInt8.ofNat n.val)) = true ∧ (isLower (hexLo (UInt8.ofNat n.val)) || isDigit (hexLo (UInt8.ofNat n.val))) = true := by
  decide +kernel

theorem unhex_hd (r k : Nat) : unhex (hd r k) = some (UInt8.ofNat (r / k % 16)) := by
  have := nib_facts ⟨r / k % 16, Nat.mod_lt _ (by decide)⟩
  exact this.1

theorem toNat_nib (r k : Nat) : (UInt8.ofNat (r / k % 16)).toNat = r / k % 16 := by
  have := nib_facts ⟨r / k % 16, Nat.mod_lt _ (by decide)⟩
  exact this.2.1

theorem isHex_hd (r k : Nat) : isHex (hd r k) = true := by
  have := nib_facts ⟨r / k % 16, Nat.mod_lt _ (by decide)⟩
  exact this.2.2.1

theorem nib_facts2 : ∀ n : Fin 16,
    (hexLo (UInt8.ofNat n.val) == 32) = false ∧ (hexLo (UInt8.ofNat n.val) == 92) = false ∧
    (hexLo (UInt8.ofNat n.val) == 59) = false ∧ (hexLo (UInt8.ofNat n.val) == 38) = false := by
  decide +kernel

theorem hd_ne_sp (r k : Nat) : (hd r k == 32) = false := (nib_facts2 ⟨r / k % 16, Nat.mod_lt _ (by decide)⟩).1
theorem hd_ne_bs (r k : Nat) : (hd r k == 92) = false := (nib_facts2 ⟨r / k % 16, Nat.mod_lt _ (by decide)⟩).2.1
theorem hd_ne_semi (r k : Nat) : (hd r k == 59) = false := (nib_facts2 ⟨r / k % 16, Nat.mod_lt _ (by decide)⟩).2.2.1
theorem hd_ne_amp (r k : Nat) : (hd r k == 38) = false := (nib_facts2 ⟨r / k % 16, Nat.mod_lt _ (by decide)⟩).2.2.2

theorem hd_zero (r k : Nat) (h : r / k % 16 = 0) : hd r k = 48 := by
  unfold hd; rw [h]; rfl

@[simp] theorem spanP_nil (p : UInt8 → Bool) : spanP p [] = ([], []) := rfl
theorem spanP_cons_true (p : UInt8 → Bool) (c : UInt8) (rest : Bytes) (h : p c = true) :
    spanP p (c :: rest) = (c :: (spanP p rest).1, (spanP p rest).2) := by
  simp [spanP, h]
theorem spanP_cons_false (p : UInt8 → Bool) (c : UInt8) (rest : Bytes) (h : p c = false) :
    spanP p (c :: rest) = ([], c :: rest) := by
  simp [spanP, h]

/-- `hexVal` of explicit digit lists. -/
theorem hexVal_cons (c : UInt8) (rest : Bytes) (acc : Nat) :
    (c :: rest).foldl (fun acc c => acc * 16 + ((unhex c).getD 0).toNat) acc =
    rest.foldl (fun acc c => acc * 16 + ((unhex c).getD 0).toNat) (acc * 16 + ((unhex c).getD 0).toNat) := rfl

theorem pad4_eq (r : Nat) (h : r < 0x10000) :
    padZero 4 (hexLoRune r) = [hd r 4096, hd r 256, hd r 16, hd r 1] := by
  unfold hexLoRune
  split
  · have h1 := hd_zero r 4096 (by omega); have h2 := hd_zero r 256 (by omega); have h3 := hd_zero r 16 (by omega)
    simp [padZero, h1, h2, h3, List.replicate]
  split
  · have h1 := hd_zero r 4096 (by omega); have h2 := hd_zero r 256 (by omega)
    simp [padZero, h1, h2, List.replicate]
  split
  · have h1 := hd_zero r 4096 (by omega)
    simp [padZero, h1, List.replicate]
  simp [padZero]


theorem pad2_eq (r : Nat) (h : r < 0x100) : padZero 2 (hexLoRune r) = [hd r 16, hd r 1] := by
  unfold hexLoRune
  split
  · have h1 := hd_zero r 16 (by omega)
    simp [padZero, h1, List.replicate]
  simp [padZero, h]

theorem pad4_big5 (r : Nat) (h1 : 0x10000 ≤ r) (h2 : r < 0x100000) :
    padZero 4 (hexLoRune r) = [hd r 65536, hd r 4096, hd r 256, hd r 16, hd r 1] := by
  unfold hexLoRune
  rw [if_neg (by omega), if_neg (by omega), if_neg (by omega), if_neg (by omega), if_pos h2]
  simp [padZero]

theorem pad4_big6 (r : Nat) (h1 : 0x100000 ≤ r) :
    padZero 4 (hexLoRune r) = [hd r 1048576, hd r 65536, hd r 4096, hd r 256, hd r 16, hd r 1] := by
  unfold hexLoRune
  rw [if_neg (by omega), if_neg (by omega), if_neg (by omega), if_neg (by omega), if_neg (by omega)]
  simp [padZero]

end DyntplV
