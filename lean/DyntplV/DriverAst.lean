import DyntplV.DriverR
import DyntplV.Ast
import DyntplV.Parser.Pre
import DyntplV.Parser.Compile
/-!
  Driver part for the parser oracle.

  `pre <0|1> <srchex>`                                   → `<hex of pre keepFmt src>`
  `ast <0|1> <EncTpl tokens…> | <tree dump tokens…>`     → `same`
                                                          | `diff <path-in-tree> exp=<canonical> got=<canonical>`
                                                          | `skip <reason>`   (AST outside `Compile.inClassTop`)
                                                          | `bad-ast` / `bad-tree`

  The dump is decoded with the tree decoder of `DriverR` (so the comparison is at the level of `Node`:
  per node type only the fields the interpreter reads).  Not theorem-relevant (uses `partial`).
-/
namespace DyntplV.DriverAst
open DyntplV DyntplV.Compile

def hx (b : Bytes) : String := DriverR.hexStr b
def b01 (b : Bool) : String := if b then "1" else "0"

def opStr : Op → String
  | .unk => "unk" | .eq => "==" | .nq => "!=" | .gt => ">" | .gtq => ">=" | .lt => "<" | .ltq => "<="
  | .inc => "++" | .dec => "--"

def argStr (a : Arg) : String := s!"{hx a.name}:{hx a.val}:{b01 a.static}{b01 a.global}"
def argsStr (l : List Arg) : String := "(" ++ ",".intercalate (l.map argStr) ++ ")"
def modStr (m : Mod) : String := hx m.id ++ argsStr m.args
def modsStr (l : List Mod) : String := "[" ++ "|".intercalate (l.map modStr) ++ "]"

/-- Canonical text of a node WITHOUT its children (no blanks). -/
def headStr : Node → String
  | .raw b => s!"raw:{hx b}"
  | .tpl p ms ne pre suf => s!"tpl:{hx p}:mods={modsStr ms}:noesc={b01 ne}:pre={hx pre}:suf={hx suf}"
  | .cond c _ => s!"cond:l={hx c.l}:r={hx c.r}:sl={b01 c.staticL}:sr={b01 c.staticR}:op={opStr c.op}:hlp={hx c.hlp}{argsStr c.hlpArg}:lc={c.lc}"
  | .condOK k _ => s!"condOK:v={hx k.varV}:ok={hx k.varOK}:ins={hx k.ins}:l={hx k.cd.l}:r={hx k.cd.r}:sl={b01 k.cd.staticL}:sr={b01 k.cd.staticR}:op={opStr k.cd.op}:hlp={hx k.cd.hlp}{argsStr k.cd.hlpArg}"
  | .condTrue _ => "true"
  | .condFalse _ => "false"
  | .rloop s _ => s!"rloop:key={hx s.key}:val={hx s.val}:src={hx s.src}:sep={hx s.sep}"
  | .cloop s _ => s!"cloop:cnt={hx s.cnt}:init={hx s.cntInit}:st={b01 s.cntStatic}:step={opStr s.cntOp}:op={opStr s.condOp}:lim={hx s.lim}:lst={b01 s.limStatic}:sep={hx s.sep}"
  | .brk d => s!"break:{d}"
  | .lbrk d => s!"lazybreak:{d}"
  | .cont => "continue"
  | .ctx s => s!"ctx:var={hx s.var}:src={hx s.src}:ok={hx s.ok}:st={b01 s.srcStatic}:ins={hx s.ins}:mods={modsStr s.mods}"
  | .counter s => s!"counter:var={hx s.var}:init={s.init}:initF={b01 s.initF}:op={opStr s.op}:arg={s.opArg}"
  | .switch a _ => s!"switch:{hx a}"
  | .case_ c _ => s!"case:l={hx c.l}:r={hx c.r}:sl={b01 c.staticL}:sr={b01 c.staticR}:op={opStr c.op}:hlp={hx c.hlp}{argsStr c.hlpArg}"
  | .default_ _ => "default"
  | .div => "div"
  | .jsonQ => "jsonquote" | .endJsonQ => "endjsonquote" | .htmlE => "htmlescape" | .endHtmlE => "endhtmlescape"
  | .urlEnc => "urlencode" | .endUrlEnc => "endurlencode"
  | .incl ns => "include:" ++ ",".intercalate (ns.map hx)
  | .exit => "exit"
  | .unknown => "unknown"

def children : Node → List Node
  | .cond _ c | .condTrue c | .condFalse c | .rloop _ c | .cloop _ c | .switch _ c | .case_ _ c | .default_ c => c
  | _ => []

def kindStr (n : Node) : String := ((headStr n).splitOn ":").headD ""

mutual
/-- First difference between two node lists, as `(path, exp, got)`. -/
partial def diffList (path : String) (e g : List Node) : Option (String × String × String) :=
  if e.length != g.length then
    some (path ++ "#", s!"{e.length}[{",".intercalate (e.map kindStr)}]", s!"{g.length}[{",".intercalate (g.map kindStr)}]")
  else
    let rec go (i : Nat) : List Node → List Node → Option (String × String × String)
      | a :: as, b :: bs =>
        match diffNode (if path.isEmpty then toString i else s!"{path}.{i}") a b with
        | some d => some d
        | none => go (i + 1) as bs
      | _, _ => none
    go 0 e g

partial def diffNode (path : String) (e g : Node) : Option (String × String × String) :=
  let he := headStr e
  let hg := headStr g
  if he != hg then some (path, he, hg) else diffList path (children e) (children g)
end

def splitBar (toks : List String) : List String × List String :=
  (toks.takeWhile (· != "|"), (toks.dropWhile (· != "|")).drop 1)

def answerAst (k : String) (rest : List String) : String :=
  let keep := k == "1"
  let (at_, tt) := splitBar rest
  match AstDec.pTpl.run at_ with
  | some (ast, []) =>
    match DriverR.pTree.run tt with
    | some (tree, []) =>
      if !inClassTop ast then "skip out-of-class"
      else match diffList "" (compile keep ast) tree with
        | none => "same"
        | some (p, e, g) => s!"diff {p} exp={e} got={g}"
    | _ => "bad-tree"
  | _ => "bad-ast"

def answer (toks : List String) : Option String :=
  match toks with
  | ["pre", k, src] =>
    match DriverR.unhexStr src with
    | some b => some (hx (Pre.pre (k == "1") b))
    | none => some "bad-op"
  | "ast" :: k :: rest => some (answerAst k rest)
  | _ => none

end DyntplV.DriverAst
