import DyntplV.Impl
/-!
# Square-bracket substitution: basic facts about `replaceQB`

`replaceQBF f` substitutes at most `f` bracket pairs from left to right; `replaceQB` gives it the length of the path as
budget. A path without an opening bracket is returned as it is, whatever the budget.
-/
namespace DyntplV

theorem replaceQBF_plain (f : Nat) (vars : Vars) (k : Bytes) (hb : indexOf 91 k = none) : replaceQBF f vars k = some k := by
  cases f with
  | zero => rfl
  | succ f => simp [replaceQBF, hb]

theorem replaceQB_plain (vars : Vars) (k : Bytes) (hb : indexOf 91 k = none) : replaceQB vars k = some k :=
  replaceQBF_plain _ vars k hb

/-- More budget than the path has bytes changes nothing. -/
theorem replaceQBF_fuel (vars : Vars) : ∀ (f : Nat) (p : Bytes), p.length ≤ f → replaceQBF f vars p = replaceQBF p.length vars p := by
  intro f
  induction f using Nat.strongRecOn with
  | _ f ih =>
    intro p hp
    cases f with
    | zero =>
      have : p.length = 0 := by omega
      rw [this]
    | succ f =>
      cases hl : p.length with
      | zero =>
        have : p = [] := List.eq_nil_of_length_eq_zero hl
        subst this
        simp [replaceQBF, indexOf]
      | succ m =>
        have hm : m ≤ f := by omega
        rw [replaceQBF, replaceQBF]
        cases h91 : indexOf 91 p with
        | none => rfl
        | some l =>
          cases h93 : indexOf 93 p with
          | none => rfl
          | some r =>
            simp only
            by_cases hlr : l < r
            · simp only [hlr, if_true]
              have htl : (p.drop (r + 1)).length ≤ m := by
                rw [List.length_drop]; omega
              have e1 := ih f (by omega) (p.drop (r + 1)) (by omega)
              have e2 : replaceQBF m vars (p.drop (r + 1)) = replaceQBF (p.drop (r + 1)).length vars (p.drop (r + 1)) := by
                by_cases hmf : m = f
                · subst hmf; exact e1
                · exact ih m (by omega) (p.drop (r + 1)) htl
              rw [e1, e2]
            · simp only [hlr, if_false]

end DyntplV
