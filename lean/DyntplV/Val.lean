import DyntplV.Tree
/-!
  Data universe and the inspector operations the interpreter calls (`GetTo`, `Compare`, `Loop`,
  `Length`).  These functions are MODELLED, not verified: they are written from the behaviour of
  `inspector.StaticInspector`, `inspector.StringsInspector` and the code-generated test inspectors on
  well-formed paths, and the correspondence check holds them to the real ones.
-/
namespace DyntplV

/-- Values as the interpreter sees them. Pointer-ness is invisible to dyntpl (every `ConvX`,
    `x2bytes`, `Compare` accepts `T` and `*T` alike), so it is not modelled. -/
inductive Val
  | nil                                   -- nil / missing
  | int (v : Int)                         -- any signed integer kind
  | uint (v : Nat)                        -- any unsigned integer kind
  | float (txt : Bytes)                   -- float64, carried as strconv's shortest 'f' text (exact decimal class)
  | bool (b : Bool)
  | str (s : Bytes)
  | bytes (s : Bytes)
  | obj (fs : List (Bytes × Val))         -- struct (or pointer to struct) with a code-generated inspector
  | list (xs : List Val)                  -- slice of structs
  | strs (xs : List Bytes)                -- []string with StringsInspector
  | other                                 -- anything x2bytes cannot convert (time, map, …)
  deriving Repr, Inhabited

/-- Which inspector is attached to a variable. -/
inductive InsKind | static | strings | obj
  deriving DecidableEq, Repr, Inhabited

/-- `x2bytes.ToBytes`: canonical text of a scalar; `none` = ErrUnknownType. -/
def Val.text : Val → Option Bytes
  | .int v => some (decInt v)
  | .uint v => some (decNat v)
  | .float t => some t
  | .bool b => some (if b then lit "true" else lit "false")
  | .str s => some s
  | .bytes s => some s
  | _ => none

def Val.isNil : Val → Bool
  | .nil => true
  | _ => false

/-- `raw == nil || raw == ""` in writeNode: nil, or a (non-pointer) empty string. Pointer-to-empty
    strings are not caught here in Go but print nothing all the same (empty text). -/
def Val.isNilOrEmptyStr : Val → Bool
  | .nil => true
  | .str [] => true
  | _ => false

/-! ### Exact decimals (the float class of the model) -/

/-- A decimal `m · 10^-e`. -/
structure Dec where
  m : Int
  e : Nat
  deriving Repr, Inhabited

/-- Parse `[-]digits[.digits]`. -/
def parseDec (b : Bytes) : Option Dec :=
  let (neg, body) := match b with
    | 45 :: r => (true, r)
    | 43 :: r => (false, r)
    | r => (false, r)
  let ip := body.takeWhile isDigit
  let rest := body.drop ip.length
  let fp := match rest with
    | 46 :: r => some r
    | [] => some []
    | _ => none
  match fp with
  | none => none
  | some fp =>
    if !(fp.all isDigit) || (ip.isEmpty && fp.isEmpty) then none else
    let n := (ip ++ fp).foldl (fun acc c => acc * 10 + (c.toNat - 48)) 0
    some { m := if neg then - (Int.ofNat n) else Int.ofNat n, e := fp.length }

def Dec.cmp (a b : Dec) : Ordering :=
  compare (a.m * (10 : Int) ^ b.e) (b.m * (10 : Int) ^ a.e)

/-- Parse a decimal integer literal the way `strconv.ParseInt(s, 0, 0)` reads plain decimal text
    (the model's literal class: optional sign, digits, no leading zero, no underscores/prefixes). -/
def parseIntLit (b : Bytes) : Option Int :=
  match b with
  | 45 :: r => (parseNatDec r).map (fun n => - Int.ofNat n)
  | 43 :: r => (parseNatDec r).map Int.ofNat
  | r => (parseNatDec r).map Int.ofNat

/-- `strconv.ParseInt(s, 0, 0)` on a decimal literal: out of the `int64` range is an error. -/
def parseInt64Lit (b : Bytes) : Option Int :=
  (parseIntLit b).bind (fun r => if -9223372036854775808 ≤ r ∧ r ≤ 9223372036854775807 then some r else none)

/-- `strconv.ParseUint(s, 0, 0)` on a decimal literal: a sign or a value beyond `uint64` is an error. -/
def parseUint64Lit (b : Bytes) : Option Int :=
  (parseIntLit b).bind (fun r => if 0 ≤ r ∧ r ≤ 18446744073709551615 then some r else none)

def parseBoolLit (b : Bytes) : Option Bool :=
  if b == lit "true" || b == lit "1" || b == lit "t" || b == lit "T" || b == lit "TRUE" || b == lit "True" then some true
  else if b == lit "false" || b == lit "0" || b == lit "f" || b == lit "F" || b == lit "FALSE" || b == lit "False" then some false
  else none

def cmpOrd (o : Op) (ord : Ordering) : Bool :=
  match o with
  | .eq => ord == .eq
  | .nq => ord != .eq
  | .gt => ord == .gt
  | .gtq => ord != .lt
  | .lt => ord == .lt
  | .ltq => ord != .gt
  | _ => false

/-- Byte-wise lexicographic order (Go string comparison). -/
def bytesCmp : Bytes → Bytes → Ordering
  | [], [] => .eq
  | [], _ => .lt
  | _, [] => .gt
  | a :: as, b :: bs => if a < b then .lt else if a > b then .gt else bytesCmp as bs

/-- Result of `Inspector.Compare` on a leaf: `none` = the result buffer is left untouched
    (static inspector on an unparsable literal), which after the repair of `Ctx.cmp` reads as `false`;
    `some r` = result written. Errors of code-generated inspectors on unparsable literals are
    outside the model's literal class. -/
def Val.cmpLit (v : Val) (o : Op) (right : Bytes) : Option Bool :=
  match v with
  | .int a => (parseInt64Lit right).map (fun r => cmpOrd o (compare a r))
  | .uint a => (parseUint64Lit right).map (fun r => cmpOrd o (compare (Int.ofNat a) r))
  | .float t => match parseDec t, parseDec right with
    | some a, some r => some (cmpOrd o (a.cmp r))
    | _, _ => none
  | .bool a => (parseBoolLit right).map (fun r => match o with
    | .eq => a == r | .nq => a != r | _ => false)
  | .bytes a => some (match o with | .eq => a == right | .nq => a != right | _ => false)
  | .str a => some (cmpOrd o (bytesCmp a right))
  | _ => some false

/-! ### Path resolution (`GetTo`) -/

def lookupField (k : Bytes) : List (Bytes × Val) → Option Val
  | [] => none
  | (k', v) :: rest => if k == k' then some v else lookupField k rest

/-- Code-generated inspector (inspc output for the test objects) on a path: fields by name, slice
    elements by decimal index. `top` = we are at the variable itself. Quirks mirrored from the generated
    `GetTo`: an unknown field of the variable or a nil pointer on the way yields nil; an unknown field
    of a nested struct yields that struct; for a slice, an index out of range, an index without a
    sub-field, or an unknown sub-field all yield the slice itself. -/
def getPathObjAux (top : Bool) : Val → List Bytes → Val
  | v, [] => v
  | .obj fs, p :: ps => match lookupField p fs with
    | some .nil => .nil
    | some v' => getPathObjAux false v' ps
    | none => if top then .nil else .obj fs
  | .list xs, p :: ps => match parseNatDec p with
    | some i => match xs[i]?, ps with
      | some (.obj fs), [q] => match lookupField q fs with
        | some v' => v'
        | none => .list xs
      | _, _ => .list xs
    | none => .nil
  | _, _ :: _ => .nil

def getPathObj (v : Val) (path : List Bytes) : Val := getPathObjAux true v path

/-- `Inspector.GetTo(val, &buf, path...)` per inspector kind. -/
def insGet (k : InsKind) (v : Val) (path : List Bytes) : Val :=
  match k with
  | .static => v                       -- StaticInspector ignores the path
  | .strings => match v, path with     -- StringsInspector: exactly one index chunk
    | .strs xs, [p] => match parseNatDec p with
      | some i => match xs[i]? with
        | some s => .str s
        | none => .nil
      | none => .nil
    | _, _ => .nil
  | .obj => getPathObj v path

/-- The code-generated inspectors parse a slice index with `strconv.ParseInt` and the strings inspector with
    `strconv.Atoi`, and hand the error back: `true` = `GetTo` fails on this path (a chunk that should be an
    index is not a number — e.g. the empty chunk `a[k].b` leaves when `k` is unset). -/
def pathIdxErr : Val → List Bytes → Bool
  | .obj fs, p :: ps => match lookupField p fs with
    | some v' => pathIdxErr v' ps
    | none => false
  | .list _, p :: _ => (parseNatDec p).isNone
  | _, _ => false

def insGetErr (k : InsKind) (v : Val) (path : List Bytes) : Bool :=
  match k with
  | .static => false
  | .strings => match v, path with
    | .strs _, [p] => (parseNatDec p).isNone
    | _, _ => false
  | .obj => pathIdxErr v path

/-- `Inspector.Compare`. -/
def insCompare (k : InsKind) (v : Val) (path : List Bytes) (o : Op) (right : Bytes) : Option Bool :=
  match k with
  | .static => v.cmpLit o right
  | .strings => match v, path with
    | .strs xs, [p] => match parseNatDec p with
      | some i => some (cmpOrd o (bytesCmp (xs[i]?.getD []) right))
      | none => none
    | _, _ => none
  | .obj => match getPathObj v path with
    | .nil => none
    | leaf => leaf.cmpLit o right

/-- `Inspector.Compare` returns an error: the code-generated inspectors parse the right side into the
    field's own type (`strconv.ParseInt / ParseUint / ParseFloat / ParseBool`) and pass the error on; the
    static and strings inspectors never fail. -/
def insCompareErr (k : InsKind) (v : Val) (path : List Bytes) (o : Op) (right : Bytes) : Bool :=
  match k with
  | .obj => match getPathObj v path with
    | .int n => ((Val.int n).cmpLit o right).isNone
    | .uint n => ((Val.uint n).cmpLit o right).isNone
    | .float t => ((Val.float t).cmpLit o right).isNone
    | .bool b => ((Val.bool b).cmpLit o right).isNone
    | _ => false
  | _ => false

/-- Strict path walk for `Length` of the code-generated inspectors: `none` as soon as a chunk does not
    resolve (the result buffer then stays at the 0 it was initialised with). -/
def strictPathObj : Val → List Bytes → Option Val
  | v, [] => some v
  | .obj fs, p :: ps => match lookupField p fs with
    | some v' => strictPathObj v' ps
    | none => none
  | .list xs, p :: ps => match parseNatDec p with
    | some i => match xs[i]? with
      | some v' => strictPathObj v' ps
      | none => none
    | none => none
  | _, _ :: _ => none

def lenOf : Val → Nat
  | .str s => s.length
  | .bytes s => s.length
  | .list xs => xs.length
  | .strs xs => xs.length
  | _ => 0

/-- `Inspector.Length`: `none` = the result buffer is left untouched (StringsInspector on a path it
    does not resolve; outside the generated class). -/
def insLength (k : InsKind) (v : Val) (path : List Bytes) : Option Nat :=
  match k with
  | .static => some (lenOf v)                       -- StaticInspector ignores the path; 0 for non-sequences
  | .strings => match v, path with
    -- (the result buffer is zeroed before the call — repair —, so "left untouched" reads 0;
    --  `none` is the error of `strconv.Atoi` on a non-numeric index)
    | .strs xs, [] => some xs.length
    | .strs xs, [p] => match parseNatDec p with
      | some i => some ((xs[i]?).map List.length |>.getD 0)
      | none => none
    | _, _ => some 0
  | .obj => some (match strictPathObj v path with
    | some leaf => lenOf leaf
    | none => 0)

/-- Elements `Inspector.Loop` hands to the iterator: (key text, value, value's inspector). -/
def insLoop (k : InsKind) (v : Val) (path : List Bytes) : List (Bytes × Val × InsKind) :=
  match k with
  | .static => []
  | .strings => match v, path with
    | .strs xs, [] => (List.range xs.length).zip xs |>.map (fun (i, s) => (decNat i, Val.str s, InsKind.static))
    | _, _ => []
  | .obj => match getPathObj v path with
    | .list xs => (List.range xs.length).zip xs |>.map (fun (i, x) => (decNat i, x, InsKind.obj))
    | _ => []

end DyntplV
