import DyntplV.DriverC06
/-! Stand-alone test driver for the `conc` request (C06): `lake env lean --run TestC06.lean`. -/
partial def loop (hin hout : IO.FS.Stream) : IO Unit := do
  let line ← hin.getLine
  if line.isEmpty then return ()
  let l := String.ofList (line.toList.filter (fun c => c != '\n' && c != '\r'))
  match DyntplV.DriverC06.answer ((l.splitOn " ").filter (· ≠ "")) with
  | some a => hout.putStrLn a
  | none => hout.putStrLn "bad-op"
  loop hin hout

def main : IO Unit := do
  let hin ← IO.getStdin
  let hout ← IO.getStdout
  loop hin hout
  hout.flush
