import DyntplV.DriverC12
/-! Stand-alone line driver for the C12 requests (`lake env lean --run TestC12.lean`, or compiled by
    /verif/.work/build_drv_c12.sh). Same protocol as `DyntplV.Driver`: one request per line. -/
open DyntplV

partial def loopC12 (hin hout : IO.FS.Stream) : IO Unit := do
  let line ← hin.getLine
  if line.isEmpty then return ()
  let l := String.ofList (line.toList.filter (fun c => c != '\n' && c != '\r'))
  let toks := (l.splitOn " ").filter (· ≠ "")
  hout.putStrLn ((DriverC12.answer toks).getD "bad-op")
  loopC12 hin hout

def main : IO Unit := do
  let hin ← IO.getStdin
  let hout ← IO.getStdout
  loopC12 hin hout
  hout.flush
