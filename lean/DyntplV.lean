import DyntplV.Basic
import DyntplV.Esc.Url
import DyntplV.Esc.Json
import DyntplV.Esc.Html
import DyntplV.Props.C09
import DyntplV.Props.C07
import DyntplV.Props.C08
