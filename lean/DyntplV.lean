import DyntplV.Basic
import DyntplV.Esc.Url
import DyntplV.Props.C09
