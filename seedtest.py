#!/usr/bin/env python3
"""
./seedtest.py [--checks C01,C02] [--tier quick] [--jobs N] <seed-dir>...

Developer tool (not registered in MANIFEST.json): runs checks against seeded changes of koykov/dyntpl.

For every seed directory (patch.diff, demo_test.go, meta.json) it makes a scratch copy of /repo under
/tmp/seedns/<name>/, applies the patch THERE, and runs everything in a private mount namespace in which the
scratch copy is bind-mounted over /repo (and private directories over /verif/evidence, /verif/replays and
/verif/.work), so the checks run exactly as registered ("./check <ID> --tier quick", building from /repo)
while the real /repo and the real evidence files are never touched, and several seeds can run in parallel.
Confirms: the repository's own test suite passes with the patch, the demonstration fails with it and passes
without it. Prints one JSON object per seed; scratch copies are removed afterwards.

Seeds whose check regenerates Lean sources from /repo (C06: the extractor writes lean/DyntplV/Generated)
share the Lean build directory and must not run in parallel with anything: use --jobs 1 for them.
"""
import sys, os, json, subprocess, shutil, concurrent.futures

ENV = dict(os.environ, GOFLAGS="-mod=mod", GOPROXY="off", GOSUMDB="off", GOTOOLCHAIN="local")
BASE = "/tmp/seedns"
SNAP = None


def sh(cmd, cwd=None, timeout=7200, env=None):
    p = subprocess.run(cmd, cwd=cwd, env=env or ENV, stdout=subprocess.PIPE, stderr=subprocess.STDOUT, text=True, timeout=timeout)
    return p.returncode, "\n".join(l for l in p.stdout.splitlines() if "conda.cli" not in l)


def in_ns(scr, script, env=None):
    mounts = (f"mount --bind {scr}/repo /repo && mount --bind {scr}/ev /verif/evidence && "
              f"mount --bind {scr}/rp /verif/replays && mount --bind {scr}/work /verif/.work && ")
    if os.path.isdir(f"{scr}/harness"):
        # a snapshot of the harness sources taken when the seed was started: the developer may go on editing /verif/harness
        mounts += f"mount --bind {scr}/harness /verif/harness && "
    return sh(["unshare", "-m", "sh", "-c", mounts + script], env=env)


def one(d, checks, tier):
    d = os.path.abspath(d)
    name = os.path.basename(d)
    meta = json.load(open(os.path.join(d, "meta.json")))
    prop = meta["property"]
    checks = checks or [prop]
    scr = os.path.join(BASE, name)
    shutil.rmtree(scr, ignore_errors=True)
    for sub in ("ev", "rp", "work"):
        os.makedirs(os.path.join(scr, sub))
    res = {"seed": name, "property": prop}
    try:
        sh(["cp", "-r", "/repo", os.path.join(scr, "repo")])
        if SNAP:
            sh(["cp", "-r", SNAP, os.path.join(scr, "harness")])
        sh(["git", "-C", os.path.join(scr, "repo"), "checkout", "--", "."])
        has_demo = os.path.exists(os.path.join(d, "demo_test.go"))
        if has_demo:
            shutil.copy(os.path.join(d, "demo_test.go"), os.path.join(scr, "repo", "zz_mutdemo_test.go"))
            rc, out = in_ns(scr, "cd /repo && go test -vet=off -count=1 -run TestMutDemo . 2>&1 | tail -5")
            res["demo_passes_without_patch"] = "ok  " in out and "FAIL" not in out
        rc, out = sh(["git", "-C", os.path.join(scr, "repo"), "apply", os.path.join(d, "patch.diff")])
        if rc != 0:
            res["error"] = "patch does not apply: " + out[-300:]
            return res
        if has_demo:
            rc, out = in_ns(scr, "cd /repo && go test -vet=off -count=1 -run TestMutDemo . 2>&1 | tail -5")
            res["demo_fails_with_patch"] = "FAIL" in out
            os.remove(os.path.join(scr, "repo", "zz_mutdemo_test.go"))
        rc, out = in_ns(scr, "cd /repo && go test -mod=mod -vet=off -count=1 ./... 2>&1 | tail -3")
        res["suite_passes_with_patch"] = "FAIL" not in out and "ok  " in out
        caught = {}
        for c in checks:
            e = dict(ENV, VERIF_TIER=tier)
            rc, out = in_ns(scr, f"cd /verif && ./check {c} --tier {tier}; echo CHECK_RC=$?", env=e)
            v = [l for l in out.splitlines() if l.startswith("VIOLATION")]
            k = [l for l in out.splitlines() if l.startswith("KNOWN-FINDING")]
            rcl = [l for l in out.splitlines() if l.startswith("CHECK_RC=")]
            first = ""
            if v:
                rp = v[0].split("replay=")[1].split()[0]
                try:
                    first = json.dumps(json.load(open(os.path.join(scr, "rp", os.path.basename(rp)))))[:600]
                except Exception as ex:
                    first = v[0]
            caught[c] = {"rc": int(rcl[-1].split("=")[1]) if rcl else -1, "violations": len(v), "known": len(k),
                         "no_failing_input": any("no-failing-input-found" in l for l in v), "first": first,
                         "internal": [l for l in out.splitlines() if l.startswith("INTERNAL-ERROR")][:2]}
        res["checks"] = caught
    finally:
        shutil.rmtree(scr, ignore_errors=True)
    return res


def main():
    tier, checks, jobs, dirs = "quick", None, 4, []
    a = sys.argv[1:]
    while a:
        if a[0] == "--checks":
            checks = a[1].split(","); a = a[2:]
        elif a[0] == "--tier":
            tier = a[1]; a = a[2:]
        elif a[0] == "--jobs":
            jobs = int(a[1]); a = a[2:]
        else:
            dirs.append(a[0]); a = a[1:]
    os.makedirs(BASE, exist_ok=True)
    global SNAP
    if os.environ.get("SEEDTEST_SNAPSHOT"):
        # SEEDTEST_SNAPSHOT=1: copy /verif/harness once now; every seed of this run uses that copy
        SNAP = os.path.join(BASE, "_harness_snapshot_%d" % os.getpid())
        shutil.rmtree(SNAP, ignore_errors=True)
        sh(["cp", "-r", "/verif/harness", SNAP])
    with concurrent.futures.ThreadPoolExecutor(max_workers=jobs) as ex:
        for r in ex.map(lambda d: one(d, checks, tier), dirs):
            print(json.dumps(r), flush=True)
    if SNAP:
        shutil.rmtree(SNAP, ignore_errors=True)
    try:
        os.rmdir(BASE)
    except OSError:
        pass
    return 0


if __name__ == "__main__":
    sys.exit(main())
