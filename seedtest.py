#!/usr/bin/env python3
"""
./seedtest.py <seed-dir> [--checks C01,C02,...] [--tier quick]

Applies seeded/<id>/patch.diff to /repo, confirms that the repository's own tests still pass and that the
demonstration fails with the change, runs the given checks (default: the property named in meta.json),
and ALWAYS restores /repo (git checkout -- . and removal of the demo file). Prints which checks raised a
VIOLATION. Used only while developing the checks; nothing here is registered in MANIFEST.json.
"""
import sys, os, json, subprocess, shutil

ENV = dict(os.environ, GOFLAGS="-mod=mod", GOPROXY="off", GOSUMDB="off", GOTOOLCHAIN="local")


def sh(cmd, cwd=None, timeout=3600):
    p = subprocess.run(cmd, cwd=cwd, env=ENV, stdout=subprocess.PIPE, stderr=subprocess.STDOUT, text=True, timeout=timeout)
    return p.returncode, p.stdout


def main():
    d = os.path.abspath(sys.argv[1])
    tier = "quick"
    checks = None
    a = sys.argv[2:]
    while a:
        if a[0] == "--checks":
            checks = a[1].split(","); a = a[2:]
        elif a[0] == "--tier":
            tier = a[1]; a = a[2:]
        else:
            a = a[1:]
    meta = json.load(open(os.path.join(d, "meta.json")))
    prop = meta["property"]
    checks = checks or [prop]
    rc, out = sh(["git", "-C", "/repo", "status", "--short"])
    if out.strip():
        print("refusing: /repo is not clean:\n" + out); return 2
    res = {"seed": os.path.basename(d), "property": prop}
    demo = os.path.join("/repo", "zz_mutdemo_test.go")
    try:
        rc, out = sh(["git", "-C", "/repo", "apply", os.path.join(d, "patch.diff")])
        if rc != 0:
            print("patch does not apply:", out); return 2
        rc, out = sh(["go", "test", "-vet=off", "-count=1", "./..."], cwd="/repo")
        res["suite_passes_with_patch"] = rc == 0
        if os.path.exists(os.path.join(d, "demo_test.go")):
            shutil.copy(os.path.join(d, "demo_test.go"), demo)
            rc, out = sh(["go", "test", "-vet=off", "-count=1", "-run", "TestMutDemo", "."], cwd="/repo")
            res["demo_fails_with_patch"] = rc != 0
            os.remove(demo)
        caught = {}
        for c in checks:
            e = dict(ENV, VERIF_TIER=tier)
            p = subprocess.run(["./check", c, "--tier", tier], cwd="/verif", env=e, stdout=subprocess.PIPE, stderr=subprocess.STDOUT, text=True)
            v = [l for l in p.stdout.splitlines() if l.startswith("VIOLATION")]
            caught[c] = {"rc": p.returncode, "violations": len(v), "no_failing_input": any("no-failing-input-found" in l for l in v),
                         "first": v[0] if v else ""}
        res["checks"] = caught
    finally:
        if os.path.exists(demo):
            os.remove(demo)
        sh(["git", "-C", "/repo", "checkout", "--", "."])
    # demo on the clean tree
    if os.path.exists(os.path.join(d, "demo_test.go")):
        shutil.copy(os.path.join(d, "demo_test.go"), demo)
        rc, out = sh(["go", "test", "-vet=off", "-count=1", "-run", "TestMutDemo", "."], cwd="/repo")
        res["demo_passes_without_patch"] = rc == 0
        os.remove(demo)
    print(json.dumps(res, indent=1))
    return 0


if __name__ == "__main__":
    sys.exit(main())
